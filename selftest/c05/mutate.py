#!/usr/bin/env python3
"""mutate.py <worktree> [vroot] [names...]
C05 self-validation: applies each break of mutations.json (a list of edits
{file, old, new}, every `old` must occur exactly once) to a scratch worktree of
/repo, runs `VERIF_REPO=<worktree> bin/vcheck C05 quick`, prints exit code and
the new violation keys, and restores the files. Never touches /repo.
vroot: a VERIF_ROOT whose known_findings.json lists the C05 hand-off finding
(symlinks bin, harness, .build to /verif) so that only new keys make exit 1."""
import json, os, subprocess, sys, time
wt = sys.argv[1]
vroot = sys.argv[2] if len(sys.argv) > 2 and sys.argv[2] != "-" else None
names = sys.argv[3:]
muts = json.load(open(os.path.join(os.path.dirname(os.path.abspath(__file__)), "mutations.json")))
for m in muts:
    if names and not any(m["name"].startswith(n) for n in names):
        continue
    saved = {}
    ok = True
    for e in m["edits"]:
        path = os.path.join(wt, e["file"])
        src = saved.get(path) or open(path).read()
        cur = open(path).read()
        if cur.count(e["old"]) != 1:
            print(f"## {m['name']}: pattern in {e['file']} occurs {cur.count(e['old'])} times - skipped"); ok = False; break
        saved.setdefault(path, src)
        open(path, "w").write(cur.replace(e["old"], e["new"]))
    try:
        if ok:
            env = dict(os.environ, VERIF_REPO=wt)
            if vroot: env["VERIF_ROOT"] = vroot
            t0 = time.time()
            r = subprocess.run(["/verif/bin/vcheck", "C05", "quick"] + ([] ), env=env, capture_output=True, text=True)
            keys = sorted(set(l.split("key=",1)[1].split(" : ")[0] for l in r.stdout.splitlines() if "key=" in l and "KNOWN-FINDING" not in l))
            extra = [l for l in r.stdout.splitlines() if "build failed" in l or "inconclusive" in l.lower()]
            print(f"## {m['name']}: exit={r.returncode} wall={time.time()-t0:.0f}s new_keys={keys[:10]} {extra[:3]}")
            if r.returncode not in (0, 1): print(r.stdout[-2500:])
    finally:
        for path, src in saved.items():
            open(path, "w").write(src)
