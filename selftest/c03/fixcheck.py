#!/usr/bin/env python3
"""fixcheck.py [names...] — applies each fix of C03_fixes.json alone to the scratch
worktree /tmp/wt-c03, rebuilds w_c03 against it, runs the canonical battery + quick
random part for the affected opcode only, checks that the finding keys the fix is
meant to remove are gone and that no new key appeared for that opcode, and writes
`git diff` as <name>.diff next to this file. Never touches /repo."""
import json, os, subprocess, sys, hashlib
here = os.path.dirname(os.path.abspath(__file__))
wt = '/tmp/wt-c03'
fixes = json.load(open(os.path.join(here, 'C03_fixes.json')))
names = sys.argv[1:]
tag = hashlib.md5(wt.encode()).hexdigest()[:8]
binp = f'/verif/.build/alt-{tag}/w_c03'
def build():
    r = subprocess.run(['/verif/bin/vbuild', 'w_c03'], env=dict(os.environ, VERIF_REPO=wt), capture_output=True, text=True)
    if r.returncode != 0:
        print(r.stdout, r.stderr); raise SystemExit('build failed')
def keys(only, root):
    dump = f'/tmp/c03_fix_dump_{os.getpid()}.json'
    env = dict(os.environ, C03_ONLY=only, C03_DUMP=dump, VERIF_ROOT=root, VERIF_OUT_ROOT=root)
    subprocess.run([binp, 'quick'], env=env, capture_output=True, text=True, cwd='/tmp')
    d = json.load(open(dump)) or []; os.remove(dump)
    return {r['key'] for r in d}
root = '/tmp/c03fixroot'; os.makedirs(root, exist_ok=True)
open(os.path.join(root, 'known_findings.json'), 'w').write('[]')
subprocess.run(['git', '-C', wt, 'checkout', '--', '.'], check=True)
build()
base = {}
for f in fixes:
    if names and f['name'] not in names: continue
    if f['only'] not in base: base[f['only']] = keys(f['only'], root)
for f in fixes:
    if names and f['name'] not in names: continue
    path = os.path.join(wt, f['file']); src = open(path).read()
    if src.count(f['old']) != 1:
        print(f"## {f['name']}: pattern occurs {src.count(f['old'])} times - skipped"); continue
    open(path, 'w').write(src.replace(f['old'], f['new']))
    try:
        build()
        after = keys(f['only'], root)
        gone = [k for k in f['removes'] if k not in after]
        still = [k for k in f['removes'] if k in after]
        new = sorted(after - base[f['only']])
        diff = subprocess.run(['git', '-C', wt, 'diff'], capture_output=True, text=True).stdout
        open(os.path.join(here, f['name'] + '.diff'), 'w').write(diff)
        print(f"## {f['name']}: removed={len(gone)}/{len(f['removes'])} still={still} new_keys={new} remaining_for_opcode={sorted(after)}")
    finally:
        open(path, 'w').write(src)
