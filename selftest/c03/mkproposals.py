#!/usr/bin/env python3
"""mkproposals.py <dump.json>... — merges C03_DUMP files of several runs (seeds / tiers)
into /verif/harness/cmd/w_c03/proposed_known_findings.json: one entry per
mismatching (arch, format, opcode, field) with behaviour fingerprint, the manual
text it contradicts and a classification."""
import json, re, sys
rules = [
 (r'\|any\|operand\|(vccz|execz)\|', 'GENUINE (register access): operand codes 251/252 (VCCZ/EXECZ, GCN3 ISA table 6.1 "251 VCCZ { zeros, VCCZ }", "252 EXECZ") decode but emu.Wavefront.ReadReg panics "Register type not supported"; every opcode that names them as a source crashes'),
 (r'\|any\|operand\|tma\|', 'GENUINE (decoder, overlaps C04): SMEM with IMM=0 and OFFSET=124 (M0; GCN3 ISA 7.1 "m_offset = IMM ? OFFSET : SGPR[OFFSET]", offset register "SGPR or M0") is decoded as SGPR number 124 = TMA; reading it panics'),
 (r'\|SMEM\|.*\|(D|MEMREAD)$', 'GENUINE, low impact: the manual aligns the address ("m_addr = (SGPR[SBASE] + m_offset) & ~0x3"); the implementation reads at the unaligned address when base or offset have low bits set'),
 (r'\|FLAT\|.*load_(ubyte|sbyte|ushort).*MEMREAD', 'GENUINE, low impact: byte/short loads read a whole dword from memory (3 resp. 2 bytes beyond the element); the loaded register value is right, but the extra bytes can lie in an unmapped page'),
 (r'@timing$', 'GENUINE, specific to the timing-side state backing (wavefront.Wavefront + cu.CURegFileAccessor): the same decoded instruction gives the manual\'s result on emu.Wavefront; the decoder marks a 32-bit scalar operand as a 64-bit register pair and the two accessors resolve VCC_HI/EXEC_HI/M0 pairs differently'),
 (r'CRASH:runtime error: slice bounds out of range', 'GENUINE (decoder operand width, overlaps C04): a 32-bit operand (shift count / lane data) is decoded with RegCount 2, so naming the last register of the file (s101 / v255) reads past the register file'),
 (r'VOP3B\|285\|.*CRASH', 'GENUINE (decoder, overlaps C04): the VOP3b decoder drops SRC2 (carry-in) of v_subb_u32_e64; the handler dereferences the nil operand'),
 (r'\|VOPC\|2(3[3-9])\|', 'GENUINE (decoder operand width, overlaps C04): VOPC e32 compares on 64-bit operands decode both sources with RegCount 1, so only the low dwords are compared'),
 (r's_abs_i32\|SCC', 'GENUINE, but the pinned test TestSOP1Opcode48SABSI32 asserts the wrong rule (SCC = input was negative); manual: "SCC=1 if result is non-zero"'),
 (r'\|VOP3B\|28[123]\|.*SDST|v_add(c)?_co_u32\|VCC$|v_sub(b|brev)_co_u32\|VCC$', 'GENUINE per GCN3 ISA 3.x "VCC is always fully written; there are no partial mask updates": carry-out bits of inactive lanes keep their old value instead of becoming 0'),
 (r'v_mov_b64\|D', 'GENUINE w.r.t. docs/cdna3_insts.pdf (13.3 VOP1 opcode 56 = V_MOV_B64): the CDNA3 ALU (and its pinned test TestVOP1Opcode56VMOVRELSDB32) treat opcode 56 as GCN3\'s V_MOVRELSD_B32, i.e. a 32-bit move; the high dword of the destination pair is not written'),
 (r'v_fm(amk|aak)_f32\|D', 'GENUINE: CDNA3 VOP2 23/24 are V_FMAMK_F32/V_FMAAK_F32 (fused, one rounding); the ALU computes GCN3\'s V_MADMK/V_MADAK (product rounded to f32 first)'),
 (r'v_fma(c)?_f(32|64)\|D$', 'GENUINE: not fused: the product is rounded (and can overflow to inf) before the addition, e.g. max*max + -inf gives NaN instead of -inf; manual: "A single round is performed on the sum"'),
 (r'v_m(in|ax)_f32\|D$', 'GENUINE: a NaN operand is propagated; the manual\'s rule (both MODE.ieee settings) returns the other operand for a quiet NaN: "else if (S0.f==NaN) result = S1.f; else if (S1.f==NaN) result = S0.f"'),
 (r'/sdwa', 'GENUINE for the SDWA form (the handler accepts SDWA but ignores DST_UNUSED / SEXT / the selects; GCN3 ISA 13 "VOP_SDWA")'),
 (r'/clamp', 'GENUINE: VOP3 CLAMP is silently ignored (GCN3 ISA 6.5 "For floating point operations, it clamps the result to the range: [0.0, 1.0]")'),
]
entries = {}
for p in sys.argv[1:]:
    for r in (json.load(open(p)) or []):
        k = r['key']
        e = entries.get(k)
        if e is None:
            cls = 'GENUINE'
            for pat, txt in rules:
                if re.search(pat, k):
                    cls = txt; break
            w = r.get('witness') or {}
            mm = (w.get('mismatches') or [{}])[0] if w.get('mismatches') else {}
            man = (w.get('manual') or '').strip()
            what = r['what']
            what = re.sub(r' \[\d+ of \d+ executions\]', '', what)
            if man: what += ' | manual: ' + man
            what += ' | ' + cls
            c = w.get('case') or {}
            wit = {'instruction': w.get('instruction'), 'mnemonic': w.get('mnemonic'), 'operand_kinds': c.get('operand_kinds'),
                   'inputs': {a: b for a, b in (w.get('inputs') or {}).items() if b not in ('', None)}, 'mismatches': (w.get('mismatches') or [])[:2],
                   'manual': man, 'replay_case': {'class': c.get('class'), 'idx': c.get('idx'), 'backing': c.get('backing')}}
            entries[k] = {'property': 'C03', 'key': k, 'what': what, 'status': 'open', 'fingerprint': r.get('fingerprint', ''), 'witness': wit}
        elif e['fingerprint'] != r.get('fingerprint', ''):
            print('fingerprint differs between runs:', k, e['fingerprint'], r.get('fingerprint'), file=sys.stderr)
out = [entries[k] for k in sorted(entries)]
json.dump(out, open('/verif/harness/cmd/w_c03/proposed_known_findings.json', 'w'), indent=1)
print(len(out), 'entries')
