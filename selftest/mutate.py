#!/usr/bin/env python3
"""mutate.py <ID> <worktree> <mutations.json> [vroot]
Applies each mutation (file, old, new; exactly one occurrence) to a scratch
worktree of /repo, runs `VERIF_REPO=<worktree> bin/vcheck <ID> quick`, prints
exit code + new violation keys, and restores the file. Never touches /repo."""
import json, os, subprocess, sys
pid, wt, mfile = sys.argv[1:4]
vroot = sys.argv[4] if len(sys.argv) > 4 else None
muts = json.load(open(mfile))
for m in muts:
    path = os.path.join(wt, m["file"])
    src = open(path).read()
    n = src.count(m["old"])
    if n != 1:
        print(f"## {m['name']}: pattern occurs {n} times - skipped"); continue
    open(path, "w").write(src.replace(m["old"], m["new"]))
    env = dict(os.environ, VERIF_REPO=wt)
    if vroot: env["VERIF_ROOT"] = vroot
    try:
        r = subprocess.run(["/verif/bin/vcheck", pid, "quick"], env=env, capture_output=True, text=True)
        keys = [l.split("key=",1)[1].split(" : ")[0] for l in r.stdout.splitlines() if "key=" in l and "KNOWN-FINDING" not in l]
        extra = [l for l in r.stdout.splitlines() if "build failed" in l or "inconclusive" in l.lower()]
        print(f"## {m['name']}: exit={r.returncode} new_keys={keys[:8]} {extra[:3]}")
        if r.returncode not in (0,1): print(r.stdout[-1500:])
    finally:
        open(path, "w").write(src)
