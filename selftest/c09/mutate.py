#!/usr/bin/env python3
"""Self-validation of the C09 real-CU layer: realistic breaks in the compute
units' completion paths (amd/emu/computeunit.go, amd/timing/cu/scheduler.go).

  mutate.py list
  mutate.py run [names...]     apply each break to the scratch worktree
                               (default /tmp/wt-c09, created with
                               `git -C /repo worktree add --detach /tmp/wt-c09 HEAD`),
                               run `VERIF_REPO=<wt> bin/vcheck C09 quick`, print exit
                               code + new keys, restore the file.
Not in the list because it is an equivalent mutant: an emulation CU that stops
taking MapWGReqs while three groups are queued is ticked again when the link
takes its completion message (NotifyPortFree), so everything still completes.
Environment: C09_WT=<worktree>, C09_PROP=C14 (run against C14 instead), C09_ENV="C09_ONLY_REAL=1" (extra env for the run).
"""
import os, subprocess, sys, time, re

WT = os.environ.get("C09_WT", "/tmp/wt-c09")
PROP = os.environ.get("C09_PROP", "C09")  # C14: run the emulation-CU mutants against w_c14's emu-link layer
EMU = "amd/emu/computeunit.go"
SCH = "amd/timing/cu/scheduler.go"

M = [
 # the independently seeded break (seed4-c09)
 ("emu-batch-cleared-before-send", EMU,
  "\t\tBuild()\n\n\terr := cu.ToDispatcher.Send(req)\n\tif err == nil {\n\t\tcu.finishedMapWGReqs = nil\n\t} else {",
  "\t\tBuild()\n\tcu.finishedMapWGReqs = nil\n\n\terr := cu.ToDispatcher.Send(req)\n\tif err != nil {"),
 # the retry event is not scheduled: a batch whose Send failed is only sent with the next batch, if any
 ("emu-no-retry-after-failed-send", EMU,
  "\t\tnewEvent := NewWGCompleteEvent(cu.Freq.NextTick(evt.Time()),\n\t\t\tcu, evt.Req)\n\t\tcu.Engine.Schedule(newEvent)\n",
  "\t\t_ = evt\n"),
 # the id is appended on every WGCompleteEvent, also on the retries -> the id of the last group is reported several times
 ("emu-retry-appends-id-again", EMU,
  "\tif !found {\n\t\tcu.finishedMapWGReqs = append(cu.finishedMapWGReqs, evt.Req.ID)\n\t}",
  "\t_ = found\n\tcu.finishedMapWGReqs = append(cu.finishedMapWGReqs, evt.Req.ID)"),
 # the work-group is reported after one pass over its wavefronts (a group with a barrier has not ended then)
 ("emu-completion-before-last-wavefront-ended", EMU,
  "\tfor !cu.isAllWfCompleted(wg) {\n\t\tfor _, wf := range cu.wfs[wg] {",
  "\tfor pass := 0; pass < 1 && !cu.isAllWfCompleted(wg); pass++ {\n\t\tfor _, wf := range cu.wfs[wg] {"),
 # batch cleared although the Send failed (else-branch kept): same loss, other shape
 ("emu-batch-cleared-after-failed-send", EMU,
  "\tif err == nil {\n\t\tcu.finishedMapWGReqs = nil\n\t} else {\n",
  "\tcu.finishedMapWGReqs = nil\n\tif err != nil {\n"),
 # the message carries only the last two thirds of the batch
 ("emu-batch-drops-first-third-of-the-ids", EMU,
  "\t\tWithRspTo(cu.finishedMapWGReqs).\n",
  "\t\tWithRspTo(cu.finishedMapWGReqs[len(cu.finishedMapWGReqs)/3:]).\n"),
 # timing CU: the result of the Send is ignored -> a completion that meets a full port buffer is dropped
 ("timing-failed-send-ignored", SCH,
  "\t\tdone := s.sendWGCompletionMessage(wf.WG)\n\t\tif !done {\n\t\t\treturn false, false\n\t\t}\n\n\t\twf.State = wavefront.WfCompleted\n\n\t\ts.resetRegisterValue(wf)\n\t\ts.cu.clearWGResource(wf.WG)",
  "\t\t_ = s.sendWGCompletionMessage(wf.WG)\n\n\t\twf.State = wavefront.WfCompleted\n\n\t\ts.resetRegisterValue(wf)\n\t\ts.cu.clearWGResource(wf.WG)"),
 # timing CU: only the wavefronts listed before the ending one are looked at -> completion while later wavefronts run, and again when they end
 ("timing-completion-checks-only-earlier-wavefronts", SCH,
  "func (s *SchedulerImpl) areAllOtherWfsInWGCompleted(\n\twg *wavefront.WorkGroup,\n\tcurrWf *wavefront.Wavefront,\n) bool {\n\tfor _, wf := range wg.Wfs {\n\t\tif wf == currWf {\n\t\t\tcontinue\n\t\t}",
  "func (s *SchedulerImpl) areAllOtherWfsInWGCompleted(\n\twg *wavefront.WorkGroup,\n\tcurrWf *wavefront.Wavefront,\n) bool {\n\tfor _, wf := range wg.Wfs {\n\t\tif wf == currWf {\n\t\t\tbreak\n\t\t}"),
 # timing CU: the completion is addressed with the id of the request of the *first* wavefront pool entry... (wrong id): uses the work-group's UID instead of the MapWGReq id
 ("timing-completion-carries-wrong-id", SCH,
  "\t\tWithRspTo([]string{mapReq.ID}).\n",
  "\t\tWithRspTo([]string{mapReq.WorkGroup.UID}).\n"),
 # timing CU: of the wavefronts whose s_endpgm / completion message is blocked in one cycle only the last one is kept
 ("timing-only-one-blocked-wavefront-kept", SCH,
  "\t\t} else {\n\t\t\tnewExecuting = append(newExecuting, executing)\n\t\t}\n\t}\n\n\ts.internalExecuting = newExecuting\n",
  "\t\t} else if executing.Inst().Opcode == 1 {\n\t\t\tnewExecuting = append(newExecuting[:0], executing)\n\t\t} else {\n\t\t\tnewExecuting = append(newExecuting, executing)\n\t\t}\n\t}\n\n\ts.internalExecuting = newExecuting\n"),
 # timing CU: a blocked completion is re-sent without checking that the earlier attempt went through:
 # wavefront marked completed only after the retry -> here: state set before the send, retry path then sees
 # "all other completed" for every wavefront of the group
 ("timing-state-set-before-send", SCH,
  "\tif s.areAllOtherWfsInWGCompleted(wf.WG, wf) {\n\t\tdone := s.sendWGCompletionMessage(wf.WG)\n\t\tif !done {\n\t\t\treturn false, false\n\t\t}\n\n\t\twf.State = wavefront.WfCompleted\n",
  "\tif s.areAllOtherWfsInWGCompleted(wf.WG, wf) {\n\t\twf.State = wavefront.WfCompleted\n\t\tdone := s.sendWGCompletionMessage(wf.WG)\n\t\tif !done {\n\t\t\treturn true, true\n\t\t}\n\n"),
]

def apply(name):
    for n, f, old, new in M:
        if n == name:
            p = os.path.join(WT, f)
            s = open(p).read()
            if s.count(old) != 1:
                raise SystemExit(f"{name}: pattern found {s.count(old)} times in {f}")
            open(p, "w").write(s.replace(old, new))
            return p, s
    raise SystemExit("unknown mutation " + name)

def main():
    if len(sys.argv) < 2 or sys.argv[1] == "list":
        print(" ".join(n for n, *_ in M)); return
    if sys.argv[1] != "run":
        raise SystemExit(__doc__)
    names = sys.argv[2:] or [n for n, *_ in M]
    env = dict(os.environ, VERIF_REPO=WT)
    for kv in os.environ.get("C09_ENV", "").split():
        k, v = kv.split("=", 1); env[k] = v
    for n in names:
        p, orig = apply(n)
        try:
            t0 = time.time()
            r = subprocess.run(["/verif/bin/vcheck", PROP, "quick"], env=env, capture_output=True, text=True, cwd="/verif")
            out = r.stdout + r.stderr
            keys = sorted(set(re.findall(r"key=(" + PROP + r"\|\S+)", out)))
            if r.returncode == 2:
                keys.append("(" + "; ".join(l for l in out.splitlines() if "inconclusive" in l or "build failed" in l or "error" in l.lower())[:300] + ")")
            print(f"{n}: exit={r.returncode} wall={time.time()-t0:.0f}s new: {' '.join(keys)}", flush=True)
        finally:
            open(p, "w").write(orig)

main()
