#!/usr/bin/env python3
"""Mutation validation of the C02 monitor (timing path only).
usage: mutate.py [names...]   (needs the scratch worktree /tmp/wt-c02 at HEAD of /repo and
/tmp/c02root/known_findings.json = a copy of /verif/known_findings.json)
Each break is applied alone, the worker is rebuilt against the worktree and the quick tier is run;
the monitor must exit 1 with at least one key that is not a listed finding."""
import subprocess, sys, os, json, re, shutil, time
WT = '/tmp/wt-c02'
G = """\tif wf.OutstandingVectorMemAccess > 0 ||\n\t\twf.OutstandingScalarMemAccess > 0 {\n\t\treturn false, false\n\t}\n"""
MUTS = {
 'endpgm-ignores-outstanding-scalar-loads': ('amd/timing/cu/scheduler.go', G,
   '\tif wf.OutstandingVectorMemAccess > 0 {\n\t\treturn false, false\n\t}\n'),
 'endpgm-ignores-all-outstanding-memory': ('amd/timing/cu/scheduler.go', G, ''),
 'endpgm-waits-only-for-pure-scalar-loads': ('amd/timing/cu/scheduler.go', G,
   '\tif wf.OutstandingScalarMemAccess > wf.OutstandingVectorMemAccess {\n\t\treturn false, false\n\t}\n'),
 'endpgm-tolerates-one-outstanding-scalar-access': ('amd/timing/cu/scheduler.go', G,
   '\tif wf.OutstandingVectorMemAccess > 0 ||\n\t\twf.OutstandingScalarMemAccess > 1 {\n\t\treturn false, false\n\t}\n'),
 'stores-not-counted-as-outstanding': [('amd/timing/cu/vectormemoryunit.go',
   '\twave.OutstandingVectorMemAccess++\n\twave.OutstandingScalarMemAccess++\n\n\tfor i, t := range transactions {\n\t\tu.cu.InFlightVectorMemAccess = append(u.cu.InFlightVectorMemAccess, t)\n\t\tif i != len(transactions)-1 {\n\t\t\tt.Write.CanWaitForCoalesce = true',
   '\tfor i, t := range transactions {\n\t\tu.cu.InFlightVectorMemAccess = append(u.cu.InFlightVectorMemAccess, t)\n\t\tif i != len(transactions)-1 {\n\t\t\tt.Write.CanWaitForCoalesce = true'),
  ('amd/timing/cu/computeunit.go',
   '\tif !info.Write.CanWaitForCoalesce {\n\t\twf.OutstandingVectorMemAccess--\n\t\tif info.Inst.FormatType == insts.FLAT {\n\t\t\twf.OutstandingScalarMemAccess--\n\t\t}\n',
   '\tif !info.Write.CanWaitForCoalesce {\n')],
 'coalescer-straddle-second-line-not-requested': ('amd/timing/cu/defaultcoalescer.go',
   '\t\t\tc.findOrCreateReadReq(&reqs, addr+uint64(4*j))', '\t\t\tc.findOrCreateReadReq(&reqs, addr)'),
 'coalescer-store-dword-order-swapped': ('amd/timing/cu/defaultcoalescer.go',
   '\t\t\tc.findOrCreateWriteReq(&reqs, addr+uint64(j*4),', '\t\t\tc.findOrCreateWriteReq(&reqs, addr+uint64((regCount-1-j)*4),'),
 'load-writeback-ubyte-loads-two-bytes': ('amd/timing/cu/computeunit.go',
   'if inst.FormatType == insts.FLAT && inst.Opcode == 16 { // FLAT_LOAD_UBYTE\n\t\t\taccess.Data = insts.Uint32ToBytes(uint32(rsp.Data[offset]))',
   'if inst.FormatType == insts.FLAT && inst.Opcode == 16 { // FLAT_LOAD_UBYTE\n\t\t\taccess.Data = insts.Uint32ToBytes(uint32(rsp.Data[offset]) | uint32(rsp.Data[(offset+1)%64])<<8)'),
 'scalar-load-second-line-register-index': ('amd/timing/cu/scalarunit.go',
   'DstSGPR:   insts.SReg(regIndex + int((curr-start)/4)),', 'DstSGPR:   insts.SReg(regIndex + int((curr-start)/8)),'),
 'no-l2-flush-before-copy': ('amd/timing/cp/cpMiddleware.go',
   '\tfor _, port := range m.L2Caches {\n\t\tm.flushCache(port)\n\t}\n\n\tm.currFlushRequest = req', '\tm.currFlushRequest = req'),
 'sgpr-offset-overlap-between-wavefronts': ('amd/timing/cp/internal/resource/curesourceimpl.go',
   'location.SGPROffset = offset * 16 * 4 // 16 reg, 4 byte each', 'location.SGPROffset = offset * 16 * 2 // 16 reg, 4 byte each'),
 'vgpr-offset-overlap-between-wavefronts': ('amd/timing/cp/internal/resource/curesourceimpl.go',
   'location.VGPROffset = offset * r.vregGranularity * 4 //  4 bytes per register', 'location.VGPROffset = offset * r.vregGranularity * 2 //  4 bytes per register'),
 'lds-unit-does-not-select-workgroup-lds': ('amd/timing/cu/ldsunit.go',
   '\t\tu.alu.SetLDS(u.toExec.WG.LDS)\n', '\t\tif u.alu.LDS() == nil {\n\t\t\tu.alu.SetLDS(u.toExec.WG.LDS)\n\t\t}\n'),
 'barrier-released-when-first-wavefront-arrives': ('amd/timing/cu/scheduler.go',
   'func (s *SchedulerImpl) areAllWfInWGAtBarrier(wg *wavefront.WorkGroup) bool {\n\tfor _, wf := range wg.Wfs {',
   'func (s *SchedulerImpl) areAllWfInWGAtBarrier(wg *wavefront.WorkGroup) bool {\n\tfor _, wf := range wg.Wfs[:1] {'),
 'waitcnt-vmcnt-ignored': ('amd/timing/cu/scheduler.go',
   '\tif wf.OutstandingVectorMemAccess > inst.VMCNT {\n\t\tdone = false\n\t}\n', ''),
 'waitcnt-lgkmcnt-never-satisfied-deadlock': ('amd/timing/cu/scheduler.go',
   '\tif wf.OutstandingScalarMemAccess > inst.LKGMCNT {', '\tif wf.OutstandingScalarMemAccess >= inst.LKGMCNT {'),
 'partial-wavefront-exec-mask-all-ones': ('amd/timing/cu/wfdispatcher.go',
   'wf.SetEXEC(wf.InitExecMask)', 'wf.SetEXEC(^uint64(0))'),
 'workgroup-id-y-written-as-x': ('amd/timing/cu/wfdispatcher.go',
   'insts.Uint32ToBytes(uint32(wf.WG.IDY)),', 'insts.Uint32ToBytes(uint32(wf.WG.IDX)),'),
 # ---- load-return / register-read paths (dependent-load motifs, 2026-09-26)
 'seed3-c07-last-sgpr-operand-cache-not-cleared-by-scalar-load-return': 'PATCH:/tmp/seed3-c07/SEED/patch.diff',
 'seed4-c02-emulation-lds-buffer-reused-across-work-groups-never-cleared': 'PATCH:/tmp/seed4-c02/SEED/patch.diff',
 # ---- kernel-boundary acquire (2026-09-26)
 'seed6-c02-launch-acquire-skips-l1-scalar-caches': 'PATCH:/tmp/seed6-c02/SEED/patch.diff',
 'launch-acquire-skips-l1-vector-caches': ('amd/timing/cp/cpMiddleware.go',
   '\tfor _, ports := range [][]sim.Port{m.L1SCaches, m.L1VCaches} {', '\tfor _, ports := range [][]sim.Port{m.L1SCaches} {'),
 # ---- host-API shapes (2026-09-26)
 'seed5-c02-copy-through-never-launching-context-skips-flush': 'PATCH:/tmp/seed5-c02/SEED/patch.diff',
 'seed5-c01-emulation-translation-cache-keyed-by-virtual-page-only': 'PATCH:/tmp/seed5-c01/SEED/patch.diff',
 'copy-flush-decision-looks-only-at-buffers-of-the-copying-context': ('amd/driver/memorycopy.go',
   '\t\tif c.pid == ctx.pid && c.hasDirtyBufferIn(startAddr, endAddr) {', '\t\tif c == ctx && c.hasDirtyBufferIn(startAddr, endAddr) {'),
 'vector-load-return-skips-last-dword-when-address-register-is-a-destination': ('amd/timing/cu/computeunit.go',
   '\t\taccess.LaneID = laneInfo.laneID\n',
   '\t\taccess.LaneID = laneInfo.laneID\n\t\tif inst.Dst != nil && inst.Addr != nil && inst.Dst.RegCount > 1 {\n\t\t\td, a := inst.Dst.Register.RegIndex(), inst.Addr.Register.RegIndex()\n\t\t\tif a >= d && a < d+inst.Dst.RegCount && laneInfo.reg.RegIndex() == d+inst.Dst.RegCount-1 {\n\t\t\t\tcontinue\n\t\t\t}\n\t\t}\n'),
 'scalar-return-at-wrong-sgpr-when-destination-overlaps-base-off-its-low-end': ('amd/timing/cu/scalarunit.go',
   'DstSGPR:   insts.SReg(regIndex + int((curr-start)/4)),',
   'DstSGPR:   insts.SReg(regIndex + int((curr-start)/4) + func() int {\n\t\t\t\tif b := rawInst.Base.Register.RegIndex(); b > regIndex && b < regIndex+byteSize/4 {\n\t\t\t\t\treturn 1\n\t\t\t\t}\n\t\t\t\treturn 0\n\t\t\t}()),'),
 'scalar-unit-base-address-cache-cleared-by-salu-but-not-by-load-return': [
   ('amd/timing/cu/scalarunit.go', '\tlog2CachelineSize uint64\n\n\tisIdle bool\n}',
    '\tlog2CachelineSize uint64\n\n\tisIdle bool\n\n\tlastBaseWf  *wavefront.Wavefront\n\tlastBaseReg *insts.Reg\n\tlastBaseVal uint64\n}'),
   ('amd/timing/cu/scalarunit.go', '\tbaseVal := u.toExec.ReadOperand(rawInst.Base, 0)\n',
    '\tbaseVal := u.toExec.ReadOperand(rawInst.Base, 0)\n\tif u.lastBaseWf == u.toExec && u.lastBaseReg == rawInst.Base.Register {\n\t\tbaseVal = u.lastBaseVal\n\t}\n\tu.lastBaseWf, u.lastBaseReg, u.lastBaseVal = u.toExec, rawInst.Base.Register, baseVal\n'),
   ('amd/timing/cu/scalarunit.go', '\t\tu.alu.Run(u.toExec)\n', '\t\tu.lastBaseWf = nil\n\t\tu.alu.Run(u.toExec)\n')],
 'vgpr-pair-read-cache-cleared-by-valu-writes-but-not-by-vector-load-return': [
   ('amd/timing/wavefront/wavefront.go', '\tRegAccessor RegFileAccessor\n',
    '\tRegAccessor RegFileAccessor\n\n\tlastVReg *insts.Reg\n\tlastVVal [64]uint64\n\tlastVOK  [64]bool\n'),
   ('amd/timing/wavefront/wavefront.go',
    '\tcase insts.RegOperand:\n\t\twaveOffset := wf.SRegOffset\n\t\tif operand.Register.IsVReg() {\n\t\t\twaveOffset = wf.VRegOffset\n\t\t}\n\t\tbuf := wf.RegAccessor.ReadReg(operand.Register, operand.RegCount, laneID, waveOffset)\n\t\tif len(buf) < 8 {\n\t\t\tpadded := make([]byte, 8)\n\t\t\tcopy(padded, buf)\n\t\t\tbuf = padded\n\t\t}\n\t\treturn insts.BytesToUint64(buf)\n',
    '\tcase insts.RegOperand:\n\t\tpair := operand.Register.IsVReg() && operand.RegCount == 2\n\t\tif pair && wf.lastVReg == operand.Register && wf.lastVOK[laneID] {\n\t\t\treturn wf.lastVVal[laneID]\n\t\t}\n\t\twaveOffset := wf.SRegOffset\n\t\tif operand.Register.IsVReg() {\n\t\t\twaveOffset = wf.VRegOffset\n\t\t}\n\t\tbuf := wf.RegAccessor.ReadReg(operand.Register, operand.RegCount, laneID, waveOffset)\n\t\tif len(buf) < 8 {\n\t\t\tpadded := make([]byte, 8)\n\t\t\tcopy(padded, buf)\n\t\t\tbuf = padded\n\t\t}\n\t\tif pair {\n\t\t\tif wf.lastVReg != operand.Register {\n\t\t\t\twf.lastVReg, wf.lastVOK = operand.Register, [64]bool{}\n\t\t\t}\n\t\t\twf.lastVVal[laneID], wf.lastVOK[laneID] = insts.BytesToUint64(buf), true\n\t\t}\n\t\treturn insts.BytesToUint64(buf)\n'),
   ('amd/timing/wavefront/wavefront.go', '\tdata := insts.Uint64ToBytes(value)\n\twf.RegAccessor.WriteReg(', '\tdata := insts.Uint64ToBytes(value)\n\twf.lastVReg = nil\n\twf.RegAccessor.WriteReg('),
   ('amd/timing/wavefront/wavefront.go', '\t\twaveOffset = wf.VRegOffset\n\t}\n\n\twf.RegAccessor.WriteReg(operand.Register, operand.RegCount, laneID, waveOffset, data)\n}',
    '\t\twaveOffset = wf.VRegOffset\n\t}\n\n\twf.lastVReg = nil\n\twf.RegAccessor.WriteReg(operand.Register, operand.RegCount, laneID, waveOffset, data)\n}')],
 'scalar-load-result-dropped-when-destination-is-its-own-offset-register': ('amd/timing/cu/computeunit.go',
   '\tcu.SRegFile.Write(access)\n\n\tcu.InFlightScalarMemAccess = append(',
   '\tif off := info.Inst.Offset; !(off != nil && off.OperandType == insts.RegOperand && off.Register == info.DstSGPR && access.RegCount == 1) {\n\t\tcu.SRegFile.Write(access)\n\t}\n\n\tcu.InFlightScalarMemAccess = append('),
}
def sh(cmd, **kw):
    return subprocess.run(cmd, shell=True, capture_output=True, text=True, **kw)
def main():
    names = sys.argv[1:] or list(MUTS)
    known = {e['key'] for e in json.load(open('/tmp/c02root/known_findings.json')) if e['property'] == 'C02'}
    results = []
    for n in names:
        sh('git checkout -- .', cwd=WT)
        bad = False
        if isinstance(MUTS[n], str) and MUTS[n].startswith('PATCH:'):
            path = MUTS[n][6:]
            a = sh('git apply %s' % path, cwd=WT)
            edits = []
            if a.returncode != 0:
                print(n, 'PATCH DOES NOT APPLY', a.stderr[-300:]); continue
        else:
            edits = MUTS[n] if isinstance(MUTS[n], list) else [MUTS[n]]
            path = edits[0][0]
        for (pth, old, new) in edits:
            s = open(os.path.join(WT, pth)).read()
            if s.count(old) != 1:
                print(n, 'PATTERN NOT FOUND/AMBIGUOUS', pth, s.count(old)); bad = True; break
            open(os.path.join(WT, pth), 'w').write(s.replace(old, new))
        if bad:
            continue
        b = sh('VERIF_REPO=%s /verif/bin/vbuild w_c02' % WT)
        if b.returncode != 0:
            print(n, 'BUILD FAILED', b.stdout[-500:], b.stderr[-500:]); continue
        tag = sh("echo -n %s | md5sum | cut -c1-8" % WT).stdout.strip()
        root = '/tmp/c02mut'; shutil.rmtree(root, ignore_errors=True); os.makedirs(root)
        shutil.copy('/tmp/c02root/known_findings.json', root)
        t0 = time.time()
        r = sh('VERIF_ROOT=%s /verif/.build/alt-%s/w_c02 quick' % (root, tag), cwd='/tmp')
        keys = re.findall(r'key=(\S.*?) : ', r.stdout)
        new_keys = [k for k in keys if k not in known]
        if r.returncode not in (0, 1):
            print('--- stdout tail', r.stdout[-1500:], '--- stderr tail', r.stderr[-3000:])
        res = {'mutation': n, 'file': path, 'exit': r.returncode, 'new_keys': new_keys[:6], 'n_new_keys': len(new_keys), 'wall_s': round(time.time() - t0)}
        print(json.dumps(res), flush=True)
        results.append(res)
    sh('git checkout -- .', cwd=WT)
    json.dump(results, open('/verif/selftest/c02/mutation_results_%d.json' % int(time.time()), 'w'), indent=1)
main()
