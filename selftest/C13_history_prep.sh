#!/bin/bash
# C13 history mutations (C13_history_mutations.json) use a few helpers: add them to the scratch worktree's hsaco.go first.
#   git -C /repo worktree add --detach /tmp/wt-c13 HEAD
#   selftest/C13_history_prep.sh /tmp/wt-c13
#   python3 selftest/mutate.py C13 /tmp/wt-c13 selftest/C13_history_mutations.json
wt="${1:?worktree}"
f="$wt/amd/insts/hsaco.go"
sed -i 's|^\t"log"$|\t"log"\n\t"sync"|' "$f"
cat >> "$f" <<'GO'

// ---- helpers for the seeded stateful mutations (scratch worktree only) ----
var memoMu sync.Mutex
var memo = map[any]*KernelCodeObject{}
var textScratch []byte

func cloneCO(co *KernelCodeObject) *KernelCodeObject {
	c := *co
	c.Data = append([]byte(nil), co.Data...)
	if co.KernelCodeObjectMeta != nil {
		m := *co.KernelCodeObjectMeta
		c.KernelCodeObjectMeta = &m
	}
	if co.Symbol != nil {
		s := *co.Symbol
		c.Symbol = &s
	}
	return &c
}
GO
