#!/bin/bash
# Applies every m*.diff of this directory to a scratch worktree of /repo, one
# at a time, and runs the C17 quick tier against it. Every line must say exit=1.
cd "$(dirname "$0")" || exit 2
wt=/tmp/wt-c17
git -C /repo worktree add --detach "$wt" HEAD >/dev/null 2>&1
for d in m*.diff; do
  git -C "$wt" restore .
  git -C "$wt" apply "$PWD/$d" || { echo "$d: does not apply"; continue; }
  VERIF_REPO="$wt" /verif/bin/vcheck C17 quick > "/tmp/c17-$d.log" 2>&1
  echo "$d exit=$? $(grep -o 'key=[^ ]*' "/tmp/c17-$d.log" | sort -u | tr '\n' ' ')"
done
git -C /repo worktree remove --force "$wt"
tag=$(echo -n "$wt" | md5sum | cut -c1-8)
rm -rf "/verif/.build/alt-$tag" "/verif/.alt/$tag"
