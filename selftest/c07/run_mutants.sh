#!/bin/bash
# run_mutants.sh [tier] [name-pattern]  - applies every m*.diff of this directory to a scratch
# worktree of /repo (one at a time), runs `VERIF_REPO=<wt> bin/vcheck C07 <tier>` and prints
# exit code + new violation keys. Never touches /repo. Env: C07_ENV="VAR=1 ..." extra
# environment for the worker (e.g. C07_SKIP_PATHMIX=1 to see what the other layers catch).
tier="${1:-quick}"; pat="${2:-m}"
wt=/tmp/wt-c07
here="$(cd "$(dirname "$0")" && pwd)"
[ -d "$wt" ] || git -C /repo worktree add --detach "$wt" HEAD >/dev/null 2>&1
for d in "$here"/${pat}*.diff; do
  n=$(basename "$d" .diff)
  if ! git -C "$wt" apply "$d" 2>/dev/null; then echo "## $n: does not apply - skipped"; continue; fi
  start=$(date +%s)
  out=$(env $C07_ENV VERIF_REPO="$wt" /verif/bin/vcheck C07 "$tier" 2>&1); rc=$?
  end=$(date +%s)
  keys=$(echo "$out" | grep -v KNOWN-FINDING | grep -o "key=C07|[^ ]*" | sed 's/key=//' | sort -u)
  nk=$(echo "$keys" | grep -c . )
  echo "## $n: exit=$rc wall=$((end-start))s new_keys=$nk"
  echo "$keys" | head -${MAXKEYS:-12} | sed 's/^/     /'
  echo "$out" | grep -i "build failed\|inconclusive" | head -3
  git -C "$wt" apply -R "$d"
done
git -C "$wt" status --short
