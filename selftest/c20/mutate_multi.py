#!/usr/bin/env python3
"""mutate_multi.py <worktree> <mutations.json> [tier]
Like ../mutate.py for C20, but a mutation may consist of several edits
({"edits":[{file,old,new},...]}) or of a patch file ({"patch": path}).
Each mutation is applied to the scratch worktree of /repo, `VERIF_REPO=<worktree>
bin/vcheck C20 <tier>` is run, exit code and new violation keys are printed and
the worktree is restored (git checkout of the touched files inside the scratch
worktree only). Never touches /repo."""
import json, os, subprocess, sys, time
wt, mfile = sys.argv[1:3]
tier = sys.argv[3] if len(sys.argv) > 3 else "quick"
assert os.path.realpath(wt) != "/repo"
muts = json.load(open(mfile))
for m in muts:
    saved = {}
    ok = True
    if "patch" in m:
        r = subprocess.run(["git", "-C", wt, "apply", "--verbose", m["patch"]], capture_output=True, text=True)
        if r.returncode != 0:
            print(f"## {m['name']}: patch does not apply: {r.stderr[-300:]}"); continue
        files = [l.split()[-1] for l in subprocess.run(["git", "-C", wt, "diff", "--name-only"], capture_output=True, text=True).stdout.splitlines()]
        for f in files: saved[os.path.join(wt, f)] = None
    else:
        for e in m.get("edits", [m]):
            path = os.path.join(wt, e["file"])
            src = saved.get(path) if path in saved else open(path).read()
            cur = open(path).read()
            if cur.count(e["old"]) != 1:
                print(f"## {m['name']}: pattern occurs {cur.count(e['old'])} times in {e['file']} - skipped"); ok = False; break
            saved.setdefault(path, src)
            open(path, "w").write(cur.replace(e["old"], e["new"]))
    try:
        if ok:
            t0 = time.time()
            r = subprocess.run(["/verif/bin/vcheck", "C20", tier], env=dict(os.environ, VERIF_REPO=wt), capture_output=True, text=True)
            keys = [l.split("key=", 1)[1].split(" : ")[0] for l in r.stdout.splitlines() if "key=" in l and "KNOWN-FINDING" not in l]
            extra = [l for l in r.stdout.splitlines() if "build failed" in l or "inconclusive" in l.lower()]
            print(f"## {m['name']}: exit={r.returncode} wall={time.time()-t0:.0f}s new_keys={keys[:10]} {extra[:3]}")
            if r.returncode not in (0, 1): print(r.stdout[-1500:])
    finally:
        for path, src in saved.items():
            if src is None:
                subprocess.run(["git", "-C", wt, "checkout", "--", os.path.relpath(path, wt)])
            else:
                open(path, "w").write(src)
