P='amd/timing/pagemigrationcontroller/pmc.go'
run('C19','P1 drop one chunk in the pull loop (i starts at 1)',P,
 "for i := 0; i < int(numDataTransfersForPage); i++ {","for i := 1; i < int(numDataTransfersForPage); i++ {")
run('C19','P2 write address recorded after the increment (offset +64)',P,
'''		e.reqIDToWriteAddressMap[req.ID] = currentWriteAddress
		currentWriteAddress = currentWriteAddress + e.onDemandPagingDataTransferSize''',
'''		currentWriteAddress = currentWriteAddress + e.onDemandPagingDataTransferSize
		e.reqIDToWriteAddressMap[req.ID] = currentWriteAddress''')
run('C19','P3 completion when one write is still pending (== 0 -> <= 1, guard removed)',P,
'''	if e.numDataRspPendingForPageMigration < 0 {
		log.Panicf("Not possible")
	}
	if e.numDataRspPendingForPageMigration == 0 {''',
'''	if e.numDataRspPendingForPageMigration == 1 && e.currentMigrationRequest != nil {''')
run('C19','P4 source reads half a chunk',P,
"WithByteSize(dataTransferSize).","WithByteSize(dataTransferSize / 2).")
run('C19','P5 busy gate removed: request taken during a migration',P,
'''	if e.isHandlingPageMigration {
		return false
	}

	req := e.ctrlPort.RetrieveIncoming()''','''	req := e.ctrlPort.RetrieveIncoming()''')
run('C19','P6 completion dropped when the control port is busy',P,
'''	err := e.ctrlPort.Send(e.toSendToCtrlPort)

	if err == nil {''','''	err := e.ctrlPort.Send(e.toSendToCtrlPort)
	err = nil

	if err == nil {''')
run('C19','P7 read address not advanced on the last chunk (wrong source offset)',P,
"startingPhysicalAddress = startingPhysicalAddress + e.onDemandPagingDataTransferSize",
"if i%2 == 0 {\n\t\t\tstartingPhysicalAddress = startingPhysicalAddress + 2*e.onDemandPagingDataTransferSize\n\t\t}")
