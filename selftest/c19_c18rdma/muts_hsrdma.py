# Breaks for the fourth part of the C19 worker (harness/cmd/w_c19/hsrdma.go: handshake with real RDMA engines).
# usage: python3 mut.py muts_hsrdma.py     (scratch worktree /tmp/wt-c19 at /repo HEAD;
#        C19_ONLY_HS=all in the environment runs that part alone: exit 1 = caught, exit 2 = not caught)
R='amd/timing/rdma/comp.go'
def run_multi(prop, name, path, pairs):
    p=os.path.join(WT,path); s=open(p).read(); t=s
    for old,new in pairs[:-1]:
        assert t.count(old)==1, (name, old)
        t=t.replace(old,new)
    open(p,'w').write(t)
    try:
        run(prop, name, path, pairs[-1][0], pairs[-1][1])
    finally:
        open(p,'w').write(s)
run('C19','H0 seed5-c19: drain waits only for the reads among the local transactions',R,
'''		len(c.transactionsFromInside) == 0
}''','''		func() bool {
			for _, t := range c.transactionsFromInside {
				if _, isRead := t.fromInside.(*mem.ReadReq); isRead {
					return false
				}
			}
			return true
		}()
}''')
run('C19','H1 drain ignores the transactions the engine serves for other GPUs (equivalent for the handshake: each of them is an open local transaction of its requester, which does not acknowledge)',R,
'''	return len(c.transactionsFromOutside) == 0 &&
		len(c.transactionsFromInside) == 0''','''	return len(c.transactionsFromInside) == 0''')
run('C19','H2 drain tolerates one open local transaction (off by one)',R,
'''		len(c.transactionsFromInside) == 0
}''','''		len(c.transactionsFromInside) <= 1
}''')
run('C19','H3 DrainReq does not pause the intake from the L1s',R,
'''		c.isDraining = true
		c.pauseIncomingReqsFromL1 = true
''','''		c.isDraining = true
''')
run_multi('C19','H4 pause flag set one tick after the DrainRsp: a request slips through',R,[
('''		c.isDraining = true
		c.pauseIncomingReqsFromL1 = true
''','''		c.isDraining = true
'''),
('''	if c.isDraining {
		madeProgress = c.drainRDMA() || madeProgress
	}
''','''	if c.currentDrainReq != nil && !c.isDraining {
		c.pauseIncomingReqsFromL1 = true
	}
	if c.isDraining {
		madeProgress = c.drainRDMA() || madeProgress
	}
''')])
run('C19','H5 restart leaves the intake from the L1s paused',R,
'''	c.currentDrainReq = nil
	c.pauseIncomingReqsFromL1 = false
''','''	c.currentDrainReq = nil
''')
run('C19','H6 restart forgets the open local transactions (equivalent on in-protocol histories: none is open at a restart)',R,
'''	c.currentDrainReq = nil
	c.pauseIncomingReqsFromL1 = false
''','''	c.currentDrainReq = nil
	c.pauseIncomingReqsFromL1 = false
	c.transactionsFromInside = nil
''')
P='amd/timing/pagemigrationcontroller/pmc.go'
run('C19','H7 controller reports completion one chunk early',P,
'''	if e.numDataRspPendingForPageMigration == 0 {''','''	if e.numDataRspPendingForPageMigration == 1 {''')
run('C19','H8 controller reports completion twice',P,
'''		e.isHandlingPageMigration = false
		e.currentMigrationRequest = nil
		e.toSendToCtrlPort = nil
		return true''','''		e.isHandlingPageMigration = false
		e.currentMigrationRequest = nil
		if e.TotalDataTransferTime > 0 {
			e.toSendToCtrlPort = nil
		}
		e.TotalDataTransferTime = -e.TotalDataTransferTime
		return true''')
