#!/usr/bin/env python3
# usage: mut.py <ID> <name> <file> <<< "old\n====\nnew"   (one mutation; restores afterwards)
import sys, subprocess, json, os, hashlib
WT='/tmp/wt-c19'
def run(prop, name, path, old, new, seed='1'):
    p=os.path.join(WT,path); s=open(p).read()
    assert s.count(old)==1, (name, 'old text occurs %d times'%s.count(old))
    open(p,'w').write(s.replace(old,new))
    try:
        env=dict(os.environ, VERIF_REPO=WT, VERIF_SEED=seed)
        r=subprocess.run(['/verif/bin/vcheck',prop,'quick'],cwd='/verif',env=env,capture_output=True,text=True)
        tag=hashlib.md5(WT.encode()).hexdigest()[:8]
        keys=[]
        try:
            ev=json.load(open('/verif/.alt/%s/evidence/%s.json'%(tag,prop)))
            keys=[(v['key'],v['observations']) for v in ev['coverage']['new_violations']]
        except Exception as e:
            keys=[('no evidence: %s'%e,0)]
        print('## %s [%s] exit=%d'%(name,path,r.returncode))
        for k,n in keys: print('   ',k,'x',n)
        if r.returncode not in (0,1): print(r.stdout[-1500:], r.stderr[-500:])
    finally:
        open(p,'w').write(s)
if __name__=='__main__':
    exec(open(sys.argv[1]).read())
