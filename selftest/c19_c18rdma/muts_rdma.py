R='amd/timing/rdma/comp.go'
run('C18','R1 answer sent to the source of the oldest open transaction',R,
"rspToInside.Meta().Dst = trans.fromInside.Meta().Src","rspToInside.Meta().Dst = c.transactionsFromInside[0].fromInside.Meta().Src")
run('C18','R2 answer carries the forwarded id instead of the original id',R,
"rspToInside := c.cloneRsp(rsp, trans.fromInside.Meta().ID)","rspToInside := c.cloneRsp(rsp, trans.toOutside.Meta().ID)")
run('C18','R3 drain ignores transactions from inside',R,
'''	return len(c.transactionsFromOutside) == 0 &&
		len(c.transactionsFromInside) == 0''','''	return len(c.transactionsFromOutside) == 0''')
run('C18','R3b drain ignores transactions from outside',R,
'''	return len(c.transactionsFromOutside) == 0 &&
		len(c.transactionsFromInside) == 0''','''	return len(c.transactionsFromInside) == 0''')
run('C18','R4 dirty mask dropped when forwarding a write',R,
'''			WithData(origin.Data).
			WithDirtyMask(origin.DirtyMask).''','''			WithData(origin.Data).''')
run('C18','R5 reply matched to the oldest transaction (assumes in-order replies)',R,
'''	for i, trans := range transactions {
		if trans.toOutside != nil && trans.toOutside.Meta().ID == rspTo {
			return i
		}''','''	for i, trans := range transactions {
		if trans.toOutside != nil {
			return i
		}''')
run('C18','R6 restart does not resume L1 traffic',R,
'''	c.currentDrainReq = nil
	c.pauseIncomingReqsFromL1 = false''','''	c.currentDrainReq = nil''')
run('C18','R7 drain does not pause L1 traffic',R,
'''		c.isDraining = true
		c.pauseIncomingReqsFromL1 = true''','''		c.isDraining = true''')
run('C18','R8 transaction from outside removed off by one',R,
'''			append(c.transactionsFromOutside[:transactionIndex],
				c.transactionsFromOutside[transactionIndex+1:]...)
		return true''','''			append(c.transactionsFromOutside[:0],
				c.transactionsFromOutside[1:]...)
		return true''')
run('C18','R9 read size halved when forwarding',R,
"WithByteSize(origin.AccessByteSize).","WithByteSize(origin.AccessByteSize/2 + 1).")
run('C18','R10 answer to the remote engine routed to the request destination',R,
"rspToOutside.Meta().Dst = trans.fromOutside.Meta().Src","rspToOutside.Meta().Dst = sim.RemotePort(strings.Replace(string(trans.fromOutside.Meta().Src), \"GPU1\", \"GPU2\", 1))")
