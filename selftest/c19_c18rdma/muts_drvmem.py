# Breaks that only the memory layer of the C19 driver part (harness/cmd/w_c19/drvmem.go) is built for.
# usage: python3 mut.py muts_drvmem.py     (scratch worktree /tmp/wt-c19 at /repo HEAD)
D='amd/driver/driver.go'
A='amd/driver/internal/memoryallocator.go'
run('C19','M0 seed4-c19: frame of a re-homed page goes back to the free list at once (migration and Remap)',A,
'''	device := a.devices[deviceID]
	pAddr := device.allocatePage()

	page := vm.Page{''','''	device := a.devices[deviceID]
	pAddr := device.allocatePage()
	if old, found := a.vAddrToPageMapping[pageKey{pid, vAddr}]; found {
		a.devices[a.deviceIDByPAddr(old.PAddr)].MemState.addSinglePAddr(old.PAddr)
	}

	page := vm.Page{''')
run('C19','M1 destination frame returned to the free list when the reply is prepared',D,
'''			req.VAddr = append(req.VAddr, vAddrs[j])''','''			req.VAddr = append(req.VAddr, vAddrs[j])
			if pg, ok := d.pageTable.Find(d.currentPageMigrationReq.PID, vAddrs[j]); ok {
				d.memAllocator.RemovePage(pg.PID, pg.VAddr)
				d.pageTable.Insert(pg)
			}''')
run('C19','M2 destination page allocated on the source device',D,
"context.pid, int(gpuID+1), vAddr, true)","context.pid, int(d.currentPageMigrationReq.CurrPageHostGPU), vAddr, true)")
run('C19','M3 frame given to a re-homed page stays on the free list',A,
'''	device := a.devices[deviceID]
	pAddr := device.allocatePage()

	page := vm.Page{''','''	device := a.devices[deviceID]
	pAddr := device.allocatePage()
	a.devices[a.deviceIDByPAddr(pAddr)].MemState.addSinglePAddr(pAddr)

	page := vm.Page{''')
run('C19','M4 copy command reads from the old frame rounded down to a two-page boundary',D,
"req.ToReadFromPhysicalAddress = oldPAddr","req.ToReadFromPhysicalAddress = oldPAddr &^ (d.currentPageMigrationReq.PageSize<<1 - 1)")
run('C19','M5 driver frees the old frame before it allocates the new one (RemovePage + re-insert, migration path only)',D,
"""	oldPAddr := page.PAddr
""","""	oldPAddr := page.PAddr
	d.memAllocator.RemovePage(context.pid, vAddr)
	d.pageTable.Insert(page)
""")
