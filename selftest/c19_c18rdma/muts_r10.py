R='amd/timing/rdma/comp.go'
run('C18','R10 remote answer carries the id of the L2-side clone',R,
"rspToOutside := c.cloneRsp(rsp, trans.fromOutside.Meta().ID)","rspToOutside := c.cloneRsp(rsp, trans.toInside.Meta().ID)")
