D='amd/driver/driver.go'
run('C19','D1 shootdown ack count forced to 1',D,
"d.numShootDownACK = uint64(len(accessingGPUs))","d.numShootDownACK = 1")
run('C19','D2 DeviceID of the new page off by one',D,
"newPage.DeviceID = gpuID + 1","newPage.DeviceID = gpuID")
run('C19','D3 new page allocated on the wrong device',D,
"context.pid, int(gpuID+1), vAddr, true)","context.pid, int(gpuID+1)%len(d.GPUs)+1, vAddr, true)")
run('C19','D4 RDMA restart issued together with the GPU restart',D,
'''		d.prepareGPURestartReqs()
		d.preparePageMigrationRspToMMU()''','''		d.prepareGPURestartReqs()
		d.prepareRDMARestartReqs()
		d.preparePageMigrationRspToMMU()''')
run('C19','D5 one-page-at-a-time gate removed',D,
'''	if d.isCurrentlyMigratingOnePage {
		return false
	}

	req := d.migrationReqToSendToCP[0]''','''	req := d.migrationReqToSendToCP[0]''')
run('C19','D6 busy gate in parseFromMMU removed',D,
'''	if d.isCurrentlyHandlingMigrationReq {
		return false
	}

	req := d.mmuPort.RetrieveIncoming()''','''	req := d.mmuPort.RetrieveIncoming()''')
run('C19','D7 read/write physical addresses swapped in the command',D,
'''				req.ToReadFromPhysicalAddress = oldPAddr
				req.ToWriteToPhysicalAddress = page.PAddr''','''				req.ToReadFromPhysicalAddress = page.PAddr
				req.ToWriteToPhysicalAddress = oldPAddr''')
run('C19','D8 page table not updated (allocator and driver)','amd/driver/internal/memoryallocator.go',
'''	a.vAddrToPageMapping[page.VAddr] = page
	a.pageTable.Update(page)

	return page
}''','''	a.vAddrToPageMapping[page.VAddr] = page

	return page
}''')
run('C19','D9 drain skipped for the last GPU',D,
"for i := 0; i < len(d.GPUs); i++ {\n\t\treq := protocol.NewRDMADrainCmdFromDriver(","for i := 0; i < len(d.GPUs)-1; i++ {\n\t\treq := protocol.NewRDMADrainCmdFromDriver(")
run('C19','D10 reply to MMU sent when migrations are queued (before they complete)',D,
'''			return true
		}

		return true
	}
''','''			d.preparePageMigrationRspToMMU()
			return true
		}

		return true
	}
''')
