#!/bin/bash
# run_mutants.sh [names...] — self-validation of the C14 monitor.
# Creates the scratch worktree /tmp/wt-c14 (if missing) and a shadow root
# /tmp/c14root (bin, harness -> /verif; known_findings.json = current + the
# proposals of harness/cmd/w_c14/proposed_known_findings.json), applies each
# break of mutate.py to the worktree and runs the quick tier against it.
# A break is caught when the run reports a violation key that is not a listed
# finding (printed after "new:"). Clean up afterwards with
#   git -C /repo worktree remove --force /tmp/wt-c14; rm -rf /tmp/c14root
cd /verif
[ -d /tmp/wt-c14 ] || git -C /repo worktree add --detach /tmp/wt-c14 HEAD >/dev/null 2>&1
mkdir -p /tmp/c14root
ln -sfn /verif/bin /tmp/c14root/bin
ln -sfn /verif/harness /tmp/c14root/harness
python3 - <<'PY'
import json
cur = json.load(open('/verif/known_findings.json'))
have = {(k['property'], k['key']) for k in cur}
for p in json.load(open('/verif/harness/cmd/w_c14/proposed_known_findings.json')):
    if (p['property'], p['key']) not in have:
        cur.append(p)
json.dump(cur, open('/tmp/c14root/known_findings.json', 'w'), indent=1)
PY
names="$@"; [ -z "$names" ] && names=$(selftest/c14/mutate.py list)
for m in $names; do
  selftest/c14/mutate.py "$m" /tmp/wt-c14 || { echo "$m: cannot apply"; continue; }
  t0=$(date +%s)
  VERIF_ROOT=/tmp/c14root VERIF_REPO=/tmp/wt-c14 /verif/bin/vcheck C14 quick > /tmp/c14root/mut-$m.log 2>&1
  code=$?
  t1=$(date +%s)
  keys=$(grep -o '^\[C14\]   key=[^ ]*' /tmp/c14root/mut-$m.log | sed 's/.*key=C14|//' | sort -u | tr '\n' ' ')
  echo "$m: exit=$code wall=$((t1-t0))s new: $keys"
done
selftest/c14/mutate.py orig /tmp/wt-c14
