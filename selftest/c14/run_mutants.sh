#!/bin/bash
# run_mutants.sh [names...] — applies each break to /tmp/wt-c14 and runs the quick
# tier against it with known_findings = current + proposed (VERIF_ROOT=/tmp/c14root).
# A break is caught when the run reports a violation key that is not a listed finding.
cd /verif
names="$@"; [ -z "$names" ] && names=$(selftest/c14/mutate.py list)
for m in $names; do
  selftest/c14/mutate.py "$m" /tmp/wt-c14 || { echo "$m: cannot apply"; continue; }
  t0=$(date +%s)
  VERIF_ROOT=/tmp/c14root VERIF_REPO=/tmp/wt-c14 ${TIERENV} /verif/bin/vcheck C14 quick > /tmp/c14root/mut-$m.log 2>&1
  code=$?
  t1=$(date +%s)
  keys=$(grep -o 'key=[^ ]*' /tmp/c14root/mut-$m.log | sort | uniq | tr '\n' ' ')
  echo "$m: exit=$code wall=$((t1-t0))s $keys"
done
selftest/c14/mutate.py orig /tmp/wt-c14
