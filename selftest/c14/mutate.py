#!/usr/bin/env python3
"""Seeded breaks for validating the C14 monitor.

usage: mutate.py list | mutate.py <name> [worktree=/tmp/wt-c14]
Resets the scratch worktree to HEAD (git checkout inside the worktree only) and
applies one break. Never touches /repo."""
import subprocess, sys

SCHED = 'amd/timing/cu/scheduler.go'
CU = 'amd/timing/cu/computeunit.go'
VMEM = 'amd/timing/cu/vectormemoryunit.go'
ARB = 'amd/timing/cu/issuearbiter.go'
LDS = 'amd/timing/cu/ldsunit.go'

M = {
 'barrier-all-but-one': (SCHED, '''	for _, wf := range wg.Wfs {
		if wf.State != wavefront.WfAtBarrier {
			return false
		}
	}
	return true
}

func (s *SchedulerImpl) passBarrier(''', '''	missing := 0
	for _, wf := range wg.Wfs {
		if wf.State != wavefront.WfAtBarrier {
			missing++
		}
	}
	return missing <= 1
}

func (s *SchedulerImpl) passBarrier('''),
 'waitcnt-vmcnt-off-by-one': (SCHED, 'if wf.OutstandingVectorMemAccess > inst.VMCNT {', 'if wf.OutstandingVectorMemAccess > inst.VMCNT+1 {'),
 'waitcnt-strict-compare': (SCHED, 'if wf.OutstandingVectorMemAccess > inst.VMCNT {', 'if wf.OutstandingVectorMemAccess >= inst.VMCNT {'),
 'waitcnt-ignores-lgkmcnt': (SCHED, '''	if wf.OutstandingScalarMemAccess > inst.LKGMCNT {
		done = false
	}
''', ''),
 'endpgm-does-not-wait': (SCHED, '''	if wf.OutstandingVectorMemAccess > 0 ||
		wf.OutstandingScalarMemAccess > 0 {
		return false, false
	}
''', ''),
 'endpgm-ignores-vector-stores': (SCHED, '''	if wf.OutstandingVectorMemAccess > 0 ||
		wf.OutstandingScalarMemAccess > 0 {''', '''	if wf.OutstandingScalarMemAccess > 1 {'''),
 'completion-per-wavefront': (SCHED, '''	if s.atLeaseOneWfIsExecuting(wf.WG) {
		s.resetRegisterValue(wf)
''', '''	if s.atLeaseOneWfIsExecuting(wf.WG) {
		s.sendWGCompletionMessage(wf.WG)
		s.resetRegisterValue(wf)
'''),
 'completion-ignores-one-running-wavefront': (SCHED, '''func (s *SchedulerImpl) areAllOtherWfsInWGCompleted(
	wg *wavefront.WorkGroup,
	currWf *wavefront.Wavefront,
) bool {
	for _, wf := range wg.Wfs {''', '''func (s *SchedulerImpl) areAllOtherWfsInWGCompleted(
	wg *wavefront.WorkGroup,
	currWf *wavefront.Wavefront,
) bool {
	for _, wf := range wg.Wfs[:len(wg.Wfs)-1] {'''),
 'scoreboard-hazard-dropped': (ARB, 'if sb.HasHazard(wf.InstToIssue.Inst) {', 'if false && sb.HasHazard(wf.InstToIssue.Inst) {'),
 'barrier-release-only-first-wavefront': (SCHED, '''		s.cu.UpdatePCAndSetReady(wf)
	}
}

func (s *SchedulerImpl) removeAllWfFromBarrierBuffer''', '''		s.cu.UpdatePCAndSetReady(wf)
		break
	}
}

func (s *SchedulerImpl) removeAllWfFromBarrierBuffer'''),
 'barrier-release-skips-last-wavefront': (SCHED, '''	for _, wf := range wg.Wfs {
		s.cu.logInstTask(wf, wf.DynamicInst(), true)
''', '''	for i, wf := range wg.Wfs {
		if i == len(wg.Wfs)-1 && i > 0 {
			break // flag of the last wavefront is cleared a generation late
		}
		s.cu.logInstTask(wf, wf.DynamicInst(), true)
'''),
 'load-complete-at-first-response': (VMEM, '''		if i != len(transactions)-1 {
			t.Read.CanWaitForCoalesce = true
		}''', '''		if i != 0 {
			t.Read.CanWaitForCoalesce = true
		}'''),
 'store-complete-at-first-response': (VMEM, '''		if i != len(transactions)-1 {
			t.Write.CanWaitForCoalesce = true
		}''', '''		if i != 0 {
			t.Write.CanWaitForCoalesce = true
		}'''),
 'lds-write-lands-late': (LDS, '''	if u.cycleLeft == 0 {
		u.alu.SetLDS(u.toExec.WG.LDS)
		u.alu.Run(u.toExec)
		u.cycleLeft = 14
		return true
	}
''', '''	if u.cycleLeft == 0 {
		// break: the data array is updated when the *next* LDS instruction
		// starts, i.e. a write stays invisible until then
		if u.pendingWf != nil {
			inst := u.pendingWf.DynamicInst()
			u.pendingWf.SetDynamicInst(u.pendingInst)
			u.alu.SetLDS(u.pendingWf.WG.LDS)
			u.alu.Run(u.pendingWf)
			u.pendingWf.SetDynamicInst(inst)
			u.pendingWf = nil
		}
		if u.toExec.Inst().Opcode == 13 { // ds_write_b32
			u.pendingWf, u.pendingInst = u.toExec, u.toExec.DynamicInst()
		} else {
			u.alu.SetLDS(u.toExec.WG.LDS)
			u.alu.Run(u.toExec)
		}
		u.cycleLeft = 14
		return true
	}
'''),
 'scalar-load-complete-at-first-piece': ('amd/timing/cu/scalarunit.go', '''		if bytesLeft > 0 {
			req.CanWaitForCoalesce = true
		}''', '''		if curr != start {
			req.CanWaitForCoalesce = true
		}'''),
 'scalar-last-piece-test-inverted': (CU, 'return !req.CanWaitForCoalesce', 'return req.CanWaitForCoalesce'),
 'scalar-counter-decremented-per-piece': (CU, '''	if cu.isLastRead(req) {
		wf.OutstandingScalarMemAccess--
		cu.logInstTask(wf, info.Inst, true)
	}''', '''	wf.OutstandingScalarMemAccess--
	if cu.isLastRead(req) {
		cu.logInstTask(wf, info.Inst, true)
	}'''),
 'scalar-second-piece-to-first-register': ('amd/timing/cu/scalarunit.go', 'DstSGPR:   insts.SReg(regIndex + int((curr-start)/4)),', 'DstSGPR:   insts.SReg(regIndex),'),
 'scalar-load-complete-at-issue': (CU, '''	if cu.isLastRead(req) {
		wf.OutstandingScalarMemAccess--
		cu.logInstTask(wf, info.Inst, true)
	}''', '''	if cu.isLastRead(req) {
		cu.logInstTask(wf, info.Inst, true)
	}'''),
 # --- release of a barrier by an ending wavefront (early exits; w_c14/earlyexit.go)
 'end-release-predicate-rejects-completed-others': (SCHED, '''		if wf == currWf {
			continue
		}

		if wf.State != wavefront.WfAtBarrier &&
			wf.State != wavefront.WfCompleted {
			return false
		}
	}

	return true
}

func (s *SchedulerImpl) resetRegisterValue''', '''		if wf == currWf {
			continue
		}

		// The all-completed case has been handled by the caller already.
		if wf.State != wavefront.WfAtBarrier {
			return false
		}
	}

	return true
}

func (s *SchedulerImpl) resetRegisterValue'''),
 'end-releases-only-if-last-in-list': (SCHED, '	if s.areAllOtherWfsInWGAtBarrier(wf.WG, wf) {',
  '	if wf == wf.WG.Wfs[len(wf.WG.Wfs)-1] && s.areAllOtherWfsInWGAtBarrier(wf.WG, wf) {'),
 'end-release-predicate-break-instead-of-continue': (SCHED, '''		if wf == currWf {
			continue
		}

		if wf.State != wavefront.WfAtBarrier &&
			wf.State != wavefront.WfCompleted {''', '''		if wf == currWf {
			break
		}

		if wf.State != wavefront.WfAtBarrier &&
			wf.State != wavefront.WfCompleted {'''),
 'end-release-keeps-released-in-internal-executing': (SCHED, '''				s.removeReleasedWfFromInternalExecuting(
					executing.WG, &newExecuting)''', '''				_ = newExecuting'''),
 'end-release-predicate-tolerates-two-completed': (SCHED, '''		if wf == currWf {
			continue
		}

		if wf.State != wavefront.WfAtBarrier &&
			wf.State != wavefront.WfCompleted {
			return false
		}
	}

	return true
}

func (s *SchedulerImpl) resetRegisterValue''', '''		if wf == currWf {
			continue
		}

		if wf.State == wavefront.WfCompleted {
			completed++
		}

		if wf.State != wavefront.WfAtBarrier &&
			(wf.State != wavefront.WfCompleted || completed > 2) {
			return false
		}
	}

	return true
}

func (s *SchedulerImpl) resetRegisterValue'''),
}

EXTRA = {
 'end-release-predicate-tolerates-two-completed': (SCHED, '''	currWf *wavefront.Wavefront,
) bool {
	for _, wf := range wg.Wfs {
		if wf == currWf {
			continue
		}

		if wf.State == wavefront.WfCompleted {
			completed++''', '''	currWf *wavefront.Wavefront,
) bool {
	completed := 0
	for _, wf := range wg.Wfs {
		if wf == currWf {
			continue
		}

		if wf.State == wavefront.WfCompleted {
			completed++'''),
 'lds-write-lands-late': (LDS, '''	toWrite   *wavefront.Wavefront
	cycleLeft int
''', '''	toWrite   *wavefront.Wavefront
	cycleLeft int

	pendingWf   *wavefront.Wavefront
	pendingInst *wavefront.Inst
'''),
 'scalar-load-complete-at-issue': ('amd/timing/cu/scalarunit.go', '''	u.toExec.OutstandingScalarMemAccess++
	u.cu.UpdatePCAndSetReady(u.toExec)''', '''	u.cu.UpdatePCAndSetReady(u.toExec)'''),
}

def apply(wt, path, old, new):
    p = wt + '/' + path
    s = open(p).read()
    if s.count(old) != 1:
        sys.exit('pattern for %s matches %d times' % (path, s.count(old)))
    open(p, 'w').write(s.replace(old, new))

def main():
    if len(sys.argv) < 2 or sys.argv[1] == 'list':
        print('\n'.join(M)); return
    name = sys.argv[1]
    wt = sys.argv[2] if len(sys.argv) > 2 else '/tmp/wt-c14'
    if wt.rstrip('/') == '/repo':
        sys.exit('refusing to touch /repo')
    subprocess.check_call(['git', '-C', wt, 'checkout', '-q', '--', '.'])
    if name == 'orig':
        return
    if name == 'fixed':
        subprocess.check_call(['git', '-C', wt, 'apply', '/verif/harness/cmd/w_c14/proposed_fix.diff']); return
    apply(wt, *M[name])
    if name in EXTRA:
        apply(wt, *EXTRA[name])

main()
