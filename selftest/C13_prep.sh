#!/bin/bash
# C13 mutations M2 and M12 use strings.HasPrefix/HasSuffix: add the import to the scratch worktree's hsaco.go first.
wt="${1:?worktree}"
sed -i 's|^\t"log"$|\t"log"\n\t"strings"|' "$wt/amd/insts/hsaco.go"
sed -i 's|^func (o \*KernelCodeObject) InstructionData|var _ = strings.HasPrefix\n\nfunc (o *KernelCodeObject) InstructionData|' "$wt/amd/insts/hsaco.go"
