#!/usr/bin/env python3
"""Mutation validation of the C06 monitor.

usage: mutate.py <scratch worktree> [names...]      ("ix" = the initial-EXEC layer's mutations alone)

Each mutation is applied to a pristine copy of the touched file inside the
scratch worktree (never /repo), the C06 worker is rebuilt against it
(VERIF_REPO) and run in the quick tier with a scratch VERIF_ROOT whose
known_findings.json = /verif/known_findings.json + the proposed C06 entries, so
that only *new* violations make the run exit 1. Prints one line per mutation.
"""
import hashlib
import json
import os
import re
import shutil
import subprocess
import sys

GUARD = "\t\tif exec&(1<<uint(i)) == 0 {\n\t\t\tcontinue\n\t\t}\n"


def func_span(src, recv, name):
    m = re.search(r"func \(u \*%s\) %s\(state" % (recv, re.escape(name)), src)
    assert m, (recv, name)
    j = src.index("\n}\n", m.start()) + 3
    return m.start(), j


def in_func(path, recv, name, edits):
    def apply(root):
        p = os.path.join(root, path)
        src = open(p).read()
        i, j = func_span(src, recv, name)
        body = src[i:j]
        for old, new in edits:
            assert body.count(old) >= 1, (name, old)
            body = body.replace(old, new, 1)
        open(p, "w").write(src[:i] + body + src[j:])
    return path, apply


def drop_guard(path, recv, name):
    # the lane loop no longer skips lanes whose EXEC bit is clear
    return in_func(path, recv, name, [(GUARD, ""), ("\texec := state.EXEC()\n", "\t_ = state.EXEC()\n")])


def in_file(path, edits):
    def apply(root):
        p = os.path.join(root, path)
        src = open(p).read()
        for old, new in edits:
            assert src.count(old) >= 1, (path, old)
            src = src.replace(old, new, 1)
        open(p, "w").write(src)
    return path, apply


GB = "amd/kernels/gridbuilder.go"
# mutations for the initial-EXEC layer (initexec.go); names start with "ix-"
IX = {
    "ix-seed5(gridbuilder: new wavefront when lane index is 0)": in_file(GB, [
        ("\t\tif wf == nil || inWGID/wavefrontSize != wf.FirstWiFlatID/wavefrontSize {", "\t\tif wf == nil || inWGID%wavefrontSize == 0 {")]),
    "ix-gridbuilder-work-items-from-unclipped-size(InitExecMask of the full work-group)": in_file(GB, [
        ("for z := 0; z < wg.CurrSizeZ; z++", "for z := 0; z < wg.SizeZ; z++"),
        ("for y := 0; y < wg.CurrSizeY; y++", "for y := 0; y < wg.SizeY; y++"),
        ("for x := 0; x < wg.CurrSizeX; x++", "for x := 0; x < wg.SizeX; x++")]),
    "ix-gridbuilder-x-clip-ignored(rows spawned with the unclipped X extent)": in_file(GB, [
        ("for x := 0; x < wg.CurrSizeX; x++", "for x := 0; x < wg.SizeX; x++")]),
    "ix-gridbuilder-first-wi-flat-id-not-rounded-down": in_file(GB, [
        ("wf.FirstWiFlatID = inWGID / wavefrontSize * wavefrontSize", "wf.FirstWiFlatID = inWGID")]),
    "ix-gridbuilder-mask-from-position-in-wavefront(bit = number of work-items so far)": in_file(GB, [
        ("wf.InitExecMask |= 1 << uint32(inWGID%wavefrontSize)", "wf.InitExecMask |= 1 << uint32(len(wf.WorkItems)-1)")]),
    "ix-emu-last-wavefront-of-work-group-starts-with-exec-all-ones": in_file("amd/emu/computeunit.go", [
        ("\twf.SetEXEC(wf.InitExecMask)\n", "\twf.SetEXEC(wf.InitExecMask)\n\tif wf.Wavefront == wf.WG.Wavefronts[len(wf.WG.Wavefronts)-1] {\n\t\twf.SetEXEC(^uint64(0))\n\t}\n")]),
    "ix-emu-exec-from-lane-count(low n bits)": in_file("amd/emu/computeunit.go", [
        ("\twf.SetEXEC(wf.InitExecMask)\n", "\twf.SetEXEC(wf.InitExecMask)\n\tif n := len(wf.WorkItems); n < 64 {\n\t\twf.SetEXEC(uint64(1)<<uint(n) - 1)\n\t}\n")]),
    "ix-timing-exec-masked-with-first-wavefront-of-the-work-group": in_file("amd/timing/cu/wfdispatcher.go", [
        ("\twf.SetEXEC(wf.InitExecMask)\n", "\twf.SetEXEC(wf.InitExecMask & wf.WG.Wfs[0].InitExecMask)\n")]),
    "ix-timing-exec-from-lane-count(low n bits)": in_file("amd/timing/cu/wfdispatcher.go", [
        ("\twf.SetEXEC(wf.InitExecMask)\n", "\twf.SetEXEC(wf.InitExecMask)\n\tif n := len(wf.WorkItems); n < 64 {\n\t\twf.SetEXEC(uint64(1)<<uint(n) - 1)\n\t}\n")]),
    "ix-timing-exec-all-ones-when-lane-0-missing": in_file("amd/timing/cu/wfdispatcher.go", [
        ("\twf.SetEXEC(wf.InitExecMask)\n", "\twf.SetEXEC(wf.InitExecMask)\n\tif wf.InitExecMask&1 == 0 {\n\t\twf.SetEXEC(^uint64(0))\n\t}\n")]),
}

CUF = "amd/timing/cu/computeunit.go"
COAL = "amd/timing/cu/defaultcoalescer.go"
LOADRET = "\twf := info.Wavefront\n\tinst := info.Inst\n\n\tfor _, laneInfo := range info.laneInfo {\n"
# mutations for the timing in-flight layer (inflight.go); names start with "if-"
IFM = {
    "if-seed6(load write-back skips lanes masked off when the data returns)": in_file(CUF, [
        (LOADRET, "\twf := info.Wavefront\n\tinst := info.Inst\n\texecNow := wf.EXEC()\n\n\tfor _, laneInfo := range info.laneInfo {\n\t\tif !laneMasked(execNow, uint(laneInfo.laneID)) {\n\t\t\tcontinue\n\t\t}\n")]),
    "if-load-write-back-dropped-when-exec-is-zero-at-return": in_file(CUF, [
        (LOADRET, "\twf := info.Wavefront\n\tinst := info.Inst\n\n\tfor _, laneInfo := range info.laneInfo {\n\t\tif wf.EXEC() == 0 {\n\t\t\tbreak\n\t\t}\n")]),
    "if-coalescer-load-lane-info-ignores-exec(all 64 lanes receive data)": in_file(COAL, [
        ("\texec := wf.EXEC()\n\tinst := wf.Inst()\n\treq := transaction.Read\n", "\texec := ^uint64(0)\n\tinst := wf.Inst()\n\treq := transaction.Read\n")]),
    "if-coalescer-store-ignores-exec(all 64 lanes store)": in_file(COAL, [
        ("\texec := wf.EXEC()\n\tinst := wf.Inst()\n\treqs := []*mem.WriteReq{}\n", "\texec := ^uint64(0)\n\tinst := wf.Inst()\n\treqs := []*mem.WriteReq{}\n")]),
    "if-coalescer-store-uses-low-half-of-exec-only": in_file(COAL, [
        ("\texec := wf.EXEC()\n\tinst := wf.Inst()\n\treqs := []*mem.WriteReq{}\n", "\texec := wf.EXEC() & 0xffffffff\n\tinst := wf.Inst()\n\treqs := []*mem.WriteReq{}\n")]),
}

MUT = {
    "vop2-drop-exec-guard(gcn3 v_min_u32)": drop_guard("amd/emu/aluvop2.go", "ALUImpl", "runVMINU32"),
    "vop1-drop-exec-guard(gcn3 v_not_b32)": drop_guard("amd/emu/aluvop1.go", "ALUImpl", "runVNOTB32"),
    "vop3a-drop-exec-guard(cdna3 v_add3_u32)": drop_guard("amd/emu/cdna3/vop3a.go", "ALU", "runVADD3U32"),
    "vopc-drop-exec-guard(gcn3 v_cmp_lt_u32)": drop_guard("amd/emu/aluvopc.go", "ALUImpl", "runVCmpLtU32"),
    "ds-drop-exec-guard(gcn3 ds_write_b32)": drop_guard("amd/emu/aluds.go", "ALUImpl", "runDSWRITEB32"),
    "ds-read-drop-exec-guard(cdna3 ds_read_b64)": drop_guard("amd/emu/cdna3/ds.go", "ALU", "runDSREADB64"),
    "flat-load-drop-exec-guard(cdna3 flat_load_dword)": drop_guard("amd/emu/cdna3/flat.go", "ALU", "runFlatLoadDWord"),
    "flat-store-for-masked-lanes(gcn3 flat_store_dwordx2)": drop_guard("amd/emu/alu_flat.go", "ALUImpl", "runFlatStoreDWordX2"),
    "reads-lane-i+1(gcn3 v_add_f32 src1)": in_func("amd/emu/aluvop2.go", "ALUImpl", "runVADDF32",
        [("state.ReadOperand(inst.Src1, i)", "state.ReadOperand(inst.Src1, (i+1)%64)")]),
    "reads-lane-i+1-unwrapped(gcn3 v_xor_b32 src0)": in_func("amd/emu/aluvop2.go", "ALUImpl", "runVXORB32",
        [("state.ReadOperand(inst.Src0, i)", "state.ReadOperand(inst.Src0, i+1)")]),
    "reads-lane-0(cdna3 v_mul_f32 src0)": in_func("amd/emu/cdna3/vop2.go", "ALU", "runVMULF32",
        [("state.ReadOperand(inst.Src0, i)", "state.ReadOperand(inst.Src0, 0)")]),
    "vcc-bit-index-off-by-one(gcn3 v_cmp_gt_i32 result)": in_func("amd/emu/aluvopc.go", "ALUImpl", "runVCmpGtI32",
        [("vcc |= 1 << uint(i)", "vcc |= 1 << uint(i+1)")]),
    "vcc-bit-index-off-by-one(cdna3 v_cndmask_b32 select)": in_func("amd/emu/cdna3/vop2.go", "ALU", "runVCNDMASKB32",
        [("(vcc & (1 << uint(i))) > 0", "(vcc & (1 << uint(i+1))) > 0")]),
    "sgpr-mask-wrong-lane-bit(gcn3 v_cndmask_b32_e64)": in_func("amd/emu/aluvop3a.go", "ALUImpl", "runVCNDMASKB32VOP3a",
        [("(src2 & (1 << uint(i))) > 0", "(src2 & (1 << uint(i^1))) > 0")]),
    "sgpr-carry-in-bit-0-for-all-lanes(gcn3 v_addc_u32_e64)": in_func("amd/emu/aluvop3b.go", "ALUImpl", "runVADDCU32VOP3b",
        [("((src2 & (1 << uint(i))) >> uint(i))", "(src2 & 1)")]),
    "sdst-bit-off-by-one(cdna3 v_add_co_u32_e64)": in_func("amd/emu/cdna3/vop3b.go", "ALU", "runVADDU32VOP3b",
        [("sdst |= 1 << uint(i)", "sdst |= 1 << uint(63-i)")]),
    "scratch-shared-between-lanes(gcn3 v_med3_f32)": in_func("amd/emu/aluvop3a.go", "ALUImpl", "runVMED3F32",
        [("\texec := state.EXEC()\n", "\texec := state.EXEC()\n\tlist := make([]float64, 3)\n"),
         ("\t\tlist := []float64{float64(src0), float64(src1), float64(src2)}\n",
          "\t\tlist[0], list[1] = float64(src0), float64(src1)\n\t\tif i == 0 {\n\t\t\tlist[2] = float64(src2)\n\t\t}\n")]),
    "scratch-shared-between-lanes(gcn3 ds_read2_b32 buffer)": in_func("amd/emu/aluds.go", "ALUImpl", "runDSREAD2B32",
        [("\t\tcopy(buf[4:8], lds[addr1:addr1+4])\n", "\t\tif i%2 == 0 {\n\t\t\tcopy(buf[4:8], lds[addr1:addr1+4])\n\t\t}\n")]),
    "lds-write-address-of-lane-0(cdna3 ds_write_b32)": in_func("amd/emu/cdna3/ds.go", "ALU", "runDSWRITEB32",
        [("uint32(state.ReadOperand(inst.Addr, i)) + inst.Offset0", "uint32(state.ReadOperand(inst.Addr, 0)) + inst.Offset0 + uint32(4*i)")]),
    "exec-read-after-first-lane-only(gcn3 v_mov_b32 stops at first inactive lane)": in_func("amd/emu/aluvop1.go", "ALUImpl", "runVMOVB32",
        [("\t\t\tcontinue\n", "\t\t\tbreak\n")]),
    "scalar-result-masked-by-exec(cdna3 s_and_b64)": in_func("amd/emu/cdna3/sop2.go", "ALU", "runSANDB64",
        [("dst := src0 & src1\n", "dst := src0 & src1 & state.EXEC()\n")]),
    "scalar-skipped-when-exec-zero(gcn3 s_mov_b32)": in_func("amd/emu/alusop1.go", "ALUImpl", "runSMOVB32",
        [("\tinst := state.Inst()\n", "\tinst := state.Inst()\n\tif state.EXEC() == 0 {\n\t\treturn\n\t}\n")]),
}


def main():
    wt = sys.argv[1]
    MUT.update(IX)
    MUT.update(IFM)
    names = sys.argv[2:] or list(MUT)
    if names == ["ix"]:
        names = list(IX)
    if names == ["if"]:
        names = list(IFM)
    if_only = all(n.startswith("if-") for n in names)
    ix_only = all(n.startswith("ix-") for n in names)
    verif = "/verif"
    tag = hashlib.md5(wt.encode()).hexdigest()[:8]
    root = "/tmp/c06root-mut"
    os.makedirs(root, exist_ok=True)
    known = json.load(open(os.path.join(verif, "known_findings.json")))
    prop = os.path.join(verif, "harness/cmd/w_c06/proposed_known_findings.json")
    if os.path.exists(prop):
        have = {(k["property"], k["key"]) for k in known}
        known += [k for k in json.load(open(prop)) if (k["property"], k["key"]) not in have]
    json.dump(known, open(os.path.join(root, "known_findings.json"), "w"))
    env = dict(os.environ, GOFLAGS="-mod=mod", GOPROXY="off")
    env.pop("GOSUMDB", None)
    env.pop("GOTOOLCHAIN", None)
    results = []
    for n in names:
        path, apply = MUT[n]
        full = os.path.join(wt, path)
        backup = full + ".c06orig"
        shutil.copy(full, backup)
        try:
            apply(wt)
            b = subprocess.run([os.path.join(verif, "bin/vbuild"), "w_c06"], env=dict(env, VERIF_REPO=wt),
                               capture_output=True, text=True)
            if b.returncode != 0:
                results.append((n, "BUILD FAILED", b.stdout[-400:] + b.stderr[-400:]))
                print(results[-1], flush=True)
                continue
            r = subprocess.run([os.path.join(verif, ".build/alt-" + tag, "w_c06"), "quick"],
                               env=dict(env, VERIF_ROOT=root), capture_output=True, text=True)
            keys = sorted(set(re.findall(r"\[C06\]\s+key=(\S+) :", r.stdout)))
            verdict = "CAUGHT" if r.returncode == 1 else "MISSED(exit %d)" % r.returncode
            results.append((n, verdict, keys[:6]))
            print("%-75s %s  %d keys e.g. %s" % (n, verdict, len(keys), "; ".join(keys[:3])), flush=True)
        finally:
            shutil.move(backup, full)
    json.dump([{"mutation": a, "result": b, "keys": c} for a, b, c in results],
              open(os.path.join(verif, "selftest/c06/mutation_results_inflight.json" if if_only else "selftest/c06/mutation_results_initexec.json" if ix_only else "selftest/c06/mutation_results.json"), "w"), indent=1)
    shutil.rmtree(root, ignore_errors=True)


if __name__ == "__main__":
    main()
