#!/usr/bin/env python3
"""Mutation validation of the C12 layout scenarios (w_c12/layout.go).

usage: mutate.py [name ...]      (needs the scratch worktree /tmp/wt-c12:
       git -C /repo worktree add --detach /tmp/wt-c12 HEAD; MUT_WT overrides)

Applies one break at a time to the worktree, runs
`VERIF_REPO=<worktree> bin/vcheck C12 quick`, lists the violation keys that are
not in the baseline (unchanged worktree) and restores the file. All breaks are
of the kind "a command of one queue / context reads or writes bytes that belong
to somebody else (or misses its own)"; on physically contiguous, page-aligned,
whole-buffer copies every one of the chunking breaks is invisible.
"""
import json, glob, hashlib, os, subprocess, sys, time

WT = os.environ.get('MUT_WT', '/tmp/wt-c12')
TAG = hashlib.md5(WT.encode()).hexdigest()[:8]
ALT = f'/verif/.alt/{TAG}'
MC = 'amd/driver/memorycopy.go'
GS = 'amd/driver/memorycopyglobalstorage.go'
DRV = 'amd/driver/driver.go'

CHUNK = '''		sizeLeftInPage := page.PageSize - (addr - page.VAddr)
		sizeToCopy := sizeLeftInPage
		if sizeLeft < sizeLeftInPage {
			sizeToCopy = sizeLeft
		}
'''
SEEDED = '		sizeToCopy := min(sizeLeft, page.PageSize)\n'

def nth(s, old, new, k):
    """replace the k-th (0-based) occurrence"""
    i = -1
    for _ in range(k + 1):
        i = s.index(old, i + 1)
    return s[:i] + new + s[i + len(old):]

M = [
 ('baseline', None, None),
 # the independently seeded break c12-4: both chunk loops of the magic copy path
 ('seed4-magic-copy-chunk-ignores-page-offset', GS, lambda s: s.replace(CHUNK, SEEDED)),
 ('magic-d2h-chunk-ignores-page-offset', GS, lambda s: nth(s, CHUNK, SEEDED, 1)),
 ('magic-h2d-chunk-ignores-page-offset', GS, lambda s: nth(s, CHUNK, SEEDED, 0)),
 # the same slip in the DMA copy path of the timing platform
 ('dma-h2d-chunk-ignores-page-offset', MC, lambda s: nth(s, CHUNK, SEEDED, 0)),
 ('dma-d2h-chunk-ignores-page-offset', MC, lambda s: nth(s, CHUNK, SEEDED, 1)),
 # one request for the whole copy at the physical address of its first byte
 ('dma-h2d-whole-copy-at-frame-of-first-byte', MC, lambda s: nth(s, CHUNK, '		sizeToCopy := sizeLeft\n', 0)),
 # a one-entry translation cache in the magic copy path that forgets the process id
 ('magic-copy-last-page-cache-ignores-pid', GS, lambda s: s.replace('''import (
	"bytes"
	"encoding/binary"
)''', '''import (
	"bytes"
	"encoding/binary"

	"github.com/sarchlab/akita/v4/mem/vm"
)

var gsLastPage vm.Page

func (m *globalStorageMemoryCopyMiddleware) find(pid vm.PID, addr uint64) (vm.Page, bool) {
	if gsLastPage.Valid && addr >= gsLastPage.VAddr && addr < gsLastPage.VAddr+gsLastPage.PageSize {
		return gsLastPage, true
	}
	page, found := m.driver.pageTable.Find(pid, addr)
	if found {
		gsLastPage = page
	}
	return page, found
}''').replace('m.driver.pageTable.Find(queue.Context.pid, addr)', 'm.find(queue.Context.pid, addr)')),
 # a kernel is launched in the address space of the first context of the driver
 ('kernel-launch-uses-first-context-pid', DRV, lambda s: nth(s, '	req.PID = queue.Context.pid\n', '	req.PID = d.contexts[0].pid\n', 0)),
]

def keys():
    out = set()
    for f in glob.glob(f'{ALT}/replays/C12/quick-seed*-*.json'):
        out.add(json.load(open(f))['key'])
    return out

def run(seed='1'):
    subprocess.run(['rm', '-rf', f'{ALT}/replays/C12'])
    env = dict(os.environ, VERIF_REPO=WT, VERIF_SEED=seed)
    t0 = time.time()
    r = subprocess.run(['/verif/bin/vcheck', 'C12', 'quick'], env=env, capture_output=True, text=True)
    inc = [l for l in r.stdout.splitlines() if 'INCONCLUSIVE' in l or 'inconclusive' in l]
    return r.returncode, keys(), r.stdout[-3000:] + '\n'.join(inc[:5]), time.time() - t0

def main():
    want = sys.argv[1:]
    base = set()
    for name, path, fn in M:
        if want and name not in want and not (name == 'baseline' and 'nobase' not in want):
            continue
        if path:
            full = os.path.join(WT, path)
            orig = open(full).read()
            mut = fn(orig)
            assert mut != orig, name + ': mutation did not apply'
            open(full, 'w').write(mut)
        try:
            code, ks, tail, dur = run()
        finally:
            if path:
                open(full, 'w').write(orig)
        if name == 'baseline':
            base = ks
            print(f'baseline: exit {code} ({dur:.0f}s); keys {sorted(ks)}', flush=True)
            continue
        new = sorted(ks - base)
        verdict = 'CAUGHT' if new and code == 1 else ('exit %d but no new key' % code)
        print(f'{name}: exit {code} ({dur:.0f}s): {verdict}', flush=True)
        for k in new[:10]:
            print('     ', k, flush=True)
        if not new:
            print(tail[-1500:], flush=True)

main()
