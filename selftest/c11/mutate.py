#!/usr/bin/env python3
"""Mutation validation of the C11 monitor.

usage: mutate.py [name ...]      (needs the scratch worktree /tmp/wt-c11:
       git -C /repo worktree add --detach /tmp/wt-c11 HEAD)

Applies one break at a time to the worktree, runs
`VERIF_REPO=/tmp/wt-c11 bin/vcheck C11 quick`, lists the violation keys that
are not in the baseline (unchanged worktree) and restores the file.
"""
import json, glob, hashlib, os, subprocess, sys

WT = '/tmp/wt-c11'
TAG = hashlib.md5(WT.encode()).hexdigest()[:8]
ALT = f'/verif/.alt/{TAG}'
MC = 'amd/driver/memorycopy.go'
GS = 'amd/driver/memorycopyglobalstorage.go'
DMA = 'amd/timing/cp/dma.go'
CPM = 'amd/timing/cp/cpMiddleware.go'
SA = 'amd/emu/storageaccessor.go'
DMS = 'amd/driver/internal/devicememstateinterface.go'

def nth(s, old, new, k):
    """replace the k-th (0-based) occurrence"""
    i = -1
    for _ in range(k + 1):
        i = s.index(old, i + 1)
    return s[:i] + new + s[i + len(old):]

M = [
 ('baseline', None, None),
 ('revert-flush-reply-fix', MC, lambda s: s.replace('		m.completeCopyCommand(cmd, cmdQueue)\n', '		_ = cmdQueue\n')),
 ('d2h-no-flush', MC, lambda s: nth(s, 'if m.needFlushing(queue.Context, cmd.Src, uint64(binary.Size(cmd.Dst))) {', 'if false && m.needFlushing(queue.Context, cmd.Src, uint64(binary.Size(cmd.Dst))) {', 0)),
 ('h2d-no-flush', MC, lambda s: nth(s, 'if m.needFlushing(queue.Context, cmd.Dst, uint64(binary.Size(cmd.Src))) {', 'if false && m.needFlushing(queue.Context, cmd.Dst, uint64(binary.Size(cmd.Src))) {', 0)),
 # (every buffer of a context is marked dirty by a kernel launch and needFlushing is an 'any' over them, so mutants
 #  of memRangeOverlap that merely answer true for OTHER buffers are equivalent in practice; these two are not)
 ('memRangeOverlap-always-false', MC, lambda s: s.replace('return start1 < end2 && start2 < end1', 'return start1 < end2 && start2 < end1 && false')),
 ('memRangeOverlap-misses-strict-containment', MC, lambda s: s.replace('return start1 < end2 && start2 < end1', 'return (start1 <= start2 && end1 > start2) || (start1 < end2 && end1 >= end2)')),
 ('cp-copy-not-gated-by-flush', CPM, lambda s: nth(s, '''	if m.numCacheACK > 0 {
		return false
	}
''', '', 1)),
 ('dma-h2d-sizeLeftInPage-ignores-offset', MC, lambda s: nth(s, 'sizeLeftInPage := page.PageSize - (addr - page.VAddr)', 'sizeLeftInPage := page.PageSize', 0)),
 ('dma-d2h-sizeLeftInPage-off-by-one', MC, lambda s: nth(s, 'sizeLeftInPage := page.PageSize - (addr - page.VAddr)', 'sizeLeftInPage := page.PageSize - (addr - page.VAddr) + 1', 1)),
 ('emu-h2d-sizeLeftInPage-ignores-offset', GS, lambda s: nth(s, 'sizeLeftInPage := page.PageSize - (addr - page.VAddr)', 'sizeLeftInPage := page.PageSize', 0)),
 ('emu-d2h-sizeLeftInPage-off-by-one', GS, lambda s: nth(s, 'sizeLeftInPage := page.PageSize - (addr - page.VAddr)', 'sizeLeftInPage := page.PageSize - (addr - page.VAddr) + 1', 1)),
 ('emu-h2d-offset-not-advanced', GS, lambda s: nth(s, '		offset += sizeToCopy\n', '', 0)),
 ('emu-d2h-addr-not-advanced', GS, lambda s: nth(s, '		addr += sizeToCopy\n', '', 1)),
 ('dma-d2h-offset-not-advanced', MC, lambda s: nth(s, '		offset += sizeToCopy\n', '', 1)),
 ('dma-engine-answers-before-last-sub-transaction', DMA, lambda s: s.replace('return rqC.subordinateCount == 0', 'return rqC.subordinateCount <= 1')),
 ('dma-engine-line-split-off-by-one', DMA, lambda s: nth(s, 'lengthInUnit := (1 << dma.Log2AccessSize) - unitOffset', 'lengthInUnit := (1 << dma.Log2AccessSize) - unitOffset + 1', 0)),
 ('dma-engine-d2h-wrong-dst-offset', DMA, lambda s: s.replace('offset := req.Address - processing.SrcAddress', 'offset := (req.Address - processing.SrcAddress) &^ 63')),
 ('dma-engine-matches-response-to-oldest-pending', DMA, lambda s: s.replace("""	for _, r := range dma.pendingReqs {
		if r.Meta().ID == id {
			reqToRet = r""", """	for i, r := range dma.pendingReqs {
		if i == 0 {
			reqToRet = r""")),
 ('dma-engine-counts-response-against-oldest-collection', DMA, lambda s: s.replace("if rc.decrementCountIfExists(req.Meta().ID) {", "if !found && rc.subordinateCount > 0 {\n\t\t\trc.subordinateCount--").replace("if rc.decrementCountIfExists(r.Meta().ID) {", "if !found && rc.subordinateCount > 0 {\n\t\t\trc.subordinateCount--")),
 ('driver-d2h-completes-with-one-request-left', MC, lambda s: nth(s, '''	copyCmd.RemoveReq(req)

	if len(copyCmd.Reqs) == 0 {''', '''	copyCmd.RemoveReq(req)

	if len(copyCmd.Reqs) <= 1 {''', 0)),
 ('driver-h2d-drops-last-page-chunk-request', MC, lambda s: nth(s, '''	m.cyclesLeft = m.cyclesPerH2D
''', '''	if len(cmd.Reqs) > 2 {
		cmd.Reqs = cmd.Reqs[:len(cmd.Reqs)-1]
		m.awaitingReqs = m.awaitingReqs[:len(m.awaitingReqs)-1]
	}
	m.cyclesLeft = m.cyclesPerH2D
''', 0)),
 # --- re-homing in mid-history (Remap / Distribute of pages that are in use) ---
 # the seeded break c11-4: per-accessor (= per emulated CU) translation cache, never invalidated
 ('seed4-emu-accessor-translation-cache-never-invalidated', SA, lambda s: s.replace('''	log2PageSize  uint64
}''', '''	log2PageSize  uint64
	translated    map[[2]uint64]vm.Page
}

func (a *storageAccessorImpl) findPage(pid vm.PID, vAddr uint64) (vm.Page, bool) {
	key := [2]uint64{uint64(pid), vAddr >> a.log2PageSize}
	page, found := a.translated[key]
	if !found {
		if page, found = a.pageTable.Find(pid, vAddr); found {
			a.translated[key] = page
		}
	}
	return page, found
}''').replace('a.pageTable.Find(pid, currVAddr)', 'a.findPage(pid, currVAddr)').replace('''	a.log2PageSize = log2PageSize
''', '''	a.log2PageSize = log2PageSize
	a.translated = make(map[[2]uint64]vm.Page)
''')),
 # one-entry cache, write path only: a CU whose last store went to page P keeps P's old frame
 ('emu-accessor-write-keeps-last-translated-page', SA, lambda s: s.replace('''	log2PageSize  uint64
}''', '''	log2PageSize  uint64
	lastW         vm.Page
	lastWValid    bool
}''').replace('''		page, found := a.pageTable.Find(pid, currVAddr)
		if !found {
			panic("page not found in page table")
		}''', '''		page, found := a.lastW, a.lastWValid
		if !found || page.PID != pid || page.VAddr != currVAddr>>a.log2PageSize<<a.log2PageSize {
			page, found = a.pageTable.Find(pid, currVAddr)
			a.lastW, a.lastWValid = page, found
		}
		if !found {
			panic("page not found in page table")
		}''')),
 # the driver's direct-storage copy path (emulation, timing + magic copy) remembers translations
 ('emu-copy-path-caches-translations', GS, lambda s: s.replace('''import (
	"bytes"
	"encoding/binary"
)''', '''import (
	"bytes"
	"encoding/binary"

	"github.com/sarchlab/akita/v4/mem/vm"
)

var gsTranslated = map[[2]uint64]vm.Page{}

func (m *globalStorageMemoryCopyMiddleware) find(pid vm.PID, addr uint64) (vm.Page, bool) {
	key := [2]uint64{uint64(pid), addr >> 12}
	page, found := gsTranslated[key]
	if !found {
		if page, found = m.driver.pageTable.Find(pid, addr); found {
			gsTranslated[key] = page
		}
	}
	return page, found
}''').replace('m.driver.pageTable.Find(queue.Context.pid, addr)', 'm.find(queue.Context.pid, addr)')),
 # the DMA copy path remembers translations for H2D only
 ('dma-copy-path-h2d-caches-translations', MC, lambda s: s.replace('''	"github.com/sarchlab/akita/v4/sim"
''', '''	"github.com/sarchlab/akita/v4/mem/vm"
	"github.com/sarchlab/akita/v4/sim"
''', 1).replace('''// defaultMemoryCopyMiddleware handles memory copy commands and related
// communication.
type defaultMemoryCopyMiddleware struct {''', '''var mcTranslated = map[[2]uint64]vm.Page{}

func (m *defaultMemoryCopyMiddleware) find(pid vm.PID, addr uint64) (vm.Page, bool) {
	key := [2]uint64{uint64(pid), addr >> 12}
	page, found := mcTranslated[key]
	if !found {
		if page, found = m.driver.pageTable.Find(pid, addr); found {
			mcTranslated[key] = page
		}
	}
	return page, found
}

// defaultMemoryCopyMiddleware handles memory copy commands and related
// communication.
type defaultMemoryCopyMiddleware struct {''').replace('m.driver.pageTable.Find(queue.Context.pid, addr)', 'm.find(queue.Context.pid, addr)', 1)),
 # --- FreeMemory / re-allocate in mid-history ---
 # the seeded break c11-6: the default free page list becomes a stack (a freed frame is the next one handed out)
 ('seed6-free-page-list-is-a-stack', DMS, lambda s: s.replace("""	endAddr := dms.initialAddress + dms.storageSize
	for addr := dms.initialAddress; addr < endAddr; addr += pageSize {
		dms.addSinglePAddr(addr)
	}""", """	for n := dms.storageSize / pageSize; n > 0; n-- {
		dms.addSinglePAddr(dms.initialAddress + (n-1)*pageSize)
	}""").replace("""	nextPAddr := dms.availablePAddrs[0]
	dms.availablePAddrs = dms.availablePAddrs[1:]""", """	last := len(dms.availablePAddrs) - 1
	nextPAddr := dms.availablePAddrs[last]
	dms.availablePAddrs = dms.availablePAddrs[:last]""")),
]

def keys():
    out = set()
    for f in glob.glob(f'{ALT}/replays/C11/quick-seed*-*.json'):
        out.add(json.load(open(f))['key'])
    return out

def run(seed='1'):
    subprocess.run(f'rm -rf {ALT}/replays/C11', shell=True)
    env = dict(os.environ, VERIF_REPO=WT, VERIF_SEED=seed, C11_WATCHDOG_S='240')
    r = subprocess.run(['/verif/bin/vcheck', 'C11', 'quick'], env=env, capture_output=True, text=True)
    inc = [l for l in r.stdout.splitlines() if 'INCONCLUSIVE' in l or 'inconclusive:' in l]
    return r.returncode, keys(), r.stdout[-3000:] + '\n'.join(inc[:5])

def main():
    want = sys.argv[1:]
    base = None
    for name, path, fn in M:
        if want and name not in want and name != 'baseline':
            continue
        if path:
            full = os.path.join(WT, path)
            orig = open(full).read()
            mut = fn(orig)
            assert mut != orig, name + ': mutation did not apply'
            open(full, 'w').write(mut)
        try:
            code, ks, tail = run()
        finally:
            if path:
                open(full, 'w').write(orig)
        if name == 'baseline':
            base = ks
            print(f'baseline: exit {code}; keys {sorted(ks)}', flush=True)
            continue
        new = sorted(ks - base)
        verdict = 'CAUGHT' if new else ('exit %d but no new key' % code)
        print(f'{name}: exit {code}: {verdict}', flush=True)
        for k in new[:8]:
            print('     ', k, flush=True)
        if not new:
            print(tail[-1500:], flush=True)

main()
