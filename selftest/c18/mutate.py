#!/usr/bin/env python3
"""Mutation validation of the C18 end-to-end layers (e2e + e2e-history).

usage: mutate.py [name ...]      (needs the scratch worktree /tmp/wt-c18:
       git -C /repo worktree add --detach /tmp/wt-c18 HEAD)

Applies one break at a time to the worktree, runs
`VERIF_REPO=/tmp/wt-c18 bin/vcheck C18 quick`, lists the violation keys that
are not in the baseline (unchanged worktree) and restores the file.
(The RDMA component layer has its own tool in selftest/c19_c18rdma.)

Since /repo commit 37b88daa (command processor invalidates the L1 caches before
every kernel) the breaks seed3-flush-only-gpus-owning-a-copied-page and
cp-flush-skips-l1-vector-caches no longer change any result (stale L1 lines
cannot survive into the next kernel); they are kept for older checkouts and
report "exit 0 but no new key" on newer ones.
"""
import json, glob, hashlib, os, subprocess, sys, time

WT = '/tmp/wt-c18'
TAG = hashlib.md5(WT.encode()).hexdigest()[:8]
ALT = f'/verif/.alt/{TAG}'
MC = 'amd/driver/memorycopy.go'
GS = 'amd/driver/memorycopyglobalstorage.go'
KER = 'amd/driver/kernel.go'
DRV = 'amd/driver/driver.go'
CPM = 'amd/timing/cp/cpMiddleware.go'
ALLOC = 'amd/driver/internal/memoryallocator.go'
GRID = 'amd/kernels/gridbuilder.go'
MI300 = 'amd/samples/runner/timingconfig/mi300a/builder.go'
R9 = 'amd/samples/runner/timingconfig/r9nano/builder.go'
SEED3 = open('/verif/selftest/c18/seed3_flush_only_owners.diff').read() if os.path.exists('/verif/selftest/c18/seed3_flush_only_owners.diff') else None

def nth(s, old, new, k):
    i = -1
    for _ in range(k + 1):
        i = s.index(old, i + 1)
    return s[:i] + new + s[i + len(old):]

def seed3(s):
    # flush only the GPUs that own a page of the copied range (third-wave seed)
    s = s.replace('		m.sendFlushRequest(cmd)\n	}\n\n	buffer := bytes.NewBuffer(nil)',
                  '		m.sendFlushRequest(cmd, queue.Context, cmd.Dst, uint64(binary.Size(cmd.Src)))\n	}\n\n	buffer := bytes.NewBuffer(nil)')
    s = s.replace('		m.sendFlushRequest(cmd)\n		queue.Context.removeFreedBuffers()',
                  '		m.sendFlushRequest(cmd, queue.Context, cmd.Src, uint64(binary.Size(cmd.Dst)))\n		queue.Context.removeFreedBuffers()')
    s = s.replace('''	cmd Command,
) {
	for _, gpu := range m.driver.GPUs {
		req := protocol.NewFlushReq(m.driver.gpuPort, gpu)
''', '''	cmd Command,
	ctx *Context, vAddr Ptr, size uint64,
) {
	pageSize := uint64(1) << m.driver.Log2PageSize
	flushing := make(map[int]bool)
	for addr := uint64(vAddr) &^ (pageSize - 1); addr < uint64(vAddr)+size; addr += pageSize {
		page, _ := m.driver.pageTable.Find(ctx.pid, addr)
		gpuID := m.driver.memAllocator.GetDeviceIDByPAddr(page.PAddr)
		if flushing[gpuID] {
			continue
		}
		flushing[gpuID] = true

		req := protocol.NewFlushReq(m.driver.gpuPort, m.driver.GPUs[gpuID-1])
''')
    return s

M = [
 ('baseline', None, None),
 ('seed3-flush-only-gpus-owning-a-copied-page', MC, seed3),
 ('cp-flush-skips-l1-vector-caches', CPM, lambda s: s.replace('''	for _, port := range m.L1VCaches {
		m.flushCache(port)
	}
''', '', 1)),
 ('flush-first-gpu-only', MC, lambda s: s.replace('	for _, gpu := range m.driver.GPUs {\n		req := protocol.NewFlushReq', '	for _, gpu := range m.driver.GPUs[:1] {\n		req := protocol.NewFlushReq')),
 ('flush-all-gpus-but-the-first', MC, lambda s: s.replace('	for _, gpu := range m.driver.GPUs {\n		req := protocol.NewFlushReq', '	for i, gpu := range m.driver.GPUs {\n		if i == 0 && len(m.driver.GPUs) > 1 {\n			continue\n		}\n		req := protocol.NewFlushReq')),
 ('h2d-no-flush', MC, lambda s: nth(s, 'if m.needFlushing(queue.Context, cmd.Dst, uint64(binary.Size(cmd.Src))) {', 'if false && m.needFlushing(queue.Context, cmd.Dst, uint64(binary.Size(cmd.Src))) {', 0)),
 ('h2d-flushes-only-when-a-page-of-the-range-is-on-gpu1', MC, lambda s: nth(s, 'if m.needFlushing(queue.Context, cmd.Dst, uint64(binary.Size(cmd.Src))) {', 'if pg, _ := m.driver.pageTable.Find(queue.Context.pid, uint64(cmd.Dst)); m.needFlushing(queue.Context, cmd.Dst, uint64(binary.Size(cmd.Src))) && m.driver.memAllocator.GetDeviceIDByPAddr(pg.PAddr) == 1 {', 0)),
 ('remap-odd-page-shares-frame-with-previous', ALLOC, lambda s: s.replace('			PAddr:    pAddrs[i],', '			PAddr:    pAddrs[i&^1],')),
 ('unified-kernarg-upload-only-for-first-gpu', KER, lambda s: s.replace('		d.EnqueueMemCopyH2D(queue, dKernArgData, newKernelArgs)\n		d.EnqueueMemCopyH2D(queue, dPacket, packet)', '		if i == 0 {\n			d.EnqueueMemCopyH2D(queue, dKernArgData, newKernelArgs)\n		}\n		d.EnqueueMemCopyH2D(queue, dPacket, packet)')),
 ('unified-wgfilter-lower-bound-exclusive', DRV, lambda s: s.replace('if flattenedID >= wgDist[currentGPUIndex] &&', 'if flattenedID > wgDist[currentGPUIndex] &&')),
 ('seed5-countWG-stops-at-first-column-without-a-match', GRID, lambda s: s.replace("""	for i := 0; i < x; i++ {
		for j := 0; j < y; j++ {""", """	for i := 0; i < x; i++ {
		numBefore := b.numWG

		for j := 0; j < y; j++ {""").replace("""					b.numWG++
				}
			}
		}
	}
""", """					b.numWG++
				}
			}
		}

		if b.numWG > 0 && b.numWG == numBefore {
			break
		}
	}
""")),
 ('wgfilter-row-stride-is-numWGY', DRV, lambda s: s.replace('					wg.IDY*int(numWGX) +', '					wg.IDY*int(numWGY) +')),
 ('wgfilter-z-stride-doubled', DRV, lambda s: s.replace('wg.IDZ*int(numWGX)*int(numWGY) +', 'wg.IDZ*int(numWGX)*int(numWGY)*2 +')),
 ('wgdist-total-ignores-z', DRV, lambda s: s.replace('totalWGCount := int(numWGX * numWGY * numWGZ)', '_ = numWGZ\n\ttotalWGCount := int(numWGX * numWGY)')),
 ('wgdist-rows-from-workgroup-size-x', DRV, lambda s: s.replace('numWGY := (cmd.PacketArray[0].GridSizeY-1)/uint32(cmd.PacketArray[0].WorkgroupSizeY) + 1', 'numWGY := (cmd.PacketArray[0].GridSizeY-1)/uint32(cmd.PacketArray[0].WorkgroupSizeX) + 1')),
 ('seed6-mi300a-local-window-128gb', MI300, lambda s: s.replace('dramSize:                       4 * mem.GB,', 'dramSize:                       128 * mem.GB,')),
 ('r9nano-local-window-8gb', R9, lambda s: s.replace('dramSize:                       4 * mem.GB,', 'dramSize:                       8 * mem.GB,')),
 ('mi300a-local-window-starts-at-zero', MI300, lambda s: s.replace('b.l1AddressMapper.LowAddress = b.memAddrOffset', 'b.l1AddressMapper.LowAddress = 0')),
 ('seed7-code-reupload-only-across-contexts', KER, lambda s: s.replace('} else if upload.queue != queue && upload.queue.contains(upload.cmd) {', '} else if upload.queue.Context != queue.Context && upload.queue.contains(upload.cmd) {')),
 ('code-reupload-dropped', KER, lambda s: s.replace('} else if upload.queue != queue && upload.queue.contains(upload.cmd) {', '} else if false && upload.queue != queue && upload.queue.contains(upload.cmd) {')),
 ('code-reupload-only-when-first-queue-is-on-another-gpu', KER, lambda s: s.replace('} else if upload.queue != queue && upload.queue.contains(upload.cmd) {', '} else if upload.queue.GPUID != queue.GPUID && upload.queue.contains(upload.cmd) {')),
 ('magic-h2d-sizeLeftInPage-ignores-offset', GS, lambda s: nth(s, 'sizeLeftInPage := page.PageSize - (addr - page.VAddr)', 'sizeLeftInPage := page.PageSize', 0)),
 ('dma-h2d-sizeLeftInPage-ignores-offset', MC, lambda s: nth(s, 'sizeLeftInPage := page.PageSize - (addr - page.VAddr)', 'sizeLeftInPage := page.PageSize', 0)),
]

def keys():
    out = set()
    for f in glob.glob(f'{ALT}/replays/C18/quick-seed*-*.json'):
        out.add(json.load(open(f))['key'])
    return out

def run(seed='1'):
    subprocess.run(f'rm -rf {ALT}/replays/C18', shell=True)
    env = dict(os.environ, VERIF_REPO=WT, VERIF_SEED=seed)
    t = time.time()
    r = subprocess.run(['/verif/bin/vcheck', 'C18', 'quick'], env=env, capture_output=True, text=True)
    inc = [l for l in r.stdout.splitlines() if 'INCONCLUSIVE' in l or 'inconclusive:' in l]
    return r.returncode, keys(), r.stdout[-3000:] + '\n'.join(inc[:5]), time.time() - t

def main():
    want = sys.argv[1:]
    base = None
    for name, path, fn in M:
        if want and name not in want and name != 'baseline':
            continue
        if path:
            full = os.path.join(WT, path)
            orig = open(full).read()
            mut = fn(orig)
            assert mut != orig, name + ': mutation did not apply'
            open(full, 'w').write(mut)
        try:
            code, ks, tail, dur = run()
        finally:
            if path:
                open(full, 'w').write(orig)
        if name == 'baseline':
            base = ks
            print(f'baseline: exit {code}; keys {sorted(ks)} ({dur:.0f}s)', flush=True)
            continue
        new = sorted(ks - base)
        verdict = 'CAUGHT' if new else ('exit %d but no new key' % code)
        print(f'{name}: exit {code}: {verdict} ({dur:.0f}s)', flush=True)
        for k in new[:12]:
            print('     ', k, flush=True)
        if not new:
            print(tail[-1500:], flush=True)

main()
