#!/usr/bin/env python3
# Self-validation of the C10 / C08 monitors: applies one seeded break at a time
# to a scratch worktree and runs the quick tier against it.
#   git -C /repo worktree add --detach /tmp/wt-c10c08 HEAD
#   selftest/c10_c08/mutate.py orig            # breaks on the unchanged tree
#   selftest/c10_c08/mutate.py fixed [names]   # breaks on top of the proposed fixes
#   git -C /repo worktree remove --force /tmp/wt-c10c08; rm -rf /verif/.build/alt-* /verif/.alt
# Prints, per break, the violation keys that appear in addition to the baseline's.
import sys, os, subprocess, shutil, re, json
WT=os.environ.get('MUT_WT','/tmp/wt-c10c08')  # MUT_WT=<worktree> selects another scratch worktree
FILES=['amd/emu/computeunit.go','amd/timing/cu/wfdispatcher.go','amd/driver/api.go','amd/driver/context.go','amd/driver/distributor.go','amd/driver/driver.go','amd/driver/internal/devicebuddymemstate.go','amd/driver/internal/memoryallocator.go','amd/driver/internal/devicememstateinterface.go','amd/driver/internal/device.go','amd/kernels/gridbuilder.go','amd/timing/cp/internal/dispatching/partition.go','amd/timing/cp/internal/dispatching/roundrobin.go','amd/insts/hsaco.go','amd/timing/cp/internal/dispatching/dispatcher.go']
HS='amd/insts/hsaco.go'
DISP='amd/timing/cp/internal/dispatching/dispatcher.go'
GB='amd/kernels/gridbuilder.go'
PART='amd/timing/cp/internal/dispatching/partition.go'
RR='amd/timing/cp/internal/dispatching/roundrobin.go'
MA='amd/driver/internal/memoryallocator.go'
EMU='amd/emu/computeunit.go'
TIM='amd/timing/cu/wfdispatcher.go'
DEV='amd/driver/internal/device.go'
DRV='amd/driver/driver.go'
U_MULTI="""	// Serve the request from the first member GPU, in round-robin order, that
	// has the room for it.
	for i := 0; i < len(d.ActualGPUs); i++ {
		devIndex := (d.nextActualGPUIndex + i) % len(d.ActualGPUs)
		dev := d.ActualGPUs[devIndex]

		if !dev.MemState.canAllocate(numPages) {
			continue
		}

		pAddrs = dev.allocateMultiplePages(numPages)
		d.nextActualGPUIndex = (d.nextActualGPUIndex + 1) % len(d.ActualGPUs)

		return pAddrs
	}

	// No member can serve the request alone: take the pages one by one, which
	// skips full members and panics only when all of them are full.
	for i := 0; i < numPages; i++ {
		pAddrs = append(pAddrs, d.allocateUnifiedGPUPage())
	}

	return pAddrs
}
"""
MUTS={
 # ---- C10
 'c10-m1-free-keeps-pagetable-entry': (MA, "	a.pageTable.Remove(page.PID, page.VAddr)\n", "	// a.pageTable.Remove(page.PID, page.VAddr)\n"),
 'c10-m2-cursor-short-by-one-page': (MA, "pState.nextVAddr += pageSize * uint64(numPages)", "pState.nextVAddr += pageSize * uint64(numPages-1)"),
 'c10-m2b-cursor-short-multi-only': (MA, "pState.nextVAddr += pageSize * uint64(numPages)", "if numPages > 1 {\n\t\tpState.nextVAddr += pageSize * uint64(numPages-1)\n\t} else {\n\t\tpState.nextVAddr += pageSize\n\t}"),
 'c10-m3-remap-skips-pagetable-update': (MA, "		a.pageTable.Update(page)\n		pages = append(pages, page)", "		pages = append(pages, page)"),
 'c10-m4-next-device-starts-one-page-early': (MA, "	a.totalStorageByteSize += state.getStorageSize()\n", "	a.totalStorageByteSize += state.getStorageSize() - (1 << a.log2PageSize)\n"),
 'c10-m4b-range-excludes-first-page': (MA, "	return pAddr >= state.getInitialAddress() &&", "	return pAddr > state.getInitialAddress() &&"),
 'c10-m5-distribute-remainder-overlaps': ('amd/driver/distributor.go', "addr+(numPagesPerGPU*numGPUsToUse+i)*pageSize,", "addr+(numPagesPerGPU*numGPUsToUse+i-1)*pageSize,"),
 'c10-m6-free-does-not-return-page': (MA, "	dState.addSinglePAddr(page.PAddr)\n", "	_ = dState\n"),
 'c10-m7-alloc-records-requested-device': (MA, "			DeviceID: uint64(a.deviceIDByPAddr(pAddr)),", "			DeviceID: uint64(deviceID),"),
 'c10-m8-remap-takes-one-page-too-few': (MA, "	for addr < pageVAddr+byteSize {", "	for addr+pageSize < pageVAddr+byteSize {"),
 'c10-m9-free-list-pop-keeps-head': ('amd/driver/internal/devicememstateinterface.go', "	dms.availablePAddrs = dms.availablePAddrs[1:]\n	return  nextPAddr", "	if len(dms.availablePAddrs)%7 != 3 {\n\t\tdms.availablePAddrs = dms.availablePAddrs[1:]\n\t}\n	return  nextPAddr"),
 'c10-m10-buddy-free-merges-to-wrong-side': ('amd/driver/internal/devicebuddymemstate.go', "			if buddy < addr {\n				addr = buddy\n			}", "			if buddy > addr {\n				addr = buddy\n			}"),
 'c10-m11-buddy-block-freed-one-page-early': ('amd/driver/internal/buddystructures.go', "	return bt.numOfPages == 0", "	return bt.numOfPages <= 1"),
 'c10-m12-unaligned-paddr': ('amd/driver/internal/devicememstateinterface.go', "	for addr := dms.initialAddress; addr < endAddr; addr += pageSize {\n		dms.addSinglePAddr(addr)", "	for addr := dms.initialAddress; addr < endAddr; addr += pageSize {\n		dms.addSinglePAddr(addr + (addr>>dms.log2PageSize)%2*64)"),
 # ---- C10, unified-device paths (added after seed4-c10 was missed). u2 is a placement-policy change that breaks no
 # C10 invariant (expected: no new key); all others must be caught.
 'c10-u0-seed4-spread-drops-remainder': (DEV, U_MULTI, """	numGPUs := len(d.ActualGPUs)
	numPagesPerGPU := numPages / numGPUs
	pAddrs = make([]uint64, numPages)
	for i := 0; i < numGPUs; i++ {
		dev := d.ActualGPUs[(d.nextActualGPUIndex+i)%numGPUs]
		copy(pAddrs[i*numPagesPerGPU:],
			dev.allocateMultiplePages(numPagesPerGPU))
	}
	d.nextActualGPUIndex = (d.nextActualGPUIndex + 1) % numGPUs
	return pAddrs
}
"""),
 'c10-u1-unified-single-page-ignores-full-members': (DEV, "		if dev.MemState.noAvailablePAddrs() {\n			continue\n		}\n\n		devSelected = dev\n", "		devSelected = dev\n"),
 'c10-u1b-unified-single-page-always-first-member': (DEV, "		dev := d.ActualGPUs[devIndex]\n\n		if dev.MemState.noAvailablePAddrs() {", "		dev := d.ActualGPUs[devIndex*0]\n\n		if dev.MemState.noAvailablePAddrs() {"),
 'c10-u2-multi-page-round-robin-not-advanced': (DEV, "		pAddrs = dev.allocateMultiplePages(numPages)\n		d.nextActualGPUIndex = (d.nextActualGPUIndex + 1) % len(d.ActualGPUs)\n", "		pAddrs = dev.allocateMultiplePages(numPages)\n"),
 'c10-u3a-multi-page-room-check-dropped': (DEV, "		if !dev.MemState.canAllocate(numPages) {\n			continue\n		}\n", ""),
 'c10-u3b-room-check-off-by-one': ('amd/driver/internal/devicememstateinterface.go', "	return len(dms.availablePAddrs) >= numPages\n", "	return len(dms.availablePAddrs) >= numPages-1\n"),
 'c10-u4a-distribute-last-remainder-page-skipped': ('amd/driver/distributor.go', "	for i := uint64(0); i < remainingPages; i++ {", "	for i := uint64(0); i+1 < remainingPages; i++ {"),
 'c10-u4b-distribute-last-remainder-page-skipped-count-intact': ('amd/driver/distributor.go', "	for i := uint64(0); i < remainingPages; i++ {", "	if remainingPages > 0 {\n		byteAllocatedOnEachGPU[lastAllocatedGPU] += pageSize\n	}\n	for i := uint64(0); i+1 < remainingPages; i++ {"),
 'c10-u5-unify-member-lookup-off-by-one': ('amd/driver/api.go', "		dev.ActualGPUs = append(dev.ActualGPUs, d.devices[gpuID])", "		dev.ActualGPUs = append(dev.ActualGPUs, d.devices[gpuID-1])"),
 'c10-u6-free-returns-page-to-recorded-device': (MA, "	deviceID := a.deviceIDByPAddr(page.PAddr)\n	dState := a.devices[deviceID].MemState", "	deviceID := int(page.DeviceID)\n	dState := a.devices[deviceID].MemState"),
 'c10-u7-spread-remainder-slot-repeats-a-page': (DEV, U_MULTI, """	numGPUs := len(d.ActualGPUs)
	per, rem := numPages/numGPUs, numPages%numGPUs
	if per == 0 {
		per, rem = numPages, 0
		numGPUs = 1
	}
	for i := 0; i < numGPUs; i++ {
		dev := d.ActualGPUs[(d.nextActualGPUIndex+i)%len(d.ActualGPUs)]
		pages := dev.allocateMultiplePages(per)
		pAddrs = append(pAddrs, pages...)
		if i < rem {
			pAddrs = append(pAddrs, pages[len(pages)-1])
		}
	}
	d.nextActualGPUIndex = (d.nextActualGPUIndex + 1) % len(d.ActualGPUs)
	return pAddrs
}
"""),
 'c10-u8-remap-onto-unified-records-first-member-range-check-off': (MA, "	return pAddr >= state.getInitialAddress() &&\n		pAddr < state.getInitialAddress()+state.getStorageSize()", "	return pAddr >= state.getInitialAddress() &&\n		pAddr <= state.getInitialAddress()+state.getStorageSize()"),
 # ---- C10, page-migration preparation (added after seed5-c10 was missed)
 'c10-v0-seed5-migration-rehomes-existing-entry': (DRV, "	newPage.DeviceID = gpuID + 1\n\n	newPage.IsMigrating = true\n	d.pageTable.Update(newPage)\n", "	page.DeviceID = gpuID + 1\n	page.Unified = true\n	page.IsMigrating = true\n	d.pageTable.Update(page)\n"),
 'c10-v1-given-vaddr-alloc-does-not-update-mirror': (MA, "	a.vAddrToPageMapping[pageKey{page.PID, page.VAddr}] = page\n	a.pageTable.Update(page)\n\n	return page", "	a.pageTable.Update(page)\n\n	return page"),
 'c10-v2-migration-records-zero-based-gpu': (DRV, "	newPage.DeviceID = gpuID + 1\n", "	newPage.DeviceID = gpuID\n"),
 'c10-v3-migration-allocates-on-zero-based-gpu': (DRV, "context.pid, int(gpuID+1), vAddr, true)", "context.pid, int(gpuID), vAddr, true)"),
 'c10-v4-migration-skips-page-table-update': (DRV, "	newPage.IsMigrating = true\n	d.pageTable.Update(newPage)\n", "	newPage.IsMigrating = true\n"),
 'c10-v5-page-copy-reads-from-the-new-frame': (DRV, "				req.ToReadFromPhysicalAddress = oldPAddr\n", "				req.ToReadFromPhysicalAddress = page.PAddr + 0*oldPAddr\n"),
 # ---- C10, sibling contexts (added after seed6-c10 was missed)
 'c10-w0-seed6-free-retargets-first-context-tracking-the-address': ('amd/driver/api.go', "	// log.Printf(\"Free %d\\n\", ptr)\n	d.memAllocator.Free(ctx.pid, uint64(ptr))\n", "	d.contextMutex.Lock()\n	for _, c := range d.contexts {\n		tracks := func(x *Context) bool {\n			x.bufferMutex.Lock()\n			defer x.bufferMutex.Unlock()\n			for _, b := range x.buffers {\n				if b.vAddr == ptr && !b.freed {\n					return true\n				}\n			}\n			return false\n		}\n		if !tracks(ctx) && tracks(c) {\n			ctx = c\n		}\n	}\n	d.contextMutex.Unlock()\n	d.memAllocator.Free(ctx.pid, uint64(ptr))\n"),
 'c10-w1-free-ignores-addresses-the-calling-context-did-not-allocate': ('amd/driver/api.go', "	// log.Printf(\"Free %d\\n\", ptr)\n	d.memAllocator.Free(ctx.pid, uint64(ptr))\n", "	known := false\n	ctx.bufferMutex.Lock()\n	for _, b := range ctx.buffers {\n		if b.vAddr == ptr {\n			known = true\n		}\n	}\n	ctx.bufferMutex.Unlock()\n	if !known {\n		return nil\n	}\n	d.memAllocator.Free(ctx.pid, uint64(ptr))\n"),
 'c10-w2-remap-uses-the-pid-of-the-first-context': ('amd/driver/api.go', "	d.memAllocator.Remap(ctx.pid, addr, size, deviceID)", "	d.memAllocator.Remap(d.contexts[0].pid, addr, size, deviceID)"),
 # ---- C08
 'c08-n1-partial-size-off-by-one': ('amd/kernels/gridbuilder.go', "		xToAllocate := min(xLeft, int(b.packet.WorkgroupSizeX))", "		xToAllocate := min(xLeft+1, int(b.packet.WorkgroupSizeX))"),
 'c08-n2-exec-mask-shifted': ('amd/kernels/gridbuilder.go', "wf.InitExecMask |= 1 << uint32(inWGID%wavefrontSize)", "wf.InitExecMask |= 1 << uint32((inWGID+1)%wavefrontSize)"),
 'c08-n3-numwg-ignores-filter': ('amd/kernels/gridbuilder.go', "	if b.filter == nil {\n		b.numWG = x * y * z\n		return\n	}", "	if true {\n		b.numWG = x * y * z\n		return\n	}"),
 'c08-n4-skip-one-too-many': ('amd/kernels/gridbuilder.go', "	for i := 0; i < n; i++ {\n		b.NextWG()", "	for i := 0; i <= n; i++ {\n		b.NextWG()"),
 'c08-n4b-skip-one-too-few': ('amd/kernels/gridbuilder.go', "	for i := 0; i < n; i++ {\n		b.NextWG()", "	for i := 1; i < n; i++ {\n		b.NextWG()"),
 'c08-n5-driver-filter-upper-bound-inclusive': ('amd/driver/driver.go', "				flattenedID < wgDist[currentGPUIndex+1] {", "				flattenedID <= wgDist[currentGPUIndex+1] {"),
 'c08-n6-driver-filter-lower-bound-exclusive': ('amd/driver/driver.go', "			if flattenedID >= wgDist[currentGPUIndex] &&", "			if flattenedID > wgDist[currentGPUIndex] &&"),
 'c08-n6b-driver-shares-not-cumulative': ('amd/driver/driver.go', "		wgDist[i+1] = wgAllocated + wgToAllocate\n", "		wgDist[i+1] = wgToAllocate\n"),
 'c08-n7-driver-filter-z-stride': ('amd/driver/driver.go', "				wg.IDZ*int(numWGX)*int(numWGY) +", "				wg.IDZ*int(numWGY)*int(numWGY) +"),
 'c08-n8-y-wrap-drops-last-row': ('amd/kernels/gridbuilder.go', "			if yLeft <= 0 {\n				b.yid = 0", "			if yLeft <= 1 {\n				b.yid = 0"),
 'c08-n9-first-wi-flat-id-off': ('amd/kernels/gridbuilder.go', "wf.PacketAddress = b.packetAddr\n", "wf.PacketAddress = b.packetAddr\n			wf.FirstWiFlatID += 64 * (len(wg.Wavefronts) % 2)\n"),
 # ---- C08 layer 2 (register initialisation); E = emulation, T = timing
 'c08-l2-t1-z-once-per-wavefront': (TIM, "		z = i / (wf.WG.SizeX * wf.WG.SizeY)\n", "		z = wf.FirstWiFlatID / (wf.WG.SizeX * wf.WG.SizeY)\n"),
 'c08-l2-e1-z-once-per-wavefront': (EMU, "		z = i / (wf.WG.SizeX * wf.WG.SizeY)\n", "		z = wf.FirstWiFlatID / (wf.WG.SizeX * wf.WG.SizeY)\n"),
 'c08-l2-t2-xy-swapped-in-partial-groups': (TIM, "		laneID := i - wf.FirstWiFlatID\n", "		laneID := i - wf.FirstWiFlatID\n		if wf.WG.CurrSizeX != wf.WG.SizeX {\n			x, y = y, x\n		}\n"),
 'c08-l2-e2-xy-swapped-in-partial-groups': (EMU, "		laneID := i - wf.FirstWiFlatID\n", "		laneID := i - wf.FirstWiFlatID\n		if wf.WG.CurrSizeX != wf.WG.SizeX {\n			x, y = y, x\n		}\n"),
 'c08-l2-t3-wgid-y-in-x-register': (TIM, "			insts.Uint32ToBytes(uint32(wf.WG.IDX)),", "			insts.Uint32ToBytes(uint32(wf.WG.IDY)),"),
 'c08-l2-e3-wgid-y-in-x-register': (EMU, "			uint32(wf.WG.IDX))", "			uint32(wf.WG.IDY))"),
 'c08-l2-t4-packed-y-shift-8': (TIM, "			packed := uint32(x) | (uint32(y) << 10) | (uint32(z) << 20)", "			packed := uint32(x) | (uint32(y) << 8) | (uint32(z) << 20)"),
 'c08-l2-e4-packed-y-shift-8': (EMU, "			packed := uint32(x) | (uint32(y) << 10) | (uint32(z) << 20)", "			packed := uint32(x) | (uint32(y) << 8) | (uint32(z) << 20)"),
 'c08-l2-t5-decomposition-by-currsize': (TIM, "		x = i % (wf.WG.SizeX * wf.WG.SizeY) % wf.WG.SizeX\n", "		x = i % (wf.WG.SizeX * wf.WG.SizeY) % wf.WG.CurrSizeX\n"),
 'c08-l2-e5-decomposition-by-currsize': (EMU, "		y = i % (wf.WG.SizeX * wf.WG.SizeY) / wf.WG.SizeX\n", "		y = i % (wf.WG.CurrSizeX * wf.WG.SizeY) / wf.WG.CurrSizeX\n"),
 'c08-l2-e6-wgid-z-not-written': (EMU, "			uint32(wf.WG.IDZ))", "			uint32(0))"),
 'c08-l2-t6-wg-count-y-floor': (TIM, "		wgCountY := (pkt.GridSizeY + uint32(pkt.WorkgroupSizeY) - 1) /", "		wgCountY := (pkt.GridSizeY + uint32(pkt.WorkgroupSizeY) - 0) /"),
 'c08-l2-t7-v2-written-at-level-1': (TIM, "		if co.EnableVgprWorkItemID() > 1 {", "		if co.EnableVgprWorkItemID() > 0 {"),
 'c08-l2-e7-kernarg-ptr-before-dispatch-ptr-slot': (EMU, "		binary.LittleEndian.PutUint64(wf.SRegFile[SGPRPtr:SGPRPtr+8], pkt.KernargAddress)\n		SGPRPtr += 8", "		binary.LittleEndian.PutUint64(wf.SRegFile[SGPRPtr:SGPRPtr+8], pkt.KernargAddress)\n		SGPRPtr += 4"),
 # ---- C08 layer 4 (dispatching algorithms on the r9nano timing platform)
 'c08-l4-seed-steal-counted-on-thief-partition': (PART, "			a.partitions[wgFromPartition].dispatchedWG++\n", "			a.partitions[i].dispatchedWG++\n"),
 'c08-l4-m1-partition-start-uses-floor-size': (PART, "		p.gridBuilder.Skip(i * a.numWGPerPartition)\n", "		p.gridBuilder.Skip(i * (a.numWG / numCU))\n"),
 'c08-l4-m2-partition-cursor-one-ahead': (PART, "		p.gridBuilder.Skip(i * a.numWGPerPartition)\n", "		p.gridBuilder.Skip(i*a.numWGPerPartition + 1)\n"),
 'c08-l4-m3-partition-takes-one-too-many': (PART, "	if p.dispatchedWG >= a.numWGPerPartition {", "	if p.dispatchedWG > a.numWGPerPartition {"),
 'c08-l4-m4-stolen-wg-stays-with-victim': (PART, "			a.currWGs[wgFromPartition] = nil\n", "			a.currWGs[i] = nil\n"),
 'c08-l4-m5-steal-reports-own-partition': (PART, "				return a.currWGs[i], i\n", "				return a.currWGs[i], partitionIndex\n"),
 'c08-l4-m6-dispatched-count-not-reset': (PART, "	a.numDispatchedWG = 0\n\n	gb := kernels.NewGridBuilder()", "	gb := kernels.NewGridBuilder()"),
 'c08-l4-rr1-waiting-wg-replaced': (RR, "	if a.currWG == nil {\n		a.currWG = a.gridBuilder.NextWG()\n	}\n", "	a.currWG = a.gridBuilder.NextWG()\n"),
 'c08-l4-rr2-count-not-reset': (RR, "	a.numDispatchedWGs = 0\n	a.gridBuilder.SetKernel(info)", "	a.gridBuilder.SetKernel(info)"),
 # ---- C08 loader path (L2 via_loader cases, L5)
 'c08-ld-seed6-v5-wgid-z-cleared': (HS, "	rsrc2 |= (1 << 7) // enable_sgpr_workgroup_id_x\n	rsrc2 |= (1 << 8) // enable_sgpr_workgroup_id_y\n", "	rsrc2 = (rsrc2 &^ (7 << 7)) | (3 << 7)\n"),
 'c08-ld-seed6c13-v5-workitem-id-2-lowered-to-1': (HS, "	if (rsrc2>>11)&3 == 0 {\n", "	if rsrc2&(1<<11) == 0 {\n"),
 'c08-ld-m1-v3-header-drops-wgid-y': (HS, "	meta.ComputePgmRsrc2 = binary.LittleEndian.Uint32(data[52:56])\n\n	flags := binary.LittleEndian.Uint32(data[56:60])", "	meta.ComputePgmRsrc2 = binary.LittleEndian.Uint32(data[52:56]) &^ (1 << 8)\n\n	flags := binary.LittleEndian.Uint32(data[56:60])"),
 'c08-ld-m2-v3-header-workitem-id-from-wrong-bits': (HS, "	meta.ComputePgmRsrc2 = binary.LittleEndian.Uint32(data[52:56])\n\n	flags := binary.LittleEndian.Uint32(data[56:60])", "	meta.ComputePgmRsrc2 = binary.LittleEndian.Uint32(data[52:56]) &^ (2 << 11)\n\n	flags := binary.LittleEndian.Uint32(data[56:60])"),
 'c08-ld-m3-v5-kernel-bytes-off-by-header': (HS, "				co.Data = kernelData // V5: entire kernel data is instructions", "				co.Data = kernelData[4:] // V5: entire kernel data is instructions"),
 # ---- C08 launch histories mixing unified and plain devices (L6)
 'c08-hist-seed7-dispatcher-keeps-last-filter': (DISP, 'func (d *DispatcherImpl) StartDispatching(req *protocol.LaunchKernelReq) {\n\td.mustNotBeDispatchingAnotherKernel()\n\n\td.alg.StartNewKernel(kernels.KernelLaunchInfo{\n\t\tCodeObject: req.CodeObject,\n\t\tPacket:     req.Packet,\n\t\tPacketAddr: req.PacketAddress,\n\t\tWGFilter:   req.WGFilter,\n\t})\n', 'var verifLaunchInfo = map[*DispatcherImpl]*kernels.KernelLaunchInfo{}\n\nfunc (d *DispatcherImpl) StartDispatching(req *protocol.LaunchKernelReq) {\n\td.mustNotBeDispatchingAnotherKernel()\n\n\tli := verifLaunchInfo[d]\n\tif li == nil {\n\t\tli = &kernels.KernelLaunchInfo{}\n\t\tverifLaunchInfo[d] = li\n\t}\n\tli.CodeObject = req.CodeObject\n\tli.Packet = req.Packet\n\tli.PacketAddr = req.PacketAddress\n\tif req.WGFilter != nil {\n\t\tli.WGFilter = req.WGFilter\n\t}\n\td.alg.StartNewKernel(*li)\n'),
 'c08-hist-m1-gridbuilder-keeps-last-filter': (GB, "	b.filter = info.WGFilter\n", "	if info.WGFilter != nil {\n		b.filter = info.WGFilter\n	}\n"),
 'c08-hist-m2-gridbuilder-y-cursor-not-reset': (GB, "	b.xid = 0\n	b.yid = 0\n	b.zid = 0\n", "	b.xid = 0\n	b.zid = 0\n"),
}
HERE=os.path.dirname(os.path.abspath(__file__))
FIXES=['fix_c10_A_allocator_pid_key_and_free_all_pages.diff','fix_c10_B_removeFreedBuffers.diff','fix_c10_C_buddy_parent_merge_bit.diff','fix_c08_formWavefronts.diff']
def restore(base):
    """base 'orig': files as in the worktree's HEAD; 'fixed': HEAD + the four proposed fixes."""
    for f in FILES+['amd/driver/internal/buddystructures.go']:
        subprocess.run(['git','-C',WT,'show','HEAD:'+f],stdout=open(f'{WT}/{f}','w'),check=True)
    if base=='fixed':
        for d in FIXES:
            # patches already merged upstream are skipped
            if subprocess.run(['git','-C',WT,'apply','--check',os.path.join(HERE,d)],capture_output=True).returncode==0:
                subprocess.run(['git','-C',WT,'apply',os.path.join(HERE,d)],check=True)
def keys(out):
    return sorted(set(re.findall(r'key=(.*?) : ', out)))
def run(prop, seed='1'):
    env=dict(os.environ, VERIF_REPO=WT, VERIF_SEED=seed)
    p=subprocess.run(['/verif/bin/vcheck',prop,'quick'],env=env,capture_output=True,text=True)
    return p.returncode, keys(p.stdout), p.stdout
if __name__=='__main__':
    base=sys.argv[1]; which=sys.argv[2:]
    restore(base)
    baseline={}
    need={('C10' if n.startswith('c10') else 'C08') for n in (which or MUTS) if n in MUTS}
    for prop in sorted(need):
        rc,k,_=run(prop); baseline[prop]=set(k); print(f'BASELINE {base} {prop}: exit {rc} keys {k}',flush=True)
    for name in (which or MUTS):
        if name not in MUTS: continue
        f,old,new=MUTS[name]
        prop='C10' if name.startswith('c10') else 'C08'
        restore(base)
        s=open(f'{WT}/{f}').read()
        if s.count(old)!=1:
            print(f'{name}: SKIP pattern count {s.count(old)} on base {base}',flush=True); continue
        open(f'{WT}/{f}','w').write(s.replace(old,new))
        rc,k,out=run(prop)
        newk=[x for x in k if x not in baseline[prop]]
        tail='' if rc in (0,1) else out[-600:]
        print(f'{name} [{base}]: exit {rc}; NEW keys: {newk} {tail}',flush=True)
    restore(base)
