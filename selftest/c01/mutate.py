#!/usr/bin/env python3
"""Mutation validation of the C01 monitor.
usage: mutate.py [name ...]   (scratch worktree /tmp/wt-c01 must exist:
       git -C /repo worktree add --detach /tmp/wt-c01 HEAD)
For every break: apply it to the worktree, run the 32 pinned tests
(tools/suite32.sh), run `VERIF_REPO=/tmp/wt-c01 bin/vcheck C01 quick`,
restore the file. Prints one line per break."""
import subprocess, sys, os, json
WT = '/tmp/wt-c01'
BREAKS = [
 ('cp-flush-skips-scalar-caches', 'amd/timing/cp/cpMiddleware.go',
  '\tfor _, port := range m.L1SCaches {\n\t\tm.flushCache(port)\n\t}\n\n\tfor _, port := range m.L1VCaches {', '\tfor _, port := range m.L1VCaches {', 1),
 ('cp-flush-skips-vector-caches', 'amd/timing/cp/cpMiddleware.go',
  '\tfor _, port := range m.L1VCaches {\n\t\tm.flushCache(port)\n\t}\n\n\tfor _, port := range m.L2Caches {', '\tfor _, port := range m.L2Caches {', 1),
 ('cp-flush-skips-l2-caches', 'amd/timing/cp/cpMiddleware.go',
  '\tfor _, port := range m.L2Caches {\n\t\tm.flushCache(port)\n\t}\n\n\tm.currFlushRequest = req', '\tm.currFlushRequest = req', 1),
 ('driver-no-flush-before-h2d', 'amd/driver/memorycopy.go',
  '\tif m.needFlushing(queue.Context, cmd.Dst, uint64(binary.Size(cmd.Src))) {\n\t\tm.sendFlushRequest(cmd)\n\t}\n\n', '', 1),
 ('driver-needflushing-ignores-buffers-read-by-kernels', 'amd/driver/driver.go', None, None, 0),
 ('unified-filter-row-stride-uses-numWGY', 'amd/driver/driver.go',
  'wg.IDY*int(numWGX) +', 'wg.IDY*int(numWGY) +', 1),
 ('unified-filter-x-y-swapped', 'amd/driver/driver.go',
  'wg.IDY*int(numWGX) +\n\t\t\t\t\twg.IDX', 'wg.IDX*int(numWGX) +\n\t\t\t\t\twg.IDY', 1),
 ('unified-filter-numWGX-from-grid-y', 'amd/driver/driver.go',
  'numWGX := (pkt.GridSizeX-1)/uint32(pkt.WorkgroupSizeX) + 1\n\t\t\tnumWGY := (pkt.GridSizeY-1)', 'numWGX := (pkt.GridSizeY-1)/uint32(pkt.WorkgroupSizeY) + 1\n\t\t\tnumWGY := (pkt.GridSizeY-1)', 1),
 ('unified-share-from-numWGY-only', 'amd/driver/driver.go',
  'totalWGCount := int(numWGX * numWGY * numWGZ)', 'totalWGCount := int(numWGY * numWGZ)\n\t_ = numWGX', 1),
 ('unified-share-from-numWGX-only', 'amd/driver/driver.go',
  'totalWGCount := int(numWGX * numWGY * numWGZ)', 'totalWGCount := int(numWGX * numWGZ)\n\t_ = numWGY', 1),
 ('emu-vop2-addc-drops-carry-in', 'amd/emu/aluvop2.go',
  'state.WriteOperand(inst.Dst, i, src0+src1+carry)', 'state.WriteOperand(inst.Dst, i, src0+src1)', 1),
 ('emu-vop2-cndmask-operands-swapped', 'amd/emu/aluvop2.go', None, None, 0),
 ('driver-lds-pointer-patching-off-by-4', 'amd/driver/kernel.go',
  'ldsSize += uint32(ldsPtr)', 'ldsSize += uint32(ldsPtr) - 4', 1),
 ('gridbuilder-partial-wg-one-item-short', 'amd/kernels/gridbuilder.go',
  'xToAllocate := min(xLeft, int(b.packet.WorkgroupSizeX))',
  'xToAllocate := min(xLeft, int(b.packet.WorkgroupSizeX))\n\t\tif xToAllocate < int(b.packet.WorkgroupSizeX) {\n\t\t\txToAllocate--\n\t\t}', 1),
 ('driver-aql-packet-wg-size-y-z-swapped', 'amd/driver/kernel.go',
  'packet.WorkgroupSizeY = wgSize[1]', 'packet.WorkgroupSizeY = wgSize[2]', 1),
 ('fir-host-split-offset-off-by-one', 'amd/benchmarks/heteromark/fir/fir.go',
  '\t\t\t0,\n\t\t\tint64(gpuIndex * numWi / numGPUs), 0, 0,', '\t\t\t0,\n\t\t\tint64(gpuIndex*numWi/numGPUs + 1), 0, 0,', 1),
 ('driver-unified-gpu-wg-range-off-by-one', 'amd/driver/driver.go',
  'wgDist[i+1] = wgAllocated + wgToAllocate', 'wgDist[i+1] = wgAllocated + wgToAllocate - 1', 1),
 ('driver-unified-gpu-wg-per-cu-rounds-down', 'amd/driver/driver.go',
  'wgPerCU := (totalWGCount-1)/totalCUCount + 1', 'wgPerCU := totalWGCount/totalCUCount + 1', 1),
 ('emu-ds-write-b32-ignores-offset', 'amd/emu/aluds.go',
  'addr0 := uint32(state.ReadOperand(inst.Addr, i)) + inst.Offset0\n\t\tdata := state.ReadOperandBytes(inst.Data, i, 4)\n\t\tcopy(lds[addr0:addr0+4], data)', 'addr0 := uint32(state.ReadOperand(inst.Addr, i))\n\t\tdata := state.ReadOperandBytes(inst.Data, i, 4)\n\t\tcopy(lds[addr0:addr0+4], data)', 1),
 ('matrixtranspose-host-group-offset-off-by-one', 'amd/benchmarks/amdappsdk/matrixtranspose/matrixtranspose.go',
  '\t\t\twgXPerGPU * uint32(gpuIndex), 0,', '\t\t\twgXPerGPU*uint32(gpuIndex) + 1, 0,', 1),
 ('driver-copy-not-completed-when-flush-reply-is-last', 'amd/driver/memorycopy.go',
  '\tif len(cmd.GetReqs()) == 0 {\n\t\tm.completeCopyCommand(cmd, cmdQueue)\n\t}\n', '\t_ = cmdQueue\n', 1),
 ('driver-emu-d2h-drops-in-page-offset', 'amd/driver/memorycopyglobalstorage.go', None, None, 0),
 ('emu-flat-store-dword-lane-stride', 'amd/emu/alu_flat.go', None, None, 0),
 ('driver-timing-d2h-without-cache-flush', 'amd/driver/memorycopy.go', None, None, 0),
]
def run(cmd, env=None, timeout=3600):
    e = dict(os.environ); e.update(env or {})
    p = subprocess.run(cmd, shell=True, stdout=subprocess.PIPE, stderr=subprocess.STDOUT, env=e, timeout=timeout, text=True)
    return p.returncode, p.stdout
def main():
    sel = sys.argv[1:]
    spec = json.load(open(os.path.join(os.path.dirname(__file__), 'breaks_extra.json'))) if os.path.exists(os.path.join(os.path.dirname(__file__), 'breaks_extra.json')) else {}
    results = []
    for name, f, old, new, n in BREAKS:
        if sel and name not in sel: continue
        if old is None:
            if name not in spec: continue
            old, new = spec[name]['old'], spec[name]['new']; n = spec[name].get('count', 1)
        path = os.path.join(WT, f)
        src = open(path).read()
        if src.count(old) < 1:
            print(name, 'PATTERN NOT FOUND'); continue
        if n == 1 and src.count(old) != 1:
            idx = spec.get(name, {}).get('occurrence', -1)
            parts = src.split(old)
            k = idx if idx >= 0 else len(parts) - 2
            mutated = old.join(parts[:k+1]) + new + old.join(parts[k+1:])
        else:
            mutated = src.replace(old, new)
        open(path, 'w').write(mutated)
        try:
            rc_s, out_s = run('/verif/tools/suite32.sh ' + WT)
            suite = out_s.strip().splitlines()[-1] if out_s.strip() else '?'
            rc, out = run('cd /verif && bin/vcheck C01 quick', env={'VERIF_REPO': WT})
            viol = [l for l in out.splitlines() if l.startswith('[C01]   key=')]
            print('%-45s suite32: %-28s vcheck exit=%d new_violations=%d' % (name, suite if rc_s == 0 else 'FAIL ' + suite, rc, len(viol)))
            for l in viol[:4]: print('      ', l[:200])
            results.append({'break': name, 'file': f, 'suite32_ok': rc_s == 0, 'vcheck_exit': rc, 'violations': [l[12:160] for l in viol[:12]]})
        finally:
            open(path, 'w').write(src)
    json.dump(results, open('/tmp/c01_mutation_results.json', 'w'), indent=1)
main()
