# sourced by the scripts in bin/: offline Go environment that is known to work here
export GOFLAGS=-mod=mod
export GOPROXY=off
unset GOSUMDB GOTOOLCHAIN
export VERIF_ROOT="${VERIF_ROOT:-$(cd "$(dirname "${BASH_SOURCE[0]}")/.." && pwd)}"
