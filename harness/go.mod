module verifharness

go 1.25

require (
	github.com/anishathalye/porcupine v1.3.0
	github.com/sarchlab/akita/v4 v4.9.0
	github.com/sarchlab/mgpusim/v4 v4.0.0
)

replace github.com/sarchlab/mgpusim/v4 => /repo
