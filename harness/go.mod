module verifharness

go 1.25

require (
	github.com/anishathalye/porcupine v1.3.0
	github.com/sarchlab/akita/v4 v4.9.0
	github.com/sarchlab/mgpusim/v4 v4.0.0
)

require (
	github.com/mattn/go-sqlite3 v1.14.32 // indirect
	github.com/rs/xid v1.6.0 // indirect
	github.com/tebeka/atexit v0.3.0 // indirect
)

replace github.com/sarchlab/mgpusim/v4 => /repo
