package main

// Case generation: for one (arch, format, opcode) a seed-independent corner
// battery (corner values crossed pairwise, operand kinds cycled, EXEC / SCC /
// VCC patterns) followed by seeded random states.

import (
	"fmt"
	"hash/fnv"
	"strings"

	"verifharness/vlib"
	"verifharness/vlib/gcnasm"
	"verifharness/vlib/isaspec"
)

// regSet assigns values to registers on top of the background image.
type regSet struct {
	Kind string   `json:"k"` // "s": SGPR Idx.. = Vals; "v": VGPR Idx, Vals[lane]
	Idx  int      `json:"i"`
	Vals []uint32 `json:"v"`
}

// Case is one (instruction, state) pair; it is self-contained and replayable.
type Case struct {
	Arch    gcnasm.Arch `json:"arch"`
	Desc    gcnasm.Desc `json:"desc"`
	BgSeed  uint64      `json:"bg_seed"` // SGPR / LDS / memory background
	VSeed   uint64      `json:"v_seed"`  // VGPR background image
	EXEC    uint64      `json:"exec"`
	VCC     uint64      `json:"vcc"`
	SCC     uint32      `json:"scc"`
	M0      uint32      `json:"m0"`
	PC      uint64      `json:"pc"`
	LDSSize int         `json:"lds_size"`
	Sets    []regSet    `json:"sets,omitempty"`
	Tag     string      `json:"tag,omitempty"` // modifier class exercised: abs neg clamp omod sdwa
	Class   string      `json:"class"`         // corner | random
	Sig     string      `json:"operand_kinds"` // operand-kind signature
	Backing int         `json:"backing"`       // 0 emu wavefront, 1 timing wavefront
	Idx     int         `json:"idx"`
	Both    bool        `json:"both_backings,omitempty"` // corner case executed on the emu and on the timing backing
}

// job is everything known about one opcode of one architecture.
type job struct {
	arch   gcnasm.Arch
	format gcnasm.Format
	opcode int
	name   string // manual mnemonic of this arch ("" if unassigned)
	w      gcnasm.Widths
	hasRef bool
	shape  isaspec.ShapeInfo
	shapeK bool
}

func hash64(s string) uint64 {
	h := fnv.New64a()
	h.Write([]byte(s))
	return h.Sum64()
}

// operand kinds
const (
	okVGPR = iota
	okSGPR
	okVCCLo
	okVCCHi
	okEXECLo
	okEXECHi
	okM0
	okInt
	okFloat
	okLit
	okVCC  // 64-bit
	okEXEC // 64-bit
	okSCC
	okVCCZ
	okEXECZ
)

var okName = [...]string{"v", "s", "vcc_lo", "vcc_hi", "exec_lo", "exec_hi", "m0", "int", "float", "lit", "vcc", "exec", "scc", "vccz", "execz"}

// builder assembles one case.
type builder struct {
	r     *vlib.PRNG
	c     *Case
	usedS map[int]bool
	usedV map[int]bool
	sig   []string
	bus   bool // VALU constant bus (one SGPR/special/literal) in use
	busOp gcnasm.Operand
	lit   bool
	litV  uint32
	// forceLast: the next register allocated is the last one of its file
	// (s101 / s[100:101] / v255 / v[254:255]): operands read wider than
	// they are run off the end of the register file there
	forceLast bool
}

func newBuilder(r *vlib.PRNG, c *Case) *builder {
	return &builder{r: r, c: c, usedS: map[int]bool{}, usedV: map[int]bool{}}
}

func (b *builder) sgpr(w int) gcnasm.Operand {
	align := 1
	if w >= 2 {
		align = 2
	}
	if w >= 4 {
		align = 4
	}
	if b.forceLast {
		b.forceLast = false
		i := (isaspec.NumSGPR - w) / align * align
		free := true
		for k := 0; k < w; k++ {
			free = free && !b.usedS[i+k]
		}
		if free {
			for k := 0; k < w; k++ {
				b.usedS[i+k] = true
			}
			return gcnasm.SRange(i, w)
		}
	}
	for try := 0; try < 200; try++ {
		i := b.r.Intn(isaspec.NumSGPR-w+1) / align * align
		ok := true
		for k := 0; k < w; k++ {
			if b.usedS[i+k] {
				ok = false
			}
		}
		if ok {
			for k := 0; k < w; k++ {
				b.usedS[i+k] = true
			}
			return gcnasm.SRange(i, w)
		}
	}
	panic("no free SGPR")
}

func (b *builder) vgpr(w int) gcnasm.Operand {
	if b.forceLast {
		b.forceLast = false
		i := isaspec.NumVGPR - w
		free := true
		for k := 0; k < w; k++ {
			free = free && !b.usedV[i+k]
		}
		if free {
			for k := 0; k < w; k++ {
				b.usedV[i+k] = true
			}
			return gcnasm.VRange(i, w)
		}
	}
	for try := 0; try < 200; try++ {
		i := b.r.Intn(isaspec.NumVGPR - w + 1)
		ok := true
		for k := 0; k < w; k++ {
			if b.usedV[i+k] {
				ok = false
			}
		}
		if ok {
			for k := 0; k < w; k++ {
				b.usedV[i+k] = true
			}
			return gcnasm.VRange(i, w)
		}
	}
	panic("no free VGPR")
}

func (b *builder) setS(o gcnasm.Operand, v uint64, w int) {
	vals := []uint32{uint32(v)}
	if w == 2 {
		vals = append(vals, uint32(v>>32))
	}
	b.c.Sets = append(b.c.Sets, regSet{Kind: "s", Idx: o.Index, Vals: vals})
}

func (b *builder) setSN(o gcnasm.Operand, vals []uint32) {
	b.c.Sets = append(b.c.Sets, regSet{Kind: "s", Idx: o.Index, Vals: vals})
}

// setV assigns lane values (64 of them, w dwords each) to a VGPR operand.
func (b *builder) setV(o gcnasm.Operand, lanes []uint64, w int) {
	for k := 0; k < w; k++ {
		vals := make([]uint32, 64)
		for ln := range vals {
			vals[ln] = uint32(lanes[ln] >> (32 * uint(k)))
		}
		b.c.Sets = append(b.c.Sets, regSet{Kind: "v", Idx: o.Index + k, Vals: vals})
	}
}

// scalarSrc builds a scalar-side source of the given kind holding value v
// (registers are set to v; constants carry their own value and v is ignored
// except for literals). fl: 0 int, 1 f32, 2 f64.
func (b *builder) scalarSrc(kind int, v uint64, w int, pick int) gcnasm.Operand {
	b.sig = append(b.sig, okName[kind])
	switch kind {
	case okSGPR:
		o := b.sgpr(w)
		b.setS(o, v, w)
		return o
	case okVCCLo:
		b.c.VCC = b.c.VCC&^0xffffffff | v&0xffffffff
		return gcnasm.VCCLo
	case okVCCHi:
		b.c.VCC = b.c.VCC&0xffffffff | v<<32
		return gcnasm.VCCHi
	case okEXECLo:
		b.c.EXEC = b.c.EXEC&^0xffffffff | v&0xffffffff
		return gcnasm.EXECLo
	case okEXECHi:
		b.c.EXEC = b.c.EXEC&0xffffffff | v<<32
		return gcnasm.EXECHi
	case okM0:
		b.c.M0 = uint32(v)
		return gcnasm.M0
	case okVCC:
		b.c.VCC = v
		return gcnasm.VCC
	case okEXEC:
		b.c.EXEC = v
		return gcnasm.EXEC
	case okInt:
		return gcnasm.Imm(inlineInts[pick%len(inlineInts)])
	case okFloat:
		return gcnasm.F(inlineFloats[pick%len(inlineFloats)])
	case okLit:
		if b.lit { // one literal per instruction
			return gcnasm.Lit(b.litV)
		}
		b.lit, b.litV = true, uint32(v)
		return gcnasm.Lit(uint32(v))
	case okSCC:
		b.c.SCC = uint32(v & 1)
		return gcnasm.SCC
	case okVCCZ:
		return gcnasm.VCCZ
	case okEXECZ:
		return gcnasm.EXECZ
	}
	panic("bad kind")
}

// value domains -------------------------------------------------------------

// dom is the value domain of one operand: 0 int32, 1 f32, 2 f64, 3 int64.
func cornerSet(dom int, small bool) []uint64 {
	var out []uint64
	switch dom {
	case 0:
		src := cornerU32
		if small {
			src = corner3U32
		}
		for _, v := range src {
			out = append(out, uint64(v))
		}
	case 1:
		src := cornerF32
		if small {
			src = corner3F32
		}
		for _, v := range src {
			out = append(out, uint64(v))
		}
	case 2:
		if small {
			return corner3F64
		}
		return cornerF64
	case 3:
		if small {
			return cornerU64[:14]
		}
		return cornerU64
	}
	return out
}

func randVal(r *vlib.PRNG, dom int) uint64 {
	switch dom {
	case 0:
		return uint64(randU32(r))
	case 1:
		return uint64(randF32(r))
	case 2:
		return randF64(r)
	}
	return randU64(r)
}

func domOf(w, fl int) int {
	switch {
	case fl == 1:
		return 1
	case fl == 2:
		return 2
	case w == 2:
		return 3
	}
	return 0
}

// tuples enumerates the cross product of the domains' corner sets.
func tuples(doms []int) [][]uint64 {
	small := len(doms) >= 3
	sets := make([][]uint64, len(doms))
	n := 1
	for i, d := range doms {
		sets[i] = cornerSet(d, small)
		n *= len(sets[i])
	}
	out := make([][]uint64, 0, n)
	idx := make([]int, len(doms))
	for {
		t := make([]uint64, len(doms))
		for i := range doms {
			t[i] = sets[i][idx[i]]
		}
		out = append(out, t)
		k := len(doms) - 1
		for k >= 0 {
			idx[k]++
			if idx[k] < len(sets[k]) {
				break
			}
			idx[k] = 0
			k--
		}
		if k < 0 {
			break
		}
	}
	return out
}

func (j *job) caseBase(class string, idx int, seedMix uint64) *Case {
	base := hash64(fmt.Sprintf("%v/%d/%s", j.format, j.opcode, class))
	c := &Case{Arch: j.arch, Class: class, Idx: idx, LDSSize: 1024}
	s := base ^ seedMix
	c.BgSeed = mixu(s + uint64(idx)*0x9e3779b97f4a7c15)
	c.VSeed = mixu(base) + uint64(idx%4) // four VGPR background images per opcode and class
	c.EXEC = ^uint64(0)
	c.VCC = mixu(c.BgSeed ^ 0x1111)
	c.SCC = uint32(idx & 1)
	c.M0 = uint32(mixu(c.BgSeed ^ 0x2222))
	c.PC = 0x10000 + uint64(mixu(c.BgSeed^0x3333)&0xffff)*4
	c.Desc = gcnasm.Desc{Arch: j.arch, Format: j.format, Opcode: j.opcode, Name: j.name}
	return c
}

func mixu(x uint64) uint64 {
	x += 0x9e3779b97f4a7c15
	x = (x ^ (x >> 30)) * 0xbf58476d1ce4e5b9
	x = (x ^ (x >> 27)) * 0x94d049bb133111eb
	return x ^ (x >> 31)
}

// gen produces the case list of a job. r is the seeded generator for the
// random part; the corner part does not use it.
func (j *job) gen(nRandom int, r *vlib.PRNG) []*Case {
	var out []*Case
	add := func(cs []*Case) {
		for _, c := range cs {
			c.Idx = len(out)
			out = append(out, c)
		}
	}
	cr := vlib.NewPRNG(hash64(fmt.Sprintf("corner/%v/%d", j.format, j.opcode)))
	switch j.format {
	case gcnasm.SOP2, gcnasm.SOPC, gcnasm.SOP1, gcnasm.SOPK:
		add(j.genScalar("corner", cr, 0))
		add(j.genScalar("random", r, nRandom))
	case gcnasm.SOPP:
		add(j.genSOPP("corner", cr, 0))
		add(j.genSOPP("random", r, nRandom))
	case gcnasm.SMEM:
		add(j.genSMEM("corner", cr, 60))
		add(j.genSMEM("random", r, nRandom))
	case gcnasm.VOP1, gcnasm.VOP2, gcnasm.VOPC, gcnasm.VOP3a, gcnasm.VOP3b:
		add(j.genVALU("corner", cr, 0))
		add(j.genVALU("random", r, nRandom))
	case gcnasm.DS:
		add(j.genDS("corner", cr, 80))
		add(j.genDS("random", r, nRandom))
	case gcnasm.FLAT:
		add(j.genFLAT("corner", cr, 80))
		add(j.genFLAT("random", r, nRandom))
	}
	return out
}

// ---------------------------------------------------------------------------
// scalar formats

var scalarKinds32 = []int{okSGPR, okSGPR, okVCCLo, okVCCHi, okEXECLo, okEXECHi, okM0, okInt, okFloat, okLit, okSGPR, okSCC, okVCCZ, okEXECZ}
var scalarKinds64 = []int{okSGPR, okVCC, okEXEC, okInt, okSGPR}
var scalarDst32 = []int{okSGPR, okSGPR, okVCCLo, okVCCHi, okM0, okEXECLo, okEXECHi, okSGPR}
var scalarDst64 = []int{okSGPR, okSGPR, okVCC, okEXEC}

func (b *builder) scalarDst(kind, w int) gcnasm.Operand {
	b.sig = append(b.sig, "d:"+okName[kind])
	switch kind {
	case okSGPR:
		return b.sgpr(w)
	case okVCCLo:
		return gcnasm.VCCLo
	case okVCCHi:
		return gcnasm.VCCHi
	case okM0:
		return gcnasm.M0
	case okEXECLo:
		return gcnasm.EXECLo
	case okEXECHi:
		return gcnasm.EXECHi
	case okVCC:
		return gcnasm.VCC
	case okEXEC:
		return gcnasm.EXEC
	}
	panic("bad dst kind")
}

func (j *job) genScalar(class string, r *vlib.PRNG, nRandom int) []*Case {
	w := j.w
	var srcW []int
	if w.Src0 > 0 {
		srcW = append(srcW, w.Src0)
	}
	if j.format != gcnasm.SOP1 && j.format != gcnasm.SOPK && w.Src1 > 0 {
		srcW = append(srcW, w.Src1)
	}
	if j.format == gcnasm.SOPK {
		srcW = []int{1} // D is also a source (cmpk, addk, mulk)
	}
	doms := make([]int, len(srcW))
	for i, sw := range srcW {
		doms[i] = domOf(sw, 0)
	}
	var out []*Case
	lastSrc, both, pickConst := -1, false, -1
	mk := func(idx int, vals []uint64, kinds []int, dstKind int, simm uint16) *Case {
		c := j.caseBase(class, idx, 0)
		c.Both = both
		if class == "random" {
			c.BgSeed = r.Uint64()
			c.VCC, c.SCC, c.M0 = r.Uint64(), uint32(r.Intn(2)), r.Uint32()
			c.EXEC = execPattern(r, idx)
		} else {
			c.EXEC = execPatterns[idx%len(execPatterns)]
		}
		b := newBuilder(r, c)
		var ops []gcnasm.Operand
		for i, sw := range srcW {
			b.forceLast = i == lastSrc
			pick := idx/3 + i
			if pickConst >= 0 {
				pick = pickConst
			}
			ops = append(ops, b.scalarSrc(kinds[i], vals[i], sw, pick))
			b.forceLast = false
		}
		d := &c.Desc
		switch j.format {
		case gcnasm.SOP2:
			d.Src0, d.Src1 = ops[0], ops[1]
			if w.Dst > 0 {
				d.Dst = b.scalarDst(dstKind, w.Dst)
			}
		case gcnasm.SOPC:
			d.Src0, d.Src1 = ops[0], ops[1]
		case gcnasm.SOP1:
			if len(ops) > 0 {
				d.Src0 = ops[0]
			} else {
				d.Src0 = gcnasm.Imm(0)
			}
			if w.Dst > 0 {
				d.Dst = b.scalarDst(dstKind, w.Dst)
				if strings.HasPrefix(j.name, "s_bitset") { // D is read as well
					if d.Dst.Kind == gcnasm.KSGPR {
						b.setS(d.Dst, r.Uint64(), w.Dst)
					}
				}
			} else {
				d.Dst = gcnasm.S(0)
			}
		case gcnasm.SOPK:
			d.Dst = ops[0] // register holding vals[0]
			d.SImm16 = simm
		}
		c.Sig = strings.Join(b.sig, ",")
		return c
	}
	regKindsFor := func(sw int) []int {
		if sw == 2 {
			return scalarKinds64
		}
		return scalarKinds32
	}
	dstKindsFor := func() []int {
		if w.Dst == 2 {
			return scalarDst64
		}
		return scalarDst32
	}
	simmCorners := []uint16{0, 1, 0xffff, 0x7fff, 0x8000, 0x8001, 2, 0xfffe, 31, 32, 0x1234, 0xff00}
	if class == "corner" {
		idx := 0
		if j.format == gcnasm.SOPK {
			for _, a := range cornerSet(0, false) {
				for _, k := range simmCorners {
					kind := []int{okSGPR, okSGPR, okVCCLo, okM0, okEXECHi}[idx%5]
					out = append(out, mk(idx, []uint64{a}, []int{kind}, okSGPR, k))
					idx++
				}
			}
			return out
		}
		if len(srcW) == 0 { // s_getpc_b64
			for i := 0; i < 24; i++ {
				out = append(out, mk(i, nil, nil, dstKindsFor()[i%len(dstKindsFor())], 0))
			}
			return out
		}
		// 1. all-register cross of the corner sets
		for _, t := range tuples(doms) {
			kinds := make([]int, len(srcW))
			for i := range kinds {
				kinds[i] = okSGPR
			}
			out = append(out, mk(idx, t, kinds, dstKindsFor()[0], 0))
			idx++
		}
		// 2. operand kinds cycled (each source kind x a slice of the cross), destinations cycled;
		// each of these also runs on the timing-side backing
		ts := tuples(doms)
		both = true
		for rep := 0; rep < 4; rep++ {
			for ki := 0; ki < 14; ki++ {
				kinds := make([]int, len(srcW))
				for i, sw := range srcW {
					ks := regKindsFor(sw)
					kinds[i] = ks[(ki+i*5+rep*3)%len(ks)]
				}
				// two different special registers of the same 64-bit register cannot hold independent values
				t := ts[(idx*7919)%len(ts)]
				kinds = j.fixScalarKinds(kinds)
				dk := dstKindsFor()
				out = append(out, mk(idx, t, kinds, dk[(ki+rep)%len(dk)], 0))
				idx++
			}
		}
		// 3. every source in turn in the last register of the file, and the destination there
		for i := range srcW {
			for rep := 0; rep < 3; rep++ {
				lastSrc = i
				kinds := make([]int, len(srcW))
				for q := range kinds {
					kinds[q] = okSGPR
				}
				out = append(out, mk(idx, ts[(idx*7919)%len(ts)], kinds, okSGPR, 0))
				idx++
			}
		}
		lastSrc = -1
		// 4. inline constants (integer and float) in every source position against a small sweep of the other
		small := make([][]uint64, len(srcW))
		for i := range srcW {
			small[i] = cornerSet(doms[i], true)
		}
		for i, sw := range srcW {
			ks := []int{okInt}
			if sw == 1 {
				ks = []int{okInt, okFloat}
			}
			for _, k := range ks {
				nconst := len(inlineInts)
				if k == okFloat {
					nconst = len(inlineFloats)
				}
				for cidx := 0; cidx < nconst; cidx++ {
					for q := 0; q < len(small[0]); q++ {
						kinds := make([]int, len(srcW))
						vals := make([]uint64, len(srcW))
						for z := range kinds {
							kinds[z] = okSGPR
							vals[z] = small[z][(q+z*5)%len(small[z])]
						}
						kinds[i] = k
						pickConst = cidx
						out = append(out, mk(idx, vals, kinds, okSGPR, 0))
						pickConst = -1
						idx++
					}
				}
			}
		}
		// 5. both halves of VCC / EXEC as 32-bit sources while the other halves hold unrelated data
		// (an operand read wider than 32 bits leaks the other half into results and SCC)
		if len(srcW) == 2 && srcW[0] == 1 && srcW[1] == 1 {
			pairs := [][2]uint64{{0, 0}, {0x0f, 0xf0}, {1, 1}, {0xffffffff, 0}, {0x12345678, 0xedcba987}, {0x80000000, 0x80000000}, {5, 3}, {0, 1}}
			kk := [][2]int{{okVCCLo, okEXECLo}, {okEXECLo, okVCCLo}, {okVCCHi, okEXECHi}, {okEXECHi, okVCCLo}, {okVCCLo, okSGPR}, {okSGPR, okEXECLo}}
			for _, kp := range kk {
				for _, vp := range pairs {
					c := mk(idx, []uint64{vp[0], vp[1]}, []int{kp[0], kp[1]}, okSGPR, 0)
					// dirty the halves that are not operands
					if kp[0] == okVCCLo || kp[1] == okVCCLo {
						c.VCC |= 0xa5a5a5a5 << 32
					}
					if kp[0] == okVCCHi {
						c.VCC |= 0x5a5a5a5a
					}
					if kp[0] == okEXECLo || kp[1] == okEXECLo {
						c.EXEC |= 0xc3c3c3c3 << 32
					}
					if kp[0] == okEXECHi || kp[1] == okEXECHi {
						c.EXEC |= 0x3c3c3c3c
					}
					out = append(out, c)
					idx++
				}
			}
			// VCC_LO against the negative inline integers (both are candidates for a 64-bit read)
			for _, ci := range []int{8, 9, 10} { // -1, -2, -16
				for _, lo := range []uint64{0, 1, 0xf, 0x10, 0xffffffff, 0x80000000} {
					for pos := 0; pos < 2; pos++ {
						kinds := []int{okVCCLo, okInt}
						vals := []uint64{lo, 0}
						if pos == 1 {
							kinds, vals = []int{okInt, okVCCLo}, []uint64{0, lo}
						}
						pickConst = ci
						c := mk(idx, vals, kinds, okSGPR, 0)
						pickConst = -1
						c.VCC |= 0xa5a5a5a5 << 32
						out = append(out, c)
						idx++
					}
				}
			}
		}
		both = false
		return out
	}
	for i := 0; i < nRandom; i++ {
		vals := make([]uint64, len(srcW))
		kinds := make([]int, len(srcW))
		for k, sw := range srcW {
			vals[k] = randVal(r, doms[k])
			ks := regKindsFor(sw)
			kinds[k] = ks[r.Intn(len(ks))]
		}
		kinds = j.fixScalarKinds(kinds)
		dk := dstKindsFor()
		if j.format == gcnasm.SOPK {
			kinds = []int{[]int{okSGPR, okSGPR, okVCCLo, okVCCHi, okM0, okEXECLo}[r.Intn(6)]}
		}
		simm := uint16(r.Uint32())
		if r.Intn(3) == 0 {
			simm = simmCorners[r.Intn(len(simmCorners))]
		}
		out = append(out, mk(i, vals, kinds, dk[r.Intn(len(dk))], simm))
	}
	return out
}

// fixScalarKinds avoids combinations that cannot be encoded or whose operands
// cannot hold independent values: two literals, the same special register twice.
func (j *job) fixScalarKinds(kinds []int) []int {
	seen := map[int]bool{}
	for i, k := range kinds {
		grp := k
		switch k {
		case okVCCLo, okVCCHi, okVCC, okVCCZ:
			grp = okVCC
		case okEXECLo, okEXECHi, okEXEC, okEXECZ:
			grp = okEXEC
		}
		if k != okSGPR && k != okInt && k != okFloat && seen[grp] {
			kinds[i] = okSGPR
			continue
		}
		seen[grp] = true
	}
	return kinds
}

func (j *job) genSOPP(class string, r *vlib.PRNG, nRandom int) []*Case {
	var out []*Case
	simms := []uint16{0, 1, 2, 0xffff, 0xfffe, 0x7fff, 0x8000, 0x8001, 0x100, 0xff00, 12, 0x3fff}
	if class == "corner" {
		idx := 0
		for _, s := range simms {
			for v := 0; v < 8; v++ {
				c := j.caseBase(class, idx, 0)
				c.SCC = uint32(v & 1)
				c.VCC = []uint64{0, 1, 1 << 63, 0xffffffff00000000}[v>>1&3]
				c.EXEC = []uint64{0, ^uint64(0), 1 << 32, 0}[(v+idx/8)&3]
				c.Desc.SImm16 = s
				c.Sig = "simm16"
				out = append(out, c)
				idx++
			}
		}
		return out
	}
	for i := 0; i < nRandom; i++ {
		c := j.caseBase(class, i, 0)
		c.BgSeed = r.Uint64()
		c.SCC = uint32(r.Intn(2))
		c.VCC = []uint64{0, r.Uint64(), 1, 1 << 40}[r.Intn(4)]
		c.EXEC = []uint64{0, r.Uint64(), 1, 1 << 40}[r.Intn(4)]
		c.PC = 0x1000 + uint64(r.Uint32())*4
		c.Desc.SImm16 = uint16(r.Uint32())
		c.Sig = "simm16"
		out = append(out, c)
	}
	return out
}

func (j *job) genSMEM(class string, r *vlib.PRNG, n int) []*Case {
	var out []*Case
	nd := j.w.Data
	if nd == 0 {
		nd = 1
	}
	for i := 0; i < n; i++ {
		c := j.caseBase(class, i, 0)
		if class == "random" {
			c.BgSeed = r.Uint64()
			c.EXEC = execPattern(r, i)
		}
		b := newBuilder(r, c)
		base := b.sgpr(2)
		baseV := uint64(0x0000100000000000) + uint64(r.Uint32())&^3
		if i%5 == 4 {
			baseV |= uint64(r.Intn(4)) // low address bits set: "& ~0x3"
		}
		if i%7 == 6 {
			baseV = 0x00007fffffffff00 + uint64(r.Intn(64))*4 // crosses a 4 GiB boundary with the offset
		}
		b.setS(base, baseV, 2)
		d := &c.Desc
		d.Base = base
		dataAlign := nd
		if dataAlign > 4 {
			dataAlign = 4
		}
		// destination: aligned SGPR block
		for {
			k := r.Intn(isaspec.NumSGPR-nd+1) / dataAlign * dataAlign
			ok := true
			for q := 0; q < nd; q++ {
				if b.usedS[k+q] {
					ok = false
				}
			}
			if ok || i%9 == 8 { // sometimes the destination overlaps the base pair
				if !ok {
					k = base.Index / dataAlign * dataAlign
					if k+nd > isaspec.NumSGPR {
						k = (isaspec.NumSGPR - nd) / dataAlign * dataAlign
					}
				}
				d.Data = gcnasm.SRange(k, nd)
				for q := 0; q < nd; q++ {
					b.usedS[k+q] = true
				}
				break
			}
		}
		sig := "imm"
		switch i % 3 {
		case 0, 1:
			d.Imm = true
			offs := []int64{0, 4, 8, 0x100, 0xffffc, 0xfffff, 1, 2, 3, 0x7fffc, 64}
			d.Offset = offs[(i/3)%len(offs)]
			if class == "random" && r.Bool() {
				d.Offset = int64(r.Intn(1 << 20))
			}
			if j.arch == gcnasm.CDNA3 && i%6 == 4 {
				d.Offset = -int64(4 * (1 + r.Intn(1000))) // 21-bit signed
				sig = "imm-neg"
			}
		default:
			d.Imm = false
			kind := []int{okSGPR, okM0, okSGPR}[(i/3)%3]
			ov := uint64([]uint32{0, 4, 0xfffffffc, 0x80000000, 5, 0x1000}[(i/9)%6])
			if class == "random" {
				ov = uint64(r.Uint32())
			}
			d.SOffset = b.scalarSrc(kind, ov, 1, 0)
			sig = "soffset:" + okName[kind]
		}
		c.Sig = sig
		out = append(out, c)
	}
	return out
}

// ---------------------------------------------------------------------------
// VALU

func (j *job) valuShape() (srcW [3]int, srcF [3]int, dstW int, sh isaspec.ShapeInfo) {
	if j.shapeK {
		sh = j.shape
		return sh.SrcW, sh.SrcF, sh.DstW, sh
	}
	// no reference: widths from the mnemonic, float-ness from the type suffix
	w := j.w
	srcW = [3]int{w.Src0, w.Src1, w.Src2}
	if j.format == gcnasm.VOP1 {
		srcW[1], srcW[2] = 0, 0
	}
	if j.format == gcnasm.VOP2 || j.format == gcnasm.VOPC {
		srcW[2] = 0
	}
	fl := 0
	if strings.Contains(j.name, "_f32") || strings.Contains(j.name, "_f16") {
		fl = 1
	}
	if strings.Contains(j.name, "_f64") {
		fl = 2
	}
	for i := range srcW {
		if srcW[i] > 2 {
			srcW[i] = 2
		}
		if srcW[i] > 0 {
			srcF[i] = fl
			if fl == 2 && srcW[i] == 1 || fl == 1 && srcW[i] == 2 {
				srcF[i] = 0
			}
		}
	}
	dstW = w.Dst
	if dstW == 0 && !strings.HasPrefix(j.name, "v_cmp") && j.name != "v_nop" {
		dstW = 1
	}
	sh.Compare = strings.HasPrefix(j.name, "v_cmp")
	sh.CmpX = strings.HasPrefix(j.name, "v_cmpx")
	sh.DstSGPR = w.DstIsSGPR
	return
}

// vsrcKinds: kinds a 9-bit VALU source may take.
var vsrcKinds32 = []int{okVGPR, okSGPR, okVGPR, okVCCLo, okInt, okVGPR, okFloat, okLit, okM0, okVGPR, okEXECLo, okVCCHi, okEXECHi, okSGPR}
var vsrcKinds64 = []int{okVGPR, okSGPR, okVGPR, okVCC, okInt, okVGPR, okFloat, okEXEC, okLit}

func (j *job) genVALU(class string, r *vlib.PRNG, nRandom int) []*Case {
	srcW, srcF, dstW, sh := j.valuShape()
	nsrc := 0
	for i := 0; i < 3; i++ {
		if srcW[i] > 0 {
			nsrc = i + 1
		}
	}
	vop3 := j.format == gcnasm.VOP3a || j.format == gcnasm.VOP3b
	doms := make([]int, nsrc)
	for i := 0; i < nsrc; i++ {
		doms[i] = domOf(srcW[i], srcF[i])
	}
	isMadK := j.name == "v_madak_f32" || j.name == "v_madmk_f32" || j.name == "v_madak_f16" || j.name == "v_madmk_f16" ||
		j.name == "v_fmaak_f32" || j.name == "v_fmamk_f32"
	anyFloat := srcF[0] != 0 || srcF[1] != 0 || srcF[2] != 0
	var out []*Case

	// mk builds one case. lanes[i][ln] = value of source i in lane ln; kinds[i] = operand kind.
	lastSrc, lastDst, both := -1, false, false
	mk := func(idx int, lanes [][]uint64, kinds []int, exec uint64, tag string, pick int) *Case {
		c := j.caseBase(class, idx, 0)
		c.Both = both
		if class == "random" {
			c.BgSeed = r.Uint64()
			c.VSeed = mixu(hash64(j.name)) + uint64(r.Intn(4)) + 100
			c.VCC, c.SCC, c.M0 = r.Uint64(), uint32(r.Intn(2)), r.Uint32()
		}
		c.EXEC = exec
		c.Tag = tag
		b := newBuilder(r, c)
		d := &c.Desc
		var ops [3]gcnasm.Operand
		if vop3 && (sh.CarryIn || sh.Select) {
			b.bus = true // the mask SGPR pair in SRC2 already occupies the constant bus
		}
		for i := 0; i < nsrc; i++ {
			if srcW[i] == 0 {
				continue
			}
			k := kinds[i]
			// position constraints
			if !vop3 && i == 1 {
				k = okVGPR
			}
			if !vop3 && i == 2 && isMadK {
				k = okLit
			}
			if vop3 && k == okLit {
				k = okSGPR // "Any of the 32-bit microcode formats can use a 32-bit literal constant, but not VOP3"
			}
			if k != okVGPR && k != okInt && k != okFloat {
				// one constant-bus operand per instruction (6.2.1); M0/VCC/EXEC count
				if b.bus && !(isMadK && i == 2) {
					k = okVGPR
				} else if !(isMadK && i == 2) {
					b.bus = true
				}
			}
			if isMadK && i < 2 && k != okVGPR && k != okInt && k != okFloat {
				k = okVGPR // the literal K occupies the constant bus
			}
			if k == okFloat && srcF[i] == 0 && srcW[i] == 2 {
				k = okInt // inline float as 64-bit integer: not specified
			}
			if k == okLit && srcW[i] == 2 && srcF[i] != 2 {
				k = okSGPR // literal as 64-bit integer: manual contradicts itself
			}
			if sh.LaneSelSrc1 && i == 1 {
				k = []int{okSGPR, okM0, okInt}[idx%3]
			}
			if sh.DstSGPR && i == 0 {
				k = okVGPR
			}
			b.forceLast = i == lastSrc
			if k == okVGPR {
				o := b.vgpr(srcW[i])
				b.forceLast = false
				b.setV(o, lanes[i], srcW[i])
				b.sig = append(b.sig, "v")
				ops[i] = o
				continue
			}
			if srcW[i] == 2 {
				switch k {
				case okVCCLo, okVCCHi:
					k = okVCC
				case okEXECLo, okEXECHi:
					k = okEXEC
				case okM0:
					k = okSGPR
				}
			}
			ops[i] = b.scalarSrc(k, lanes[i][0], srcW[i], pick+i)
			b.forceLast = false
		}
		// EXEC used as data overrides the chosen pattern: keep what scalarSrc set
		d.Src0, d.Src1, d.Src2 = ops[0], ops[1], ops[2]
		// destination
		switch {
		case sh.Compare:
			if vop3 {
				dk := []int{okSGPR, okSGPR, okVCC, okSGPR}[idx%4]
				d.Dst = b.scalarDst(dk, 2)
			}
		case sh.DstSGPR:
			d.Dst = b.scalarDst([]int{okSGPR, okVCCLo, okM0, okSGPR}[idx%4], 1)
		case dstW > 0:
			// sometimes the destination is one of the sources (read-modify-write on the same register)
			if idx%5 == 3 && ops[0].Kind == gcnasm.KVGPR && srcW[0] == dstW {
				d.Dst = ops[0]
				b.sig = append(b.sig, "d:=src0")
			} else if idx%5 == 4 && nsrc > 1 && ops[1].Kind == gcnasm.KVGPR && srcW[1] == dstW {
				d.Dst = ops[1]
				b.sig = append(b.sig, "d:=src1")
			} else {
				b.forceLast = lastDst
				d.Dst = b.vgpr(dstW)
				b.forceLast = false
				b.sig = append(b.sig, "d:v")
			}
		}
		if j.format == gcnasm.VOP3b {
			d.SDst = b.scalarDst([]int{okSGPR, okVCC, okSGPR}[idx%3], 2)
			if sh.CarryIn {
				// carry-in mask in SRC2
				ci := b.scalarSrcNoBus([]int{okSGPR, okVCC}[idx%2], mixu(uint64(idx)*77+c.BgSeed))
				d.Src2 = ci
			}
		}
		if vop3 && sh.Select {
			d.Src2 = b.scalarSrcNoBus([]int{okSGPR, okVCC, okSGPR}[idx%3], mixu(uint64(idx)*131+c.BgSeed))
		}
		// modifiers
		switch tag {
		case "abs":
			d.Abs = uint8(1 + idx%((1<<uint(nsrc))-1))
		case "neg":
			d.Neg = uint8(1 + idx%((1<<uint(nsrc))-1))
		case "clamp":
			d.Clamp = true
		case "omod":
			d.Omod = uint8(1 + idx%3)
		case "sdwa":
			s := gcnasm.DefaultSDWA()
			if anyFloat {
				s.Src0Neg, s.Src0Abs = idx&1 == 1, idx&2 == 2
				s.Src1Neg, s.Src1Abs = idx&4 == 4, idx&8 == 8
			} else {
				s.Src0Sel = uint8(idx % 7)
				s.Src1Sel = uint8((idx / 7) % 7)
				s.Src0Sext = idx&1 == 1
				s.Src1Sext = idx&2 == 2
				s.DstSel = uint8((idx / 3) % 7)
				s.DstUnused = uint8((idx / 5) % 3)
			}
			d.SDWA = &s
		}
		c.Sig = strings.Join(b.sig, ",")
		if tag != "" {
			c.Sig += "+" + tag
		}
		return c
	}

	allV := make([]int, nsrc)
	for i := range allV {
		allV[i] = okVGPR
	}
	laneFill := func(ts [][]uint64, from int) [][]uint64 {
		lanes := make([][]uint64, nsrc)
		for i := range lanes {
			lanes[i] = make([]uint64, 64)
			for ln := 0; ln < 64; ln++ {
				lanes[i][ln] = ts[(from+ln)%len(ts)][i]
			}
		}
		return lanes
	}
	kindsAt := func(ki int) []int {
		kinds := make([]int, nsrc)
		for i := range kinds {
			ks := vsrcKinds32
			if srcW[i] == 2 {
				ks = vsrcKinds64
			}
			kinds[i] = ks[(ki+i*3)%len(ks)]
		}
		return kinds
	}

	if class == "corner" {
		if nsrc == 0 {
			for i := 0; i < 8; i++ {
				out = append(out, mk(i, nil, nil, execPatterns[i%len(execPatterns)], "", 0))
			}
			return out
		}
		ts := tuples(doms)
		idx := 0
		// 1. full cross over the lanes, all sources VGPRs, every lane active
		for from := 0; from < len(ts); from += 64 {
			out = append(out, mk(idx, laneFill(ts, from), allV, ^uint64(0), "", idx))
			idx++
		}
		// 2. operand kinds cycled; scalar kinds fix one source per case, the others sweep the lanes;
		// each of these also runs on the timing-side backing
		both = true
		for rep := 0; rep < 3; rep++ {
			for ki := 0; ki < 14; ki++ {
				from := (idx * 7919 * 64) % len(ts)
				out = append(out, mk(idx, laneFill(ts, from), kindsAt(ki+rep), execPatterns[(idx)%len(execPatterns)], "", idx))
				idx++
			}
		}
		// 2b. every source in turn (as VGPR, then as SGPR) and the destination in the last register of its file
		for i := 0; i < nsrc; i++ {
			for _, k := range []int{okVGPR, okSGPR} {
				lastSrc = i
				kinds := append([]int(nil), allV...)
				kinds[i] = k
				from := (idx * 7919 * 64) % len(ts)
				out = append(out, mk(idx, laneFill(ts, from), kinds, ^uint64(0), "", idx))
				idx++
			}
		}
		lastSrc, lastDst = -1, true
		out = append(out, mk(idx-idx%5, laneFill(ts, 0), allV, ^uint64(0), "", idx))
		idx++
		lastDst = false
		// 2c. inline integer and float constants in every 9-bit source position against a lane sweep of the others
		for i := 0; i < nsrc; i++ {
			if !vop3 && i > 0 {
				break
			}
			for _, k := range []int{okInt, okFloat} {
				nconst := len(inlineInts)
				if k == okFloat {
					nconst = len(inlineFloats)
				}
				for cidx := 0; cidx < nconst; cidx++ {
					kinds := append([]int(nil), allV...)
					kinds[i] = k
					from := (idx * 7919 * 64) % len(ts)
					// scalarSrc picks constant (pick+i) % n
					out = append(out, mk(idx, laneFill(ts, from), kinds, ^uint64(0), "", cidx+nconst-i%nconst))
					idx++
				}
			}
		}
		both = false
		// 3. scalar first source sweeping its whole corner set against a lane sweep of the second
		if nsrc >= 1 {
			s0 := cornerSet(doms[0], nsrc >= 3)
			for n, a := range s0 {
				from := (n * 64) % len(ts)
				lanes := laneFill(ts, from)
				for ln := range lanes[0] {
					lanes[0][ln] = a
				}
				kinds := append([]int(nil), allV...)
				kinds[0] = []int{okSGPR, okLit, okSGPR, okVCCLo}[n%4]
				if srcW[0] == 2 {
					kinds[0] = []int{okSGPR, okVCC}[n%2]
				}
				out = append(out, mk(idx, lanes, kinds, ^uint64(0), "", idx))
				idx++
			}
		}
		// 4. EXEC patterns on a slice of the cross (inactive lanes must stay untouched)
		for e := range execPatterns {
			from := (idx * 64 * 31) % len(ts)
			out = append(out, mk(idx, laneFill(ts, from), allV, execPatterns[e], "", idx))
			idx++
		}
		// 5. modifiers (VOP3) and SDWA (VOP2), one class at a time
		if j.hasRef {
			var tags []string
			if vop3 && anyFloat && !sh.Compare {
				tags = []string{"abs", "neg", "clamp", "omod"}
			} else if vop3 && anyFloat {
				tags = []string{"abs", "neg"}
			}
			if j.format == gcnasm.VOP2 && !isMadK && !sh.Select && !sh.ReadsDst && srcW[0] == 1 && srcW[1] == 1 && dstW == 1 {
				tags = append(tags, "sdwa")
			}
			if strings.Contains(j.name, "_class_") && vop3 {
				// every IEEE class against every single-class mask, with ABS resp. NEG on the tested value
				cs := cornerSet(doms[0], false)
				for q := 0; q < 2*((len(cs)*10+63)/64); q++ {
					lanes := make([][]uint64, nsrc)
					for i := range lanes {
						lanes[i] = make([]uint64, 64)
					}
					for ln := 0; ln < 64; ln++ {
						n := (q/2)*64 + ln
						lanes[0][ln] = cs[(n/10)%len(cs)]
						lanes[1][ln] = 1 << uint(n%10)
					}
					tag := []string{"abs", "neg"}[q%2]
					c := mk(idx-idx%5, lanes, allV, ^uint64(0), tag, idx)
					c.Desc.Abs, c.Desc.Neg = 0, 0
					if tag == "abs" {
						c.Desc.Abs = 1
					} else {
						c.Desc.Neg = 1
					}
					c.Idx = idx
					out = append(out, c)
					idx++
				}
			}
			for _, tag := range tags {
				n := 12
				if tag == "sdwa" {
					n = 60
				}
				for q := 0; q < n; q++ {
					from := (idx * 64 * 17) % len(ts)
					kinds := allV
					if tag != "sdwa" && q%3 == 2 {
						kinds = kindsAt(q)
					}
					out = append(out, mk(idx, laneFill(ts, from), kinds, execPatterns[q%4], tag, idx))
					idx++
				}
			}
		}
		return out
	}
	for i := 0; i < nRandom; i++ {
		lanes := make([][]uint64, nsrc)
		for s := range lanes {
			lanes[s] = make([]uint64, 64)
			for ln := range lanes[s] {
				lanes[s][ln] = randVal(r, doms[s])
			}
		}
		// boundary sums: some lanes get src1 = ~src0 / -src0 (+-1)
		if nsrc >= 2 && doms[0] == 0 && doms[1] == 0 {
			for q := 0; q < 8; q++ {
				ln := r.Intn(64)
				lanes[1][ln] = uint64(uint32(^uint32(lanes[0][ln]) + uint32(r.Intn(3)) - 1))
			}
		}
		kinds := allV
		if i%2 == 1 && nsrc > 0 {
			kinds = kindsAt(r.Intn(14))
		}
		tag := ""
		if j.hasRef && vop3 && anyFloat && i%8 == 7 {
			tag = []string{"abs", "neg", "clamp", "omod"}[r.Intn(4)]
			if sh.Compare && (tag == "clamp" || tag == "omod") {
				tag = "neg"
			}
		}
		out = append(out, mk(i, lanes, kinds, execPattern(r, i), tag, r.Intn(1000)))
	}
	return out
}

// scalarSrcNoBus: the carry-in / select mask of VOP3 (SGPR pair or VCC).
func (b *builder) scalarSrcNoBus(kind int, v uint64) gcnasm.Operand {
	return b.scalarSrc(kind, v, 2, 0)
}

// ---------------------------------------------------------------------------
// DS / FLAT

func (j *job) genDS(class string, r *vlib.PRNG, n int) []*Case {
	var out []*Case
	w := j.w
	two := strings.Contains(j.name, "read2") || strings.Contains(j.name, "write2")
	st64 := strings.Contains(j.name, "st64")
	elem := 4
	if strings.Contains(j.name, "b64") {
		elem = 8
	}
	for i := 0; i < n; i++ {
		c := j.caseBase(class, i, 0)
		c.LDSSize = 65536
		c.M0 = 0xffffffff
		if i%4 == 1 {
			c.M0 = 0x10000
		}
		if class == "random" {
			c.BgSeed = r.Uint64()
		}
		c.EXEC = execPatterns[i%len(execPatterns)]
		if class == "random" && i%2 == 0 {
			c.EXEC = r.Uint64()
		}
		b := newBuilder(r, c)
		d := &c.Desc
		d.Addr = b.vgpr(1)
		// per-lane disjoint regions of 256 bytes in the first 16 KiB; offsets push them up
		addrs := make([]uint64, 64)
		perm := r.Perm(64)
		for ln := range addrs {
			addrs[ln] = uint64(perm[ln])*256 + uint64(r.Intn(4))*16
			if i%6 == 5 { // unaligned within the element for byte/short forms only
				if strings.HasSuffix(j.name, "b8") || strings.HasSuffix(j.name, "u8") || strings.HasSuffix(j.name, "i8") {
					addrs[ln] += uint64(r.Intn(4))
				}
			}
		}
		if two {
			o0 := []uint8{0, 1, 2, 0, 3, 16, 1}[i%7]
			o1 := []uint8{1, 0, 5, 0, 2, 17, 3}[i%7]
			if st64 {
				o0, o1 = []uint8{0, 1, 2, 0}[i%4], []uint8{1, 0, 3, 2}[i%4]
				for ln := range addrs {
					addrs[ln] = uint64(perm[ln]) * uint64(elem) // lanes interleave within the 64-element stride
				}
			} else if int(o0)*elem >= 200 || int(o1)*elem >= 200 {
				o0, o1 = 0, 1
			}
			d.Offset0, d.Offset1 = o0, o1
		} else {
			off := []uint16{0, 4, 8, 0x10, 0x4000, 0x8000, 0xc000, 0xbff0, 1, 0xfff0 - 0x4000}[i%10]
			if off&3 != 0 && !(strings.HasSuffix(j.name, "b8") || strings.HasSuffix(j.name, "u8") || strings.HasSuffix(j.name, "i8")) {
				off &^= 3
			}
			if class == "random" && i%3 == 0 {
				off = uint16(r.Intn(0xc000)) &^ 0xf
			}
			d.Offset0, d.Offset1 = uint8(off), uint8(off>>8)
		}
		b.setV(d.Addr, addrs, 1)
		dataW := func(x int) int {
			if x <= 0 {
				return 1
			}
			return x
		}
		if strings.Contains(j.name, "read") && !strings.Contains(j.name, "write") {
			dw := dataW(w.MemDst)
			if dw == 0 || w.MemDst == 0 {
				dw = dataW(w.Dst)
			}
			if i%5 == 4 && dw == 1 {
				d.Dst = d.Addr // destination = address register
			} else {
				d.Dst = b.vgpr(dw)
			}
		} else {
			dw := dataW(w.Data)
			d.Data = b.vgpr(dw)
			vals := make([]uint64, 64)
			for k := 0; k < dw; k++ {
				for ln := range vals {
					vals[ln] = uint64(randU32(r))
				}
				b.setV(gcnasm.V(d.Data.Index+k), vals, 1)
			}
			if two || w.Data1 > 0 {
				d.Data1 = b.vgpr(dw)
			}
			if strings.Contains(j.name, "rtn") {
				d.Dst = b.vgpr(1)
			}
		}
		c.Sig = fmt.Sprintf("off0=%d,off1=%d", d.Offset0, d.Offset1)
		out = append(out, c)
	}
	return out
}

func (j *job) genFLAT(class string, r *vlib.PRNG, n int) []*Case {
	var out []*Case
	w := j.w
	isStore := strings.Contains(j.name, "store")
	for i := 0; i < n; i++ {
		c := j.caseBase(class, i, 0)
		if class == "random" {
			c.BgSeed = r.Uint64()
		}
		c.EXEC = execPatterns[i%len(execPatterns)]
		if class == "random" && i%2 == 0 {
			c.EXEC = r.Uint64()
		}
		b := newBuilder(r, c)
		d := &c.Desc
		addrs := make([]uint64, 64)
		perm := r.Perm(64)
		regionBase := uint64(0x0000200000000000) + uint64(r.Uint32())<<8
		if i%7 == 3 {
			regionBase = 0x00000000fffff000 // lanes straddle a 4 GiB boundary: the high dword matters
		}
		for ln := range addrs {
			addrs[ln] = regionBase + uint64(perm[ln])*64 + uint64(r.Intn(4))*4
		}
		sig := "vaddr64"
		mode := 0
		if j.arch == gcnasm.CDNA3 {
			mode = i % 4 // 0: flat seg, 1: global saddr=off + offset, 2: global saddr=sgpr, 3: global off negative offset
		}
		switch mode {
		case 0:
			d.Addr = b.vgpr(2)
			b.setV(d.Addr, addrs, 2)
			if j.arch == gcnasm.CDNA3 {
				d.Seg = gcnasm.SegFlat
				d.SAddr = gcnasm.Off
				d.Offset = int64([]int{0, 4, 0x7fc, 0xffc, 16}[(i/4)%5])
				for ln := range addrs {
					addrs[ln] -= uint64(d.Offset)
				}
				b.c.Sets = b.c.Sets[:0]
				b.setV(d.Addr, addrs, 2)
				sig = "flat+offset"
			}
		case 1, 3:
			d.Seg = gcnasm.SegGlobal
			d.SAddr = gcnasm.Off
			d.Addr = b.vgpr(2)
			d.Offset = int64([]int{0, 4, 0xffc, 0x800, 64}[(i/4)%5])
			if mode == 3 {
				d.Offset = -int64([]int{4, 0x1000, 0x800, 64}[(i/4)%4])
			}
			for ln := range addrs {
				addrs[ln] -= uint64(d.Offset)
			}
			b.setV(d.Addr, addrs, 2)
			sig = "global,saddr=off,offset"
			if mode == 3 {
				sig = "global,saddr=off,neg-offset"
			}
		case 2:
			d.Seg = gcnasm.SegGlobal
			sb := b.sgpr(2)
			if (i/4)%3 == 2 {
				sb = gcnasm.SRange(0, 2) // s[0:1] is a valid base on CDNA3
				b.usedS[0], b.usedS[1] = true, true
			}
			d.SAddr = sb
			d.Offset = int64([]int{0, 8, -8, 0xffc}[(i/4)%4])
			base := regionBase - uint64(d.Offset)
			b.setS(sb, base, 2)
			d.Addr = b.vgpr(1)
			offs := make([]uint64, 64)
			for ln := range offs {
				offs[ln] = addrs[ln] - regionBase
				if (i/4)%5 == 4 {
					offs[ln] += 0x80000000 // 32-bit offset with the top bit set must be zero-extended
				}
			}
			b.setV(d.Addr, offs, 1)
			sig = "global,saddr=sgpr"
		}
		if isStore {
			dw := w.Data
			if dw <= 0 {
				dw = 1
			}
			d.Data = b.vgpr(dw)
			vals := make([]uint64, 64)
			for k := 0; k < dw; k++ {
				for ln := range vals {
					vals[ln] = uint64(randU32(r))
				}
				b.setV(gcnasm.V(d.Data.Index+k), vals, 1)
			}
		} else {
			dw := w.MemDst
			if dw <= 0 {
				dw = w.Dst
			}
			if dw <= 0 {
				dw = 1
			}
			if i%5 == 4 && dw <= 2 && d.Addr.W() == 2 {
				d.Dst = gcnasm.VRange(d.Addr.Index, dw) // load into the address registers
			} else {
				d.Dst = b.vgpr(dw)
			}
		}
		d.GLC = i%5 == 1
		d.SLC = i%7 == 1
		c.Sig = sig
		out = append(out, c)
	}
	return out
}
