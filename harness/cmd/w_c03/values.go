package main

import (
	"math"

	"verifharness/vlib"
)

// Corner value sets. Every set is closed under bitwise complement so that the
// pairwise cross contains (x, ~x) - sums of exactly 0xffffffff - for every x,
// besides (0, 0xffffffff).

func closeUnderNot32(in []uint32) []uint32 {
	seen := map[uint32]bool{}
	var out []uint32
	for _, v := range in {
		for _, x := range []uint32{v, ^v} {
			if !seen[x] {
				seen[x] = true
				out = append(out, x)
			}
		}
	}
	return out
}

var cornerU32 = closeUnderNot32([]uint32{
	0, 1, 2, 3, 0x7fffffff, 0x80000000, 0x80000001, // 2^31 and neighbours
	31, 32, 33, 63, 64, 65, // shift amounts at and beyond the masks
	0x0000ffff, 0x00010000, 0x00010001, // 2^16, +-1
	0x00ffffff, 0x01000000, 0x00800000, 0x007fffff, 0x00800001, // 24-bit multiply corners
	0x00000100, 0x000000ff, 0x00000080, 0x0000007f,
	0x55555555, 0x12345678, 0x40000000, 0x3fffffff,
	0x00200000, 0x0020001f, 0x00010000 | 31, 0x001f0001, 0x00400000, 0x00080018, // S_BFE {width[22:16], offset[4:0]}: width 0/32/64, fields reaching bit 31
})

// small set for three-operand crosses
var corner3U32 = []uint32{0, 1, 0xffffffff, 0x7fffffff, 0x80000000, 31, 32, 33, 0x00ffffff, 0x01000000, 0x00800000, 0xfffffffe, 0x12345678, 5}

var cornerU64 = func() []uint64 {
	base := []uint64{0, 1, 2, 0x7fffffffffffffff, 0x8000000000000000, 0x8000000000000001,
		0xffffffff, 0x100000000, 0x100000001, 0x80000000, 0x7fffffff, 31, 32, 33, 63, 64, 65,
		0x5555555555555555, 0x0123456789abcdef, 0x00000001ffffffff, 0xffffffff00000000}
	seen := map[uint64]bool{}
	var out []uint64
	for _, v := range base {
		for _, x := range []uint64{v, ^v} {
			if !seen[x] {
				seen[x] = true
				out = append(out, x)
			}
		}
	}
	return out
}()

func f32b(f float32) uint32 { return math.Float32bits(f) }
func f64b(f float64) uint64 { return math.Float64bits(f) }

var cornerF32 = []uint32{
	0x00000000, 0x80000000, // +-0
	0x3f800000, 0xbf800000, 0x40000000, 0x3f000000, 0xc0800000, // 1, -1, 2, 0.5, -4 (inline constants)
	0x7f800000, 0xff800000, // +-inf
	0x7fc00000, 0xffc00001, 0x7f800001, 0xffa00000, // quiet and signalling NaNs
	0x00800000, 0x80800000, // +-min normal
	0x7f7fffff, 0xff7fffff, // +-max finite
	0x00000001, 0x807fffff, 0x00400000, // denormals
	0x3f800001, 0x3f7fffff, 0x3f800003, 0x3fffffff, // 1+ulp, 1-ulp/2, ...
	0x33800000, 0x33800001, 0x337fffff, 0xb3800000, // 2^-24 (tie with 1.0), just above, just below
	0x4b800000, 0x4b800001, 0x4b000000, 0x4b7fffff, // 2^24, 2^24+2, 2^23, 2^24-1
	0x40490fdb, 0x3eaaaaab, 0xc2f6e979, // pi, 1/3, -123.456
	0x1e3ce508, 0x60ad78ec, // 1e-20, 1e20
	0x00ffffff, 0x7e800000, // 2*min normal - ulp; 2^126 (overflow on *4)
	0x4f000000, 0xcf000000, 0x4f800000, 0x4effffff, 0xcf000001, // +-2^31, 2^32 and neighbours (conversions)
	0x3fc00000, 0x40200000, 0xbfc00000, 0x3f000001, // 1.5, 2.5, -1.5 (round to even), 0.5+ulp
}

var corner3F32 = []uint32{0, 0x80000000, 0x3f800000, 0xbf800000, 0x7f800000, 0xff800000, 0x7fc00000, 0x7f800001,
	0x00800000, 0x7f7fffff, 0x00000001, 0x3f800001, 0x33800000, 0x33800001, 0x4b800001, 0x3eaaaaab}

var cornerF64 = []uint64{
	0, 0x8000000000000000,
	f64b(1), f64b(-1), f64b(2), f64b(0.5), f64b(-4),
	0x7ff0000000000000, 0xfff0000000000000,
	0x7ff8000000000000, 0xfff8000000000001, 0x7ff0000000000001, 0xfff4000000000000,
	0x0010000000000000, 0x8010000000000000,
	0x7fefffffffffffff, 0xffefffffffffffff,
	0x0000000000000001, 0x800fffffffffffff,
	0x3ff0000000000001, 0x3fefffffffffffff, 0x3ff0000000000003,
	0x3ca0000000000000, 0x3ca0000000000001, 0x3c9fffffffffffff, // 2^-53 and neighbours
	0x4340000000000000, 0x4340000000000001, // 2^53
	f64b(math.Pi), f64b(1.0 / 3.0), f64b(-123.456), f64b(1e-300), f64b(1e300),
	f64b(2147483648), f64b(-2147483648), f64b(4294967296), f64b(2147483647.5), f64b(-2147483648.5), f64b(4294967295.5),
	f64b(1.5), f64b(2.5), f64b(3.4028235677973366e38), f64b(3.4028234663852886e38), f64b(1.401298464324817e-45), f64b(1.1754943508222875e-38),
	f64b(1.0000000596046448), // 1 + 2^-24: tie when rounding to f32
}

var corner3F64 = []uint64{0, 0x8000000000000000, f64b(1), f64b(-1), 0x7ff0000000000000, 0xfff0000000000000, 0x7ff8000000000000,
	0x0010000000000000, 0x7fefffffffffffff, 0x3ff0000000000001, 0x3ca0000000000000, 0x3ca0000000000001, f64b(1.0 / 3.0), f64b(1e300)}

// inline constants a source field can name directly
var inlineInts = []int{0, 1, 2, 31, 32, 33, 63, 64, -1, -2, -16, 5, 16}
var inlineFloats = []float64{0.5, -0.5, 1.0, -1.0, 2.0, -2.0, 4.0, -4.0}

var execPatterns = []uint64{
	^uint64(0), 1, 1 << 63, 1 << 31, 1 << 32, 0x5555555555555555, 0xaaaaaaaaaaaaaaaa,
	0x00000000ffffffff, 0xffffffff00000000, 0, 0x8000000000000001,
}

func execPattern(r *vlib.PRNG, i int) uint64 {
	if i%3 == 2 {
		return r.Uint64()
	}
	return execPatterns[(i/3)%len(execPatterns)]
}

// randU32 is a seeded value biased towards interesting shapes.
func randU32(r *vlib.PRNG) uint32 {
	switch r.Intn(8) {
	case 0:
		return cornerU32[r.Intn(len(cornerU32))]
	case 1:
		return uint32(1) << uint(r.Intn(32))
	case 2:
		return uint32(1)<<uint(r.Intn(32)) - 1
	case 3:
		return uint32(r.Intn(70))
	case 4:
		return uint32(r.Intn(70)) | uint32(r.Intn(70))<<16
	}
	return r.Uint32()
}

func randU64(r *vlib.PRNG) uint64 {
	switch r.Intn(6) {
	case 0:
		return cornerU64[r.Intn(len(cornerU64))]
	case 1:
		return uint64(1) << uint(r.Intn(64))
	case 2:
		return uint64(r.Intn(70))
	}
	return r.Uint64()
}

func randF32(r *vlib.PRNG) uint32 {
	switch r.Intn(8) {
	case 0:
		return cornerF32[r.Intn(len(cornerF32))]
	case 1, 2: // moderate exponents, random mantissa: sums and products round in every direction
		return uint32(r.Intn(2))<<31 | uint32(100+r.Intn(56))<<23 | r.Uint32()&0x7fffff
	case 3: // small integers
		return f32b(float32(r.Intn(2001) - 1000))
	case 4: // near powers of two
		return uint32(r.Intn(2))<<31 | uint32(1+r.Intn(253))<<23 | uint32(r.Intn(4))
	}
	return r.Uint32()
}

func randF64(r *vlib.PRNG) uint64 {
	switch r.Intn(8) {
	case 0:
		return cornerF64[r.Intn(len(cornerF64))]
	case 1, 2:
		return uint64(r.Intn(2))<<63 | uint64(1000+r.Intn(50))<<52 | r.Uint64()&0xfffffffffffff
	case 3:
		return f64b(float64(r.Intn(2001) - 1000))
	case 4:
		return uint64(r.Intn(2))<<63 | uint64(1+r.Intn(2045))<<52 | uint64(r.Intn(4))
	case 5: // values in f32 / i32 range with fractional parts (conversions)
		return f64b((r.Float64() - 0.5) * math.Pow(2, float64(r.Intn(70)-4)))
	}
	return r.Uint64()
}
