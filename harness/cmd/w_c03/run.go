package main

// Executing one case: encode -> real decoder -> real ALU on a real wavefront
// state; the same case through the reference; full-state comparison.

import (
	"bytes"
	"crypto/sha256"
	"encoding/binary"
	"encoding/hex"
	"fmt"
	"regexp"
	"sort"
	"strings"
	"unsafe"

	"github.com/sarchlab/mgpusim/v4/amd/emu"
	"github.com/sarchlab/mgpusim/v4/amd/emu/cdna3"
	"github.com/sarchlab/mgpusim/v4/amd/insts"

	"verifharness/vlib/gcnasm"
	"verifharness/vlib/isaspec"
)

const ldsPad = 64

// ctx holds everything one goroutine needs: per architecture a decoder
// configured like the emulation GPU builder does (IsCDNA3), the real ALU with
// the instrumented storage, and the two state backings.
type ctx struct {
	dis   [2]*insts.Disassembler
	alu   [2]emu.ALU
	stor  [2]*recStorage
	backs [2]backing
	vimg  map[uint64][]uint32
	snap  snapshot
	ldsB  []byte
	vbuf  []uint32  // reusable VGPR buffer of the model state
	clean [2]uint64 // VSeed whose pure image a backing's VGPR file is known to hold (0 = unknown)
}

func newCtx(withTiming bool) *ctx {
	c := &ctx{vimg: map[uint64][]uint32{}}
	for a := 0; a < 2; a++ {
		c.dis[a] = insts.NewDisassembler()
		c.dis[a].IsCDNA3 = a == int(gcnasm.CDNA3) // emugpu.Builder: disassembler.IsCDNA3 = archType == CDNA3
		c.stor[a] = &recStorage{}
	}
	c.alu[gcnasm.GCN3] = emu.NewALU(c.stor[gcnasm.GCN3])
	c.alu[gcnasm.CDNA3] = cdna3.NewALU(c.stor[gcnasm.CDNA3])
	c.backs[backEmu] = newEmuBacking()
	if withTiming {
		c.backs[backTiming] = newTimingBacking()
	}
	c.ldsB = make([]byte, 65536+2*ldsPad)
	c.vbuf = make([]uint32, isaspec.NumLanes*isaspec.NumVGPR)
	return c
}

func asBytes(v []uint32) []byte {
	if len(v) == 0 {
		return nil
	}
	return unsafe.Slice((*byte)(unsafe.Pointer(&v[0])), 4*len(v))
}

func (x *ctx) vimage(seed uint64) []uint32 {
	if im, ok := x.vimg[seed]; ok {
		return im
	}
	if len(x.vimg) > 64 {
		x.vimg = map[uint64][]uint32{}
	}
	im := make([]uint32, isaspec.NumLanes*isaspec.NumVGPR)
	for i := 0; i < len(im); i += 2 {
		v := mixu(seed + uint64(i)*0x9e3779b97f4a7c15)
		im[i], im[i+1] = uint32(v), uint32(v>>32)
	}
	x.vimg[seed] = im
	return im
}

// build constructs the pre-state of a case.
func (x *ctx) build(c *Case) *isaspec.State {
	return x.buildInto(c, make([]uint32, isaspec.NumLanes*isaspec.NumVGPR))
}

// pureImage reports whether the case's VGPR file is exactly the background image.
func pureImage(c *Case) bool {
	for _, s := range c.Sets {
		if s.Kind == "v" {
			return false
		}
	}
	return true
}

func scalarFormat(f gcnasm.Format) bool {
	switch f {
	case gcnasm.SOP2, gcnasm.SOPK, gcnasm.SOP1, gcnasm.SOPC, gcnasm.SOPP, gcnasm.SMEM:
		return true
	}
	return false
}

func (x *ctx) buildInto(c *Case, vbuf []uint32) *isaspec.State {
	st := &isaspec.State{LDS: make([]byte, c.LDSSize), Mem: isaspec.NewMemory(c.BgSeed ^ 0x4d454d)}
	if vbuf == nil {
		st.VGPR = x.vimage(c.VSeed) // scalar instruction on a pure image: shared, never written
	} else {
		st.VGPR = vbuf
		copy(st.VGPR, x.vimage(c.VSeed))
	}
	for i := range st.SGPR {
		st.SGPR[i] = uint32(mixu(c.BgSeed + uint64(i)*0x632be59bd9b4e019))
	}
	for i := 0; i+8 <= len(st.LDS); i += 8 {
		binary.LittleEndian.PutUint64(st.LDS[i:], mixu(c.BgSeed^0x4c4453+uint64(i)))
	}
	st.EXEC, st.VCC, st.SCC, st.M0, st.PC = c.EXEC, c.VCC, c.SCC&1, c.M0, c.PC
	for _, s := range c.Sets {
		switch s.Kind {
		case "s":
			for k, v := range s.Vals {
				if s.Idx+k < isaspec.NumSGPR {
					st.SGPR[s.Idx+k] = v
				}
			}
		case "v":
			for ln, v := range s.Vals {
				st.SetV(ln, s.Idx, v)
			}
		}
	}
	return st
}

// statuses of one execution
const (
	stJudged      = iota // ran, reference available, compared
	stNoRef              // ran, no reference for the instruction / operands
	stEncodeErr          // the harness encoder rejected the description (generator bug)
	stNotDecoded         // decoder: no such instruction
	stDecodeCrash        // decoder panicked (property C04's business)
	stUnimpl             // ALU: "not implemented"
	stCrash              // ALU panicked otherwise
)

type mismatch struct {
	Field string `json:"field"`
	Cell  string `json:"cell"`
	Got   string `json:"impl"`
	Want  string `json:"spec"`
	Note  string `json:"note,omitempty"`
}

type result struct {
	status   int
	msg      string
	noRefWhy string
	cite     string
	mism     []mismatch
	digest   map[string][]byte // field -> impl output bytes of this case (fingerprints)
	nLoose   int
	instText string
	byteLen  int
	decLen   int
	post     [32]byte // hash of the complete implementation post-state (cross-ALU comparison)
	looseAny bool
}

var (
	reUnimpl = regexp.MustCompile(`(?i)not implemented|unimplemented|is not supported|not yet supported`)
	reNum    = regexp.MustCompile(`0x[0-9a-fA-F]+|\d+`)
)

func crashClass(msg string) string {
	m := reNum.ReplaceAllString(msg, "N")
	if i := strings.Index(m, "\n"); i >= 0 {
		m = m[:i]
	}
	m = strings.TrimSpace(m)
	if len(m) > 70 {
		m = m[:70]
	}
	m = strings.Map(func(r rune) rune {
		if r == '|' {
			return '/'
		}
		return r
	}, m)
	return m
}

// dstInfo lists the cells the instruction's explicit destinations cover.
type dstInfo struct {
	d    map[int]bool // Dst / Data(load) cells
	sdst map[int]bool
	list []int
}

func scalarCells(o gcnasm.Operand, n int) []int {
	switch o.Kind {
	case gcnasm.KSGPR:
		var out []int
		for i := 0; i < n && o.Index+i < isaspec.NumSGPR; i++ {
			out = append(out, o.Index+i)
		}
		return out
	case gcnasm.KSpecial:
		switch o.Index {
		case gcnasm.CodeVCCLo:
			if n >= 2 {
				return []int{isaspec.CellVCCLo, isaspec.CellVCCHi}
			}
			return []int{isaspec.CellVCCLo}
		case gcnasm.CodeVCCHi:
			return []int{isaspec.CellVCCHi}
		case gcnasm.CodeEXECLo:
			if n >= 2 {
				return []int{isaspec.CellEXECLo, isaspec.CellEXECHi}
			}
			return []int{isaspec.CellEXECLo}
		case gcnasm.CodeEXECHi:
			return []int{isaspec.CellEXECHi}
		case gcnasm.CodeM0:
			return []int{isaspec.CellM0}
		}
	}
	return nil
}

func (j *job) dstCells(c *Case) dstInfo {
	di := dstInfo{d: map[int]bool{}, sdst: map[int]bool{}}
	add := func(cs []int) {
		for _, x := range cs {
			if !di.d[x] {
				di.d[x] = true
				di.list = append(di.list, x)
			}
		}
	}
	vcells := func(o gcnasm.Operand, n int) []int {
		var out []int
		if o.Kind != gcnasm.KVGPR {
			return nil
		}
		for ln := 0; ln < isaspec.NumLanes; ln++ {
			for k := 0; k < n && o.Index+k < isaspec.NumVGPR; k++ {
				out = append(out, isaspec.VCell(ln, o.Index+k))
			}
		}
		return out
	}
	d := &c.Desc
	switch j.format {
	case gcnasm.SOP2, gcnasm.SOP1, gcnasm.SOPK:
		n := j.w.Dst
		if n > 0 {
			add(scalarCells(d.Dst, n))
		}
	case gcnasm.SMEM:
		add(scalarCells(d.Data, j.w.Data))
	case gcnasm.VOP1, gcnasm.VOP2, gcnasm.VOP3a, gcnasm.VOP3b, gcnasm.VOPC:
		_, _, dstW, sh := j.valuShape()
		switch {
		case sh.Compare:
			if j.format != gcnasm.VOPC {
				add(scalarCells(d.Dst, 2))
			}
		case sh.DstSGPR:
			add(scalarCells(d.Dst, 1))
		default:
			add(vcells(d.Dst, dstW))
		}
		if j.format == gcnasm.VOP3b {
			for _, x := range scalarCells(d.SDst, 2) {
				di.sdst[x] = true
			}
		}
	case gcnasm.DS, gcnasm.FLAT:
		n := j.w.MemDst
		if n == 0 {
			n = j.w.Dst
		}
		if d.Dst.Kind == gcnasm.KVGPR && n > 0 {
			add(vcells(d.Dst, n))
		}
	}
	return di
}

func cellKindField(cell int) string {
	switch {
	case cell < isaspec.NumSGPR:
		return "OTHER-SGPR"
	case cell >= isaspec.CellVGPR0:
		return "OTHER-VGPR"
	}
	switch cell {
	case isaspec.CellVCCLo, isaspec.CellVCCHi:
		return "VCC"
	case isaspec.CellEXECLo, isaspec.CellEXECHi:
		return "EXEC"
	case isaspec.CellM0:
		return "M0"
	case isaspec.CellSCC:
		return "SCC"
	case isaspec.CellPCLo, isaspec.CellPCHi:
		return "PC"
	}
	return "OTHER"
}

func isNaN32b(b uint32) bool { return b&0x7f800000 == 0x7f800000 && b&0x007fffff != 0 }
func isNaN64b(b uint64) bool {
	return b&0x7ff0000000000000 == 0x7ff0000000000000 && b&0x000fffffffffffff != 0
}

// cellOK applies the loose rules to one cell. next is the value of cell+1 in
// the implementation (for 64-bit rules), wantNext the model's.
func cellOK(l isaspec.Loose, got, want, gotNext, wantNext uint32) bool {
	if got == want {
		return true
	}
	if l.Mask != 0 && got&^l.Mask == want&^l.Mask {
		return true
	}
	if (l.NaN32 || l.AnyNaN32) && isNaN32b(got) {
		return true
	}
	g64 := uint64(got) | uint64(gotNext)<<32
	if (l.NaN64 || l.AnyNaN64) && isNaN64b(g64) {
		return true
	}
	for _, a := range l.Alt {
		if got == a {
			return true
		}
	}
	for _, a := range l.Alt64 {
		if g64 == a {
			return true
		}
	}
	return false
}

// run executes case c of job j on architecture arch.
func (x *ctx) run(j *job, c *Case, wantDigest bool) (res result) {
	arch := c.Arch
	d := c.Desc
	d.Arch = arch
	code, err := gcnasm.Encode(d)
	if err != nil {
		return result{status: stEncodeErr, msg: err.Error()}
	}
	res.byteLen = len(code)
	buf := append(append([]byte(nil), code...), 0, 0, 0, 0, 0, 0, 0, 0)
	var inst *insts.Inst
	func() {
		defer func() {
			if r := recover(); r != nil {
				res.status, res.msg = stDecodeCrash, fmt.Sprint(r)
			}
		}()
		var derr error
		inst, derr = x.dis[arch].Decode(buf)
		if derr != nil {
			res.status, res.msg = stNotDecoded, derr.Error()
		}
	}()
	if inst == nil {
		if res.status == 0 {
			res.status = stNotDecoded
		}
		return res
	}
	res.decLen = inst.ByteSize
	inst.PC = c.PC
	fn := j.format.String()
	if got := inst.FormatName; got != fn && !(strings.HasPrefix(got, "vop3") && strings.HasPrefix(fn, "vop3")) || int(inst.Opcode) != j.opcode {
		// e.g. SOP2 opcode numbers 96..127 are the SOPK/SOP1/SOPC/SOPP encodings
		return result{status: stNotDecoded, msg: fmt.Sprintf("encoding decodes as %s opcode %d", inst.FormatName, inst.Opcode)}
	}

	// ---- state: built once; the backing and the LDS buffer are loaded from it, then the
	// reference transforms it in place into the expected post-state
	scalarPure := scalarFormat(j.format) && pureImage(c)
	var model *isaspec.State
	if scalarPure {
		model = x.buildInto(c, nil)
	} else {
		model = x.buildInto(c, x.vbuf)
	}
	preEXEC, prePC := model.EXEC, model.PC
	bi := c.Backing
	back := x.backs[bi]
	if back == nil {
		bi, back = backEmu, x.backs[backEmu]
	}
	withV := !(scalarPure && x.clean[bi] == c.VSeed && c.VSeed != 0)
	back.load(model, withV)
	x.clean[bi] = 0
	back.setInst(inst)
	back.setPC(prePC + uint64(inst.ByteSize)) // emu.ComputeUnit.runWfUntilBarrier: wf.SetPC(wf.PC() + inst.ByteSize) before executeInst
	realMem := isaspec.NewMemory(model.Mem.Seed)
	x.stor[arch].mem = realMem
	nLDS := len(model.LDS)
	for i := 0; i < ldsPad; i++ {
		x.ldsB[i] = 0xa5
		x.ldsB[ldsPad+nLDS+i] = 0xa5
	}
	lds := x.ldsB[ldsPad : ldsPad+nLDS : ldsPad+nLDS]
	copy(lds, model.LDS)
	// ---- reference
	model.PC = prePC + uint64(len(code))
	out := isaspec.Exec(&d, model)
	res.cite = out.Cite
	// ---- implementation
	x.alu[arch].SetLDS(lds)
	panicked := false
	func() {
		defer func() {
			if r := recover(); r != nil {
				panicked = true
				res.msg = fmt.Sprint(r)
			}
		}()
		x.alu[arch].Run(back.state())
	}()
	if panicked {
		if reUnimpl.MatchString(res.msg) && strings.Contains(strings.ToLower(res.msg), "opcode") {
			res.status = stUnimpl
			return res
		}
		res.status = stCrash
		if !out.Ref {
			res.noRefWhy = out.Why
		}
		if wantDigest {
			res.digest = map[string][]byte{"CRASH": []byte(crashClass(res.msg))}
		}
		return res
	}
	// ---- compare
	di := j.dstCells(c)
	vEqual := back.vgprEqual(model.VGPR)
	back.read(&x.snap, !vEqual)
	s := &x.snap
	if vEqual && scalarPure {
		x.clean[bi] = c.VSeed
	}
	h := sha256.New()
	var tmp [8]byte
	put := func(v uint64) { binary.LittleEndian.PutUint64(tmp[:], v); h.Write(tmp[:]) }
	for _, v := range s.sgpr {
		put(uint64(v))
	}
	put(s.vcc)
	put(s.exec)
	put(uint64(s.scc))
	put(uint64(s.m0))
	put(s.pc)
	if vEqual {
		// VGPR file equals the expected one: it is determined by the destination cells
		for _, cell := range di.list {
			if cell >= isaspec.CellVGPR0 {
				put(uint64(model.VGPR[cell-isaspec.CellVGPR0]))
			}
		}
	} else {
		h.Write(asBytes(s.vgpr))
	}
	if j.format == gcnasm.DS {
		h.Write(lds)
	}
	for _, a := range realMem.WrittenAddrs() {
		put(a)
		h.Write([]byte{realMem.W[a]})
	}
	copy(res.post[:], h.Sum(nil))

	if wantDigest {
		res.digest = map[string][]byte{}
		var db []byte
		for _, cell := range di.list {
			db = binary.LittleEndian.AppendUint32(db, snapCell(s, model, vEqual, cell))
		}
		res.digest["D"] = db
		var sb []byte
		cells := make([]int, 0, len(di.sdst))
		for cell := range di.sdst {
			cells = append(cells, cell)
		}
		sort.Ints(cells)
		for _, cell := range cells {
			sb = binary.LittleEndian.AppendUint32(sb, snapCell(s, model, vEqual, cell))
		}
		res.digest["SDST"] = sb
		res.digest["SCC"] = []byte{byte(s.scc)}
		res.digest["VCC"] = binary.LittleEndian.AppendUint64(nil, s.vcc)
		res.digest["EXEC"] = binary.LittleEndian.AppendUint64(nil, s.exec)
		res.digest["PC"] = binary.LittleEndian.AppendUint64(nil, s.pc-prePC)
		res.digest["M0"] = binary.LittleEndian.AppendUint32(nil, s.m0)
		if j.format == gcnasm.DS {
			hh := sha256.Sum256(lds)
			res.digest["LDS"] = hh[:8]
		}
		var mb []byte
		for _, a := range realMem.WrittenAddrs() {
			mb = binary.LittleEndian.AppendUint64(mb, a)
			mb = append(mb, realMem.W[a])
		}
		for _, a := range realMem.Log {
			if !a.Write {
				mb = binary.LittleEndian.AppendUint64(mb, a.Addr)
				mb = append(mb, byte(a.Size))
			}
		}
		res.digest["MEM"] = mb
	}
	if !out.Ref {
		res.status = stNoRef
		res.noRefWhy = out.Why
		return res
	}
	res.status = stJudged
	res.nLoose = len(out.Loose)
	res.looseAny = len(out.Loose) > 0
	addM := func(field, cell, got, want, note string) {
		if c.Tag != "" {
			field += "/" + c.Tag
		}
		if len(res.mism) < 64 {
			res.mism = append(res.mism, mismatch{field, cell, got, want, note})
		}
	}
	checkCell := func(cell int, got, want, gotNext, wantNext uint32) {
		if got == want {
			return
		}
		l, isLoose := out.Loose[cell]
		if isLoose && cellOK(l, got, want, gotNext, wantNext) {
			return
		}
		// high half of a 64-bit loose value: judged together with the low half
		if lo, ok := out.Loose[cell-1]; ok && (lo.NaN64 || lo.AnyNaN64 || len(lo.Alt64) > 0) {
			var gl, wl uint32
			if cell-1 >= isaspec.CellVGPR0 {
				gl, wl = s.vgpr[cell-1-isaspec.CellVGPR0], model.VGPR[cell-1-isaspec.CellVGPR0]
			} else if cell-1 < isaspec.NumSGPR {
				gl, wl = s.sgpr[cell-1], model.SGPR[cell-1]
			}
			if cellOK(lo, gl, wl, got, want) {
				return
			}
		}
		field := cellKindField(cell)
		note := ""
		switch {
		case di.d[cell]:
			field = "D"
			if cell >= isaspec.CellVGPR0 {
				ln := (cell - isaspec.CellVGPR0) / isaspec.NumVGPR
				if preEXEC>>uint(ln)&1 == 0 {
					field = "D-inactive-lane"
				}
			}
		case di.sdst[cell]:
			field = "SDST"
		}
		if isLoose {
			note = "loose cell, still outside what the manual allows: " + l.Why
		}
		addM(field, isaspec.CellName(cell), fmt.Sprintf("0x%08x", got), fmt.Sprintf("0x%08x", want), note)
	}
	for i := 0; i < isaspec.NumSGPR; i++ {
		var gn, wn uint32
		if i+1 < isaspec.NumSGPR {
			gn, wn = s.sgpr[i+1], model.SGPR[i+1]
		}
		checkCell(i, s.sgpr[i], model.SGPR[i], gn, wn)
	}
	checkCell(isaspec.CellVCCLo, uint32(s.vcc), uint32(model.VCC), uint32(s.vcc>>32), uint32(model.VCC>>32))
	checkCell(isaspec.CellVCCHi, uint32(s.vcc>>32), uint32(model.VCC>>32), 0, 0)
	checkCell(isaspec.CellEXECLo, uint32(s.exec), uint32(model.EXEC), uint32(s.exec>>32), uint32(model.EXEC>>32))
	checkCell(isaspec.CellEXECHi, uint32(s.exec>>32), uint32(model.EXEC>>32), 0, 0)
	checkCell(isaspec.CellSCC, s.scc, model.SCC, 0, 0)
	checkCell(isaspec.CellM0, s.m0, model.M0, 0, 0)
	if s.pc != model.PC {
		if l, ok := out.Loose[isaspec.CellPCLo]; !ok || l.Mask != 0xffffffff {
			addM("PC", "pc", fmt.Sprintf("0x%x (pc_before%+d)", s.pc, int64(s.pc-prePC)), fmt.Sprintf("0x%x (pc_before%+d)", model.PC, int64(model.PC-prePC)), "")
		}
	}
	if !vEqual {
		for i, g := range s.vgpr {
			if g != model.VGPR[i] {
				var gn, wn uint32
				if i+1 < len(s.vgpr) {
					gn, wn = s.vgpr[i+1], model.VGPR[i+1]
				}
				checkCell(isaspec.CellVGPR0+i, g, model.VGPR[i], gn, wn)
			}
		}
	}
	// LDS
	if !bytes.Equal(lds, model.LDS) {
		n := 0
		for i := range lds {
			if lds[i] != model.LDS[i] {
				if n < 4 {
					addM("LDS", fmt.Sprintf("lds[0x%x]", i), fmt.Sprintf("0x%02x", lds[i]), fmt.Sprintf("0x%02x", model.LDS[i]), "")
				}
				n++
			}
		}
	}
	for i := 0; i < ldsPad; i++ {
		if x.ldsB[i] != 0xa5 || x.ldsB[ldsPad+nLDS+i] != 0xa5 {
			addM("LDS", "canary", "overwritten", "intact", "write outside the LDS allocation")
			break
		}
	}
	// memory: written bytes must be the same set with the same values
	wa, wm := realMem.WrittenAddrs(), model.Mem.WrittenAddrs()
	seen := 0
	for _, a := range wa {
		mv, ok := model.Mem.W[a]
		if !ok {
			if seen < 4 {
				addM("MEM", fmt.Sprintf("mem[0x%x]", a), fmt.Sprintf("written 0x%02x", realMem.W[a]), "not written", "")
			}
			seen++
		} else if mv != realMem.W[a] {
			if seen < 4 {
				addM("MEM", fmt.Sprintf("mem[0x%x]", a), fmt.Sprintf("0x%02x", realMem.W[a]), fmt.Sprintf("0x%02x", mv), "")
			}
			seen++
		}
	}
	for _, a := range wm {
		if _, ok := realMem.W[a]; !ok {
			if seen < 4 {
				addM("MEM", fmt.Sprintf("mem[0x%x]", a), "not written", fmt.Sprintf("written 0x%02x", model.Mem.W[a]), "")
			}
			seen++
		}
	}
	// reads: every byte the implementation read must be a byte the reference reads
	if len(realMem.Log) > 0 || len(model.Mem.Log) > 0 {
		want := map[uint64]bool{}
		for _, a := range model.Mem.Log {
			if !a.Write {
				for k := 0; k < a.Size; k++ {
					want[a.Addr+uint64(k)] = true
				}
			}
		}
		bad := 0
		for _, a := range realMem.Log {
			if a.Write {
				continue
			}
			for k := 0; k < a.Size; k++ {
				if !want[a.Addr+uint64(k)] {
					if bad == 0 {
						addM("MEMREAD", fmt.Sprintf("mem[0x%x]", a.Addr+uint64(k)), "read", "not read", fmt.Sprintf("access addr=0x%x size=%d", a.Addr, a.Size))
					}
					bad++
				}
			}
		}
	}
	return res
}

func snapCell(s *snapshot, model *isaspec.State, vEqual bool, cell int) uint32 {
	switch {
	case cell < isaspec.NumSGPR:
		return s.sgpr[cell]
	case cell >= isaspec.CellVGPR0:
		if vEqual {
			return model.VGPR[cell-isaspec.CellVGPR0]
		}
		return s.vgpr[cell-isaspec.CellVGPR0]
	}
	switch cell {
	case isaspec.CellVCCLo:
		return uint32(s.vcc)
	case isaspec.CellVCCHi:
		return uint32(s.vcc >> 32)
	case isaspec.CellEXECLo:
		return uint32(s.exec)
	case isaspec.CellEXECHi:
		return uint32(s.exec >> 32)
	case isaspec.CellM0:
		return s.m0
	case isaspec.CellSCC:
		return s.scc
	}
	return 0
}

func hexs(b []byte) string { return hex.EncodeToString(b) }
