// w_c03: reference-model monitor over the real GCN3 and CDNA3 ALUs
// (DESIGN.md, C03): gcnasm encoder -> real insts.Disassembler -> real
// ALU.Run on a real emu.Wavefront / timing wavefront -> full architectural
// state compared with vlib/isaspec, an independent transcription of the ISA
// manuals.
package main

import (
	"crypto/sha256"
	"encoding/hex"
	"encoding/json"
	"fmt"
	"io"
	"log"
	"os"
	"regexp"
	"sort"
	"strings"
	"sync"

	"github.com/sarchlab/akita/v4/sim"

	"verifharness/vlib"
	"verifharness/vlib/gcnasm"
	"verifharness/vlib/isaspec"
)

var formats = []gcnasm.Format{gcnasm.SOP2, gcnasm.SOPK, gcnasm.SOP1, gcnasm.SOPC, gcnasm.SOPP, gcnasm.SMEM,
	gcnasm.VOP2, gcnasm.VOP1, gcnasm.VOPC, gcnasm.VOP3a, gcnasm.DS, gcnasm.FLAT}

var archs = []gcnasm.Arch{gcnasm.GCN3, gcnasm.CDNA3}

func fmtName(f gcnasm.Format) string { return strings.ToUpper(f.String()) }

func newJob(arch gcnasm.Arch, f gcnasm.Format, opcode int) *job {
	if f == gcnasm.VOP3a && gcnasm.IsVOP3bOpcode(arch, opcode) {
		f = gcnasm.VOP3b
	}
	j := &job{arch: arch, format: f, opcode: opcode}
	j.name = gcnasm.NameOf(arch, f, opcode)
	if j.name == "" && f == gcnasm.VOP3a && opcode >= 896 {
		j.name = gcnasm.NameOf(arch, gcnasm.VOP3P, opcode-896) // the simulator sees VOP3P as VOP3a opcode 896+OP
	}
	j.w = gcnasm.WidthsOf(f, opcode, j.name)
	if j.name == "" {
		j.w = gcnasm.Widths{Dst: 1, Src0: 1, Src1: 1, Addr: 1, Data: 1}
		if f == gcnasm.SMEM || f == gcnasm.FLAT {
			j.w.Addr = 2
		}
	}
	_, j.hasRef, _ = isaspec.HasRef(arch, f, opcode)
	switch f {
	case gcnasm.VOP1, gcnasm.VOP2, gcnasm.VOPC, gcnasm.VOP3a, gcnasm.VOP3b:
		j.shape, j.shapeK = isaspec.Shape(arch, f, opcode)
	}
	return j
}

// fieldAgg collects what was seen for one (arch, opcode, field).
type fieldAgg struct {
	count   int
	witness map[string]any
	what    string
}

type archResult struct {
	j               *job
	status          string // not-decoded | decoder-crash | unimplemented | implemented
	probeMsg        string
	executions      int
	judged          int
	noRef           int
	corner          int
	random          int
	judgedC         int
	judgedR         int
	fields          map[string]*fieldAgg
	fph             map[string][]byte // running fingerprint hash state per field
	sigs            map[string]bool
	noRefWhy        map[string]int
	looseCells      int
	timingCases     int
	modUnimpl       map[string]int
	partUnimpl      int
	unassignedCrash int
	encodeErrs      int
	encodeErr       string
	posts           [][32]byte
	mismCase        []bool
	looseCase       []bool
	codes           []string
}

func fpStep(prev []byte, idx int, data []byte) []byte {
	h := sha256.New()
	h.Write(prev)
	fmt.Fprintf(h, "|%d|", idx)
	h.Write(data)
	return h.Sum(nil)
}

var fpFields = []string{"D", "SDST", "SCC", "VCC", "EXEC", "PC", "M0", "LDS", "MEM", "CRASH"}

// baseField maps a violation field to the fingerprint stream it belongs to.
func baseField(f string) string {
	f = strings.TrimSuffix(f, "@timing")
	if i := strings.Index(f, "/"); i >= 0 {
		f = f[:i]
	}
	switch f {
	case "D-inactive-lane":
		return "D"
	case "MEMREAD":
		return "MEM"
	case "OTHER-SGPR", "OTHER-VGPR", "OTHER":
		return "ALL"
	}
	return f
}

func operandValue(pre *isaspec.State, o gcnasm.Operand, ln int) string {
	switch o.Kind {
	case gcnasm.KNone:
		return ""
	case gcnasm.KVGPR:
		s := fmt.Sprintf("v%d[lane %d]=0x%08x", o.Index, ln, pre.V(ln, o.Index))
		if o.W() >= 2 && o.Index+1 < isaspec.NumVGPR {
			s += fmt.Sprintf(" v%d=0x%08x", o.Index+1, pre.V(ln, o.Index+1))
		}
		return s
	case gcnasm.KSGPR:
		s := fmt.Sprintf("s%d=0x%08x", o.Index, pre.SGPR[o.Index])
		if o.W() >= 2 && o.Index+1 < isaspec.NumSGPR {
			s += fmt.Sprintf(" s%d=0x%08x", o.Index+1, pre.SGPR[o.Index+1])
		}
		return s
	}
	return o.String()
}

func runJobArch(x *ctx, c *vlib.Check, j *job, nRandom int, useTiming bool) *archResult {
	ar := &archResult{j: j, fields: map[string]*fieldAgg{}, fph: map[string][]byte{}, sigs: map[string]bool{}, noRefWhy: map[string]int{}, modUnimpl: map[string]int{}}
	r := c.Rand(fmt.Sprintf("rand/%v/%d", j.format, j.opcode))
	cases := j.gen(nRandom, r)
	if len(cases) == 0 {
		ar.status = "no-cases"
		return ar
	}
	// probe: the first corner case uses plain register operands
	for _, cs := range cases {
		cs.Arch = j.arch
		cs.Desc.Arch = j.arch
	}
	probe := x.run(j, cases[0], false)
	switch probe.status {
	case stEncodeErr:
		ar.status, ar.probeMsg = "encode-error", probe.msg
		return ar
	case stNotDecoded:
		ar.status, ar.probeMsg = "not-decoded", probe.msg
		return ar
	case stDecodeCrash:
		ar.status, ar.probeMsg = "decoder-crash", probe.msg
		return ar
	case stUnimpl:
		ar.status, ar.probeMsg = "unimplemented", probe.msg
		return ar
	}
	ar.status = "implemented"
	timingOnlyCrash := false
	if useTiming && x.backs[backTiming] != nil {
		// corner cases flagged Both are executed on both backings; of the others every third uses the timing backing
		var all []*Case
		for i, cs := range cases {
			if cs.Both {
				dup := *cs
				dup.Backing = backTiming
				all = append(all, cs, &dup)
				continue
			}
			if i%3 == 2 {
				cs.Backing = backTiming
			}
			all = append(all, cs)
		}
		cases = all
	}
	for i, cs := range cases {
		canon := cs.Class == "corner"
		res := x.run(j, cs, canon)
		ar.posts = append(ar.posts, res.post)
		ar.codes = append(ar.codes, "")
		ar.mismCase = append(ar.mismCase, len(res.mism) > 0 || res.status == stCrash)
		ar.looseCase = append(ar.looseCase, res.looseAny || res.status != stJudged)
		if res.status == stEncodeErr {
			ar.encodeErrs++
			if ar.encodeErr == "" {
				ar.encodeErr = fmt.Sprintf("%s: %+v", res.msg, cs.Desc)
			}
			continue
		}
		ar.executions++
		if cs.Backing == backTiming {
			ar.timingCases++
		}
		if canon {
			ar.corner++
			all := sha256.New()
			for _, f := range fpFields {
				if d, ok := res.digest[f]; ok {
					ar.fph[f] = fpStep(ar.fph[f], i, d)
					all.Write(d)
				}
			}
			ar.fph["ALL"] = fpStep(ar.fph["ALL"], i, all.Sum(nil))
		} else {
			ar.random++
		}
		ar.sigs[cs.Sig] = true
		record := func(field, what string, mm []mismatch) {
			fa := ar.fields[field]
			if fa == nil {
				fa = &fieldAgg{what: what}
				pre := x.build(cs)
				ln := 0
				if len(mm) > 0 && strings.Contains(mm[0].Cell, "[lane ") {
					fmt.Sscanf(mm[0].Cell[strings.Index(mm[0].Cell, "[lane ")+6:], "%d", &ln)
				}
				code, _ := gcnasm.Encode(cs.Desc)
				fa.witness = map[string]any{
					"case":        cs,
					"instruction": hex.EncodeToString(code),
					"mnemonic":    j.name,
					"backing":     backName[cs.Backing],
					"mismatches":  mm,
					"manual":      res.cite,
					"inputs": map[string]any{
						"src0": operandValue(pre, cs.Desc.Src0, ln), "src1": operandValue(pre, cs.Desc.Src1, ln), "src2": operandValue(pre, cs.Desc.Src2, ln),
						"dst_before": operandValue(pre, cs.Desc.Dst, ln),
						"exec":       fmt.Sprintf("0x%016x", pre.EXEC), "vcc": fmt.Sprintf("0x%016x", pre.VCC), "scc": pre.SCC, "m0": fmt.Sprintf("0x%08x", pre.M0), "pc": fmt.Sprintf("0x%x", pre.PC),
						"addr": operandValue(pre, cs.Desc.Addr, ln), "data": operandValue(pre, cs.Desc.Data, ln), "base": operandValue(pre, cs.Desc.Base, ln),
					},
				}
				ar.fields[field] = fa
			}
			fa.count++
		}
		if res.status == stCrash && strings.Contains(strings.ToLower(res.msg), "not implemented") || res.status == stUnimpl && cs.Tag == "" {
			// the handler exists but refuses this sub-case with a "not implemented" message: unimplemented, not a violation
			ar.partUnimpl++
			continue
		}
		if cs.Tag != "" && (res.status == stUnimpl || res.status == stCrash && reModUnimpl.MatchString(res.msg)) {
			// "SDWA ... not implemented", "Output modifiers are not supported": the implementation does not
			// accept this modifier for this opcode; per the property that is outside the judged subset
			ar.modUnimpl[cs.Tag]++
			continue
		}
		if res.status == stCrash || len(res.mism) > 0 {
			if cs.Backing == backTiming {
				// decide whether the deviation is specific to the timing-side state backing
				cs2 := *cs
				cs2.Backing = backEmu
				res2 := x.run(j, &cs2, false)
				emuFields := map[string]bool{}
				for _, m := range res2.mism {
					emuFields[m.Field] = true
				}
				if res.status == stCrash && !(res2.status == stCrash && crashClass(res2.msg) == crashClass(res.msg)) {
					res.msg += " (timing-side state backing only)"
					timingOnlyCrash = true
				} else {
					timingOnlyCrash = false
				}
				for k := range res.mism {
					if !emuFields[res.mism[k].Field] {
						res.mism[k].Field += "@timing"
					}
				}
			} else {
				timingOnlyCrash = false
			}
		}
		switch res.status {
		case stCrash:
			cl := crashClass(res.msg)
			if timingOnlyCrash {
				cl += "@timing"
			}
			if m := reOperandCrash.FindStringSubmatch(res.msg); m != nil {
				// raised by the wavefront's operand access, identically for every opcode: one finding per register
				record("OPERAND:"+m[1], fmt.Sprintf("reading operand register %s panics: %s", m[1], res.msg), nil)
				break
			}
			if j.name == "" {
				ar.unassignedCrash++ // the architecture's manual does not assign this opcode number: outside the property's subset
				break
			}
			record("CRASH:"+cl, fmt.Sprintf("ALU panics: %s", res.msg), nil)
			if res.noRefWhy == "" {
				ar.judged++
			}
		case stNoRef:
			ar.noRef++
			ar.noRefWhy[res.noRefWhy]++
		case stJudged:
			ar.judged++
			if canon {
				ar.judgedC++
			} else {
				ar.judgedR++
			}
			ar.looseCells += res.nLoose
			if res.byteLen != res.decLen {
				record("LEN", fmt.Sprintf("decoder reports ByteSize %d for a %d-byte encoding", res.decLen, res.byteLen), nil)
			}
			byField := map[string][]mismatch{}
			var order []string
			for _, m := range res.mism {
				if _, ok := byField[m.Field]; !ok {
					order = append(order, m.Field)
				}
				byField[m.Field] = append(byField[m.Field], m)
			}
			for _, f := range order {
				mm := byField[f]
				if len(mm) > 6 {
					mm = mm[:6]
				}
				m0 := mm[0]
				record(f, fmt.Sprintf("%s: implementation %s, manual %s", m0.Cell, m0.Got, m0.Want), mm)
			}
		}
	}
	return ar
}

var reModUnimpl = regexp.MustCompile(`(?i)not implemented|not supported`)

var reOperandCrash = regexp.MustCompile(`Register type (\w+) not supported`)

type jobResult struct {
	format gcnasm.Format
	opcode int
	ar     [2]*archResult
	cross  struct{ compared, disagree, unexplained int }
}

func main() {
	// --replay <file>: re-execute exactly the case stored in a replay file
	for i, a := range os.Args {
		if a == "--replay" && i+1 < len(os.Args) {
			os.Exit(replay(os.Args[i+1]))
		}
	}
	c := vlib.Start("C03")
	nRandom := c.N(200, 20000)
	if os.Getenv("C03_ONLY_CANONICAL") == "1" {
		nRandom = 0
	}
	useTiming := os.Getenv("C03_NO_TIMING") != "1"
	only := os.Getenv("C03_ONLY") // e.g. "sop2" or "sop2/2"
	sim.GetIDGenerator()
	log.SetOutput(io.Discard) // the code under test logs every panic message

	type jobKey struct {
		f  gcnasm.Format
		op int
	}
	var keys []jobKey
	for _, f := range formats {
		n := 1 << uint(gcnasm.OpcodeFieldBits(f))
		for op := 0; op < n; op++ {
			if only != "" {
				p := strings.Split(only, "/")
				if !strings.EqualFold(p[0], f.String()) || (len(p) > 1 && p[1] != fmt.Sprint(op)) {
					continue
				}
			}
			keys = append(keys, jobKey{f, op})
		}
	}
	results := make([]*jobResult, len(keys))
	pool := sync.Pool{New: func() any { return newCtx(useTiming) }}
	vlib.Parallel(len(keys), 0, func(i int) {
		x := pool.Get().(*ctx)
		defer pool.Put(x)
		k := keys[i]
		jr := &jobResult{format: k.f, opcode: k.op}
		for ai, arch := range archs {
			j := newJob(arch, k.f, k.op)
			jr.ar[ai] = runJobArch(x, c, j, nRandom, useTiming)
		}
		a, b := jr.ar[0], jr.ar[1]
		if a.status == "implemented" && b.status == "implemented" && a.j.name == b.j.name && a.j.name != "" &&
			a.j.format == b.j.format && len(a.posts) == len(b.posts) && k.f != gcnasm.FLAT && k.f != gcnasm.SMEM {
			for q := range a.posts {
				jr.cross.compared++
				if a.posts[q] != b.posts[q] {
					jr.cross.disagree++
					if !a.mismCase[q] && !b.mismCase[q] && !a.looseCase[q] && !b.looseCase[q] {
						jr.cross.unexplained++
					}
				}
			}
		}
		results[i] = jr
	})

	// ---- aggregate
	type cnt struct {
		Decoded, Implemented, Unimplemented, Judged, WithoutReference, DecoderCrash int
	}
	table := map[string]map[string]*cnt{}
	var unimplList, noRefList, decCrashList []string
	opCrash := map[string]*fieldAgg{}
	dump := []map[string]any{}
	unimplList, noRefList, decCrashList = []string{}, []string{}, []string{}
	for _, jr := range results {
		for ai, arch := range archs {
			ar := jr.ar[ai]
			j := ar.j
			an, fn := arch.String(), fmtName(j.format)
			if table[an] == nil {
				table[an] = map[string]*cnt{}
			}
			if table[an][fn] == nil {
				table[an][fn] = &cnt{}
			}
			t := table[an][fn]
			label := fmt.Sprintf("%s|%s|%d|%s", an, fn, j.opcode, j.name)
			switch ar.status {
			case "not-decoded", "no-cases":
				continue
			case "encode-error":
				if j.name != "" {
					c.Count("probe_encode_errors", 1)
				}
				continue
			case "decoder-crash":
				t.DecoderCrash++
				decCrashList = append(decCrashList, label)
				continue
			case "unimplemented":
				t.Decoded++
				t.Unimplemented++
				unimplList = append(unimplList, label)
				continue
			}
			t.Decoded++
			t.Implemented++
			c.Evals(int64(ar.executions))
			c.Count("executions", int64(ar.executions))
			c.Count("executions_judged", int64(ar.judged))
			c.Count("executions_without_reference", int64(ar.noRef))
			c.Count("corner_cases", int64(ar.corner))
			c.Count("random_cases", int64(ar.random))
			c.Count("timing_backing_cases", int64(ar.timingCases))
			c.Count("loose_cells_accepted_or_skipped", int64(ar.looseCells))
			c.Count("executions_refused_not_implemented", int64(ar.partUnimpl))
			c.Count("crashes_of_opcodes_unassigned_in_the_architecture", int64(ar.unassignedCrash))
			for tag, n := range ar.modUnimpl {
				c.Count("executions_modifier_not_accepted_"+tag, int64(n))
				c.Distinct("opcode_modifier_not_accepted", label+"|"+tag)
			}
			if ar.encodeErrs > 0 {
				c.Count("generator_encode_errors", int64(ar.encodeErrs))
				fmt.Printf("[C03] note: %d descriptions of %s rejected by the encoder, e.g. %s\n", ar.encodeErrs, label, ar.encodeErr)
			}
			for s := range ar.sigs {
				c.Distinct("opcode_operand_kind_signature", label+"|"+s)
			}
			c.Sample(map[string]any{"opcode": label, "executions": ar.executions, "judged": ar.judged, "corner": ar.corner, "random": ar.random,
				"operand_kind_signatures": len(ar.sigs), "timing_backing": ar.timingCases, "mismatching_fields": len(ar.fields)})
			if ar.judged > 0 {
				t.Judged++
				if ar.judgedC > 0 && (ar.judgedR > 0 || nRandom == 0) {
					c.Nontrivial(label)
				}
			} else {
				t.WithoutReference++
				why := ""
				for w := range ar.noRefWhy {
					why = w
				}
				noRefList = append(noRefList, label+": "+why)
			}
			// violations
			var fields []string
			for f := range ar.fields {
				fields = append(fields, f)
			}
			sort.Strings(fields)
			for _, f := range fields {
				if strings.HasPrefix(f, "OPERAND:") {
					k := fmt.Sprintf("C03|%s|any|operand|%s|CRASH", an, strings.TrimPrefix(f, "OPERAND:"))
					oc := opCrash[k]
					if oc == nil {
						oc = &fieldAgg{what: ar.fields[f].what, witness: ar.fields[f].witness}
						opCrash[k] = oc
					}
					oc.count += ar.fields[f].count
					continue
				}
				if strings.HasSuffix(f, "@timing") && !strings.HasPrefix(f, "CRASH") {
					if _, ok := ar.fields[strings.TrimSuffix(f, "@timing")]; ok {
						continue // the same field is already wrong on the emulation-side backing: one finding
					}
				}
				if i := strings.Index(f, "/"); i >= 0 && !strings.HasPrefix(f, "CRASH") {
					if _, ok := ar.fields[f[:i]]; ok {
						continue // the unmodified form is already wrong: one finding
					}
				}
				fa := ar.fields[f]
				key := fmt.Sprintf("C03|%s|%s|%d|%s|%s", an, fn, j.opcode, j.name, f)
				bf := baseField(f)
				if strings.HasPrefix(f, "CRASH") {
					bf = "CRASH"
				}
				fp := ""
				if h, ok := ar.fph[bf]; ok {
					fp = hex.EncodeToString(h)[:16]
				}
				c.Distinct("mismatching_opcode_field", key)
				what := fmt.Sprintf("%s (%s %s opcode %d), field %s: %s [%d of %d executions]", j.name, an, fn, j.opcode, f, fa.what, fa.count, ar.executions)
				c.ViolationFP(key, fp, what, fa.witness)
				dump = append(dump, map[string]any{"property": "C03", "key": key, "fingerprint": fp, "what": what, "witness": fa.witness, "manual": fa.witness["manual"]})
			}
		}
		c.Count("cross_alu_states_compared", int64(jr.cross.compared))
		c.Count("cross_alu_disagreements", int64(jr.cross.disagree))
		if jr.cross.unexplained > 0 {
			c.Inconclusive(fmt.Sprintf("%v opcode %d: the two ALUs disagree on %d states although both match the reference on judged cells (monitor inconsistency)",
				jr.format, jr.opcode, jr.cross.unexplained))
		}
	}
	var ock []string
	for k := range opCrash {
		ock = append(ock, k)
	}
	sort.Strings(ock)
	for _, k := range ock {
		oc := opCrash[k]
		c.Distinct("mismatching_opcode_field", k)
		c.ViolationFP(k, "", fmt.Sprintf("%s [%d executions over all opcodes]", oc.what, oc.count), oc.witness)
		dump = append(dump, map[string]any{"property": "C03", "key": k, "fingerprint": "", "what": oc.what, "witness": oc.witness})
	}
	sort.Strings(unimplList)
	sort.Strings(noRefList)
	if p := os.Getenv("C03_DUMP"); p != "" {
		// all mismatching (opcode, field) pairs with witness and fingerprint (triage aid; not read by any check)
		b, _ := json.MarshalIndent(dump, "", " ")
		_ = os.WriteFile(p, b, 0o644)
	}
	c.Set("opcodes", table)
	c.Set("opcodes_decoded_but_unimplemented", unimplList)
	c.Set("opcodes_implemented_without_reference", noRefList)
	c.Set("opcodes_decoder_crash_on_probe", decCrashList)
	for _, a := range []string{"gcn3", "cdna3"} {
		var fs []string
		for f := range table[a] {
			fs = append(fs, f)
		}
		sort.Strings(fs)
		for _, f := range fs {
			t := table[a][f]
			fmt.Printf("[C03] %-5s %-5s decoded=%3d implemented=%3d unimplemented=%3d judged=%3d without_reference=%3d\n",
				a, f, t.Decoded, t.Implemented, t.Unimplemented, t.Judged, t.WithoutReference)
			c.Count("opcodes_implemented", int64(t.Implemented))
			c.Count("opcodes_judged", int64(t.Judged))
		}
	}
	minNT, minExec := 300, int64(100000)
	if only != "" {
		minNT, minExec = 1, 1
	}
	c.Finish(vlib.FinishOpts{
		Rule: "execution = one (instruction encoding, architectural state) pair run through the real decoder and the real ALU and compared in every " +
			"architectural cell (all SGPRs, all VGPRs of all lanes, VCC, EXEC, SCC, M0, PC, LDS bytes, memory bytes, memory reads) with vlib/isaspec; " +
			"distinct_nontrivial = distinct (arch, format, opcode) that the ALU implements, that has an exact reference, and that was judged on at least one " +
			"seed-independent corner state and at least one seeded random state",
		Assumptions: []string{
			"MODE register at its reset value for rounding (round-to-nearest-even); everything depending on MODE.denorm / MODE.ieee / MODE.dx10_clamp is generated but not judged (loose cells)",
			"encodings obey the manuals' operand rules (one constant-bus operand per VALU instruction, aligned 64-bit SGPR operands, no literal in VOP3, LDS addresses inside the allocation, lanes of one memory instruction touch disjoint bytes)",
			"CDNA3 semantics of same-named instructions are the GCN3 manual's; CDNA3-only instructions from the one-line definitions stated in vlib/isaspec/spec.go",
			"PC as the ALU sees it has already been advanced past the instruction (emu.ComputeUnit.runWfUntilBarrier does that before ALU.Run)",
		},
		MinNontrivial: minNT,
		MinCounters:   map[string]int64{"executions_judged": minExec},
	})
}

func replay(path string) int {
	b, err := os.ReadFile(path)
	if err != nil {
		fmt.Println("cannot read replay:", err)
		return 2
	}
	var rf struct {
		Key     string `json:"key"`
		Witness struct {
			Case *Case `json:"case"`
		} `json:"witness"`
	}
	if err := json.Unmarshal(b, &rf); err != nil || rf.Witness.Case == nil {
		fmt.Println("replay file has no case:", err)
		return 2
	}
	cs := rf.Witness.Case
	sim.GetIDGenerator()
	x := newCtx(true)
	f := cs.Desc.Format
	j := newJob(cs.Arch, f, cs.Desc.Opcode)
	res := x.run(j, cs, true)
	fmt.Printf("[C03] replay of %s\n  case: %s %s opcode %d (%s), operand kinds %s, backing %s\n", rf.Key, cs.Arch, fmtName(j.format), cs.Desc.Opcode, j.name, cs.Sig, backName[cs.Backing])
	fmt.Printf("  status=%d msg=%q\n  manual: %s\n", res.status, res.msg, res.cite)
	for _, m := range res.mism {
		fmt.Printf("  MISMATCH field=%s cell=%s impl=%s spec=%s %s\n", m.Field, m.Cell, m.Got, m.Want, m.Note)
	}
	if len(res.mism) > 0 || res.status == stCrash {
		fmt.Printf("VIOLATION property=C03 replay=%s\n", path)
		return 1
	}
	fmt.Println("[C03] replay: no mismatch")
	return 0
}
