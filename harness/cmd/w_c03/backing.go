package main

// Real state backings for the real ALUs: an emu.Wavefront (what the emulation
// compute unit hands to ALU.Run) and a timing wavefront.Wavefront with the
// compute unit's register files behind cu.CURegFileAccessor (what the timing
// compute unit hands to the same ALU); plus the instrumented StorageAccessor.

import (
	"bytes"
	"encoding/binary"
	"fmt"

	"github.com/sarchlab/akita/v4/mem/vm"
	"github.com/sarchlab/akita/v4/sim"
	"github.com/sarchlab/mgpusim/v4/amd/emu"
	"github.com/sarchlab/mgpusim/v4/amd/insts"
	"github.com/sarchlab/mgpusim/v4/amd/kernels"
	"github.com/sarchlab/mgpusim/v4/amd/protocol"
	"github.com/sarchlab/mgpusim/v4/amd/timing/cu"
	"github.com/sarchlab/mgpusim/v4/amd/timing/wavefront"

	"verifharness/vlib/isaspec"
)

const (
	backEmu    = 0
	backTiming = 1
)

var backName = [...]string{"emu", "timing"}

// snapshot is the register state read back from a backing.
type snapshot struct {
	sgpr [isaspec.NumSGPR]uint32
	vgpr []uint32 // lane*256+reg
	vcc  uint64
	exec uint64
	scc  uint32
	m0   uint32
	pc   uint64
}

type backing interface {
	name() string
	state() emu.InstEmuState
	setInst(i *insts.Inst)
	load(st *isaspec.State, withV bool)
	setPC(pc uint64)
	// vgprEqual reports whether the wave's VGPRs equal the image (fast path).
	vgprEqual(img []uint32) bool
	// read copies the state out; withV=false skips the VGPRs.
	read(into *snapshot, withV bool)
}

// ---------------------------------------------------------------------------
// emulation wavefront: "thin embedding that only supplies Inst()"

type emuState struct {
	*emu.Wavefront
	inst *insts.Inst
}

func (s *emuState) Inst() *insts.Inst { return s.inst }

type emuBacking struct{ st *emuState }

func newEmuBacking() *emuBacking {
	co := &insts.KernelCodeObject{KernelCodeObjectMeta: &insts.KernelCodeObjectMeta{}, Version: insts.CodeObjectV3}
	raw := &kernels.Wavefront{UID: "wf", CodeObject: co, InitExecMask: ^uint64(0)}
	return &emuBacking{st: &emuState{Wavefront: emu.NewWavefront(raw)}}
}

func (b *emuBacking) name() string            { return backName[backEmu] }
func (b *emuBacking) state() emu.InstEmuState { return b.st }
func (b *emuBacking) setInst(i *insts.Inst)   { b.st.inst = i }
func (b *emuBacking) setPC(pc uint64)         { b.st.SetPC(pc) }

func (b *emuBacking) load(st *isaspec.State, withV bool) {
	wf := b.st.Wavefront
	for i := 0; i < isaspec.NumSGPR; i++ {
		binary.LittleEndian.PutUint32(wf.SRegFile[4*i:], st.SGPR[i])
	}
	if withV {
		copy(wf.VRegFile, asBytes(st.VGPR))
	}
	wf.SetVCC(st.VCC)
	wf.SetEXEC(st.EXEC)
	wf.SetSCC(byte(st.SCC))
	wf.M0 = st.M0
	wf.SetPC(st.PC)
}

func (b *emuBacking) vgprEqual(img []uint32) bool {
	return bytes.Equal(b.st.Wavefront.VRegFile, asBytes(img))
}

func (b *emuBacking) read(s *snapshot, withV bool) {
	wf := b.st.Wavefront
	for i := 0; i < isaspec.NumSGPR; i++ {
		s.sgpr[i] = binary.LittleEndian.Uint32(wf.SRegFile[4*i:])
	}
	if withV {
		if len(s.vgpr) != len(wf.VRegFile)/4 {
			s.vgpr = make([]uint32, len(wf.VRegFile)/4)
		}
		copy(asBytes(s.vgpr), wf.VRegFile)
	}
	s.vcc, s.exec, s.scc, s.m0, s.pc = wf.VCC(), wf.EXEC(), uint32(wf.SCC()), wf.M0, wf.PC()
}

// ---------------------------------------------------------------------------
// timing wavefront + CU register files (set up as in w_c07: the real
// dispatcher places the wavefront; one wave owning all 256 VGPRs of SIMD 0)

type timingBacking struct {
	cu  *cu.ComputeUnit
	wf  *wavefront.Wavefront
	buf []byte
}

const timingSOff = 64 * 4 // wave's SGPR block does not start at 0: offsets are exercised

func newTimingBacking() *timingBacking {
	engine := sim.NewSerialEngine()
	c := cu.MakeBuilder().WithEngine(engine).WithFreq(1 * sim.GHz).Build("CU")
	co := &insts.KernelCodeObject{KernelCodeObjectMeta: &insts.KernelCodeObjectMeta{
		WFSgprCount: 102, WIVgprCount: 256}, Version: insts.CodeObjectV3}
	pkt := &kernels.HsaKernelDispatchPacket{WorkgroupSizeX: 64, WorkgroupSizeY: 1, WorkgroupSizeZ: 1,
		GridSizeX: 64, GridSizeY: 1, GridSizeZ: 1, KernelObject: 0x1000}
	rawWG := &kernels.WorkGroup{UID: "wg", CodeObject: co, Packet: pkt, SizeX: 64, SizeY: 1, SizeZ: 1,
		CurrSizeX: 64, CurrSizeY: 1, CurrSizeZ: 1}
	raw := &kernels.Wavefront{UID: "wf", CodeObject: co, Packet: pkt, WG: rawWG, InitExecMask: ^uint64(0)}
	rawWG.Wavefronts = []*kernels.Wavefront{raw}
	wg := wavefront.NewWorkGroup(rawWG, nil)
	wf := wavefront.NewWavefront(raw)
	wf.RegAccessor = &cu.CURegFileAccessor{CU: c, WF: wf}
	wg.Wfs = append(wg.Wfs, wf)
	wf.WG = wg
	wf.SetPID(1)
	c.WfPools[0].AddWf(wf)
	c.WfDispatcher.DispatchWf(wf, protocol.WfDispatchLocation{Wavefront: raw, SIMDID: 0, VGPROffset: 0, SGPROffset: timingSOff})
	wf.State = wavefront.WfReady
	return &timingBacking{cu: c, wf: wf, buf: make([]byte, 4*isaspec.NumLanes*isaspec.NumVGPR)}
}

func (b *timingBacking) name() string            { return backName[backTiming] }
func (b *timingBacking) state() emu.InstEmuState { return b.wf }
func (b *timingBacking) setPC(pc uint64)         { b.wf.SetPC(pc) }
func (b *timingBacking) setInst(i *insts.Inst) {
	b.wf.SetDynamicInst(&wavefront.Inst{Inst: i, ID: "c03"})
}

func (b *timingBacking) load(st *isaspec.State, withV bool) {
	sb := make([]byte, 4*isaspec.NumSGPR)
	for i := 0; i < isaspec.NumSGPR; i++ {
		binary.LittleEndian.PutUint32(sb[4*i:], st.SGPR[i])
	}
	b.cu.SRegFile.Write(cu.RegisterAccess{Reg: insts.SReg(0), RegCount: isaspec.NumSGPR, WaveOffset: timingSOff, Data: sb})
	if withV {
		// lane stride of the file is 1024 bytes = 256 registers: identical to the model's layout
		b.cu.VRegFile[0].Write(cu.RegisterAccess{Reg: insts.VReg(0), RegCount: len(st.VGPR), LaneID: 0, WaveOffset: 0, Data: asBytes(st.VGPR)})
	}
	b.wf.SetVCC(st.VCC)
	b.wf.SetEXEC(st.EXEC)
	b.wf.SetSCC(byte(st.SCC))
	b.wf.M0 = st.M0
	b.wf.SetPC(st.PC)
}

func (b *timingBacking) vgprEqual(img []uint32) bool {
	b.cu.VRegFile[0].Read(cu.RegisterAccess{Reg: insts.VReg(0), RegCount: len(b.buf) / 4, LaneID: 0, WaveOffset: 0, Data: b.buf})
	return bytes.Equal(b.buf, asBytes(img))
}

func (b *timingBacking) read(s *snapshot, withV bool) {
	sb := make([]byte, 4*isaspec.NumSGPR)
	b.cu.SRegFile.Read(cu.RegisterAccess{Reg: insts.SReg(0), RegCount: isaspec.NumSGPR, WaveOffset: timingSOff, Data: sb})
	for i := 0; i < isaspec.NumSGPR; i++ {
		s.sgpr[i] = binary.LittleEndian.Uint32(sb[4*i:])
	}
	if withV {
		b.cu.VRegFile[0].Read(cu.RegisterAccess{Reg: insts.VReg(0), RegCount: len(b.buf) / 4, LaneID: 0, WaveOffset: 0, Data: b.buf})
		if len(s.vgpr) != len(b.buf)/4 {
			s.vgpr = make([]uint32, len(b.buf)/4)
		}
		copy(asBytes(s.vgpr), b.buf)
	}
	s.vcc, s.exec, s.scc, s.m0, s.pc = b.wf.VCC(), b.wf.EXEC(), uint32(b.wf.SCC()), b.wf.M0, b.wf.PC()
}

// ---------------------------------------------------------------------------
// instrumented storage: a flat byte map that records every access

type recStorage struct {
	mem *isaspec.Memory
}

func (r *recStorage) Read(_ vm.PID, vAddr, byteSize uint64) []byte {
	if byteSize > 1<<16 {
		panic(fmt.Sprintf("harness storage: read of %d bytes", byteSize))
	}
	return r.mem.Read(vAddr, int(byteSize))
}

func (r *recStorage) Write(_ vm.PID, vAddr uint64, data []byte) {
	r.mem.Write(vAddr, append([]byte(nil), data...))
}
