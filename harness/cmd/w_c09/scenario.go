package main

import (
	"fmt"
	"strconv"

	"github.com/sarchlab/mgpusim/v4/amd/kernels"

	"verifharness/vlib"
)

func itoa(i int) string { return strconv.Itoa(i) }

// kernelSpec is one launch: geometry, per-wavefront / per-group demand,
// optional work-group filter, and the cycle at which the driver sends it.
type kernelSpec struct {
	WG     [3]int `json:"wg_size"`
	Grid   [3]int `json:"grid_size"` // in work-items
	SGPR   int    `json:"wf_sgpr_count"`
	VGPR   int    `json:"wi_vgpr_count"`
	LDS    int    `json:"group_segment_bytes"`
	Filter string `json:"filter,omitempty"`
	At     int64  `json:"at_cycle"`
	Probe  string `json:"probe,omitempty"`
}

func ceilDiv(a, b int) int { return (a + b - 1) / b }

func (k kernelSpec) numWGDims() [3]int {
	return [3]int{ceilDiv(k.Grid[0], k.WG[0]), ceilDiv(k.Grid[1], k.WG[1]), ceilDiv(k.Grid[2], k.WG[2])}
}

func (k kernelSpec) wavefrontsPerFullWG() int { return ceilDiv(k.WG[0]*k.WG[1]*k.WG[2], 64) }

// filterFn is the WGFilter by name; it only looks at the work-group id (the
// grid builder calls it with nothing else filled in while counting).
func filterFn(name string) kernels.WGFilterFunc {
	switch name {
	case "":
		return nil
	case "even-x":
		return func(_ *kernels.HsaKernelDispatchPacket, wg *kernels.WorkGroup) bool { return wg.IDX%2 == 0 }
	case "diag3":
		return func(_ *kernels.HsaKernelDispatchPacket, wg *kernels.WorkGroup) bool {
			return (wg.IDX+wg.IDY+wg.IDZ)%3 == 0
		}
	case "not-first":
		return func(_ *kernels.HsaKernelDispatchPacket, wg *kernels.WorkGroup) bool {
			return wg.IDX+wg.IDY+wg.IDZ != 0
		}
	case "odd-sum":
		return func(_ *kernels.HsaKernelDispatchPacket, wg *kernels.WorkGroup) bool {
			return (wg.IDX+wg.IDY+wg.IDZ)%2 == 1
		}
	case "none":
		return func(_ *kernels.HsaKernelDispatchPacket, _ *kernels.WorkGroup) bool { return false }
	}
	panic("unknown filter " + name)
}

func (k kernelSpec) expectedWGs() map[[3]int]bool {
	d := k.numWGDims()
	f := filterFn(k.Filter)
	out := map[[3]int]bool{}
	for x := 0; x < d[0]; x++ {
		for y := 0; y < d[1]; y++ {
			for z := 0; z < d[2]; z++ {
				if f == nil || f(nil, &kernels.WorkGroup{IDX: x, IDY: y, IDZ: z}) {
					out[[3]int{x, y, z}] = true
				}
			}
		}
	}
	return out
}

type scenario struct {
	Name     string       `json:"name"`
	Seed     uint64       `json:"behaviour_seed"`
	Alg      string       `json:"alg"` // round-robin | greedy | partition | builder-default
	NDisp    int          `json:"num_dispatchers"`
	NCU      int          `json:"num_cu"`
	CU       cuSpec       `json:"cu"`
	DrvInBuf int          `json:"driver_in_buf"`
	DrvStall int          `json:"driver_stall_pct"`
	Launches []kernelSpec `json:"launches"`
	NoProbe  bool         `json:"no_probe,omitempty"`
}

// ---- resource arithmetic used only to generate kernels that fit an empty CU

func (s cuSpec) vUnits() int { // per SIMD, units of 4 registers
	if s.VGPRs < 0 {
		return -1
	}
	return s.VGPRs / 4 / 64
}
func (s cuSpec) sUnits() int {
	if s.SGPRs < 0 {
		return -1
	}
	return s.SGPRs / 16
}
func (s cuSpec) lUnits() int {
	if s.LDS < 0 {
		return -1
	}
	return s.LDS / 256
}

func r9nano() cuSpec {
	// amd/timing/cu/computeunit.go and timingconfig/r9nano/builder.go
	return cuSpec{Preset: "r9nano", NumSIMD: 4, Slots: 10, VGPRs: 16384, SGPRs: 3200, LDS: 64 * 1024}
}

func mi300a() cuSpec {
	// timingconfig/mi300a/builder.go connectCPWithCUs: the only shipped shape with more than 256 VGPRs per lane
	return cuSpec{Preset: "mi300a", NumSIMD: 4, Slots: 8, VGPRs: 32768, SGPRs: 3200, LDS: 64 * 1024}
}

func emuLike() cuSpec {
	// amd/emu/computeunit.go
	return cuSpec{Preset: "emu", NumSIMD: 1, Slots: -1, VGPRs: -1, SGPRs: -1, LDS: -1}
}

func genCU(r *vlib.PRNG) cuSpec {
	var s cuSpec
	switch r.Intn(10) {
	case 0, 1, 2:
		s = r9nano()
	case 3:
		s = mi300a()
	case 4:
		s = emuLike()
	case 5:
		// finite slots, everything else unlimited
		s = cuSpec{Preset: "slots-only", NumSIMD: 1 + r.Intn(4), Slots: 1 + r.Intn(6), VGPRs: -1, SGPRs: -1, LDS: -1}
	default:
		s = cuSpec{Preset: "hostile",
			NumSIMD: 1 + r.Intn(4),
			Slots:   []int{1, 2, 3, 4, 10, 16}[r.Intn(6)],
			VGPRs:   256 * []int{1, 2, 4, 8, 16, 64}[r.Intn(6)],
			SGPRs:   16 * []int{1, 2, 4, 8, 50, 200}[r.Intn(6)],
			LDS:     256 * []int{1, 2, 4, 16, 256}[r.Intn(5)],
		}
		if r.Chance(1, 6) {
			s.LDS = -1
		}
		if r.Chance(1, 8) {
			s.SGPRs = -1
		}
	}
	s.InBuf = []int{1, 1, 2, 4, 64}[r.Intn(5)]
	s.OutBuf = []int{1, 1, 2, 4}[r.Intn(4)]
	s.MaxTake = []int{1, 1, 2, 0}[r.Intn(4)]
	s.StallPct = []int{0, 0, 20, 60}[r.Intn(4)]
	s.LatMode = []string{"unit", "short", "short", "mid", "mid", "long", "bimodal"}[r.Intn(7)]
	s.Batch = []string{"single", "single", "launch", "launch", "emu"}[r.Intn(5)]
	s.BatchK = 2 + r.Intn(6)
	return s
}

var xs = []int{1, 2, 4, 8, 16, 32, 64, 64, 64, 128, 256, 512, 1024, 3, 5, 7, 24, 48, 100, 192}
var ys = []int{1, 1, 1, 2, 4, 8, 3}
var zs = []int{1, 1, 1, 1, 2, 3}

// fits reports whether a full work-group of k can be placed on an empty CU.
func fits(cu cuSpec, k kernelSpec) bool {
	w := k.wavefrontsPerFullWG()
	if w > 16 || w > cu.totalSlots() {
		return false
	}
	if cu.sUnits() >= 0 && w*ceilDiv(k.SGPR, 16) > cu.sUnits() {
		return false
	}
	if cu.lUnits() >= 0 && ceilDiv(k.LDS, 256) > cu.lUnits() {
		return false
	}
	if cu.vUnits() >= 0 && k.VGPR > 0 {
		perSIMD := cu.vUnits() / ceilDiv(k.VGPR, 4)
		if cu.Slots >= 0 && perSIMD > cu.Slots {
			perSIMD = cu.Slots
		}
		if perSIMD*cu.NumSIMD < w {
			return false
		}
	}
	return true
}

// genKernel draws a kernel every work-group of which fits an empty CU of spec.
func genKernel(r *vlib.PRNG, cu cuSpec, maxWGs int) kernelSpec {
	var k kernelSpec
	limit := 16
	if cu.totalSlots() < limit {
		limit = cu.totalSlots()
	}
	for try := 0; ; try++ {
		k.WG = [3]int{xs[r.Intn(len(xs))], ys[r.Intn(len(ys))], zs[r.Intn(len(zs))]}
		if try > 50 {
			k.WG = [3]int{64, 1, 1}
		}
		n := k.WG[0] * k.WG[1] * k.WG[2]
		if n <= 1024 && ceilDiv(n, 64) <= limit {
			break
		}
	}
	w := k.wavefrontsPerFullWG()
	items := k.WG[0] * k.WG[1] * k.WG[2]

	// number of work-groups
	var target int
	switch r.Intn(6) {
	case 0:
		target = 1
	case 1:
		target = 2 + r.Intn(7)
	case 2, 3:
		target = 10 + r.Intn(50)
	default:
		target = 60 + r.Intn(190)
	}
	if target > maxWGs {
		target = maxWGs
	}
	if target*items > 40000 {
		target = 40000 / items
	}
	if target < 1 {
		target = 1
	}
	d := [3]int{target, 1, 1}
	switch r.Intn(4) {
	case 1:
		d[1] = []int{1, 2, 3, 4}[r.Intn(4)]
		d[0] = ceilDiv(target, d[1])
	case 2:
		d[2] = []int{2, 3}[r.Intn(2)]
		d[1] = []int{1, 2, 3}[r.Intn(3)]
		d[0] = ceilDiv(target, d[1]*d[2])
	}
	for i := 0; i < 3; i++ {
		k.Grid[i] = d[i] * k.WG[i]
		if k.WG[i] > 1 && r.Chance(1, 4) { // partial last work-group
			k.Grid[i] -= r.Intn(k.WG[i])
		}
	}

	// demand
	perSIMD := ceilDiv(w, cu.NumSIMD)
	class := r.Intn(5) // 0 tiny, 1-2 random, 3 large, 4 "one group per CU"
	pick := func(max int) int { // in units, 0..max
		if max <= 0 {
			return 0
		}
		switch class {
		case 0:
			return r.Intn(2)
		case 1, 2:
			return r.Intn(max + 1)
		case 3:
			return max - r.Intn(max/2+1)
		default:
			return max
		}
	}
	unalign := func(units, gran int) int {
		if units == 0 {
			return 0
		}
		if r.Bool() {
			return units * gran
		}
		return units*gran - r.Intn(gran)
	}
	vmax := 64
	if cu.vUnits() >= 0 {
		vmax = cu.vUnits() / perSIMD
	}
	smax := 7 // 112 SGPRs
	if cu.sUnits() >= 0 {
		smax = cu.sUnits() / w
		if class != 4 && smax > 12 {
			smax = 12
		}
	}
	lmax := 256
	if cu.lUnits() >= 0 {
		lmax = cu.lUnits()
	}
	k.VGPR = unalign(pick(vmax), 4)
	k.SGPR = unalign(pick(smax), 16)
	k.LDS = unalign(pick(lmax), 256)
	if class == 4 && r.Bool() {
		// only one resource makes it one-per-CU
		small := func(max, gran int) int { return unalign(min(r.Intn(2), max), gran) }
		switch r.Intn(3) {
		case 0:
			k.VGPR = small(vmax, 4)
			k.SGPR = small(smax, 16)
		case 1:
			k.LDS = small(lmax, 256)
			k.SGPR = small(smax, 16)
		default:
			k.LDS = small(lmax, 256)
			k.VGPR = small(vmax, 4)
		}
	}
	if !fits(cu, k) {
		panic(fmt.Sprintf("generator produced a kernel that does not fit an empty CU: %+v on %+v", k, cu))
	}
	if r.Chance(1, 6) {
		k.Filter = []string{"even-x", "diag3", "not-first", "odd-sum", "none"}[r.Intn(5)]
	}
	return k
}

func genScenario(r *vlib.PRNG, idx int) scenario {
	s := scenario{Name: fmt.Sprintf("s%d", idx), Seed: r.Uint64()}
	s.Alg = []string{"round-robin", "greedy", "partition", "round-robin", "greedy", "partition", "builder-default"}[r.Intn(7)]
	s.NDisp = []int{1, 1, 2, 2, 3, 4, 5, 8}[r.Intn(8)]
	if s.Alg == "builder-default" {
		s.NDisp = 8
	}
	s.NCU = []int{1, 1, 2, 2, 3, 4, 4, 5, 7, 8, 12, 16}[r.Intn(12)]
	s.CU = genCU(r)
	s.DrvInBuf = []int{1, 2, 8}[r.Intn(3)]
	s.DrvStall = []int{0, 0, 30, 70}[r.Intn(4)]
	nL := []int{1, 2, 3, 4, 6, 8, 12}[r.Intn(7)]
	if r.Chance(2, 3) && nL <= s.NDisp { // favour more launches than dispatchers
		nL = s.NDisp + 1 + r.Intn(4)
		if nL > 12 {
			nL = 12
		}
	}
	maxWGs := 250
	if nL > 6 {
		maxWGs = 120
	}
	mode := r.Intn(3)
	at := int64(1)
	for i := 0; i < nL; i++ {
		k := genKernel(r, s.CU, maxWGs)
		switch mode {
		case 0: // burst
		case 1:
			at += int64(r.Intn(2000))
		default:
			if r.Bool() {
				at += int64(r.Intn(6000))
			}
		}
		k.At = at
		s.Launches = append(s.Launches, k)
	}
	return s
}

// ---- the shipped CU shapes (seed independent): every admissible demand class
// on the exact figures the r9nano and mi300a platform builders register with
// the command processor. One CU, two overlapping launches of more groups than
// fit; bimodal latencies free about two of three resident groups early, so the
// CU is filled to refusal, partly freed and refilled many times.

func canonicalShapes() []scenario {
	var out []scenario
	vgprs := []int{1, 4, 8, 24, 64, 65, 84, 100, 128, 129, 200, 256, 512}
	sgprs := []int{16, 32, 96, 102}
	ldss := []int{0, 1, 32 * 1024, 64 * 1024, 0, 0}
	wfs := []int{1, 4, 2, 16, 8, 3}
	for _, shape := range []cuSpec{r9nano(), mi300a()} {
		shape.InBuf, shape.OutBuf, shape.MaxTake, shape.LatMode, shape.Batch, shape.BatchK = 4, 2, 0, "bimodal", "single", 2
		// SGPR-limited (3200 / 96 or 112 per wavefront is fewer than the wavefront slots) and LDS-limited with small register demand
		for xi, x := range [][4]int{{4, 96, 0, 1}, {24, 102, 0, 4}, {8, 102, 1, 1}, {1, 96, 32 * 1024, 2}, {4, 16, 64 * 1024, 16}, {4, 32, 1, 8}} {
			k := kernelSpec{WG: [3]int{64 * x[3], 1, 1}, VGPR: x[0], SGPR: x[1], LDS: x[2], At: 1}
			k.Grid = [3]int{k.WG[0] * 90, 1, 1}
			k2 := k
			k2.At, k2.Grid = 300, [3]int{k.WG[0] * 40, 1, 1}
			out = append(out, scenario{Name: fmt.Sprintf("shape-%s-v%d-s%d-l%d-w%d", shape.Preset, x[0], x[1], x[2], x[3]), Seed: uint64(650 + xi),
				Alg: []string{"round-robin", "greedy", "partition"}[xi%3], NDisp: 2, NCU: 1, CU: shape, DrvInBuf: 2, Launches: []kernelSpec{k, k2}})
		}
		for vi, v := range vgprs {
			for pass := 0; pass < 2; pass++ { // pass 0: one-wavefront groups; pass 1: wavefront counts / SGPR / LDS cycle through their lists
				w, sg, lds := 1, 16, 0
				if pass == 1 {
					w, sg, lds = wfs[vi%len(wfs)], sgprs[vi%len(sgprs)], ldss[vi%len(ldss)]
				}
				k := kernelSpec{WG: [3]int{64 * w, 1, 1}, SGPR: sg, VGPR: v, LDS: lds, At: 1}
				for !fits(shape, k) && w > 1 { // e.g. 16 wavefronts x 200 VGPRs
					w /= 2
					k.WG[0] = 64 * w
				}
				if !fits(shape, k) {
					continue // 512 VGPRs on the 256-per-lane shape
				}
				// groups: about three times what the CU holds
				perSIMD := shape.Slots
				if pv := (shape.VGPRs / 64) / ((v + 3) / 4 * 4); pv < perSIMD {
					perSIMD = pv
				}
				n := 3 * max(1, perSIMD*shape.NumSIMD/w)
				if lds > 0 {
					n = min(n, 3*max(1, shape.LDS/((lds+255)/256*256)))
				}
				n = min(max(n, 6), 100)
				k.Grid = [3]int{k.WG[0] * n, 1, 1}
				k2 := k
				k2.At = 400
				k2.Grid[0] = k.WG[0] * max(3, n/2)
				out = append(out, scenario{Name: fmt.Sprintf("shape-%s-v%d-s%d-l%d-w%d", shape.Preset, v, sg, lds, w), Seed: uint64(700 + vi*2 + pass),
					Alg: []string{"round-robin", "greedy", "partition"}[(vi+pass)%3], NDisp: 2, NCU: 1, CU: shape, DrvInBuf: 2, Launches: []kernelSpec{k, k2}})
			}
		}
	}
	return out
}

// ---- canonical battery (seed independent)

func canonical() []scenario {
	nano := func(in, out int, lat, batch string) cuSpec {
		c := r9nano()
		c.InBuf, c.OutBuf, c.MaxTake, c.LatMode, c.Batch, c.BatchK = in, out, 1, lat, batch, 3
		return c
	}
	k := func(wgx, nwg, sgpr, vgpr, lds int, at int64) kernelSpec {
		return kernelSpec{WG: [3]int{wgx, 1, 1}, Grid: [3]int{wgx * nwg, 1, 1}, SGPR: sgpr, VGPR: vgpr, LDS: lds, At: at}
	}
	var out []scenario
	// the spike of DESIGN.md: two overlapping 12-group launches, LDS limits residency to 4 per CU
	for _, alg := range []string{"round-robin", "greedy", "partition", "builder-default"} {
		nd := 2
		if alg == "builder-default" {
			nd = 8
		}
		out = append(out, scenario{Name: "canon-2cu-2x12-lds-limited-" + alg, Seed: 11, Alg: alg, NDisp: nd, NCU: 2,
			CU: nano(2, 2, "mid", "single"), DrvInBuf: 2,
			Launches: []kernelSpec{k(256, 12, 32, 24, 16384, 1), k(128, 12, 48, 64, 16384, 1)}})
	}
	// more launches than dispatchers, one group per CU (whole LDS), long latencies, batched per launch
	out = append(out, scenario{Name: "canon-1disp-4launch-whole-lds", Seed: 12, Alg: "round-robin", NDisp: 1, NCU: 3,
		CU: nano(1, 1, "long", "launch"), DrvInBuf: 1, DrvStall: 30,
		Launches: []kernelSpec{k(64, 7, 16, 4, 65536, 1), k(1024, 5, 100, 60, 65536, 1), k(64, 9, 0, 0, 65500, 1), k(192, 4, 33, 5, 1, 1)}})
	// register-limited, 16 wavefronts per group, partition with a grid that does not divide
	out = append(out, scenario{Name: "canon-partition-uneven-vgpr-limited", Seed: 13, Alg: "partition", NDisp: 3, NCU: 4,
		CU: nano(1, 1, "bimodal", "single"), DrvInBuf: 2,
		Launches: []kernelSpec{k(1024, 9, 102, 64, 0, 1), k(512, 13, 16, 128, 4096, 500), k(64, 5, 104, 256, 256, 900),
			{WG: [3]int{16, 4, 2}, Grid: [3]int{16 * 3, 4 * 3, 2 * 2}, SGPR: 20, VGPR: 10, LDS: 300, Filter: "diag3", At: 1000}}})
	// filters
	out = append(out, scenario{Name: "canon-filters", Seed: 14, Alg: "greedy", NDisp: 2, NCU: 2,
		CU: nano(4, 2, "short", "launch"), DrvInBuf: 2,
		Launches: []kernelSpec{
			{WG: [3]int{64, 1, 1}, Grid: [3]int{64 * 10, 3, 1}, SGPR: 16, VGPR: 4, LDS: 8192, Filter: "even-x", At: 1},
			{WG: [3]int{64, 1, 1}, Grid: [3]int{64 * 4, 1, 1}, SGPR: 16, VGPR: 4, LDS: 0, Filter: "none", At: 1},
			{WG: [3]int{8, 8, 1}, Grid: [3]int{8 * 5, 8 * 4, 2}, SGPR: 16, VGPR: 4, LDS: 30000, Filter: "odd-sum", At: 10},
			{WG: [3]int{64, 1, 1}, Grid: [3]int{64 * 6, 1, 1}, SGPR: 16, VGPR: 4, LDS: 0, Filter: "not-first", At: 10}}})
	// hostile tiny CU: 2 SIMDs x 2 slots, 8 VGPR units, 4 SGPR units, 1 KiB LDS
	tiny := cuSpec{Preset: "hostile", NumSIMD: 2, Slots: 2, VGPRs: 256 * 8, SGPRs: 64, LDS: 1024,
		InBuf: 1, OutBuf: 1, MaxTake: 1, StallPct: 20, LatMode: "mid", Batch: "single", BatchK: 2}
	for _, alg := range []string{"round-robin", "greedy", "partition"} {
		out = append(out, scenario{Name: "canon-tiny-cu-" + alg, Seed: 15, Alg: alg, NDisp: 2, NCU: 3, CU: tiny, DrvInBuf: 1,
			Launches: []kernelSpec{k(64, 10, 16, 16, 512, 1), k(256, 6, 16, 8, 256, 1), k(128, 8, 17, 13, 257, 300), k(64, 5, 64, 32, 1024, 300)}})
	}
	// emulation-like CUs, one kernel at a time (what the DNN smoke tests do), batched the emulation way
	emu := emuLike()
	emu.InBuf, emu.OutBuf, emu.MaxTake, emu.LatMode, emu.Batch = 4, 4, 1, "short", "emu"
	out = append(out, scenario{Name: "canon-emu-cu-one-kernel-at-a-time", Seed: 16, Alg: "builder-default", NDisp: 8, NCU: 4,
		CU: emu, DrvInBuf: 2, NoProbe: true,
		Launches: []kernelSpec{k(64, 40, 16, 8, 100, 1), k(256, 30, 32, 8, 1000, 30000)}})
	// emulation-like CUs, two kernels in flight: completion batches can cover two dispatchers' work-groups
	out = append(out, scenario{Name: "canon-emu-cu-two-concurrent-kernels", Seed: 17, Alg: "builder-default", NDisp: 8, NCU: 2,
		CU: emu, DrvInBuf: 2, NoProbe: true,
		Launches: []kernelSpec{k(64, 20, 16, 8, 100, 1), k(64, 20, 16, 8, 100, 1)}})
	// unlimited CU that drains slowly: > 4096 map requests queue up in the CP's outgoing buffer
	slow := emuLike()
	slow.InBuf, slow.OutBuf, slow.MaxTake, slow.StallPct, slow.LatMode, slow.Batch = 1, 1, 1, 60, "short", "single"
	out = append(out, scenario{Name: "canon-cp-outgoing-buffer-full", Seed: 18, Alg: "round-robin", NDisp: 2, NCU: 1,
		CU: slow, DrvInBuf: 2, NoProbe: true,
		Launches: []kernelSpec{k(64, 5200, 16, 8, 0, 1), k(64, 300, 16, 8, 0, 1)}})
	return out
}
