// w_c09: the real command processor (amd/timing/cp, public builder) with its
// real dispatchers, placement algorithms and CU resource pool, between a fake
// driver port and 1-16 fake compute units with finite advertised resources,
// random latencies, out-of-order and batched completion and small port
// buffers. Judged offline from the recorded port trace (DESIGN.md, C09).
//
// Second layer (real*.go): the same command processor against *real* compute
// units - amd/emu.ComputeUnit built like the emulation GPU builder builds
// them, and the timing cu.ComputeUnit with a fake instruction memory - behind
// a link the harness controls (per-CU stall windows for the CU->CP direction,
// per-message gaps, one-slot / four-slot port buffers of the real CUs), so
// that the CUs' own completion paths (batching, retry after a failed Send)
// are exercised under back-pressure and judged by the same trace rules.
//
// Development switches: C09_ONLY_FAKE, C09_ONLY_REAL, C09_ONLY_CANONICAL (real
// canonical battery only), C09_REAL_N="<emu>,<timing>", C09_VERBOSE.
package main

import (
	"encoding/json"
	"fmt"
	"os"
	"sync/atomic"

	"verifharness/vlib"
)

func loadReplay(path string) (scenario, *realScenario, error) {
	var f struct {
		Witness struct {
			Scenario scenario      `json:"scenario"`
			Real     *realScenario `json:"real_scenario"`
		} `json:"witness"`
	}
	b, err := os.ReadFile(path)
	if err != nil {
		return scenario{}, nil, err
	}
	if err := json.Unmarshal(b, &f); err != nil {
		return scenario{}, nil, err
	}
	if f.Witness.Real != nil && f.Witness.Real.NCU > 0 {
		return scenario{}, f.Witness.Real, nil
	}
	if f.Witness.Scenario.NCU == 0 {
		return scenario{}, nil, fmt.Errorf("no scenario in %s", path)
	}
	return f.Witness.Scenario, nil, nil
}

func main() {
	var scs []scenario
	var reals []realScenario
	replay := ""
	for i, a := range os.Args {
		if a == "--replay" && i+1 < len(os.Args) {
			replay = os.Args[i+1]
		}
	}
	var rs scenario
	var rr *realScenario
	if replay != "" {
		// vlib.Start removes the replay files of this (tier, seed): read first
		var err error
		rs, rr, err = loadReplay(replay)
		if err != nil {
			fmt.Printf("[C09] cannot load replay: %v\n", err)
			os.Exit(2)
		}
	}
	c := vlib.Start("C09")
	if replay != "" {
		if rr != nil {
			fmt.Printf("[C09] replaying real-CU scenario %s from %s\n", rr.Name, replay)
			reals = []realScenario{*rr}
		} else {
			fmt.Printf("[C09] replaying scenario %s from %s\n", rs.Name, replay)
			scs = []scenario{rs}
		}
	} else {
		scs = append(canonical(), canonicalShapes()...)
		n := c.N(300, 8000)
		base := c.Rand("scenarios")
		for i := 0; i < n; i++ {
			scs = append(scs, genScenario(base.ForkN("s", i), i))
		}
		// layer "real CU": real emulation / timing compute units behind a controlled link
		if os.Getenv("C09_ONLY_FAKE") == "" {
			reals = canonicalReal()
			rb := c.Rand("real-scenarios")
			nEmu, nTiming := c.N(50, 1500), c.N(30, 600)
			if v := os.Getenv("C09_REAL_N"); v != "" { // development: "<emu>,<timing>"
				fmt.Sscanf(v, "%d,%d", &nEmu, &nTiming)
			}
			for i, n := 0, nEmu; i < n; i++ {
				reals = append(reals, genRealEmu(rb.ForkN("emu", i), i))
			}
			for i, n := 0, nTiming; i < n; i++ {
				reals = append(reals, genRealTiming(rb.ForkN("timing", i), i))
			}
		}
		if os.Getenv("C09_ONLY_REAL") != "" {
			scs = nil
		}
		if os.Getenv("C09_ONLY_SHAPES") != "" { // development
			scs, reals = canonicalShapes(), nil
		}
		if os.Getenv("C09_ONLY_CANONICAL") != "" {
			scs = nil
			reals = canonicalReal()
		}
	}
	vlib.Parallel(len(scs)+len(reals), 0, func(i int) {
		if i < len(scs) {
			runScenario(c, scs[i])
		} else {
			runReal(c, reals[i-len(scs)])
		}
	})
	c.Set("peak_concurrent_residents_per_cu_max", atomic.LoadInt64(&peakResidentsMax))

	opts := vlib.FinishOpts{
		Rule: "scenario = (placement algorithm, #dispatchers, #CUs, advertised CU resources, CU port behaviour: latency law / batching / buffers / stalls, " +
			"1-12 timed launches each with grid, work-group shape, SGPR/VGPR/LDS demand and optional work-group filter), generated from VERIF_SEED plus a fixed " +
			"canonical battery; after the launches are answered each finite resource is re-filled by a probe launch. " +
			"non-trivial = distinct scenario that ran to the end, in which at least two launches were in flight at the same time " +
			"(first MapWGReq .. LaunchKernelRsp intervals intersect) and at least one reservation was refused (two consecutive MapWGReqs of " +
			"one launch left the CP two or more cycles apart although the dispatcher issues every cycle when it can place a group)",
		Assumptions: []string{
			"fake CUs follow the CU side of the protocol: every MapWGReq is completed exactly once, ids unique, completion messages of mode 'launch' never mix launches; mode 'emu' batches like amd/emu/computeunit.go",
			"all CUs of one scenario advertise the same resources; every generated work-group fits an empty CU",
			"residency interval of a work-group on a CU = [CP pushed the MapWGReq into its port, CU pushed the WGCompletionMsg into its port] in trace order; the CP cannot know of a completion earlier than that, so reuse before it is always an error",
			"occupied ranges are the kernel's own demand (4*WFSgprCount bytes, 4*WIVgprCount bytes per lane on the wavefront's SIMD, GroupSegmentByteSize bytes), not the allocator's rounded sizes",
			"work-group identity = (dispatch packet pointer, IDX, IDY, IDZ); the work-group's wavefront list is taken as built by the grid builder (C08 judges that)",
			"real-CU layer: the controlled link follows akita's connection protocol (takes a message out of the sender's port only when it can deliver it; NotifyAvailable / NotifySend wake it) and every stall ends by itself, except the upstream hold of a probe's fill phase",
			"real-CU layer: an emulation CU retries a failed completion Send every cycle, so windows are generated such that a failing Send is retried at most a few hundred times (never two consecutive emulation steps stalled for one CU)",
			"real-CU layer: 'wavefront ended' = the emulation CU's instruction hook reported s_endpgm for it / the timing CU's tracer saw the end of its wavefront task no later than the cycle of the completion Send",
			"real-CU layer: adapters advertise fewer resources than the real CU has (timing CU) or finite ones (emulation CU ignores placements); DispatchingPort / ControlPort are the real CU's",
		},
		MinNontrivial: 40,
		MinCounters: map[string]int64{
			"launches":                            800,
			"wgs_mapped":                          20000,
			"launch_responses":                    800,
			"scenarios_with_refused_reservation":  60,
			"scenarios_with_overlapping_launches": 100,
			"batched_completion_msgs":             200,
			"probe_fills":                         200,
			"filtered_launches":                   50,

			// the shipped CU shapes (r9nano: 4x10 slots, 256 VGPRs per lane; mi300a: 4x8 slots, 512 VGPRs per lane; 3200 SGPRs, 64 KiB LDS)
			"shape_r9nano_scenarios":                                           60,
			"shape_mi300a_scenarios":                                           40,
			"shape_r9nano_simds_filled_to_refusal":                             150,
			"shape_mi300a_simds_filled_to_refusal":                             120,
			"shape_r9nano_groups_placed_with_more_than_64_vgprs":               300,
			"shape_mi300a_groups_placed_with_more_than_64_vgprs":               600,
			"real_emu_scenarios":                                               40,
			"real_emu_wgs_mapped":                                              2000,
			"real_emu_launch_responses":                                        200,
			"real_emu_completion_msgs_with_2_or_more_ids":                      300,
			"real_emu_completion_batches_with_2_or_more_ids_whose_send_failed": 15,
			"real_emu_stall_windows_that_held_a_completion":                    50,
			"real_emu_probe_fills":                                             30,
			"real_timing_scenarios":                                            25,
			"real_timing_wgs_mapped":                                           2500,
			"real_timing_completion_batches_whose_send_failed":                 150,
			"real_timing_completion_msgs_that_waited_in_the_cu_port":           500,
			"real_timing_stall_windows_that_held_a_completion":                 15,
			"real_timing_probe_fills":                                          50,
		},
	}
	if replay != "" || os.Getenv("C09_ONLY_FAKE") != "" || os.Getenv("C09_ONLY_REAL") != "" || os.Getenv("C09_ONLY_CANONICAL") != "" || os.Getenv("C09_ONLY_SHAPES") != "" {
		opts.MinNontrivial = 0
		opts.MinCounters = nil
	}
	c.Finish(opts)
}
