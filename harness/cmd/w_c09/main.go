// w_c09: the real command processor (amd/timing/cp, public builder) with its
// real dispatchers, placement algorithms and CU resource pool, between a fake
// driver port and 1-16 fake compute units with finite advertised resources,
// random latencies, out-of-order and batched completion and small port
// buffers. Judged offline from the recorded port trace (DESIGN.md, C09).
package main

import (
	"encoding/json"
	"fmt"
	"os"
	"sync/atomic"

	"verifharness/vlib"
)

func loadReplay(path string) (scenario, error) {
	var f struct {
		Witness struct {
			Scenario scenario `json:"scenario"`
		} `json:"witness"`
	}
	b, err := os.ReadFile(path)
	if err != nil {
		return scenario{}, err
	}
	if err := json.Unmarshal(b, &f); err != nil {
		return scenario{}, err
	}
	if f.Witness.Scenario.NCU == 0 {
		return scenario{}, fmt.Errorf("no scenario in %s", path)
	}
	return f.Witness.Scenario, nil
}

func main() {
	c := vlib.Start("C09")
	var scs []scenario
	replay := ""
	for i, a := range os.Args {
		if a == "--replay" && i+1 < len(os.Args) {
			replay = os.Args[i+1]
		}
	}
	if replay != "" {
		s, err := loadReplay(replay)
		if err != nil {
			fmt.Printf("[C09] cannot load replay: %v\n", err)
			os.Exit(2)
		}
		fmt.Printf("[C09] replaying scenario %s from %s\n", s.Name, replay)
		scs = []scenario{s}
	} else {
		scs = canonical()
		n := c.N(300, 8000)
		base := c.Rand("scenarios")
		for i := 0; i < n; i++ {
			scs = append(scs, genScenario(base.ForkN("s", i), i))
		}
	}
	vlib.Parallel(len(scs), 0, func(i int) { runScenario(c, scs[i]) })
	c.Set("peak_concurrent_residents_per_cu_max", atomic.LoadInt64(&peakResidentsMax))

	opts := vlib.FinishOpts{
		Rule: "scenario = (placement algorithm, #dispatchers, #CUs, advertised CU resources, CU port behaviour: latency law / batching / buffers / stalls, " +
			"1-12 timed launches each with grid, work-group shape, SGPR/VGPR/LDS demand and optional work-group filter), generated from VERIF_SEED plus a fixed " +
			"canonical battery; after the launches are answered each finite resource is re-filled by a probe launch. " +
			"non-trivial = distinct scenario that ran to the end, in which at least two launches were in flight at the same time " +
			"(first MapWGReq .. LaunchKernelRsp intervals intersect) and at least one reservation was refused (two consecutive MapWGReqs of " +
			"one launch left the CP two or more cycles apart although the dispatcher issues every cycle when it can place a group)",
		Assumptions: []string{
			"fake CUs follow the CU side of the protocol: every MapWGReq is completed exactly once, ids unique, completion messages of mode 'launch' never mix launches; mode 'emu' batches like amd/emu/computeunit.go",
			"all CUs of one scenario advertise the same resources; every generated work-group fits an empty CU",
			"residency interval of a work-group on a CU = [CP pushed the MapWGReq into its port, CU pushed the WGCompletionMsg into its port] in trace order; the CP cannot know of a completion earlier than that, so reuse before it is always an error",
			"occupied ranges are the kernel's own demand (4*WFSgprCount bytes, 4*WIVgprCount bytes per lane on the wavefront's SIMD, GroupSegmentByteSize bytes), not the allocator's rounded sizes",
			"work-group identity = (dispatch packet pointer, IDX, IDY, IDZ); the work-group's wavefront list is taken as built by the grid builder (C08 judges that)",
		},
		MinNontrivial: 40,
		MinCounters: map[string]int64{
			"launches":                            800,
			"wgs_mapped":                          20000,
			"launch_responses":                    800,
			"scenarios_with_refused_reservation":  60,
			"scenarios_with_overlapping_launches": 100,
			"batched_completion_msgs":             200,
			"probe_fills":                         200,
			"filtered_launches":                   50,
		},
	}
	if replay != "" {
		opts.MinNontrivial = 0
		opts.MinCounters = nil
	}
	c.Finish(opts)
}
