package main

import (
	"fmt"
	"math"
	"os"
	"strings"

	"github.com/sarchlab/akita/v4/sim"
	"github.com/sarchlab/mgpusim/v4/amd/kernels"
	"github.com/sarchlab/mgpusim/v4/amd/protocol"

	"verifharness/vlib"
	"verifharness/vlib/simkit"
)

type realRun struct {
	*scenarioRun // shared rules (placement, disjointness) and violation bookkeeping
	rs           realScenario
	re           *renv
	L            string // key prefix, e.g. C09|real-emu-cu
	C            string // counter prefix, e.g. real_emu_
	idle         bool   // the main phase ended with the engine idle
	inProbe      bool
	nMainFailed  int // failed completion sends before the probes
}

func (r *realRun) phase(name string, limit int64) bool {
	e := r.re
	n, livelock, pv := simkit.RunBounded(e.engine, limit)
	r.rec.Count(r.C+"engine_events", n)
	if pv != nil {
		e.dead = true
		msg := fmt.Sprint(pv)
		r.viol(r.L+"|crash|"+sanitize(msg), fmt.Sprintf("panic in phase %s at cycle %d: %v", name, e.nowCycle(), pv),
			map[string]any{"phase": name, "panic": msg})
		return false
	}
	if livelock {
		e.dead = true
		r.viol(r.L+"|no-termination", fmt.Sprintf("event bound (%d) exceeded in phase %s at cycle %d: launches %v unanswered", limit, name, e.nowCycle(), e.unanswered()),
			map[string]any{"phase": name})
		return false
	}
	return true
}

func realEventLimit(s realScenario, ks []kernelSpec) int64 {
	var wgs int64
	for _, k := range ks {
		d := k.numWGDims()
		wgs += int64(d[0] * d[1] * d[2])
	}
	if s.Kind == "timing" {
		return 4_000_000 + 20_000*wgs
	}
	return 2_000_000 + 5_000*wgs
}

func runReal(rec vlib.Recorder, s realScenario) {
	rec.Eval()
	kind := s.Kind
	r := &realRun{rs: s, L: "C09|" + s.layer(), C: "real_" + kind + "_"}
	r.scenarioRun = &scenarioRun{rec: rec, s: s.asScenario(), seen: map[string]bool{}, real: &r.rs}
	var ks []kernelSpec
	for i, l := range s.Launches {
		if !fits(s.Adv, l.kernelSpec) {
			rec.Inconclusive(fmt.Sprintf("real scenario %s: launch %d does not fit an empty CU (harness error)", s.Name, i))
			return
		}
		ks = append(ks, l.kernelSpec)
	}
	e := buildReal(s)
	r.re = e
	for _, l := range s.Launches {
		e.submit(l.kernelSpec, l.Prog, l.At)
	}
	ok := r.phase("main", realEventLimit(s, ks))
	r.nMainFailed = len(e.failed)
	if ok {
		r.idle = true
		up, down := e.link.pending()
		if !e.drv.done() || up > 0 {
			rec.Inconclusive(fmt.Sprintf("real scenario %s: engine idle but the harness (driver stub / link towards the CP) still holds messages", s.Name))
			r.idle = false
			ok = false
		} else if down > 0 {
			// every stall of the link has ended; the head MapWGReq cannot be
			// delivered because a CU's incoming buffer stays full
			r.viol(r.L+"|cu-stopped-accepting-work-groups", fmt.Sprintf("engine idle at cycle %d: a MapWGReq waits in the CP's port because a compute unit does not take requests from its port any more; launches %v unanswered",
				e.nowCycle(), e.unanswered()), nil)
			r.idle = false
			ok = false
		}
		for _, im := range e.imems {
			if im.bad != "" {
				rec.Inconclusive(fmt.Sprintf("real scenario %s: %s", s.Name, im.bad))
			}
		}
	}
	if ok && len(e.unanswered()) == 0 && !s.NoProbe {
		r.probes()
	}
	r.check()
}

func (r *realRun) probes() {
	e := r.re
	for _, p := range makeProbes(r.s) {
		r.inProbe = true
		e.link.hold, e.link.clean = true, true
		at := e.nowCycle() + 2
		if r.rs.Kind == "emu" {
			// the emulation CU steps at whole seconds: keep the probe's
			// work-groups clear of a step so that they finish as one batch
			at = (e.nowCycle()/1_000_000_000+1)*1_000_000_000 + 1000
		}
		l := e.submit(p.k, "endpgm", at)
		if !r.phase("probe-"+p.name+"-fill", realEventLimit(r.rs, []kernelSpec{p.k})) {
			return
		}
		// engine idle, no completion reaches the CP: it must have placed exactly perCU groups on every CU
		sent := e.mapsSentFor(l)
		var short, over []int
		for i, n := range sent {
			if n < p.perCU {
				short = append(short, i)
			}
			if n > p.perCU {
				over = append(over, i)
			}
		}
		r.rec.Count(r.C+"probe_fills", 1)
		wit := map[string]any{"probe": p.k, "expected_per_cu": p.perCU, "placed_per_cu": sent}
		if len(over) > 0 {
			r.viol(r.L+"|probe-overfill|"+p.name,
				fmt.Sprintf("%s probe (launch %d): %d one-wavefront groups fill a CU exactly, but the CP placed %v", p.name, l.idx, p.perCU, sent), wit)
		} else if len(short) > 0 {
			r.viol(r.L+"|not-returned|"+p.name,
				fmt.Sprintf("after all launches were answered, a %s probe (launch %d, %d one-wavefront groups per CU fill it exactly) could place only %v groups; CUs %v have lost capacity",
					p.name, l.idx, p.perCU, sent, short), wit)
		}
		e.link.hold = false
		e.link.TickLater()
		if !r.phase("probe-"+p.name+"-drain", realEventLimit(r.rs, []kernelSpec{p.k})) {
			return
		}
		e.link.clean = false
		if e.link.busy() {
			r.rec.Inconclusive(fmt.Sprintf("real scenario %s: link still holds messages after the probe drain", r.rs.Name))
			r.idle = false
			return
		}
		if un := e.unanswered(); len(un) > 0 {
			return // reported by check()
		}
	}
}

// check evaluates the C09 rules over the recorded CP<->CU and CP<->driver
// port trace. Unlike the fake-CU layer, the CU side is under test as well:
// an id completed twice, never, by the wrong CU or before its wavefronts
// ended is a violation, not a harness error.
func (r *realRun) check() {
	e, s, rec := r.re, r.rs, r.rec
	c := s.Adv
	L := r.L
	byPkt := map[*kernels.HsaKernelDispatchPacket]*launchRec{}
	byID := map[string]*launchRec{}
	for _, l := range e.launches {
		byPkt[l.pkt] = l
		byID[l.req.ID] = l
	}
	cuIdx := map[sim.RemotePort]int{}
	cuOfPort := map[string]int{}
	for i, p := range e.cuPorts {
		cuIdx[p.AsRemote()] = i
		cuOfPort[cuName(i)] = i
	}
	maps := map[string]*mapRec{}
	var order []*mapRec
	resident := make([]map[string]*mapRec, len(e.cuPorts))
	slotUse := make([][]int, len(e.cuPorts))
	for i := range resident {
		resident[i] = map[string]*mapRec{}
		slotUse[i] = make([]int, c.NumSIMD)
	}
	sCap, vCap, lCap := -1, -1, -1
	if c.SGPRs >= 0 {
		sCap = c.SGPRs * 4
	}
	if c.VGPRs >= 0 {
		vCap = c.VGPRs / 64 * 4
	}
	if c.LDS >= 0 {
		lCap = c.LDS
	}
	slotCap := c.Slots
	if slotCap < 0 {
		slotCap = math.MaxInt32
	}
	var nMaps, nCompMsgs, nBatched, nRsp, nIDs, nWaited, maxBatch int64
	sentAt := map[string]int64{} // completion message id -> cycle sent by the CU

	for _, ev := range e.log.Snapshot() {
		switch msg := ev.Msg.(type) {
		case *protocol.LaunchKernelReq:
			if ev.Port == "CP.ToDriver" && ev.Kind == simkit.KRecv {
				if l := byID[msg.ID]; l != nil {
					l.cpRecvReqSeq = ev.Seq
				}
			}

		case *protocol.MapWGReq:
			if ev.Port == "CP.ToCUs" && ev.Kind == simkit.KSend {
				nMaps++
				l := byPkt[msg.WorkGroup.Packet]
				if l == nil || l.cpRecvReqSeq < 0 {
					r.viol("C09|map-for-unknown-launch", fmt.Sprintf("MapWGReq at cycle %d belongs to no launch the CP has received", ev.Cycle), nil)
					continue
				}
				ci, okCU := cuIdx[msg.Dst]
				if !okCU {
					r.viol("C09|map-to-unknown-cu", fmt.Sprintf("MapWGReq sent to %s which is not a registered CU", msg.Dst), nil)
					continue
				}
				wg := [3]int{msg.WorkGroup.IDX, msg.WorkGroup.IDY, msg.WorkGroup.IDZ}
				m := &mapRec{id: msg.ID, launch: l, cu: ci, wg: wg, req: msg, sendSeq: ev.Seq, sendCycle: ev.Cycle, cuRecvSeq: -1, doneSeq: -1, cpRecvSeq: -1}
				maps[msg.ID] = m
				order = append(order, m)
				if l.rspSeq >= 0 {
					r.viol("C09|map-after-response|"+s.Alg, fmt.Sprintf("launch %d: work-group %v mapped at cycle %d after the launch was answered", l.idx, wg, ev.Cycle), map[string]any{"map": m.describe()})
				}
				if !l.expected[wg] {
					r.viol("C09|wg-outside-grid|"+s.Alg, fmt.Sprintf("launch %d: work-group %v is not one of the launch's work-groups", l.idx, wg), map[string]any{"map": m.describe(), "launch": l.spec})
				}
				if prev, dup := l.mapped[wg]; dup {
					r.viol("C09|wg-mapped-twice|"+s.Alg, fmt.Sprintf("launch %d: work-group %v mapped twice (cycles %d and %d)", l.idx, wg, maps[prev].sendCycle, ev.Cycle),
						map[string]any{"first": maps[prev].describe(), "second": m.describe()})
				}
				l.mapped[wg] = msg.ID
				if l.firstMapSeq < 0 {
					l.firstMapSeq, l.firstMapCycle = ev.Seq, ev.Cycle
				}
				l.lastMapCycle = ev.Cycle
				r.checkPlacement(m, sCap, vCap, lCap)
				for _, o := range resident[ci] {
					r.checkDisjoint(o, m)
				}
				resident[ci][msg.ID] = m
				for _, loc := range msg.Wavefronts {
					if loc.SIMDID >= 0 && loc.SIMDID < c.NumSIMD {
						slotUse[ci][loc.SIMDID]++
						if slotUse[ci][loc.SIMDID] > slotCap {
							r.viol("C09|capacity|wavefront-slots", fmt.Sprintf("CU%d SIMD%d: %d wavefronts resident at cycle %d, pool holds %d", ci, loc.SIMDID, slotUse[ci][loc.SIMDID], ev.Cycle, slotCap),
								map[string]any{"map": m.describe()})
						}
					}
				}
			}
			if ev.Kind == simkit.KRecv && strings.HasPrefix(ev.Port, "CU") {
				if m := maps[msg.ID]; m != nil && m.cuRecvSeq < 0 {
					m.cuRecvSeq = ev.Seq
				}
			}

		case *protocol.WGCompletionMsg:
			if ci, isCU := cuOfPort[ev.Port]; isCU && ev.Kind == simkit.KSend {
				ids := e.rspTo[ev.Seq]
				nCompMsgs++
				nIDs += int64(len(ids))
				if len(ids) > 1 {
					nBatched++
				}
				if int64(len(ids)) > maxBatch {
					maxBatch = int64(len(ids))
				}
				sentAt[msg.ID] = ev.Cycle
				if msg.Dst != e.cp.ToCUs.AsRemote() {
					r.viol(L+"|completion-wrong-destination", fmt.Sprintf("CU%d sent a WGCompletionMsg to %s at cycle %d", ci, msg.Dst, ev.Cycle), nil)
				}
				if len(ids) == 0 {
					r.viol(L+"|completion-message-empty", fmt.Sprintf("CU%d sent a WGCompletionMsg without ids at cycle %d", ci, ev.Cycle), nil)
				}
				for _, id := range ids {
					m := maps[id]
					switch {
					case m == nil:
						r.viol(L+"|completion-unknown-id", fmt.Sprintf("CU%d reported completion of %q at cycle %d, which is no MapWGReq the CP has sent", ci, id, ev.Cycle), nil)
					case m.cu != ci:
						r.viol(L+"|completion-from-wrong-cu", fmt.Sprintf("CU%d reported completion of launch %d wg %v, which was mapped to CU%d", ci, m.launch.idx, m.wg, m.cu), map[string]any{"map": m.describe()})
					case m.cuRecvSeq < 0:
						r.viol(L+"|completion-before-map-delivered", fmt.Sprintf("CU%d reported completion of launch %d wg %v at cycle %d before its MapWGReq was delivered", ci, m.launch.idx, m.wg, ev.Cycle), map[string]any{"map": m.describe()})
					case m.doneSeq >= 0:
						r.viol(L+"|completion-duplicated", fmt.Sprintf("CU%d reported completion of launch %d wg %v twice: in the messages sent at cycles %d and %d (this one carries %d ids)",
							ci, m.launch.idx, m.wg, m.doneCycle, ev.Cycle, len(ids)), map[string]any{"map": m.describe(), "second_message_ids": len(ids)})
					default:
						m.doneSeq, m.doneCycle = ev.Seq, ev.Cycle
						delete(resident[m.cu], id)
						for _, loc := range m.req.Wavefronts {
							if loc.SIMDID >= 0 && loc.SIMDID < c.NumSIMD {
								slotUse[m.cu][loc.SIMDID]--
							}
						}
						notEnded := 0
						for _, wf := range m.req.WorkGroup.Wavefronts {
							if at, ok := e.wfEnded[wf.UID]; !ok || at > ev.Cycle {
								notEnded++
							}
						}
						if notEnded > 0 {
							r.viol(L+"|completion-before-wavefronts-ended", fmt.Sprintf("CU%d reported completion of launch %d wg %v at cycle %d while %d of its %d wavefronts had not ended (no s_endpgm / wavefront task still open)",
								ci, m.launch.idx, m.wg, ev.Cycle, notEnded, len(m.req.WorkGroup.Wavefronts)), map[string]any{"map": m.describe(), "program": e.progs[m.launch.idx]})
						}
					}
				}
			}
			if ev.Kind == simkit.KRecv && ev.Port == "CP.ToCUs" {
				if at, ok := sentAt[msg.ID]; ok && ev.Cycle > at {
					nWaited++
				}
				for _, id := range e.rspTo[ev.Seq] {
					if m := maps[id]; m != nil && m.cpRecvSeq < 0 {
						m.cpRecvSeq = ev.Seq
					}
				}
			}

		case *protocol.LaunchKernelRsp:
			if ev.Port == "CP.ToDriver" && ev.Kind == simkit.KSend {
				nRsp++
				l := byID[msg.RspTo]
				if l == nil || l.cpRecvReqSeq < 0 {
					r.viol("C09|response|wrong-rspto", fmt.Sprintf("LaunchKernelRsp at cycle %d answers %q, which is no launch request the CP has received", ev.Cycle, msg.RspTo), nil)
					continue
				}
				l.rspCount++
				if l.rspCount > 1 {
					r.viol("C09|response|twice", fmt.Sprintf("launch %d answered %d times", l.idx, l.rspCount), nil)
					continue
				}
				l.rspSeq = ev.Seq
				if msg.Dst != e.drv.Out.AsRemote() || msg.Src != e.cp.ToDriver.AsRemote() {
					r.viol("C09|response|wrong-endpoints", fmt.Sprintf("launch %d: response goes %s -> %s", l.idx, msg.Src, msg.Dst), nil)
				}
				var never, early [][3]int
				for wg := range l.expected {
					id, okm := l.mapped[wg]
					if !okm {
						never = append(never, wg)
						continue
					}
					if m := maps[id]; m.cpRecvSeq < 0 || m.cpRecvSeq > ev.Seq {
						early = append(early, wg)
					}
				}
				if len(never) > 0 {
					r.viol("C09|response|before-all-wgs-mapped|"+s.Alg, fmt.Sprintf("launch %d answered at cycle %d while %d of %d work-groups were never mapped (e.g. %v)", l.idx, ev.Cycle, len(never), len(l.expected), never[0]),
						map[string]any{"launch": l.spec, "n_never": len(never)})
				}
				if len(early) > 0 {
					r.viol("C09|response|before-last-completion", fmt.Sprintf("launch %d answered at cycle %d while the completion of %d work-groups (e.g. %v) had not reached the CP", l.idx, ev.Cycle, len(early), early[0]),
						map[string]any{"launch": l.spec, "n_incomplete": len(early)})
				}
			}
		}
	}

	// the ids of batches whose Send failed at least once
	inFailed := map[string]int{}
	type fb struct{ n int }
	failedBatches := map[string]*fb{}
	var nFailedMain, nFailedMultiAttempts int64
	for i, f := range e.failed {
		if i < r.nMainFailed {
			nFailedMain++
			if f.N >= 2 {
				nFailedMultiAttempts++
			}
			k := itoa(f.CU) + ":" + strings.Join(f.IDs, ",")
			if failedBatches[k] == nil {
				failedBatches[k] = &fb{n: f.N}
			}
		}
		for _, id := range f.IDs {
			inFailed[id]++
		}
	}
	var nFailedBatches, nFailedMultiBatches int64
	for _, b := range failedBatches {
		nFailedBatches++
		if b.n >= 2 {
			nFailedMultiBatches++
		}
	}

	// end of run: nothing may be outstanding once the engine is idle
	if r.idle && !e.dead {
		var lost []*mapRec
		for _, m := range order {
			if m.cuRecvSeq >= 0 && m.doneSeq < 0 {
				lost = append(lost, m)
			}
		}
		if len(lost) > 0 {
			perCU := make([]int, len(e.cuPorts))
			wasInFailedBatch := 0
			for _, m := range lost {
				perCU[m.cu]++
				if inFailed[m.id] > 0 {
					wasInFailedBatch++
				}
			}
			m := lost[0]
			r.viol(L+"|completion-lost", fmt.Sprintf("engine idle at cycle %d, CU ports empty, but %d MapWGReqs delivered to the CUs were never reported complete (per CU: %v; e.g. launch %d wg %v on CU%d, mapped at cycle %d); %d of them had been in a completion batch whose Send failed",
				e.nowCycle(), len(lost), perCU, m.launch.idx, m.wg, m.cu, m.sendCycle, wasInFailedBatch),
				map[string]any{"n_lost": len(lost), "lost_per_cu": perCU, "lost_that_were_in_a_failed_batch": wasInFailedBatch, "example": m.describe(), "failed_sends": len(e.failed)})
		}
		got := e.answered()
		for _, l := range e.launches {
			if l.rspCount == 0 {
				nLost, nUndelivered := 0, 0
				for _, id := range l.mapped {
					if m := maps[id]; m.doneSeq < 0 {
						nLost++
					} else if m.cpRecvSeq < 0 {
						nUndelivered++
					}
				}
				r.viol(L+"|launch-never-answered", fmt.Sprintf("engine idle at cycle %d with launch %d unanswered: %d of %d work-groups mapped, %d never reported complete by their CU, %d completions not delivered to the CP",
					e.nowCycle(), l.idx, len(l.mapped), len(l.expected), nLost, nUndelivered),
					map[string]any{"launch": l.spec, "probe": l.spec.Probe, "mapped": len(l.mapped), "never_completed": nLost})
				continue
			}
			if l.rspCount == 1 && got[l.req.ID] != 1 {
				r.viol("C09|response|not-delivered", fmt.Sprintf("launch %d: driver received %d responses", l.idx, got[l.req.ID]), nil)
			}
			if l.rspCount == 1 && len(l.mapped) < len(l.expected) {
				r.viol("C09|wg-never-mapped|"+s.Alg, fmt.Sprintf("launch %d: %d of %d work-groups mapped", l.idx, len(l.mapped), len(l.expected)), map[string]any{"launch": l.spec})
			}
		}
	}

	overlapping := false
	for _, l := range e.launches {
		for _, o := range e.launches {
			if o.idx <= l.idx || o.spec.Probe != "" || l.spec.Probe != "" || l.firstMapSeq < 0 || o.firstMapSeq < 0 || l.rspSeq < 0 || o.rspSeq < 0 {
				continue
			}
			if l.firstMapSeq < o.rspSeq && o.firstMapSeq < l.rspSeq {
				overlapping = true
			}
		}
	}

	C := r.C
	rec.Count(C+"scenarios", 1)
	rec.Count(C+"launches", int64(len(e.launches)))
	rec.Count(C+"launch_responses", nRsp)
	rec.Count(C+"wgs_mapped", nMaps)
	rec.Count(C+"wgs_completed", nIDs)
	rec.Count(C+"completion_msgs", nCompMsgs)
	rec.Count(C+"completion_msgs_with_2_or_more_ids", nBatched)
	rec.Count(C+"completion_msgs_that_waited_in_the_cu_port", nWaited)
	rec.Count(C+"failed_completion_send_attempts", nFailedMain)
	rec.Count(C+"failed_completion_send_attempts_with_2_or_more_ids", nFailedMultiAttempts)
	rec.Count(C+"completion_batches_whose_send_failed", nFailedBatches)
	rec.Count(C+"completion_batches_with_2_or_more_ids_whose_send_failed", nFailedMultiBatches)
	rec.Count(C+"failed_completion_send_attempts_in_probe_phases", int64(len(e.failed)-r.nMainFailed))
	rec.Count(C+"stall_windows_that_held_a_completion", int64(len(e.link.windowHit)))
	rec.Count(C+"link_ticks_holding_a_completion", e.link.heldCycles)
	rec.Count(C+"instructions_run", e.instsRun)
	if overlapping {
		rec.Count(C+"scenarios_with_overlapping_launches", 1)
	}
	if nFailedBatches > 0 {
		rec.Count(C+"scenarios_with_failed_completion_send", 1)
	}
	mb := maxBatch
	if mb > 16 {
		mb = 16 + (mb-16)/16*16
	}
	if os.Getenv("C09_VERBOSE") != "" {
		fmt.Printf("[C09v] %-55s end=%d maps=%d msgs=%d ids=%d batched=%d maxb=%d failedAtt=%d failedBatches=%d multi=%d probeFail=%d winHit=%d waited=%d insts=%d rsp=%d/%d\n",
			s.Name, e.nowCycle(), nMaps, nCompMsgs, nIDs, nBatched, maxBatch, nFailedMain, nFailedBatches, nFailedMultiBatches, len(e.failed)-r.nMainFailed, len(e.link.windowHit), nWaited, e.instsRun, nRsp, len(e.launches))
	}
	rec.Distinct(C+"max_batch", itoa(int(mb)))
	rec.Distinct(C+"alg_cu_disp_adv", fmt.Sprintf("%s/%d/%d/%s", s.Alg, s.NCU, s.NDisp, c.Preset))
	rec.Sample(map[string]any{"name": s.Name, "layer": s.layer(), "alg": s.Alg, "num_cu": s.NCU, "num_dispatchers": s.NDisp, "advertised": c.Preset,
		"launches": len(s.Launches), "wgs_mapped": nMaps, "completion_msgs": nCompMsgs, "max_ids_per_msg": maxBatch,
		"failed_send_attempts": nFailedMain, "failed_batches_2plus": nFailedMultiBatches, "stall_windows_hit": len(e.link.windowHit), "overlapping": overlapping})
}
