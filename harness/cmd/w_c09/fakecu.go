package main

import (
	"math"

	"github.com/sarchlab/akita/v4/sim"
	"github.com/sarchlab/mgpusim/v4/amd/kernels"
	"github.com/sarchlab/mgpusim/v4/amd/protocol"

	"verifharness/vlib"
	"verifharness/vlib/simkit"
)

// cuSpec describes what a fake compute unit advertises to the command
// processor and how it behaves on its port.
type cuSpec struct {
	Preset  string `json:"preset"`
	NumSIMD int    `json:"num_simd"`
	Slots   int    `json:"slots_per_simd"` // -1: math.MaxInt32 (what the emulation CU reports)
	VGPRs   int    `json:"vgprs_per_simd"` // registers x 64 lanes, as the CUs report it; -1 unlimited
	SGPRs   int    `json:"sgprs"`          // -1 unlimited
	LDS     int    `json:"lds_bytes"`      // -1 unlimited

	InBuf    int    `json:"in_buf"`
	OutBuf   int    `json:"out_buf"`
	MaxTake  int    `json:"max_take_per_cycle"`
	StallPct int    `json:"stall_pct"`
	LatMode  string `json:"latency_mode"` // unit | short | mid | long | bimodal
	Batch    string `json:"batch"`        // single | launch | emu
	BatchK   int    `json:"batch_k"`
}

func (s cuSpec) totalSlots() int {
	if s.Slots < 0 {
		return math.MaxInt32
	}
	return s.NumSIMD * s.Slots
}

type residentWG struct {
	req    *protocol.MapWGReq
	doneAt int64
}

// fakeCU is a compute unit as the command processor sees it: it advertises
// resources, accepts MapWGReqs and reports completion after a PRNG-driven
// latency, one message per work-group, batched per launch, or batched the way
// the emulation CU does it (everything finished so far, once the CU is empty).
type fakeCU struct {
	*simkit.Agent
	idx  int
	spec cuSpec
	port sim.Port
	rng  *vlib.PRNG

	running  []*residentWG
	finished []*residentWG // finished, completion message not yet built
	outbox   []*protocol.WGCompletionMsg
	hold     bool // probe phases: nothing finishes while set

	received  int
	completed int
}

func newFakeCU(engine sim.Engine, freq sim.Freq, idx int, spec cuSpec, rng *vlib.PRNG) *fakeCU {
	cu := &fakeCU{idx: idx, spec: spec, rng: rng}
	cu.Agent = simkit.NewAgent(cuName(idx), engine, freq)
	cu.port = cu.Agent.NewPort("ToCP", spec.InBuf, spec.OutBuf)
	cu.Agent.TickFn = cu.tick
	return cu
}

func cuName(i int) string { return "CU" + itoa(i) }

// --- what cp.CUInterfaceForCP asks for ---

// DispatchingPort is where MapWGReqs are sent.
func (cu *fakeCU) DispatchingPort() sim.RemotePort { return cu.port.AsRemote() }

// ControlPort is where control messages would be sent (unused here).
func (cu *fakeCU) ControlPort() sim.RemotePort { return cu.port.AsRemote() }

// WfPoolSizes returns a fresh slice each time (the resource pool keeps and
// mutates the slice it is given).
func (cu *fakeCU) WfPoolSizes() []int {
	out := make([]int, cu.spec.NumSIMD)
	for i := range out {
		if cu.spec.Slots < 0 {
			out[i] = math.MaxInt32
		} else {
			out[i] = cu.spec.Slots
		}
	}
	return out
}

// VRegCounts returns the per-SIMD vector register file sizes.
func (cu *fakeCU) VRegCounts() []int {
	out := make([]int, cu.spec.NumSIMD)
	for i := range out {
		out[i] = cu.spec.VGPRs
	}
	return out
}

// SRegCount returns the scalar register file size.
func (cu *fakeCU) SRegCount() int { return cu.spec.SGPRs }

// LDSBytes returns the LDS size.
func (cu *fakeCU) LDSBytes() int { return cu.spec.LDS }

// ---

func (cu *fakeCU) latency() int {
	r := cu.rng
	switch cu.spec.LatMode {
	case "unit":
		return 1
	case "short":
		return 1 + r.Intn(20)
	case "mid":
		return 1 + r.Intn(500)
	case "long":
		return 1 + r.Intn(5000)
	default: // bimodal
		if r.Chance(2, 3) {
			return 1 + r.Intn(5)
		}
		return 3000 + r.Intn(2001)
	}
}

func (cu *fakeCU) wakeAt(cycle int64) {
	now := cu.Engine.CurrentTime()
	d := cycle - cu.NowCycle()
	if d < 1 {
		d = 1
	}
	t := cu.Freq.NCyclesLater(int(d), now)
	cu.Engine.Schedule(sim.MakeTickEvent(cu.TickingComponent, t))
}

func launchOf(r *residentWG) *kernels.HsaKernelDispatchPacket { return r.req.WorkGroup.Packet }

func (cu *fakeCU) tick(_ *simkit.Agent) bool {
	progress := false
	now := cu.NowCycle()

	// 1. accept work-groups
	stalled := cu.spec.StallPct > 0 && cu.rng.Intn(100) < cu.spec.StallPct
	if stalled {
		if cu.port.PeekIncoming() != nil {
			progress = true
		}
	} else {
		for n := 0; cu.spec.MaxTake <= 0 || n < cu.spec.MaxTake; n++ {
			m := cu.port.RetrieveIncoming()
			if m == nil {
				break
			}
			req, ok := m.(*protocol.MapWGReq)
			if !ok {
				panic("fake CU received something that is not a MapWGReq")
			}
			w := &residentWG{req: req, doneAt: now + int64(cu.latency())}
			cu.running = append(cu.running, w)
			cu.received++
			cu.wakeAt(w.doneAt)
			progress = true
		}
		if cu.port.PeekIncoming() != nil {
			progress = true
		}
	}

	// 2. work-groups whose latency has elapsed finish (any order w.r.t. arrival)
	if !cu.hold {
		keep := cu.running[:0]
		for _, w := range cu.running {
			if w.doneAt <= now {
				cu.finished = append(cu.finished, w)
				progress = true
			} else {
				keep = append(keep, w)
			}
		}
		cu.running = keep
	}

	// 3. build completion messages
	cu.buildMessages()

	// 4. send
	for len(cu.outbox) > 0 {
		if err := cu.port.Send(cu.outbox[0]); err != nil {
			break // NotifyPortFree wakes us
		}
		cu.completed += len(cu.outbox[0].RspTo)
		cu.outbox = cu.outbox[1:]
		progress = true
	}
	return progress
}

func (cu *fakeCU) mkMsg(ws []*residentWG) {
	ids := make([]string, len(ws))
	for i, w := range ws {
		ids[i] = w.req.ID
	}
	m := protocol.WGCompletionMsgBuilder{}.
		WithSrc(cu.port.AsRemote()).
		WithDst(ws[0].req.Src).
		WithRspTo(ids).
		Build()
	cu.outbox = append(cu.outbox, m)
}

func (cu *fakeCU) buildMessages() {
	if len(cu.finished) == 0 {
		return
	}
	switch cu.spec.Batch {
	case "emu":
		// amd/emu/computeunit.go handleWGCompleteEvent: the ids of all
		// finished work-groups are sent in one message once the CU holds
		// no work-group any more.
		if len(cu.running) == 0 {
			cu.mkMsg(cu.finished)
			cu.finished = nil
		}
	case "launch":
		// one message per launch: when BatchK ids have accumulated or the
		// CU holds no unfinished work-group of that launch.
		var rest []*residentWG
		groups := map[*kernels.HsaKernelDispatchPacket][]*residentWG{}
		var order []*kernels.HsaKernelDispatchPacket
		for _, w := range cu.finished {
			k := launchOf(w)
			if _, ok := groups[k]; !ok {
				order = append(order, k)
			}
			groups[k] = append(groups[k], w)
		}
		for _, k := range order {
			g := groups[k]
			more := false
			for _, w := range cu.running {
				if launchOf(w) == k {
					more = true
					break
				}
			}
			if len(g) >= cu.spec.BatchK || !more {
				cu.mkMsg(g)
			} else {
				rest = append(rest, g...)
			}
		}
		cu.finished = rest
	default:
		for _, w := range cu.finished {
			cu.mkMsg([]*residentWG{w})
		}
		cu.finished = nil
	}
}

// idle reports whether the CU owes nothing to the command processor.
func (cu *fakeCU) idle() bool {
	return len(cu.running) == 0 && len(cu.finished) == 0 && len(cu.outbox) == 0 &&
		cu.port.PeekIncoming() == nil
}
