package main

import (
	"fmt"

	"verifharness/vlib"
)

const sec = int64(1_000_000_000) // cycles per simulated second at 1 GHz: the emulation CU steps at whole seconds

func rk(wgx, nwg, sgpr, vgpr, lds int, at int64, prog string) realLaunch {
	return realLaunch{kernelSpec: kernelSpec{WG: [3]int{wgx, 1, 1}, Grid: [3]int{wgx * nwg, 1, 1}, SGPR: sgpr, VGPR: vgpr, LDS: lds, At: at}, Prog: prog}
}

func slotsOnly(simd, slots int) cuSpec {
	return cuSpec{Preset: "slots-only", NumSIMD: simd, Slots: slots, VGPRs: -1, SGPRs: -1, LDS: -1}
}

func smallCU(simd, slots int) cuSpec {
	return cuSpec{Preset: "small", NumSIMD: simd, Slots: slots, VGPRs: 256 * 16, SGPRs: 16 * 16, LDS: 4096}
}

func allCUs(n int, ws ...window) [][]window {
	out := make([][]window, n)
	for i := range out {
		out[i] = append([]window(nil), ws...)
	}
	return out
}

// emuStall is the window that keeps the batch an emulation CU sends after the
// step at second k in its one-entry port buffer until d cycles after the batch
// of the step at second k+1 is due: that later Send fails and is retried d times.
func emuStall(k int64, lead, d int64) window {
	return window{From: k*sec + 1 - lead, Until: (k+1)*sec + 1 + d}
}

// ---- canonical battery of the real-CU layer (seed independent)

func canonicalReal() []realScenario {
	var out []realScenario
	emuAdv := emuLike()

	// the situation of the emulation platform, but with a link that stalls:
	// two kernels of four groups on two CUs, the second launched while the
	// first one's completions wait in the CUs' port buffers.
	out = append(out, realScenario{Name: "canon-real-emu-second-batch-meets-stalled-link", Kind: "emu", Seed: 101, Alg: "builder-default", NDisp: 8, NCU: 2,
		Adv: emuAdv, Link: linkSpec{Up: allCUs(2, window{From: 900_000_000, Until: 2*sec + 4})},
		Launches: []realLaunch{rk(64, 4, 16, 4, 0, 1, "endpgm"), rk(64, 4, 16, 4, 0, 1_200_000_000, "endpgm")}})

	// finite advertised slots; three rounds; a third kernel arrives while the
	// CU is retrying (the retry is abandoned, the ids ride with the next batch)
	out = append(out, realScenario{Name: "canon-real-emu-retry-interrupted-by-new-groups", Kind: "emu", Seed: 102, Alg: "round-robin", NDisp: 4, NCU: 2,
		Adv: slotsOnly(2, 6), Link: linkSpec{Up: allCUs(2, emuStall(1, 5, 250))},
		Launches: []realLaunch{rk(64, 6, 16, 4, 0, 10, "nops"), rk(128, 4, 16, 4, 0, sec+500, "barrier"), rk(64, 4, 16, 4, 0, 2*sec+20, "alu"),
			rk(64, 8, 16, 4, 0, 3*sec+7, "endpgm")}})

	// one CU, three dispatchers in the same round: the failed batch mixes the launches
	out = append(out, realScenario{Name: "canon-real-emu-one-cu-mixed-batch-fails", Kind: "emu", Seed: 103, Alg: "greedy", NDisp: 3, NCU: 1,
		Adv: emuAdv, Link: linkSpec{Up: allCUs(1, emuStall(1, 0, 3), emuStall(3, 1000, 40))},
		Launches: []realLaunch{rk(64, 3, 16, 4, 0, 5, "endpgm"), rk(64, 2, 16, 4, 0, sec+100, "alu"), rk(256, 3, 16, 4, 0, sec+100, "barrier"), rk(64, 5, 16, 4, 0, sec+100_000, "nops"),
			rk(64, 2, 16, 4, 0, 2*sec+50_000, "endpgm"), rk(64, 7, 16, 4, 0, 3*sec+50_000, "endpgm")}})

	// only one of three CUs is stalled; partition placement
	out = append(out, realScenario{Name: "canon-real-emu-one-of-three-cus-stalled-partition", Kind: "emu", Seed: 104, Alg: "partition", NDisp: 2, NCU: 3,
		Adv: smallCU(2, 4), Link: linkSpec{Up: [][]window{nil, {emuStall(1, 1, 17)}, nil}, UpGapMax: 3},
		Launches: []realLaunch{rk(64, 9, 16, 4, 256, 100, "alu"), rk(64, 9, 32, 8, 512, sec+100, "nops"), rk(128, 6, 16, 4, 0, 2*sec+100, "barrier")}})

	// slow CP->CU link: the groups of one launch trickle in over several steps,
	// every step yields a batch; an upstream window makes one of them fail
	out = append(out, realScenario{Name: "canon-real-emu-groups-trickle-over-several-steps", Kind: "emu", Seed: 105, Alg: "round-robin", NDisp: 2, NCU: 2,
		Adv: emuAdv, Link: linkSpec{DownGapMax: 400_000_000, Up: allCUs(2, emuStall(2, 0, 9))},
		Launches: []realLaunch{rk(64, 16, 16, 4, 0, 1, "endpgm"), rk(128, 10, 16, 4, 0, sec/2, "barrier")}})

	// resource pressure: groups wait for completions that are stuck behind the link
	out = append(out, realScenario{Name: "canon-real-emu-dispatch-waits-for-stalled-completions", Kind: "emu", Seed: 106, Alg: "round-robin", NDisp: 3, NCU: 2,
		Adv: slotsOnly(1, 6), Link: linkSpec{Up: [][]window{{emuStall(1, 100, 2), emuStall(4, 0, 120)}, {emuStall(2, 0, 1)}}},
		Launches: []realLaunch{rk(64, 6, 16, 4, 0, 1, "nops"), rk(64, 6, 16, 4, 0, sec+1000, "endpgm"), rk(64, 14, 16, 4, 0, sec+2000, "alu"), rk(128, 5, 16, 4, 0, 4*sec+30, "barrier")}})

	// ---- timing CU: one completion message per group, four-entry port buffer
	nano := r9nano()
	few := cuSpec{Preset: "few-slots", NumSIMD: 4, Slots: 3, VGPRs: 16384, SGPRs: 3200, LDS: 64 * 1024}
	out = append(out, realScenario{Name: "canon-real-timing-port-buffer-fills-behind-stalled-link", Kind: "timing", Seed: 201, Alg: "builder-default", NDisp: 8, NCU: 2,
		Adv: nano, InstLat: 5, Link: linkSpec{Up: allCUs(2, window{From: 20, Until: 2500})},
		Launches: []realLaunch{rk(64, 24, 16, 4, 0, 1, "endpgm"), rk(64, 24, 16, 4, 0, 40, "nops")}})
	out = append(out, realScenario{Name: "canon-real-timing-slow-drain", Kind: "timing", Seed: 202, Alg: "round-robin", NDisp: 3, NCU: 2,
		Adv: nano, InstLat: 20, Link: linkSpec{UpGapMax: 90},
		Launches: []realLaunch{rk(64, 30, 16, 4, 0, 1, "alu"), rk(128, 20, 32, 8, 256, 1, "barrier"), rk(64, 30, 16, 4, 0, 300, "endpgm")}})
	out = append(out, realScenario{Name: "canon-real-timing-few-slots-staggered-windows", Kind: "timing", Seed: 203, Alg: "greedy", NDisp: 2, NCU: 3,
		Adv: few, InstLat: 8, Link: linkSpec{Up: [][]window{{{From: 100, Until: 1800}}, {{From: 600, Until: 2600}, {From: 3000, Until: 4200}}, nil}, UpGapMax: 4, DownGapMax: 6},
		Launches: []realLaunch{rk(64, 50, 16, 4, 0, 1, "nops"), rk(256, 16, 16, 8, 1024, 200, "barrier"), rk(64, 40, 16, 4, 0, 900, "longnops")}})
	out = append(out, realScenario{Name: "canon-real-timing-one-cu-partition-long-stall", Kind: "timing", Seed: 204, Alg: "partition", NDisp: 2, NCU: 1,
		Adv: nano, InstLat: 3, Link: linkSpec{Up: allCUs(1, window{From: 1, Until: 6000})},
		Launches: []realLaunch{rk(64, 45, 16, 4, 0, 1, "alu"), rk(192, 10, 16, 4, 0, 500, "barrier")}})
	// the mi300a shape (8 slots, 512 VGPRs per lane) with kernels that need more than 64 VGPRs: the real register file is the judge
	out = append(out, realScenario{Name: "canon-real-timing-mi300a-shape-large-vgpr-demand", Kind: "timing", Seed: 205, Alg: "round-robin", NDisp: 2, NCU: 1,
		Adv: mi300a(), InstLat: 4, Link: linkSpec{Up: allCUs(1, window{From: 300, Until: 1500}), UpGapMax: 3},
		Launches: []realLaunch{rk(64, 40, 16, 84, 0, 1, "alu"), rk(256, 12, 32, 100, 0, 50, "barrier"), rk(64, 20, 16, 128, 0, 600, "nops")}})
	return out
}

// ---- seeded generator

func genRealKernel(r *vlib.PRNG, adv cuSpec, ncu int, timing bool) realLaunch {
	for try := 0; ; try++ {
		wgx := []int{64, 64, 64, 128, 192, 256, 48, 100}[r.Intn(8)]
		if try > 20 {
			wgx = 64
		}
		per := 1 + r.Intn(6)
		if timing {
			per = 2 + r.Intn(20)
		}
		nwg := per*ncu - r.Intn(ncu)
		if nwg < 1 {
			nwg = 1
		}
		k := rk(wgx, nwg, 16*(1+r.Intn(2)), 4*(1+r.Intn(3)), []int{0, 0, 64, 256, 1024}[r.Intn(5)], 0, "")
		if r.Chance(1, 5) && wgx > 1 { // partial last group
			k.Grid[0] -= 1 + r.Intn(wgx-1)
		}
		if r.Chance(1, 8) {
			k.Filter = []string{"even-x", "not-first", "odd-sum"}[r.Intn(3)]
		}
		progs := []string{"endpgm", "endpgm", "nops", "alu", "barrier"}
		if timing {
			progs = append(progs, "longnops")
		}
		k.Prog = progs[r.Intn(len(progs))]
		if fits(adv, k.kernelSpec) {
			return k
		}
	}
}

func genRealEmu(r *vlib.PRNG, idx int) realScenario {
	s := realScenario{Name: fmt.Sprintf("re%d", idx), Kind: "emu", Seed: r.Uint64()}
	s.Alg = []string{"round-robin", "greedy", "partition", "builder-default"}[r.Intn(4)]
	s.NDisp = []int{2, 3, 4, 8}[r.Intn(4)]
	if s.Alg == "builder-default" {
		s.NDisp = 8
	}
	s.NCU = []int{1, 2, 2, 3, 4}[r.Intn(5)]
	switch r.Intn(4) {
	case 0:
		s.Adv = emuLike()
	case 1:
		s.Adv = slotsOnly(1+r.Intn(2), 3+r.Intn(6))
	default:
		s.Adv = smallCU(1+r.Intn(3), 2+r.Intn(5))
	}
	rounds := 2 + r.Intn(4)
	for rd := 0; rd < rounds; rd++ {
		nl := 1 + r.Intn(3)
		for j := 0; j < nl; j++ {
			k := genRealKernel(r, s.Adv, s.NCU, false)
			base := int64(rd) * sec
			switch r.Intn(4) {
			case 0:
				k.At = base + 2 + int64(r.Intn(60)) // right after the completions of the previous step (during a retry)
			case 1:
				k.At = base + 1000 + int64(r.Intn(1_000_000))
			case 2:
				k.At = base + sec/10 + int64(r.Intn(int(8*sec/10)))
			default:
				k.At = base + sec - 1 - int64(r.Intn(300)) // races the step
			}
			if k.At < 1 {
				k.At = 1
			}
			s.Launches = append(s.Launches, k)
		}
	}
	// upstream windows: never two consecutive steps for one CU (the failing
	// Send is retried every cycle until the window ends)
	s.Link.Up = make([][]window, s.NCU)
	for ci := 0; ci < s.NCU; ci++ {
		for k := int64(1); k < int64(rounds)+1; k++ {
			if !r.Chance(1, 2) {
				continue
			}
			lead := []int64{0, 0, 1, 5, 1000, sec / 2}[r.Intn(6)]
			d := []int64{1, 1, 2, 3, 10, 50, 250}[r.Intn(7)]
			s.Link.Up[ci] = append(s.Link.Up[ci], emuStall(k, lead, d))
			k++
		}
	}
	s.Link.UpGapMax = []int64{0, 0, 0, 5, 40}[r.Intn(5)]
	s.Link.DownGapMax = []int64{0, 0, 0, 3, 50, 200_000_000}[r.Intn(6)]
	return s
}

func genRealTiming(r *vlib.PRNG, idx int) realScenario {
	s := realScenario{Name: fmt.Sprintf("rt%d", idx), Kind: "timing", Seed: r.Uint64()}
	s.Alg = []string{"round-robin", "greedy", "partition", "builder-default"}[r.Intn(4)]
	s.NDisp = []int{1, 2, 3, 8}[r.Intn(4)]
	if s.Alg == "builder-default" {
		s.NDisp = 8
	}
	s.NCU = []int{1, 1, 2, 2, 3}[r.Intn(5)]
	if r.Chance(1, 2) {
		s.Adv = r9nano()
	} else {
		s.Adv = cuSpec{Preset: "few-slots", NumSIMD: 4, Slots: 1 + r.Intn(5), VGPRs: 16384, SGPRs: 3200, LDS: 64 * 1024}
	}
	s.InstLat = []int{1, 3, 8, 20, 60}[r.Intn(5)]
	nl := 1 + r.Intn(4)
	at := int64(1)
	for j := 0; j < nl; j++ {
		k := genRealKernel(r, s.Adv, s.NCU, true)
		if r.Chance(2, 3) {
			at += int64(r.Intn(1500))
		}
		k.At = at
		s.Launches = append(s.Launches, k)
	}
	s.Link.Up = make([][]window, s.NCU)
	for ci := 0; ci < s.NCU; ci++ {
		t := int64(r.Intn(300))
		for n := r.Intn(4); n > 0; n-- {
			l := int64(50 + r.Intn(3000))
			s.Link.Up[ci] = append(s.Link.Up[ci], window{From: t, Until: t + l})
			t += l + int64(r.Intn(1500))
		}
	}
	for n := r.Intn(3); n > 0; n-- {
		f := int64(r.Intn(3000))
		s.Link.Down = append(s.Link.Down, window{From: f, Until: f + int64(20+r.Intn(800))})
	}
	s.Link.UpGapMax = []int64{0, 0, 2, 10, 60, 150}[r.Intn(6)]
	s.Link.DownGapMax = []int64{0, 0, 2, 12}[r.Intn(4)]
	return s
}
