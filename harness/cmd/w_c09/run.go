package main

import (
	"fmt"
	"math"
	"strings"
	"sync/atomic"

	"github.com/sarchlab/akita/v4/sim"
	"github.com/sarchlab/mgpusim/v4/amd/insts"
	"github.com/sarchlab/mgpusim/v4/amd/kernels"
	"github.com/sarchlab/mgpusim/v4/amd/protocol"
	"github.com/sarchlab/mgpusim/v4/amd/timing/cp"

	"verifharness/vlib"
	"verifharness/vlib/simkit"
)

var peakResidentsMax int64

type launchRec struct {
	idx  int
	spec kernelSpec
	req  *protocol.LaunchKernelReq
	pkt  *kernels.HsaKernelDispatchPacket

	expected map[[3]int]bool
	mapped   map[[3]int]string // wg id -> MapWGReq id

	cpRecvReqSeq  int
	firstMapSeq   int
	firstMapCycle int64
	lastMapCycle  int64
	refused       bool
	rspSeq        int
	rspCount      int
}

type mapRec struct {
	id        string
	launch    *launchRec
	cu        int
	wg        [3]int
	req       *protocol.MapWGReq
	sendSeq   int
	sendCycle int64
	cuRecvSeq int
	doneSeq   int // CU sent the completion
	doneCycle int64
	cpRecvSeq int // completion delivered to the CP port
}

func (m *mapRec) describe() map[string]any {
	locs := []map[string]int{}
	for _, l := range m.req.Wavefronts {
		locs = append(locs, map[string]int{"simd": l.SIMDID, "sgpr_off": l.SGPROffset, "vgpr_off": l.VGPROffset, "lds_off": l.LDSOffset})
	}
	return map[string]any{"launch": m.launch.idx, "wg": m.wg, "cu": m.cu, "map_sent_cycle": m.sendCycle,
		"completion_sent_cycle": m.doneCycle, "placements": locs,
		"wf_sgpr_count": m.launch.spec.SGPR, "wi_vgpr_count": m.launch.spec.VGPR, "lds_bytes": m.launch.spec.LDS}
}

// env is one built system: real CP, fake driver, fake CUs.
type env struct {
	s      scenario
	engine *sim.SerialEngine
	freq   sim.Freq
	cp     *cp.CommandProcessor
	drv    *simkit.Requester
	cus    []*fakeCU
	log    *simkit.Log

	launches []*launchRec
	rspTo    map[int][]string // event seq -> copy of WGCompletionMsg.RspTo taken when the event happened
	dead     bool // engine panicked or hit the event bound: must not be run again
}

func mkLaunch(e *env, k kernelSpec) *launchRec {
	meta := &insts.KernelCodeObjectMeta{
		WFSgprCount:          uint16(k.SGPR),
		WIVgprCount:          uint16(k.VGPR),
		GroupSegmentByteSize: uint32(k.LDS),
	}
	co := &insts.KernelCodeObject{KernelCodeObjectMeta: meta, Data: []byte{0, 0, 0x81, 0xBF}, Version: insts.CodeObjectV3}
	pkt := &kernels.HsaKernelDispatchPacket{
		WorkgroupSizeX: uint16(k.WG[0]), WorkgroupSizeY: uint16(k.WG[1]), WorkgroupSizeZ: uint16(k.WG[2]),
		GridSizeX: uint32(k.Grid[0]), GridSizeY: uint32(k.Grid[1]), GridSizeZ: uint32(k.Grid[2]),
		GroupSegmentSize: uint32(k.LDS),
	}
	req := protocol.NewLaunchKernelReq(e.drv.Out, e.cp.ToDriver)
	req.PID = 1
	req.Packet = pkt
	req.PacketAddress = 0x1000 * uint64(len(e.launches)+1)
	req.CodeObject = co
	req.WGFilter = filterFn(k.Filter)
	l := &launchRec{idx: len(e.launches), spec: k, req: req, pkt: pkt, expected: k.expectedWGs(),
		mapped: map[[3]int]string{}, cpRecvReqSeq: -1, firstMapSeq: -1, rspSeq: -1}
	e.launches = append(e.launches, l)
	return l
}

func build(s scenario) *env {
	e := &env{s: s, engine: sim.NewSerialEngine(), freq: 1 * sim.GHz}
	e.cp = cp.MakeBuilder().WithEngine(e.engine).WithFreq(e.freq).Build("CP")
	if s.Alg != "builder-default" {
		cp.VerifRebuildDispatchers(e.cp, s.Alg, s.NDisp)
	}
	e.drv = simkit.NewRequester("Drv", e.engine, e.freq, s.DrvInBuf, 4)
	if s.DrvStall > 0 {
		st := vlib.NewPRNG(s.Seed).Fork("drv")
		e.drv.StallFn = func(int64) bool { return st.Intn(100) < s.DrvStall }
	}
	e.cp.Driver = e.drv.Out
	e.log = simkit.NewLog(e.engine, e.freq)
	e.rspTo = map[int][]string{}
	e.log.OnEvent = func(ev simkit.Event) {
		// the receiver may legitimately consume the id list in place
		if m, ok := ev.Msg.(*protocol.WGCompletionMsg); ok {
			e.rspTo[ev.Seq] = append([]string(nil), m.RspTo...)
		}
	}
	e.log.Attach(e.cp.ToCUs, "CP.ToCUs")
	e.log.Attach(e.cp.ToDriver, "CP.ToDriver")
	ports := []sim.Port{e.cp.ToCUs}
	base := vlib.NewPRNG(s.Seed)
	for i := 0; i < s.NCU; i++ {
		cu := newFakeCU(e.engine, e.freq, i, s.CU, base.ForkN("cu", i))
		e.cus = append(e.cus, cu)
		e.cp.RegisterCU(cu)
		e.log.Attach(cu.port, cuName(i))
		ports = append(ports, cu.port)
	}
	simkit.Connect(e.engine, e.freq, "ConnCU", ports...)
	simkit.Connect(e.engine, e.freq, "ConnDrv", e.cp.ToDriver, e.drv.Out)
	return e
}

func (e *env) submit(k kernelSpec, notBefore int64) *launchRec {
	l := mkLaunch(e, k)
	e.drv.Plan = append(e.drv.Plan, simkit.Planned{NotBefore: notBefore, Msg: l.req})
	return l
}

func (e *env) answered() map[string]int {
	got := map[string]int{}
	for _, g := range e.drv.Got {
		if r, ok := g.Msg.(*protocol.LaunchKernelRsp); ok {
			got[r.RspTo]++
		}
	}
	return got
}

func (e *env) unanswered() []int {
	got := e.answered()
	var out []int
	for _, l := range e.launches {
		if got[l.req.ID] == 0 {
			out = append(out, l.idx)
		}
	}
	return out
}

func (e *env) nowCycle() int64 { return simkit.Cycle(e.engine.CurrentTime(), e.freq) }

func sanitize(s string) string {
	s = strings.Map(func(r rune) rune {
		if r >= '0' && r <= '9' {
			return -1
		}
		if r == '|' || r == '\n' {
			return ' '
		}
		return r
	}, s)
	if len(s) > 80 {
		s = s[:80]
	}
	return strings.TrimSpace(s)
}

type scenarioRun struct {
	rec  vlib.Recorder
	s    scenario
	e    *env
	seen map[string]bool
	real *realScenario // set by the real-CU layer: the witness carries this scenario instead of s
}

func (r *scenarioRun) viol(key, what string, extra map[string]any) {
	if r.seen[key] {
		return
	}
	r.seen[key] = true
	w := map[string]any{"scenario": r.s}
	if r.real != nil {
		w = map[string]any{"real_scenario": *r.real}
	}
	for k, v := range extra {
		w[k] = v
	}
	r.rec.Violation(key, "["+r.s.Name+"] "+what, w)
}

// phase runs the engine until it is idle; false if it crashed / livelocked.
func (r *scenarioRun) phase(name string, limit int64) bool {
	e := r.e
	n, livelock, pv := simkit.RunBounded(e.engine, limit)
	r.rec.Count("engine_events", n)
	if pv != nil {
		e.dead = true
		msg := fmt.Sprint(pv)
		key := "C09|crash|" + sanitize(msg)
		if strings.Contains(msg, "finished WGs from more than one dispatcher") {
			key = "C09|crash|mixed-completion-message-from-emulation-cu"
		}
		r.viol(key, fmt.Sprintf("command processor panicked in phase %s at cycle %d: %v", name, e.nowCycle(), pv),
			map[string]any{"phase": name, "panic": msg})
		return false
	}
	if livelock {
		e.dead = true
		r.viol("C09|no-termination|"+r.s.Alg, fmt.Sprintf("event bound (%d) exceeded in phase %s: launches %v unanswered", limit, name, e.unanswered()),
			map[string]any{"phase": name})
		return false
	}
	return true
}

func (r *scenarioRun) harnessIdle() bool {
	for _, cu := range r.e.cus {
		if !cu.idle() {
			return false
		}
	}
	return r.e.drv.Done()
}

func eventLimit(s scenario, ls []kernelSpec) int64 {
	var wgs int64
	for _, k := range ls {
		d := k.numWGDims()
		wgs += int64(d[0] * d[1] * d[2])
	}
	return 10_000_000 + 1_500_000*int64(len(ls)) + 3000*wgs
}

func runScenario(rec vlib.Recorder, s scenario) {
	rec.Eval()
	r := &scenarioRun{rec: rec, s: s, seen: map[string]bool{}}
	for i, k := range s.Launches {
		if !fits(s.CU, k) {
			rec.Inconclusive(fmt.Sprintf("scenario %s: launch %d does not fit an empty CU (harness error)", s.Name, i))
			return
		}
	}
	e := build(s)
	r.e = e
	for _, k := range s.Launches {
		e.submit(k, k.At)
	}
	e.drv.TickLater()

	ok := r.phase("main", eventLimit(s, s.Launches))
	if ok {
		if un := e.unanswered(); len(un) > 0 {
			if !r.harnessIdle() {
				rec.Inconclusive(fmt.Sprintf("scenario %s: engine idle but the harness still owes messages", s.Name))
			} else {
				r.viol("C09|deadlock|"+s.Alg, fmt.Sprintf("engine idle at cycle %d with launches %v unanswered (driver and CUs owe nothing)", e.nowCycle(), un),
					map[string]any{"unanswered": un, "cu_received": cuCounts(e, false), "cu_completed": cuCounts(e, true)})
			}
			ok = false
		}
	}
	if ok && !s.NoProbe {
		r.probes()
	}
	r.check()
}

func cuCounts(e *env, completed bool) []int {
	out := make([]int, len(e.cus))
	for i, cu := range e.cus {
		if completed {
			out[i] = cu.completed
		} else {
			out[i] = cu.received
		}
	}
	return out
}

// ---------------------------------------------------------------------------
// "all returned": after quiescence, fill every CU again, one resource at a time.

type probe struct {
	name   string
	k      kernelSpec
	perCU  int
	reason string
}

func smallestDivisorWithQuotientAtMost(n, maxQ int) int {
	for u := 1; u <= n; u++ {
		if n%u == 0 && n/u <= maxQ {
			return u
		}
	}
	return n
}

func makeProbes(s scenario) []probe {
	c := s.CU
	var out []probe
	one := func(name string, perCU, sgpr, vgpr, lds int) {
		out = append(out, probe{name: name, perCU: perCU, k: kernelSpec{WG: [3]int{64, 1, 1}, Grid: [3]int{64 * perCU * s.NCU, 1, 1},
			SGPR: sgpr, VGPR: vgpr, LDS: lds, Probe: name}})
	}
	slots := c.totalSlots()
	if c.Slots >= 0 && slots <= 256 {
		one("slots", slots, 0, 0, 0)
	}
	if c.LDS > 0 {
		one("lds", 1, 0, 0, c.LDS)
	}
	if c.SGPRs > 0 {
		u := smallestDivisorWithQuotientAtMost(c.sUnits(), min(slots, 64))
		one("sgpr", c.sUnits()/u, 16*u, 0, 0)
	}
	if c.VGPRs > 0 {
		perSIMD := c.Slots
		if perSIMD < 0 || perSIMD > 64 {
			perSIMD = 64
		}
		u := smallestDivisorWithQuotientAtMost(c.vUnits(), perSIMD)
		one("vgpr", c.NumSIMD*(c.vUnits()/u), 0, 4*u, 0)
	}
	return out
}

func (r *scenarioRun) probes() {
	e := r.e
	for _, p := range makeProbes(r.s) {
		for _, cu := range e.cus {
			cu.hold = true
		}
		l := e.submit(p.k, e.nowCycle()+1)
		e.drv.TickLater()
		if !r.phase("probe-"+p.name+"-fill", eventLimit(r.s, []kernelSpec{p.k})) {
			return
		}
		// engine idle, nothing completes: every CU must hold exactly perCU groups
		var short, over []int
		held := make([]int, len(e.cus))
		for i, cu := range e.cus {
			held[i] = len(cu.running)
			if held[i] < p.perCU {
				short = append(short, i)
			}
			if held[i] > p.perCU {
				over = append(over, i)
			}
		}
		r.rec.Count("probe_fills", 1)
		r.rec.Count("probe_cu_checked", int64(len(e.cus)))
		wit := map[string]any{"probe": p.k, "expected_per_cu": p.perCU, "held_per_cu": held}
		if len(over) > 0 {
			r.viol("C09|probe-overfill|"+p.name,
				fmt.Sprintf("%s probe (launch %d): %d one-wavefront groups fill a CU exactly, but CUs %v hold more (held per CU: %v)", p.name, l.idx, p.perCU, over, held), wit)
		} else if len(short) > 0 {
			r.viol("C09|not-returned|"+p.name,
				fmt.Sprintf("after all launches were answered, a %s probe (launch %d, %d one-wavefront groups per CU fill it exactly) could place only %v groups on the CUs; CUs %v have lost capacity",
					p.name, l.idx, p.perCU, held, short), wit)
		}
		for _, cu := range e.cus {
			cu.hold = false
			cu.TickLater()
		}
		if !r.phase("probe-"+p.name+"-drain", eventLimit(r.s, []kernelSpec{p.k})) {
			return
		}
		if un := e.unanswered(); len(un) > 0 {
			r.viol("C09|deadlock|probe|"+r.s.Alg, fmt.Sprintf("engine idle with probe launch %v unanswered", un), map[string]any{"probe": p.k})
			return
		}
	}
}

// ---------------------------------------------------------------------------
// offline checker over the recorded port trace

func overlap(a0, a1, b0, b1 int) bool { return a0 < b1 && b0 < a1 && a0 < a1 && b0 < b1 }

func (r *scenarioRun) check() {
	e, s, rec := r.e, r.s, r.rec
	c := s.CU
	byPkt := map[*kernels.HsaKernelDispatchPacket]*launchRec{}
	byID := map[string]*launchRec{}
	for _, l := range e.launches {
		byPkt[l.pkt] = l
		byID[l.req.ID] = l
	}
	cuIdx := map[sim.RemotePort]int{}
	for i, cu := range e.cus {
		cuIdx[cu.port.AsRemote()] = i
	}
	maps := map[string]*mapRec{}
	resident := make([]map[string]*mapRec, len(e.cus))   // CP-side: map sent .. CU sent completion
	residentCU := make([]map[string]bool, len(e.cus))    // CU-side: delivered .. CU sent completion
	slotUse := make([][]int, len(e.cus))
	regUse := make([][]int, len(e.cus)) // VGPRs per lane in use per SIMD (demand rounded up to 4)
	simdFull := map[[2]int]bool{}       // (cu, simd) that could not have taken one more wavefront of the kernel just placed
	var bigVGPRGroups int64
	for i := range resident {
		resident[i] = map[string]*mapRec{}
		residentCU[i] = map[string]bool{}
		slotUse[i] = make([]int, c.NumSIMD)
		regUse[i] = make([]int, c.NumSIMD)
	}
	round4 := func(n int) int { return (n + 3) / 4 * 4 }
	peak := 0
	var nMaps, nCompMsgs, nBatched, nRsp int64
	sCap, vCap, lCap := -1, -1, -1 // bytes; bytes per lane; bytes
	if c.SGPRs >= 0 {
		sCap = c.SGPRs * 4
	}
	if c.VGPRs >= 0 {
		vCap = c.VGPRs / 64 * 4
	}
	if c.LDS >= 0 {
		lCap = c.LDS
	}
	slotCap := c.Slots
	if slotCap < 0 {
		slotCap = math.MaxInt32
	}

	events := e.log.Snapshot()
	for _, ev := range events {
		switch msg := ev.Msg.(type) {
		case *protocol.LaunchKernelReq:
			if ev.Port == "CP.ToDriver" && ev.Kind == simkit.KRecv {
				if l := byID[msg.ID]; l != nil {
					l.cpRecvReqSeq = ev.Seq
				}
			}

		case *protocol.MapWGReq:
			if ev.Port == "CP.ToCUs" && ev.Kind == simkit.KSend {
				nMaps++
				l := byPkt[msg.WorkGroup.Packet]
				if l == nil || l.cpRecvReqSeq < 0 {
					r.viol("C09|map-for-unknown-launch", fmt.Sprintf("MapWGReq at cycle %d belongs to no launch the CP has received", ev.Cycle), nil)
					continue
				}
				ci, okCU := cuIdx[msg.Dst]
				if !okCU {
					r.viol("C09|map-to-unknown-cu", fmt.Sprintf("MapWGReq sent to %s which is not a registered CU", msg.Dst), nil)
					continue
				}
				wg := [3]int{msg.WorkGroup.IDX, msg.WorkGroup.IDY, msg.WorkGroup.IDZ}
				m := &mapRec{id: msg.ID, launch: l, cu: ci, wg: wg, req: msg, sendSeq: ev.Seq, sendCycle: ev.Cycle, cuRecvSeq: -1, doneSeq: -1, cpRecvSeq: -1}
				maps[msg.ID] = m
				if l.rspSeq >= 0 {
					r.viol("C09|map-after-response|"+s.Alg, fmt.Sprintf("launch %d: work-group %v mapped at cycle %d after the launch was answered", l.idx, wg, ev.Cycle), map[string]any{"map": m.describe()})
				}
				if !l.expected[wg] {
					key := "C09|wg-outside-grid|" + s.Alg
					if l.spec.Filter != "" {
						d := l.spec.numWGDims()
						if wg[0] < d[0] && wg[1] < d[1] && wg[2] < d[2] && wg[0] >= 0 && wg[1] >= 0 && wg[2] >= 0 {
							key = "C09|filtered-out-wg-mapped|" + s.Alg
						}
					}
					r.viol(key, fmt.Sprintf("launch %d: work-group %v is not one of the launch's work-groups", l.idx, wg), map[string]any{"map": m.describe(), "launch": l.spec})
				}
				if prev, dup := l.mapped[wg]; dup {
					r.viol("C09|wg-mapped-twice|"+s.Alg, fmt.Sprintf("launch %d: work-group %v mapped twice (cycles %d and %d)", l.idx, wg, maps[prev].sendCycle, ev.Cycle),
						map[string]any{"first": maps[prev].describe(), "second": m.describe()})
				}
				l.mapped[wg] = msg.ID
				if l.firstMapSeq < 0 {
					l.firstMapSeq, l.firstMapCycle = ev.Seq, ev.Cycle
				} else if ev.Cycle-l.lastMapCycle >= 2 {
					l.refused = true
				}
				l.lastMapCycle = ev.Cycle
				if msg.PID != l.req.PID {
					r.viol("C09|wrong-pid", fmt.Sprintf("launch %d: MapWGReq carries PID %d, launch has %d", l.idx, msg.PID, l.req.PID), nil)
				}
				r.checkPlacement(m, sCap, vCap, lCap)
				// against every group resident on that CU
				for _, o := range resident[ci] {
					r.checkDisjoint(o, m)
				}
				resident[ci][msg.ID] = m
				if l.spec.VGPR > 64 {
					bigVGPRGroups++
				}
				for _, loc := range msg.Wavefronts {
					if loc.SIMDID >= 0 && loc.SIMDID < c.NumSIMD {
						regUse[ci][loc.SIMDID] += round4(l.spec.VGPR)
						if slotUse[ci][loc.SIMDID]+1 >= slotCap || (c.VGPRs >= 0 && regUse[ci][loc.SIMDID]+round4(l.spec.VGPR) > c.VGPRs/64) {
							simdFull[[2]int{ci, loc.SIMDID}] = true
						}
						slotUse[ci][loc.SIMDID]++
						if slotUse[ci][loc.SIMDID] > slotCap {
							r.viol("C09|capacity|wavefront-slots", fmt.Sprintf("CU%d SIMD%d: %d wavefronts resident at cycle %d, pool holds %d", ci, loc.SIMDID, slotUse[ci][loc.SIMDID], ev.Cycle, slotCap),
								map[string]any{"map": m.describe()})
						}
					}
				}
			}
			if ev.Kind == simkit.KRecv && strings.HasPrefix(ev.Port, "CU") {
				if m := maps[msg.ID]; m != nil {
					m.cuRecvSeq = ev.Seq
					residentCU[m.cu][msg.ID] = true
					if n := len(residentCU[m.cu]); n > peak {
						peak = n
					}
				}
			}

		case *protocol.WGCompletionMsg:
			if ev.Kind == simkit.KSend && strings.HasPrefix(ev.Port, "CU") {
				nCompMsgs++
				if len(e.rspTo[ev.Seq]) > 1 {
					nBatched++
				}
				for _, id := range e.rspTo[ev.Seq] {
					m := maps[id]
					if m == nil || m.doneSeq >= 0 {
						rec.Inconclusive("harness error: fake CU completed an unknown or already completed MapWGReq")
						continue
					}
					m.doneSeq, m.doneCycle = ev.Seq, ev.Cycle
					delete(resident[m.cu], id)
					delete(residentCU[m.cu], id)
					for _, loc := range m.req.Wavefronts {
						if loc.SIMDID >= 0 && loc.SIMDID < c.NumSIMD {
							slotUse[m.cu][loc.SIMDID]--
							regUse[m.cu][loc.SIMDID] -= round4(m.launch.spec.VGPR)
						}
					}
				}
			}
			if ev.Kind == simkit.KRecv && ev.Port == "CP.ToCUs" {
				for _, id := range e.rspTo[ev.Seq] {
					if m := maps[id]; m != nil {
						m.cpRecvSeq = ev.Seq
					}
				}
			}

		case *protocol.LaunchKernelRsp:
			if ev.Port == "CP.ToDriver" && ev.Kind == simkit.KSend {
				nRsp++
				l := byID[msg.RspTo]
				if l == nil || l.cpRecvReqSeq < 0 {
					r.viol("C09|response|wrong-rspto", fmt.Sprintf("LaunchKernelRsp at cycle %d answers %q, which is no launch request the CP has received", ev.Cycle, msg.RspTo), nil)
					continue
				}
				l.rspCount++
				if l.rspCount > 1 {
					r.viol("C09|response|twice", fmt.Sprintf("launch %d answered %d times", l.idx, l.rspCount), nil)
					continue
				}
				l.rspSeq = ev.Seq
				if msg.Dst != e.drv.Out.AsRemote() || msg.Src != e.cp.ToDriver.AsRemote() {
					r.viol("C09|response|wrong-endpoints", fmt.Sprintf("launch %d: response goes %s -> %s", l.idx, msg.Src, msg.Dst), nil)
				}
				// every work-group mapped, and its completion delivered to the CP, before this send
				var never, early [][3]int
				for wg := range l.expected {
					id, okm := l.mapped[wg]
					if !okm {
						never = append(never, wg)
						continue
					}
					if m := maps[id]; m.cpRecvSeq < 0 || m.cpRecvSeq > ev.Seq {
						early = append(early, wg)
					}
				}
				if len(never) > 0 {
					r.viol("C09|response|before-all-wgs-mapped|"+s.Alg, fmt.Sprintf("launch %d answered at cycle %d while %d of %d work-groups were never mapped (e.g. %v)", l.idx, ev.Cycle, len(never), len(l.expected), never[0]),
						map[string]any{"launch": l.spec, "n_never": len(never)})
				}
				if len(early) > 0 {
					r.viol("C09|response|before-last-completion", fmt.Sprintf("launch %d answered at cycle %d while the completion of %d work-groups (e.g. %v) had not reached the CP", l.idx, ev.Cycle, len(early), early[0]),
						map[string]any{"launch": l.spec, "n_incomplete": len(early)})
				}
			}
		}
	}

	// end of run
	got := e.answered()
	overlapping := false
	anyRefused := false
	var totalWGs int64
	for _, l := range e.launches {
		if !e.dead {
			if l.rspCount == 1 && got[l.req.ID] != 1 {
				r.viol("C09|response|not-delivered", fmt.Sprintf("launch %d: driver received %d responses", l.idx, got[l.req.ID]), nil)
			}
			if l.rspCount == 1 && len(l.mapped) < len(l.expected) {
				r.viol("C09|wg-never-mapped|"+s.Alg, fmt.Sprintf("launch %d: %d of %d work-groups mapped", l.idx, len(l.mapped), len(l.expected)), map[string]any{"launch": l.spec})
			}
		}
		totalWGs += int64(len(l.mapped))
		if l.refused && l.spec.Probe == "" {
			anyRefused = true
		}
		if l.spec.Probe != "" {
			continue
		}
		for _, o := range e.launches {
			if o.idx <= l.idx || o.spec.Probe != "" || l.firstMapSeq < 0 || o.firstMapSeq < 0 || l.rspSeq < 0 || o.rspSeq < 0 {
				continue
			}
			if l.firstMapSeq < o.rspSeq && o.firstMapSeq < l.rspSeq {
				overlapping = true
			}
		}
	}

	rec.Count("launches", int64(len(e.launches)))
	rec.Count("launch_responses", nRsp)
	rec.Count("wgs_mapped", nMaps)
	rec.Count("completion_msgs", nCompMsgs)
	rec.Count("batched_completion_msgs", nBatched)
	_ = totalWGs
	for {
		old := atomic.LoadInt64(&peakResidentsMax)
		if int64(peak) <= old || atomic.CompareAndSwapInt64(&peakResidentsMax, old, int64(peak)) {
			break
		}
	}
	pb := peak
	if pb > 40 {
		pb = 40 + (pb-40)/100*100
	}
	rec.Distinct("peak_residents_per_cu", itoa(pb))
	if anyRefused {
		rec.Count("scenarios_with_refused_reservation", 1)
	}
	if overlapping {
		rec.Count("scenarios_with_overlapping_launches", 1)
	}
	if len(s.Launches) > s.NDisp {
		rec.Count("scenarios_more_launches_than_dispatchers", 1)
	}
	for _, l := range e.launches {
		if l.spec.Filter != "" {
			rec.Count("filtered_launches", 1)
		}
	}
	if c.Preset == "r9nano" || c.Preset == "mi300a" { // the shipped CU shapes
		rec.Count("shape_"+c.Preset+"_scenarios", 1)
		rec.Count("shape_"+c.Preset+"_wgs_mapped", nMaps)
		rec.Count("shape_"+c.Preset+"_groups_placed_with_more_than_64_vgprs", bigVGPRGroups)
		rec.Count("shape_"+c.Preset+"_simds_filled_to_refusal", int64(len(simdFull)))
		for _, l := range e.launches {
			if l.spec.Probe == "" && len(l.mapped) > 0 {
				rec.Distinct("shape_"+c.Preset+"_vgpr_demand", itoa(l.spec.VGPR))
				rec.Distinct("shape_"+c.Preset+"_demand", fmt.Sprintf("v%d/s%d/l%d/w%d", l.spec.VGPR, l.spec.SGPR, l.spec.LDS, l.spec.wavefrontsPerFullWG()))
			}
		}
	}
	rec.Distinct("alg_cu_disp", fmt.Sprintf("%s/%d/%d", s.Alg, s.NCU, s.NDisp))
	rec.Distinct("cu_preset_batch", c.Preset+"/"+c.Batch)
	if overlapping && anyRefused && !e.dead {
		rec.Nontrivial(s.Name)
	}
	rec.Sample(map[string]any{"name": s.Name, "alg": s.Alg, "num_cu": s.NCU, "num_dispatchers": s.NDisp, "cu": c,
		"launches": len(s.Launches), "first_launch": s.Launches[0], "wgs_mapped": nMaps, "peak_residents_per_cu": peak,
		"refused": anyRefused, "overlapping": overlapping})
}

func (r *scenarioRun) checkPlacement(m *mapRec, sCap, vCap, lCap int) {
	c := r.s.CU
	k := m.launch.spec
	wg := m.req.WorkGroup
	if len(m.req.Wavefronts) != len(wg.Wavefronts) {
		r.viol("C09|placement|wavefront-count", fmt.Sprintf("launch %d wg %v: %d placements for %d wavefronts", m.launch.idx, m.wg, len(m.req.Wavefronts), len(wg.Wavefronts)), map[string]any{"map": m.describe()})
		return
	}
	seen := map[*kernels.Wavefront]bool{}
	for i, loc := range m.req.Wavefronts {
		if loc.Wavefront == nil || loc.Wavefront.WG != wg || seen[loc.Wavefront] {
			r.viol("C09|placement|wavefront-identity", fmt.Sprintf("launch %d wg %v: placement %d names a wavefront that is missing, foreign or repeated", m.launch.idx, m.wg, i), map[string]any{"map": m.describe()})
		}
		seen[loc.Wavefront] = true
		if loc.SIMDID < 0 || loc.SIMDID >= c.NumSIMD {
			r.viol("C09|placement|simd-out-of-range", fmt.Sprintf("launch %d wg %v: SIMD %d of %d", m.launch.idx, m.wg, loc.SIMDID, c.NumSIMD), map[string]any{"map": m.describe()})
		}
		if loc.LDSOffset != m.req.Wavefronts[0].LDSOffset {
			r.viol("C09|placement|lds-offset-differs-within-group", fmt.Sprintf("launch %d wg %v: wavefronts of one group got different LDS offsets", m.launch.idx, m.wg), map[string]any{"map": m.describe()})
		}
		if loc.SGPROffset < 0 || loc.VGPROffset < 0 || loc.LDSOffset < 0 {
			r.viol("C09|placement|negative-offset", fmt.Sprintf("launch %d wg %v: negative offset", m.launch.idx, m.wg), map[string]any{"map": m.describe()})
		}
		if sCap >= 0 && k.SGPR > 0 && loc.SGPROffset+4*k.SGPR > sCap {
			r.viol("C09|capacity|sgpr", fmt.Sprintf("launch %d wg %v on CU%d: SGPR bytes [%d,%d) exceed the file of %d bytes", m.launch.idx, m.wg, m.cu, loc.SGPROffset, loc.SGPROffset+4*k.SGPR, sCap), map[string]any{"map": m.describe()})
		}
		if vCap >= 0 && k.VGPR > 0 && loc.VGPROffset+4*k.VGPR > vCap {
			// judged against the register file the CU advertises (registers per SIMD / 64 lanes * 4 bytes), not against anything the pool derives from it
			r.viol("C09|capacity|vgpr-range-beyond-register-file|"+c.Preset, fmt.Sprintf("launch %d wg %v on CU%d SIMD%d (%s shape: %d VGPRs per lane): per-lane VGPR bytes [%d,%d) lie beyond the register file of %d bytes per lane",
				m.launch.idx, m.wg, m.cu, loc.SIMDID, c.Preset, c.VGPRs/64, loc.VGPROffset, loc.VGPROffset+4*k.VGPR, vCap), map[string]any{"map": m.describe()})
		}
		if lCap >= 0 && k.LDS > 0 && loc.LDSOffset+k.LDS > lCap {
			r.viol("C09|capacity|lds", fmt.Sprintf("launch %d wg %v on CU%d: LDS bytes [%d,%d) exceed %d", m.launch.idx, m.wg, m.cu, loc.LDSOffset, loc.LDSOffset+k.LDS, lCap), map[string]any{"map": m.describe()})
		}
		// wavefronts of the same group against each other
		for j := 0; j < i; j++ {
			o := m.req.Wavefronts[j]
			if overlap(loc.SGPROffset, loc.SGPROffset+4*k.SGPR, o.SGPROffset, o.SGPROffset+4*k.SGPR) {
				r.viol("C09|overlap|sgpr|same-group", fmt.Sprintf("launch %d wg %v on CU%d: two wavefronts of the group share SGPR bytes", m.launch.idx, m.wg, m.cu), map[string]any{"map": m.describe()})
			}
			if loc.SIMDID == o.SIMDID && overlap(loc.VGPROffset, loc.VGPROffset+4*k.VGPR, o.VGPROffset, o.VGPROffset+4*k.VGPR) {
				r.viol("C09|overlap|vgpr|same-group", fmt.Sprintf("launch %d wg %v on CU%d SIMD%d: two wavefronts of the group share VGPR bytes", m.launch.idx, m.wg, m.cu, loc.SIMDID), map[string]any{"map": m.describe()})
			}
		}
	}
}

// checkDisjoint: a is resident (mapped, completion not yet sent by the CU), b is being mapped.
func (r *scenarioRun) checkDisjoint(a, b *mapRec) {
	ka, kb := a.launch.spec, b.launch.spec
	wit := func() map[string]any { return map[string]any{"resident": a.describe(), "new": b.describe()} }
	if len(a.req.Wavefronts) > 0 && len(b.req.Wavefronts) > 0 {
		la, lb := a.req.Wavefronts[0].LDSOffset, b.req.Wavefronts[0].LDSOffset
		if overlap(la, la+ka.LDS, lb, lb+kb.LDS) {
			r.viol("C09|overlap|lds", fmt.Sprintf("CU%d: LDS [%d,%d) of launch %d wg %v (mapped cycle %d) overlaps [%d,%d) of resident launch %d wg %v",
				b.cu, lb, lb+kb.LDS, b.launch.idx, b.wg, b.sendCycle, la, la+ka.LDS, a.launch.idx, a.wg), wit())
		}
	}
	for _, x := range a.req.Wavefronts {
		for _, y := range b.req.Wavefronts {
			if overlap(x.SGPROffset, x.SGPROffset+4*ka.SGPR, y.SGPROffset, y.SGPROffset+4*kb.SGPR) {
				r.viol("C09|overlap|sgpr", fmt.Sprintf("CU%d: SGPR bytes [%d,%d) of launch %d wg %v (mapped cycle %d) overlap [%d,%d) of resident launch %d wg %v",
					b.cu, y.SGPROffset, y.SGPROffset+4*kb.SGPR, b.launch.idx, b.wg, b.sendCycle, x.SGPROffset, x.SGPROffset+4*ka.SGPR, a.launch.idx, a.wg), wit())
			}
			if x.SIMDID == y.SIMDID && overlap(x.VGPROffset, x.VGPROffset+4*ka.VGPR, y.VGPROffset, y.VGPROffset+4*kb.VGPR) {
				r.viol("C09|overlap|vgpr", fmt.Sprintf("CU%d SIMD%d: per-lane VGPR bytes [%d,%d) of launch %d wg %v (mapped cycle %d) overlap [%d,%d) of resident launch %d wg %v",
					b.cu, y.SIMDID, y.VGPROffset, y.VGPROffset+4*kb.VGPR, b.launch.idx, b.wg, b.sendCycle, x.VGPROffset, x.VGPROffset+4*ka.VGPR, a.launch.idx, a.wg), wit())
			}
		}
	}
}
