package main

// Layer "real CU": the real command processor against *real* compute units
// (amd/emu.ComputeUnit built as the emulation GPU builder builds them, or the
// timing cu.ComputeUnit from cu.MakeBuilder with a fake instruction memory),
// joined by a connection the harness controls (per-direction stall windows,
// per-message gaps, upstream hold). The CU side of the dispatch protocol -
// completion batching, the retry after a failed Send - is the code under test
// here; the fake-CU layer (run.go) only models it.

import (
	"encoding/binary"
	"fmt"

	"github.com/sarchlab/akita/v4/mem/mem"
	"github.com/sarchlab/akita/v4/mem/vm"
	"github.com/sarchlab/akita/v4/sim"
	"github.com/sarchlab/akita/v4/tracing"
	"github.com/sarchlab/mgpusim/v4/amd/emu"
	"github.com/sarchlab/mgpusim/v4/amd/insts"
	"github.com/sarchlab/mgpusim/v4/amd/kernels"
	"github.com/sarchlab/mgpusim/v4/amd/protocol"
	"github.com/sarchlab/mgpusim/v4/amd/timing/cp"
	"github.com/sarchlab/mgpusim/v4/amd/timing/cu"

	"verifharness/vlib"
	"verifharness/vlib/simkit"
)

// ---------------------------------------------------------------------------
// scenario

type window struct {
	From  int64 `json:"from_cycle"`
	Until int64 `json:"until_cycle"` // exclusive
}

// linkSpec describes the connection between the command processor and the
// compute units. A message stays in its sender's outgoing port buffer while
// the link does not serve that port, so stalls are real back-pressure.
type linkSpec struct {
	Up         [][]window `json:"up_stall"`   // per CU: CU->CP direction not served in these windows
	Down       []window   `json:"down_stall"` // CP->CU direction not served in these windows
	UpGapMax   int64      `json:"up_gap_max"` // after a message was taken from a CU port: 0..max cycles before the next one
	DownGapMax int64      `json:"down_gap_max"`
}

type realLaunch struct {
	kernelSpec
	Prog string `json:"prog"`
}

type realScenario struct {
	Name     string       `json:"name"`
	Kind     string       `json:"kind"` // emu | timing
	Seed     uint64       `json:"behaviour_seed"`
	Alg      string       `json:"alg"`
	NDisp    int          `json:"num_dispatchers"`
	NCU      int          `json:"num_cu"`
	Adv      cuSpec       `json:"advertised"` // preset "emu" / "r9nano": the real CU is registered as it is; otherwise an adapter advertises these numbers
	Link     linkSpec     `json:"link"`
	InstLat  int          `json:"inst_mem_latency,omitempty"`
	Launches []realLaunch `json:"launches"`
	NoProbe  bool         `json:"no_probe,omitempty"`
}

func (s realScenario) layer() string { return "real-" + s.Kind + "-cu" }

// asScenario gives the parts of the fake-layer scenario the shared placement /
// overlap rules and the probe construction look at.
func (s realScenario) asScenario() scenario {
	return scenario{Name: s.Name, Seed: s.Seed, Alg: s.Alg, NDisp: s.NDisp, NCU: s.NCU, CU: s.Adv}
}

// ---------------------------------------------------------------------------
// programs (GCN3 machine code)

const codeBase = 0x1000
const codeStride = 0x400

var progNames = []string{"endpgm", "nops", "alu", "barrier", "longnops"}

func progWords(name string) []uint32 {
	const (
		endpgm  = 0xBF810000
		nop     = 0xBF800000
		barrier = 0xBF8A0000
		smov    = 0xBE800080 // s_mov_b32 s0, 0
		vmov    = 0x7E020300 // v_mov_b32 v1, v0
		vadd    = 0x32020301 // v_add_u32 v1, vcc, v1, v1
	)
	switch name {
	case "endpgm":
		return []uint32{endpgm}
	case "nops":
		return []uint32{nop, nop, nop, nop, nop, nop, endpgm}
	case "alu":
		return []uint32{smov, vmov, vadd, nop, vadd, endpgm}
	case "barrier":
		return []uint32{nop, barrier, nop, endpgm}
	case "longnops":
		w := make([]uint32, 0, 41)
		for i := 0; i < 40; i++ {
			w = append(w, nop)
		}
		return append(w, endpgm)
	}
	panic("unknown program " + name)
}

func progAddr(name string) uint64 {
	for i, n := range progNames {
		if n == name {
			return codeBase + codeStride*uint64(i)
		}
	}
	panic("unknown program " + name)
}

const imageSize = 0x4000

func codeImage() []byte {
	img := make([]byte, imageSize)
	for _, n := range progNames {
		a := progAddr(n)
		for i, w := range progWords(n) {
			binary.LittleEndian.PutUint32(img[a+uint64(4*i):], w)
		}
	}
	return img
}

// ---------------------------------------------------------------------------
// controlled link

type ctlLink struct {
	*sim.TickingComponent
	engine sim.Engine
	freq   sim.Freq
	spec   linkSpec
	rng    *vlib.PRNG

	ports  []sim.Port
	byName map[sim.RemotePort]sim.Port
	cuIdx  map[sim.RemotePort]int // upstream ports
	nextOK map[sim.Port]int64

	hold  bool // probe phases: nothing is taken from the CUs
	clean bool // probe phases: windows and gaps of the spec are ignored

	wakes      map[int64]bool
	windowHit  map[[2]int]bool // (cu, window index) in which a CU message was seen waiting
	heldCycles int64           // link ticks in which a CU message was kept waiting
	delivered  int64
}

func newCtlLink(engine sim.Engine, freq sim.Freq, spec linkSpec, rng *vlib.PRNG) *ctlLink {
	l := &ctlLink{engine: engine, freq: freq, spec: spec, rng: rng, byName: map[sim.RemotePort]sim.Port{},
		cuIdx: map[sim.RemotePort]int{}, nextOK: map[sim.Port]int64{}, wakes: map[int64]bool{}, windowHit: map[[2]int]bool{}}
	l.TickingComponent = sim.NewSecondaryTickingComponent("CtlLink", engine, freq, l)
	return l
}

func (l *ctlLink) plug(p sim.Port, cu int) {
	l.ports = append(l.ports, p)
	l.byName[p.AsRemote()] = p
	if cu >= 0 {
		l.cuIdx[p.AsRemote()] = cu
	}
	p.SetConnection(l)
}

// PlugIn implements sim.Connection.
func (l *ctlLink) PlugIn(p sim.Port) { l.plug(p, -1) }

// Unplug implements sim.Connection.
func (l *ctlLink) Unplug(sim.Port) { panic("not supported") }

// NotifyAvailable implements sim.Connection (as the direct connection does).
func (l *ctlLink) NotifyAvailable(p sim.Port) {
	for _, o := range l.ports {
		if o != p {
			o.NotifyAvailable()
		}
	}
	l.TickNow()
}

// NotifySend implements sim.Connection.
func (l *ctlLink) NotifySend() { l.TickNow() }

func (l *ctlLink) now() int64 { return simkit.Cycle(l.engine.CurrentTime(), l.freq) }

func (l *ctlLink) wakeAt(cycle int64) {
	if l.wakes[cycle] {
		return
	}
	l.wakes[cycle] = true
	t := sim.VTimeInSec(float64(cycle) / float64(l.freq))
	l.engine.Schedule(sim.MakeTickEvent(l.TickingComponent, t))
}

// blockedUntil: 0 = may be served now; -1 = blocked with no end (hold);
// otherwise the cycle at which serving may resume.
func (l *ctlLink) blockedUntil(p sim.Port, now int64) int64 {
	ci, up := l.cuIdx[p.AsRemote()]
	if up && l.hold {
		return -1
	}
	if l.clean {
		return 0
	}
	until := int64(0)
	if up {
		if ci < len(l.spec.Up) {
			for wi, w := range l.spec.Up[ci] {
				if now >= w.From && now < w.Until {
					l.windowHit[[2]int{ci, wi}] = true
					if w.Until > until {
						until = w.Until
					}
				}
			}
		}
	} else {
		for _, w := range l.spec.Down {
			if now >= w.From && now < w.Until && w.Until > until {
				until = w.Until
			}
		}
	}
	if n := l.nextOK[p]; n > now && n > until {
		until = n
	}
	return until
}

// Tick implements sim.Ticker.
func (l *ctlLink) Tick() bool {
	progress := false
	now := l.now()
	for _, p := range l.ports {
		_, up := l.cuIdx[p.AsRemote()]
		for {
			head := p.PeekOutgoing()
			if head == nil {
				break
			}
			if b := l.blockedUntil(p, now); b != 0 {
				if up {
					l.heldCycles++
				}
				if b > 0 {
					l.wakeAt(b)
				}
				break
			}
			dst := l.byName[head.Meta().Dst]
			if dst == nil {
				panic(fmt.Sprintf("link: message %T for unknown port %s", head, head.Meta().Dst))
			}
			if dst.Deliver(head) != nil {
				break // NotifyAvailable wakes the link
			}
			p.RetrieveOutgoing()
			l.delivered++
			progress = true
			if l.clean {
				continue
			}
			gap := l.spec.DownGapMax
			if up {
				gap = l.spec.UpGapMax
			}
			if gap > 0 {
				if g := int64(l.rng.Intn(int(gap) + 1)); g > 0 {
					l.nextOK[p] = now + g
				}
			}
		}
	}
	return progress
}

// busy reports whether a plugged port still has a message in its outgoing
// buffer. Windows and gaps end by themselves (the link schedules its own
// wake-up), so with the engine idle and no hold this means that a receiver
// does not take messages any more.
func (l *ctlLink) busy() bool {
	up, down := l.pending()
	return up+down > 0
}

// pending counts the ports with an undelivered head message per direction.
func (l *ctlLink) pending() (up, down int) {
	for _, p := range l.ports {
		if p.PeekOutgoing() == nil {
			continue
		}
		if _, isCU := l.cuIdx[p.AsRemote()]; isCU {
			up++
		} else {
			down++
		}
	}
	return up, down
}

// ---------------------------------------------------------------------------
// port adapter that reports failed Sends (nothing else is observable about a
// Send that returns an error)

type failedSend struct {
	Cycle int64    `json:"cycle"`
	CU    int      `json:"cu"`
	IDs   []string `json:"-"`
	N     int      `json:"num_ids"`
}

type reportingPort struct {
	sim.Port
	onFail func(m sim.Msg)
}

func (p *reportingPort) Send(m sim.Msg) *sim.SendError {
	err := p.Port.Send(m)
	if err != nil && p.onFail != nil {
		p.onFail(m)
	}
	return err
}

// ---------------------------------------------------------------------------
// adapter that advertises other resources than the wrapped CU does

type advCU struct {
	disp, ctrl sim.RemotePort
	spec       cuSpec
}

func (a *advCU) DispatchingPort() sim.RemotePort { return a.disp }
func (a *advCU) ControlPort() sim.RemotePort     { return a.ctrl }
func (a *advCU) WfPoolSizes() []int {
	return (&fakeCU{spec: a.spec}).WfPoolSizes()
}
func (a *advCU) VRegCounts() []int { return (&fakeCU{spec: a.spec}).VRegCounts() }
func (a *advCU) SRegCount() int    { return a.spec.SGPRs }
func (a *advCU) LDSBytes() int     { return a.spec.LDS }

// ---------------------------------------------------------------------------
// driver stub that sleeps between launches

type realDriver struct {
	*simkit.Agent
	Out  sim.Port
	plan []simkit.Planned
	sent []bool
	Got  []simkit.Received
}

func newRealDriver(engine sim.Engine, freq sim.Freq) *realDriver {
	d := &realDriver{}
	d.Agent = simkit.NewAgent("Drv", engine, freq)
	d.Out = d.Agent.NewPort("Out", 16, 16)
	d.Agent.TickFn = d.tick
	return d
}

func (d *realDriver) add(p simkit.Planned) {
	d.plan = append(d.plan, p)
	d.sent = append(d.sent, false)
	at := p.NotBefore
	if now := d.NowCycle(); at <= now {
		at = now + 1
	}
	d.Engine.Schedule(sim.MakeTickEvent(d.TickingComponent, sim.VTimeInSec(float64(at)/float64(d.Freq))))
}

func (d *realDriver) tick(a *simkit.Agent) bool {
	progress := false
	now := a.NowCycle()
	for i, p := range d.plan {
		if d.sent[i] || p.NotBefore > now {
			continue
		}
		if d.Out.Send(p.Msg) != nil {
			break // NotifyPortFree wakes us
		}
		d.sent[i] = true
		progress = true
	}
	for {
		m := d.Out.RetrieveIncoming()
		if m == nil {
			break
		}
		d.Got = append(d.Got, simkit.Received{Cycle: now, Time: a.Engine.CurrentTime(), Msg: m})
		progress = true
	}
	return progress
}

func (d *realDriver) done() bool {
	for _, s := range d.sent {
		if !s {
			return false
		}
	}
	return true
}

// ---------------------------------------------------------------------------
// instruction memory of the timing CU

type instMem struct {
	*simkit.Agent
	port    sim.Port
	img     []byte
	lat     int64
	pending []*pendingRsp
	bad     string
}

type pendingRsp struct {
	rsp   sim.Msg
	ready int64
}

func newInstMem(name string, engine sim.Engine, freq sim.Freq, img []byte, lat int) *instMem {
	m := &instMem{img: img, lat: int64(lat)}
	m.Agent = simkit.NewAgent(name, engine, freq)
	m.port = m.Agent.NewPort("Top", 16, 16)
	m.Agent.TickFn = m.tick
	return m
}

func (m *instMem) tick(a *simkit.Agent) bool {
	progress := false
	now := a.NowCycle()
	for len(m.pending) > 0 && m.pending[0].ready <= now {
		if m.port.Send(m.pending[0].rsp) != nil {
			break
		}
		m.pending = m.pending[1:]
		progress = true
	}
	for {
		q := m.port.RetrieveIncoming()
		if q == nil {
			break
		}
		progress = true
		r, ok := q.(*mem.ReadReq)
		if !ok {
			m.bad = fmt.Sprintf("instruction memory received %T", q)
			continue
		}
		data := make([]byte, r.AccessByteSize)
		if r.Address < uint64(len(m.img)) {
			copy(data, m.img[r.Address:])
		}
		rsp := mem.DataReadyRspBuilder{}.WithSrc(m.port.AsRemote()).WithDst(r.Src).WithRspTo(r.ID).WithData(data).Build()
		m.pending = append(m.pending, &pendingRsp{rsp: rsp, ready: now + m.lat})
	}
	if len(m.pending) > 0 {
		progress = true
	}
	return progress
}

// ---------------------------------------------------------------------------
// observers inside the real CUs (public hooks)

// emuEndHook notes the wavefronts that executed s_endpgm on an emulation CU.
type emuEndHook struct{ e *renv }

func (h *emuEndHook) Func(ctx sim.HookCtx) {
	wf, ok := ctx.Item.(*emu.Wavefront)
	if !ok {
		return
	}
	in, ok := ctx.Detail.(*insts.Inst)
	if !ok {
		return
	}
	h.e.instsRun++
	if in.FormatType == insts.SOPP && in.Opcode == 1 {
		h.e.wfEnded[wf.UID] = h.e.nowCycle()
	}
}

// wfTracer notes the end of the "wavefront" tasks of a timing CU.
type wfTracer struct{ e *renv }

func (t *wfTracer) StartTask(task tracing.Task) {
	if task.Kind == "inst" {
		t.e.instsRun++
	}
}
func (t *wfTracer) StepTask(tracing.Task)          {}
func (t *wfTracer) AddMilestone(tracing.Milestone) {}
func (t *wfTracer) EndTask(task tracing.Task) {
	if _, isWf := t.e.wfUIDs[task.ID]; isWf {
		if _, dup := t.e.wfEnded[task.ID]; !dup {
			t.e.wfEnded[task.ID] = t.e.nowCycle()
		}
	}
}

// ---------------------------------------------------------------------------
// environment

type renv struct {
	s      realScenario
	engine *sim.SerialEngine
	freq   sim.Freq
	cp     *cp.CommandProcessor
	drv    *realDriver
	link   *ctlLink
	log    *simkit.Log

	cuPorts []sim.Port
	emus    []*emu.ComputeUnit
	tcus    []*cu.ComputeUnit
	imems   []*instMem

	launches []*launchRec
	progs    []string
	rspTo    map[int][]string
	failed   []failedSend
	wfEnded  map[string]int64
	wfUIDs   map[string]bool
	instsRun int64
	dead     bool
}

func (e *renv) nowCycle() int64 { return simkit.Cycle(e.engine.CurrentTime(), e.freq) }

func buildReal(s realScenario) *renv {
	e := &renv{s: s, engine: sim.NewSerialEngine(), freq: 1 * sim.GHz, rspTo: map[int][]string{},
		wfEnded: map[string]int64{}, wfUIDs: map[string]bool{}}
	e.cp = cp.MakeBuilder().WithEngine(e.engine).WithFreq(e.freq).Build("CP")
	if s.Alg != "builder-default" {
		cp.VerifRebuildDispatchers(e.cp, s.Alg, s.NDisp)
	}
	e.drv = newRealDriver(e.engine, e.freq)
	e.cp.Driver = e.drv.Out
	e.log = simkit.NewLog(e.engine, e.freq)
	e.log.OnEvent = func(ev simkit.Event) {
		switch m := ev.Msg.(type) {
		case *protocol.WGCompletionMsg:
			// the receiver may legitimately consume the id list in place
			e.rspTo[ev.Seq] = append([]string(nil), m.RspTo...)
		case *protocol.MapWGReq:
			if ev.Kind == simkit.KSend {
				for _, wf := range m.WorkGroup.Wavefronts {
					e.wfUIDs[wf.UID] = true
				}
			}
		}
	}
	e.log.Attach(e.cp.ToCUs, "CP.ToCUs")
	e.log.Attach(e.cp.ToDriver, "CP.ToDriver")
	e.link = newCtlLink(e.engine, e.freq, s.Link, vlib.NewPRNG(s.Seed).Fork("link"))
	e.link.plug(e.cp.ToCUs, -1)

	img := codeImage()
	var storage *mem.Storage
	var pt vm.PageTable
	var dis *insts.Disassembler
	if s.Kind == "emu" {
		storage = mem.NewStorage(imageSize)
		if err := storage.Write(0, img); err != nil {
			panic(err)
		}
		pt = vm.NewPageTable(12)
		for a := uint64(0); a < imageSize; a += 4096 {
			pt.Insert(vm.Page{PID: 1, VAddr: a, PAddr: a, PageSize: 4096, Valid: true})
		}
		dis = insts.NewDisassembler()
	}
	for i := 0; i < s.NCU; i++ {
		i := i
		onFail := func(m sim.Msg) {
			if c, ok := m.(*protocol.WGCompletionMsg); ok {
				e.failed = append(e.failed, failedSend{Cycle: e.nowCycle(), CU: i, IDs: append([]string(nil), c.RspTo...), N: len(c.RspTo)})
			}
		}
		var port sim.Port
		var real cp.CUInterfaceForCP
		var ctrl sim.RemotePort
		switch s.Kind {
		case "emu":
			// as amd/samples/runner/emusystem/emugpu/builder.go buildComputeUnits
			c := emu.BuildComputeUnitWithALU("ECU"+itoa(i), e.engine, dis, pt, 12, storage, nil,
				func(sa emu.StorageAccessor) emu.ALU { return emu.NewALU(sa) }, false)
			port = c.ToDispatcher
			c.ToDispatcher = &reportingPort{Port: port, onFail: onFail}
			c.AcceptHook(&emuEndHook{e: e})
			e.emus = append(e.emus, c)
			real, ctrl = c, c.ControlPort()
		case "timing":
			tb := cu.MakeBuilder().WithEngine(e.engine).WithFreq(e.freq)
			if s.Adv.Preset == "mi300a" {
				// the register file / wavefront pools timingconfig/mi300a gives its compute units; the figures
				// reach the CP through an adapter there as well (the CU's own methods report the r9nano shape)
				tb = tb.WithWfPoolSize(8).WithVGPRCount([]int{32768, 32768, 32768, 32768})
			}
			c := tb.Build("TCU" + itoa(i))
			im := newInstMem("IMem"+itoa(i), e.engine, e.freq, img, max(1, s.InstLat))
			simkit.Connect(e.engine, e.freq, "ConnI"+itoa(i), c.ToInstMem, im.port)
			c.InstMem = im.port
			c.ScalarMem = im.port
			c.VectorMemModules = &mem.SinglePortMapper{Port: im.port.AsRemote()}
			port = c.ToACE
			c.ToACE = &reportingPort{Port: port, onFail: onFail}
			tracing.CollectTrace(c, &wfTracer{e: e})
			e.tcus = append(e.tcus, c)
			e.imems = append(e.imems, im)
			real, ctrl = c, c.ControlPort()
		default:
			panic("unknown real CU kind " + s.Kind)
		}
		e.cuPorts = append(e.cuPorts, port)
		if s.Adv.Preset == "emu" || s.Adv.Preset == "r9nano" {
			e.cp.RegisterCU(real)
		} else {
			e.cp.RegisterCU(&advCU{disp: port.AsRemote(), ctrl: ctrl, spec: s.Adv})
		}
		e.log.Attach(port, cuName(i))
		e.link.plug(port, i)
	}
	simkit.Connect(e.engine, e.freq, "ConnDrv", e.cp.ToDriver, e.drv.Out)
	return e
}

func (e *renv) submit(k kernelSpec, prog string, notBefore int64) *launchRec {
	meta := &insts.KernelCodeObjectMeta{
		WFSgprCount:          uint16(k.SGPR),
		WIVgprCount:          uint16(k.VGPR),
		GroupSegmentByteSize: uint32(k.LDS),
	}
	co := &insts.KernelCodeObject{KernelCodeObjectMeta: meta, Data: []byte{0, 0, 0x81, 0xBF}, Version: insts.CodeObjectV3}
	pkt := &kernels.HsaKernelDispatchPacket{
		WorkgroupSizeX: uint16(k.WG[0]), WorkgroupSizeY: uint16(k.WG[1]), WorkgroupSizeZ: uint16(k.WG[2]),
		GridSizeX: uint32(k.Grid[0]), GridSizeY: uint32(k.Grid[1]), GridSizeZ: uint32(k.Grid[2]),
		GroupSegmentSize: uint32(k.LDS),
		KernelObject:     progAddr(prog),
	}
	req := protocol.NewLaunchKernelReq(e.drv.Out, e.cp.ToDriver)
	req.PID = 1
	req.Packet = pkt
	req.PacketAddress = 0x100000 + 0x1000*uint64(len(e.launches)+1)
	req.CodeObject = co
	req.WGFilter = filterFn(k.Filter)
	l := &launchRec{idx: len(e.launches), spec: k, req: req, pkt: pkt, expected: k.expectedWGs(),
		mapped: map[[3]int]string{}, cpRecvReqSeq: -1, firstMapSeq: -1, rspSeq: -1}
	e.launches = append(e.launches, l)
	e.progs = append(e.progs, prog)
	e.drv.add(simkit.Planned{NotBefore: notBefore, Msg: req})
	return l
}

func (e *renv) answered() map[string]int {
	got := map[string]int{}
	for _, g := range e.drv.Got {
		if r, ok := g.Msg.(*protocol.LaunchKernelRsp); ok {
			got[r.RspTo]++
		}
	}
	return got
}

func (e *renv) unanswered() []int {
	got := e.answered()
	var out []int
	for _, l := range e.launches {
		if got[l.req.ID] == 0 {
			out = append(out, l.idx)
		}
	}
	return out
}

// mapsSentFor counts, per CU, the MapWGReqs of one launch the CP has sent.
func (e *renv) mapsSentFor(l *launchRec) []int {
	idx := map[sim.RemotePort]int{}
	for i, p := range e.cuPorts {
		idx[p.AsRemote()] = i
	}
	out := make([]int, len(e.cuPorts))
	for _, ev := range e.log.Snapshot() {
		if m, ok := ev.Msg.(*protocol.MapWGReq); ok && ev.Port == "CP.ToCUs" && ev.Kind == simkit.KSend && m.WorkGroup.Packet == l.pkt {
			if i, ok := idx[m.Dst]; ok {
				out[i]++
			}
		}
	}
	return out
}
