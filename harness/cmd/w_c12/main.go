// w_c12: command queues are FIFO, waiting terminates, no data races
// (DESIGN.md C12). Parent process plans batches; each batch runs in a child
// process (this binary, built with -race) so that a hang or crash ends only
// that batch. The child drives the real driver + platform from several
// application goroutines with PRNG delays and targeted holds at the driver's
// yield points, decides hangs with an exact logical deadlock predicate, and
// checks order / visibility / isolation through non-commuting kernel chains.
package main

import (
	"fmt"
	"os"
	"path/filepath"
	"regexp"
	"sort"
	"strconv"
	"strings"
	"time"

	"verifharness/vlib"
)

func main() {
	if vlib.IsChild() {
		childMain()
		return
	}
	c := vlib.Start("C12")
	scratch, cleanup := vlib.Scratch("c12")
	defer cleanup()

	// 4: linearizability of the bare queue object (in this process)
	t0 := time.Now()
	queueLinearizability(c, c.N(300, 4000))
	if os.Getenv("C12_TIMES") != "" { // development aid
		fmt.Fprintf(os.Stderr, "C12_TIMES queue histories %.1fs\n", time.Since(t0).Seconds())
	}

	type batch struct {
		idx    int
		timing bool
		ngpu   int
		nscen  int
		mode   string
		// flavour flags handed to the child (child.go): layout=<k> makes every
		// k-th scenario of the batch a layout scenario (layout.go), buddy
		// selects the buddy allocator, magic the timing platform with magic
		// memory copy (copy-only layout scenarios), canon-layout the fixed
		// layout battery of the platform
		flavour string
	}
	var batches []batch
	nb := c.N(24, 160)
	modes := []string{"random", "hold-drainer", "hold-engine-exit", "none", "random", "hold-both"}
	for i := 0; i < nb; i++ {
		b := batch{idx: i, nscen: 17, ngpu: 1 + i%2, mode: modes[i%len(modes)], flavour: "layout=5"}
		if i%4 >= 2 {
			// recycled frames: allocate / free churn on the buddy allocator
			b.flavour += ",buddy"
		}
		batches = append(batches, b)
	}
	// timing platform (DMA copy path, caches, flushes): fewer, slower scenarios
	nt := c.N(12, 64)
	for i := 0; i < nt; i++ {
		b := batch{idx: 500 + i, nscen: 5, ngpu: 1 + i%2, mode: modes[i%len(modes)], timing: true, flavour: "layout=5"}
		if i%4 >= 2 {
			b.flavour += ",buddy"
		}
		batches = append(batches, b)
	}
	// timing platform with magic memory copy: copy-only layout scenarios
	nm := c.N(1, 12)
	for i := 0; i < nm; i++ {
		batches = append(batches, batch{idx: 700 + i, nscen: 8, ngpu: 2 - i%2, mode: modes[i%len(modes)], timing: true, flavour: "magic"})
	}
	// the plain blocking-copy loop that exposed both liveness defects
	loops := c.N(4, 16)
	for i := 0; i < loops; i++ {
		batches = append(batches, batch{idx: 1000 + i, nscen: -c.N(6000, 25000), ngpu: 1, mode: modes[i%len(modes)]})
	}

	// canonical reproducers (seed independent), one child each
	batches = append(batches, batch{idx: 9000, nscen: 1, ngpu: 1, mode: "canon-second-queue-cached-code"})
	batches = append(batches, batch{idx: 9001, nscen: 1, ngpu: 1, timing: true, mode: "canon-second-queue-cached-code"})
	// canonical layout batteries (sub-range commands over physically scattered
	// pages, contexts with interleaved frames), one child per platform
	batches = append(batches,
		batch{idx: 9100, nscen: 1, ngpu: 2, mode: "none", flavour: "canon-layout"},
		batch{idx: 9101, nscen: 1, ngpu: 1, mode: "none", flavour: "canon-layout,buddy"},
		batch{idx: 9103, nscen: 1, ngpu: 2, mode: "none", timing: true, flavour: "canon-layout"},
		batch{idx: 9104, nscen: 1, ngpu: 2, mode: "none", timing: true, flavour: "canon-layout,magic"},
	)
	if c.Thorough() {
		// one GPU, DMA copy path: pages scattered by Remap onto the same GPU
		batches = append(batches, batch{idx: 9102, nscen: 1, ngpu: 1, mode: "none", timing: true, flavour: "canon-layout"})
	}

	// longest children first (timing batches, then the copy loops): the pool
	// below takes the batches in list order and a long one started last would
	// be the tail of the run
	cost := func(b batch) int {
		switch {
		case b.timing && b.idx < 700:
			return 0
		case b.nscen < 0:
			return 1
		}
		return 2
	}
	sort.SliceStable(batches, func(i, j int) bool { return cost(batches[i]) < cost(batches[j]) })

	type raceRep struct {
		key   string
		text  string
		count int
	}
	races := map[string]*raceRep{}
	var rmu = make(chan struct{}, 1)
	rmu <- struct{}{}

	vlib.Parallel(len(batches), 8, func(i int) {
		b := batches[i]
		args := []string{"child", strconv.FormatInt(c.Seed, 10), strconv.Itoa(b.idx), strconv.Itoa(b.nscen),
			strconv.FormatBool(b.timing), strconv.Itoa(b.ngpu), b.mode, b.flavour}
		dirTag := fmt.Sprintf("b%d", b.idx)
		raceLog := filepath.Join(scratch, dirTag+"-race")
		res := vlib.RunChild(scratch, 45*time.Minute,
			[]string{"GORACE=halt_on_error=0 log_path=" + raceLog, "GOMAXPROCS=" + strconv.Itoa(2+i%7)}, args...)
		if os.Getenv("C12_TIMES") != "" {
			fmt.Fprintf(os.Stderr, "C12_TIMES batch %d timing=%v gpus=%d %s %s: %.1fs\n", b.idx, b.timing, b.ngpu, b.mode, b.flavour, res.Dur.Seconds())
		}
		notes := c.AbsorbFile(res.RecPath)
		_, finished := notes["done"]
		_, verdict := notes["verdict"]
		if b.idx >= 9000 && b.idx < 9100 {
			okv, has := notes["canon_ok"]
			good := has && len(okv) > 0 && okv[0] == true
			if !good && !res.TimedOut {
				c.Violation("C12|second-queue-launches-cached-code-before-upload|"+map[bool]string{false: "emu", true: "timing"}[b.timing],
					"one context, two queues, same code object: the second queue gets the cached device address and its kernel is launched before the first queue's upload of the code has been executed (garbage executed / crash / wrong result)",
					map[string]any{"batch": b, "output_tail": vlib.Tail(res.OutPath, 1500)})
			}
			c.Count("canonical_runs", 1)
			return
		}
		if b.idx >= 9100 {
			c.Count("canonical_runs", 1)
		}
		if res.TimedOut {
			c.Inconclusive(fmt.Sprintf("batch %d: watchdog fired (no logical verdict); tail: %s", b.idx, vlib.Tail(res.OutPath, 600)))
		} else if !finished && !verdict {
			// crashed without a verdict of its own
			tail := vlib.Tail(res.OutPath, 3000)
			c.Violation("C12|crash|"+crashClass(tail), "driver workload process crashed: "+firstLine(tail),
				map[string]any{"batch": b, "args": args, "output_tail": tail})
		}
		// race reports
		files, _ := filepath.Glob(raceLog + ".*")
		for _, f := range files {
			data, _ := os.ReadFile(f)
			for _, rep := range splitRaceReports(string(data)) {
				k := raceKey(rep)
				<-rmu
				r := races[k]
				if r == nil {
					r = &raceRep{key: k, text: rep}
					races[k] = r
				}
				r.count++
				rmu <- struct{}{}
			}
		}
	})
	keys := make([]string, 0, len(races))
	for k := range races {
		keys = append(keys, k)
	}
	sort.Strings(keys)
	for _, k := range keys {
		r := races[k]
		c.Count("race_reports", int64(r.count))
		if thirdPartyOnly(k) {
			// both racing accesses are inside the akita module (e.g. the lazy
			// initialisation of sim.GetIDGenerator): observed, reported in the
			// evidence, not a defect of sarchlab/mgpusim (DESIGN.md §7)
			c.Count("third_party_race_reports", int64(r.count))
			c.Distinct("third_party_race", k)
		} else if strings.Contains(r.text, "mgpusim/v4/amd/") || strings.Contains(r.text, "akita/v4/") {
			c.Violation("C12|data-race|"+k, "race detector report in driver/simulator code: "+k,
				map[string]any{"report": trim(r.text, 6000), "occurrences": r.count})
		} else {
			c.Inconclusive("race report outside the code under test (harness?): " + k)
		}
	}
	c.Set("distinct_race_reports", len(races))
	c.Finish(vlib.FinishOpts{
		Rule: "scenario = (platform, #application goroutines, contexts, queues, per-queue sequence of H2D / non-commuting element-wise kernels (add, mul, xor) / D2H / drain, " +
			"enqueue-then-drain or blocking style, delay mode at the driver's yield points); non-trivial = distinct interleaving signature (hash of the order of yield-point events) " +
			"of a scenario in which a notification was issued while a waiter was between its emptiness check and Wait, or the engine left Engine.Run while a kick was in progress. " +
			"Layout scenarios (same oracle: every read-back equals the queue's commands applied in submission order, guards and the pages of a silent bystander context unchanged) widen the command shapes: " +
			"host copies that start inside a page and run over page ends, kernels and device-to-device copies over such sub-ranges, on 2-4 page buffers whose pages are physically scattered " +
			"(Driver.Distribute over 2 GPUs, Remap of every other page, unified multi-GPU device, frames recycled by allocate/free churn on the buddy allocator) and physically interleaved with other queues' and contexts' pages " +
			"(allocation order shuffled); emulation (magic copy), timing (DMA copy path) and timing with magic copy (copy-only). The counters below are read from the driver's page table, not from the plan",
		Assumptions: []string{
			"each application goroutine uses its own context(s), as runner.Run does; two goroutines may drain the same queue",
			"deadlock is decided by an exact predicate over yield-point counters (all application goroutines inside Wait, runAsync back in select, engine goroutine gone); the wall-clock watchdog only yields 'inconclusive'",
			"race reports are those of the Go race detector on the executions produced",
		},
		MinNontrivial: 20,
		MinCounters: map[string]int64{"scenarios": 50, "commands_checked": 500, "drain_returns": 500,
			"notify_between_check_and_wait": 5, "queue_histories": 100,
			// layout scenarios: what the page table says the copies really met
			"layout_scenarios": 80, "canonical_layout_scenarios": 10, "bystander_pages_compared": 250,
			"unaligned_crossing_copies_noncontig": 400, "unaligned_crossing_copies_noncontig|h2d": 200, "unaligned_crossing_copies_noncontig|d2h": 150,
			"unaligned_crossing_copies_noncontig@emu": 280, "unaligned_crossing_copies_noncontig@timing": 30, "unaligned_crossing_copies_noncontig@timing-magic-copy": 60,
			"crossing_copy_next_frame|other_context": 120, "contexts_with_interleaved_frames": 150, "scenarios_with_interleaved_contexts": 60,
			"subrange_kernels_crossing_noncontig_pages": 200, "kernels_over_noncontig_buffers": 50,
			"noncontiguous_buffers|distribute": 20, "noncontiguous_buffers|remap-alt": 60, "noncontiguous_buffers|unified": 15, "noncontiguous_buffers|plain-after-churn": 5},
	})
}

// thirdPartyOnly reports whether every racing access named in the key is in
// the akita module or compiler-generated code called from it.
func thirdPartyOnly(key string) bool {
	sawAkita := false
	for _, part := range strings.Split(key, " <-> ") {
		switch {
		case strings.Contains(part, "github.com/sarchlab/akita/v4/"):
			sawAkita = true
		case strings.Contains(part, "<autogenerated>"):
		default:
			return false
		}
	}
	return sawAkita
}

func trim(s string, n int) string {
	if len(s) > n {
		return s[:n] + "…"
	}
	return s
}

func firstLine(s string) string {
	for _, l := range strings.Split(s, "\n") {
		if strings.Contains(l, "panic") || strings.Contains(l, "fatal error") || strings.Contains(l, "Panic") {
			return trim(l, 300)
		}
	}
	return trim(s, 300)
}

var reStamp = regexp.MustCompile(`\d{4}/\d\d/\d\d \d\d:\d\d:\d\d(\.\d+)? `)
var reAddr = regexp.MustCompile(`0x[0-9a-f]+|\+0x[0-9a-f]+|:\d+|goroutine \d+|T\d+`)

func crashClass(tail string) string {
	for _, l := range strings.Split(tail, "\n") {
		if strings.Contains(l, "panic:") || strings.Contains(l, "fatal error:") || strings.Contains(l, "Panic:") {
			// the log package's time stamp would make the key differ from run to run
			l = reStamp.ReplaceAllString(l, "")
			return trim(reAddr.ReplaceAllString(strings.TrimSpace(l), ""), 120)
		}
	}
	return "unknown"
}

func splitRaceReports(s string) []string {
	var out []string
	parts := strings.Split(s, "==================")
	for _, p := range parts {
		if strings.Contains(p, "WARNING: DATA RACE") {
			out = append(out, p)
		}
	}
	return out
}

var reFunc = regexp.MustCompile(`^\s+([A-Za-z0-9_./\-]+(?:\(\*?[A-Za-z0-9_]+\))?[A-Za-z0-9_.\-]*)\(\)`)

// raceKey = the innermost non-runtime function of each of the two accesses.
func raceKey(rep string) string {
	var tops []string
	lines := strings.Split(rep, "\n")
	for i, l := range lines {
		if strings.HasPrefix(l, "Read at") || strings.HasPrefix(l, "Write at") ||
			strings.HasPrefix(l, "Previous read at") || strings.HasPrefix(l, "Previous write at") ||
			strings.HasPrefix(l, "Previous atomic") || strings.HasPrefix(l, "Atomic") {
			kind := strings.Fields(l)[0]
			if strings.HasPrefix(l, "Previous") {
				kind = strings.Fields(l)[1]
			}
			for j := i + 1; j < len(lines) && strings.TrimSpace(lines[j]) != ""; j++ {
				f := strings.TrimSpace(lines[j])
				if strings.HasPrefix(f, "/") || strings.HasPrefix(f, "runtime.") || strings.HasPrefix(f, "sync.") ||
					strings.HasPrefix(f, "sync/atomic.") || strings.HasPrefix(f, "encoding/") || strings.HasPrefix(f, "reflect.") ||
					strings.HasPrefix(f, "bytes.") || strings.HasPrefix(f, "internal/") {
					continue
				}
				if k := strings.Index(f, "("); k > 0 {
					// strip "()" argument part but keep receiver
					if e := strings.LastIndex(f, "()"); e > 0 {
						f = f[:e]
					}
				}
				tops = append(tops, strings.ToLower(kind)+" "+f)
				break
			}
		}
	}
	sort.Strings(tops)
	return strings.Join(tops, " <-> ")
}
