package main

// Layout scenarios: the same multi-goroutine driver workload and the same
// order / visibility / isolation rule as the classic scenarios of child.go
// (every read-back equals the commands of that queue applied in submission
// order; guard buffers and other contexts' buffers stay untouched), but over
// wider command *shapes*:
//
//   - buffers of 2-4 pages whose virtual pages are NOT physically consecutive:
//     Driver.Distribute over two GPUs, Driver.Remap of every other page,
//     allocation on a unified multi-GPU device, or (buddy allocator) recycled
//     single frames left by an allocate / free churn before the scenario;
//   - host copies of sub-ranges that start at an unaligned offset inside a
//     page and run over one or more page ends, kernels and device-to-device
//     copies over such sub-ranges;
//   - allocations of all contexts (and of a silent "bystander" context that
//     only fills its pages before and reads them after the scenario) issued in
//     a shuffled order, so that the frame physically following a page of one
//     context usually belongs to another queue or context.
//
// What each scenario really exposed is read from the driver's page table after
// the allocations and counted (see noteCopy / noteKernel / layoutCensus); the
// parent puts minimums on those counters.

import (
	"fmt"
	"sync"

	"github.com/sarchlab/mgpusim/v4/amd/driver"

	"verifharness/vlib"
	"verifharness/vlib/kern"
)

const (
	pageElems = 1024
	pageBytes = 4096
)

type bufLayout struct {
	Pages int    `json:"pages"`
	Place string `json:"place"`          // plain | distribute | remap-alt | unified
	GPUs  []int  `json:"gpus,omitempty"` // distribute: list given to Driver.Distribute; remap-alt: [target GPU]
	Odd   bool   `json:"odd,omitempty"`  // remap-alt: the odd pages move (else the even ones)
}

type allocItem struct {
	Queue int `json:"q"`    // -1: one page of the bystander context
	Part  int `json:"part"` // 0 left guard, 1 buffer, 2 right guard; bystander: GPU of the page
}

type layoutPlan struct {
	Order    []allocItem `json:"alloc_order"`
	Churn    int         `json:"churn,omitempty"` // bystander allocates 2*Churn single pages per GPU and frees every other one first
	CopyOnly bool        `json:"copy_only,omitempty"`
}

type frameRef struct {
	ctx   int // application thread / context index; -1 = bystander
	queue int
	part  int
}

type bystanderPage struct {
	ptr driver.Ptr
	idx int
}

type layoutState struct {
	byCtx      *driver.Context
	bystanders []bystanderPage
	owner      map[uint64]frameRef // physical page address -> who owns it (scenario buffers only)

	mu  sync.Mutex
	cnt map[string]int64
}

func (ls *layoutState) add(name string, n int64) {
	ls.mu.Lock()
	ls.cnt[name] += n
	ls.mu.Unlock()
}

func bystanderWord(idx, i int) uint32 { return 0xB0000000 | uint32(idx&0xFF)<<12 | uint32(i) }

// ---------------------------------------------------------------------------
// allocation + placement

func (cs *childState) allocLayout(sc *scenario, ctxs []*driver.Context, runs []*queueRun) {
	d := cs.d
	ls := &layoutState{owner: map[uint64]frameRef{}, cnt: map[string]int64{}}
	cs.lay = ls
	ngpu := cs.p.Cfg.NumGPUs
	allGPUs := make([]int, ngpu)
	for i := range allGPUs {
		allGPUs[i] = i + 1
	}
	by := d.Init()
	ls.byCtx = by
	addBystander := func(p driver.Ptr) {
		ls.bystanders = append(ls.bystanders, bystanderPage{ptr: p, idx: len(ls.bystanders)})
	}

	// allocate / free churn before anything else: with the buddy allocator the
	// freed single frames are what later allocations receive, one hole each
	if sc.Layout.Churn > 0 {
		for g := 1; g <= ngpu; g++ {
			d.SelectGPU(by, g)
			var ptrs []driver.Ptr
			for k := 0; k < 2*sc.Layout.Churn; k++ {
				ptrs = append(ptrs, d.AllocateMemory(by, pageBytes))
			}
			for k, p := range ptrs {
				if k%2 == 0 {
					if err := d.FreeMemory(by, p); err != nil {
						panic(err)
					}
				} else {
					addBystander(p)
				}
			}
		}
	}

	for qi, qp := range sc.Queues {
		runs[qi] = &queueRun{plan: qp, ctx: ctxs[qp.Thread], exp: make([]uint32, qp.N)}
	}
	unified := map[int]int{} // thread -> unified device of its context
	devOf := func(qp queuePlan, ctx *driver.Context) int {
		if qp.Lay.Place != "unified" {
			return qp.GPU
		}
		if unified[qp.Thread] == 0 {
			unified[qp.Thread] = d.CreateUnifiedGPU(ctx, allGPUs)
		}
		return unified[qp.Thread]
	}
	for _, it := range sc.Layout.Order {
		if it.Queue < 0 {
			d.SelectGPU(by, it.Part)
			addBystander(d.AllocateMemory(by, pageBytes))
			continue
		}
		qr := runs[it.Queue]
		qp := qr.plan
		d.SelectGPU(qr.ctx, devOf(qp, qr.ctx))
		switch it.Part {
		case 0:
			qr.guardL = d.AllocateMemory(qr.ctx, 64)
		case 2:
			qr.guardR = d.AllocateMemory(qr.ctx, 64)
		case 1:
			bytes := uint64(4 * qp.N)
			qr.buf = d.AllocateMemory(qr.ctx, bytes)
			switch qp.Lay.Place {
			case "distribute":
				d.Distribute(qr.ctx, qr.buf, bytes, qp.Lay.GPUs)
			case "remap-alt":
				for pg := 0; pg < qp.Lay.Pages; pg++ {
					if (pg%2 == 1) == qp.Lay.Odd {
						d.Remap(qr.ctx, uint64(qr.buf)+uint64(pg)*pageBytes, pageBytes, qp.Lay.GPUs[0])
					}
				}
			}
		}
	}
	for _, qr := range runs {
		if qr.buf == 0 || qr.guardL == 0 || qr.guardR == 0 {
			panic("harness: allocation order does not cover every buffer")
		}
		d.SelectGPU(qr.ctx, devOf(qr.plan, qr.ctx))
		qr.q = d.CreateCommandQueue(qr.ctx)
	}

	// census of what the allocator produced
	pt := d.VerifPageTable()
	frameOf := func(ctx *driver.Context, p driver.Ptr) uint64 {
		page, ok := pt.Find(ctx.VerifPID(), uint64(p))
		if !ok {
			panic("harness: page of a scenario buffer is not in the page table")
		}
		return page.PAddr
	}
	for qi, qr := range runs {
		ls.owner[frameOf(qr.ctx, qr.guardL)] = frameRef{qr.plan.Thread, qi, 0}
		ls.owner[frameOf(qr.ctx, qr.guardR)] = frameRef{qr.plan.Thread, qi, 2}
		for pg := 0; pg < qr.plan.Lay.Pages; pg++ {
			f := frameOf(qr.ctx, qr.buf+driver.Ptr(pg*pageBytes))
			qr.frames = append(qr.frames, f)
			ls.owner[f] = frameRef{qr.plan.Thread, qi, 1}
		}
	}
	for _, b := range ls.bystanders {
		ls.owner[frameOf(by, b.ptr)] = frameRef{-1, -1, b.idx}
	}
	cs.layoutCensus(sc, runs)

	// the bystander context fills its pages (blocking copies from this goroutine)
	cs.active.Store(1)
	for _, b := range ls.bystanders {
		host := make([]uint32, pageElems)
		for i := range host {
			host[i] = bystanderWord(b.idx, i)
		}
		d.MemCopyH2D(by, b.ptr, host)
	}
	cs.active.Store(0)
}

func (cs *childState) layoutCensus(sc *scenario, runs []*queueRun) {
	ls := cs.lay
	cs.rec.Count("layout_scenarios", 1)
	foreignNext := map[int]bool{} // context -> one of its frames is physically followed by a frame of another context
	for f, o := range ls.owner {
		if o.ctx < 0 {
			continue
		}
		if nx, ok := ls.owner[f+pageBytes]; ok && nx.ctx != o.ctx {
			foreignNext[o.ctx] = true
		}
	}
	cs.rec.Count("contexts_with_interleaved_frames", int64(len(foreignNext)))
	if len(foreignNext) >= 2 {
		cs.rec.Count("scenarios_with_interleaved_contexts", 1)
	}
	for _, qr := range runs {
		contig := true
		gpus := map[int]bool{}
		for pg, f := range qr.frames {
			if pg > 0 && qr.frames[pg-1]+pageBytes != f {
				contig = false
			}
			gpus[cs.d.VerifDeviceIDByPAddr(f)] = true
		}
		place := qr.plan.Lay.Place
		if place == "plain" && sc.Layout.Churn > 0 {
			place = "plain-after-churn"
		}
		if !contig {
			cs.rec.Count("noncontiguous_buffers", 1)
			cs.rec.Count("noncontiguous_buffers|"+place, 1)
		}
		cs.rec.Distinct("buffer_layout", fmt.Sprintf("%s|%s|pages=%d|gpus=%d|contiguous=%v", platClass(cs.p.Cfg), place, qr.plan.Lay.Pages, len(gpus), contig))
	}
}

// crossings lists the page boundaries (index of the page that starts there)
// strictly inside the element range.
func crossings(off, ln int) (first, last int) {
	o, e := 4*off, 4*(off+ln)
	return o/pageBytes + 1, (e - 1) / pageBytes
}

// noteCopy accounts for the shape of a host copy about to be issued.
func (cs *childState) noteCopy(qr *queueRun, kind string, off, ln int) {
	if qr.frames == nil {
		return
	}
	ls := cs.lay
	first, last := crossings(off, ln)
	if last < first {
		ls.add("layout_copies_within_one_page", 1)
		return
	}
	if (4*off)%pageBytes == 0 {
		ls.add("layout_copies_aligned_multi_page", 1)
		return
	}
	ls.add("unaligned_crossing_copies", 1)
	nonAdjacent := false
	for b := first; b <= last; b++ {
		if qr.frames[b-1]+pageBytes != qr.frames[b] {
			nonAdjacent = true
		}
	}
	if !nonAdjacent {
		return
	}
	ls.add("unaligned_crossing_copies_noncontig", 1)
	ls.add("unaligned_crossing_copies_noncontig|"+kind, 1)
	ls.add("unaligned_crossing_copies_noncontig@"+platClass(cs.p.Cfg), 1)
	// who owns the frame that physically follows the page the copy starts in
	if qr.frames[first-1]+pageBytes != qr.frames[first] {
		nx, ok := ls.owner[qr.frames[first-1]+pageBytes]
		switch {
		case !ok:
			ls.add("crossing_copy_next_frame|unowned", 1)
		case nx.ctx != qr.plan.Thread:
			ls.add("crossing_copy_next_frame|other_context", 1)
		case nx.part != 1 || qr.frames[0] != cs.firstFrameOfQueue(nx.queue):
			ls.add("crossing_copy_next_frame|other_buffer_same_context", 1)
		default:
			ls.add("crossing_copy_next_frame|own_buffer_other_page", 1)
		}
	}
}

func (cs *childState) firstFrameOfQueue(q int) uint64 {
	if q < 0 || q >= len(cs.runs) || len(cs.runs[q].frames) == 0 {
		return 0
	}
	return cs.runs[q].frames[0]
}

// noteKernel accounts for a kernel (or one side of a d2d copy) over a range.
func (cs *childState) noteKernel(qr *queueRun, off, ln int) {
	if qr.frames == nil {
		return
	}
	ls := cs.lay
	first, last := crossings(off, ln)
	nonAdjacent := false
	for b := first; b <= last; b++ {
		if qr.frames[b-1]+pageBytes != qr.frames[b] {
			nonAdjacent = true
		}
	}
	whole := off == 0 && ln == qr.plan.N
	switch {
	case !nonAdjacent:
		ls.add("layout_kernel_ranges_contiguous", 1)
	case whole:
		ls.add("kernels_over_noncontig_buffers", 1)
	default:
		ls.add("subrange_kernels_crossing_noncontig_pages", 1)
	}
}

// describeElem adds to a mismatch message where the element lives and whose
// data the value read back looks like.
func (cs *childState) describeElem(qr *queueRun, elem int, got uint32) string {
	if qr.frames == nil {
		return ""
	}
	pg := elem / pageElems
	s := fmt.Sprintf("; element is in page %d of a %d-page %s buffer (frame 0x%x on GPU %d, frames %x)", pg, len(qr.frames), qr.plan.Lay.Place,
		qr.frames[pg], cs.d.VerifDeviceIDByPAddr(qr.frames[pg]), qr.frames)
	switch {
	case got>>28 == 0xB:
		s += "; the value is the fill pattern of a page of the bystander context"
	case got>>16 == 0xA5A5 || got>>16 == 0x5A5A:
		s += fmt.Sprintf("; the value is the guard pattern of queue %d", got&0xFFFF)
	}
	return s
}

// checkBystanders runs after the application goroutines have finished: the
// bystander context issued no command during the scenario, so its pages must
// still hold what it wrote before.
func (cs *childState) checkBystanders(sc *scenario) {
	ls := cs.lay
	cs.active.Store(1)
	defer cs.active.Store(0)
	for _, b := range ls.bystanders {
		got := make([]uint32, pageElems)
		cs.d.MemCopyD2H(ls.byCtx, got, b.ptr)
		for i, v := range got {
			if v != bystanderWord(b.idx, i) {
				cs.rec.Violation("C12|isolation|bystander-context-disturbed|"+platClass(cs.p.Cfg),
					fmt.Sprintf("page %d of a context that issued no command during the scenario changed: element %d is 0x%08x, was 0x%08x", b.idx, i, v, bystanderWord(b.idx, i)),
					map[string]any{"scenario": sc, "bystander_page": b.idx, "element": i, "platform": cs.p.Cfg})
				return
			}
		}
		cs.rec.Count("bystander_pages_compared", 1)
	}
	ls.mu.Lock()
	for k, v := range ls.cnt {
		cs.rec.Count(k, v)
	}
	ls.mu.Unlock()
}

// ---------------------------------------------------------------------------
// generator

// crossRange returns an element range that starts inside a page (not on its
// first element) and ends behind the end of that page.
func crossRange(r *vlib.PRNG, n, maxAfter int) (off, ln int) {
	pages := (n + pageElems - 1) / pageElems
	b := 1 + r.Intn(pages-1) // the boundary at element b*pageElems
	before := 1 + r.Intn(pageElems-1)
	if b > 1 && r.Chance(1, 4) {
		before += pageElems * r.Intn(b) // start one or more pages earlier
	}
	room := n - b*pageElems
	if room > maxAfter {
		room = maxAfter
	}
	after := 1 + r.Intn(room)
	return b*pageElems - before, before + after
}

// crossKernelRange: a grid of 64*k work-items that straddles a page end.
func crossKernelRange(r *vlib.PRNG, n, maxLen int) (off, ln int) {
	pages := (n + pageElems - 1) / pageElems
	b := 1 + r.Intn(pages-1)
	ln = 64 * (1 + r.Intn(maxLen/64))
	before := 1 + r.Intn(ln-1)
	off = b*pageElems - before
	if off+ln > n {
		off = n - ln
	}
	return off, ln
}

func genLayoutScenario(r *vlib.PRNG, id string, ngpu int, timing, copyOnly, buddy bool) scenario {
	s := scenario{ID: id, Threads: 2 + r.Intn(3)}
	if timing {
		s.Threads = 2
	}
	s.TwoDrain = r.Chance(1, 8)
	nq := s.Threads + r.Intn(2)
	lp := &layoutPlan{CopyOnly: copyOnly}
	if buddy {
		lp.Churn = 3 + r.Intn(4)
	} else if r.Chance(1, 3) {
		lp.Churn = 2
	}
	s.Layout = lp
	for q := 0; q < nq; q++ {
		qp := queuePlan{Thread: q % s.Threads, GPU: 1 + r.Intn(ngpu), Blocking: r.Chance(1, 4), SharedCO: r.Chance(1, 3)}
		lay := &bufLayout{Pages: 2 + r.Intn(3)}
		if timing {
			lay.Pages = 2 + r.Intn(2)
		}
		dice := r.Intn(100)
		switch {
		case ngpu >= 2 && dice < 30:
			lay.Place = "distribute"
			lay.GPUs = []int{1, 2}
			if r.Bool() {
				lay.GPUs = []int{2, 1}
			}
		case ngpu >= 2 && dice < 55:
			lay.Place = "unified"
		case dice < 85 && !(buddy && dice >= 70):
			lay.Place = "remap-alt"
			lay.GPUs = []int{1 + r.Intn(ngpu)}
			lay.Odd = r.Bool()
		default:
			lay.Place = "plain"
		}
		qp.Lay = lay
		tail := pageElems
		if r.Chance(1, 3) {
			tail = 64 * (1 + r.Intn(16))
		}
		qp.N = (lay.Pages-1)*pageElems + tail
		n := qp.N
		ns := 4 + r.Intn(8)
		maxK := 512 // elements of a sub-range kernel
		if timing {
			ns = 3 + r.Intn(3)
			maxK = 192
		}
		if copyOnly {
			ns = 6 + r.Intn(8)
		}
		kernel := func(off, ln int) step {
			return step{Kind: "kernel", Op: kern.Op(r.Intn(3)), C: 1 + 2*uint32(r.Intn(1000)), Off: off, Len: ln}
		}
		qp.Steps = append(qp.Steps, step{Kind: "h2d"})
		for k := 0; k < ns; k++ {
			dice := r.Intn(12)
			if copyOnly && dice >= 5 && dice <= 9 {
				dice = []int{0, 1, 3, 4, 2}[dice-5]
			}
			if timing && !copyOnly && (dice == 7 || (dice == 8 && !r.Chance(1, 3))) {
				// a kernel launch costs about a second on the timing platform
				// under the race detector, a DMA copy a tenth of that
				dice = []int{0, 3}[dice-7]
			}
			switch dice {
			case 0, 1: // H2D from inside a page over its end
				off, ln := crossRange(r, n, 2*pageElems)
				qp.Steps = append(qp.Steps, step{Kind: "h2d", Off: off, Len: ln})
			case 2: // H2D of any range
				off := r.Intn(n)
				qp.Steps = append(qp.Steps, step{Kind: "h2d", Off: off, Len: 1 + r.Intn(n-off)})
			case 3, 4: // D2H from inside a page over its end
				off, ln := crossRange(r, n, 2*pageElems)
				qp.Steps = append(qp.Steps, step{Kind: "d2h", Off: off, Len: ln})
			case 5, 6, 7: // kernel over a sub-range that straddles a page end
				off, ln := crossKernelRange(r, n, maxK)
				qp.Steps = append(qp.Steps, kernel(off, ln))
			case 8: // kernel over everything
				qp.Steps = append(qp.Steps, kernel(0, 0))
			case 9: // device-to-device copy between two disjoint ranges of the buffer
				ln := 1 + r.Intn(maxK)
				a := r.Intn(n - 2*ln + 1)
				b := a + ln + r.Intn(n-2*ln-a+1)
				if r.Bool() {
					a, b = b, a
				}
				qp.Steps = append(qp.Steps, step{Kind: "d2d", Src: a, Off: b, Len: ln})
			case 10:
				qp.Steps = append(qp.Steps, step{Kind: "d2h"})
			default:
				qp.Steps = append(qp.Steps, step{Kind: "drain"})
			}
		}
		qp.Steps = append(qp.Steps, step{Kind: "d2h"})
		s.Queues = append(s.Queues, qp)
	}
	// allocation order: everything shuffled, plus a few bystander pages
	var items []allocItem
	for q := range s.Queues {
		items = append(items, allocItem{q, 0}, allocItem{q, 1}, allocItem{q, 2})
	}
	for k := 2 + r.Intn(3); k > 0; k-- {
		items = append(items, allocItem{-1, 1 + r.Intn(ngpu)})
	}
	for _, i := range r.Perm(len(items)) {
		lp.Order = append(lp.Order, items[i])
	}
	return s
}

// ---------------------------------------------------------------------------
// canonical (seed independent) layout scenarios

// canonLayoutScenarios returns the fixed battery for one platform.
func canonLayoutScenarios(ngpu int, timing, copyOnly, buddy bool) []scenario {
	// the timing platform with the DMA copy path gets fewer kernels and
	// scenarios: a launch costs about a second there under the race detector
	slow := timing && !copyOnly
	kstep := func(op kern.Op, c uint32, off, ln int) []step {
		if copyOnly || (slow && off == 0 && ln == 0 && op != kern.OpXor) {
			return nil
		}
		return []step{{Kind: "kernel", Op: op, C: c, Off: off, Len: ln}}
	}
	seq := func(parts ...[]step) []step {
		var out []step
		for _, p := range parts {
			out = append(out, p...)
		}
		return out
	}
	one := func(st step) []step { return []step{st} }
	// queue A: a buffer of `pages` pages written and read through ranges that
	// start mid-page and cross page ends; queue B (another context): a
	// neighbour that only does whole-buffer commands.
	stepsA := func(pages int) []step {
		n := pages * pageElems
		return seq(
			one(step{Kind: "h2d"}),
			one(step{Kind: "h2d", Off: 512, Len: 1024}), // 4 KiB from the middle of page 0 (the shape of the seeded break's demo)
			kstep(kern.OpAdd, 7, 960, 128),
			one(step{Kind: "d2h", Off: 512, Len: 1024}),
			one(step{Kind: "d2h"}),
			kstep(kern.OpMul, 3, 0, 0),
			one(step{Kind: "h2d", Off: 1000, Len: 48}),
			one(step{Kind: "h2d", Off: n - pageElems - 1, Len: 2}), // two words over the last page end
			kstep(kern.OpXor, 0x155, 1023, 64),
			one(step{Kind: "d2h", Off: n - pageElems - 300, Len: 700}),
			one(step{Kind: "drain"}),
			one(step{Kind: "h2d", Off: 1, Len: n - 2}), // everything but the first and last word
			one(step{Kind: "d2h", Off: 3, Len: n - 5}),
			one(step{Kind: "d2h"}),
		)
	}
	stepsB := seq(
		one(step{Kind: "h2d"}),
		kstep(kern.OpXor, 0x0F0F, 0, 0),
		one(step{Kind: "d2h"}),
		one(step{Kind: "drain"}),
		kstep(kern.OpAdd, 11, 0, 0),
		one(step{Kind: "d2h"}),
		one(step{Kind: "d2h"}),
	)
	mk := func(id string, a, b *bufLayout, gpuA, gpuB int, order []allocItem, churn int) scenario {
		return scenario{ID: id, Threads: 2,
			Queues: []queuePlan{
				{Thread: 0, GPU: gpuA, N: a.Pages * pageElems, Steps: stepsA(a.Pages), Lay: a},
				{Thread: 1, GPU: gpuB, N: b.Pages * pageElems, Steps: stepsB, Lay: b},
			},
			Layout: &layoutPlan{Order: order, Churn: churn, CopyOnly: copyOnly}}
	}
	// A's buffer first, then B's buffer and a bystander page on the same GPU
	// (they receive the frames that follow A's), then the guards
	orderAB := func(g int) []allocItem {
		return []allocItem{{0, 0}, {0, 1}, {1, 1}, {-1, g}, {1, 0}, {0, 2}, {1, 2}, {-1, g}}
	}
	var out []scenario
	tag := platTag(timing, copyOnly, buddy)
	if ngpu >= 2 {
		out = append(out,
			mk("canon-layout-distribute-"+tag, &bufLayout{Pages: 2, Place: "distribute", GPUs: []int{1, 2}}, &bufLayout{Pages: 1, Place: "plain"}, 1, 1, orderAB(1), 0),
			mk("canon-layout-unified-"+tag, &bufLayout{Pages: 3, Place: "unified"}, &bufLayout{Pages: 1, Place: "plain"}, 1, 2, orderAB(2), 0),
		)
		if !slow {
			out = append(out,
				mk("canon-layout-remap-other-gpu-"+tag, &bufLayout{Pages: 3, Place: "remap-alt", GPUs: []int{2}, Odd: true}, &bufLayout{Pages: 2, Place: "distribute", GPUs: []int{2, 1}}, 1, 2, orderAB(1), 0))
		}
	} else {
		churn := 0
		if buddy {
			churn = 4
		}
		out = append(out,
			mk("canon-layout-remap-same-gpu-"+tag, &bufLayout{Pages: 2, Place: "remap-alt", GPUs: []int{1}}, &bufLayout{Pages: 1, Place: "plain"}, 1, 1, orderAB(1), 0))
		if !slow {
			out = append(out,
				mk("canon-layout-plain-"+tag, &bufLayout{Pages: 3, Place: "plain"}, &bufLayout{Pages: 2, Place: "remap-alt", GPUs: []int{1}, Odd: true}, 1, 1, orderAB(1), churn))
		}
	}
	return out
}

func platTag(timing, copyOnly, buddy bool) string {
	t := "emu"
	if timing {
		t = "timing"
	}
	if copyOnly {
		t += "-magic-copy"
	}
	if buddy {
		t += "-buddy"
	}
	return t
}
