package main

import (
	"fmt"
	"os"
	"runtime"
	"strconv"
	"strings"
	"sync"
	"sync/atomic"
	"time"

	"github.com/sarchlab/mgpusim/v4/amd/driver"
	"github.com/sarchlab/mgpusim/v4/amd/insts"

	"verifharness/vlib"
	"verifharness/vlib/kern"
	"verifharness/vlib/plat"
)

// ---------------------------------------------------------------------------
// yield-point monitor

const (
	pDrainSubscribed = iota
	pDrainSignalled
	pDrainReturn
	pDrainBeforeWait
	pDrainAfterWait
	pAsyncIdle
	pAsyncSignal
	pAsyncTicked
	pEngineRunReturned
	pEngineExit
	pNotify
	numPoints
)

var pointIdx = map[string]int{
	"drain.subscribed": pDrainSubscribed, "drain.signalled": pDrainSignalled, "drain.return": pDrainReturn,
	"drain.beforeWait": pDrainBeforeWait, "drain.afterWait": pDrainAfterWait,
	"async.idle": pAsyncIdle, "async.signal": pAsyncSignal, "async.ticked": pAsyncTicked,
	"engine.runReturned": pEngineRunReturned, "engine.exit": pEngineExit, "listener.notify": pNotify,
}

type monitor struct {
	cnt [numPoints]atomic.Int64

	mu       sync.Mutex
	rng      *vlib.PRNG
	mode     string
	sigHash  uint64
	sigLen   int
	notifyCW int64 // notifications issued while some waiter was between check and wait
	exitKick int64 // engine left Run while runAsync was between signal and idle

	betweenCW atomic.Int64 // waiters currently between "drain.beforeWait" and the actual receive (approximated by afterWait)
}

func (m *monitor) resetSignature() {
	m.mu.Lock()
	m.sigHash = 1469598103934665603
	m.sigLen = 0
	m.notifyCW = 0
	m.exitKick = 0
	m.mu.Unlock()
}

func (m *monitor) hook(point string) {
	i, ok := pointIdx[point]
	if !ok {
		return
	}
	m.cnt[i].Add(1)

	m.mu.Lock()
	if m.sigLen < 4000 {
		m.sigHash = (m.sigHash ^ uint64(i+1)) * 1099511628211
		m.sigLen++
	}
	inWait := m.cnt[pDrainBeforeWait].Load() - m.cnt[pDrainAfterWait].Load()
	if i == pNotify && inWait > 0 {
		m.notifyCW++
	}
	asyncBusy := m.cnt[pAsyncSignal].Load() >= m.cnt[pAsyncIdle].Load()
	if i == pEngineRunReturned && asyncBusy {
		m.exitKick++
	}
	mode := m.mode
	var dice int
	if mode != "none" {
		dice = m.rng.Intn(1000)
	}
	m.mu.Unlock()

	if i == pNotify { // called with the queue's listener mutex held: never delay here
		return
	}
	switch mode {
	case "none":
	case "random":
		m.randomDelay(dice)
	case "hold-drainer", "hold-engine-exit", "hold-both":
		if (mode != "hold-engine-exit") && i == pDrainBeforeWait && dice < 700 {
			// keep the drainer between its emptiness check and Wait until a
			// notification has been issued (bounded spin: scheduling aid only)
			n0 := m.cnt[pNotify].Load()
			for k := 0; k < 2000 && m.cnt[pNotify].Load() == n0; k++ {
				runtime.Gosched()
			}
			return
		}
		if (mode != "hold-drainer") && i == pEngineRunReturned && dice < 700 {
			// keep the engine goroutine between Engine.Run returning and the
			// clearing of engineRunning until runAsync has ticked again
			n0 := m.cnt[pAsyncTicked].Load()
			for k := 0; k < 2000 && m.cnt[pAsyncTicked].Load() == n0; k++ {
				runtime.Gosched()
			}
			return
		}
		m.randomDelay(dice)
	}
}

func (m *monitor) randomDelay(dice int) {
	switch {
	case dice < 600:
	case dice < 900:
		runtime.Gosched()
	case dice < 990:
		for k := 0; k < 20; k++ {
			runtime.Gosched()
		}
	default:
		time.Sleep(time.Duration(50+dice%50) * time.Microsecond)
	}
}

type snapshot struct {
	c       [numPoints]int64
	running bool
	kicked  bool
	active  int64
}

// ---------------------------------------------------------------------------
// scenarios

type step struct {
	Kind string  `json:"kind"` // h2d, kernel, d2d, d2h (enqueue + drain + compare), drain
	Op   kern.Op `json:"op"`
	C    uint32  `json:"c"`
	// layout scenarios (layout.go): the command acts on elements
	// [Off, Off+Len) of the queue's buffer; Len == 0 = the whole buffer.
	// d2d copies [Src, Src+Len) to [Off, Off+Len) (disjoint ranges).
	Off int `json:"off,omitempty"`
	Len int `json:"len,omitempty"`
	Src int `json:"src,omitempty"`
}

type queuePlan struct {
	Thread   int    `json:"thread"`
	GPU      int    `json:"gpu"`
	N        int    `json:"n"`
	Blocking bool   `json:"blocking"`
	Steps    []step `json:"steps"`
	SharedCO bool   `json:"shared_code_object"`
	// layout scenarios: how the buffer is sized and placed (nil = one
	// AllocateMemory of 4*N bytes on GPU, physically contiguous)
	Lay *bufLayout `json:"layout,omitempty"`
}

type scenario struct {
	ID        string      `json:"id"`
	Threads   int         `json:"threads"`
	Queues    []queuePlan `json:"queues"`
	TwoDrain  bool        `json:"two_goroutines_drain_same_queue"`
	SharedPID bool        `json:"contexts_share_pid"`
	// layout scenarios: allocation order, bystander context, churn (layout.go)
	Layout *layoutPlan `json:"layout_plan,omitempty"`
}

func genScenario(r *vlib.PRNG, id string, ngpu int, timing bool) scenario {
	s := scenario{ID: id, Threads: 1 + r.Intn(6)}
	if timing {
		s.Threads = 1 + r.Intn(3)
	}
	s.TwoDrain = r.Chance(1, 6)
	nq := s.Threads + r.Intn(3)
	if timing {
		// several queues per context: copies of one queue overlap kernels of
		// another queue of the same context (flush / dirty-tracking logic)
		nq = 2*s.Threads + r.Intn(2)
	}
	for q := 0; q < nq; q++ {
		qp := queuePlan{Thread: q % s.Threads, GPU: 1 + r.Intn(ngpu), N: 64 * (1 + r.Intn(4)), Blocking: r.Chance(1, 4), SharedCO: r.Chance(1, 3)}
		ns := 3 + r.Intn(10)
		if timing {
			ns = 3 + r.Intn(5)
		}
		qp.Steps = append(qp.Steps, step{Kind: "h2d"})
		for k := 0; k < ns; k++ {
			switch r.Intn(10) {
			case 0:
				qp.Steps = append(qp.Steps, step{Kind: "h2d"})
			case 1, 2:
				qp.Steps = append(qp.Steps, step{Kind: "d2h"})
			case 3:
				qp.Steps = append(qp.Steps, step{Kind: "drain"})
			default:
				qp.Steps = append(qp.Steps, step{Kind: "kernel", Op: kern.Op(r.Intn(3)), C: 1 + 2*uint32(r.Intn(1000))})
			}
		}
		qp.Steps = append(qp.Steps, step{Kind: "d2h"})
		s.Queues = append(s.Queues, qp)
	}
	return s
}

type childState struct {
	rec    *vlib.ChildRecorder
	mon    *monitor
	p      *plat.Platform
	d      *driver.Driver
	active atomic.Int64 // application goroutines currently inside the scenario

	waitMu     sync.Mutex
	waitingQ   map[int]*driver.CommandQueue // goroutine slot -> queue being drained
	blockedAPI map[int]bool                 // goroutine slot -> inside a blocking API call of a scenario (queue not visible)

	sharedCO [3]*insts.KernelCodeObject
	twoDrain bool
	lay      *layoutState // layout scenarios: page census and shape counters of the current scenario
	runs     []*queueRun
	cur      any // scenario being executed (for witnesses)
}

func (cs *childState) snap() snapshot {
	var s snapshot
	for i := range s.c {
		s.c[i] = cs.mon.cnt[i].Load()
	}
	s.running, s.kicked = cs.d.VerifEngineState()
	s.active = cs.active.Load()
	return s
}

// deadlocked evaluates the exact predicate on a consistent snapshot.
func deadlocked(s snapshot) bool {
	inWait := s.c[pDrainBeforeWait] - s.c[pDrainAfterWait]
	// every completed send on enqueueSignal (unbuffered, so also received) has
	// been fully handled and runAsync is back at its select
	asyncIdle := s.c[pAsyncSignal] == s.c[pDrainSignalled] && s.c[pAsyncIdle] == s.c[pAsyncSignal]+1
	return s.active > 0 && inWait == s.active && asyncIdle && !s.running
}

func (cs *childState) watch(stop chan struct{}) {
	var lastParked snapshot
	parkedRuns := 0
	for {
		select {
		case <-stop:
			return
		case <-time.After(20 * time.Millisecond):
		}
		a := cs.snap()
		if !deadlocked(a) {
			// The counter predicate can be defeated by a change that alters WHO
			// sends the enqueue signal (the yield points then no longer pair up).
			// Second, counter-independent criterion: every application goroutine
			// is inside Wait, no engine goroutine exists, and the Go runtime
			// reports every goroutine that executes driver, simulator or
			// application code parked (channel / select / sync wait; sleeping or
			// runnable goroutines disqualify), with identical yield counters, on
			// 40 consecutive observations. Nothing is left that could run.
			if a.active > 0 && a.c[pDrainBeforeWait]-a.c[pDrainAfterWait] == a.active && !a.running {
				stk := make([]byte, 4<<20)
				stk = stk[:runtime.Stack(stk, true)]
				if allParked(string(stk)) && cs.snap() == a {
					if a == lastParked {
						parkedRuns++
					} else {
						lastParked, parkedRuns = a, 1
					}
					if parkedRuns >= 40 {
						cs.rec.Violation("C12|deadlock|all-goroutines-parked|enqueue-signal-accounting-differs",
							"deadlock: every application goroutine is blocked in Listener.Wait, no engine goroutine exists and every driver / simulator / application goroutine is parked, on 40 consecutive observations with unchanged yield counters; the number of enqueue signals sent and received does not pair up (a waiter did not kick the driver, or a kick was consumed without effect)",
							map[string]any{"scenario": cs.cur, "goroutines": string(stk), "yield_counters": a.c, "mode": cs.mon.mode})
						cs.rec.Note("verdict", "deadlock")
						os.Exit(3)
					}
					continue
				}
			}
			parkedRuns = 0
			continue
		}
		parkedRuns = 0
		// The counters say "everyone is inside Wait", but a waiter whose
		// notification is already buffered is about to run. Ask the Go
		// runtime: the state is a deadlock only if every goroutine that
		// executes driver or application code is parked.
		stk := make([]byte, 4<<20)
		stk = stk[:runtime.Stack(stk, true)]
		if !allParked(string(stk)) {
			continue
		}
		b := cs.snap()
		if a != b {
			continue
		}
		// consistent snapshot: every application goroutine is inside
		// Listener.Wait, runAsync is back in its select with no signal
		// pending, and no engine goroutine exists. Nothing can ever run.
		cs.waitMu.Lock()
		empty, nonEmpty := 0, 0
		for _, q := range cs.waitingQ {
			if q.NumCommand() == 0 {
				empty++
			} else {
				nonEmpty++
			}
		}
		unseen := len(cs.blockedAPI)
		cs.waitMu.Unlock()
		key := "C12|lost-wakeup|drain-check-then-wait"
		what := "deadlock: every application goroutine is blocked in Listener.Wait although its queue is empty (notification lost between the emptiness check and Wait); engine goroutine gone, runAsync idle"
		if nonEmpty > 0 {
			key = "C12|stranded-kick|engine-exit-vs-runAsync"
			what = "deadlock: commands are pending, runAsync is idle and no engine goroutine exists (a kick was issued while engineRunning was still set although Engine.Run had returned)"
		} else if empty == 0 && unseen > 0 {
			// every waiter sits in a blocking API call of a scenario: its queue
			// is private to the driver, so "notification lost" and "the command
			// never completes although the engine has nothing left to do"
			// cannot be told apart from here
			key = "C12|deadlock|blocking-call-never-returns"
			what = "deadlock: every application goroutine is inside a blocking driver call (MemCopy* / LaunchKernel) waiting in Listener.Wait, the engine goroutine is gone and runAsync is idle: either the wake-up was lost or a command never completes although no event is left"
		}
		cs.rec.Violation(key, what, map[string]any{"scenario": cs.cur, "goroutines": string(stk), "yield_counters": a.c, "waiters_on_empty_queue": empty, "waiters_on_nonempty_queue": nonEmpty,
			"waiters_in_blocking_api_calls": unseen, "mode": cs.mon.mode})
		cs.rec.Note("verdict", "deadlock")
		os.Exit(3)
	}
}

// allParked inspects a full goroutine dump: every goroutine that has a frame
// of the driver, the simulator or the application workload must be parked
// (blocked in a channel operation, select, semaphore or wait group) — except
// the watcher itself. A goroutine that is running, runnable or in a syscall /
// sleep can still change the state, so no verdict is taken then.
func allParked(dump string) bool {
	for _, blk := range strings.Split(dump, "\n\n") {
		nl := strings.IndexByte(blk, '\n')
		if nl < 0 {
			continue
		}
		head, body := blk[:nl], blk[nl:]
		if strings.Contains(body, "main.(*childState).watch") {
			continue
		}
		relevant := strings.Contains(body, "mgpusim/v4/") || strings.Contains(body, "akita/v4/sim") ||
			strings.Contains(body, "main.(*childState)") || strings.Contains(body, "main.childMain")
		if !relevant {
			continue
		}
		lb := strings.IndexByte(head, '[')
		rb := strings.IndexByte(head, ']')
		if lb < 0 || rb < lb {
			return false
		}
		state := head[lb+1 : rb]
		if c := strings.IndexByte(state, ','); c >= 0 {
			state = state[:c]
		}
		switch state {
		case "chan receive", "chan send", "select", "sync.WaitGroup.Wait", "semacquire", "sync.Mutex.Lock", "sync.Cond.Wait", "chan receive (nil chan)":
		default:
			return false
		}
	}
	return true
}

func (cs *childState) drain(slot int, q *driver.CommandQueue) {
	cs.waitMu.Lock()
	cs.waitingQ[slot] = q
	cs.waitMu.Unlock()
	cs.d.DrainCommandQueue(q)
	cs.waitMu.Lock()
	delete(cs.waitingQ, slot)
	cs.waitMu.Unlock()
	if n := q.NumCommand(); n != 0 && !cs.twoDrain {
		cs.rec.Violation("C12|drain-returned-early", fmt.Sprintf("DrainCommandQueue returned with %d commands still in the queue", n), map[string]any{"scenario": cs.cur})
	}
	cs.rec.Count("drain_returns", 1)
}

func (cs *childState) coFor(op kern.Op, shared bool) *insts.KernelCodeObject {
	if shared {
		return cs.sharedCO[op]
	}
	return kern.ElemKernel(op)
}

type queueRun struct {
	plan   queuePlan
	ctx    *driver.Context
	q      *driver.CommandQueue
	buf    driver.Ptr
	guardL driver.Ptr
	guardR driver.Ptr
	exp    []uint32
	next   int
	serial uint32
	hist   []string
	base   []uint32 // contents written by the last whole-buffer H2D
	ops    []step   // whole-buffer kernels since then
	// layout scenarios
	partial bool     // a command acted on a sub-range: base/ops no longer describe every element
	frames  []uint64 // physical address of each page of buf
}

// explainByDroppedKernels reports whether got equals base with the kernels
// applied in submission order but a non-empty subset of them skipped (what a
// stale cache line produces), and which ones.
func explainByDroppedKernels(base uint32, ops []step, got uint32) ([]string, bool) {
	n := len(ops)
	if n == 0 || n > 16 {
		return nil, false
	}
	for mask := 1; mask < 1<<n; mask++ { // bit set = kernel dropped
		v := base
		for k, st := range ops {
			if mask&(1<<k) == 0 {
				v = st.Op.Apply(v, st.C)
			}
		}
		if v == got {
			// A stale line read by a later kernel leaves a gap: some kernel
			// after the dropped one still took effect. If only the tail of
			// the chain is missing, the read-back itself is at fault (missing
			// flush, lost kernel) and this explanation does not apply.
			highestApplied := -1
			lowestDropped := n
			for k := 0; k < n; k++ {
				if mask&(1<<k) == 0 {
					highestApplied = k
				} else if k < lowestDropped {
					lowestDropped = k
				}
			}
			if highestApplied < lowestDropped {
				continue
			}
			var d []string
			for k, st := range ops {
				if mask&(1<<k) != 0 {
					d = append(d, fmt.Sprintf("#%d %v(%d)", k+1, st.Op, st.C))
				}
			}
			return d, true
		}
	}
	return nil, false
}

func (cs *childState) runStep(slot int, sc *scenario, qi int, qr *queueRun, r *vlib.PRNG) bool {
	if qr.next >= len(qr.plan.Steps) {
		return false
	}
	st := qr.plan.Steps[qr.next]
	qr.next++
	d := cs.d
	n := qr.plan.N
	// the element range the command acts on (classic scenarios: everything)
	off, ln := 0, n
	if st.Len > 0 {
		off, ln = st.Off, st.Len
	}
	whole := off == 0 && ln == n
	at := func(elem int) driver.Ptr { return qr.buf + driver.Ptr(4*elem) }
	rangeTag := ""
	if !whole {
		rangeTag = fmt.Sprintf("[%d+%d]", off, ln)
	}
	switch st.Kind {
	case "h2d":
		host := make([]uint32, ln)
		qr.serial++
		for i := range host {
			host[i] = uint32(qi)<<24 | qr.serial<<12 | uint32(off+i)
		}
		cs.noteCopy(qr, "h2d", off, ln)
		if qr.plan.Blocking {
			cs.blocking(slot, func() { d.MemCopyH2D(qr.ctx, at(off), host) })
		} else {
			d.EnqueueMemCopyH2D(qr.q, at(off), host)
		}
		copy(qr.exp[off:off+ln], host)
		if whole {
			qr.base = append(qr.base[:0], host...)
			qr.ops = qr.ops[:0]
		} else {
			qr.partial = true
		}
		qr.hist = append(qr.hist, fmt.Sprintf("h2d#%d%s", qr.serial, rangeTag))
	case "kernel":
		args := kern.ElemArgs{Buf: at(off), C: st.C}
		co := cs.coFor(st.Op, qr.plan.SharedCO)
		cs.noteKernel(qr, off, ln)
		if qr.plan.Blocking {
			cs.blocking(slot, func() { d.LaunchKernel(qr.ctx, co, [3]uint32{uint32(ln), 1, 1}, [3]uint16{64, 1, 1}, &args) })
		} else {
			d.EnqueueLaunchKernel(qr.q, co, [3]uint32{uint32(ln), 1, 1}, [3]uint16{64, 1, 1}, &args)
		}
		for i := off; i < off+ln; i++ {
			qr.exp[i] = st.Op.Apply(qr.exp[i], st.C)
		}
		if whole {
			qr.ops = append(qr.ops, st)
		} else {
			qr.partial = true
		}
		qr.hist = append(qr.hist, fmt.Sprintf("%v(%d)%s", st.Op, st.C, rangeTag))
	case "d2d":
		// the driver's copy kernel, inside the queue's own buffer
		cs.noteKernel(qr, off, ln)
		cs.noteKernel(qr, st.Src, ln)
		if qr.plan.Blocking {
			cs.blocking(slot, func() { d.MemCopyD2D(qr.ctx, at(off), at(st.Src), 4*ln) })
		} else {
			d.EnqueueMemCopyD2D(qr.q, at(off), at(st.Src), 4*ln)
		}
		copy(qr.exp[off:off+ln], qr.exp[st.Src:st.Src+ln])
		qr.partial = true
		qr.hist = append(qr.hist, fmt.Sprintf("d2d[%d+%d<-%d]", off, ln, st.Src))
	case "drain":
		if !qr.plan.Blocking {
			cs.drain(slot, qr.q)
		}
	case "d2h":
		got := make([]uint32, ln)
		gl := make([]uint32, 16)
		gr := make([]uint32, 16)
		cs.noteCopy(qr, "d2h", off, ln)
		if qr.plan.Blocking {
			cs.blocking(slot, func() {
				d.MemCopyD2H(qr.ctx, got, at(off))
				d.MemCopyD2H(qr.ctx, gl, qr.guardL)
				d.MemCopyD2H(qr.ctx, gr, qr.guardR)
			})
		} else {
			d.EnqueueMemCopyD2H(qr.q, got, at(off))
			d.EnqueueMemCopyD2H(qr.q, gl, qr.guardL)
			d.EnqueueMemCopyD2H(qr.q, gr, qr.guardR)
			cs.drain(slot, qr.q)
		}
		cs.rec.Count("commands_checked", int64(len(qr.hist)))
		for i := range got {
			if got[i] != qr.exp[off+i] {
				if cs.p.Cfg.Timing && !qr.partial {
					if dropped, ok := explainByDroppedKernels(qr.base[i], qr.ops, got[i]); ok {
						// Known defect of the timing platform (shared with C02 /
						// C01): the L1 vector caches are not invalidated at
						// kernel boundaries, so a later kernel of the chain
						// can read the value an earlier kernel left in its
						// compute unit's L1 and miss the writes in between.
						cs.rec.Violation("C12|timing|kernel-misses-writes-of-earlier-kernels|stale-l1-across-kernels",
							fmt.Sprintf("queue %d element %d: read back 0x%08x = the submission-order result with the effect of kernel(s) %v missing (history %v)", qi, i, got[i], dropped, tailOf(qr.hist, 12)),
							map[string]any{"scenario": sc, "queue": qi, "element": i, "history": qr.hist, "platform": cs.p.Cfg, "dropped": dropped})
						return false
					}
				}
				cs.rec.Violation("C12|order-or-visibility|"+platClass(cs.p.Cfg),
					fmt.Sprintf("queue %d element %d: read back 0x%08x, commands applied in submission order give 0x%08x (history %v)%s", qi, off+i, got[i], qr.exp[off+i], tailOf(qr.hist, 12), cs.describeElem(qr, off+i, got[i])),
					map[string]any{"scenario": sc, "queue": qi, "element": off + i, "read_range": [2]int{off, ln}, "history": qr.hist, "platform": cs.p.Cfg, "frames": qr.frames})
				return false
			}
		}
		for i := range gl {
			if gl[i] != 0xA5A50000|uint32(qi) || gr[i] != 0x5A5A0000|uint32(qi) {
				cs.rec.Violation("C12|isolation|guard-disturbed|"+platClass(cs.p.Cfg),
					fmt.Sprintf("queue %d: a guard buffer of the queue changed (0x%08x / 0x%08x)", qi, gl[i], gr[i]),
					map[string]any{"scenario": sc, "queue": qi, "platform": cs.p.Cfg, "history": qr.hist})
				return false
			}
		}
		cs.rec.Count("readbacks_compared", 1)
	}
	_ = r
	return true
}

// blocking runs a blocking driver call (MemCopy*, LaunchKernel: a queue of
// their own, created inside the driver and invisible here) and remembers for
// the deadlock report that this goroutine waits on a queue the harness cannot
// inspect.
func (cs *childState) blocking(slot int, call func()) {
	cs.waitMu.Lock()
	cs.blockedAPI[slot] = true
	cs.waitMu.Unlock()
	call()
	cs.waitMu.Lock()
	delete(cs.blockedAPI, slot)
	cs.waitMu.Unlock()
}

func tailOf(h []string, n int) []string {
	if len(h) > n {
		return h[len(h)-n:]
	}
	return h
}

func platClass(c plat.Config) string {
	if c.Timing && c.MagicCopy {
		return "timing-magic-copy"
	}
	if c.Timing {
		return "timing"
	}
	return "emu"
}

func (cs *childState) runScenario(sc scenario, r *vlib.PRNG) {
	cs.cur = sc
	cs.twoDrain = sc.TwoDrain
	cs.mon.resetSignature()
	d := cs.d
	// contexts: one per application goroutine (as runner.Run does)
	ctxs := make([]*driver.Context, sc.Threads)
	for t := range ctxs {
		ctxs[t] = d.Init()
	}
	runs := make([]*queueRun, len(sc.Queues))
	cs.runs, cs.lay = runs, nil
	if sc.Layout != nil {
		// sub-range commands on physically scattered buffers (layout.go)
		cs.allocLayout(&sc, ctxs, runs)
	} else {
		for qi, qp := range sc.Queues {
			ctx := ctxs[qp.Thread]
			d.SelectGPU(ctx, qp.GPU)
			qr := &queueRun{plan: qp, ctx: ctx, exp: make([]uint32, qp.N)}
			qr.guardL = d.AllocateMemory(ctx, 64)
			qr.buf = d.AllocateMemory(ctx, uint64(4*qp.N))
			qr.guardR = d.AllocateMemory(ctx, 64)
			qr.q = d.CreateCommandQueue(ctx)
			runs[qi] = qr
		}
	}
	var wg sync.WaitGroup
	cs.active.Store(int64(sc.Threads))
	extra := 0
	for t := 0; t < sc.Threads; t++ {
		wg.Add(1)
		go func(t int) {
			defer wg.Done()
			defer cs.active.Add(-1)
			tr := r.ForkN("thread", t)
			// guards first (blocking copies, own queues)
			for qi, qr := range runs {
				if qr.plan.Thread != t {
					continue
				}
				gl := make([]uint32, 16)
				gr := make([]uint32, 16)
				for i := range gl {
					gl[i] = 0xA5A50000 | uint32(qi)
					gr[i] = 0x5A5A0000 | uint32(qi)
				}
				d.EnqueueMemCopyH2D(qr.q, qr.guardL, gl)
				d.EnqueueMemCopyH2D(qr.q, qr.guardR, gr)
			}
			live := true
			for live {
				live = false
				for qi, qr := range runs {
					if qr.plan.Thread != t {
						continue
					}
					burst := 1 + tr.Intn(3)
					for b := 0; b < burst; b++ {
						if cs.runStep(t, &sc, qi, qr, tr) {
							live = true
						}
					}
				}
			}
		}(t)
	}
	if sc.TwoDrain && len(runs) > 0 {
		// a second goroutine repeatedly drains queue 0 as well
		extra = 1
		cs.active.Add(1)
		wg.Add(1)
		go func() {
			defer wg.Done()
			defer cs.active.Add(-1)
			for k := 0; k < 5; k++ {
				cs.drain(100, runs[0].q)
				runtime.Gosched()
			}
		}()
	}
	_ = extra
	wg.Wait()
	if sc.Layout != nil {
		cs.checkBystanders(&sc)
	}
	cs.rec.Eval()
	cs.rec.Count("scenarios", 1)
	cs.mon.mu.Lock()
	sig, ncw, ek := cs.mon.sigHash, cs.mon.notifyCW, cs.mon.exitKick
	cs.mon.mu.Unlock()
	cs.rec.Count("notify_between_check_and_wait", ncw)
	cs.rec.Count("engine_exit_during_kick", ek)
	cs.rec.Distinct("interleaving_signature", strconv.FormatUint(sig, 16))
	if ncw > 0 || ek > 0 {
		cs.rec.Nontrivial(strconv.FormatUint(sig, 16))
	}
	cs.rec.Distinct("shape", fmt.Sprintf("t%d-q%d-two%v-%s-g%d", sc.Threads, len(sc.Queues), sc.TwoDrain, platClass(cs.p.Cfg), cs.p.Cfg.NumGPUs))
}

func childMain() {
	// args: child seed batch nscen timing ngpu mode
	a := os.Args[1:]
	seed, _ := strconv.ParseInt(a[1], 10, 64)
	batch, _ := strconv.Atoi(a[2])
	nscen, _ := strconv.Atoi(a[3])
	timing, _ := strconv.ParseBool(a[4])
	ngpu, _ := strconv.Atoi(a[5])
	mode := a[6]
	// optional flavour flags: buddy (buddy allocator), magic (timing platform
	// with magic memory copy: copy-only layout scenarios), layout=<k> (every
	// k-th scenario of the batch is a layout scenario), canon-layout
	flavour := map[string]string{}
	if len(a) > 7 {
		for _, f := range strings.Split(a[7], ",") {
			if f == "" {
				continue
			}
			k, v, _ := strings.Cut(f, "=")
			flavour[k] = v
		}
	}
	_, buddy := flavour["buddy"]
	_, magic := flavour["magic"]
	_, canonLayout := flavour["canon-layout"]
	layoutEvery, _ := strconv.Atoi(flavour["layout"])

	rec := vlib.ChildRec()
	rng := vlib.NewPRNG(uint64(seed)).ForkN("c12-batch", batch)
	mon := &monitor{rng: rng.Fork("delays"), mode: mode}
	mon.resetSignature()
	driver.VerifSetYieldHook(mon.hook)

	driver.VerifUseBuddyAllocator(buddy)
	p := plat.Build(plat.Config{Timing: timing, NumGPUs: ngpu, MagicCopy: magic})
	cs := &childState{rec: rec, mon: mon, p: p, d: p.Driver, waitingQ: map[int]*driver.CommandQueue{}, blockedAPI: map[int]bool{}}
	for i := range cs.sharedCO {
		cs.sharedCO[i] = kern.ElemKernel(kern.Op(i))
	}
	p.Driver.Run()
	stop := make(chan struct{})
	go cs.watch(stop)

	if mode == "canon-second-queue-cached-code" {
		// Canonical reproducer: one context, queue A has a few copies queued
		// before its first launch of code object K; queue B launches the same
		// K (cache hit) and reaches the GPU first.
		d := p.Driver
		ctx := d.Init()
		n := 64
		bufA := d.AllocateMemory(ctx, uint64(4*n))
		bufB := d.AllocateMemory(ctx, uint64(4*n))
		qA := d.CreateCommandQueue(ctx)
		qB := d.CreateCommandQueue(ctx)
		host := make([]uint32, n)
		for i := range host {
			host[i] = uint32(i)
		}
		cs.cur = map[string]any{"canonical": mode}
		cs.active.Store(1)
		d.MemCopyH2D(ctx, bufB, host)
		for k := 0; k < 6; k++ {
			d.EnqueueMemCopyH2D(qA, bufA, host)
		}
		co := cs.sharedCO[kern.OpAdd]
		argsA := kern.ElemArgs{Buf: bufA, C: 5}
		argsB := kern.ElemArgs{Buf: bufB, C: 7}
		d.EnqueueLaunchKernel(qA, co, [3]uint32{uint32(n), 1, 1}, [3]uint16{64, 1, 1}, &argsA)
		d.EnqueueLaunchKernel(qB, co, [3]uint32{uint32(n), 1, 1}, [3]uint16{64, 1, 1}, &argsB)
		gotA := make([]uint32, n)
		gotB := make([]uint32, n)
		d.EnqueueMemCopyD2H(qA, gotA, bufA)
		d.EnqueueMemCopyD2H(qB, gotB, bufB)
		cs.drain(0, qB)
		cs.drain(0, qA)
		cs.active.Store(0)
		ok := true
		for i := range host {
			if gotA[i] != host[i]+5 || gotB[i] != host[i]+7 {
				ok = false
			}
		}
		rec.Note("canon_ok", ok)
		rec.Eval()
	} else if canonLayout {
		// seed-independent layout battery of this platform
		fixed := vlib.NewPRNG(0xC12)
		for s, sc := range canonLayoutScenarios(ngpu, timing, magic, buddy) {
			t0 := time.Now()
			cs.runScenario(sc, fixed.ForkN("run", s))
			rec.Count("canonical_layout_scenarios", 1)
			if os.Getenv("C12_TIMES") != "" {
				fmt.Fprintf(os.Stderr, "C12_TIMES %s %.2fs\n", sc.ID, time.Since(t0).Seconds())
			}
		}
	} else if nscen < 0 {
		// plain loop of blocking 64-byte copies from one goroutine
		iters := -nscen
		ctx := p.Driver.Init()
		buf := p.Driver.AllocateMemory(ctx, 64)
		data := make([]byte, 64)
		back := make([]byte, 64)
		cs.cur = map[string]any{"loop": "blocking MemCopyH2D/D2H of 64 bytes", "iterations": iters, "mode": mode}
		cs.active.Store(1)
		for i := 0; i < iters; i++ {
			data[i%64] = byte(i)
			p.Driver.MemCopyH2D(ctx, buf, data)
			if i%16 == 0 {
				p.Driver.MemCopyD2H(ctx, back, buf)
				if string(back) != string(data) {
					rec.Violation("C12|order-or-visibility|emu", "blocking copy loop: D2H does not return the bytes of the preceding H2D", cs.cur)
					break
				}
			}
		}
		cs.active.Store(0)
		rec.Count("blocking_copy_iterations", int64(iters))
		rec.Count("drain_returns", int64(iters))
		mon.mu.Lock()
		rec.Count("notify_between_check_and_wait", mon.notifyCW)
		rec.Count("engine_exit_during_kick", mon.exitKick)
		if mon.notifyCW > 0 || mon.exitKick > 0 {
			rec.Nontrivial(fmt.Sprintf("loop-%d-%x", batch, mon.sigHash))
		}
		mon.mu.Unlock()
		rec.Eval()
	} else {
		for s := 0; s < nscen; s++ {
			var sc scenario
			if magic || (layoutEvery > 0 && s%layoutEvery == layoutEvery-1) {
				// magic copy on the timing platform reads DRAM behind dirty
				// caches (open finding filed under C02): copy-only programs there
				sc = genLayoutScenario(rng.ForkN("layout-scenario", s), fmt.Sprintf("b%d-s%d-layout", batch, s), ngpu, timing, magic, buddy)
			} else {
				sc = genScenario(rng.ForkN("scenario", s), fmt.Sprintf("b%d-s%d", batch, s), ngpu, timing)
			}
			if batch == 0 && (s == 0 || s == layoutEvery-1) {
				rec.Sample(sc)
			}
			t0 := time.Now()
			cs.runScenario(sc, rng.ForkN("run", s))
			if os.Getenv("C12_TIMES") != "" { // development aid, no effect on any verdict
				fmt.Fprintf(os.Stderr, "C12_TIMES %s %.2fs\n", sc.ID, time.Since(t0).Seconds())
			}
		}
	}
	close(stop)
	rec.Note("done", true)
	// no teardown: Terminate races with the engine goroutine (see DESIGN §7)
	os.Exit(0)
}
