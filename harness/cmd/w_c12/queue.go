package main

import (
	"fmt"
	"runtime"
	"sync"
	"sync/atomic"
	"time"

	"github.com/anishathalye/porcupine"
	"github.com/sarchlab/mgpusim/v4/amd/driver"

	"verifharness/vlib"
)

// Linearizability of the bare CommandQueue object: several producers Enqueue
// uniquely numbered NoopCommands, one consumer Peeks and Dequeues (the driver's
// engine is the only dequeuer and always peeks first), observers call
// NumCommand. Histories are checked against a sequential FIFO.

type qIn struct {
	Op  string // enq, deq, peek, num
	Val int
}

type qOut struct {
	Val int // dequeued / peeked id (-1 = nil) or count
}

func fifoModel() porcupine.Model {
	return porcupine.Model{
		Init: func() any { return []int{} },
		Step: func(state, in, out any) (bool, any) {
			st := state.([]int)
			i := in.(qIn)
			o := out.(qOut)
			switch i.Op {
			case "enq":
				ns := append(append([]int{}, st...), i.Val)
				return true, ns
			case "deq":
				if len(st) == 0 {
					return false, st
				}
				return o.Val == st[0], append([]int{}, st[1:]...)
			case "peek":
				if len(st) == 0 {
					return o.Val == -1, st
				}
				return o.Val == st[0], st
			case "num":
				return o.Val == len(st), st
			}
			return false, st
		},
		Equal: func(a, b any) bool {
			x, y := a.([]int), b.([]int)
			if len(x) != len(y) {
				return false
			}
			for i := range x {
				if x[i] != y[i] {
					return false
				}
			}
			return true
		},
		DescribeOperation: func(in, out any) string {
			return fmt.Sprintf("%v -> %v", in, out)
		},
	}
}

func queueLinearizability(c *vlib.Check, histories int) {
	model := fifoModel()
	base := c.Rand("queue-histories")
	var clock atomic.Int64
	for h := 0; h < histories; h++ {
		r := base.ForkN("h", h)
		q := new(driver.CommandQueue)
		ids := map[string]int{}
		var idMu sync.Mutex
		producers := 2 + r.Intn(3)
		perProducer := 2 + r.Intn(5)
		var mu sync.Mutex
		var ops []porcupine.Operation
		record := func(client int, in qIn, f func() qOut) {
			t0 := clock.Add(1)
			out := f()
			t1 := clock.Add(1)
			mu.Lock()
			ops = append(ops, porcupine.Operation{ClientId: client, Input: in, Call: t0, Output: out, Return: t1})
			mu.Unlock()
		}
		var wg sync.WaitGroup
		next := 0
		for p := 0; p < producers; p++ {
			cmds := make([]*driver.NoopCommand, perProducer)
			vals := make([]int, perProducer)
			for k := range cmds {
				next++
				cmds[k] = &driver.NoopCommand{ID: fmt.Sprintf("h%d-c%d", h, next)}
				vals[k] = next
				ids[cmds[k].ID] = next
			}
			wg.Add(1)
			yield := r.Intn(3)
			go func(p int) {
				defer wg.Done()
				for k, cmd := range cmds {
					record(p, qIn{Op: "enq", Val: vals[k]}, func() qOut { q.Enqueue(cmd); return qOut{} })
					for y := 0; y < yield; y++ {
						runtime.Gosched()
					}
				}
			}(p)
		}
		total := producers * perProducer
		wg.Add(1)
		go func() { // consumer
			defer wg.Done()
			got := 0
			nilPeeks := 0
			for spins := 0; got < total && spins < 1_000_000; spins++ {
				var peeked driver.Command
				peek := func() qOut {
					peeked = q.Peek()
					if peeked == nil {
						return qOut{Val: -1}
					}
					idMu.Lock()
					defer idMu.Unlock()
					return qOut{Val: ids[peeked.GetID()]}
				}
				// keep histories short: only a few empty peeks are recorded
				if q.NumCommand() == 0 && nilPeeks >= 3 {
					runtime.Gosched()
					continue
				}
				record(100, qIn{Op: "peek"}, peek)
				if peeked == nil {
					nilPeeks++
					runtime.Gosched()
					continue
				}
				record(100, qIn{Op: "deq"}, func() qOut {
					cmd := q.Dequeue()
					idMu.Lock()
					defer idMu.Unlock()
					return qOut{Val: ids[cmd.GetID()]}
				})
				got++
			}
		}()
		wg.Add(1)
		go func() { // observer
			defer wg.Done()
			for k := 0; k < 6; k++ {
				record(101, qIn{Op: "num"}, func() qOut { return qOut{Val: q.NumCommand()} })
				runtime.Gosched()
			}
		}()
		wg.Wait()
		res, _ := porcupine.CheckOperationsVerbose(model, ops, 60*time.Second)
		if res == porcupine.Unknown {
			// The checker's timeout is wall-clock. On a heavily loaded machine
			// (and under the race detector) 60 s can pass on a history that
			// needs milliseconds of CPU; check it again with a bound that only
			// a truly pathological history reaches before giving up.
			c.Count("queue_history_rechecks", 1)
			res, _ = porcupine.CheckOperationsVerbose(model, ops, 5*time.Minute)
		}
		c.Count("queue_histories", 1)
		c.Count("queue_ops", int64(len(ops)))
		switch res {
		case porcupine.Illegal:
			desc := make([]string, 0, len(ops))
			for _, o := range ops {
				desc = append(desc, fmt.Sprintf("c%d [%d,%d] %v -> %v", o.ClientId, o.Call, o.Return, o.Input, o.Output))
			}
			c.Violation("C12|queue-object-not-linearizable", "a recorded history of concurrent Enqueue/Peek/Dequeue/NumCommand on driver.CommandQueue is not linearizable w.r.t. a FIFO",
				map[string]any{"history": desc})
		case porcupine.Unknown:
			c.Inconclusive("porcupine timed out on a queue history")
		}
	}
}
