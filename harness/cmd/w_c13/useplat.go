package main

// Use-history layer on the real platforms: emulation (gcn3, cdna3) and the
// r9nano timing platform built by vlib/plat, driven through Driver.Run() from
// an application goroutine. Kernels really execute: shipped matrixTranspose
// (kernels.hsaco, kernels_gfx942.hsaco) and stencil2d's StencilKernel with the
// benchmarks' own argument types and geometry, and generated code objects
// (ELF64 written by the harness: amd_kernel_code_t with a chosen static LDS
// size in front of a hand-assembled element-wise kernel) with generated
// argument types that carry 0..3 LocalPtr fields. One child process per case.

import (
	"fmt"
	"os"
	"path/filepath"
	"reflect"
	"runtime"
	"strconv"
	"time"

	"github.com/sarchlab/akita/v4/sim"
	"github.com/sarchlab/mgpusim/v4/amd/benchmarks/amdappsdk/matrixtranspose"
	"github.com/sarchlab/mgpusim/v4/amd/benchmarks/shoc/stencil2d"
	"github.com/sarchlab/mgpusim/v4/amd/driver"

	"verifharness/vlib"
	"verifharness/vlib/batch"
	"verifharness/vlib/kern"
	"verifharness/vlib/plat"
)

// execSpec tells the plat environment how to launch a subject for real.
type execSpec struct {
	Kind string  `json:"kind"` // transpose-gcn3, transpose-gfx942, stencil-gcn3, elem
	Op   kern.Op `json:"op"`
}

type platCase struct {
	Index   int         `json:"useplat_index"`
	Name    string      `json:"name"`
	Cfg     plat.Config `json:"platform"`
	Targets [][]int     `json:"targets"`
	OneCtx  bool        `json:"one_context"`
	Shipped []string    `json:"shipped"` // transpose-gcn3 / transpose-gfx942 / stencil-gcn3
	Elem    []elemSpec  `json:"generated"`
	Steps   int         `json:"steps"`
	MaxPer  int         `json:"max_launches_per_object"`
}

type elemSpec struct {
	Name   string  `json:"name"`
	Op     kern.Op `json:"op"`
	Static uint32  `json:"static_lds"`
	Karg   uint64  `json:"kernarg_size"`
}

// elemFile wraps hand-assembled element-wise kernels into one generated code object file.
func elemFile(name string, es []elemSpec) *fileSpec {
	f := &fileSpec{Name: name, TextAddr: 0x1000, RodataAddr: 0x300000, Seed: 0xe1e, NoRodata: true}
	for _, e := range es {
		co := kern.ElemKernel(e.Op)
		f.Kernels = append(f.Kernels, kernelSpec{Name: e.Name, SymType: 10, Global: true, Code: co.Data,
			Header: &hdrSpec{VersionMajor: 1, VersionMinor: 1, MachineKind: 1, MachineMajor: 8, MachineMinor: 0, MachineStep: 3, EntryOffset: 256,
				Rsrc1: co.ComputePgmRsrc1, Rsrc2: co.ComputePgmRsrc2, CodeProps: 1 << 3, // kernarg segment pointer
				GroupSize: e.Static, KernargSize: e.Karg, SgprCount: co.WFSgprCount, VgprCount: co.WIVgprCount, Tail: make([]byte, 168)}})
	}
	for i := range f.Kernels {
		k := &f.Kernels[i]
		k.CodeLen = len(k.Code)
		k.CodeHead = fmt.Sprintf("%x", head(k.Code, 24))
	}
	return f
}

const platCanon = 4

func platCases(tier string, seed int64) []*platCase {
	n := 5
	if tier == "thorough" {
		n = 40
	}
	var out []*platCase
	for j := 0; j < platCanon+n; j++ {
		out = append(out, genPlatCase(seed, j))
	}
	return out
}

func genPlatCase(seed int64, j int) *platCase {
	c := &platCase{Index: j, MaxPer: 4}
	switch j {
	case 0:
		c.Name, c.Cfg, c.Targets = "canon-emu-gcn3-1gpu", plat.Config{NumGPUs: 1}, [][]int{{1}}
		c.Shipped = []string{"transpose-gcn3", "stencil-gcn3"}
		c.Elem = []elemSpec{{"elem_add_static0", kern.OpAdd, 0, 64}, {"elem_xor_static1000", kern.OpXor, 1000, 96}}
		c.Steps = 16
		return c
	case 1:
		c.Name, c.Cfg, c.Targets = "canon-emu-gcn3-2gpu-plain-and-unified", plat.Config{NumGPUs: 2}, [][]int{{2}, {1, 2}}
		c.Shipped = []string{"transpose-gcn3"}
		c.Elem = []elemSpec{{"elem_mul_static256", kern.OpMul, 256, 80}, {"elem_add_static4752", kern.OpAdd, 4752, 64}}
		c.Steps = 14
		return c
	case 2:
		c.Name, c.Cfg, c.Targets = "canon-emu-cdna3-1gpu", plat.Config{Arch: "cdna3", NumGPUs: 1}, [][]int{{1}}
		c.Shipped = []string{"transpose-gfx942"}
		c.Steps = 10
		return c
	case 3:
		c.Name, c.Cfg, c.Targets = "canon-timing-r9nano-1gpu", plat.Config{Timing: true, NumGPUs: 1}, [][]int{{1}}
		c.Shipped = []string{"transpose-gcn3"}
		c.Elem = []elemSpec{{"elem_xor_static64", kern.OpXor, 64, 64}}
		c.Steps = 7
		c.MaxPer = 3
		return c
	}
	r := batch.Rand("C13", seed, "use-plat").ForkN("p", j)
	timing := (j-platCanon)%5 == 4
	c.Name = fmt.Sprintf("seeded-%d", j)
	if timing {
		c.Cfg, c.Targets = plat.Config{Timing: true, NumGPUs: 1}, [][]int{{1}}
		c.Steps, c.MaxPer = 5+r.Intn(3), 3
	} else {
		ng := 1 + r.Intn(2)
		c.Cfg = plat.Config{NumGPUs: ng}
		if ng == 2 {
			c.Targets = [][]int{{1 + r.Intn(2)}, {1, 2}}
			if r.Bool() {
				c.Targets = [][]int{{2, 1}}
			}
		} else {
			c.Targets = [][]int{{1}}
		}
		c.OneCtx = r.Chance(1, 3)
		c.Steps = 10 + r.Intn(8)
	}
	if r.Chance(1, 2) {
		c.Shipped = append(c.Shipped, "transpose-gcn3")
	}
	if !timing && r.Chance(1, 3) {
		c.Shipped = append(c.Shipped, "stencil-gcn3")
	}
	ne := 1 + r.Intn(3)
	for i := 0; i < ne; i++ {
		c.Elem = append(c.Elem, elemSpec{Name: fmt.Sprintf("elem%d", i), Op: kern.Op(r.Intn(3)),
			Static: []uint32{0, 4, 64, 256, 1000, 2048, 4752, 16384}[r.Intn(8)], Karg: uint64(32 + 8*r.Intn(12))})
	}
	return c
}

var platShipped = map[string][3]string{
	"transpose-gcn3":   {"amd/benchmarks/amdappsdk/matrixtranspose/kernels.hsaco", "matrixTranspose"},
	"transpose-gfx942": {"amd/benchmarks/amdappsdk/matrixtranspose/kernels_gfx942.hsaco", "matrixTranspose"},
	"stencil-gcn3":     {"amd/benchmarks/shoc/stencil2d/kernels.hsaco", "StencilKernel"},
}

func (c *platCase) subjects(repo string, rec vlib.Recorder) []*useSubject {
	var out []*useSubject
	for _, kind := range c.Shipped {
		ps := platShipped[kind]
		path := filepath.Join(repo, ps[0])
		im, err := shippedImage(repo, path)
		if err != nil {
			rec.Inconclusive("independent extractor cannot read " + path + ": " + err.Error())
			continue
		}
		for ki := range im.Kernels {
			if im.Kernels[ki].Name == ps[1] {
				out = append(out, &useSubject{Im: im, K: &im.Kernels[ki], Path: path, Exec: &execSpec{Kind: kind}})
			}
		}
	}
	if len(c.Elem) > 0 {
		f := elemFile("use-plat-"+c.Name, c.Elem)
		im := synthImage(f.Name, f)
		for ki := range im.Kernels {
			out = append(out, &useSubject{Im: im, K: &im.Kernels[ki], Exec: &execSpec{Kind: "elem", Op: c.Elem[ki].Op}})
		}
	}
	return out
}

func setLocals(p any, min uint32, r *vlib.PRNG) {
	v := reflect.ValueOf(p).Elem()
	for i := 0; i < v.NumField(); i++ {
		if v.Field(i).Type() == localPtrType {
			v.Field(i).SetUint(uint64(min + []uint32{0, 0, 256, 1024, 4096}[r.Intn(5)]))
		}
	}
}

// platArgs allocates real buffers in the launching context and fills in the
// benchmark's / the generated argument block; after() checks the kernel's result.
func platArgs(d *driver.Driver) argMaker {
	return func(u *useRun, o *useObject, t *useTarget, r *vlib.PRNG, zero bool) (*argInfo, [3]uint32, [3]uint16, func() string) {
		ctx := t.Ctx
		d.SelectGPU(ctx, t.GPU)
		alloc := func(n int) driver.Ptr { return d.AllocateMemory(ctx, uint64(n)) }
		switch o.S.Exec.Kind {
		case "transpose-gcn3", "transpose-gfx942":
			width := 64
			if t.Unified {
				width = 128
			}
			n := width * width
			in := make([]uint32, n)
			for i := range in {
				in[i] = uint32(i)*2654435761 + uint32(u.nLaunch)
			}
			dIn, dOut := alloc(4*n), alloc(4*n)
			d.MemCopyH2D(ctx, dIn, in)
			wi := uint32(width / 4)
			grid, wg := [3]uint32{wi, wi, 1}, [3]uint16{16, 16, 1}
			var p any
			if o.S.Exec.Kind == "transpose-gcn3" {
				p = &matrixtranspose.GCN3KernelArgs{Output: dOut, Input: dIn, WIWidth: wi, WIHeight: wi, NumWGWidth: wi / 16}
			} else {
				p = &matrixtranspose.CDNA3KernelArgs{Output: dOut, Input: dIn, WIWidth: wi, WIHeight: wi, NumWGWidth: wi / 16,
					HiddenBlockCountX: wi / 16, HiddenBlockCountY: wi / 16, HiddenBlockCountZ: 1, HiddenGroupSizeX: 16, HiddenGroupSizeY: 16, HiddenGroupSizeZ: 1, HiddenGridDims: 2}
			}
			setLocals(p, 16*16*4*4*4, r)
			after := func() string {
				got := make([]uint32, n)
				d.MemCopyD2H(ctx, got, dOut)
				for i := 0; i < width; i++ {
					for j := 0; j < width; j++ {
						if got[i*width+j] != in[j*width+i] {
							return fmt.Sprintf("matrixTranspose %dx%d: output (%d,%d) = %#x, input (%d,%d) = %#x", width, width, i, j, got[i*width+j], j, i, in[j*width+i])
						}
					}
				}
				return ""
			}
			return describeArgs(p), grid, wg, after
		case "stencil-gcn3":
			// geometry of the stencil2d benchmark with 18 x 66 points
			rows, cols, padded := 18, 66, 80
			n := rows * padded
			in := make([]float32, n)
			for i := range in {
				in[i] = 1
			}
			d1, d2 := alloc(4*n), alloc(4*n)
			d.MemCopyH2D(ctx, d1, in)
			d.MemCopyH2D(ctx, d2, in)
			p := &stencil2d.StencilKernelArgs{Data: d1, NewData: d2, Alignment: 16, WCenter: 0.5}
			setLocals(p, (16+2)*(64+2)*4, r)
			after := func() string {
				got := make([]float32, n)
				d.MemCopyD2H(ctx, got, d2)
				for x := 1; x < rows-1; x++ {
					for y := 1; y < cols-1; y++ {
						if got[x*padded+y] != 0.5 {
							return fmt.Sprintf("StencilKernel: new data (%d,%d) = %v, want 0.5 (centre weight 0.5 on all-ones input)", x, y, got[x*padded+y])
						}
					}
				}
				return ""
			}
			return describeArgs(p), [3]uint32{uint32((rows - 2) / 16), uint32(cols - 2), 1}, [3]uint16{1, 64, 1}, after
		case "elem":
			nl := r.Intn(4)
			p := genArgs(r, []reflect.Type{reflect.TypeOf(driver.Ptr(0)), reflect.TypeOf(uint32(0))}, int(o.S.K.Truth.Kernarg), nl, zero)
			if p == nil {
				return nil, [3]uint32{}, [3]uint16{}, nil
			}
			n := 64 * (1 + r.Intn(3))
			if t.Unified {
				n = 64 * (2 + r.Intn(3))
			}
			cst := 1 + 2*uint32(r.Intn(1000))
			in := make([]uint32, n)
			for i := range in {
				in[i] = uint32(i)*40503 + uint32(u.nLaunch)
			}
			buf := alloc(4 * n)
			d.MemCopyH2D(ctx, buf, in)
			v := reflect.ValueOf(p).Elem()
			v.Field(0).SetUint(uint64(buf))
			v.Field(1).SetUint(uint64(cst))
			op := o.S.Exec.Op
			after := func() string {
				got := make([]uint32, n)
				d.MemCopyD2H(ctx, got, buf)
				for i := range got {
					if got[i] != op.Apply(in[i], cst) {
						return fmt.Sprintf("element-wise %v kernel: element %d = %#x, want %#x", op, i, got[i], op.Apply(in[i], cst))
					}
				}
				return ""
			}
			return describeArgs(p), [3]uint32{uint32(n), 1, 1}, [3]uint16{64, 1, 1}, after
		}
		return nil, [3]uint32{}, [3]uint16{}, nil
	}
}

func platKind(cfg plat.Config) string {
	if cfg.Timing {
		return "timing"
	}
	return "emu"
}

// runUsePlat executes one plat case in this process (a child, or --replay).
func runUsePlat(rec0 vlib.Recorder, repo string, seed int64, j int) {
	rec := newAgg(rec0)
	defer rec.flush()
	rec.Eval()
	c := genPlatCase(seed, j)
	kind := platKind(c.Cfg)
	rec.Count("use_cases", 1)
	rec.Count("use_cases_plat", 1)
	rec.Count("use_cases_plat_"+kind, 1)
	sim.GetIDGenerator()
	p := plat.Build(c.Cfg)
	d := p.Driver
	env := &useEnv{kind: kind, desc: c.Cfg, d: d, blocking: true}
	env.tap = newWireTap(d)
	d.Run()
	env.settle = func(qs []*driver.CommandQueue) string {
		for _, q := range qs {
			d.DrainCommandQueue(q)
		}
		return ""
	}
	env.readBack = func(ctx *driver.Context, ptr driver.Ptr, n int) ([]byte, string) {
		out := make([]byte, n)
		if n > 0 {
			d.MemCopyD2H(ctx, out, ptr)
		}
		return out, ""
	}
	u := &useRun{rec: rec, env: env, name: "plat-" + c.Name, witBase: map[string]any{"useplat_index": j, "case": c}}
	u.subjects = c.subjects(repo, rec)
	if len(u.subjects) == 0 {
		return
	}
	u.targets = makeTargets(d, c.Targets, c.OneCtx)
	r := batch.Rand("C13", seed, "use-plat-steps").ForkN("p", j)
	if j < platCanon {
		r = vlib.NewPRNG(0xc13b00 + uint64(j))
	}
	u.runSteps(r, platArgs(d), c.Steps, c.MaxPer)
	arch := c.Cfg.Arch
	if arch == "" {
		arch = "gcn3"
	}
	rec.Distinct("use_plat_shapes", fmt.Sprintf("%s-%s-%dgpu-%dtargets", kind, arch, c.Cfg.NumGPUs, len(c.Targets)))
	for _, t := range u.targets {
		if t.Unified {
			rec.Count("use_cases_plat_with_unified_device", 1)
			break
		}
	}
}

// usePlatChild is the entry point of a plat child process: "<tier> useplat <index>".
func usePlatChild(repo string) {
	seed, _ := batch.SeedTier()
	j, err := strconv.Atoi(os.Args[len(os.Args)-1])
	if err != nil {
		os.Exit(5)
	}
	rec := vlib.ChildRec()
	// watchdog only: a wedged platform makes the case inconclusive
	go func() {
		_, tier := batch.SeedTier()
		if tier == "thorough" {
			time.Sleep(9 * time.Minute)
		} else {
			time.Sleep(4 * time.Minute)
		}
		buf := make([]byte, 1<<20)
		buf = buf[:runtime.Stack(buf, true)]
		os.Stderr.Write(buf)
		rec.Inconclusive(fmt.Sprintf("use-history plat case %d did not finish (watchdog)", j))
		os.Exit(4)
	}()
	runUsePlat(rec, repo, seed, j)
	rec.Note("useplat_done", j)
	// no teardown (Terminate races with the engine goroutine)
	os.Exit(0)
}

// runPlatChildren runs every plat case in its own child and merges the records.
func runPlatChildren(c *vlib.Check, tier string, seed int64, workers int) {
	cases := platCases(tier, seed)
	base, cleanup := vlib.Scratch("C13-useplat")
	defer cleanup()
	vlib.Parallel(len(cases), workers, func(k int) {
		res := vlib.RunChild(base, 10*time.Minute, nil, tier, "useplat", strconv.Itoa(k))
		notes := c.AbsorbFile(res.RecPath)
		if len(notes["useplat_done"]) > 0 {
			return
		}
		tail := vlib.Tail(res.OutPath, 3000)
		if res.TimedOut || res.ExitCode == 4 {
			c.Inconclusive(fmt.Sprintf("use-history plat case %d (%s) hit the watchdog: %s", k, cases[k].Name, tail))
			return
		}
		c.Violation("C13|"+useKey+"|process-exits-while-loaded-kernels-are-launched",
			fmt.Sprintf("use-history plat case %d (%s): the process exited with code %d while kernels loaded from well-formed files were launched through the driver", k, cases[k].Name, res.ExitCode),
			map[string]any{"useplat_index": k, "case": cases[k], "output_tail": tail})
	})
}
