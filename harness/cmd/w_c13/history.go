package main

// History cases: the property quantifies over every load, so a load must not
// depend on what the process loaded before. One history case is a sequence of
// many loads in ONE process through
//   - one reused []byte backing array into which different images are copied
//     one after another (different shipped files that share kernel names,
//     generated variants of one image that differ in one field / some code
//     bytes / the kernel order),
//   - in-place patches of the image a previous load has seen,
//   - results of earlier loads that the caller mutates,
//   - every exported entry point (FromBytes, FromFS over one rewritten path,
//     FromELF over a fresh and over a shared *elf.File) in seeded random order,
//   - several goroutines at once.
// Every single load is judged, when it returns, against the oracle of the
// bytes the loader was given at that moment: the description for generated
// images, the debug/elf extractor (extractOwnBytes) for shipped and patched
// shipped images.

import (
	"bytes"
	"debug/elf"
	"encoding/binary"
	"fmt"
	"os"
	"path/filepath"
	"reflect"
	"sort"
	"strings"
	"sync"
	"unsafe"

	"github.com/sarchlab/mgpusim/v4/amd/insts"

	"verifharness/vlib"
	"verifharness/vlib/batch"
)

// ---- counting recorder -------------------------------------------------------

// aggRec sums counters locally (compare() counts every field) and forwards
// everything else; safe for several goroutines.
type aggRec struct {
	vlib.Recorder
	mu   sync.Mutex
	n    map[string]int64
	seen map[string]bool
}

func newAgg(r vlib.Recorder) *aggRec {
	return &aggRec{Recorder: r, n: map[string]int64{}, seen: map[string]bool{}}
}

// Violation: one report per key and history case (a loader that depends on its
// history fails almost every one of the case's hundreds of loads; the first
// witness of each key is the shortest history).
func (a *aggRec) Violation(key, what string, witness any) {
	a.mu.Lock()
	dup := a.seen[key]
	a.seen[key] = true
	if dup {
		a.n["history_repeated_violations_not_reported_again"]++
	}
	a.mu.Unlock()
	if !dup {
		a.Recorder.Violation(key, what, witness)
	}
}

func (a *aggRec) Count(name string, n int64) {
	a.mu.Lock()
	a.n[name] += n
	a.mu.Unlock()
}

func (a *aggRec) flush() {
	a.mu.Lock()
	defer a.mu.Unlock()
	names := make([]string, 0, len(a.n))
	for k := range a.n {
		names = append(names, k)
	}
	sort.Strings(names)
	for _, k := range names {
		a.Recorder.Count(k, a.n[k])
	}
	a.n = map[string]int64{}
}

// ---- images -------------------------------------------------------------------

// hImage is one code-object image of a history case together with its oracle.
type hImage struct {
	Label   string
	Bytes   []byte // pristine; the loader only ever sees copies
	Kernels []ownKernel
	Desc    any // description for the witness (fileSpec or file name)
}

func synthImage(label string, f *fileSpec) *hImage {
	b := buildELF(f, -1, 0)
	im := &hImage{Label: label, Bytes: b.Bytes, Desc: f}
	for i := range f.Kernels {
		k := &f.Kernels[i]
		t, s := expectFor(k)
		im.Kernels = append(im.Kernels, ownKernel{Name: k.Name, Size: uint64(len(k.symbolBytes())), Truth: t, Shifted: s, Class: classOf(k), FileOff: b.TextOff[k.Name]})
	}
	return im
}

func shippedImage(repo, path string) (*hImage, error) {
	raw, err := os.ReadFile(path)
	if err != nil {
		return nil, err
	}
	ks, _, err := extractOwnBytes(raw)
	if err != nil {
		return nil, err
	}
	rel := strings.TrimPrefix(path, repo+"/")
	return &hImage{Label: rel, Bytes: raw, Kernels: ks, Desc: rel}, nil
}

// shippedPatches derives in-memory patched copies of a shipped image: one
// metadata field or one instruction word of one kernel changed; the oracle of a
// patched image is the independent extractor run over the patched bytes.
func shippedPatches(im *hImage, maxKernels int) []*hImage {
	var out []*hImage
	le := binary.LittleEndian
	for ki, k := range im.Kernels {
		if ki >= maxKernels {
			break
		}
		type patch struct {
			what string
			off  uint64
			f    func(b []byte)
		}
		add32 := func(d uint32) func(b []byte) { return func(b []byte) { le.PutUint32(b, le.Uint32(b)+d) } }
		xor32 := func(d uint32) func(b []byte) { return func(b []byte) { le.PutUint32(b, le.Uint32(b)^d) } }
		add16 := func(d uint16) func(b []byte) { return func(b []byte) { le.PutUint16(b, le.Uint16(b)+d) } }
		var ps []patch
		switch k.Class {
		case "v5":
			ps = []patch{
				{"descriptor group_segment_fixed_size += 4096", k.KDFileOff + 0, add32(4096)},
				{"descriptor private_segment_fixed_size += 16", k.KDFileOff + 4, add32(16)},
				{"descriptor kernarg_size += 8", k.KDFileOff + 8, add32(8)},
				{"descriptor compute_pgm_rsrc1 ^= 1", k.KDFileOff + 48, xor32(1)},
				{"descriptor compute_pgm_rsrc2 ^= 1<<9", k.KDFileOff + 52, xor32(1 << 9)},
			}
			if k.Size >= 12 {
				ps = append(ps, patch{"instruction word 2 ^= 0x100", k.FileOff + 8, xor32(0x100)})
			}
		case "v3":
			ps = []patch{
				{"header workgroup_group_segment_byte_size += 4096", k.FileOff + 64, add32(4096)},
				{"header kernarg_segment_byte_size += 8", k.FileOff + 72, add32(8)},
				{"header workitem_vgpr_count += 1", k.FileOff + 86, add16(1)},
				{"header compute_pgm_rsrc1 ^= 1", k.FileOff + 48, xor32(1)},
			}
			if k.Size >= 256+8 {
				ps = append(ps, patch{"instruction word 1 ^= 0x100", k.FileOff + 256 + 4, xor32(0x100)})
			}
		default:
			if k.Size >= 8 {
				ps = []patch{{"instruction word 1 ^= 0x100", k.FileOff + 4, xor32(0x100)}}
			}
		}
		for _, p := range ps {
			if p.off+4 > uint64(len(im.Bytes)) {
				continue
			}
			b := append([]byte(nil), im.Bytes...)
			p.f(b[p.off:])
			ks, _, err := extractOwnBytes(b)
			if err != nil || len(ks) != len(im.Kernels) {
				continue
			}
			out = append(out, &hImage{Label: im.Label + " [patched: " + p.what + " of " + k.Name + "]", Bytes: b, Kernels: ks, Desc: im.Desc})
		}
	}
	return out
}

// ---- variants of a generated image -----------------------------------------------

func cloneSpec(f *fileSpec) *fileSpec {
	g := *f
	g.Kernels = make([]kernelSpec, len(f.Kernels))
	for i, k := range f.Kernels {
		c := k
		c.Code = append([]byte(nil), k.Code...)
		if k.Header != nil {
			h := *k.Header
			h.Tail = append([]byte(nil), k.Header.Tail...)
			c.Header = &h
		}
		if k.KD != nil {
			d := *k.KD
			c.KD = &d
		}
		if k.NumberedSgpr != nil {
			v := *k.NumberedSgpr
			c.NumberedSgpr = &v
		}
		if k.NumVgpr != nil {
			v := *k.NumVgpr
			c.NumVgpr = &v
		}
		g.Kernels[i] = c
	}
	return &g
}

var kdVariants = []string{"kd.group_size", "kd.private_size", "kd.kernarg_size", "kd.entry_offset", "kd.rsrc1", "kd.rsrc2", "kd.rsrc3", "sym.numbered_sgpr", "sym.num_vgpr"}
var hdrVariants = []string{"hdr.version_minor", "hdr.machine_major", "hdr.machine_minor", "hdr.machine_stepping", "hdr.rsrc1", "hdr.rsrc2", "hdr.code_properties",
	"hdr.private_size", "hdr.group_size", "hdr.kernarg_size", "hdr.sgpr_count", "hdr.vgpr_count"}
var anyVariants = []string{"code.word", "code.length", "layout", "swap-names"}

func variantsFor(f *fileSpec, ki int) []string {
	var out []string
	k := &f.Kernels[ki]
	if k.KD != nil {
		out = append(out, kdVariants...)
	}
	if k.Header != nil {
		out = append(out, hdrVariants...)
	}
	out = append(out, anyVariants[:3]...)
	if len(f.Kernels) >= 2 {
		out = append(out, "swap-names")
	}
	return out
}

// applyVariant changes g (a clone) in one respect and describes the change.
func applyVariant(g *fileSpec, ki int, what string, r *vlib.PRNG) (string, bool) {
	k := &g.Kernels[ki]
	d, h := k.KD, k.Header
	lab := func(a, b any) string { return fmt.Sprintf("%s of kernel %s: %v -> %v", what, k.Name, a, b) }
	if strings.HasPrefix(what, "kd.") && d == nil || strings.HasPrefix(what, "sym.") && d == nil || strings.HasPrefix(what, "hdr.") && h == nil {
		return "", false
	}
	var label string
	switch what {
	case "kd.group_size":
		o := d.GroupSize
		d.GroupSize = (o + 4096) & 0xffff
		label = lab(o, d.GroupSize)
	case "kd.private_size":
		o := d.PrivateSize
		d.PrivateSize = o + 16
		label = lab(o, d.PrivateSize)
	case "kd.kernarg_size":
		o := d.KernargSize
		switch {
		case o == 0:
			d.KernargSize = uint32(8 + 8*r.Intn(32))
		case r.Chance(1, 3):
			d.KernargSize = 0
		default:
			d.KernargSize = o + 8
		}
		label = lab(o, d.KernargSize)
	case "kd.entry_offset":
		o := d.EntryOffset
		d.EntryOffset = o + 64
		label = lab(o, d.EntryOffset)
	case "kd.rsrc1":
		o := d.Rsrc1
		d.Rsrc1 = o ^ 1<<uint(r.Intn(10))
		label = lab(fmtv(o), fmtv(d.Rsrc1))
	case "kd.rsrc2":
		o := d.Rsrc2
		d.Rsrc2 = o ^ 1<<uint([]int{9, 10, 13, 14, 20, 31}[r.Intn(6)])
		label = lab(fmtv(o), fmtv(d.Rsrc2))
	case "kd.rsrc3":
		o := d.Rsrc3
		d.Rsrc3 = o ^ 1<<uint(r.Intn(8))
		label = lab(fmtv(o), fmtv(d.Rsrc3))
	case "sym.numbered_sgpr":
		var o any = "absent"
		v := uint64(40 + r.Intn(60))
		if k.NumberedSgpr != nil {
			o = *k.NumberedSgpr
			v = *k.NumberedSgpr + 16
		}
		k.NumberedSgpr = &v
		label = lab(o, v)
	case "sym.num_vgpr":
		var o any = "absent"
		v := uint64(70 + r.Intn(180))
		if k.NumVgpr != nil {
			o = *k.NumVgpr
			v = *k.NumVgpr + 8
		}
		k.NumVgpr = &v
		label = lab(o, v)
	case "hdr.version_minor":
		o := h.VersionMinor
		h.VersionMinor = (o + 1) % 3
		label = lab(o, h.VersionMinor)
	case "hdr.machine_major":
		o := h.MachineMajor
		h.MachineMajor = 7 + (o-7+1)%3
		label = lab(o, h.MachineMajor)
	case "hdr.machine_minor":
		o := h.MachineMinor
		h.MachineMinor = o ^ 1
		label = lab(o, h.MachineMinor)
	case "hdr.machine_stepping":
		o := h.MachineStep
		h.MachineStep = o + 1
		label = lab(o, h.MachineStep)
	case "hdr.rsrc1":
		o := h.Rsrc1
		h.Rsrc1 = o ^ 1<<uint(r.Intn(32))
		label = lab(fmtv(o), fmtv(h.Rsrc1))
	case "hdr.rsrc2":
		o := h.Rsrc2
		h.Rsrc2 = o ^ 1<<uint(r.Intn(32))
		label = lab(fmtv(o), fmtv(h.Rsrc2))
	case "hdr.code_properties":
		o := h.CodeProps
		h.CodeProps = o ^ 1<<uint(r.Intn(10))
		label = lab(fmtv(o), fmtv(h.CodeProps))
	case "hdr.private_size":
		o := h.PrivateSize
		h.PrivateSize = o + 4
		label = lab(o, h.PrivateSize)
	case "hdr.group_size":
		o := h.GroupSize
		h.GroupSize = o + 64
		label = lab(o, h.GroupSize)
	case "hdr.kernarg_size":
		o := h.KernargSize
		h.KernargSize = o + 8
		label = lab(o, h.KernargSize)
	case "hdr.sgpr_count":
		o := h.SgprCount
		h.SgprCount = o + 1
		label = lab(o, h.SgprCount)
	case "hdr.vgpr_count":
		o := h.VgprCount
		h.VgprCount = o + 1
		label = lab(o, h.VgprCount)
	case "code.word":
		n := len(k.Code)
		if n < 4 {
			return "", false
		}
		pos := 0
		if n >= 32 { // keep the first 24 bytes: they decide whether header-less code imitates a header
			pos = 24 + 4*r.Intn((n-24)/4)
		}
		if pos+4 > n {
			pos = n - 4
		}
		o := binary.LittleEndian.Uint32(k.Code[pos:])
		v := o ^ 1<<uint(r.Intn(32))
		if pos == 0 && v == 1 {
			v = o ^ 0x100
		}
		binary.LittleEndian.PutUint32(k.Code[pos:], v)
		label = fmt.Sprintf("instruction word at code byte %d of kernel %s: %#x -> %#x", pos, k.Name, o, v)
	case "code.length":
		if d == nil && h == nil && k.Mimic == "complete-signature-short" {
			// growing it to 256 bytes would make header-less code a complete header: outside the
			// generator's contract (such code only exists together with a descriptor)
			return "", false
		}
		extra := make([]byte, 4*(1+r.Intn(16)))
		r.Bytes(extra)
		o := len(k.Code)
		k.Code = append(k.Code, extra...)
		label = lab(o, len(k.Code))
	case "layout":
		o := g.Seed
		g.Seed = r.Uint64()
		label = fmt.Sprintf("layout seed (order of kernels in .text, symbol order, padding): %#x -> %#x", o, g.Seed)
	case "swap-names":
		n := len(g.Kernels)
		if n < 2 {
			return "", false
		}
		kj := (ki + 1 + r.Intn(n-1)) % n
		a, b := g.Kernels[ki].Name, g.Kernels[kj].Name
		g.Kernels[ki].Name, g.Kernels[kj].Name = b, a
		label = fmt.Sprintf("kernels %s and %s swap their names", a, b)
	default:
		return "", false
	}
	k.CodeLen = len(k.Code)
	k.CodeHead = fmt.Sprintf("%x", head(k.Code, 24))
	return label, true
}

// ---- result snapshots -----------------------------------------------------------------

type snapshot struct {
	Version insts.CodeObjectVersion
	Data    []byte
	Meta    insts.KernelCodeObjectMeta
	HasMeta bool
	Sym     elf.Symbol
	HasSym  bool
}

func snap(co *insts.KernelCodeObject) snapshot {
	s := snapshot{Version: co.Version, Data: append([]byte(nil), co.Data...)}
	if co.KernelCodeObjectMeta != nil {
		s.Meta, s.HasMeta = *co.KernelCodeObjectMeta, true
	}
	if co.Symbol != nil {
		s.Sym, s.HasSym = *co.Symbol, true
	}
	return s
}

// diff names the parts of co that differ from the snapshot ("" = none).
func (s snapshot) diff(co *insts.KernelCodeObject) string {
	var parts []string
	if co.Version != s.Version {
		parts = append(parts, "Version")
	}
	if !bytes.Equal(co.Data, s.Data) {
		parts = append(parts, "Data")
	}
	if (co.KernelCodeObjectMeta != nil) != s.HasMeta || s.HasMeta && *co.KernelCodeObjectMeta != s.Meta {
		parts = append(parts, "metadata")
	}
	if (co.Symbol != nil) != s.HasSym || s.HasSym && !reflect.DeepEqual(*co.Symbol, s.Sym) {
		parts = append(parts, "Symbol")
	}
	return strings.Join(parts, "+")
}

// scramble changes every settable field of a struct value.
func scramble(v reflect.Value) int {
	n := 0
	for i := 0; i < v.NumField(); i++ {
		f := v.Field(i)
		if !f.CanSet() {
			continue
		}
		switch f.Kind() {
		case reflect.Uint, reflect.Uint8, reflect.Uint16, reflect.Uint32, reflect.Uint64, reflect.Uintptr:
			f.SetUint(^f.Uint())
		case reflect.Int, reflect.Int8, reflect.Int16, reflect.Int32, reflect.Int64:
			f.SetInt(^f.Int())
		case reflect.Bool:
			f.SetBool(!f.Bool())
		case reflect.String:
			f.SetString(f.String() + "~mutated-by-caller")
		default:
			continue
		}
		n++
	}
	return n
}

// mutateResult is a caller that treats a loaded code object as its own: every
// exported field of the object, of its metadata and of its symbol, and every
// byte of Data is changed.
func mutateResult(co *insts.KernelCodeObject) int {
	n := 0
	for i := range co.Data {
		co.Data[i] ^= 0xa5
		n++
	}
	if co.KernelCodeObjectMeta != nil {
		n += scramble(reflect.ValueOf(co.KernelCodeObjectMeta).Elem())
	}
	if co.Symbol != nil {
		n += scramble(reflect.ValueOf(co.Symbol).Elem())
	}
	co.Version ^= 6
	co.Data = co.Data[:len(co.Data)/2]
	return n + 2
}

func overlaps(a, b []byte) bool {
	if cap(a) == 0 || cap(b) == 0 {
		return false
	}
	a0 := uintptr(unsafe.Pointer(unsafe.SliceData(a)))
	b0 := uintptr(unsafe.Pointer(unsafe.SliceData(b)))
	return a0 < b0+uintptr(cap(b)) && b0 < a0+uintptr(cap(a))
}

func expectEq(a, b expect) bool {
	if !bytes.Equal(a.Data, b.Data) {
		return false
	}
	a.Data, b.Data = nil, nil
	return reflect.DeepEqual(a, b)
}

// ---- one history ------------------------------------------------------------------

type kept struct {
	step    int
	label   string
	kernel  string
	via     string
	co      *insts.KernelCodeObject
	snap    snapshot
	truth   expect
	input   []byte // the slice the loader was given
	mutated bool   // the harness itself changed this object
}

type hist struct {
	rec    vlib.Recorder
	idx    int // batch case index
	hidx   int
	kind   string
	prefix string // "history|" or "history|concurrent|"
	base   any
	tag    string // goroutine tag in concurrent cases

	buf      []byte // THE reused backing array
	n        int    // length of the image it holds now
	cur      *hImage
	bufTruth map[string]expect // per kernel name: oracle of the last load through buf
	path     string            // THE reused file path
	elfs     map[*hImage]*elf.File

	step   int
	trace  []string
	kept   []*kept
	recent map[string][]*kept
}

func newHist(rec vlib.Recorder, idx, hidx int, kind string, base any, capacity int, tag string) *hist {
	return &hist{rec: rec, idx: idx, hidx: hidx, kind: kind, prefix: "history|", base: base, tag: tag,
		buf: make([]byte, capacity), bufTruth: map[string]expect{}, elfs: map[*hImage]*elf.File{}, recent: map[string][]*kept{},
		path: filepath.Join(".", fmt.Sprintf("history-%d%s.hsaco", idx, tag))}
}

func maxLen(pool []*hImage) int {
	m := 0
	for _, im := range pool {
		if len(im.Bytes) > m {
			m = len(im.Bytes)
		}
	}
	return m
}

func (h *hist) note(format string, a ...any) {
	h.step++
	h.trace = append(h.trace, fmt.Sprintf("%d: ", h.step)+fmt.Sprintf(format, a...))
}

func (h *hist) wit(im *hImage, name string) func(map[string]any) map[string]any {
	step := h.step
	return func(extra map[string]any) map[string]any {
		t := h.trace
		if len(t) > 40 {
			t = t[len(t)-40:]
		}
		m := map[string]any{"case_index": h.idx, "history_index": h.hidx, "history_kind": h.kind, "step": step, "image": im.Label, "kernel": name,
			"steps_so_far": append([]string(nil), t...), "image_description": im.Desc}
		if h.tag != "" {
			m["goroutine"] = h.tag
		}
		if h.base != nil {
			m["base"] = h.base
		}
		for a, b := range extra {
			m[a] = b
		}
		return m
	}
}

// fill copies an image into the reused backing array (the old tail stays, as in a read buffer).
func (h *hist) fill(im *hImage) {
	if h.cur == im && bytes.Equal(h.buf[:h.n], im.Bytes) {
		return
	}
	h.n = copy(h.buf, im.Bytes)
	h.cur = im
	h.rec.Count("history_buffer_refills", 1)
	h.note("copy %s (%d bytes) into the reused backing array", im.Label, h.n)
}

// patchTo turns the image in the reused backing array into `to` by writing only the differing bytes.
func (h *hist) patchTo(to *hImage) bool {
	if h.cur == nil || len(to.Bytes) != h.n {
		return false
	}
	nd := 0
	for i := range to.Bytes {
		if h.buf[i] != to.Bytes[i] {
			h.buf[i] = to.Bytes[i]
			nd++
		}
	}
	if nd == 0 {
		return false
	}
	h.rec.Count("history_in_place_patches", 1)
	h.note("patch %d byte(s) of the backing array in place: %s -> %s", nd, h.cur.Label, to.Label)
	h.cur = to
	return true
}

// do performs one load and judges it against the oracle of the image the loader was given.
func (h *hist) do(via string, im *hImage, k *ownKernel, auto bool, input []byte, load func(name string) *insts.KernelCodeObject) *insts.KernelCodeObject {
	name := k.Name
	if auto && len(im.Kernels) == 1 {
		name = ""
		h.rec.Count("history_autodetect_loads", 1)
	}
	h.note("%s <- %s, kernel %q", via, im.Label, name)
	class := h.prefix + via
	where := fmt.Sprintf("history case %d (%s)%s step %d: %s of %s, kernel %s (%s)", h.hidx, h.kind, h.tag, h.step, via, im.Label, k.Name, k.Class)
	witf := h.wit(im, k.Name)
	h.rec.Count("history_loads", 1)
	h.rec.Count("history_loads_"+via, 1)
	co := guarded(h.rec, class, where, witf, func() *insts.KernelCodeObject { return load(name) })
	if co == nil {
		return nil
	}
	// no "shifted descriptor reading" model here (that defect is fixed): a stale result that agrees
	// with it in one word by coincidence must not be filed under that key
	ok := compare(h.rec, co, k.Truth, nil, class, where, k.Name, k.Size, witf)
	if co.KernelCodeObjectMeta == nil {
		return nil
	}
	if !ok {
		// root cause hint: is this exactly what an earlier load returned for other contents?
		rs := h.recent[k.Name]
		for i := len(rs) - 1; i >= 0; i-- {
			e := rs[i]
			if !e.mutated && !expectEq(e.truth, k.Truth) && e.snap.diff(co) == "" {
				h.rec.Violation("C13|"+class+"|same-as-earlier-load-of-different-contents",
					fmt.Sprintf("%s: the result is exactly what step %d (%s of %s) returned, although the image the loader was given now stores something else for this kernel "+
						"(together with history-only field keys this means the load depends on the process's load history; if the same field also fails outside the history cases the loader ignores that field statelessly)",
						where, e.step, e.via, e.label),
					witf(map[string]any{"earlier_step": e.step, "earlier_image": e.label}))
				break
			}
		}
	}
	if input != nil && len(co.Data) > 0 && overlaps(co.Data, input) {
		h.rec.Count("note_result_data_aliases_input_image", 1)
	}
	e := &kept{step: h.step, label: im.Label, kernel: k.Name, via: via, co: co, snap: snap(co), truth: k.Truth, input: input}
	h.kept = append(h.kept, e)
	rs := append(h.recent[k.Name], e)
	if len(rs) > 12 {
		rs = rs[len(rs)-12:]
	}
	h.recent[k.Name] = rs
	return co
}

func (h *hist) loadReused(im *hImage, k *ownKernel, auto bool) *insts.KernelCodeObject {
	h.fill(im)
	if prev, ok := h.bufTruth[k.Name]; ok && !expectEq(prev, k.Truth) {
		h.rec.Count("history_reused_loads_contents_changed_for_kernel", 1)
		if prev.Version != k.Truth.Version {
			h.rec.Count("history_reused_loads_code_object_version_changed", 1)
		}
	}
	h.bufTruth[k.Name] = k.Truth
	h.rec.Distinct("history_images_through_reused_buffer", im.Label)
	in := h.buf[:h.n]
	return h.do("reused-buffer", im, k, auto, in, func(name string) *insts.KernelCodeObject { return insts.LoadKernelCodeObjectFromBytes(in, name) })
}

func (h *hist) loadFresh(im *hImage, k *ownKernel, auto bool) (*insts.KernelCodeObject, []byte) {
	in := append([]byte(nil), im.Bytes...)
	return h.do("fresh-slice", im, k, auto, in, func(name string) *insts.KernelCodeObject { return insts.LoadKernelCodeObjectFromBytes(in, name) }), in
}

// loadSame loads again through a slice an earlier load has seen (unchanged contents).
func (h *hist) loadSame(via string, im *hImage, k *ownKernel, in []byte) *insts.KernelCodeObject {
	return h.do(via, im, k, false, in, func(name string) *insts.KernelCodeObject { return insts.LoadKernelCodeObjectFromBytes(in, name) })
}

func (h *hist) loadPath(im *hImage, k *ownKernel, auto bool) *insts.KernelCodeObject {
	if err := os.WriteFile(h.path, im.Bytes, 0o644); err != nil {
		h.rec.Inconclusive("cannot write " + h.path + ": " + err.Error())
		return nil
	}
	h.note("rewrite %s with %s", h.path, im.Label)
	return h.do("reused-path", im, k, auto, nil, func(name string) *insts.KernelCodeObject { return insts.LoadKernelCodeObjectFromFS(h.path, name) })
}

func (h *hist) loadELFOverReused(im *hImage, k *ownKernel) *insts.KernelCodeObject {
	h.fill(im)
	in := h.buf[:h.n]
	ef, err := elf.NewFile(bytes.NewReader(in))
	if err != nil {
		h.rec.Inconclusive("harness bug: image is not an ELF for debug/elf: " + err.Error())
		return nil
	}
	h.bufTruth[k.Name] = k.Truth
	return h.do("elf-over-reused-buffer", im, k, false, in, func(name string) *insts.KernelCodeObject { return insts.LoadKernelCodeObjectFromELF(ef, name) })
}

func (h *hist) loadSharedELF(im *hImage, k *ownKernel) *insts.KernelCodeObject {
	ef := h.elfs[im]
	if ef == nil {
		var err error
		ef, err = elf.NewFile(bytes.NewReader(append([]byte(nil), im.Bytes...)))
		if err != nil {
			h.rec.Inconclusive("harness bug: image is not an ELF for debug/elf: " + err.Error())
			return nil
		}
		h.elfs[im] = ef
	}
	return h.do("shared-elf-file", im, k, false, nil, func(name string) *insts.KernelCodeObject { return insts.LoadKernelCodeObjectFromELF(ef, name) })
}

// aliasTest: load twice (same image, same slice, same name), let the caller
// scribble over the first result, load a third time.
func (h *hist) aliasTest(im *hImage, k *ownKernel, reused bool) {
	var in []byte
	var r1 *insts.KernelCodeObject
	via := "fresh-slice"
	if reused {
		via = "reused-buffer"
		r1 = h.loadReused(im, k, false)
		in = h.buf[:h.n]
	} else {
		r1, in = h.loadFresh(im, k, false)
	}
	if r1 == nil {
		return
	}
	r2 := h.loadSame(via, im, k, in)
	if r2 == nil {
		return
	}
	s2 := snap(r2)
	for _, e := range h.kept {
		if e.co == r1 {
			e.mutated = true
		}
	}
	n := mutateResult(r1)
	h.rec.Count("history_results_mutated", 1)
	h.rec.Count("history_result_fields_and_bytes_mutated", int64(n))
	h.note("the caller changes every exported field and every Data byte of the result of step %d", h.step-1)
	witf := h.wit(im, k.Name)
	where := fmt.Sprintf("history case %d (%s)%s step %d: %s kernel %s", h.hidx, h.kind, h.tag, h.step, im.Label, k.Name)
	if !bytes.Equal(in, im.Bytes) {
		// the result's Data is a window of the input image (not what the code does today, and
		// not excluded by the property): the caller's writes went into the image; restore it
		h.rec.Count("note_mutating_result_changed_input_image", 1)
		copy(in, im.Bytes)
	}
	if r2 == r1 {
		h.rec.Violation("C13|"+h.prefix+"result-aliases-earlier-result|same-object",
			where+": two loads of the same kernel returned the same *KernelCodeObject; a caller changing one result changes the other", witf(nil))
		for _, e := range h.kept {
			if e.co == r1 {
				e.mutated = true
			}
		}
	} else if d := s2.diff(r2); d != "" {
		h.rec.Violation("C13|"+h.prefix+"result-aliases-earlier-result|"+d,
			where+": changing the first of two results of loading the same kernel changed the second result's "+d+" (the results share storage)", witf(map[string]any{"changed": d}))
		for _, e := range h.kept {
			if e.co == r2 {
				e.mutated = true
			}
		}
	}
	h.rec.Count("history_loads_after_result_mutation", 1)
	h.do("after-result-mutation", im, k, false, in, func(name string) *insts.KernelCodeObject { return insts.LoadKernelCodeObjectFromBytes(in, name) })
}

// recheck: results of earlier loads must still be what they were when they
// were returned, unless the harness changed them or they are windows of an
// input buffer the harness has rewritten since.
func (h *hist) recheck() {
	for _, e := range h.kept {
		if e.mutated {
			continue
		}
		h.rec.Count("history_earlier_results_rechecked", 1)
		d := e.snap.diff(e.co)
		if d == "" {
			continue
		}
		if d == "Data" && e.input != nil && overlaps(e.co.Data, e.input) {
			h.rec.Count("note_result_data_follows_rewritten_input_buffer", 1)
			continue
		}
		im := &hImage{Label: e.label}
		h.rec.Violation("C13|"+h.prefix+"earlier-result-changed-by-later-load|"+d,
			fmt.Sprintf("history case %d (%s)%s: the %s of the object returned by step %d (%s of %s kernel %s) changed during later loads although the caller did not touch it and it is not a window of a rewritten input buffer",
				h.hidx, h.kind, h.tag, d, e.step, e.via, e.label, e.kernel), h.wit(im, e.kernel)(map[string]any{"earlier_step": e.step, "changed": d}))
		e.mutated = true
	}
}

// near[i] = images of the pool that an in-place patch of few bytes turns image i into.
func nearPairs(pool []*hImage) [][]int {
	near := make([][]int, len(pool))
	for i := range pool {
		for j := range pool {
			if i == j || len(pool[i].Bytes) != len(pool[j].Bytes) {
				continue
			}
			a, b := pool[i].Bytes, pool[j].Bytes
			nd := 0
			for x := range a {
				if a[x] != b[x] {
					nd++
					if nd > 16 {
						break
					}
				}
			}
			if nd > 0 && nd <= 16 {
				near[i] = append(near[i], j)
			}
		}
	}
	return near
}

func usable(pool []*hImage) []*hImage {
	var out []*hImage
	for _, im := range pool {
		if len(im.Kernels) > 0 {
			out = append(out, im)
		}
	}
	return out
}

// runPool is the serial history over a pool of images: a systematic part that
// guarantees every mode occurs, then a seeded random interleaving.
func runPool(h *hist, pool []*hImage, r *vlib.PRNG, maxPatchPairs, aliasTests, randomSteps int) {
	pool = usable(pool)
	if len(pool) == 0 {
		return
	}
	near := nearPairs(pool)
	indexOf := map[*hImage]int{}
	for i, im := range pool {
		indexOf[im] = i
	}
	// 1. every image through the one backing array, every kernel
	for _, im := range pool {
		for ki := range im.Kernels {
			h.loadReused(im, &im.Kernels[ki], r.Chance(1, 4))
		}
	}
	// ... and back again (the first images return after the buffer has held the others)
	for i := len(pool) - 1; i >= 0; i-- {
		im := pool[i]
		h.loadReused(im, &im.Kernels[r.Intn(len(im.Kernels))], false)
	}
	// 2. in-place patches: load, patch, load; patch back, load
	np := 0
	for i := range pool {
		for _, j := range near[i] {
			if np >= maxPatchPairs || j < i {
				continue
			}
			np++
			a, b := pool[i], pool[j]
			for ki := range a.Kernels {
				h.loadReused(a, &a.Kernels[ki], false)
			}
			if h.patchTo(b) {
				for ki := range b.Kernels {
					h.loadReused(b, &b.Kernels[ki], false)
					h.rec.Count("history_loads_after_in_place_patch", 1)
				}
			}
			if h.patchTo(a) {
				h.loadReused(a, &a.Kernels[r.Intn(len(a.Kernels))], false)
				h.rec.Count("history_loads_after_in_place_patch", 1)
			}
		}
	}
	// 3. results the caller scribbles over
	for t := 0; t < aliasTests; t++ {
		im := pool[(t*7)%len(pool)]
		h.aliasTest(im, &im.Kernels[t%len(im.Kernels)], t%3 == 2)
	}
	// 4. the other entry points: one path rewritten with image after image, one *elf.File for all names
	for i, im := range pool {
		if i >= 6 {
			break
		}
		for ki := range im.Kernels {
			h.loadPath(im, &im.Kernels[ki], false)
		}
		for ki := len(im.Kernels) - 1; ki >= 0; ki-- {
			h.loadSharedELF(im, &im.Kernels[ki])
		}
		h.loadELFOverReused(im, &im.Kernels[0])
	}
	// 5. seeded interleaving
	for s := 0; s < randomSteps; s++ {
		im := pool[r.Intn(len(pool))]
		k := &im.Kernels[r.Intn(len(im.Kernels))]
		switch op := r.Intn(20); {
		case op < 6:
			h.loadReused(im, k, r.Chance(1, 5))
		case op < 8:
			if h.cur != nil && bytes.Equal(h.buf[:h.n], h.cur.Bytes) {
				c := h.cur
				h.loadReused(c, &c.Kernels[r.Intn(len(c.Kernels))], false)
			}
		case op < 11:
			if h.cur == nil || !bytes.Equal(h.buf[:h.n], h.cur.Bytes) {
				h.fill(im)
			}
			ci := indexOf[h.cur]
			if len(near[ci]) == 0 {
				h.loadReused(h.cur, &h.cur.Kernels[r.Intn(len(h.cur.Kernels))], false)
				break
			}
			before := h.cur
			h.loadReused(before, &before.Kernels[r.Intn(len(before.Kernels))], false)
			to := pool[near[ci][r.Intn(len(near[ci]))]]
			if h.patchTo(to) {
				for ki := range to.Kernels {
					h.loadReused(to, &to.Kernels[ki], false)
					h.rec.Count("history_loads_after_in_place_patch", 1)
				}
			}
		case op < 13:
			h.loadFresh(im, k, r.Chance(1, 5))
		case op < 15:
			h.loadPath(im, k, r.Chance(1, 5))
		case op < 16:
			h.loadELFOverReused(im, k)
		case op < 18:
			h.loadSharedELF(im, k)
		default:
			h.aliasTest(im, k, r.Bool())
		}
	}
	h.recheck()
	_ = os.Remove(h.path)
}

// runConcurrent: several goroutines load at once - from shared immutable
// images (what //go:embed blobs are), from private reused buffers and from
// private fresh slices. No goroutine writes memory another one reads.
func runConcurrent(rec vlib.Recorder, idx, hidx int, kind string, base any, pool []*hImage, r *vlib.PRNG, goroutines, loads int) {
	pool = usable(pool)
	if len(pool) == 0 {
		return
	}
	shared := make([][]byte, len(pool))
	for i, im := range pool {
		shared[i] = append([]byte(nil), im.Bytes...)
	}
	start := make(chan struct{})
	var wg sync.WaitGroup
	for g := 0; g < goroutines; g++ {
		h := newHist(rec, idx, hidx, kind, base, maxLen(pool), fmt.Sprintf("-g%d", g))
		h.prefix = "history|concurrent|"
		rg := r.ForkN("goroutine", g)
		wg.Add(1)
		go func() {
			defer wg.Done()
			<-start
			for s := 0; s < loads; s++ {
				i := rg.Intn(len(pool))
				im := pool[i]
				k := &im.Kernels[rg.Intn(len(im.Kernels))]
				h.rec.Count("history_concurrent_loads", 1)
				switch op := rg.Intn(8); {
				case op < 4:
					in := shared[i]
					h.do("shared-immutable-image", im, k, rg.Chance(1, 5), nil, func(name string) *insts.KernelCodeObject { return insts.LoadKernelCodeObjectFromBytes(in, name) })
				case op < 6:
					h.loadReused(im, k, false)
				case op < 7:
					h.loadFresh(im, k, false)
				default:
					h.loadSharedELF(im, k)
				}
			}
			h.recheck()
		}()
	}
	rec.Count("history_concurrent_goroutines", int64(goroutines))
	close(start)
	wg.Wait()
}

// ---- the case list -------------------------------------------------------------------

// shippedGroups: shipped files of one benchmark directory ("native/" folded
// into its parent); the gcn3 and the gfx942 build of a benchmark define the
// same kernel names.
func shippedGroups(shipped []string) [][]string {
	by := map[string][]string{}
	var order []string
	for _, p := range shipped {
		d := filepath.Dir(p)
		if filepath.Base(d) == "native" {
			d = filepath.Dir(d)
		}
		if _, ok := by[d]; !ok {
			order = append(order, d)
		}
		by[d] = append(by[d], p)
	}
	var out [][]string
	for _, d := range order {
		if len(by[d]) >= 2 {
			out = append(out, by[d])
		}
	}
	return out
}

type histPlan struct {
	repo    string
	shipped []string
	groups  [][]string
	canon   []*fileSpec
}

func planHistory(repo string, shipped []string, canon []*fileSpec) histPlan {
	return histPlan{repo: repo, shipped: shipped, groups: shippedGroups(shipped), canon: canon}
}

const histCanonConcurrent = 2

// fixed = number of seed-independent history cases
func (p histPlan) fixed() int { return 1 + len(p.groups) + len(p.canon) + histCanonConcurrent }

func (p histPlan) kindOf(hidx int) (string, int) {
	switch {
	case hidx == 0:
		return "shipped-walker", 0
	case hidx < 1+len(p.groups):
		return "shipped-group", hidx - 1
	case hidx < 1+len(p.groups)+len(p.canon):
		return "synthetic-canonical", hidx - 1 - len(p.groups)
	case hidx < p.fixed():
		return "concurrent-canonical", hidx - 1 - len(p.groups) - len(p.canon)
	}
	j := hidx - p.fixed()
	if j%8 == 7 {
		return "concurrent-seeded", j
	}
	return "synthetic-seeded", j
}

func (p histPlan) describe(seed int64, hidx int) any {
	kind, arg := p.kindOf(hidx)
	m := map[string]any{"history_index": hidx, "history_kind": kind}
	switch kind {
	case "shipped-group":
		m["files"] = p.groups[arg]
	case "synthetic-canonical":
		m["base"] = p.canon[arg]
	case "synthetic-seeded", "concurrent-seeded":
		m["base"] = genFile(batch.Rand("C13", seed, "history").ForkN("h", arg), arg)
	}
	return m
}

// synthPool: base image, all or some variants of it, optionally a second
// unrelated file that defines kernels of the same names.
func synthPool(f *fileSpec, r *vlib.PRNG, all bool, nVariants int, other *fileSpec) []*hImage {
	pool := []*hImage{synthImage(f.Name, f)}
	add := func(ki int, what string) {
		g := cloneSpec(f)
		if label, ok := applyVariant(g, ki, what, r); ok {
			g.Name = f.Name + "~" + what
			pool = append(pool, synthImage(f.Name+" [variant: "+label+"]", g))
		}
	}
	if all {
		for ki := range f.Kernels {
			for _, w := range variantsFor(f, ki) {
				add(ki, w)
			}
		}
	} else {
		for v := 0; v < nVariants; v++ {
			ki := r.Intn(len(f.Kernels))
			ws := variantsFor(f, ki)
			add(ki, ws[r.Intn(len(ws))])
		}
	}
	if other != nil {
		g := cloneSpec(other)
		used := map[string]int{}
		for i, k := range g.Kernels {
			used[k.Name] = i
		}
		for i := range g.Kernels {
			if i >= len(f.Kernels) {
				break
			}
			want := f.Kernels[i].Name
			if j, taken := used[want]; taken && j != i {
				continue
			}
			delete(used, g.Kernels[i].Name)
			g.Kernels[i].Name = want
			used[want] = i
		}
		pool = append(pool, synthImage(g.Name+" [another file defining kernels of the same names]", g))
		ki := r.Intn(len(g.Kernels))
		ws := variantsFor(g, ki)
		g2 := cloneSpec(g)
		if label, ok := applyVariant(g2, ki, ws[r.Intn(len(ws))], r); ok {
			pool = append(pool, synthImage(g.Name+" [variant: "+label+"]", g2))
		}
	}
	return pool
}

func runHistory(rec0 vlib.Recorder, p histPlan, seed int64, idx, hidx int) {
	rec := newAgg(rec0)
	defer rec.flush()
	rec.Eval()
	kind, arg := p.kindOf(hidx)
	rec.Count("history_cases", 1)
	rec.Count("history_cases_"+kind, 1)
	rec.Distinct("history_kinds", kind)
	load := func(paths []string) []*hImage {
		var out []*hImage
		for _, path := range paths {
			im, err := shippedImage(p.repo, path)
			if err != nil {
				rec.Inconclusive("independent extractor cannot read " + path + ": " + err.Error())
				continue
			}
			out = append(out, im)
		}
		return out
	}
	switch kind {
	case "shipped-walker":
		// a tool that walks over all shipped code objects with one read buffer, twice
		pool := usable(load(p.shipped))
		h := newHist(rec, idx, hidx, kind, nil, maxLen(pool), "")
		for round := 0; round < 2; round++ {
			for i := range pool {
				im := pool[i]
				if round == 1 {
					im = pool[len(pool)-1-i]
				}
				for ki := range im.Kernels {
					h.loadReused(im, &im.Kernels[ki], len(im.Kernels) == 1 && round == 1)
				}
			}
		}
		h.recheck()
	case "shipped-group":
		files := load(p.groups[arg])
		pool := append([]*hImage(nil), files...)
		for _, im := range files {
			pool = append(pool, shippedPatches(im, 2)...)
		}
		h := newHist(rec, idx, hidx, kind, p.groups[arg], maxLen(pool), "")
		// the seed's scenario first: file after file of one benchmark through one buffer, kernel by kernel
		names := map[string]bool{}
		for _, im := range files {
			for _, k := range im.Kernels {
				names[k.Name] = true
			}
		}
		sorted := make([]string, 0, len(names))
		for n := range names {
			sorted = append(sorted, n)
		}
		sort.Strings(sorted)
		for _, n := range sorted {
			for round := 0; round < 2; round++ {
				for _, im := range files {
					for ki := range im.Kernels {
						if im.Kernels[ki].Name == n {
							h.loadReused(im, &im.Kernels[ki], false)
						}
					}
				}
			}
		}
		runPool(h, pool, batch.Rand("C13", seed, "history-group").ForkN("g", arg), 40, 6, 60)
	case "synthetic-canonical":
		f := p.canon[arg]
		pool := synthPool(f, vlib.NewPRNG(0xc13+uint64(arg)), true, 0, p.canon[(arg+1)%len(p.canon)])
		h := newHist(rec, idx, hidx, kind, f, maxLen(pool), "")
		runPool(h, pool, batch.Rand("C13", seed, "history-canon").ForkN("c", arg), 60, 8, 80)
	case "synthetic-seeded":
		r := batch.Rand("C13", seed, "history").ForkN("h", arg)
		f := genFile(r, arg)
		f.Name = fmt.Sprintf("h%d", arg)
		other := genFile(r.Fork("other"), arg)
		other.Name = fmt.Sprintf("h%d-other", arg)
		pool := synthPool(f, r.Fork("variants"), false, 6+r.Intn(6), other)
		h := newHist(rec, idx, hidx, kind, f, maxLen(pool), "")
		runPool(h, pool, r.Fork("steps"), 12, 4, 50)
	case "concurrent-canonical", "concurrent-seeded":
		var f *fileSpec
		var r *vlib.PRNG
		var pool []*hImage
		if kind == "concurrent-canonical" {
			f = p.canon[len(p.canon)-1-arg]
			r = vlib.NewPRNG(0xc0c0 + uint64(arg))
			pool = synthPool(f, r, true, 0, p.canon[arg])
			// plus the shipped pairs of two benchmarks
			for gi, g := range p.groups {
				if gi%9 == arg {
					pool = append(pool, load(g)...)
				}
			}
		} else {
			r = batch.Rand("C13", seed, "history").ForkN("h", arg)
			f = genFile(r, arg)
			f.Name = fmt.Sprintf("h%d", arg)
			other := genFile(r.Fork("other"), arg)
			other.Name = fmt.Sprintf("h%d-other", arg)
			pool = synthPool(f, r.Fork("variants"), false, 8, other)
			if len(p.groups) > 0 {
				pool = append(pool, load(p.groups[r.Intn(len(p.groups))])...)
			}
		}
		runConcurrent(rec, idx, hidx, kind, f, pool, r.Fork("goroutines"), 8, 60)
	}
}
