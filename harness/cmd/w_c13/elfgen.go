package main

import (
	"bytes"
	"encoding/binary"
	"fmt"

	"verifharness/vlib"
)

// ---- description of a code-object file (the ground truth) ------------------

// hdrSpec is an amd_kernel_code_t (256 bytes, LLVM AMDGPUUsage "Kernel Code
// Object V2" / AMDKernelCodeT.h). Every field the harness sets is listed; the
// byte offsets are the harness' own (see put()).
type hdrSpec struct {
	VersionMajor   uint32 `json:"version_major"`
	VersionMinor   uint32 `json:"version_minor"`
	MachineKind    uint16 `json:"machine_kind"`
	MachineMajor   uint16 `json:"machine_major"`
	MachineMinor   uint16 `json:"machine_minor"`
	MachineStep    uint16 `json:"machine_stepping"`
	EntryOffset    int64  `json:"entry_offset"`
	PrefetchOffset int64  `json:"prefetch_offset"`
	PrefetchSize   uint64 `json:"prefetch_size"`
	MaxScratch     uint64 `json:"max_scratch"`
	Rsrc1          uint32 `json:"rsrc1"`
	Rsrc2          uint32 `json:"rsrc2"`
	CodeProps      uint32 `json:"code_properties"`
	PrivateSize    uint32 `json:"private_size"`
	GroupSize      uint32 `json:"group_size"`
	GdsSize        uint32 `json:"gds_size"`
	KernargSize    uint64 `json:"kernarg_size"`
	FbarrierCount  uint32 `json:"fbarrier_count"`
	SgprCount      uint16 `json:"wavefront_sgpr_count"`
	VgprCount      uint16 `json:"workitem_vgpr_count"`
	Tail           []byte `json:"-"` // bytes 88..255 (reserved registers, alignments, control directives)
}

func (h *hdrSpec) bytes() []byte {
	b := make([]byte, 256)
	le := binary.LittleEndian
	le.PutUint32(b[0:], h.VersionMajor)
	le.PutUint32(b[4:], h.VersionMinor)
	le.PutUint16(b[8:], h.MachineKind)
	le.PutUint16(b[10:], h.MachineMajor)
	le.PutUint16(b[12:], h.MachineMinor)
	le.PutUint16(b[14:], h.MachineStep)
	le.PutUint64(b[16:], uint64(h.EntryOffset))
	le.PutUint64(b[24:], uint64(h.PrefetchOffset))
	le.PutUint64(b[32:], h.PrefetchSize)
	le.PutUint64(b[40:], h.MaxScratch)
	le.PutUint32(b[48:], h.Rsrc1)
	le.PutUint32(b[52:], h.Rsrc2)
	le.PutUint32(b[56:], h.CodeProps)
	le.PutUint32(b[60:], h.PrivateSize)
	le.PutUint32(b[64:], h.GroupSize)
	le.PutUint32(b[68:], h.GdsSize)
	le.PutUint64(b[72:], h.KernargSize)
	le.PutUint32(b[80:], h.FbarrierCount)
	le.PutUint16(b[84:], h.SgprCount)
	le.PutUint16(b[86:], h.VgprCount)
	copy(b[88:], h.Tail)
	return b
}

// kdSpec is a kernel descriptor (64 bytes; LLVM AMDGPUUsage "Kernel
// Descriptor", llvm/Support/AMDHSAKernelDescriptor.h: group 0, private 4,
// kernarg 8, reserved 12, entry offset 16, reserved 24..43, rsrc3 44,
// rsrc1 48, rsrc2 52, kernel_code_properties 56, kernarg_preload 58,
// reserved 60).
type kdSpec struct {
	GroupSize   uint32 `json:"group_size"`
	PrivateSize uint32 `json:"private_size"`
	KernargSize uint32 `json:"kernarg_size"`
	EntryOffset int64  `json:"entry_offset"`
	Rsrc3       uint32 `json:"rsrc3"`
	Rsrc1       uint32 `json:"rsrc1"`
	Rsrc2       uint32 `json:"rsrc2"`
	Props       uint16 `json:"kernel_code_properties"`
	Preload     uint16 `json:"kernarg_preload"`
}

func (k *kdSpec) bytes() []byte {
	b := make([]byte, 64)
	le := binary.LittleEndian
	le.PutUint32(b[0:], k.GroupSize)
	le.PutUint32(b[4:], k.PrivateSize)
	le.PutUint32(b[8:], k.KernargSize)
	le.PutUint64(b[16:], uint64(k.EntryOffset))
	le.PutUint32(b[44:], k.Rsrc3)
	le.PutUint32(b[48:], k.Rsrc1)
	le.PutUint32(b[52:], k.Rsrc2)
	le.PutUint16(b[56:], k.Props)
	le.PutUint16(b[58:], k.Preload)
	return b
}

type kernelSpec struct {
	Name   string   `json:"name"`
	Header *hdrSpec `json:"header,omitempty"` // genuine amd_kernel_code_t in front of the code
	KD     *kdSpec  `json:"kd,omitempty"`     // descriptor in .rodata + "<name>.kd" symbol
	Code   []byte   `json:"-"`
	Mimic  string   `json:"mimic,omitempty"` // how the instruction bytes imitate a header
	// optional metadata symbols (SHN_ABS), value = count
	NumberedSgpr *uint64 `json:"numbered_sgpr,omitempty"`
	NumVgpr      *uint64 `json:"num_vgpr,omitempty"`
	Global       bool    `json:"global"`
	SymType      byte    `json:"sym_type"` // STT_FUNC (2) or STT_AMDGPU_HSA_KERNEL (10)
	CodeLen      int     `json:"code_len"`
	CodeHead     string  `json:"code_head"` // first bytes, hex (witness only)
}

// all bytes the kernel symbol covers
func (k *kernelSpec) symbolBytes() []byte {
	if k.Header != nil {
		return append(k.Header.bytes(), k.Code...)
	}
	return k.Code
}

type fileSpec struct {
	Name       string       `json:"name"`
	Rel        bool         `json:"et_rel"` // ET_REL (addresses 0, st_value = section offset) else ET_DYN
	TextAddr   uint64       `json:"text_addr"`
	RodataAddr uint64       `json:"rodata_addr"`
	Kernels    []kernelSpec `json:"kernels"`
	Labels     int          `json:"labels"`         // size-0 symbols inside .text
	OtherSyms  int          `json:"other_syms"`     // sized symbols in .data/.rodata, ABS symbols
	Shadow     bool         `json:"shadow_symbols"` // a sized symbol named like a kernel, in another section
	SecOrder   int          `json:"section_order"`  // order of .text/.rodata/.data in the section table
	NoRodata   bool         `json:"no_rodata"`      // file without .rodata (only legal without descriptors)
	Seed       uint64       `json:"layout_seed"`    // symbol order, padding, filler bytes
}

// ---- ELF64 writer ----------------------------------------------------------

type secT struct {
	name                   string
	typ, link, info        uint32
	flags, addr, align, es uint64
	data                   []byte
	nobits                 bool
	off                    uint64
	nameOff                uint32
}

type symT struct {
	name    string
	info    byte
	other   byte
	secName string // "" with shndx given
	shndx   uint16
	value   uint64
	size    uint64
}

const (
	shnAbs = 0xfff1
)

type builtFile struct {
	Bytes []byte
	// where every kernel's symbol bytes sit in the file (for the witness)
	TextOff map[string]uint64
}

func align(x, a uint64) uint64 {
	if a <= 1 {
		return x
	}
	return (x + a - 1) / a * a
}

// buildELF lays out f. only >= 0 keeps just that kernel (metamorphic
// "other kernels removed"); permSalt changes the symbol order only.
func buildELF(f *fileSpec, only int, permSalt uint64) builtFile {
	r := vlib.NewPRNG(f.Seed)
	var kernels []*kernelSpec
	for i := range f.Kernels {
		if only < 0 || only == i {
			kernels = append(kernels, &f.Kernels[i])
		}
	}

	// .text: kernels at 256-aligned offsets, random order, random filler between
	var text []byte
	kOff := map[string]uint64{}
	order := r.Perm(len(kernels))
	if r.Chance(1, 3) {
		fill := make([]byte, 256*r.Intn(3))
		r.Bytes(fill)
		text = append(text, fill...)
	}
	for _, ki := range order {
		k := kernels[ki]
		for len(text)%256 != 0 {
			text = append(text, byte(r.Uint32()))
		}
		kOff[k.Name] = uint64(len(text))
		text = append(text, k.symbolBytes()...)
		if r.Chance(1, 4) {
			fill := make([]byte, 4*r.Intn(64))
			r.Bytes(fill)
			text = append(text, fill...)
		}
	}

	// .rodata: descriptors at 64-aligned offsets among other data
	var rodata []byte
	kdOff := map[string]uint64{}
	pad := make([]byte, 64*r.Intn(3))
	r.Bytes(pad)
	rodata = append(rodata, pad...)
	for _, ki := range r.Perm(len(kernels)) {
		k := kernels[ki]
		if k.KD == nil {
			continue
		}
		kdOff[k.Name] = uint64(len(rodata))
		rodata = append(rodata, k.KD.bytes()...)
		if r.Chance(1, 3) {
			pad := make([]byte, 64)
			r.Bytes(pad)
			rodata = append(rodata, pad...)
		}
	}
	if len(rodata) == 0 {
		rodata = make([]byte, 64)
		r.Bytes(rodata)
	}
	data := make([]byte, 64+8*r.Intn(16))
	r.Bytes(data)

	textAddr, roAddr := f.TextAddr, f.RodataAddr
	top := textAddr + uint64(len(text))
	if e := roAddr + uint64(len(rodata)); e > top {
		top = e
	}
	dataAddr := align(top, 4096) + 0x1000
	if f.Rel {
		textAddr, roAddr, dataAddr = 0, 0, 0
	}

	secs := []*secT{{}} // null
	text3 := []*secT{
		{name: ".text", typ: 1, flags: 6, addr: textAddr, align: 256, data: text},
		{name: ".rodata", typ: 1, flags: 2, addr: roAddr, align: 64, data: rodata},
		{name: ".data", typ: 1, flags: 3, addr: dataAddr, align: 8, data: data},
	}
	perms := [][]int{{0, 1, 2}, {1, 0, 2}, {2, 1, 0}, {0, 2, 1}, {1, 2, 0}, {2, 0, 1}}
	secs = append(secs, &secT{name: ".note", typ: 7, flags: 2, addr: 0, align: 4, data: []byte{4, 0, 0, 0, 0, 0, 0, 0, 1, 0, 0, 0, 'A', 'M', 'D', 0}})
	for _, i := range perms[f.SecOrder%6] {
		if i == 1 && f.NoRodata {
			continue
		}
		secs = append(secs, text3[i])
	}
	secs = append(secs, &secT{name: ".comment", typ: 1, flags: 0x30, align: 1, es: 1, data: []byte("verif harness synthetic code object\x00")})
	secIdx := func(n string) uint16 {
		for i, s := range secs {
			if s.name == n {
				return uint16(i)
			}
		}
		return 0
	}

	// symbols
	var syms []symT
	addrOf := func(sec string) uint64 {
		switch sec {
		case ".text":
			return textAddr
		case ".rodata":
			return roAddr
		}
		return dataAddr
	}
	bindOf := func(global bool) byte {
		if global {
			return 1 << 4
		}
		return 0
	}
	for _, k := range kernels {
		syms = append(syms, symT{name: k.Name, info: bindOf(k.Global) | k.SymType, other: 3, secName: ".text",
			value: addrOf(".text") + kOff[k.Name], size: uint64(len(k.symbolBytes()))})
		if k.KD != nil {
			syms = append(syms, symT{name: k.Name + ".kd", info: bindOf(k.Global) | 1, other: 3, secName: ".rodata",
				value: addrOf(".rodata") + kdOff[k.Name], size: 64})
		}
		if k.NumberedSgpr != nil {
			syms = append(syms, symT{name: k.Name + ".numbered_sgpr", shndx: shnAbs, value: *k.NumberedSgpr})
		}
		if k.NumVgpr != nil {
			syms = append(syms, symT{name: k.Name + ".num_vgpr", shndx: shnAbs, value: *k.NumVgpr})
			syms = append(syms, symT{name: k.Name + ".num_agpr", shndx: shnAbs, value: 0})
		}
		if f.Shadow && !f.NoRodata {
			// a sized local object with the kernel's own name, but in .data
			syms = append(syms, symT{name: k.Name, info: 1, secName: ".data", value: addrOf(".data") + 8, size: 16})
		}
	}
	for i := 0; i < f.Labels; i++ { // basic-block labels: size 0, inside .text (also at a kernel's own address)
		v := uint64(r.Intn(len(text) + 1))
		if len(kernels) > 0 && r.Chance(1, 3) {
			v = kOff[kernels[r.Intn(len(kernels))].Name]
		}
		syms = append(syms, symT{name: fmt.Sprintf("BB%d_%d", i/4, i%4), secName: ".text", value: addrOf(".text") + v})
	}
	for i := 0; i < f.OtherSyms; i++ {
		switch r.Intn(3) {
		case 0:
			if f.NoRodata {
				continue
			}
			syms = append(syms, symT{name: fmt.Sprintf("__hip_cuid_%x", r.Uint32()), info: 1<<4 | 1, secName: ".rodata", value: addrOf(".rodata"), size: 1})
		case 1:
			syms = append(syms, symT{name: fmt.Sprintf("gvar%d", i), info: 1<<4 | 1, secName: ".data", value: addrOf(".data") + uint64(8*r.Intn(8)), size: 8})
		default:
			syms = append(syms, symT{name: []string{"amdgpu.max_num_vgpr", "amdgpu.max_num_sgpr", "amdgpu.max_num_agpr"}[r.Intn(3)], shndx: shnAbs, value: uint64(r.Intn(64))})
		}
	}
	// random order, locals first (ELF requires it; sh_info = first global)
	pr := vlib.NewPRNG(f.Seed ^ 0x5bd1e995 ^ permSalt*0x9e3779b97f4a7c15)
	p := pr.Perm(len(syms))
	var locals, globals []symT
	for _, i := range p {
		if syms[i].info>>4 == 0 {
			locals = append(locals, syms[i])
		} else {
			globals = append(globals, syms[i])
		}
	}
	ordered := append(locals, globals...)

	var strtab bytes.Buffer
	strtab.WriteByte(0)
	symtab := make([]byte, 24) // null symbol
	for _, s := range ordered {
		e := make([]byte, 24)
		binary.LittleEndian.PutUint32(e[0:], uint32(strtab.Len()))
		strtab.WriteString(s.name)
		strtab.WriteByte(0)
		e[4] = s.info
		e[5] = s.other
		idx := s.shndx
		if s.secName != "" {
			idx = secIdx(s.secName)
		}
		binary.LittleEndian.PutUint16(e[6:], idx)
		binary.LittleEndian.PutUint64(e[8:], s.value)
		binary.LittleEndian.PutUint64(e[16:], s.size)
		symtab = append(symtab, e...)
	}
	symSec := &secT{name: ".symtab", typ: 2, align: 8, es: 24, data: symtab, info: uint32(len(locals) + 1)}
	strSec := &secT{name: ".strtab", typ: 3, align: 1, data: strtab.Bytes()}
	shstr := &secT{name: ".shstrtab", typ: 3, align: 1}
	secs = append(secs, symSec, shstr, strSec)
	symSec.link = uint32(len(secs) - 1)
	var shs bytes.Buffer
	shs.WriteByte(0)
	for _, s := range secs[1:] {
		s.nameOff = uint32(shs.Len())
		shs.WriteString(s.name)
		shs.WriteByte(0)
	}
	shstr.data = shs.Bytes()

	// layout: ET_DYN files keep offset == address modulo 4096 for allocated sections
	off := uint64(64)
	for _, s := range secs[1:] {
		a := s.align
		if a == 0 {
			a = 1
		}
		off = align(off, a)
		if !f.Rel && s.flags&2 != 0 && s.addr != 0 {
			for off%4096 != s.addr%4096 {
				off += a
			}
		}
		s.off = off
		off += uint64(len(s.data))
	}
	shoff := align(off, 8)
	out := make([]byte, shoff+uint64(64*len(secs)))
	copy(out, []byte{0x7f, 'E', 'L', 'F', 2, 1, 1, 64 /* ELFOSABI_AMDGPU_HSA */, 2})
	le := binary.LittleEndian
	etype := uint16(3)
	if f.Rel {
		etype = 1
	}
	le.PutUint16(out[16:], etype)
	le.PutUint16(out[18:], 224) // EM_AMDGPU
	le.PutUint32(out[20:], 1)
	le.PutUint64(out[24:], textAddr) // e_entry
	le.PutUint64(out[40:], shoff)
	le.PutUint32(out[48:], 0x54c) // e_flags (gfx942-like; not interpreted)
	le.PutUint16(out[52:], 64)
	le.PutUint16(out[58:], 64)
	le.PutUint16(out[60:], uint16(len(secs)))
	for i, s := range secs {
		if s == shstr {
			le.PutUint16(out[62:], uint16(i))
		}
	}
	res := builtFile{TextOff: map[string]uint64{}}
	for i, s := range secs {
		if i == 0 {
			continue
		}
		copy(out[s.off:], s.data)
		h := out[shoff+uint64(64*i):]
		le.PutUint32(h[0:], s.nameOff)
		le.PutUint32(h[4:], s.typ)
		le.PutUint64(h[8:], s.flags)
		le.PutUint64(h[16:], s.addr)
		le.PutUint64(h[24:], s.off)
		le.PutUint64(h[32:], uint64(len(s.data)))
		le.PutUint32(h[40:], s.link)
		le.PutUint32(h[44:], s.info)
		le.PutUint64(h[48:], s.align)
		le.PutUint64(h[56:], s.es)
		if s.name == ".text" {
			for n, o := range kOff {
				res.TextOff[n] = s.off + o
			}
		}
	}
	res.Bytes = out
	return res
}
