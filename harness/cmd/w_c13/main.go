// w_c13: kernel code-object loading (amd/insts/hsaco.go) against (a) ELF64
// files written by the harness from a description that is the ground truth and
// (b) every shipped .hsaco, judged by an independent extractor (debug/elf +
// the harness' own field offsets from the LLVM AMDGPU documentation).
// Cases run in child processes (vlib/batch): the loader calls log.Fatal on
// several paths, which must surface as an observation, not as the end of the
// check.
package main

import (
	"bytes"
	"debug/elf"
	"encoding/json"
	"fmt"
	"os"
	"path/filepath"
	"strings"

	"github.com/sarchlab/mgpusim/v4/amd/insts"

	"verifharness/vlib"
	"verifharness/vlib/batch"
)

func repoDir() string {
	if d := os.Getenv("VERIF_REPO_DIR"); d != "" {
		return d
	}
	return "/repo"
}

func classOf(k *kernelSpec) string {
	switch {
	case k.KD != nil:
		return "v5"
	case k.Header != nil:
		return "v3"
	}
	return "raw"
}

func runSynthetic(rec vlib.Recorder, f *fileSpec, idx int) {
	rec.Eval()
	built := buildELF(f, -1, 0)
	// the generated file must be a valid ELF for an independent reader
	if _, err := elf.NewFile(bytes.NewReader(built.Bytes)); err != nil {
		rec.Inconclusive(fmt.Sprintf("harness bug: generated file %s is not a valid ELF: %v", f.Name, err))
		return
	}
	rec.Count("synthetic_files", 1)
	nontrivial := len(f.Kernels) >= 2 || f.TextAddr != 0
	if len(f.Kernels) >= 2 {
		rec.Count("synthetic_files_multi_kernel", 1)
	}
	if f.TextAddr != 0 {
		rec.Count("synthetic_files_text_addr_nonzero", 1)
	}
	witFor := func(k *kernelSpec, variant string) func(map[string]any) map[string]any {
		return func(extra map[string]any) map[string]any {
			m := map[string]any{"case_index": idx, "file": f, "kernel": k.Name, "variant": variant, "file_offset_of_kernel": built.TextOff[k.Name]}
			for a, b := range extra {
				m[a] = b
			}
			return m
		}
	}
	var tmpPath string
	useFS := idx%4 == 0
	if useFS {
		tmpPath = filepath.Join(".", fmt.Sprintf("synthetic-%d.hsaco", idx))
		if err := os.WriteFile(tmpPath, built.Bytes, 0o644); err != nil {
			rec.Inconclusive(err.Error())
			return
		}
		defer os.Remove(tmpPath)
	}
	reordered := buildELF(f, -1, uint64(idx)+1)
	for ki := range f.Kernels {
		k := &f.Kernels[ki]
		class := classOf(k)
		truth, shifted := expectFor(k)
		where := fmt.Sprintf("synthetic %s kernel %s (%s)", f.Name, k.Name, class)
		rec.Count("synthetic_kernels", 1)
		switch {
		case k.Header != nil && k.KD != nil:
			rec.Count("kernels_with_header_and_descriptor", 1)
		case k.KD != nil:
			rec.Count("kernels_descriptor_only", 1)
		case k.Header != nil:
			rec.Count("kernels_header_only", 1)
		default:
			rec.Count("kernels_neither", 1)
		}
		if k.Mimic != "" {
			rec.Count("kernels_mimic_"+k.Mimic, 1)
			nontrivial = true
		}
		if k.NumberedSgpr != nil || k.NumVgpr != nil {
			rec.Count("kernels_with_metadata_symbols", 1)
		}
		wit := witFor(k, "as generated")
		co := guarded(rec, class, where, wit, func() *insts.KernelCodeObject { return insts.LoadKernelCodeObjectFromBytes(built.Bytes, k.Name) })
		if co == nil {
			continue
		}
		compare(rec, co, truth, shifted, class, where, k.Name, uint64(len(k.symbolBytes())), wit)

		// metamorphic 1: another symbol order
		co2 := guarded(rec, class, where, witFor(k, "symbols reordered"), func() *insts.KernelCodeObject { return insts.LoadKernelCodeObjectFromBytes(reordered.Bytes, k.Name) })
		if co2 != nil {
			rec.Count("metamorphic_symbol_reorder", 1)
			if d := sameResult(co, co2); d != "" {
				rec.Violation("C13|metamorphic|result-depends-on-symbol-order", where+": "+d, witFor(k, "symbols reordered")(nil))
			}
		}
		// metamorphic 2: the other kernels removed
		if len(f.Kernels) >= 2 {
			single := buildELF(f, ki, 0)
			co3 := guarded(rec, class, where, witFor(k, "other kernels removed"), func() *insts.KernelCodeObject { return insts.LoadKernelCodeObjectFromBytes(single.Bytes, k.Name) })
			if co3 != nil {
				rec.Count("metamorphic_other_kernels_removed", 1)
				if d := sameResult(co, co3); d != "" {
					rec.Violation("C13|metamorphic|result-depends-on-other-kernels", where+": "+d, witFor(k, "other kernels removed")(nil))
				}
				co4 := guarded(rec, class, where, witFor(k, "other kernels removed, empty name"), func() *insts.KernelCodeObject { return insts.LoadKernelCodeObjectFromBytes(single.Bytes, "") })
				if co4 != nil {
					rec.Count("autodetect_single_kernel_loads", 1)
					if d := sameResult(co3, co4); d != "" {
						rec.Violation("C13|autodetect-single-kernel-differs", where+": loading with an empty name differs from loading by name: "+d, witFor(k, "empty name")(nil))
					}
				}
			}
		}
		// the other public entry points
		if useFS {
			co5 := guarded(rec, class, where, witFor(k, "FromFS"), func() *insts.KernelCodeObject { return insts.LoadKernelCodeObjectFromFS(tmpPath, k.Name) })
			ef, err := elf.NewFile(bytes.NewReader(built.Bytes))
			var co6 *insts.KernelCodeObject
			if err == nil {
				co6 = guarded(rec, class, where, witFor(k, "FromELF"), func() *insts.KernelCodeObject { return insts.LoadKernelCodeObjectFromELF(ef, k.Name) })
			}
			for _, o := range []*insts.KernelCodeObject{co5, co6} {
				if o != nil {
					rec.Count("other_entry_point_loads", 1)
					if d := sameResult(co, o); d != "" {
						rec.Violation("C13|entry-points-disagree", where+": "+d, wit(nil))
					}
				}
			}
		}
	}
	rec.Distinct("kernels_per_file", fmt.Sprint(len(f.Kernels)))
	if nontrivial {
		rec.Nontrivial(f.Name)
	}
	if idx%60 == 0 {
		rec.Sample(map[string]any{"file": f})
	}
}

func main() {
	canon := canonicalFiles()
	repo := repoDir()
	shipped := shippedFiles(repo)
	seed, tier := batch.SeedTier()
	// index space: canonical files | shipped files | nSyn generated files | history cases | use-history rig cases
	nSyn, nHistSeeded, nUseSeeded := 400, 320, 232
	if tier == "thorough" {
		nSyn, nHistSeeded, nUseSeeded = 50000, 8000, 3000
	}
	if len(os.Args) > 2 && os.Args[len(os.Args)-2] == "useplat" && vlib.IsChild() {
		usePlatChild(repo)
	}
	onlyUse := os.Getenv("C13_ONLY") == "use" // development switch: skip everything but the use-history layer
	plan := planHistory(repo, shipped, canon)
	histBase := len(canon) + len(shipped) + nSyn
	nHist := plan.fixed() + nHistSeeded
	useBase := histBase + nHist
	nUse := rigCanon + nUseSeeded
	fileAt := func(sd int64, j int) *fileSpec { return genFile(batch.Rand("C13", sd, "files").ForkN("f", j), j) }
	run := func(rec vlib.Recorder, sd int64, i int) {
		switch {
		case i >= useBase:
			runUseRig(rec, repo, shipped, sd, i, i-useBase)
		case onlyUse:
		case i < len(canon):
			runSynthetic(rec, canon[i], i)
		case i < len(canon)+len(shipped):
			checkShipped(rec, repo, shipped[i-len(canon)], i)
		case i < histBase:
			runSynthetic(rec, fileAt(sd, i-len(canon)-len(shipped)), i)
		default:
			runHistory(rec, plan, sd, i, i-histBase)
		}
	}
	describe := func(i int) any {
		switch {
		case i >= useBase:
			return genRigCase(repo, shipped, seed, i-useBase)
		case i < len(canon):
			return canon[i]
		case i < len(canon)+len(shipped):
			return shipped[i-len(canon)]
		case i < histBase:
			return fileAt(seed, i-len(canon)-len(shipped))
		}
		return plan.describe(seed, i-histBase)
	}

	if lo, hi, ok := batch.ChildRange(); ok {
		batch.RunChild(lo, hi, func(rec *vlib.ChildRecorder, i int) { run(rec, seed, i) })
	}

	// --replay <file>: re-execute exactly the case of a replay file, in this process
	for ai, a := range os.Args {
		if a == "--replay" && ai+1 < len(os.Args) {
			b, err := os.ReadFile(os.Args[ai+1]) // before vlib.Start, which removes stale replay files
			var rf struct {
				Seed    int64 `json:"seed"`
				Witness struct {
					CaseIndex    *int `json:"case_index"`
					HistoryIndex *int `json:"history_index"`
					UseIndex     *int `json:"use_index"`
					UsePlatIndex *int `json:"useplat_index"`
				} `json:"witness"`
			}
			if err != nil || json.Unmarshal(b, &rf) != nil || (rf.Witness.CaseIndex == nil && rf.Witness.UsePlatIndex == nil) {
				fmt.Println("[C13] cannot read a case index from the replay file")
				os.Exit(2)
			}
			c := vlib.Start("C13")
			c.Seed = rf.Seed
			d, cleanup := vlib.Scratch("C13-replay")
			_ = os.Chdir(d)
			if rf.Witness.UsePlatIndex != nil { // builds a platform and runs the driver in this process
				fmt.Printf("[C13] replaying use-history platform case %d (seed %d)\n", *rf.Witness.UsePlatIndex, rf.Seed)
				runUsePlat(c, repo, rf.Seed, *rf.Witness.UsePlatIndex)
			} else if rf.Witness.UseIndex != nil {
				fmt.Printf("[C13] replaying use-history rig case %d (seed %d)\n", *rf.Witness.UseIndex, rf.Seed)
				runUseRig(c, repo, shipped, rf.Seed, useBase+*rf.Witness.UseIndex, *rf.Witness.UseIndex)
			} else if rf.Witness.HistoryIndex != nil { // history cases are addressed by their own index (independent of the tier's case counts)
				fmt.Printf("[C13] replaying history case %d (seed %d)\n", *rf.Witness.HistoryIndex, rf.Seed)
				runHistory(c, plan, rf.Seed, *rf.Witness.CaseIndex, *rf.Witness.HistoryIndex)
			} else {
				fmt.Printf("[C13] replaying case %d (seed %d)\n", *rf.Witness.CaseIndex, rf.Seed)
				run(c, rf.Seed, *rf.Witness.CaseIndex)
			}
			_ = os.Chdir("/")
			cleanup()
			if c.NumNewViolations() > 0 {
				os.Exit(1)
			}
			fmt.Println("[C13] replay: no unlisted violation")
			os.Exit(0)
		}
	}

	c := vlib.Start("C13")
	if c.Tier != tier || c.Seed != seed {
		c.Inconclusive("harness bug: tier/seed read differently by vlib.Start and batch.SeedTier")
	}
	n := useBase + nUse
	// the race detector (RACE marker file) must end the child at the first report, inside the case that raced
	_ = os.Setenv("GORACE", "halt_on_error=1 exitcode=66")

	per := 32
	if c.Thorough() {
		per = 250
	}
	// the use-history cases on the real platforms: one child each, next to the batch children
	platDone := make(chan struct{})
	go func() {
		defer close(platDone)
		w := 4
		if c.Thorough() {
			w = 8
		}
		runPlatChildren(c, tier, seed, w)
	}()
	batch.Run(c, batch.Opts{N: n, First: len(canon), PerChild: per, OnCrash: func(cr batch.Crash) {
		if cr.Index >= useBase {
			c.Violation("C13|"+useKey+"|process-exits-while-loaded-kernels-are-launched",
				fmt.Sprintf("the process exited with code %d while kernels loaded from well-formed files were handed to the driver (real driver, fake command processors)", cr.ExitCode),
				map[string]any{"case_index": cr.Index, "use_index": cr.Index - useBase, "case": describe(cr.Index), "output_tail": cr.Tail})
			return
		}
		if cr.Index >= histBase {
			kind, _ := plan.kindOf(cr.Index - histBase)
			key, what := "C13|history|loader-exits-process", "inside a sequence of loads of well-formed code objects (log.Fatal in the loader?)"
			if strings.HasPrefix(kind, "concurrent") {
				key = "C13|history|concurrent|loader-exits-process"
				what = "while several goroutines were loading well-formed code objects from memory no other goroutine writes"
				if strings.Contains(cr.Tail, "DATA RACE") || cr.ExitCode == 66 { // 66 = GORACE exitcode set below
					key = "C13|history|concurrent|data-race-in-loader"
					what += " (the race detector reported a data race)"
				}
			}
			c.Violation(key, fmt.Sprintf("the process exited with code %d %s", cr.ExitCode, what),
				map[string]any{"case_index": cr.Index, "history_index": cr.Index - histBase, "case": describe(cr.Index), "output_tail": cr.Tail})
			return
		}
		c.Violation("C13|loader-exits-process", fmt.Sprintf("the process exited with code %d while loading a well-formed code object (log.Fatal in the loader?)", cr.ExitCode),
			map[string]any{"case_index": cr.Index, "case": describe(cr.Index), "output_tail": cr.Tail})
	}})
	<-platDone
	if len(shipped) < 70 {
		c.Inconclusive(fmt.Sprintf("only %d shipped .hsaco files found under %s/amd", len(shipped), repo))
	}

	c.Finish(vlib.FinishOpts{
		Rule: "case = one code-object file (synthetic ELF64 written from a description, or a shipped .hsaco) x every kernel in it; synthetic files are generated from " +
			"VERIF_SEED plus a fixed canonical battery; non-trivial = distinct file with >= 2 kernels or a non-zero .text address or instruction bytes that imitate a header prefix. " +
			"History cases (one case = many loads in one process, every load judged when it returns against the oracle of the bytes the loader was given at that moment): all shipped files through ONE reused " +
			"[]byte backing array; the files of one benchmark directory (gcn3 and gfx942 builds define the same kernel names) plus in-memory patched copies; generated files plus variants that differ in one " +
			"descriptor/header field, one instruction word, the code length, the layout, or swapped kernel names, plus another file defining the same kernel names; in-place patches of the image a previous " +
			"load has seen; results the caller overwrites (every exported field, every Data byte) before loading again; FromFS over one rewritten path, FromELF over a fresh and a shared *elf.File; " +
			"8 goroutines loading at once (race detector on). A history load discriminates when the same backing array held other contents for the same kernel name at an earlier load " +
			"(counter history_reused_loads_contents_changed_for_kernel)",
		Assumptions: []string{
			"ground truth for a synthetic file is its description; for a shipped file the harness' own extractor (debug/elf, amd_kernel_code_t and kernel-descriptor offsets from the LLVM AMDGPU usage documentation)",
			"the loader's documented V5 normalisations are part of the contract: rsrc2 bit 0 cleared, user SGPR count 2 when kernarg_size > 0, workgroup-id X/Y forced on, work-item-id field at least 1, " +
				"EnableSgprKernargSegmentPtr = kernarg_size > 0, all other EnableSgpr* false, register counts = max(granulated count from rsrc1 with granules 4 / 8, rounded .num_vgpr / .numbered_sgpr+2); every other bit must be preserved",
			"V2/V3: the 256-byte header is stripped from Data and the entry offset is reported relative to Data (0); Version is reported as 3 for every amd_kernel_code_t",
			"a kernel that has both a genuine header and a descriptor is descriptor based (the property's precedence rule): Data keeps the header bytes",
			"genuine headers use machine_version_major 7..9 and entry offset 256 (what the supported targets emit); header-less code never carries a complete header signature unless a descriptor exists",
			"history: a load is judged by what it returns at the time it returns. A result whose Data is a window of the caller's input buffer (not what the code does today) would be tolerated: a later rewrite of that " +
				"buffer changing it is only counted (note_* counters). Not tolerated: a result that depends on earlier loads, a result that changes during later loads without the caller touching it or its input, " +
				"two results of separate loads sharing storage (the API documents no sharing), a data race between concurrent loads of memory nobody writes",
			"history oracle: generated images and their variants - the (modified) description; shipped and patched shipped images - the harness' debug/elf extractor run over the current bytes. " +
				"The 'descriptor words read 4 bytes early' model of the fixed known finding is not applied in history comparisons",
			"use-history: 'metadata as stored in the file' covers every exported field of KernelCodeObjectMeta, Version, Data and Symbol of a loaded object for as long as the caller keeps it: the driver owns none of them " +
				"(the unchanged tree keeps device addresses in its own map keyed by the object pointer and never writes to the object); the code object inside a LaunchKernelReq may be the loaded object or a copy, it is judged by value at send time",
			"use-history dispatch oracle (amd/driver/kernel.go prepareLocalMemory as documented by its code): LocalPtr argument i gets LDS offset = the file's static LDS size + the sizes of the LocalPtr arguments in front of it, without padding; " +
				"packet.GroupSegmentSize = static size + all LocalPtr sizes, not rounded; the other argument bytes reach the device unchanged; the caller's argument block is the request (what the caller wrote into it), also when the same block is handed in again; " +
				"the kernarg allocation (driver verif hook Context.VerifBuffers) has the file's kernarg size and the code allocation the kernel's instruction byte count; " +
				"packet.PrivateSegmentSize is not populated by the driver today (0; the compute units read the code object): 0 or the file's private size are accepted (counter note_packet_private_segment_size_not_populated)",
			"use-history: kernels whose file stores kernarg size 0 are loaded and re-checked but not launched (the driver cannot allocate an empty kernarg segment); generated argument blocks are never longer than the file's kernarg size; " +
				"launch geometry and work-group filters are not judged here (C08); two queues of one context never have launches of a shared code object in flight together (open finding C12|second-queue-launches-cached-code-before-upload)",
		},
		MinNontrivial: 200,
		MinCounters: map[string]int64{
			"synthetic_files": 300, "synthetic_kernels": 600, "shipped_files": 70, "shipped_kernels": 80, "shipped_kernels_v3": 20, "shipped_kernels_v5": 40,
			"kernels_header_only": 80, "kernels_descriptor_only": 80, "kernels_with_header_and_descriptor": 30, "kernels_neither": 30,
			"kernels_mimic_complete-signature": 10, "kernels_mimic_signature-10-bytes": 10, "kernels_mimic_all-but-entry-offset": 10, "kernels_mimic_all-but-machine-version": 10,
			"kernels_with_metadata_symbols": 50, "metamorphic_symbol_reorder": 500, "metamorphic_other_kernels_removed": 300,
			"synthetic_files_text_addr_nonzero": 150, "synthetic_files_multi_kernel": 150, "fields_compared": 20000,
			// history
			"history_cases": 300, "history_cases_shipped-walker": 1, "history_cases_shipped-group": 15, "history_cases_synthetic-canonical": 7, "history_cases_synthetic-seeded": 200,
			"history_cases_concurrent-canonical": 2, "history_cases_concurrent-seeded": 20,
			"history_loads": 50000, "history_loads_reused-buffer": 30000, "history_reused_loads_contents_changed_for_kernel": 10000, "history_reused_loads_code_object_version_changed": 500,
			"history_in_place_patches": 3000, "history_loads_after_in_place_patch": 5000, "history_results_mutated": 1000, "history_loads_after_result_mutation": 1000,
			"history_loads_fresh-slice": 2000, "history_loads_reused-path": 2000, "history_loads_shared-elf-file": 3000, "history_loads_elf-over-reused-buffer": 1000,
			// use-history
			"use_cases": 200, "use_cases_rig_canonical": 8, "use_cases_plat": 9, "use_cases_plat_emu": 5, "use_cases_plat_timing": 2, "use_cases_plat_with_unified_device": 1,
			"use_launches": 1500, "use_launches_emu": 50, "use_launches_timing": 5, "use_launches_with_local_ptr": 900, "use_launches_with_local_ptr_and_static_lds": 300,
			"use_launches_with_several_local_ptrs": 400, "use_launches_with_zero_sized_local_ptr": 100, "use_launches_on_unified_device": 200, "use_launches_blocking_api": 10,
			"use_launches_reusing_argument_block": 150, "use_launches_with_benchmark_argument_type": 150,
			"use_relaunches_of_same_object": 1000, "use_relaunches_after_local_ptr_launch": 700, "use_objects_compared_after_launch": 3000, "use_unlaunched_objects_compared": 1500,
			"use_fresh_loads_after_launch": 800, "use_fresh_loads_interleaved": 150, "use_wire_launches_judged": 1800, "use_wire_launches_of_unified_device": 400,
			"use_local_ptr_offsets_checked": 2500, "use_local_ptr_offsets_checked_after_local_ptr_launch": 1200, "use_group_segment_sizes_checked": 1800,
			"use_kernarg_segment_sizes_checked": 1500, "use_kernarg_bytes_compared": 60000, "use_code_bytes_on_device_compared": 1000000, "use_kernel_results_checked": 50,
			"history_concurrent_loads": 8000, "history_concurrent_goroutines": 150, "history_earlier_results_rechecked": 40000, "history_autodetect_loads": 300,
		},
	})
}
