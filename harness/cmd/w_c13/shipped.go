package main

import (
	"bytes"
	"debug/elf"
	"encoding/binary"
	"fmt"
	"os"
	"path/filepath"
	"sort"
	"strings"

	"github.com/sarchlab/mgpusim/v4/amd/insts"

	"verifharness/vlib"
)

// shippedFiles lists every .hsaco under <repo>/amd (the 75 benchmark files,
// the driver's memcopy kernel and the empty_kernel test object), sorted.
func shippedFiles(repo string) []string {
	var out []string
	_ = filepath.Walk(filepath.Join(repo, "amd"), func(p string, fi os.FileInfo, err error) error {
		if err == nil && !fi.IsDir() && strings.HasSuffix(p, ".hsaco") {
			out = append(out, p)
		}
		return nil
	})
	sort.Strings(out)
	return out
}

// ownKernel is what the harness' independent extractor finds for one kernel.
type ownKernel struct {
	Name    string
	Size    uint64
	Truth   expect
	Shifted *expect
	Class   string
	// where the kernel symbol's bytes and (descriptor-based kernels) its 64-byte
	// descriptor sit in the file image; used by the history cases to patch an
	// image in place
	FileOff   uint64
	KDFileOff uint64
}

// extractOwn parses a shipped code object with debug/elf and the harness' own
// field offsets. A kernel is a sized STT_FUNC / STT_AMDGPU_HSA_KERNEL symbol of
// .text; it is descriptor based when an OBJECT symbol "<name>.kd" of size 64
// lives in .rodata; it has an amd_kernel_code_t in front when its first 256
// bytes carry version_major 1, machine_kind 1 (AMDGPU), entry offset 256 and
// wavefront_size 2^6 (byte 103).
func extractOwn(path string) (out []ownKernel, textAddr uint64, err error) {
	f, err := elf.Open(path)
	if err != nil {
		return nil, 0, err
	}
	defer f.Close()
	return extractOwnELF(f)
}

// extractOwnBytes is extractOwn over an in-memory image (the history cases
// judge every load against the parse of the bytes the loader was given).
func extractOwnBytes(image []byte) (out []ownKernel, textAddr uint64, err error) {
	f, err := elf.NewFile(bytes.NewReader(image))
	if err != nil {
		return nil, 0, err
	}
	return extractOwnELF(f)
}

func extractOwnELF(f *elf.File) (out []ownKernel, textAddr uint64, err error) {
	text := f.Section(".text")
	if text == nil {
		return nil, 0, fmt.Errorf("no .text")
	}
	textAddr = text.Addr
	td, err := text.Data()
	if err != nil {
		return nil, 0, err
	}
	syms, err := f.Symbols()
	if err != nil {
		return nil, 0, err
	}
	var rd []byte
	ro := f.Section(".rodata")
	if ro != nil {
		rd, _ = ro.Data()
	}
	abs := map[string]uint64{}
	kd := map[string]elf.Symbol{}
	secOf := func(s elf.Symbol) string {
		if int(s.Section) > 0 && int(s.Section) < len(f.Sections) {
			return f.Sections[s.Section].Name
		}
		return ""
	}
	for _, s := range syms {
		if s.Section == elf.SHN_ABS {
			abs[s.Name] = s.Value
		}
		if strings.HasSuffix(s.Name, ".kd") && s.Size == 64 && secOf(s) == ".rodata" && elf.ST_TYPE(s.Info) == elf.STT_OBJECT {
			kd[strings.TrimSuffix(s.Name, ".kd")] = s
		}
	}
	le := binary.LittleEndian
	for _, s := range syms {
		t := elf.ST_TYPE(s.Info)
		if secOf(s) != ".text" || s.Size == 0 || !(t == elf.STT_FUNC || t == 10) {
			continue
		}
		off := s.Value - text.Addr
		if off+s.Size > uint64(len(td)) {
			return nil, 0, fmt.Errorf("symbol %s outside .text", s.Name)
		}
		b := td[off : off+s.Size]
		k := ownKernel{Name: s.Name, Size: s.Size, FileOff: text.Offset + off}
		if d, ok := kd[s.Name]; ok {
			o := d.Value - ro.Addr
			k.KDFileOff = ro.Offset + o
			w := rd[o : o+64]
			var ns, nv *uint64
			if v, ok := abs[s.Name+".numbered_sgpr"]; ok {
				ns = &v
			}
			if v, ok := abs[s.Name+".num_vgpr"]; ok {
				nv = &v
			}
			words := kdWords{le.Uint32(w[0:]), le.Uint32(w[4:]), le.Uint32(w[8:]), le.Uint64(w[16:]), le.Uint32(w[44:]), le.Uint32(w[48:]), le.Uint32(w[52:])}
			k.Truth = v5Model(words, b, ns, nv)
			sh := v5Model(kdWords{words.Group, words.Private, words.Kernarg, words.Entry, le.Uint32(w[40:]), le.Uint32(w[44:]), le.Uint32(w[48:])}, b, ns, nv)
			k.Shifted = &sh
			k.Class = "v5"
		} else if len(b) >= 256 && le.Uint32(b[0:]) == 1 && le.Uint16(b[8:]) == 1 && le.Uint64(b[16:]) == 256 && b[103] == 6 {
			h := &hdrSpec{VersionMajor: le.Uint32(b[0:]), VersionMinor: le.Uint32(b[4:]), MachineKind: le.Uint16(b[8:]), MachineMajor: le.Uint16(b[10:]),
				MachineMinor: le.Uint16(b[12:]), MachineStep: le.Uint16(b[14:]), Rsrc1: le.Uint32(b[48:]), Rsrc2: le.Uint32(b[52:]), CodeProps: le.Uint32(b[56:]),
				PrivateSize: le.Uint32(b[60:]), GroupSize: le.Uint32(b[64:]), KernargSize: le.Uint64(b[72:]), SgprCount: le.Uint16(b[84:]), VgprCount: le.Uint16(b[86:])}
			k.Truth = v3Model(h, b[256:])
			k.Class = "v3"
		} else {
			k.Truth = rawModel(b)
			k.Class = "raw"
		}
		out = append(out, k)
	}
	return out, textAddr, nil
}

func checkShipped(rec vlib.Recorder, repo, path string, idx int) {
	rec.Eval()
	rel := strings.TrimPrefix(path, repo+"/")
	ks, textAddr, err := extractOwn(path)
	if err != nil {
		rec.Inconclusive("independent extractor cannot read " + rel + ": " + err.Error())
		return
	}
	raw, err := os.ReadFile(path)
	if err != nil {
		rec.Inconclusive(err.Error())
		return
	}
	rec.Count("shipped_files", 1)
	if len(ks) == 0 {
		rec.Count("shipped_files_without_kernel_symbol", 1)
	}
	for _, k := range ks {
		k := k
		rec.Count("shipped_kernels", 1)
		rec.Count("shipped_kernels_"+k.Class, 1)
		wit := func(extra map[string]any) map[string]any {
			m := map[string]any{"case_index": idx, "file": rel, "kernel": k.Name}
			for a, b := range extra {
				m[a] = b
			}
			return m
		}
		where := "shipped " + rel + " kernel " + k.Name
		co := guarded(rec, "shipped", where, wit, func() *insts.KernelCodeObject { return insts.LoadKernelCodeObjectFromBytes(raw, k.Name) })
		if co == nil {
			continue
		}
		class := k.Class
		compare(rec, co, k.Truth, k.Shifted, class, where, k.Name, k.Size, wit)
		co2 := guarded(rec, "shipped", where, wit, func() *insts.KernelCodeObject { return insts.LoadKernelCodeObjectFromFS(path, k.Name) })
		if co2 != nil {
			if d := sameResult(co, co2); d != "" {
				rec.Violation("C13|entry-points-disagree", where+": LoadKernelCodeObjectFromFS and ...FromBytes differ: "+d, wit(nil))
			}
		}
		if len(ks) == 1 {
			co3 := guarded(rec, "shipped", where, wit, func() *insts.KernelCodeObject { return insts.LoadKernelCodeObjectFromBytes(raw, "") })
			if co3 != nil {
				rec.Count("autodetect_single_kernel_loads", 1)
				if d := sameResult(co, co3); d != "" {
					rec.Violation("C13|autodetect-single-kernel-differs", where+": loading with an empty name differs from loading by name: "+d, wit(nil))
				}
			}
		}
	}
	if len(ks) >= 2 || textAddr != 0 {
		rec.Nontrivial("shipped:" + rel)
	}
}

// guarded runs a loader call and turns a panic into a violation.
func guarded(rec vlib.Recorder, class, where string, wit func(map[string]any) map[string]any, f func() *insts.KernelCodeObject) (co *insts.KernelCodeObject) {
	defer func() {
		if r := recover(); r != nil {
			msg := fmt.Sprint(r)
			key := "C13|" + class + "|loader-panics"
			if strings.Contains(msg, "slice bounds") || strings.Contains(msg, "index out of range") {
				key += "|bounds"
			}
			rec.Violation(key, where+": loader panicked on a well-formed file: "+msg, wit(map[string]any{"panic": msg}))
			co = nil
		}
	}()
	return f()
}
