package main

import (
	"bytes"
	"fmt"

	"github.com/sarchlab/mgpusim/v4/amd/insts"

	"verifharness/vlib"
)

// expect is what a correct loader must return for one kernel, written in
// terms of the loader's result structure.
type expect struct {
	Version int
	Data    []byte
	// metadata
	Rsrc1, Rsrc2, Rsrc3          uint32
	Kernarg                      uint64
	Group, Private               uint32
	Entry                        uint64
	Flags                        [10]bool // EnableSgpr*: PrivateSegmentBuffer, DispatchPtr, QueuePtr, KernargSegmentPtr, DispatchID, FlatScratchInit, PrivateSegmentSize, GridWorkgroupCountX/Y/Z
	CodeMajor, CodeMinor         uint32
	MKind, MMajor, MMinor, MStep uint16
	Sgpr, Vgpr                   uint16
}

var flagNames = [10]string{"EnableSgprPrivateSegmentBuffer", "EnableSgprDispatchPtr", "EnableSgprQueuePtr", "EnableSgprKernargSegmentPtr",
	"EnableSgprDispatchID", "EnableSgprFlatScratchInit", "EnableSgprPrivateSegmentSize",
	"EnableSgprGridWorkgroupCountX", "EnableSgprGridWorkgroupCountY", "EnableSgprGridWorkgroupCountZ"}

// kdWords are the raw words of a 64-byte descriptor the V5 model needs.
type kdWords struct {
	Group, Private, Kernarg uint32
	Entry                   uint64
	Rsrc3, Rsrc1, Rsrc2     uint32
}

// v5Model is the loader's documented contract for a descriptor-based kernel
// (amd/insts/hsaco.go, parseV5KernelDescriptor + overrideRegisterCountsFromSymbols):
//   - sizes, entry offset, rsrc1 and rsrc3 are reported as stored;
//   - rsrc2: bit 0 cleared; user SGPR count (bits 5:1) forced to 2 when
//     kernarg_size > 0; workgroup-id X and Y (bits 7, 8) forced on; work-item-id
//     field (bits 12:11) raised to 1 when 0; every other bit preserved;
//   - EnableSgprKernargSegmentPtr = kernarg_size > 0; all other EnableSgpr* false;
//   - WIVgprCount = max((rsrc1[5:0]+1)*4, roundup4(num_vgpr symbol)),
//     WFSgprCount = max((rsrc1[9:6]+1)*8, roundup8(numbered_sgpr symbol + 2));
//   - Data = all bytes of the kernel symbol; Version 5.
func v5Model(w kdWords, data []byte, numSgpr, numVgpr *uint64) expect {
	e := expect{Version: 5, Data: data, Rsrc1: w.Rsrc1, Rsrc3: w.Rsrc3, Kernarg: uint64(w.Kernarg), Group: w.Group, Private: w.Private, Entry: w.Entry}
	r2 := w.Rsrc2 &^ 1
	if w.Kernarg > 0 {
		r2 = r2&^(0x1f<<1) | 2<<1
		e.Flags[3] = true
	}
	r2 |= 1<<7 | 1<<8
	if (r2>>11)&3 == 0 {
		r2 |= 1 << 11
	}
	e.Rsrc2 = r2
	e.Vgpr = uint16(((w.Rsrc1 & 0x3f) + 1) * 4)
	e.Sgpr = uint16((((w.Rsrc1 >> 6) & 0xf) + 1) * 8)
	if numSgpr != nil {
		if c := (uint16(*numSgpr) + 2 + 7) / 8 * 8; c > e.Sgpr {
			e.Sgpr = c
		}
	}
	if numVgpr != nil {
		if c := (uint16(*numVgpr) + 3) / 4 * 4; c > e.Vgpr {
			e.Vgpr = c
		}
	}
	return e
}

// v3Model: genuine amd_kernel_code_t in front of the code; the loader strips
// the header from Data and (documented) reports entry offset 0 relative to
// Data; only code_properties bits 0..9 are surfaced.
func v3Model(h *hdrSpec, code []byte) expect {
	e := expect{Version: 3, Data: code, Rsrc1: h.Rsrc1, Rsrc2: h.Rsrc2, Kernarg: h.KernargSize, Group: h.GroupSize, Private: h.PrivateSize,
		Entry: 0, CodeMajor: h.VersionMajor, CodeMinor: h.VersionMinor, MKind: h.MachineKind, MMajor: h.MachineMajor, MMinor: h.MachineMinor,
		MStep: h.MachineStep, Sgpr: h.SgprCount, Vgpr: h.VgprCount}
	for i := 0; i < 10; i++ {
		e.Flags[i] = h.CodeProps&(1<<uint(i)) != 0
	}
	return e
}

func rawModel(data []byte) expect { return expect{Version: 5, Data: data} }

// expectFor derives TRUE (LLVM layout) and SHIFTED (the loader's present
// reading of the descriptor: rsrc3/rsrc1/rsrc2 taken from bytes 40/44/48
// instead of 44/48/52) expectations for a synthetic kernel.
func expectFor(k *kernelSpec) (truth expect, shifted *expect) {
	all := k.symbolBytes()
	switch {
	case k.KD != nil:
		d := k.KD
		truth = v5Model(kdWords{d.GroupSize, d.PrivateSize, d.KernargSize, uint64(d.EntryOffset), d.Rsrc3, d.Rsrc1, d.Rsrc2}, all, k.NumberedSgpr, k.NumVgpr)
		s := v5Model(kdWords{d.GroupSize, d.PrivateSize, d.KernargSize, uint64(d.EntryOffset), 0, d.Rsrc3, d.Rsrc1}, all, k.NumberedSgpr, k.NumVgpr)
		shifted = &s
	case k.Header != nil:
		truth = v3Model(k.Header, k.Code)
	default:
		truth = rawModel(all)
	}
	return
}

type cmp struct {
	rec    vlib.Recorder
	class  string // v3 / v5 / raw
	where  string
	wit    func(extra map[string]any) map[string]any
	seen   map[string]bool
	bad    bool
	shiftN int
}

func (c *cmp) viol(key, what string, extra map[string]any) {
	c.bad = true
	if c.seen[key] {
		return
	}
	c.seen[key] = true
	c.rec.Violation(key, c.where+": "+what, c.wit(extra))
}

// field compares one metadata field; sh is the value under the SHIFTED model
// (nil when the kernel is not descriptor based).
func (c *cmp) field(name string, got, want any, sh any) {
	c.rec.Count("fields_compared", 1)
	g, w := fmt.Sprint(got), fmt.Sprint(want)
	if g == w {
		return
	}
	if sh != nil && g == fmt.Sprint(sh) {
		c.shiftN++
		c.bad = true
		return
	}
	c.viol("C13|"+c.class+"|field-"+name, fmt.Sprintf("%s = %v, the file stores %v", name, fmtv(got), fmtv(want)),
		map[string]any{"field": name, "got": g, "want": w})
}

func fmtv(v any) string {
	switch x := v.(type) {
	case uint32:
		return fmt.Sprintf("%#x", x)
	case uint64:
		return fmt.Sprintf("%#x", x)
	}
	return fmt.Sprint(v)
}

// compare judges a loaded code object against the expectation(s).
func compare(rec vlib.Recorder, co *insts.KernelCodeObject, truth expect, shifted *expect, class, where string,
	symName string, symSize uint64, wit func(extra map[string]any) map[string]any) bool {
	c := &cmp{rec: rec, class: class, where: where, wit: wit, seen: map[string]bool{}}
	if co == nil || co.KernelCodeObjectMeta == nil {
		c.viol("C13|"+class+"|nil-result", "loader returned nil", nil)
		return false
	}
	rec.Count("kernels_compared_"+class, 1)
	c.field("Version", int(co.Version), truth.Version, nil)
	rec.Count("data_bytes_compared", int64(len(truth.Data)))
	if !bytes.Equal(co.Data, truth.Data) {
		what := fmt.Sprintf("Data has %d bytes, the kernel's instruction bytes are %d", len(co.Data), len(truth.Data))
		key := "C13|" + class + "|data"
		switch {
		case len(co.Data)+256 == len(truth.Data) && bytes.Equal(co.Data, truth.Data[256:]):
			key += "|first-256-bytes-stripped"
			what += " (the first 256 bytes were stripped although they are instructions)"
		case len(co.Data) == len(truth.Data)+256 && bytes.Equal(co.Data[256:], truth.Data):
			key += "|header-not-stripped"
			what += " (the 256-byte amd_kernel_code_t is still in front)"
		case len(co.Data) == len(truth.Data):
			key += "|wrong-bytes"
			for i := range truth.Data {
				if co.Data[i] != truth.Data[i] {
					what = fmt.Sprintf("Data differs from the kernel's bytes from byte %d on (same length %d): bytes of another place of the file were returned", i, len(truth.Data))
					break
				}
			}
		default:
			key += "|wrong-length"
		}
		c.viol(key, what, map[string]any{"got_len": len(co.Data), "want_len": len(truth.Data), "got_head": fmt.Sprintf("%x", head(co.Data, 24)), "want_head": fmt.Sprintf("%x", head(truth.Data, 24))})
	}
	if co.Symbol == nil {
		c.viol("C13|"+class+"|symbol-nil", "Symbol is nil", nil)
	} else {
		c.field("Symbol.Name", co.Symbol.Name, symName, nil)
		c.field("Symbol.Size", co.Symbol.Size, symSize, nil)
	}
	m := co.KernelCodeObjectMeta
	sh := func(f func(e *expect) any) any {
		if shifted == nil {
			return nil
		}
		return f(shifted)
	}
	c.field("ComputePgmRsrc1", m.ComputePgmRsrc1, truth.Rsrc1, sh(func(e *expect) any { return e.Rsrc1 }))
	c.field("ComputePgmRsrc2", m.ComputePgmRsrc2, truth.Rsrc2, sh(func(e *expect) any { return e.Rsrc2 }))
	c.field("ComputePgmRsrc3", m.ComputePgmRsrc3, truth.Rsrc3, sh(func(e *expect) any { return e.Rsrc3 }))
	c.field("KernargSegmentByteSize", m.KernargSegmentByteSize, truth.Kernarg, nil)
	c.field("GroupSegmentByteSize", m.GroupSegmentByteSize, truth.Group, nil)
	c.field("PrivateSegmentByteSize", m.PrivateSegmentByteSize, truth.Private, nil)
	c.field("KernelCodeEntryByteOffset", m.KernelCodeEntryByteOffset, truth.Entry, nil)
	gotFlags := [10]bool{m.EnableSgprPrivateSegmentBuffer, m.EnableSgprDispatchPtr, m.EnableSgprQueuePtr, m.EnableSgprKernargSegmentPtr,
		m.EnableSgprDispatchID, m.EnableSgprFlatScratchInit, m.EnableSgprPrivateSegmentSize,
		m.EnableSgprGridWorkgroupCountX, m.EnableSgprGridWorkgroupCountY, m.EnableSgprGridWorkgroupCountZ}
	for i := range gotFlags {
		c.field(flagNames[i], gotFlags[i], truth.Flags[i], nil)
	}
	c.field("CodeVersionMajor", m.CodeVersionMajor, truth.CodeMajor, nil)
	c.field("CodeVersionMinor", m.CodeVersionMinor, truth.CodeMinor, nil)
	c.field("MachineKind", m.MachineKind, truth.MKind, nil)
	c.field("MachineVersionMajor", m.MachineVersionMajor, truth.MMajor, nil)
	c.field("MachineVersionMinor", m.MachineVersionMinor, truth.MMinor, nil)
	c.field("MachineVersionStepping", m.MachineVersionStepping, truth.MStep, nil)
	c.field("WFSgprCount", m.WFSgprCount, truth.Sgpr, sh(func(e *expect) any { return e.Sgpr }))
	c.field("WIVgprCount", m.WIVgprCount, truth.Vgpr, sh(func(e *expect) any { return e.Vgpr }))
	// derived accessors the dispatchers use (work-group-id / work-item-id enables, user SGPRs)
	bit := func(v uint32, lo, hi uint) uint32 { return v >> lo & (1<<(hi-lo+1) - 1) }
	shv := func(lo, hi uint) any {
		if shifted == nil {
			return nil
		}
		return bit(shifted.Rsrc2, lo, hi)
	}
	c.field("EnableSgprWorkGroupIDX()", b2u(m.EnableSgprWorkGroupIDX()), bit(truth.Rsrc2, 7, 7), shv(7, 7))
	c.field("EnableSgprWorkGroupIDY()", b2u(m.EnableSgprWorkGroupIDY()), bit(truth.Rsrc2, 8, 8), shv(8, 8))
	c.field("EnableSgprWorkGroupIDZ()", b2u(m.EnableSgprWorkGroupIDZ()), bit(truth.Rsrc2, 9, 9), shv(9, 9))
	c.field("EnableSgprWorkGroupInfo()", b2u(m.EnableSgprWorkGroupInfo()), bit(truth.Rsrc2, 10, 10), shv(10, 10))
	c.field("EnableVgprWorkItemID()", m.EnableVgprWorkItemID(), bit(truth.Rsrc2, 11, 12), shv(11, 12))
	c.field("UserSgprCount()", m.UserSgprCount(), bit(truth.Rsrc2, 1, 5), shv(1, 5))
	c.field("EnableSgprPrivateSegmentWaveByteOffset()", b2u(m.EnableSgprPrivateSegmentWaveByteOffset()), bit(truth.Rsrc2, 0, 0), shv(0, 0))
	if c.shiftN > 0 {
		c.rec.Count("v5_kernels_matching_shifted_reading", 1)
		c.viol("C13|v5-descriptor-rsrc-words-read-4-bytes-early",
			fmt.Sprintf("descriptor-based kernel: ComputePgmRsrc3/1/2 = %#x/%#x/%#x are the descriptor's bytes 40..43/44..47/48..51 (reserved, compute_pgm_rsrc3, compute_pgm_rsrc1); "+
				"the file stores compute_pgm_rsrc3/1/2 = %#x/%#x/(%#x after the documented normalisation) at bytes 44/48/52; %d compared values (register counts, work-group/work-item id enables, user SGPR count) follow the misread words",
				m.ComputePgmRsrc3, m.ComputePgmRsrc1, m.ComputePgmRsrc2, truth.Rsrc3, truth.Rsrc1, truth.Rsrc2, c.shiftN), nil)
	}
	if !c.bad {
		rec.Count("kernels_fully_equal", 1)
	}
	return !c.bad
}

func b2u(b bool) uint32 {
	if b {
		return 1
	}
	return 0
}

func head(b []byte, n int) []byte {
	if len(b) > n {
		return b[:n]
	}
	return b
}

// sameResult is the metamorphic comparison of two loads of the same kernel.
func sameResult(a, b *insts.KernelCodeObject) string {
	if a == nil || b == nil || a.KernelCodeObjectMeta == nil || b.KernelCodeObjectMeta == nil {
		return "nil result"
	}
	if a.Version != b.Version {
		return fmt.Sprintf("Version %d vs %d", a.Version, b.Version)
	}
	if !bytes.Equal(a.Data, b.Data) {
		return fmt.Sprintf("Data differs (%d vs %d bytes)", len(a.Data), len(b.Data))
	}
	if *a.KernelCodeObjectMeta != *b.KernelCodeObjectMeta {
		return fmt.Sprintf("metadata differs: %+v vs %+v", *a.KernelCodeObjectMeta, *b.KernelCodeObjectMeta)
	}
	return ""
}
