package main

// Use-history layer: the property says what a load YIELDS; a loaded
// *KernelCodeObject is then handed to the driver again and again. This layer
// keeps judging the object while the simulator uses it:
//
//	(a) after every launch, every exported field and every Data byte of every
//	    object loaded so far = the oracle of the file it was loaded from;
//	(b) a fresh load of the same file after launches = the oracle;
//	(c) what the driver derives from the object for the launch = what the file
//	    says: the LaunchKernelReq observed at the driver's GPU port (hook on
//	    the sending port, snapshot taken at send time) carries a code object
//	    whose metadata and bytes equal the oracle; packet.GroupSegmentSize =
//	    the file's static LDS size + the sizes of the LocalPtr arguments; the
//	    kernel-argument block on the device (read back through the driver from
//	    packet.KernargAddress) is the caller's block with every LocalPtr
//	    replaced by static LDS size + sizes of the LocalPtr arguments in front
//	    of it; the kernarg allocation has the file's kernarg size; the bytes
//	    at packet.KernelObject are the kernel's instruction bytes; the packet's
//	    private segment size is either not populated (0) or the file's.
//
// Two environments run the same step generator:
//   - "rig": the real driver.Driver on a serial engine with fake command
//     processors (vlib/drvkit); launches are prepared, sent and acknowledged
//     but nothing executes, so any shipped or generated kernel can be paired
//     with any argument block (benchmark argument types and generated struct
//     types with 0..4 LocalPtr fields). Runs inside the batch children.
//   - "plat": the emulation / r9nano timing platform (vlib/plat) with
//     Driver.Run(); kernels really execute (useplat.go). One child per case.

import (
	"bytes"
	"debug/elf"
	"encoding/binary"
	"fmt"
	"os"
	"path/filepath"
	"reflect"
	"runtime/debug"
	"strings"
	"sync"

	"github.com/sarchlab/akita/v4/sim"
	"github.com/sarchlab/mgpusim/v4/amd/benchmarks/amdappsdk/matrixmultiplication"
	"github.com/sarchlab/mgpusim/v4/amd/benchmarks/amdappsdk/matrixtranspose"
	"github.com/sarchlab/mgpusim/v4/amd/benchmarks/amdappsdk/nbody"
	"github.com/sarchlab/mgpusim/v4/amd/benchmarks/heteromark/pagerank"
	"github.com/sarchlab/mgpusim/v4/amd/benchmarks/rodinia/nw"
	"github.com/sarchlab/mgpusim/v4/amd/benchmarks/shoc/fft"
	"github.com/sarchlab/mgpusim/v4/amd/benchmarks/shoc/stencil2d"
	"github.com/sarchlab/mgpusim/v4/amd/driver"
	"github.com/sarchlab/mgpusim/v4/amd/insts"
	"github.com/sarchlab/mgpusim/v4/amd/kernels"
	"github.com/sarchlab/mgpusim/v4/amd/protocol"

	"verifharness/vlib"
	"verifharness/vlib/batch"
	"verifharness/vlib/drvkit"
)

const useKey = "use-history"

// ---- the wire tap ---------------------------------------------------------------

// wireLaunch is one LaunchKernelReq as it left the driver's GPU port.
type wireLaunch struct {
	ID        string
	GPU       int // 1-based id of the command processor it was sent to (0 = unknown port)
	Dst       string
	HasPkt    bool
	Pkt       kernels.HsaKernelDispatchPacket // copied at send time
	PktAddr   uint64
	CO        *insts.KernelCodeObject
	HasCO     bool
	COSnap    snapshot // copied at send time
	HasFilter bool
	PID       uint64
}

type wireTap struct {
	mu    sync.Mutex
	seen  map[string]bool
	ls    []*wireLaunch
	gpuOf map[sim.RemotePort]int
}

func newWireTap(d *driver.Driver) *wireTap {
	t := &wireTap{seen: map[string]bool{}, gpuOf: map[sim.RemotePort]int{}}
	for i, p := range d.GPUs {
		t.gpuOf[p.AsRemote()] = i + 1
	}
	d.GetPortByName("GPU").AcceptHook(t)
	return t
}

// Func implements sim.Hook.
func (t *wireTap) Func(ctx sim.HookCtx) {
	if ctx.Pos != sim.HookPosPortMsgSend {
		return
	}
	req, ok := ctx.Item.(*protocol.LaunchKernelReq)
	if !ok {
		return
	}
	w := &wireLaunch{ID: req.ID, Dst: string(req.Dst), PktAddr: req.PacketAddress, CO: req.CodeObject, HasFilter: req.WGFilter != nil, PID: uint64(req.PID)}
	if req.Packet != nil {
		w.Pkt, w.HasPkt = *req.Packet, true
	}
	if req.CodeObject != nil && req.CodeObject.KernelCodeObjectMeta != nil {
		w.COSnap, w.HasCO = snap(req.CodeObject), true
	}
	t.mu.Lock()
	defer t.mu.Unlock()
	if t.seen[req.ID] {
		return
	}
	t.seen[req.ID] = true
	w.GPU = t.gpuOf[req.Dst]
	t.ls = append(t.ls, w)
}

func (t *wireTap) take() []*wireLaunch {
	t.mu.Lock()
	defer t.mu.Unlock()
	out := t.ls
	t.ls = nil
	return out
}

// object rebuilds a code object from a snapshot (for compare()).
func (s snapshot) object() *insts.KernelCodeObject {
	o := &insts.KernelCodeObject{Data: s.Data, Version: s.Version}
	if s.HasMeta {
		m := s.Meta
		o.KernelCodeObjectMeta = &m
	}
	if s.HasSym {
		y := s.Sym
		o.Symbol = &y
	}
	return o
}

// ---- argument blocks --------------------------------------------------------------

var localPtrType = reflect.TypeOf(driver.LocalPtr(0))

// argInfo describes one kernel-argument block (a pointer to a struct whose
// fields are fixed-size values; encoding/binary's little-endian layout without
// padding is what the driver copies to the device).
type argInfo struct {
	Ptr      any // handed to the driver
	Fields   []int
	ByteOff  []int
	Sizes    []uint32 // LocalPtr sizes as the caller set them
	Size     int
	Pristine []byte // encoding as the caller filled it
	TypeDesc string
}

func describeArgs(p any) *argInfo {
	v := reflect.ValueOf(p).Elem()
	a := &argInfo{Ptr: p}
	off := 0
	var names []string
	for i := 0; i < v.NumField(); i++ {
		f := v.Field(i)
		n := binary.Size(f.Interface())
		if n < 0 {
			panic(fmt.Sprintf("harness: argument field %d of %T has no fixed size", i, p))
		}
		if f.Type() == localPtrType {
			a.Fields = append(a.Fields, i)
			a.ByteOff = append(a.ByteOff, off)
			a.Sizes = append(a.Sizes, uint32(f.Uint()))
			names = append(names, fmt.Sprintf("LocalPtr(%d)@%d", f.Uint(), off))
		} else {
			names = append(names, fmt.Sprintf("%s@%d", f.Type().String(), off))
		}
		off += n
	}
	a.Size = off
	var buf bytes.Buffer
	if err := binary.Write(&buf, binary.LittleEndian, p); err != nil {
		panic("harness: " + err.Error())
	}
	a.Pristine = buf.Bytes()
	if len(a.Pristine) != a.Size {
		panic("harness: argument block size mismatch")
	}
	a.TypeDesc = strings.Join(names, " ")
	return a
}

func (a *argInfo) localTotal() uint32 {
	var s uint32
	for _, v := range a.Sizes {
		s += v
	}
	return s
}

// expected: the block the device must see, the LDS offset of every LocalPtr
// argument and the LDS size of the dispatch, from the file's static LDS size.
func (a *argInfo) expected(static uint32) (block []byte, offs []uint32, total uint32) {
	block = append([]byte(nil), a.Pristine...)
	total = static
	for i := range a.Fields {
		offs = append(offs, total)
		binary.LittleEndian.PutUint32(block[a.ByteOff[i]:], total)
		total += a.Sizes[i]
	}
	return
}

var argFieldTypes = []reflect.Type{
	reflect.TypeOf(driver.Ptr(0)), reflect.TypeOf(uint32(0)), reflect.TypeOf(int32(0)), reflect.TypeOf(float32(0)),
	reflect.TypeOf(int64(0)), reflect.TypeOf(uint16(0)), reflect.TypeOf([16]byte{}), reflect.TypeOf(uint64(0)),
}

var localSizes = []uint32{0, 4, 64, 100, 256, 1000, 1024, 4096, 4752, 8192, 16384}

// genArgs builds an argument block of a generated struct type: prefix fields
// (fixed), then random fields with nLocal LocalPtr fields among them, at most
// maxBytes long. Returns nil when not even the prefix fits.
func genArgs(r *vlib.PRNG, prefix []reflect.Type, maxBytes, nLocal int, zeroLocals bool) any {
	var fs []reflect.StructField
	size := 0
	add := func(t reflect.Type) bool {
		n := int(t.Size())
		if t.Kind() == reflect.Struct || size+n > maxBytes {
			return false
		}
		fs = append(fs, reflect.StructField{Name: fmt.Sprintf("F%d", len(fs)), Type: t})
		size += n
		return true
	}
	for _, t := range prefix {
		if !add(t) {
			return nil
		}
	}
	locals := 0
	want := 2 + r.Intn(9)
	for k := 0; k < want || locals < nLocal; k++ {
		if locals < nLocal && (r.Chance(1, 3) || k >= want) {
			if !add(localPtrType) {
				break
			}
			locals++
			continue
		}
		if !add(argFieldTypes[r.Intn(len(argFieldTypes))]) && k >= want {
			break
		}
		if k > 40 {
			break
		}
	}
	if len(fs) == 0 {
		return nil
	}
	p := reflect.New(reflect.StructOf(fs))
	v := p.Elem()
	for i := 0; i < v.NumField(); i++ {
		f := v.Field(i)
		switch {
		case f.Type() == localPtrType:
			s := localSizes[r.Intn(len(localSizes))]
			if r.Chance(1, 4) {
				s = 4 * uint32(r.Intn(3000))
			}
			if zeroLocals {
				s = 0
			}
			f.SetUint(uint64(s))
		case f.Kind() == reflect.Array:
			for j := 0; j < f.Len(); j++ {
				f.Index(j).SetUint(uint64(r.Intn(256)))
			}
		case f.Kind() == reflect.Float32:
			f.SetFloat(float64(r.Intn(1000)) / 8)
		case f.Kind() == reflect.Int32 || f.Kind() == reflect.Int64:
			f.SetInt(int64(r.Intn(1 << 20)))
		default:
			f.SetUint(uint64(r.Uint32()))
		}
	}
	return p.Interface()
}

// benchArgs: the argument types the shipped benchmarks use for their kernels
// with LocalPtr arguments (values are arbitrary: in the rig nothing executes).
func benchArgs(rel, kernel string, r *vlib.PRNG) any {
	lp := func() driver.LocalPtr {
		return driver.LocalPtr([]uint32{256, 1024, 4096, 4752, 16384}[r.Intn(5)])
	}
	gfx := strings.Contains(rel, "gfx942")
	switch {
	case strings.Contains(rel, "matrixtranspose/") && kernel == "matrixTranspose":
		if gfx {
			return &matrixtranspose.CDNA3KernelArgs{Output: 0x1000, Input: 0x9000, Block: lp(), WIWidth: 16, WIHeight: 16, NumWGWidth: 1, HiddenBlockCountX: 1, HiddenBlockCountY: 1, HiddenBlockCountZ: 1,
				HiddenGroupSizeX: 16, HiddenGroupSizeY: 16, HiddenGroupSizeZ: 1, HiddenGridDims: 2}
		}
		return &matrixtranspose.GCN3KernelArgs{Output: 0x1000, Input: 0x9000, Block: lp(), WIWidth: 16, WIHeight: 16, NumWGWidth: 1}
	case strings.Contains(rel, "stencil2d/") && kernel == "StencilKernel" && !gfx:
		return &stencil2d.StencilKernelArgs{Data: 0x1000, NewData: 0x9000, Alignment: 16, WCenter: 0.5, Sh: lp()}
	case strings.Contains(rel, "rodinia/nw/") && strings.HasPrefix(kernel, "nw_kernel") && !gfx && !strings.Contains(rel, "native"):
		a := &nw.KernelArgs{}
		a.LocalInputItemSets, a.LocalReference = lp(), lp()
		return a
	case strings.Contains(rel, "nbody/") && !gfx && !strings.Contains(rel, "native"):
		a := &nbody.KernelArgs{}
		a.LocalPos = lp()
		return a
	case strings.Contains(rel, "pagerank/") && kernel == "PageRankUpdateGpu" && !strings.Contains(rel, "native"):
		a := &pagerank.KernelArgs{}
		a.Vals = lp()
		return a
	case strings.Contains(rel, "shoc/fft/fft.hsaco"):
		a := &fft.KernelArgs{}
		a.Smem = lp()
		return a
	case strings.Contains(rel, "matrixmultiplication/kernels.hsaco") && kernel == "mmmKernel_local":
		a := &matrixmultiplication.KernelArgs{}
		a.BlockA = lp()
		return a
	}
	return nil
}

// ---- subjects, objects, targets ---------------------------------------------------------

// useSubject is one kernel of one code-object image with its oracle.
type useSubject struct {
	Im   *hImage
	K    *ownKernel
	Path string // file to load with FromFS ("" = write the image to a scratch file)
	// exec-capable subjects (plat) provide their own arguments and geometry
	Exec *execSpec
}

func (s *useSubject) label() string { return s.Im.Label + " kernel " + s.K.Name }

type useObject struct {
	S           *useSubject
	CO          *insts.KernelCodeObject
	Via         string
	Step        int
	Snap        snapshot
	Launches    int
	LocalBefore uint32 // sum of the LocalPtr sizes of all earlier launches of this object
	Changed     bool   // found different from the oracle: not launched again
	lastArgs    *argInfo
}

type useTarget struct {
	Name    string
	Ctx     *driver.Context
	Q       *driver.CommandQueue
	GPU     int // device id selected in the context (a unified device id for Unified)
	Unified bool
	Members []int
}

type useLaunch struct {
	N        int
	O        *useObject
	T        *useTarget
	A        *argInfo
	Grid     [3]uint32
	WG       [3]uint16
	Blocking bool
	NewBufs  []driver.VerifBuffer
	Wire     []*wireLaunch
	After    func() string // exec-capable subjects: checks the kernel's result ("" = fine)
	Relaunch bool
	Drift    bool   // the object had been launched with a non-zero LocalPtr total before
	Nth      int    // 1 = first launch of this object
	Before   uint32 // sum of the LocalPtr sizes of the object's earlier launches
}

// useEnv is where the launches go.
type useEnv struct {
	kind     string // rig / emu / timing
	desc     any
	d        *driver.Driver
	tap      *wireTap
	settle   func(qs []*driver.CommandQueue) string // "" or a description of a crash
	readBack func(ctx *driver.Context, p driver.Ptr, n int) ([]byte, string)
	blocking bool // Driver.LaunchKernel usable (needs Driver.Run)
}

type useRun struct {
	rec      *aggRec
	env      *useEnv
	witBase  map[string]any
	name     string
	trace    []string
	step     int
	subjects []*useSubject
	objects  []*useObject
	targets  []*useTarget
	pending  []*useLaunch
	nLaunch  int
	dead     bool
	tmp      int
	drifted  bool
}

func (u *useRun) note(format string, a ...any) {
	u.step++
	u.trace = append(u.trace, fmt.Sprintf("%d: ", u.step)+fmt.Sprintf(format, a...))
}

func (u *useRun) wit(s *useSubject) func(map[string]any) map[string]any {
	step := u.step
	return func(extra map[string]any) map[string]any {
		t := u.trace
		if len(t) > 60 {
			t = t[len(t)-60:]
		}
		m := map[string]any{"use_case": u.name, "environment": u.env.kind, "platform": u.env.desc, "step": step, "steps_so_far": append([]string(nil), t...)}
		if s != nil {
			m["image"], m["kernel"], m["image_description"] = s.Im.Label, s.K.Name, s.Im.Desc
		}
		for k, v := range u.witBase {
			m[k] = v
		}
		for k, v := range extra {
			m[k] = v
		}
		return m
	}
}

func (u *useRun) viol(key, what string, s *useSubject, extra map[string]any) {
	u.rec.Violation("C13|"+useKey+"|"+key, fmt.Sprintf("use case %s (%s) step %d: %s", u.name, u.env.kind, u.step, what), u.wit(s)(extra))
}

// load performs one load of the subject through a seeded entry point and judges it.
func (u *useRun) load(s *useSubject, via string, class string) *useObject {
	u.note("%s <- %s", via, s.label())
	where := fmt.Sprintf("use case %s (%s) step %d: %s of %s (%s)", u.name, u.env.kind, u.step, via, s.label(), s.K.Class)
	var f func() *insts.KernelCodeObject
	switch via {
	case "FromFS":
		path := s.Path
		if path == "" {
			u.tmp++
			path = filepath.Join(".", fmt.Sprintf("use-%s-%d.hsaco", strings.Map(func(r rune) rune {
				if r >= 'a' && r <= 'z' || r >= '0' && r <= '9' {
					return r
				}
				return '-'
			}, strings.ToLower(u.name)), u.tmp))
			if err := os.WriteFile(path, s.Im.Bytes, 0o644); err != nil {
				u.rec.Inconclusive("cannot write " + path + ": " + err.Error())
				return nil
			}
			defer os.Remove(path)
		}
		f = func() *insts.KernelCodeObject { return insts.LoadKernelCodeObjectFromFS(path, s.K.Name) }
	case "FromELF":
		ef, err := elf.NewFile(bytes.NewReader(append([]byte(nil), s.Im.Bytes...)))
		if err != nil {
			u.rec.Inconclusive("harness bug: image is not an ELF for debug/elf: " + err.Error())
			return nil
		}
		f = func() *insts.KernelCodeObject { return insts.LoadKernelCodeObjectFromELF(ef, s.K.Name) }
	default:
		in := append([]byte(nil), s.Im.Bytes...)
		f = func() *insts.KernelCodeObject { return insts.LoadKernelCodeObjectFromBytes(in, s.K.Name) }
	}
	u.rec.Count("use_loads", 1)
	co := guarded(u.rec, useKey+"|"+class, where, u.wit(s), f)
	if co == nil {
		return nil
	}
	compare(u.rec, co, s.K.Truth, nil, useKey+"|"+class, where, s.K.Name, s.K.Size, u.wit(s))
	if co.KernelCodeObjectMeta == nil {
		return nil
	}
	return &useObject{S: s, CO: co, Via: via, Step: u.step, Snap: snap(co)}
}

var loadVias = []string{"FromBytes", "FromBytes", "FromFS", "FromELF"}

// launch hands an object to the driver.
func (u *useRun) launch(o *useObject, t *useTarget, a *argInfo, grid [3]uint32, wg [3]uint16, blocking bool, after func() string) {
	d := u.env.d
	u.nLaunch++
	l := &useLaunch{N: u.nLaunch, O: o, T: t, A: a, Grid: grid, WG: wg, Blocking: blocking, After: after, Relaunch: o.Launches > 0, Drift: o.LocalBefore > 0, Nth: o.Launches + 1, Before: o.LocalBefore}
	api := "EnqueueLaunchKernel"
	if blocking {
		api = "LaunchKernel"
	}
	u.note("launch #%d: %s of the object loaded at step %d (%s; launched %d time(s) before, %d bytes of LocalPtr buffers so far) on %s, grid %v work-group %v, arguments {%s}",
		l.N, api, o.Step, o.S.label(), o.Launches, o.LocalBefore, t.Name, grid, wg, a.TypeDesc)
	before := len(t.Ctx.VerifBuffers())
	var crash string
	func() {
		defer func() {
			if x := recover(); x != nil {
				crash = fmt.Sprintf("%v\n%s", x, debug.Stack())
			}
		}()
		d.SelectGPU(t.Ctx, t.GPU)
		if blocking {
			d.LaunchKernel(t.Ctx, o.CO, grid, wg, a.Ptr)
		} else {
			d.EnqueueLaunchKernel(t.Q, o.CO, grid, wg, a.Ptr)
		}
	}()
	if crash != "" {
		u.viol("driver-panics-preparing-launch", "the driver panicked while preparing launch #"+fmt.Sprint(l.N)+" of "+o.S.label()+": "+head1(crash), o.S, map[string]any{"panic": crash})
		u.dead = true
		return
	}
	all := t.Ctx.VerifBuffers()
	if before <= len(all) {
		l.NewBufs = all[before:]
	}
	o.Launches++
	o.LocalBefore += a.localTotal()
	o.lastArgs = a
	u.pending = append(u.pending, l)
	u.rec.Count("use_launches", 1)
	u.rec.Count("use_launches_"+u.env.kind, 1)
	if blocking {
		u.rec.Count("use_launches_blocking_api", 1)
	}
	if t.Unified {
		u.rec.Count("use_launches_on_unified_device", 1)
	}
	switch {
	case len(a.Fields) == 0:
		u.rec.Count("use_launches_without_local_ptr_argument", 1)
	case a.localTotal() == 0:
		u.rec.Count("use_launches_with_zero_sized_local_ptr", 1)
	default:
		u.rec.Count("use_launches_with_local_ptr", 1)
		if len(a.Fields) >= 2 {
			u.rec.Count("use_launches_with_several_local_ptrs", 1)
		}
		if o.S.K.Truth.Group > 0 {
			u.rec.Count("use_launches_with_local_ptr_and_static_lds", 1)
		}
	}
	if l.Relaunch {
		u.rec.Count("use_relaunches_of_same_object", 1)
	}
	if l.Drift {
		u.rec.Count("use_relaunches_after_local_ptr_launch", 1)
		u.drifted = true
	}
	u.rec.Distinct("use_kernels_launched", o.S.label())
	if blocking {
		u.audit()
	}
}

func head1(s string) string {
	if i := strings.IndexByte(s, '\n'); i >= 0 {
		return s[:i]
	}
	return s
}

// audit lets the pending launches complete and judges everything.
func (u *useRun) audit() {
	if u.dead {
		return
	}
	var qs []*driver.CommandQueue
	seenQ := map[*driver.CommandQueue]bool{}
	for _, l := range u.pending {
		if !l.Blocking && !seenQ[l.T.Q] {
			seenQ[l.T.Q] = true
			qs = append(qs, l.T.Q)
		}
	}
	if len(u.pending) > 0 {
		u.note("let %d pending launch(es) complete", len(u.pending))
	}
	if crash := u.env.settle(qs); crash != "" {
		u.viol("driver-panics-during-launch", "the driver panicked while processing launches: "+head1(crash), nil, map[string]any{"panic": crash})
		u.dead = true
		return
	}
	// match what went over the wire to the launches of this batch
	for _, w := range u.env.tap.take() {
		var owner *useLaunch
		for _, l := range u.pending {
			for _, b := range l.NewBufs {
				if uint64(b.Ptr) == w.PktAddr && uint64(b.PID) == w.PID {
					owner = l
				}
			}
		}
		if owner == nil {
			u.rec.Inconclusive(fmt.Sprintf("use case %s: a LaunchKernelReq (packet address %#x) cannot be attributed to a launch of the harness", u.name, w.PktAddr))
			u.dead = true
			return
		}
		owner.Wire = append(owner.Wire, w)
	}
	for _, l := range u.pending {
		if u.dead {
			break
		}
		if len(l.Wire) == 0 || (!l.T.Unified && len(l.Wire) != 1) || (l.T.Unified && len(l.Wire) > len(l.T.Members)) {
			u.rec.Inconclusive(fmt.Sprintf("use case %s: launch #%d on %s produced %d LaunchKernelReqs", u.name, l.N, l.T.Name, len(l.Wire)))
			u.dead = true
			break
		}
		for _, w := range l.Wire {
			u.judgeWire(l, w)
		}
		if l.After != nil && !u.dead {
			u.rec.Count("use_kernel_results_checked", 1)
			if msg := l.After(); msg != "" {
				u.viol("dispatch|launched-kernel-computes-wrong-result", fmt.Sprintf("launch #%d of %s: %s", l.N, l.O.S.label(), msg), l.O.S, nil)
			}
		}
	}
	launched := map[*useSubject]bool{}
	for _, l := range u.pending {
		launched[l.O.S] = true
	}
	u.pending = nil
	if u.dead {
		return
	}
	// (a) every object loaded so far
	for _, o := range u.objects {
		if o.Changed {
			continue
		}
		class := useKey + "|loaded-object-changed-by-launch"
		if o.Launches == 0 {
			class = useKey + "|unlaunched-object-changed-by-launches-of-others"
			u.rec.Count("use_unlaunched_objects_compared", 1)
		} else {
			u.rec.Count("use_objects_compared_after_launch", 1)
		}
		where := fmt.Sprintf("use case %s (%s) step %d: the object loaded at step %d (%s of %s, %s), launched %d time(s)", u.name, u.env.kind, u.step, o.Step, o.Via, o.S.label(), o.S.K.Class, o.Launches)
		ok := compare(u.rec, o.CO, o.S.K.Truth, nil, class, where, o.S.K.Name, o.S.K.Size, u.wit(o.S))
		if d := o.Snap.diff(o.CO); d != "" {
			if ok { // something compare() does not look at (the rest of Symbol)
				u.rec.Violation("C13|"+class+"|"+d, where+": its "+d+" differs from what the load returned", u.wit(o.S)(map[string]any{"changed": d}))
			}
			ok = false
		}
		if !ok {
			o.Changed = true
			u.rec.Count("use_objects_found_changed", 1)
		}
	}
	// (b) a fresh load of every file that was just used
	for _, s := range u.subjects {
		if launched[s] {
			u.rec.Count("use_fresh_loads_after_launch", 1)
			u.load(s, loadVias[(u.step+len(u.trace))%len(loadVias)], "fresh-load-after-launch")
		}
	}
}

func (u *useRun) judgeWire(l *useLaunch, w *wireLaunch) {
	s, T := l.O.S, l.O.S.K.Truth
	u.rec.Count("use_wire_launches_judged", 1)
	if l.T.Unified {
		u.rec.Count("use_wire_launches_of_unified_device", 1)
	}
	pre := fmt.Sprintf("launch #%d (%s, launch %d of this object, %d bytes of LocalPtr buffers in its earlier launches) sent to GPU %d", l.N, s.label(), l.Nth, l.Before, w.GPU)
	ex := func(m map[string]any) map[string]any {
		if m == nil {
			m = map[string]any{}
		}
		m["launch"], m["gpu"], m["arguments"], m["local_ptr_sizes"] = l.N, w.GPU, l.A.TypeDesc, l.A.Sizes
		return m
	}
	if !w.HasPkt {
		u.viol("dispatch|no-packet", pre+": the LaunchKernelReq carries no dispatch packet", s, ex(nil))
		return
	}
	// the code object on the wire
	if !w.HasCO {
		u.viol("dispatch|code-object-on-wire|nil", pre+": the LaunchKernelReq carries no code object", s, ex(nil))
	} else {
		where := fmt.Sprintf("use case %s (%s) step %d: %s: the code object in the LaunchKernelReq", u.name, u.env.kind, u.step, pre)
		compare(u.rec, w.COSnap.object(), T, nil, useKey+"|dispatch|code-object-on-wire", where, s.K.Name, s.K.Size, func(m map[string]any) map[string]any { return u.wit(s)(ex(m)) })
		if w.CO == l.O.CO {
			u.rec.Count("use_wire_code_object_is_the_loaded_object", 1)
		} else {
			u.rec.Count("note_wire_code_object_is_a_copy", 1)
		}
	}
	block, offs, total := l.A.expected(T.Group)
	p := w.Pkt
	u.rec.Count("use_group_segment_sizes_checked", 1)
	if p.GroupSegmentSize != total {
		u.viol("dispatch|group-segment-size", fmt.Sprintf("%s: the dispatch packet asks for %d bytes of LDS; the file stores %d bytes of static LDS and the LocalPtr arguments add %v = %d",
			pre, p.GroupSegmentSize, T.Group, l.A.Sizes, total), s, ex(map[string]any{"got": p.GroupSegmentSize, "want": total, "static_lds_in_file": T.Group}))
	}
	u.rec.Count("use_private_segment_sizes_checked", 1)
	if p.PrivateSegmentSize != 0 && p.PrivateSegmentSize != T.Private {
		u.viol("dispatch|private-segment-size", fmt.Sprintf("%s: the dispatch packet's private segment size is %d, the file stores %d", pre, p.PrivateSegmentSize, T.Private), s, ex(nil))
	} else if p.PrivateSegmentSize == 0 && T.Private != 0 {
		u.rec.Count("note_packet_private_segment_size_not_populated", 1)
	}
	// allocations behind the packet
	var karg, code *driver.VerifBuffer
	all := l.T.Ctx.VerifBuffers()
	for i := range all {
		b := &all[i]
		if uint64(b.Ptr) == p.KernargAddress {
			karg = b
		}
		if uint64(b.Ptr) == p.KernelObject {
			code = b
		}
	}
	if karg != nil {
		u.rec.Count("use_kernarg_segment_sizes_checked", 1)
		if karg.Size != T.Kernarg {
			u.viol("dispatch|kernarg-segment-size", fmt.Sprintf("%s: the kernel-argument segment allocated for the launch has %d bytes, the file stores kernarg size %d", pre, karg.Size, T.Kernarg), s,
				ex(map[string]any{"got": karg.Size, "want": T.Kernarg}))
		}
	}
	if code != nil {
		u.rec.Count("use_code_allocation_sizes_checked", 1)
		if code.Size != uint64(len(T.Data)) {
			u.viol("dispatch|code-size-on-device", fmt.Sprintf("%s: %d bytes were allocated for the kernel's code, the kernel has %d instruction bytes", pre, code.Size, len(T.Data)), s, ex(nil))
		}
	}
	// the argument block on the device
	got, crash := u.env.readBack(l.T.Ctx, driver.Ptr(p.KernargAddress), l.A.Size)
	if crash != "" {
		u.viol("dispatch|kernarg-address-unreadable", fmt.Sprintf("%s: reading %d bytes back from the packet's kernarg address %#x failed: %s", pre, l.A.Size, p.KernargAddress, head1(crash)), s, ex(map[string]any{"panic": crash}))
		u.dead = true
		return
	}
	u.rec.Count("use_kernarg_bytes_compared", int64(len(block)))
	u.rec.Count("use_local_ptr_offsets_checked", int64(len(offs)))
	if l.Drift {
		u.rec.Count("use_local_ptr_offsets_checked_after_local_ptr_launch", int64(len(offs)))
	}
	if !bytes.Equal(got, block) {
		bad := -1
		for i := range l.A.Fields {
			o := l.A.ByteOff[i]
			if !bytes.Equal(got[o:o+4], block[o:o+4]) {
				bad = i
				break
			}
		}
		if bad >= 0 {
			o := l.A.ByteOff[bad]
			g := binary.LittleEndian.Uint32(got[o:])
			u.viol("dispatch|lds-offset-of-local-pointer", fmt.Sprintf("%s: LocalPtr argument %d of %d (byte %d of the argument block, %d bytes requested) was given LDS offset %d; the file stores %d bytes of static LDS and the LocalPtr arguments in front of it take %v, so its buffer starts at %d",
				pre, bad+1, len(offs), o, l.A.Sizes[bad], g, T.Group, l.A.Sizes[:bad], offs[bad]), s, ex(map[string]any{"got": g, "want": offs[bad], "static_lds_in_file": T.Group}))
		} else {
			at := 0
			for at < len(block) && got[at] == block[at] {
				at++
			}
			u.viol("dispatch|kernarg-bytes", fmt.Sprintf("%s: the argument block on the device differs from the caller's block from byte %d on (outside the LocalPtr arguments)", pre, at), s,
				ex(map[string]any{"got": fmt.Sprintf("%x", got), "want": fmt.Sprintf("%x", block)}))
		}
	}
	// the instruction bytes on the device
	gotCode, crash := u.env.readBack(l.T.Ctx, driver.Ptr(p.KernelObject), len(T.Data))
	if crash != "" {
		u.viol("dispatch|kernel-object-unreadable", fmt.Sprintf("%s: reading %d bytes back from the packet's kernel object address %#x failed: %s", pre, len(T.Data), p.KernelObject, head1(crash)), s, ex(map[string]any{"panic": crash}))
		u.dead = true
		return
	}
	u.rec.Count("use_code_bytes_on_device_compared", int64(len(T.Data)))
	if !bytes.Equal(gotCode, T.Data) {
		at := 0
		for at < len(T.Data) && at < len(gotCode) && gotCode[at] == T.Data[at] {
			at++
		}
		u.viol("dispatch|code-bytes-on-device", fmt.Sprintf("%s: the bytes at the packet's kernel object address differ from the kernel's instruction bytes in the file from byte %d on", pre, at), s, ex(nil))
	}
}

// ---- the step generator (shared by rig and plat) ---------------------------------------------

// argsFor returns the argument block for the next launch of o.
type argMaker func(u *useRun, o *useObject, t *useTarget, r *vlib.PRNG, zeroLocals bool) (a *argInfo, grid [3]uint32, wg [3]uint16, after func() string)

// runSteps: load every subject, then a seeded interleaving of launches
// (1-3 enqueued before they are allowed to complete), re-launches of the same
// object with the same or a new argument block, fresh loads that join the
// pool of launchable objects, and audits. Every launchable object is launched
// at most maxPer times.
func (u *useRun) runSteps(r *vlib.PRNG, mk argMaker, steps, maxPer int) {
	for i, s := range u.subjects {
		if o := u.load(s, loadVias[(i+r.Intn(4))%len(loadVias)], "load"); o != nil {
			u.objects = append(u.objects, o)
		}
	}
	launchable := func() []*useObject {
		var out []*useObject
		for _, o := range u.objects {
			// an object found changed is not executed again (a platform could wedge on it); the rig, where nothing executes, goes on to show the drift
			if (!o.Changed || u.env.kind == "rig") && o.Launches < maxPer && o.S.K.Truth.Kernarg > 0 {
				out = append(out, o)
			}
		}
		return out
	}
	one := func(zero bool) {
		ls := launchable()
		if len(ls) == 0 {
			return
		}
		o := ls[r.Intn(len(ls))]
		// prefer objects that have been launched with LocalPtr buffers before
		for k := 0; k < 2 && o.LocalBefore == 0; k++ {
			o = ls[r.Intn(len(ls))]
		}
		t := u.targets[r.Intn(len(u.targets))]
		var a *argInfo
		var grid [3]uint32
		var wg [3]uint16
		var after func() string
		if o.lastArgs != nil && r.Chance(1, 4) && o.S.Exec == nil {
			// the caller hands in the same argument block again; what it asks for is what it
			// wrote into the block (Sizes / Pristine), whatever the block holds now
			a, grid, wg = o.lastArgs, [3]uint32{128, 2, 1}, [3]uint16{64, 1, 1}
			u.rec.Count("use_launches_reusing_argument_block", 1)
		} else {
			a, grid, wg, after = mk(u, o, t, r, zero)
		}
		if a == nil {
			return
		}
		blocking := u.env.blocking && r.Chance(1, 3)
		if blocking && len(u.pending) > 0 {
			u.audit()
		}
		// one queue per target: launches of one batch on different targets use different contexts' queues
		for _, l := range u.pending {
			if l.T != t && l.T.Ctx == t.Ctx {
				u.audit() // never two queues of one context in flight with a shared code object (known finding C12|second-queue-...)
				break
			}
		}
		u.launch(o, t, a, grid, wg, blocking, after)
	}
	for s := 0; s < steps && !u.dead; s++ {
		switch op := r.Intn(12); {
		case op < 7:
			n := 1 + r.Intn(3)
			for k := 0; k < n && !u.dead; k++ {
				one(r.Chance(1, 6))
			}
			if r.Chance(2, 3) {
				u.audit()
			}
		case op < 9:
			// a fresh load of a file in use; it joins the launchable objects
			sub := u.subjects[r.Intn(len(u.subjects))]
			u.rec.Count("use_fresh_loads_interleaved", 1)
			if o := u.load(sub, loadVias[r.Intn(len(loadVias))], "fresh-load-between-launches"); o != nil && len(u.objects) < 24 {
				u.objects = append(u.objects, o)
			}
		default:
			u.audit()
		}
	}
	u.audit()
	// make sure every still launchable object that has had LocalPtr launches is launched once more
	for _, o := range u.objects {
		if u.dead {
			break
		}
		if !o.Changed && o.LocalBefore > 0 && o.Launches == 1 && o.S.K.Truth.Kernarg > 0 {
			t := u.targets[r.Intn(len(u.targets))]
			a, grid, wg, after := mk(u, o, t, r, false)
			if a != nil {
				u.launch(o, t, a, grid, wg, false, after)
				u.audit()
			}
		}
	}
	u.audit()
	u.rec.Count("use_objects_tracked", int64(len(u.objects)))
	if u.drifted {
		u.rec.Nontrivial("use:" + u.name)
		u.rec.Count("use_cases_with_relaunch_after_local_ptr_launch", 1)
	}
}

// ---- the rig environment ------------------------------------------------------------------------

type rigCase struct {
	Index    int         `json:"use_index"`
	Kind     string      `json:"kind"` // canonical / shipped / generated
	CUs      []int       `json:"cu_counts"`
	Targets  [][]int     `json:"targets"` // one GPU id, or the members of a unified device
	OneCtx   bool        `json:"one_context"`
	Files    []string    `json:"files,omitempty"`
	Gen      []*fileSpec `json:"generated,omitempty"`
	Steps    int         `json:"steps"`
	Canon    string      `json:"canonical,omitempty"`
	LocalArg uint32      `json:"local_bytes,omitempty"`
}

// rigLocalFiles: shipped files that hold kernels the benchmarks launch with LocalPtr arguments.
var rigLocalFiles = []string{
	"amd/benchmarks/amdappsdk/matrixtranspose/kernels.hsaco", "amd/benchmarks/amdappsdk/matrixtranspose/kernels_gfx942.hsaco",
	"amd/benchmarks/shoc/stencil2d/kernels.hsaco", "amd/benchmarks/rodinia/nw/kernels.hsaco", "amd/benchmarks/amdappsdk/nbody/nbody.hsaco",
	"amd/benchmarks/heteromark/pagerank/kernels.hsaco", "amd/benchmarks/heteromark/pagerank/kernels_gfx942.hsaco",
	"amd/benchmarks/shoc/fft/fft.hsaco", "amd/benchmarks/amdappsdk/matrixmultiplication/kernels.hsaco",
}

const rigCanon = 8

// launchableSpec makes a generated file description launchable: kernarg sizes
// the driver can allocate, LDS sizes that leave room for LocalPtr buffers.
func launchableSpec(f *fileSpec, r *vlib.PRNG) {
	for i := range f.Kernels {
		k := &f.Kernels[i]
		ka := uint32(16 + 8*r.Intn(40))
		gs := []uint32{0, 0, 64, 256, 1000, 2048, 4752, 16384}[r.Intn(8)]
		if k.KD != nil {
			k.KD.KernargSize, k.KD.GroupSize = ka, gs
		}
		if k.Header != nil {
			k.Header.KernargSize, k.Header.GroupSize = uint64(ka), gs
		}
	}
}

func genRigCase(repo string, shipped []string, seed int64, j int) *rigCase {
	c := &rigCase{Index: j}
	if j < rigCanon {
		// the scenario of the missed break and its neighbours, seed independent
		c.Kind = "canonical"
		c.CUs = []int{4, 4}
		c.Steps = 0
		c.LocalArg = 4096
		switch j {
		case 0:
			c.Canon, c.Files, c.Targets = "header-kernel-3-launches-with-local-buffer", rigLocalFiles[0:1], [][]int{{1}}
		case 1:
			c.Canon, c.Files, c.Targets = "descriptor-kernel-3-launches-with-local-buffer", rigLocalFiles[1:2], [][]int{{1}}
		case 2:
			c.Canon, c.Files, c.Targets, c.LocalArg = "header-kernel-3-launches-zero-sized-local-buffer", rigLocalFiles[0:1], [][]int{{1}}, 0
		case 3:
			c.Canon, c.Files, c.Targets = "header-kernel-3-launches-on-unified-device", rigLocalFiles[0:1], [][]int{{1, 2}}
		case 4:
			c.Canon, c.Files, c.Targets = "stencil-and-nw-alternating-gpus", []string{rigLocalFiles[2], rigLocalFiles[3]}, [][]int{{1}, {2}}
		case 5:
			c.Canon, c.Files, c.Targets = "static-lds-plus-local-buffer", []string{rigLocalFiles[6], rigLocalFiles[7]}, [][]int{{2}}
		case 6:
			c.Canon, c.Files, c.Targets, c.OneCtx = "all-benchmark-local-kernels-plain-and-unified", rigLocalFiles, [][]int{{1}, {2, 1}}, true
		case 7:
			c.Canon, c.Targets = "generated-static-lds-three-local-buffers", [][]int{{1}, {1, 2}}
			f := canonicalFiles()[6] // v5 + v3 mixed
			g := cloneSpec(f)
			launchableSpec(g, vlib.NewPRNG(0xc13a))
			g.Name = "use-" + f.Name
			c.Gen = []*fileSpec{g}
		}
		c.Steps = 14
		return c
	}
	r := batch.Rand("C13", seed, "use-rig").ForkN("u", j)
	n := 1 + r.Intn(3)
	for i := 0; i < n; i++ {
		c.CUs = append(c.CUs, []int{1, 2, 4, 8, 36, 64}[r.Intn(6)])
	}
	nt := 1 + r.Intn(2)
	for i := 0; i < nt; i++ {
		if n >= 2 && r.Chance(1, 3) {
			p := r.Perm(n)
			k := 2 + r.Intn(n-1)
			var m []int
			for _, x := range p[:k] {
				m = append(m, x+1)
			}
			c.Targets = append(c.Targets, m)
		} else {
			c.Targets = append(c.Targets, []int{1 + r.Intn(n)})
		}
	}
	c.OneCtx = r.Chance(1, 3)
	c.Steps = 8 + r.Intn(10)
	if j%2 == 0 {
		c.Kind = "shipped"
		nf := 1 + r.Intn(3)
		for i := 0; i < nf; i++ {
			if r.Chance(1, 2) {
				c.Files = append(c.Files, rigLocalFiles[r.Intn(len(rigLocalFiles))])
			} else {
				c.Files = append(c.Files, strings.TrimPrefix(shipped[r.Intn(len(shipped))], repo+"/"))
			}
		}
	} else {
		c.Kind = "generated"
		ng := 1 + r.Intn(2)
		for i := 0; i < ng; i++ {
			f := genFile(r.ForkN("file", i), j*4+i)
			f.Name = fmt.Sprintf("u%d-%d", j, i)
			launchableSpec(f, r.ForkN("launchable", i))
			c.Gen = append(c.Gen, f)
		}
	}
	return c
}

func (c *rigCase) subjects(repo string, rec vlib.Recorder) []*useSubject {
	var out []*useSubject
	seen := map[string]bool{}
	for _, rel := range c.Files {
		if seen[rel] {
			continue
		}
		seen[rel] = true
		path := filepath.Join(repo, rel)
		im, err := shippedImage(repo, path)
		if err != nil {
			rec.Inconclusive("independent extractor cannot read " + path + ": " + err.Error())
			continue
		}
		for ki := range im.Kernels {
			if ki >= 4 {
				break
			}
			out = append(out, &useSubject{Im: im, K: &im.Kernels[ki], Path: path})
		}
	}
	for _, f := range c.Gen {
		im := synthImage(f.Name, f)
		for ki := range im.Kernels {
			out = append(out, &useSubject{Im: im, K: &im.Kernels[ki]})
		}
	}
	return out
}

func newRigEnv(c *rigCase) (*useEnv, *drvkit.Rig) {
	var props []driver.DeviceProperties
	for _, cu := range c.CUs {
		props = append(props, driver.DeviceProperties{CUCount: cu, DRAMSize: 1 << 30})
	}
	rig := drvkit.NewRig(drvkit.Options{Log2Page: 12, GPUs: props, Connected: true, MagicCopy: true})
	env := &useEnv{kind: "rig", desc: map[string]any{"driver": "real driver.Driver, serial engine, fake command processors (vlib/drvkit), global-storage copy middleware", "cu_counts": c.CUs}, d: rig.Driver}
	env.tap = newWireTap(rig.Driver)
	run := func() string {
		_, livelock, pv, st := rig.RunDriver(2000000)
		if pv != nil {
			return fmt.Sprintf("%v\n%s", pv, st)
		}
		if livelock {
			return "harness: event bound hit while the driver processed its queues against the fake command processors"
		}
		return ""
	}
	env.settle = func(qs []*driver.CommandQueue) string {
		if msg := run(); msg != "" {
			return msg
		}
		for _, q := range qs {
			if q.NumCommand() != 0 {
				return fmt.Sprintf("harness: %d command(s) left in a queue after the engine went idle", q.NumCommand())
			}
		}
		return ""
	}
	env.readBack = func(ctx *driver.Context, p driver.Ptr, n int) (out []byte, crash string) {
		out = make([]byte, n)
		if n == 0 {
			return out, ""
		}
		defer func() {
			if x := recover(); x != nil {
				crash = fmt.Sprintf("%v\n%s", x, debug.Stack())
			}
		}()
		q := rig.Driver.CreateCommandQueue(ctx)
		rig.Driver.EnqueueMemCopyD2H(q, out, p)
		if msg := run(); msg != "" {
			return out, msg
		}
		return out, ""
	}
	return env, rig
}

func makeTargets(d *driver.Driver, specs [][]int, oneCtx bool) []*useTarget {
	var out []*useTarget
	var shared *driver.Context
	for i, m := range specs {
		var ctx *driver.Context
		if oneCtx {
			if shared == nil {
				shared = d.Init()
			}
			ctx = shared
		} else {
			ctx = d.Init()
		}
		t := &useTarget{Ctx: ctx}
		if len(m) == 1 {
			t.GPU = m[0]
			t.Name = fmt.Sprintf("target %d (GPU %d)", i, m[0])
		} else {
			t.Unified, t.Members = true, append([]int(nil), m...)
			t.GPU = d.CreateUnifiedGPU(ctx, append([]int(nil), m...))
			t.Name = fmt.Sprintf("target %d (unified device %d of GPUs %v)", i, t.GPU, m)
		}
		d.SelectGPU(ctx, t.GPU)
		t.Q = d.CreateCommandQueue(ctx)
		out = append(out, t)
	}
	return out
}

// rigArgs: benchmark argument types where the kernel is one the benchmarks
// launch with LocalPtr arguments, generated struct types otherwise.
func rigArgs(local *uint32) argMaker {
	return func(u *useRun, o *useObject, _ *useTarget, r *vlib.PRNG, zero bool) (*argInfo, [3]uint32, [3]uint16, func() string) {
		grid, wg := [3]uint32{uint32(64 * (1 + r.Intn(8))), uint32(1 + r.Intn(3)), 1}, [3]uint16{64, 1, 1}
		T := o.S.K.Truth
		var p any
		if rel, ok := o.S.Im.Desc.(string); ok && (local != nil || r.Chance(2, 3)) {
			p = benchArgs(rel, o.S.K.Name, r)
			if p != nil && uint64(binary.Size(p)) > T.Kernarg {
				p = nil
			}
			if p != nil {
				u.rec.Count("use_launches_with_benchmark_argument_type", 1)
				v := reflect.ValueOf(p).Elem()
				for i := 0; i < v.NumField(); i++ {
					if v.Field(i).Type() == localPtrType {
						switch {
						case local != nil:
							v.Field(i).SetUint(uint64(*local))
						case zero:
							v.Field(i).SetUint(0)
						}
					}
				}
			}
		}
		if p == nil {
			max := int(T.Kernarg)
			if max > 256 {
				max = 256
			}
			nl := r.Intn(5)
			if nl > 0 && r.Chance(1, 8) {
				nl = 0
			}
			p = genArgs(r, nil, max, nl, zero)
			if local != nil && p != nil {
				v := reflect.ValueOf(p).Elem()
				for i := 0; i < v.NumField(); i++ {
					if v.Field(i).Type() == localPtrType {
						v.Field(i).SetUint(uint64(*local))
					}
				}
			}
		}
		if p == nil {
			return nil, grid, wg, nil
		}
		return describeArgs(p), grid, wg, nil
	}
}

func runUseRig(rec0 vlib.Recorder, repo string, shipped []string, seed int64, idx, j int) {
	rec := newAgg(rec0)
	defer rec.flush()
	rec.Eval()
	c := genRigCase(repo, shipped, seed, j)
	rec.Count("use_cases", 1)
	rec.Count("use_cases_rig", 1)
	rec.Count("use_cases_rig_"+c.Kind, 1)
	env, _ := newRigEnv(c)
	u := &useRun{rec: rec, env: env, name: fmt.Sprintf("rig-%d", j), witBase: map[string]any{"case_index": idx, "use_index": j, "case": c}}
	if c.Canon != "" {
		u.name += "-" + c.Canon
	}
	u.subjects = c.subjects(repo, rec)
	if len(u.subjects) == 0 {
		return
	}
	func() {
		defer func() {
			if x := recover(); x != nil {
				u.viol("driver-panics-preparing-launch", fmt.Sprintf("creating contexts, queues or unified devices panicked: %v", x), nil, map[string]any{"stack": string(debug.Stack())})
				u.dead = true
			}
		}()
		u.targets = makeTargets(env.d, c.Targets, c.OneCtx)
	}()
	if u.dead {
		return
	}
	r := batch.Rand("C13", seed, "use-rig-steps").ForkN("u", j)
	if c.Kind == "canonical" {
		r = vlib.NewPRNG(0xc13000 + uint64(j))
	}
	var local *uint32
	if c.Kind == "canonical" && j < 4 {
		local = &c.LocalArg
		// exactly the missed scenario: load once, launch three times, nothing else in between
		mk := rigArgs(local)
		for i, s := range u.subjects {
			if o := u.load(s, loadVias[i%len(loadVias)], "load"); o != nil {
				u.objects = append(u.objects, o)
			}
		}
		for n := 0; n < 3 && !u.dead; n++ {
			for _, o := range u.objects {
				if u.dead || o.S.K.Truth.Kernarg == 0 {
					continue
				}
				if a, grid, wg, _ := mk(u, o, u.targets[0], r, false); a != nil {
					u.launch(o, u.targets[0], a, grid, wg, false, nil)
					u.audit()
				}
			}
		}
		if u.drifted {
			u.rec.Nontrivial("use:" + u.name)
			u.rec.Count("use_cases_with_relaunch_after_local_ptr_launch", 1)
		}
		return
	}
	u.runSteps(r, rigArgs(nil), c.Steps, 4)
	rec.Distinct("use_rig_shapes", fmt.Sprintf("%s-%dgpu-%dtargets-%v", c.Kind, len(c.CUs), len(c.Targets), c.OneCtx))
}
