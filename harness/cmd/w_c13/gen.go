package main

import (
	"encoding/binary"
	"fmt"

	"verifharness/vlib"
)

func genHdr(r *vlib.PRNG) *hdrSpec {
	h := &hdrSpec{
		VersionMajor: 1, VersionMinor: uint32(r.Intn(3)), MachineKind: 1,
		MachineMajor: uint16(7 + r.Intn(3)), MachineMinor: uint16(r.Intn(2)), MachineStep: uint16(r.Intn(11)),
		EntryOffset: 256, PrefetchOffset: int64(r.Intn(2)) * 256, PrefetchSize: uint64(r.Intn(4096)),
		MaxScratch: uint64(r.Intn(1 << 16)),
		Rsrc1:      r.Uint32(), Rsrc2: r.Uint32(),
		CodeProps:   r.Uint32(),
		PrivateSize: uint32(r.Intn(1<<14)) * 4, GroupSize: uint32(r.Intn(1 << 16)), GdsSize: uint32(r.Intn(256)),
		KernargSize: uint64(r.Intn(1 << 12)), FbarrierCount: uint32(r.Intn(3)),
		SgprCount: uint16(1 + r.Intn(104)), VgprCount: uint16(1 + r.Intn(256)),
		Tail: make([]byte, 168),
	}
	if r.Chance(1, 8) {
		h.KernargSize = 1<<32 + uint64(r.Intn(4096)) // 64-bit field
	}
	switch r.Intn(4) {
	case 0: // what compilers emit
		h.Rsrc1, h.Rsrc2, h.CodeProps = 0x00ac0000|uint32(r.Intn(1<<10)), 0x0000008c|uint32(r.Intn(8))<<7, 0x000c0009|uint32(r.Intn(2))<<1
	case 1:
		h.CodeProps = uint32(r.Intn(1 << 10))
	}
	r.Bytes(h.Tail)
	return h
}

func genKD(r *vlib.PRNG) *kdSpec {
	k := &kdSpec{
		GroupSize: uint32(r.Intn(1 << 16)), PrivateSize: uint32(r.Intn(1<<12)) * 4, KernargSize: uint32(r.Intn(1 << 12)),
		Rsrc3: r.Uint32(), Rsrc1: r.Uint32(), Rsrc2: r.Uint32(), Props: uint16(r.Uint32()), Preload: uint16(r.Intn(4)),
	}
	switch r.Intn(4) {
	case 0:
		k.KernargSize = 0
	case 1: // what compilers emit for gfx942
		k.Rsrc3 = uint32(r.Intn(64))
		k.Rsrc1 = 0x00af0000 | uint32(r.Intn(1<<10))
		k.Rsrc2 = []uint32{0x84, 0x984, 0x1384, 0x1b84, 0x04, 0x1004}[r.Intn(6)]
		k.Props = 8
	}
	switch r.Intn(3) {
	case 0:
		k.EntryOffset = 0 // unlinked object (relocation pending)
	case 1:
		k.EntryOffset = int64(0x1000 + 64*r.Intn(512)) // linked: distance from descriptor to code
	default:
		k.EntryOffset = -int64(64 * (1 + r.Intn(512)))
	}
	return k
}

// header-like prefixes for instruction bytes
func mimic(r *vlib.PRNG, code []byte, kind string) {
	if len(code) < 24 {
		return
	}
	le := binary.LittleEndian
	le.PutUint32(code[0:], 1)
	le.PutUint32(code[4:], uint32(r.Intn(3)))
	le.PutUint16(code[8:], 1)
	switch kind {
	case "signature-10-bytes": // the stencil2d case: the old 10-byte signature only
		le.PutUint16(code[10:], []uint16{0, 1, 6, 10, 11, 0xbe80}[r.Intn(6)])
		le.PutUint64(code[16:], []uint64{0, 128, 255, 257, 1 << 32, 0xbf8c0000bf800000}[r.Intn(6)])
	case "all-but-entry-offset":
		le.PutUint16(code[10:], uint16(7+r.Intn(3)))
		le.PutUint64(code[16:], []uint64{0, 128, 255, 257, 512, 256 | 1<<32}[r.Intn(6)])
	case "all-but-machine-version":
		le.PutUint16(code[10:], []uint16{0, 6, 10, 11, 12, 0x109}[r.Intn(6)])
		le.PutUint64(code[16:], 256)
	case "all-but-minor-version":
		le.PutUint32(code[4:], []uint32{3, 4, 0x100, 1 << 16}[r.Intn(4)])
		le.PutUint16(code[10:], uint16(7+r.Intn(3)))
		le.PutUint64(code[16:], 256)
	case "all-but-machine-kind":
		le.PutUint16(code[8:], []uint16{0, 2, 0x101}[r.Intn(3)])
		le.PutUint16(code[10:], uint16(7+r.Intn(3)))
		le.PutUint64(code[16:], 256)
	case "complete-signature", "complete-signature-short":
		le.PutUint16(code[10:], uint16(7+r.Intn(3)))
		le.PutUint64(code[16:], 256)
	}
}

var partialMimics = []string{"signature-10-bytes", "all-but-entry-offset", "all-but-machine-version", "all-but-minor-version", "all-but-machine-kind"}

func genCode(r *vlib.PRNG, n int) []byte {
	code := make([]byte, n)
	r.Bytes(code)
	// end with s_endpgm as compilers do
	if n >= 4 {
		binary.LittleEndian.PutUint32(code[n-4:], 0xbf810000)
	}
	// instruction bytes that happen to start like a header are generated on
	// purpose (mimic); plain random bytes must not do so by accident
	if n >= 4 && binary.LittleEndian.Uint32(code) == 1 {
		code[0] = 0x7e
	}
	return code
}

func genKernel(r *vlib.PRNG, name string) kernelSpec {
	k := kernelSpec{Name: name, Global: r.Bool(), SymType: []byte{2, 10}[r.Intn(2)]}
	n := []int{4, 8, 64, 200, 252, 256, 260, 512, 4 * (1 + r.Intn(1024))}[r.Intn(9)]
	k.Code = genCode(r, n)
	switch r.Intn(8) {
	case 0, 1: // V2/V3 header
		k.Header = genHdr(r)
	case 2, 3, 4: // V5 descriptor
		k.KD = genKD(r)
	case 5: // both: descriptor takes precedence, the header bytes are then part of Data
		k.Header = genHdr(r)
		k.KD = genKD(r)
	default: // neither
	}
	// mimicry
	if r.Chance(2, 5) {
		if k.KD != nil && r.Bool() {
			k.Mimic = "complete-signature"
			if len(k.Code) < 256 {
				k.Code = genCode(r, 256+4*r.Intn(64))
			}
		} else if len(k.Code) < 256 && len(k.Code) >= 24 && r.Bool() {
			k.Mimic = "complete-signature-short" // shorter than a header: cannot be one
		} else {
			k.Mimic = partialMimics[r.Intn(len(partialMimics))]
		}
		mimic(r, k.Code, k.Mimic)
		if len(k.Code) < 24 {
			k.Mimic = ""
		}
	}
	if k.KD != nil && r.Chance(1, 2) {
		v := uint64(r.Intn(110))
		k.NumberedSgpr = &v
	}
	if k.KD != nil && r.Chance(1, 2) {
		v := uint64(r.Intn(300))
		k.NumVgpr = &v
	}
	if k.KD == nil && r.Chance(1, 6) { // metadata symbols next to a header-based kernel: must be ignored
		v := uint64(r.Intn(110))
		k.NumberedSgpr = &v
	}
	k.CodeLen = len(k.Code)
	k.CodeHead = fmt.Sprintf("%x", head(k.Code, 24))
	return k
}

var kernelNames = []string{"FIR", "kmeans_kernel_compute", "kmeans_kernel_swap", "_Z15vectoradd_floatPfPKfS1_ii", "StencilKernel", "CopyRect",
	"k", "kernel.kd_like", "a", "gemm", "gemm_old", "MatrixTranspose"}

func genFile(r *vlib.PRNG, idx int) *fileSpec {
	f := &fileSpec{Name: fmt.Sprintf("f%d", idx), Seed: r.Uint64(), SecOrder: r.Intn(6), Labels: r.Intn(8), OtherSyms: r.Intn(5), Shadow: r.Chance(1, 6)}
	nk := []int{1, 1, 2, 2, 3, 4, 5, 6}[r.Intn(8)]
	names := r.Perm(len(kernelNames))
	for i := 0; i < nk; i++ {
		f.Kernels = append(f.Kernels, genKernel(r, kernelNames[names[i]]))
	}
	// a kernel whose name is a prefix of another's (wrong symbol picked by a sloppy match)
	if nk >= 2 && r.Chance(1, 3) {
		f.Kernels[1].Name = f.Kernels[0].Name + "_2"
	}
	hasKD := false
	for _, k := range f.Kernels {
		if k.KD != nil {
			hasKD = true
		}
	}
	f.NoRodata = !hasKD && r.Chance(1, 3)
	f.Rel = r.Chance(1, 4)
	if !f.Rel {
		f.TextAddr = uint64(1+r.Intn(255)) * 0x1000
		if r.Chance(1, 6) {
			f.TextAddr = 0x7f0000000000 + uint64(r.Intn(1<<20))*0x100
		}
		f.RodataAddr = f.TextAddr + 0x200000 + uint64(r.Intn(64))*0x40
		if r.Chance(1, 3) && f.TextAddr >= 0x1000 {
			f.RodataAddr = uint64(0x200 + 64*r.Intn(8)) // descriptors below the code, as in linked code objects
		}
	}
	return f
}

// ---- canonical battery -----------------------------------------------------

func canonicalFiles() []*fileSpec {
	code := func(n int, b byte) []byte {
		c := make([]byte, n)
		for i := range c {
			c[i] = b + byte(i)
		}
		binary.LittleEndian.PutUint32(c[n-4:], 0xbf810000)
		return c
	}
	hdr := func() *hdrSpec {
		return &hdrSpec{VersionMajor: 1, VersionMinor: 0, MachineKind: 1, MachineMajor: 8, MachineMinor: 0, MachineStep: 3, EntryOffset: 256,
			Rsrc1: 0x00ac0081, Rsrc2: 0x0000008c, CodeProps: 0x000c0009, PrivateSize: 0, GroupSize: 64, KernargSize: 40, SgprCount: 16, VgprCount: 8, Tail: make([]byte, 168)}
	}
	u := func(v uint64) *uint64 { return &v }
	fin := func(f *fileSpec) *fileSpec {
		for i := range f.Kernels {
			k := &f.Kernels[i]
			k.CodeLen = len(k.Code)
			k.CodeHead = fmt.Sprintf("%x", head(k.Code, 24))
			if k.SymType == 0 {
				k.SymType = 2
			}
		}
		return f
	}
	sig := code(512, 0x40)
	binary.LittleEndian.PutUint32(sig[0:], 1)
	binary.LittleEndian.PutUint32(sig[4:], 2)
	binary.LittleEndian.PutUint16(sig[8:], 1)
	binary.LittleEndian.PutUint16(sig[10:], 9)
	binary.LittleEndian.PutUint64(sig[16:], 256)
	sig10 := code(512, 0x20)
	binary.LittleEndian.PutUint32(sig10[0:], 1)
	binary.LittleEndian.PutUint32(sig10[4:], 2)
	binary.LittleEndian.PutUint16(sig10[8:], 1)
	return []*fileSpec{
		fin(&fileSpec{Name: "canon-v3-single-text-0x1000", TextAddr: 0x1000, RodataAddr: 0x300000, Seed: 1, NoRodata: true,
			Kernels: []kernelSpec{{Name: "FIR", Header: hdr(), Code: code(228, 1), SymType: 10, Global: true}}}),
		fin(&fileSpec{Name: "canon-v3-two-kernels-text-0x2000", TextAddr: 0x2000, RodataAddr: 0x300000, Seed: 2, Labels: 6, NoRodata: true,
			Kernels: []kernelSpec{{Name: "kmeans_kernel_compute", Header: hdr(), Code: code(408, 2), SymType: 10}, {Name: "kmeans_kernel_swap", Header: hdr(), Code: code(192, 3), SymType: 10}}}),
		// reproducer of the descriptor offset finding: the values of a shipped gfx942 kernel (matrixmultiplication)
		fin(&fileSpec{Name: "canon-v5-descriptor-gfx942-values", Rel: true, Seed: 3,
			Kernels: []kernelSpec{{Name: "mmmKernel_local", Global: true, Code: code(1024, 4),
				KD: &kdSpec{GroupSize: 0, KernargSize: 296, Rsrc3: 0x13, Rsrc1: 0x00af00c9, Rsrc2: 0x984, Props: 8}}}}),
		// work-item id Z and work-group id Z requested by the descriptor, no kernel arguments
		fin(&fileSpec{Name: "canon-v5-ids-xyz-no-kernarg", Rel: true, Seed: 4,
			Kernels: []kernelSpec{{Name: "k3d", Global: true, Code: code(64, 5),
				KD: &kdSpec{GroupSize: 128, PrivateSize: 16, KernargSize: 0, EntryOffset: 0x1040, Rsrc3: 0x7, Rsrc1: 0x00af0042, Rsrc2: 0x1388 | 1, Props: 0}}}}),
		// the stencil2d regression: V5 instruction bytes that form a complete V2/V3 signature
		fin(&fileSpec{Name: "canon-v5-code-mimics-complete-header", Rel: true, Seed: 5,
			Kernels: []kernelSpec{{Name: "StencilKernel", Global: true, Code: sig, Mimic: "complete-signature",
				KD: &kdSpec{GroupSize: 4752, KernargSize: 288, Rsrc3: 0x1b, Rsrc1: 0x00af008d, Rsrc2: 0x984, Props: 8}, NumVgpr: u(109), NumberedSgpr: u(15)}}}),
		fin(&fileSpec{Name: "canon-raw-code-mimics-10-byte-signature", TextAddr: 0x4000, RodataAddr: 0x400, Seed: 6,
			Kernels: []kernelSpec{{Name: "k", Code: sig10, Mimic: "signature-10-bytes"}}}),
		fin(&fileSpec{Name: "canon-v5-and-v3-mixed-with-symbol-overrides", TextAddr: 0x10000, RodataAddr: 0x240, Seed: 7, Labels: 3, OtherSyms: 3,
			Kernels: []kernelSpec{
				{Name: "a", Header: hdr(), Code: code(260, 6), SymType: 10},
				{Name: "a_2", Global: true, Code: code(300, 7), KD: &kdSpec{KernargSize: 24, Rsrc1: 0x00af0040, Rsrc2: 0x84, Props: 8}, NumVgpr: u(37), NumberedSgpr: u(70)},
				{Name: "both", Global: true, Header: hdr(), Code: code(128, 8), KD: &kdSpec{KernargSize: 8, Rsrc1: 0x00af0001, Rsrc2: 0x1084, Props: 8}},
				{Name: "neither", Code: code(96, 9)}}}),
	}
}
