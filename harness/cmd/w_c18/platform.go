package main

import (
	"fmt"
	"sort"
	"sync"

	"github.com/sarchlab/akita/v4/mem/mem"
	"github.com/sarchlab/akita/v4/sim"
	"github.com/sarchlab/mgpusim/v4/amd/insts"
	"github.com/sarchlab/mgpusim/v4/amd/timing/rdma"

	"verifharness/vlib/kern"
	"verifharness/vlib/plat"
)

// Platform dimension shared by the end-to-end layers: emulation, r9nano
// timing, mi300a timing (CDNA3 decoding and ALUs, 120 CUs per GPU).

func modeOf(timing bool, gpuType string, magic bool) string {
	switch {
	case !timing:
		return "emu"
	case magic:
		return "timing-magic-copy"
	case gpuType == "mi300a":
		return "timing-mi300a"
	}
	return "timing"
}

// checkCDNA3Decoding: the hand-assembled kernels run unchanged on the mi300a
// platform, whose compute units decode in CDNA3 mode. The only fields of
// these kernels whose meaning depends on the mode are the FLAT address (SEG =
// flat, so a 64-bit VGPR pair in both modes), the SMEM offset and s_waitcnt;
// make sure the real decoder in CDNA3 mode prints the same instructions as in
// GCN3 mode.
func checkCDNA3Decoding() error {
	for _, co := range []*insts.KernelCodeObject{kern.ElemKernel(kern.OpAdd), kern.ElemKernel(kern.OpMul), kern.ElemKernel(kern.OpXor),
		gatherKernel(kern.OpAdd), gatherKernel(kern.OpMul), geomKernel(kern.OpXor), geomKernel(kern.OpMul)} {
		gcn, err := kern.Disassemble(co)
		if err != nil {
			return err
		}
		d := insts.NewDisassembler()
		d.IsCDNA3 = true
		buf := co.Data
		for i := 0; len(buf) > 0; i++ {
			inst, err := d.Decode(buf)
			if err != nil {
				return fmt.Errorf("CDNA3 decoding of instruction %d: %v", i, err)
			}
			txt := insts.NewInstPrinter(nil).Print(inst)
			if i >= len(gcn) || txt != gcn[i] {
				return fmt.Errorf("instruction %d decodes to %q in CDNA3 mode, %q in GCN3 mode", i, txt, gcn[i])
			}
			if inst.FormatType == insts.FLAT && (inst.Addr == nil || inst.Addr.RegCount != 2) {
				return fmt.Errorf("instruction %d (%s): FLAT address is not a 64-bit VGPR pair in CDNA3 mode", i, txt)
			}
			buf = buf[inst.ByteSize:]
		}
	}
	return nil
}

// rdmaCounter counts the memory requests every GPU's RDMA engine forwards to
// other GPUs (messages sent on RDMARequestOutside), per GPU.
type rdmaCounter struct {
	mu     sync.Mutex
	counts map[string]int64
}

type rdmaHook struct {
	c    *rdmaCounter
	name string
}

func (h *rdmaHook) Func(ctx sim.HookCtx) {
	if ctx.Pos != sim.HookPosPortMsgSend {
		return
	}
	switch ctx.Item.(type) {
	case *mem.ReadReq, *mem.WriteReq:
		h.c.mu.Lock()
		h.c.counts[h.name]++
		h.c.mu.Unlock()
	}
}

// watchRDMA attaches the counter to every rdma.Comp of the platform.
func watchRDMA(p *plat.Platform) *rdmaCounter {
	c := &rdmaCounter{counts: map[string]int64{}}
	for _, comp := range p.Sim.Components() {
		if r, ok := comp.(*rdma.Comp); ok {
			c.counts[r.Name()] = 0
			r.RDMARequestOutside.AcceptHook(&rdmaHook{c: c, name: r.Name()})
		}
	}
	return c
}

// snapshot returns forwarded requests per GPU number (1-based), parsed from
// the engine names "GPU[k].RDMA".
func (c *rdmaCounter) snapshot() map[string]int64 {
	c.mu.Lock()
	defer c.mu.Unlock()
	out := map[string]int64{}
	names := make([]string, 0, len(c.counts))
	for n := range c.counts {
		names = append(names, n)
	}
	sort.Strings(names)
	for _, n := range names {
		var k int
		if _, err := fmt.Sscanf(n, "GPU[%d].RDMA", &k); err == nil {
			out[fmt.Sprint(k)] = c.counts[n]
		}
	}
	return out
}

func rdmaFromNote(v any) map[int]int64 {
	out := map[int]int64{}
	m, _ := v.(map[string]any)
	for k, x := range m {
		var g int
		if _, err := fmt.Sscanf(k, "%d", &g); err == nil {
			f, _ := x.(float64)
			out[g] = int64(f)
		}
	}
	return out
}
