package main

import (
	"encoding/base64"
	"encoding/binary"
	"encoding/json"
	"fmt"
	"os"
	"sort"
	"strings"
	"time"

	"github.com/sarchlab/akita/v4/sim"
	"github.com/sarchlab/mgpusim/v4/amd/driver"
	"github.com/sarchlab/mgpusim/v4/amd/insts"

	"verifharness/vlib"
	"verifharness/vlib/kern"
	"verifharness/vlib/plat"
)

// Multi-phase part of the end-to-end layer of C18 ("e2e-history").
//
// A *history program* is a fixed sequence of host actions over 2-3 buffers:
// uploads (whole buffer / sub-range, page aligned or not), kernel launches at
// abstract launch sites (element-wise in place, y[i] = op(x[window(i)], c)
// between two buffers, the driver's own device-to-device copy kernel),
// read-backs of intermediate results and re-uploads of a buffer that kernels
// have already read. Every step is drained before the next one is issued, so
// program order is the only legal order and a flat host-side shadow that
// applies the steps in that order is the reference.
//
// The *placement* decides where the buffers live and which device an abstract
// launch site is: one GPU; a second GPU holding everything; buffers on another
// GPU than the launching one (allocated there / remapped there); buffers
// distributed page-wise over GPUs with kernels launched from several of them;
// single pages remapped to arbitrary GPUs; a unified device. The program is
// identical in all of them, so every read-back must equal the shadow (and
// hence the read-backs of all placements are equal to each other).
//
// What this adds over the single-phase programs of e2e.go: state that
// survives from one phase into the next (cache contents, TLB entries, dirty
// tracking in the driver, dispatcher position) differs between placements,
// and only a later phase that depends on an earlier one can see that.

type histStep struct {
	Kind   string    `json:"k"`                 // "h2d" | "d2h" | "gather" | "inplace" | "geom" | "d2d"
	Buf    int       `json:"buf"`               // buffer written (h2d, kernels) / read back (d2h)
	Off    int       `json:"off"`               // first element of the written / read-back range
	N      int       `json:"n"`                 // elements (kernels: grid size, any value, partial last work-group allowed)
	Src    int       `json:"src,omitempty"`     // gather, d2d: source buffer
	SrcOff int       `json:"src_off,omitempty"` // gather, d2d: first element of the source window
	Mask   uint32    `json:"mask,omitempty"`    // gather: dst[Off+g] = op(src[SrcOff+(g&Mask)], C)
	Op     kern.Op   `json:"op"`
	C      uint32    `json:"c,omitempty"`
	Site   int       `json:"site"`            // abstract launch site (kernels); queue of a copy issued through a queue
	ViaQ   bool      `json:"via_q,omitempty"` // copies: through the launch site's command queue instead of the blocking API call
	Data   uint64    `json:"data,omitempty"`  // h2d: PRNG seed of the uploaded data
	Cut    int       `json:"cut,omitempty"`   // d2d: byte count is 4*N-Cut (0..3), the kernel copies ceil(bytes/4) dwords
	Geo    *geometry `json:"geo,omitempty"`   // geom: in-place geomKernel over elements [Off, Off+N), N = product of the grid
}

func (s histStep) isKernel() bool {
	return s.Kind == "gather" || s.Kind == "inplace" || s.Kind == "d2d" || s.Kind == "geom"
}

type histProgram struct {
	ID     string     `json:"id"`
	Bufs   []int      `json:"bufs"` // elements (uint32) per buffer
	Steps  []histStep `json:"steps"`
	Timing bool       `json:"timing"`
	Magic  bool       `json:"magic,omitempty"` // timing platform built WithMagicMemoryCopy (copy-only programs)
	GPU    string     `json:"gpu,omitempty"`   // timing: "" = r9nano, "mi300a"
	Only   []string   `json:"-"`               // run on these placement classes only (big programs on slow platforms)
}

type histPlacement struct {
	Name      string `json:"name"`
	Class     string `json:"class"` // single-gpu | local-buffers | remote-buffers | distributed-buffers | remapped-pages | unified
	NumGPUs   int    `json:"num_gpus"`
	Unified   []int  `json:"unified,omitempty"`    // everything is allocated and launched on a unified device over these GPUs
	Sites     []int  `json:"sites,omitempty"`      // plain: GPU of launch site i is Sites[i % len]
	BufGPU    []int  `json:"buf_gpu,omitempty"`    // plain: buffer b is allocated under SelectGPU(BufGPU[b % len])
	RemapTo   int    `json:"remap_to,omitempty"`   // plain: whole buffers moved with Driver.Remap to this GPU after allocation
	Spread    []int  `json:"spread,omitempty"`     // plain: Driver.Distribute over these GPUs (list rotated by the buffer index)
	RemapSeed uint64 `json:"remap_seed,omitempty"` // plain: every page remapped to a PRNG-chosen GPU
	QueuesUp  bool   `json:"queues_up,omitempty"`  // create all queues first and never re-select a GPU (what the shipped multi-GPU benchmarks do: code / kernarg memory of every launch lives on the last selected GPU)
	ShareCO   bool   `json:"share_co,omitempty"`   // one code object per kernel kind for all queues (uploaded once, fetched remotely by the other GPUs)
	HostSplit bool   `json:"host_split,omitempty"` // plain: launches with a geometry are split by the host into slabs of work-groups, one per distinct GPU of Sites
}

// splitGPUs are the distinct GPUs of Sites, in order of first appearance.
func (pl histPlacement) splitGPUs() []int {
	var out []int
	seen := map[int]bool{}
	for _, g := range pl.Sites {
		if !seen[g] {
			seen[g] = true
			out = append(out, g)
		}
	}
	return out
}

func histPlacements(timing, thorough bool) []histPlacement {
	ps := []histPlacement{
		{Name: "1gpu", Class: "single-gpu", NumGPUs: 1, Sites: []int{1}, BufGPU: []int{1}},
		{Name: "all-on-gpu2-of-2", Class: "local-buffers", NumGPUs: 2, Sites: []int{2}, BufGPU: []int{2}},
		{Name: "buffers-on-gpu2-launch-on-gpu1", Class: "remote-buffers", NumGPUs: 2, Sites: []int{1}, BufGPU: []int{2}},
		{Name: "distributed-1-2-launch-on-1-2", Class: "distributed-buffers", NumGPUs: 2, Sites: []int{1, 2}, BufGPU: []int{1}, Spread: []int{1, 2}, QueuesUp: true, ShareCO: true, HostSplit: true},
		{Name: "unified-1-2", Class: "unified", NumGPUs: 2, Unified: []int{1, 2}},
		{Name: "unified-1-2-3", Class: "unified", NumGPUs: 3, Unified: []int{1, 2, 3}},
		{Name: "buffers-on-gpu2-launch-on-1-then-2", Class: "cross-gpu-chain", NumGPUs: 2, Sites: []int{1, 2}, BufGPU: []int{2}},
	}
	if !timing || thorough {
		ps = append(ps,
			histPlacement{Name: "buffers-remapped-to-gpu2-launch-on-gpu1", Class: "remote-buffers", NumGPUs: 2, Sites: []int{1}, BufGPU: []int{1}, RemapTo: 2},
			histPlacement{Name: "distributed-2-3-launch-on-1-4", Class: "remote-buffers", NumGPUs: 4, Sites: []int{1, 4}, BufGPU: []int{1}, Spread: []int{2, 3}},
			histPlacement{Name: "distributed-1-2-3-4-launch-on-4-1-3", Class: "distributed-buffers", NumGPUs: 4, Sites: []int{4, 1, 3}, BufGPU: []int{2}, Spread: []int{1, 2, 3, 4}, QueuesUp: true, ShareCO: true, HostSplit: true},
			histPlacement{Name: "pages-remapped-over-4-launch-on-1-2-3-4", Class: "remapped-pages", NumGPUs: 4, Sites: []int{1, 2, 3, 4}, BufGPU: []int{1, 3}, RemapSeed: 0x9e3779b97f4a7c15},
			histPlacement{Name: "unified-1-2-3-4", Class: "unified", NumGPUs: 4, Unified: []int{1, 2, 3, 4}},
			histPlacement{Name: "unified-2-3-of-4", Class: "unified", NumGPUs: 4, Unified: []int{2, 3}},
		)
	}
	return ps
}

// histPlacementsMI300A: the mi300a timing platform is slower to build and
// run, so it gets two GPUs and the placements that make kernels of one GPU
// touch memory of the other in both directions.
func histPlacementsMI300A(thorough bool) []histPlacement {
	ps := []histPlacement{
		{Name: "1gpu", Class: "single-gpu", NumGPUs: 1, Sites: []int{1}, BufGPU: []int{1}},
		{Name: "buffers-on-gpu2-launch-on-gpu1", Class: "remote-buffers", NumGPUs: 2, Sites: []int{1}, BufGPU: []int{2}},
		{Name: "buffers-on-gpu1-launch-on-gpu2", Class: "remote-buffers", NumGPUs: 2, Sites: []int{2}, BufGPU: []int{1}},
		{Name: "buffers-on-gpu2-launch-on-1-then-2", Class: "cross-gpu-chain", NumGPUs: 2, Sites: []int{1, 2}, BufGPU: []int{2}},
		{Name: "buffers-on-gpu1-launch-on-2-then-1", Class: "cross-gpu-chain", NumGPUs: 2, Sites: []int{2, 1}, BufGPU: []int{1}},
		{Name: "distributed-1-2-launch-on-1-2", Class: "distributed-buffers", NumGPUs: 2, Sites: []int{1, 2}, BufGPU: []int{1}, Spread: []int{1, 2}, QueuesUp: true, ShareCO: true, HostSplit: true},
		{Name: "unified-1-2", Class: "unified", NumGPUs: 2, Unified: []int{1, 2}},
	}
	if thorough {
		ps = append(ps,
			histPlacement{Name: "distributed-1-2-3-4-launch-on-4-1-3", Class: "distributed-buffers", NumGPUs: 4, Sites: []int{4, 1, 3}, BufGPU: []int{2}, Spread: []int{1, 2, 3, 4}, QueuesUp: true, ShareCO: true, HostSplit: true},
			histPlacement{Name: "unified-1-2-3-4", Class: "unified", NumGPUs: 4, Unified: []int{1, 2, 3, 4}},
		)
	}
	return ps
}

const histPage = 1024 // elements per 4 KiB page

// ---------------------------------------------------------------------------
// kernels

// GatherArgs is the argument block of gatherKernel.
type GatherArgs struct {
	Src  driver.Ptr
	Dst  driver.Ptr
	C    uint32
	Mask uint32
}

// gatherKernel computes dst[g] = op(src[g & mask], c) for one uint32 per
// work-item (work-group 64x1x1, any grid size). Same register conventions and
// the same op encodings as kern.ElemKernel; the disassembly is checked once
// per run against the real decoder (checkGatherKernel).
func gatherKernel(op kern.Op) *insts.KernelCodeObject {
	var opWords []uint32
	switch op {
	case kern.OpAdd:
		opWords = []uint32{0x32040406} // v_add_u32 v2, vcc, s6, v2
	case kern.OpMul:
		opWords = []uint32{0xD2850002, 0x00020406} // v_mul_lo_u32 v2, s6, v2
	default:
		opWords = []uint32{0x2A040406} // v_xor_b32 v2, s6, v2
	}
	ws := []uint32{
		0xC0060100, 0x00000000, // s_load_dwordx2 s[4:5], s[0:1], 0x0   src
		0xC0060200, 0x00000008, // s_load_dwordx2 s[8:9], s[0:1], 0x8   dst
		0xC0060180, 0x00000010, // s_load_dwordx2 s[6:7], s[0:1], 0x10  c, mask
		0xBF8C007F,             // s_waitcnt lgkmcnt(0)
		0x8E028602,             // s_lshl_b32 s2, s2, 6
		0x32000002,             // v_add_u32 v0, vcc, s2, v0          g
		0x26060007,             // v_and_b32 v3, s7, v0               g & mask
		0x24060682,             // v_lshlrev_b32 v3, 2, v3
		0x24000082,             // v_lshlrev_b32 v0, 2, v0
		0x7E080205,             // v_mov_b32 v4, s5
		0x32060604,             // v_add_u32 v3, vcc, s4, v3
		0x38080880,             // v_addc_u32 v4, vcc, 0, v4, vcc
		0xDC500000, 0x02000003, // flat_load_dword v2, v[3:4]
		0x7E020209, // v_mov_b32 v1, s9
		0x32000008, // v_add_u32 v0, vcc, s8, v0
		0x38020280, // v_addc_u32 v1, vcc, 0, v1, vcc
		0xBF8C0070, // s_waitcnt vmcnt(0) lgkmcnt(0)
	}
	ws = append(ws, opWords...)
	ws = append(ws,
		0xDC700000, 0x00000200, // flat_store_dword v[0:1], v2
		0xBF810000, // s_endpgm
	)
	var data []byte
	for _, w := range ws {
		data = binary.LittleEndian.AppendUint32(data, w)
	}
	meta := &insts.KernelCodeObjectMeta{
		ComputePgmRsrc1:             1 | (1 << 6), // 8 VGPRs, 16 SGPRs (granulated)
		ComputePgmRsrc2:             1 << 7,       // work-group id x
		KernargSegmentByteSize:      24,
		EnableSgprKernargSegmentPtr: true,
		WFSgprCount:                 16,
		WIVgprCount:                 8,
	}
	return &insts.KernelCodeObject{KernelCodeObjectMeta: meta, Data: data, Version: insts.CodeObjectV3}
}

// checkGatherKernel makes sure the hand assembly decodes to what the comments
// say (the real decoder is the judge).
func checkGatherKernel() error {
	want := []string{
		"s_load_dwordx2 s[4:5], s[0:1], 0x0", "s_load_dwordx2 s[8:9], s[0:1], 0x8", "s_load_dwordx2 s[6:7], s[0:1], 0x10",
		"s_waitcnt lgkmcnt(0)", "s_lshl_b32 s2, s2, 6", "v_add_u32_e32 v0, vcc, s2, v0", "v_and_b32_e32 v3, s7, v0",
		"v_lshlrev_b32_e32 v3, 2, v3", "v_lshlrev_b32_e32 v0, 2, v0", "v_mov_b32_e32 v4, s5", "v_add_u32_e32 v3, vcc, s4, v3",
		"v_addc_u32_e32 v4, vcc, 0, v4, vcc", "flat_load_dword v2, v[3:4]", "v_mov_b32_e32 v1, s9", "v_add_u32_e32 v0, vcc, s8, v0",
		"v_addc_u32_e32 v1, vcc, 0, v1, vcc", "s_waitcnt vmcnt(0) lgkmcnt(0)", "v_add_u32_e32 v2, vcc, s6, v2",
		"flat_store_dword v[0:1], v2", "s_endpgm",
	}
	got, err := kern.Disassemble(gatherKernel(kern.OpAdd))
	if err != nil {
		return err
	}
	if len(got) != len(want) {
		return fmt.Errorf("gather kernel decodes to %d instructions, expected %d", len(got), len(want))
	}
	for i := range want {
		if got[i] != want[i] {
			return fmt.Errorf("gather kernel instruction %d decodes to %q, expected %q", i, got[i], want[i])
		}
	}
	return nil
}

// ---------------------------------------------------------------------------
// shadow

type histVersion struct {
	step int    // index of the step that produced this version (-1: initial zeros)
	kind string // kind of that step
	data []uint32
}

type histShadow struct {
	prog     histProgram
	versions [][]histVersion  // per buffer, oldest first; the last one is current
	expect   map[int][]uint32 // d2h step index -> expected data
	lastW    [][]int          // per buffer, per element: index of the step that last wrote it (-1 none)
	lastWAt  map[int][]int32  // d2h step index -> writer step of every element of the read range
}

func h2dData(seed uint64, n int) []uint32 {
	r := vlib.NewPRNG(seed)
	out := make([]uint32, n)
	for i := range out {
		out[i] = r.Uint32()
	}
	return out
}

func (s histStep) apply(x uint32) uint32 {
	if s.Kind == "d2d" {
		return x
	}
	return s.Op.Apply(x, s.C)
}

// srcIndex is the element of the source buffer work-item g of a kernel reads.
func (s histStep) srcIndex(g int) int {
	switch s.Kind {
	case "inplace", "geom":
		return s.Off + g
	case "gather":
		return s.SrcOff + int(uint32(g)&s.Mask)
	default: // d2d
		return s.SrcOff + g
	}
}

func (s histStep) srcBuf() int {
	if s.Kind == "inplace" || s.Kind == "geom" {
		return s.Buf
	}
	return s.Src
}

// runShadow applies the program in order.
func runShadow(p histProgram) *histShadow {
	sh := &histShadow{prog: p, expect: map[int][]uint32{}, lastWAt: map[int][]int32{}}
	cur := make([][]uint32, len(p.Bufs))
	for b, n := range p.Bufs {
		cur[b] = make([]uint32, n)
		sh.versions = append(sh.versions, []histVersion{{step: -1, kind: "initial", data: append([]uint32(nil), cur[b]...)}})
		lw := make([]int, n)
		for i := range lw {
			lw[i] = -1
		}
		sh.lastW = append(sh.lastW, lw)
	}
	for i, st := range p.Steps {
		switch st.Kind {
		case "h2d":
			copy(cur[st.Buf][st.Off:st.Off+st.N], h2dData(st.Data, st.N))
		case "d2h":
			sh.expect[i] = append([]uint32(nil), cur[st.Buf][st.Off:st.Off+st.N]...)
			w := make([]int32, st.N)
			for k := range w {
				w[k] = int32(sh.lastW[st.Buf][st.Off+k])
			}
			sh.lastWAt[i] = w
			continue
		default:
			src := cur[st.srcBuf()]
			out := make([]uint32, st.N)
			for g := 0; g < st.N; g++ {
				out[g] = st.apply(src[st.srcIndex(g)])
			}
			copy(cur[st.Buf][st.Off:], out)
		}
		for k := st.Off; k < st.Off+st.N; k++ {
			sh.lastW[st.Buf][k] = i
		}
		sh.versions[st.Buf] = append(sh.versions[st.Buf], histVersion{step: i, kind: st.Kind, data: append([]uint32(nil), cur[st.Buf]...)})
	}
	return sh
}

// valueBefore returns the contents of element e of buffer b as they were just
// before step `step` ran, walking back through older versions: vals[0] is the
// value the step should have seen, vals[k] older values; writers[k] is the
// step whose effect is missing if vals[k+1] is seen instead of vals[k].
func (sh *histShadow) olderValues(b, e, step int) (vals []uint32, writers []int) {
	vs := sh.versions[b]
	i := len(vs) - 1
	for i > 0 && vs[i].step >= step {
		i--
	}
	vals = append(vals, vs[i].data[e])
	for ; i > 0; i-- {
		if vs[i-1].data[e] != vals[len(vals)-1] {
			writers = append(writers, vs[i].step)
			vals = append(vals, vs[i-1].data[e])
		}
	}
	return vals, writers
}

// classify explains a read-back element that differs from the shadow. The
// class names the step kind whose effect is missing: that is what tells a
// stale-cache defect (an upload or a kernel write not seen by a later reader)
// from a routing defect (bytes of the wrong place / of nobody).
func (sh *histShadow) classify(d2hStep, elem int, got uint32) (class, detail string) {
	st := sh.prog.Steps[d2hStep]
	e := st.Off + elem
	w := int(sh.lastWAt[d2hStep][elem])
	if w < 0 {
		return "wrong-value|never-written-element", "no step of the program wrote this element (expected the zero of a fresh allocation)"
	}
	ws := sh.prog.Steps[w]
	if ws.isKernel() {
		// the kernel's own write missing?
		own, ownW := sh.olderValues(st.Buf, e, d2hStep)
		// did the kernel read an older version of its source?
		g := e - ws.Off
		se := ws.srcIndex(g)
		vals, writers := sh.olderValues(ws.srcBuf(), se, w)
		for k := 1; k < len(vals); k++ {
			if ws.apply(vals[k]) == got {
				missed := sh.prog.Steps[writers[k-1]]
				kind := "kernel-write"
				cls := "stale-after-kernel-write"
				if missed.Kind == "h2d" {
					kind, cls = "host re-upload", "stale-after-reupload"
				}
				return cls, fmt.Sprintf("the value is what kernel step %d (%s at site %d) produces from element %d of buffer %d as it was before step %d (%s %s): the kernel read data that is %d write(s) old",
					w, ws.Kind, ws.Site, se, ws.srcBuf(), writers[k-1], kind, missed.Kind, k)
			}
		}
		if (ws.Kind == "inplace" || ws.Kind == "geom") && len(vals) > 0 && ws.apply(ws.apply(vals[0])) == got && ws.apply(vals[0]) != got {
			return "element-processed-twice", fmt.Sprintf("the value is what results when the work-item of kernel step %d (%s) that owns the element runs twice", w, ws.Kind)
		}
		for k := 1; k < len(own); k++ {
			if own[k] == got {
				return "kernel-write-not-visible", fmt.Sprintf("the value is the element's content before step %d (%s): the write of kernel step %d is missing in the read-back", ownW[k-1], sh.prog.Steps[ownW[k-1]].Kind, w)
			}
		}
		return "wrong-value|last-writer-kernel", fmt.Sprintf("last written by kernel step %d (%s); the value is neither an older content of the element nor the kernel's result on an older source", w, ws.Kind)
	}
	own, ownW := sh.olderValues(st.Buf, e, d2hStep)
	for k := 1; k < len(own); k++ {
		if own[k] == got {
			return "upload-not-visible", fmt.Sprintf("the value is the element's content before step %d (%s): the upload of step %d is missing in the read-back", ownW[k-1], sh.prog.Steps[ownW[k-1]].Kind, w)
		}
	}
	return "wrong-value|last-writer-upload", fmt.Sprintf("last written by upload step %d; the value is not an older content of the element", w)
}

// ---------------------------------------------------------------------------
// generator

type histGen struct {
	r      *vlib.PRNG
	p      *histProgram
	kdirty []bool // buffer written by a kernel since the last host copy
	sites  int
	maxN   int
	maxWGs int
	chains bool // kernels may read what a kernel has written with no host copy in between
}

func (g *histGen) add(s histStep) { g.p.Steps = append(g.p.Steps, s) }

// hostCopyDone: a host copy touching a buffer that existed at a kernel launch
// makes the driver flush every GPU (all program buffers are allocated before
// the first launch), so kernels may read kernel-written data again.
func (g *histGen) hostCopyDone() {
	for i := range g.kdirty {
		g.kdirty[i] = false
	}
}

func (g *histGen) rangeIn(b int) (off, n int) {
	size := g.p.Bufs[b]
	switch g.r.Intn(4) {
	case 0: // whole
		return 0, size
	case 1: // page aligned sub-range
		pages := (size + histPage - 1) / histPage
		p0 := g.r.Intn(pages)
		p1 := p0 + 1 + g.r.Intn(pages-p0)
		off, n = p0*histPage, p1*histPage-p0*histPage
		if off+n > size {
			n = size - off
		}
		return off, n
	default: // arbitrary
		off = g.r.Intn(size)
		n = 1 + g.r.Intn(size-off)
		return off, n
	}
}

func (g *histGen) h2d(b, off, n int) {
	g.add(histStep{Kind: "h2d", Buf: b, Off: off, N: n, Data: g.r.Uint64() | 1, Site: g.r.Intn(g.sites), ViaQ: g.r.Chance(1, 3)})
	g.hostCopyDone()
}

func (g *histGen) d2h(b, off, n int) {
	g.add(histStep{Kind: "d2h", Buf: b, Off: off, N: n, Site: g.r.Intn(g.sites), ViaQ: g.r.Chance(1, 3)})
	g.hostCopyDone()
}

// beforeKernelRead keeps the programs clear of the open finding "L1 vector
// caches are not invalidated between kernels" (C01/C02/C12 keys containing
// stale-l1-across-kernels): a kernel only reads a buffer that no kernel has
// written since the last host copy; otherwise a read-back of that buffer (an
// observation, and on the DMA path a flush of every GPU) is issued first.
func (g *histGen) beforeKernelRead(b int) {
	if g.kdirty[b] && !g.chains {
		off, n := 0, g.p.Bufs[b]
		if g.r.Chance(1, 3) {
			off, n = g.rangeIn(b)
		}
		g.d2h(b, off, n)
	}
}

func (g *histGen) kernelN(limit int, big bool) int {
	if limit > g.maxN {
		limit = g.maxN
	}
	if big && limit >= 4096 {
		// a multiple of 64 work-groups keeps the dispatcher's round-robin
		// position, so a repeated launch maps work-groups to the same CUs
		k := limit / 4096
		n := 4096 * (1 + g.r.Intn(k))
		if n+64 <= limit && g.r.Chance(1, 3) {
			n += 1 + g.r.Intn(64) // one partial / extra group: unified devices give it to the next GPU
		}
		return n
	}
	switch g.r.Intn(3) {
	case 0:
		return 1 + g.r.Intn(limit)
	case 1:
		n := 64 * (1 + g.r.Intn((limit+63)/64))
		if n > limit {
			n = limit
		}
		return n
	default:
		return limit
	}
}

func (g *histGen) pickMask(srcSize int) uint32 {
	ms := []uint32{0, 15, 63, 255, 1023, 2047, 0xFFFFFFFF, 0xFFFFFFFF, 0xFFFFFFFF}
	for {
		m := ms[g.r.Intn(len(ms))]
		if m == 0xFFFFFFFF || int(m) < srcSize {
			return m
		}
	}
}

// kernel emits one kernel step (and the read-back it may need first). It
// returns the step for motifs to repeat.
func (g *histGen) kernel(site int, big bool) histStep {
	nb := len(g.p.Bufs)
	st := histStep{Site: site, Op: kern.Op(g.r.Intn(3)), C: 1 + 2*uint32(g.r.Intn(5000))}
	switch k := g.r.Intn(12); {
	case k < 2:
		st.Kind = "inplace"
		st.Buf = g.r.Intn(nb)
		size := g.p.Bufs[st.Buf]
		st.N = g.kernelN(size, big)
		st.Off = g.r.Intn(size - st.N + 1)
	case k >= 10:
		// in-place kernel launched with a 1/2/3-D grid
		st.Kind = "geom"
		st.Buf = g.r.Intn(nb)
		size := g.p.Bufs[st.Buf]
		if size > g.maxN {
			size = g.maxN
		}
		geo := genGeometry(g.r, size, g.maxWGs)
		st.Geo = &geo
		st.N = geo.n()
		st.Off = g.r.Intn(g.p.Bufs[st.Buf] - st.N + 1)
	default:
		st.Kind = "gather"
		if k < 4 {
			st.Kind = "d2d"
		}
		st.Src = g.r.Intn(nb)
		st.Buf = (st.Src + 1 + g.r.Intn(nb-1)) % nb
		ssize, dsize := g.p.Bufs[st.Src], g.p.Bufs[st.Buf]
		if st.Kind == "d2d" {
			lim := dsize
			if ssize < lim {
				lim = ssize
			}
			st.N = g.kernelN(lim, big)
			st.Off = g.r.Intn(dsize - st.N + 1)
			st.SrcOff = g.r.Intn(ssize - st.N + 1)
			st.Cut = g.r.Intn(4)
			st.Mask = 0
		} else {
			st.N = g.kernelN(dsize, big)
			st.Off = g.r.Intn(dsize - st.N + 1)
			st.Mask = g.pickMask(ssize)
			span := st.N
			if st.Mask != 0xFFFFFFFF && int(st.Mask)+1 < span {
				span = int(st.Mask) + 1
			}
			if st.Mask == 0xFFFFFFFF && span > ssize {
				st.Mask = g.pickMask(ssize)
				for st.Mask == 0xFFFFFFFF {
					st.Mask = g.pickMask(ssize)
				}
				span = int(st.Mask) + 1
				if st.N < span {
					span = st.N
				}
			}
			st.SrcOff = g.r.Intn(ssize - span + 1)
		}
	}
	g.beforeKernelRead(st.srcBuf())
	g.add(st)
	g.kdirty[st.Buf] = true
	return st
}

// srcSpan is the element range of the source buffer a kernel step reads.
func (s histStep) srcSpan() (lo, hi int) {
	switch s.Kind {
	case "inplace", "geom":
		return s.Off, s.Off + s.N
	case "gather":
		span := s.N
		if s.Mask != 0xFFFFFFFF && int(s.Mask)+1 < span {
			span = int(s.Mask) + 1
		}
		return s.SrcOff, s.SrcOff + span
	default:
		return s.SrcOff, s.SrcOff + s.N
	}
}

// motif: a kernel reads X at a site, the host re-uploads (part of) what it
// read, a kernel at the same site reads it again, the result is read back.
func (g *histGen) motif() {
	site := g.r.Intn(g.sites)
	k1 := g.kernel(site, true)
	// observe the first kernel's result -- or not: a read-back is a host copy
	// too, and the state it leaves behind (which caches were emptied) is part
	// of what differs between placements
	if g.r.Bool() {
		off, n := k1.Off, k1.N
		if g.r.Chance(1, 3) {
			off, n = 0, g.p.Bufs[k1.Buf]
		}
		g.d2h(k1.Buf, off, n)
	}
	x := k1.srcBuf()
	lo, hi := k1.srcSpan()
	switch g.r.Intn(4) {
	case 0: // whole buffer
		lo, hi = 0, g.p.Bufs[x]
	case 1: // the pages holding what was read
		lo = lo / histPage * histPage
		hi = (hi + histPage - 1) / histPage * histPage
		if hi > g.p.Bufs[x] {
			hi = g.p.Bufs[x]
		}
	case 2: // one page of what was read
		pg := lo/histPage + g.r.Intn((hi-1)/histPage-lo/histPage+1)
		l2, h2 := pg*histPage, (pg+1)*histPage
		if l2 > lo {
			lo = l2
		}
		if h2 < hi {
			hi = h2
		}
	default: // exactly what was read
	}
	g.h2d(x, lo, hi-lo)
	k2 := k1
	k2.Op, k2.C = kern.Op(g.r.Intn(3)), 1+2*uint32(g.r.Intn(5000))
	if k1.Kind != "inplace" && k1.Kind != "geom" && len(g.p.Bufs) > 2 && g.r.Bool() {
		// write the second result elsewhere if it fits
		for _, b := range g.r.Perm(len(g.p.Bufs)) {
			if b != x && b != k1.Buf && g.p.Bufs[b] >= k1.N {
				k2.Buf, k2.Off = b, g.r.Intn(g.p.Bufs[b]-k1.N+1)
				break
			}
		}
	}
	g.beforeKernelRead(k2.srcBuf())
	g.add(k2)
	g.kdirty[k2.Buf] = true
	g.d2h(k2.Buf, k2.Off, k2.N)
}

func genHistProgram(r *vlib.PRNG, id string, timing bool) histProgram {
	return genHistProgramSized(r, id, timing, 0, 0, nil)
}

// genHistProgramSized: maxN / maxWGs / pool override the size classes (small
// programs for the slow mi300a platform).
func genHistProgramSized(r *vlib.PRNG, id string, timing bool, maxN, maxWGs int, sizes []int) histProgram {
	p := histProgram{ID: id, Timing: timing}
	g := &histGen{r: r, p: &p, sites: 1 + r.Intn(3)}
	nb := 2 + r.Intn(2)
	var pool []int
	if timing {
		g.maxN, g.maxWGs = 8320, 450
		pool = []int{1024, 2048, 3000, 4096, 4096, 4160, 5000, 8256}
	} else {
		g.maxN, g.maxWGs = 20000, 1500
		pool = []int{1, 63, 700, 1024, 1025, 2048, 3000, 4096, 4160, 5000, 8256, 12000, 16385}
	}
	if sizes != nil {
		g.maxN, g.maxWGs, pool = maxN, maxWGs, sizes
	}
	for b := 0; b < nb; b++ {
		n := pool[r.Intn(len(pool))]
		if b < 2 && timing && n < 4096 && sizes == nil {
			n = []int{4096, 4160, 8256}[r.Intn(3)] // two buffers big enough for 64 work-groups
		}
		p.Bufs = append(p.Bufs, n)
	}
	g.kdirty = make([]bool, nb)
	for _, b := range r.Perm(nb) {
		g.h2d(b, 0, p.Bufs[b])
	}
	steps := 8 + r.Intn(8)
	if !timing {
		steps = 10 + r.Intn(16)
	}
	motifs := 0
	for len(p.Steps) < nb+steps || motifs == 0 {
		switch k := r.Intn(10); {
		case k < 3 || (motifs == 0 && len(p.Steps) >= nb+steps):
			g.motif()
			motifs++
		case k < 6:
			g.kernel(r.Intn(g.sites), r.Chance(1, 3))
		case k < 8:
			b := r.Intn(nb)
			off, n := g.rangeIn(b)
			g.h2d(b, off, n)
		default:
			b := r.Intn(nb)
			off, n := g.rangeIn(b)
			g.d2h(b, off, n)
		}
	}
	for _, b := range r.Perm(nb) {
		g.d2h(b, 0, p.Bufs[b])
	}
	return p
}

// genChainProgram: kernels form producer -> consumer chains across launch
// sites with every launch drained and NO host copy between them (legal since
// the command processor invalidates the L1 caches at every launch: a remote
// access is served by the owner's L2, the single home of a line, so a kernel
// must see what an earlier kernel on another GPU wrote).
func genChainProgram(r *vlib.PRNG, id string, timing bool, gpuType string) histProgram {
	p := histProgram{ID: id, Timing: timing, GPU: gpuType}
	g := &histGen{r: r, p: &p, sites: 2, chains: true}
	g.maxN, g.maxWGs = 20000, 1500
	pool := []int{700, 1024, 2048, 3000, 4096, 4160, 8256}
	if timing {
		g.maxN, g.maxWGs = 8320, 300
		if gpuType == "mi300a" {
			pool = []int{700, 1024, 2048, 3000}
			g.maxN, g.maxWGs = 3000, 60
		}
	}
	nb := 3
	for b := 0; b < nb; b++ {
		p.Bufs = append(p.Bufs, pool[r.Intn(len(pool))])
	}
	g.kdirty = make([]bool, nb)
	for _, b := range r.Perm(nb) {
		g.h2d(b, 0, p.Bufs[b])
	}
	rounds := 2 + r.Intn(2)
	for i := 0; i < rounds; i++ {
		// a chain of 2-4 kernels at alternating sites, each reading what the previous wrote
		first := r.Intn(2)
		length := 2 + r.Intn(3)
		prev := -1
		for k := 0; k < length; k++ {
			site := (first + k) % 2
			st := histStep{Site: site, Op: kern.Op(r.Intn(3)), C: 1 + 2*uint32(r.Intn(5000))}
			if prev < 0 || r.Chance(1, 3) {
				// in place on a buffer (the first link reads uploaded data)
				st.Kind = "inplace"
				st.Buf = prev
				if prev < 0 {
					st.Buf = r.Intn(nb)
				}
				st.N = g.kernelN(p.Bufs[st.Buf], false)
				if k > 0 {
					st.N = p.Bufs[st.Buf]
					if st.N > g.maxN {
						st.N = g.maxN
					}
				}
				st.Off = r.Intn(p.Bufs[st.Buf] - st.N + 1)
			} else {
				st.Kind = "gather"
				st.Src = prev
				st.Buf = (prev + 1 + r.Intn(nb-1)) % nb
				ssize, dsize := p.Bufs[st.Src], p.Bufs[st.Buf]
				st.N = g.kernelN(dsize, false)
				st.Off = r.Intn(dsize - st.N + 1)
				st.Mask = g.pickMask(ssize)
				span := st.N
				if st.Mask != 0xFFFFFFFF && int(st.Mask)+1 < span {
					span = int(st.Mask) + 1
				}
				for span > ssize {
					st.Mask = g.pickMask(ssize)
					span = st.N
					if st.Mask != 0xFFFFFFFF && int(st.Mask)+1 < span {
						span = int(st.Mask) + 1
					}
				}
				st.SrcOff = r.Intn(ssize - span + 1)
			}
			g.add(st)
			g.kdirty[st.Buf] = true
			prev = st.Buf
		}
		g.d2h(prev, 0, p.Bufs[prev])
		if r.Bool() {
			b := r.Intn(nb)
			off, n := g.rangeIn(b)
			g.h2d(b, off, n)
		}
	}
	for _, b := range r.Perm(nb) {
		g.d2h(b, 0, p.Bufs[b])
	}
	return p
}

// canonicalChainPrograms: seed-independent producer -> consumer chains.
func canonicalChainPrograms() []histProgram {
	all := uint32(0xFFFFFFFF)
	mk := func(id string, timing bool, gpu string) histProgram {
		return histProgram{ID: id, Timing: timing, GPU: gpu, Bufs: []int{2048, 2048, 2048}, Steps: []histStep{
			{Kind: "h2d", Buf: 0, Off: 0, N: 2048, Data: 51},
			{Kind: "h2d", Buf: 1, Off: 0, N: 2048, Data: 52},
			{Kind: "h2d", Buf: 2, Off: 0, N: 2048, Data: 53},
			// A = B + c at site 0, D = A * c at site 1 (the shape of "A = B + C on one GPU, D = A + B on the other")
			{Kind: "gather", Src: 1, Buf: 0, Off: 0, N: 2048, Mask: all, Op: kern.OpAdd, C: 3, Site: 0},
			{Kind: "gather", Src: 0, Buf: 2, Off: 0, N: 2048, Mask: all, Op: kern.OpMul, C: 5, Site: 1},
			{Kind: "d2h", Buf: 2, Off: 0, N: 2048},
			// the other way round, in place then windowed
			{Kind: "inplace", Buf: 1, Off: 0, N: 2048, Op: kern.OpXor, C: 0x55aa, Site: 1},
			{Kind: "gather", Src: 1, Buf: 0, Off: 64, N: 1920, Mask: 255, SrcOff: 300, Op: kern.OpAdd, C: 9, Site: 0},
			{Kind: "inplace", Buf: 0, Off: 0, N: 2048, Op: kern.OpAdd, C: 1, Site: 1},
			{Kind: "d2h", Buf: 0, Off: 0, N: 2048},
			{Kind: "d2h", Buf: 1, Off: 0, N: 2048},
		}}
	}
	// on a unified device: 129 work-groups of the r9nano (2 x 64 CUs) resp. 241 of the mi300a (2 x 120 CUs) put the tail on the second GPU;
	// the consumer reads the producer's output through a 2048-element window, so the second GPU reads what the first wrote
	uni := func(id string, timing bool, gpu string, n int) histProgram {
		return histProgram{ID: id, Timing: timing, GPU: gpu, Bufs: []int{n, n}, Steps: []histStep{
			{Kind: "h2d", Buf: 0, Off: 0, N: n, Data: 61},
			{Kind: "h2d", Buf: 1, Off: 0, N: n, Data: 62},
			{Kind: "inplace", Buf: 0, Off: 0, N: n, Op: kern.OpAdd, C: 7, Site: 0},
			{Kind: "gather", Src: 0, Buf: 1, Off: 0, N: n, Mask: 2047, Op: kern.OpMul, C: 3, Site: 0},
			{Kind: "gather", Src: 1, Buf: 0, Off: 0, N: n, Mask: 2047, SrcOff: n - 2048, Op: kern.OpAdd, C: 11, Site: 0},
			{Kind: "d2h", Buf: 0, Off: 0, N: n},
			{Kind: "d2h", Buf: 1, Off: 0, N: n},
		}}
	}
	return []histProgram{
		mk("canon-chain-emu", false, ""), mk("canon-chain-timing", true, ""), mk("canon-chain-mi300a", true, "mi300a"),
		uni("canon-chain-unified-tail-emu", false, "", 64*128+8), uni("canon-chain-unified-tail-timing", true, "", 64*128+8),
		func() histProgram {
			p := uni("canon-chain-unified-tail-mi300a", true, "mi300a", 64*240+8)
			p.Only = []string{"single-gpu", "unified"}
			return p
		}(),
	}
}

func containsStr(l []string, x string) bool {
	for _, y := range l {
		if y == x {
			return true
		}
	}
	return false
}

// genCopyOnlyProgram: uploads and read-backs only (no kernels); used on the
// timing platform built WithMagicMemoryCopy, where kernel results are not
// visible to copies by design (open C02 finding "variant:magic-copy").
func genCopyOnlyProgram(r *vlib.PRNG, id string) histProgram {
	p := histProgram{ID: id, Timing: true, Magic: true}
	g := &histGen{r: r, p: &p, sites: 1 + r.Intn(3)}
	nb := 2 + r.Intn(2)
	for b := 0; b < nb; b++ {
		p.Bufs = append(p.Bufs, []int{1, 700, 1024, 1025, 3000, 4096, 4160, 8256, 12000}[r.Intn(9)])
	}
	g.kdirty = make([]bool, nb)
	for i := 0; i < 12+r.Intn(12); i++ {
		b := r.Intn(nb)
		off, n := g.rangeIn(b)
		if r.Chance(3, 5) {
			g.h2d(b, off, n)
		} else {
			g.d2h(b, off, n)
		}
	}
	for b := 0; b < nb; b++ {
		g.d2h(b, 0, p.Bufs[b])
	}
	return p
}

// canonicalHistPrograms: seed-independent multi-phase programs.
func canonicalHistPrograms() []histProgram {
	all := uint32(0xFFFFFFFF)
	var ps []histProgram
	// (1) upload, copy-with-op, read back, re-upload, same kernel again, read back: 64 work-groups both times
	reup := func(id string, timing bool) histProgram {
		return histProgram{ID: id, Timing: timing, Bufs: []int{4096, 4096}, Steps: []histStep{
			{Kind: "h2d", Buf: 0, Off: 0, N: 4096, Data: 11},
			{Kind: "h2d", Buf: 1, Off: 0, N: 4096, Data: 12},
			{Kind: "gather", Src: 0, Buf: 1, Off: 0, N: 4096, Mask: all, Op: kern.OpAdd, C: 3},
			{Kind: "d2h", Buf: 1, Off: 0, N: 4096},
			{Kind: "h2d", Buf: 0, Off: 0, N: 4096, Data: 13},
			{Kind: "gather", Src: 0, Buf: 1, Off: 0, N: 4096, Mask: all, Op: kern.OpXor, C: 0x55},
			{Kind: "d2h", Buf: 1, Off: 0, N: 4096},
			{Kind: "d2h", Buf: 0, Off: 0, N: 4096},
		}}
	}
	// (2) the driver's own copy kernel instead (the program of the classic
	// "upload A, copy, upload B, copy" pattern)
	d2d := func(id string, timing bool) histProgram {
		return histProgram{ID: id, Timing: timing, Bufs: []int{4096, 4096, 4096}, Steps: []histStep{
			{Kind: "h2d", Buf: 0, Off: 0, N: 4096, Data: 21},
			{Kind: "h2d", Buf: 1, Off: 0, N: 4096, Data: 22},
			{Kind: "h2d", Buf: 2, Off: 0, N: 4096, Data: 23},
			{Kind: "d2d", Src: 0, Buf: 1, Off: 0, N: 4096},
			{Kind: "h2d", Buf: 0, Off: 0, N: 4096, Data: 24},
			{Kind: "d2d", Src: 0, Buf: 2, Off: 0, N: 4096},
			{Kind: "d2h", Buf: 1, Off: 0, N: 4096},
			{Kind: "d2h", Buf: 2, Off: 0, N: 4096},
		}}
	}
	// (3) a two-page source read by every work-group window-wise, re-uploaded
	// one page at a time with no other host copy between the first read and
	// the re-upload (so that on every placement that splits the buffer one of
	// the two re-uploads touches no page of some GPU that has read it), 128
	// work-groups (a unified device over two GPUs gives each 64). No kernel
	// reads kernel-written data: buffer 1 is only written, buffer 0's in-place
	// kernels are separated by a host copy.
	pagewise := func(id string, timing bool) histProgram {
		return histProgram{ID: id, Timing: timing, Bufs: []int{2048, 8256}, Steps: []histStep{
			{Kind: "h2d", Buf: 0, Off: 0, N: 2048, Data: 31},
			{Kind: "h2d", Buf: 1, Off: 0, N: 8256, Data: 32},
			{Kind: "gather", Src: 0, Buf: 1, Off: 0, N: 8192, Mask: 2047, Op: kern.OpMul, C: 5, Site: 1},
			{Kind: "h2d", Buf: 0, Off: 0, N: 1024, Data: 33},
			{Kind: "gather", Src: 0, Buf: 1, Off: 0, N: 8192, Mask: 2047, Op: kern.OpXor, C: 0x1234567, Site: 1},
			{Kind: "d2h", Buf: 1, Off: 0, N: 8256},
			{Kind: "gather", Src: 0, Buf: 1, Off: 64, N: 8192, Mask: 2047, Op: kern.OpAdd, C: 77, Site: 1},
			{Kind: "h2d", Buf: 0, Off: 1024, N: 1024, Data: 34},
			{Kind: "gather", Src: 0, Buf: 1, Off: 64, N: 8192, Mask: 2047, Op: kern.OpMul, C: 9, Site: 1},
			{Kind: "d2h", Buf: 1, Off: 0, N: 8256},
			{Kind: "inplace", Buf: 0, Off: 0, N: 2048, Op: kern.OpAdd, C: 9, Site: 0},
			{Kind: "h2d", Buf: 0, Off: 1000, N: 48, Data: 35}, // straddles the page boundary, not aligned
			{Kind: "inplace", Buf: 0, Off: 0, N: 2048, Op: kern.OpXor, C: 0xF0F0, Site: 0},
			{Kind: "d2h", Buf: 0, Off: 0, N: 2048},
		}}
	}
	// (4) launch geometry inside a history: 150 x 2 work-groups of 4x4 (a
	// unified device of three GPUs gets shares of 128 against rows of 150),
	// the same grid again after a partial re-upload, then a 3-D launch
	geomHist := func(id string, timing bool) histProgram {
		g2 := geometry{Grid: [3]int{600, 8, 1}, WG: [3]int{4, 4, 1}} // 4800 elements
		g3 := geometry{Grid: [3]int{259, 4, 4}, WG: [3]int{4, 2, 2}} // 65 x 2 x 2 work-groups, partial in x; 4144 elements
		return histProgram{ID: id, Timing: timing, Bufs: []int{5000, 4200}, Steps: []histStep{
			{Kind: "h2d", Buf: 0, Off: 0, N: 5000, Data: 41},
			{Kind: "h2d", Buf: 1, Off: 0, N: 4200, Data: 42},
			{Kind: "geom", Buf: 0, Off: 100, N: g2.n(), Geo: &g2, Op: kern.OpAdd, C: 7, Site: 1},
			{Kind: "d2h", Buf: 0, Off: 0, N: 5000},
			{Kind: "h2d", Buf: 0, Off: 1024, N: 2048, Data: 43},
			{Kind: "geom", Buf: 0, Off: 100, N: g2.n(), Geo: &g2, Op: kern.OpMul, C: 3, Site: 1},
			{Kind: "d2h", Buf: 0, Off: 0, N: 5000},
			{Kind: "geom", Buf: 1, Off: 3, N: g3.n(), Geo: &g3, Op: kern.OpAdd, C: 1001, Site: 0},
			{Kind: "d2h", Buf: 1, Off: 0, N: 4200},
		}}
	}
	ps = append(ps, geomHist("canon-geometry-history-emu", false), geomHist("canon-geometry-history-timing", true))
	ps = append(ps,
		reup("canon-reupload-reread-emu", false), d2d("canon-d2d-reupload-emu", false), pagewise("canon-pagewise-reupload-emu", false),
		reup("canon-reupload-reread-timing", true), d2d("canon-d2d-reupload-timing", true), pagewise("canon-pagewise-reupload-timing", true),
	)
	return ps
}

// ---------------------------------------------------------------------------
// child: run one program on one placement

func encodeU32(v []uint32) string {
	b := make([]byte, 4*len(v))
	for i, x := range v {
		binary.LittleEndian.PutUint32(b[4*i:], x)
	}
	return base64.StdEncoding.EncodeToString(b)
}

func decodeU32(s string) []uint32 {
	b, err := base64.StdEncoding.DecodeString(s)
	if err != nil {
		return nil
	}
	out := make([]uint32, len(b)/4)
	for i := range out {
		out[i] = binary.LittleEndian.Uint32(b[4*i:])
	}
	return out
}

func histChild() {
	// args: hist <program json> <placement json>
	var prog histProgram
	var pl histPlacement
	if err := json.Unmarshal([]byte(os.Args[2]), &prog); err != nil {
		panic(err)
	}
	if err := json.Unmarshal([]byte(os.Args[3]), &pl); err != nil {
		panic(err)
	}
	rec := vlib.ChildRec()
	sim.GetIDGenerator()
	p := plat.Build(plat.Config{Timing: prog.Timing, GPUType: prog.GPU, NumGPUs: pl.NumGPUs, MagicCopy: prog.Magic})
	var rdmaCnt *rdmaCounter
	if prog.Timing {
		rdmaCnt = watchRDMA(p)
	}
	d := p.Driver
	d.Run()
	ctx := d.Init()

	unified := 0
	if len(pl.Unified) > 0 {
		unified = d.CreateUnifiedGPU(ctx, pl.Unified)
	}
	siteDev := func(site int) int {
		if unified != 0 {
			return unified
		}
		return pl.Sites[site%len(pl.Sites)]
	}

	// buffers: all allocated before the first launch
	ptr := make([]driver.Ptr, len(prog.Bufs))
	for b, n := range prog.Bufs {
		dev := unified
		if dev == 0 {
			dev = pl.BufGPU[b%len(pl.BufGPU)]
		}
		d.SelectGPU(ctx, dev)
		ptr[b] = d.AllocateMemory(ctx, uint64(4*n))
		bytes := uint64(4 * n)
		switch {
		case unified != 0:
		case pl.RemapTo != 0:
			pages := (bytes + 4095) / 4096
			d.Remap(ctx, uint64(ptr[b]), pages*4096, pl.RemapTo)
		case len(pl.Spread) > 0:
			gpus := make([]int, len(pl.Spread))
			for i := range gpus {
				gpus[i] = pl.Spread[(i+b)%len(pl.Spread)]
			}
			d.Distribute(ctx, ptr[b], bytes, gpus)
		case pl.RemapSeed != 0:
			r := vlib.NewPRNG(pl.RemapSeed + uint64(b))
			pages := (bytes + 4095) / 4096
			for pg := uint64(0); pg < pages; pg++ {
				if r.Chance(3, 4) {
					d.Remap(ctx, uint64(ptr[b])+pg*4096, 4096, 1+r.Intn(pl.NumGPUs))
				}
			}
		}
	}
	// which GPU owns which page (for the parent's accounting of what the run exercised)
	owners := make([][]int, len(prog.Bufs))
	pt := d.VerifPageTable()
	for b, n := range prog.Bufs {
		pages := (4*n + 4095) / 4096
		for pg := 0; pg < pages; pg++ {
			page, ok := pt.Find(ctx.VerifPID(), uint64(ptr[b])+uint64(pg)*4096)
			if !ok {
				panic("harness: page of a program buffer not in the page table")
			}
			owners[b] = append(owners[b], d.VerifDeviceIDByPAddr(page.PAddr))
		}
	}
	rec.Note("layout", map[string]any{"owners": owners})

	// queues, one per launch device
	queues := map[int]*driver.CommandQueue{}
	queueOf := func(site int) *driver.CommandQueue {
		dev := siteDev(site)
		if q := queues[dev]; q != nil {
			if !pl.QueuesUp {
				d.SelectGPU(ctx, dev)
			}
			return q
		}
		d.SelectGPU(ctx, dev)
		q := d.CreateCommandQueue(ctx)
		queues[dev] = q
		return q
	}
	if pl.QueuesUp {
		for s := range pl.Sites {
			queueOf(s)
		}
	}
	type coKey struct {
		dev  int
		kind string
		op   kern.Op
	}
	cos := map[coKey]*insts.KernelCodeObject{}
	coFor := func(site int, kind string, op kern.Op) *insts.KernelCodeObject {
		k := coKey{siteDev(site), kind, op}
		if pl.ShareCO {
			k.dev = 0
		}
		if co := cos[k]; co != nil {
			return co
		}
		var co *insts.KernelCodeObject
		switch kind {
		case "inplace":
			co = kern.ElemKernel(op)
		case "geom":
			co = geomKernel(op)
		default:
			co = gatherKernel(op)
		}
		cos[k] = co
		return co
	}
	at := func(b, elem int) driver.Ptr { return ptr[b] + driver.Ptr(4*elem) }

	for i, st := range prog.Steps {
		switch st.Kind {
		case "h2d":
			data := h2dData(st.Data, st.N)
			if st.ViaQ {
				q := queueOf(st.Site)
				d.EnqueueMemCopyH2D(q, at(st.Buf, st.Off), data)
				d.DrainCommandQueue(q)
			} else {
				d.MemCopyH2D(ctx, at(st.Buf, st.Off), data)
			}
		case "d2h":
			out := make([]uint32, st.N)
			if st.ViaQ {
				q := queueOf(st.Site)
				d.EnqueueMemCopyD2H(q, out, at(st.Buf, st.Off))
				d.DrainCommandQueue(q)
			} else {
				d.MemCopyD2H(ctx, out, at(st.Buf, st.Off))
			}
			rec.Note("readback", map[string]any{"step": i, "data": encodeU32(out)})
		case "inplace":
			q := queueOf(st.Site)
			args := kern.ElemArgs{Buf: at(st.Buf, st.Off), C: st.C}
			d.EnqueueLaunchKernel(q, coFor(st.Site, st.Kind, st.Op), [3]uint32{uint32(st.N), 1, 1}, [3]uint16{64, 1, 1}, &args)
			d.DrainCommandQueue(q)
		case "geom":
			g := *st.Geo
			if unified == 0 && pl.HostSplit {
				// the host splits the grid into slabs of work-groups, one per GPU
				gpus := pl.splitGPUs()
				siteOf := func(gpu int) int {
					for s, x := range pl.Sites {
						if x == gpu {
							return s
						}
					}
					panic("harness: gpu without a site")
				}
				parts := g.hostSplit(len(gpus))
				var qs []*driver.CommandQueue
				for _, part := range parts {
					site := siteOf(gpus[part.Part])
					q := queueOf(site)
					args := g.args(at(st.Buf, st.Off+part.ElemOffset), st.C)
					d.EnqueueLaunchKernel(q, coFor(site, st.Kind, st.Op), u32x3(part.Grid), u16x3(g.WG), &args)
					qs = append(qs, q)
				}
				for _, q := range qs {
					d.DrainCommandQueue(q)
				}
			} else {
				q := queueOf(st.Site)
				args := g.args(at(st.Buf, st.Off), st.C)
				d.EnqueueLaunchKernel(q, coFor(st.Site, st.Kind, st.Op), u32x3(g.Grid), u16x3(g.WG), &args)
				d.DrainCommandQueue(q)
			}
		case "gather":
			q := queueOf(st.Site)
			args := GatherArgs{Src: at(st.Src, st.SrcOff), Dst: at(st.Buf, st.Off), C: st.C, Mask: st.Mask}
			d.EnqueueLaunchKernel(q, coFor(st.Site, st.Kind, st.Op), [3]uint32{uint32(st.N), 1, 1}, [3]uint16{64, 1, 1}, &args)
			d.DrainCommandQueue(q)
		case "d2d":
			q := queueOf(st.Site)
			d.EnqueueMemCopyD2D(q, at(st.Buf, st.Off), at(st.Src, st.SrcOff), 4*st.N-st.Cut)
			d.DrainCommandQueue(q)
		default:
			panic("harness: unknown step kind " + st.Kind)
		}
	}
	if rdmaCnt != nil {
		rec.Note("rdma", rdmaCnt.snapshot())
	}
	rec.Note("done", true)
	os.Exit(0)
}

// ---------------------------------------------------------------------------
// parent

type histJob struct {
	prog   histProgram
	pl     histPlacement
	reads  map[int][]uint32
	owners [][]int
	rdma   map[int]int64 // forwarded memory requests per GPU (timing)
	done   bool
	fail   string
	dur    time.Duration
}

// readerGPU is the GPU that executes work-item g of a kernel step.
func readerGPU(pl histPlacement, st histStep, g int, cus int) int {
	if st.Kind == "geom" {
		geo := *st.Geo
		if len(pl.Unified) > 0 {
			return pl.Unified[geo.wgOfElement(g)/unifiedShare(geo.totalWGs(), len(pl.Unified), cus)]
		}
		if pl.HostSplit {
			gpus := pl.splitGPUs()
			return gpus[geo.hostSplitPartOfElement(geo.hostSplit(len(gpus)), g)]
		}
		return pl.Sites[st.Site%len(pl.Sites)]
	}
	if len(pl.Unified) == 0 {
		return pl.Sites[st.Site%len(pl.Sites)]
	}
	// Driver.distributeWGToGPUs: consecutive shares of 64*ceil(#wg / #CUs) work-groups (64 CUs per GPU)
	wgs := (st.N + 63) / 64
	per := cus * ((wgs-1)/(cus*len(pl.Unified)) + 1)
	return pl.Unified[(g/64)/per]
}

// exercised replays the program against the page layout and counts what the
// run exposed: kernels reading pages of another GPU, and the history pattern
// "GPU A read lines of a page it does not own; the host re-uploaded them with
// a copy that touches no page of A and no other copy touching a page of A
// followed; a later kernel on A reads them again".
func exercised(j *histJob) (remoteReads, rereads int) {
	type ek struct{ b, e int }
	state := map[int]map[ek]int{} // per GPU: 1 = read remotely, 2 = re-uploaded since
	ownerOf := func(b, e int) int { return j.owners[b][e/histPage] }
	for _, st := range j.prog.Steps {
		switch {
		case st.Kind == "h2d" || st.Kind == "d2h":
			touched := map[int]bool{}
			for pg := st.Off / histPage; pg <= (st.Off+st.N-1)/histPage; pg++ {
				touched[j.owners[st.Buf][pg]] = true
			}
			for gpu := range touched {
				delete(state, gpu)
			}
			if st.Kind == "h2d" {
				for gpu, m := range state {
					_ = gpu
					for e := st.Off; e < st.Off+st.N; e++ {
						if m[ek{st.Buf, e}] == 1 {
							m[ek{st.Buf, e}] = 2
						}
					}
				}
			}
		case st.isKernel():
			remote, reread := false, false
			sb := st.srcBuf()
			for g := 0; g < st.N; g++ {
				gpu := readerGPU(j.pl, st, g, cusOf(j.prog.GPU))
				e := st.srcIndex(g)
				if ownerOf(sb, e) == gpu {
					continue
				}
				remote = true
				m := state[gpu]
				if m == nil {
					m = map[ek]int{}
					state[gpu] = m
				}
				if m[ek{sb, e}] == 2 {
					reread = true
				}
				m[ek{sb, e}] = 1
			}
			if remote {
				remoteReads++
			}
			if reread {
				rereads++
			}
		}
	}
	return remoteReads, rereads
}

// crossGPU replays the program against the page layout: which GPU accessed
// pages of which other GPU (needs[from][to]), and how many kernels consumed
// data that a kernel on ANOTHER GPU produced with no host copy in between
// (chains, keyed "producer>consumer"); remoteProduced counts those whose
// producer also was not the owner of the page (the data had to travel to the
// owner's L2 to be visible).
func crossGPU(j *histJob) (needs map[int]map[int]bool, chains map[string]int, remoteProduced int) {
	needs = map[int]map[int]bool{}
	chains = map[string]int{}
	cus := cusOf(j.prog.GPU)
	lastKW := make([][]int, len(j.prog.Bufs))
	for b, n := range j.prog.Bufs {
		lastKW[b] = make([]int, n)
	}
	need := func(from, to int) {
		if from == to {
			return
		}
		if needs[from] == nil {
			needs[from] = map[int]bool{}
		}
		needs[from][to] = true
	}
	for _, st := range j.prog.Steps {
		if !st.isKernel() {
			for b := range lastKW {
				for e := range lastKW[b] {
					lastKW[b][e] = 0
				}
			}
			continue
		}
		sb := st.srcBuf()
		seen := map[string]bool{}
		remote := false
		gpus := make([]int, st.N)
		for g := 0; g < st.N; g++ {
			gpu := readerGPU(j.pl, st, g, cus)
			gpus[g] = gpu
			se := st.srcIndex(g)
			need(gpu, j.owners[sb][se/histPage])
			need(gpu, j.owners[st.Buf][(st.Off+g)/histPage])
			if w := lastKW[sb][se]; w != 0 && w != gpu {
				seen[fmt.Sprintf("%d>%d", w, gpu)] = true
				if j.owners[sb][se/histPage] != w {
					remote = true
				}
			}
		}
		for g := 0; g < st.N; g++ {
			lastKW[st.Buf][st.Off+g] = gpus[g]
		}
		for k := range seen {
			chains[k]++
		}
		if remote {
			remoteProduced++
		}
	}
	return needs, chains, remoteProduced
}

func runHistory(c *vlib.Check) {
	if err := checkGatherKernel(); err != nil {
		c.Inconclusive("harness self-check: " + err.Error())
		return
	}
	if err := checkGeomKernel(); err != nil {
		c.Inconclusive("harness self-check: " + err.Error())
		return
	}
	scratch, cleanup := vlib.Scratch("c18hist")
	defer cleanup()
	base := c.Rand("e2e-history")
	var progs []histProgram
	progs = append(progs, canonicalHistPrograms()...)
	nEmu, nTim, nMagic := c.N(10, 120), c.N(3, 30), c.N(3, 30)
	for i := 0; i < nTim; i++ {
		progs = append(progs, genHistProgram(base.ForkN("timing", i), fmt.Sprintf("timing-%d", i), true))
	}
	for i := 0; i < nEmu; i++ {
		progs = append(progs, genHistProgram(base.ForkN("emu", i), fmt.Sprintf("emu-%d", i), false))
	}
	for i := 0; i < nMagic; i++ {
		progs = append(progs, genCopyOnlyProgram(base.ForkN("magic", i), fmt.Sprintf("timing-magic-copy-only-%d", i)))
	}
	// producer -> consumer chains across GPUs (no host copy between kernels), on all three platforms
	progs = append(progs, canonicalChainPrograms()...)
	nChEmu, nChTim, nChMI := c.N(6, 60), c.N(2, 16), c.N(1, 5)
	for i := 0; i < nChEmu; i++ {
		progs = append(progs, genChainProgram(base.ForkN("chain-emu", i), fmt.Sprintf("chain-emu-%d", i), false, ""))
	}
	for i := 0; i < nChTim; i++ {
		p := genChainProgram(base.ForkN("chain-timing", i), fmt.Sprintf("chain-timing-%d", i), true, "")
		if !c.Thorough() {
			p.Only = []string{"single-gpu", "cross-gpu-chain", "distributed-buffers", "unified"}
		}
		progs = append(progs, p)
	}
	for i := 0; i < nChMI; i++ {
		progs = append(progs, genChainProgram(base.ForkN("chain-mi300a", i), fmt.Sprintf("chain-mi300a-%d", i), true, "mi300a"))
	}
	// one ordinary history program and the geometry history on mi300a
	progs = append(progs, func() histProgram {
		p := genHistProgramSized(base.ForkN("mi300a", 0), "history-mi300a-0", true, 3000, 60, []int{1024, 2048, 3000})
		p.GPU = "mi300a"
		return p
	}())
	var jobs []*histJob
	for _, pg := range progs {
		pls := histPlacements(pg.Timing, c.Thorough())
		if pg.GPU == "mi300a" {
			pls = histPlacementsMI300A(c.Thorough())
		}
		for _, pl := range pls {
			if len(pg.Only) > 0 && !containsStr(pg.Only, pl.Class) {
				continue
			}
			if pg.Timing && !pg.Magic && !c.Thorough() && pl.Class == "local-buffers" && !strings.HasPrefix(pg.ID, "canon") {
				continue // quick tier: the all-local control placement runs the canonical timing programs only
			}
			jobs = append(jobs, &histJob{prog: pg, pl: pl})
		}
	}
	// slow (timing) jobs first
	order := make([]int, len(jobs))
	for i := range order {
		order[i] = i
	}
	sort.SliceStable(order, func(a, b int) bool {
		ja, jb := jobs[order[a]], jobs[order[b]]
		wa, wb := 0, 0
		if ja.prog.Timing && !ja.prog.Magic {
			wa = ja.pl.NumGPUs
			if ja.prog.GPU == "mi300a" {
				wa += 10
			}
		}
		if jb.prog.Timing && !jb.prog.Magic {
			wb = jb.pl.NumGPUs
			if jb.prog.GPU == "mi300a" {
				wb += 10
			}
		}
		return wa > wb
	})
	vlib.Parallel(len(jobs), 12, func(k int) {
		j := jobs[order[k]]
		pj, _ := json.Marshal(j.prog)
		lj, _ := json.Marshal(j.pl)
		res := vlib.RunChild(scratch, 20*time.Minute, []string{"GOMAXPROCS=2"}, "hist", string(pj), string(lj))
		j.dur = res.Dur
		notes := c.AbsorbFile(res.RecPath)
		j.reads = map[int][]uint32{}
		for _, r := range notes["readback"] {
			m, _ := r.(map[string]any)
			stepF, _ := m["step"].(float64)
			s, _ := m["data"].(string)
			j.reads[int(stepF)] = decodeU32(s)
		}
		if l := notes["layout"]; len(l) > 0 {
			m, _ := l[0].(map[string]any)
			if arr, ok := m["owners"].([]any); ok {
				for _, a := range arr {
					var row []int
					if aa, ok := a.([]any); ok {
						for _, x := range aa {
							f, _ := x.(float64)
							row = append(row, int(f))
						}
					}
					j.owners = append(j.owners, row)
				}
			}
		}
		if r := notes["rdma"]; len(r) > 0 {
			j.rdma = rdmaFromNote(r[0])
		}
		if _, ok := notes["done"]; ok {
			j.done = true
		} else if res.TimedOut {
			j.fail = "watchdog"
		} else {
			j.fail = "crash: " + firstPanicLine(vlib.Tail(res.OutPath, 4000))
		}
		_ = os.RemoveAll(res.Dir)
	})

	if os.Getenv("C18_TIMES") != "" {
		for _, j := range jobs {
			fmt.Printf("[C18] hist %-40s %-45s %6.1fs\n", j.prog.ID, j.pl.Name, j.dur.Seconds())
		}
	}

	byProg := map[string][]*histJob{}
	for _, j := range jobs {
		byProg[j.prog.ID] = append(byProg[j.prog.ID], j)
	}
	for _, pg := range progs {
		sh := runShadow(pg)
		mode := modeOf(pg.Timing, pg.GPU, pg.Magic)
		kernels, reuploads := 0, 0
		seenKernel := false
		for _, st := range pg.Steps {
			if st.isKernel() {
				kernels++
				seenKernel = true
			}
			if st.Kind == "h2d" && seenKernel {
				reuploads++
			}
		}
		var single *histJob
		for _, j := range byProg[pg.ID] {
			if j.pl.Name == "1gpu" {
				single = j
			}
		}
		for _, j := range byProg[pg.ID] {
			c.Eval()
			c.Count("history_runs", 1)
			c.Distinct("history_placement", mode+"/"+j.pl.Name)
			wit := map[string]any{"program": j.prog, "placement": j.pl, "page_owners": j.owners,
				"how_to_run": "w_c18 child: VERIF_CHILD_REC=<file> w_c18 hist '<program json>' '<placement json>' in a scratch cwd"}
			if j.fail == "watchdog" {
				c.Inconclusive(fmt.Sprintf("e2e-history %s on %s/%s: watchdog fired", pg.ID, mode, j.pl.Name))
				continue
			}
			if !j.done {
				wit["failure"] = j.fail
				c.Violation(fmt.Sprintf("C18|e2e-history|%s|%s|crash", mode, j.pl.Class),
					fmt.Sprintf("history program %s crashes on placement %s/%s after %d read-backs: %s", pg.ID, mode, j.pl.Name, len(j.reads), j.fail), wit)
				continue
			}
			ok := true
			var dsteps []int
			for s := range sh.expect {
				dsteps = append(dsteps, s)
			}
			sort.Ints(dsteps)
			for _, s := range dsteps {
				want := sh.expect[s]
				got := j.reads[s]
				st := pg.Steps[s]
				if len(got) != len(want) {
					ok = false
					wit["step"] = s
					c.Violation(fmt.Sprintf("C18|e2e-history|%s|%s|read-back-missing", mode, j.pl.Class),
						fmt.Sprintf("history program %s on %s/%s: read-back step %d returned %d elements, expected %d", pg.ID, mode, j.pl.Name, s, len(got), len(want)), wit)
					break
				}
				c.Count("history_readbacks_compared", 1)
				c.Count("history_elements_compared", int64(len(want)))
				bad, first := 0, -1
				for i := range want {
					if got[i] != want[i] {
						if first < 0 {
							first = i
						}
						bad++
					}
				}
				if bad == 0 {
					continue
				}
				ok = false
				class, detail := sh.classify(s, first, got[first])
				c.Count("history_runs_differing_from_shadow|"+mode+"|"+j.pl.Class+"|"+class, 1)
				// how many of the differing elements share the explanation
				same := 0
				for i := range want {
					if got[i] != want[i] {
						if cl, _ := sh.classify(s, i, got[i]); cl == class {
							same++
						}
					}
				}
				wit["step"], wit["buffer"], wit["element"] = s, st.Buf, st.Off+first
				wit["got"], wit["want"], wit["differing_elements"], wit["differing_elements_with_same_class"] = got[first], want[first], bad, same
				wit["explanation"] = detail
				if single != nil && single != j && single.done {
					if sg := single.reads[s]; len(sg) == len(got) {
						wit["single_gpu_run_value"] = sg[first]
					}
				}
				if pg.Timing && !pg.Magic && len(j.owners) == len(pg.Bufs) && j.rdma != nil {
					needs, _, _ := crossGPU(j)
					for from, tos := range needs {
						if len(tos) > 0 && j.rdma[from] == 0 {
							wit["rdma_forwarded_requests_per_gpu"] = j.rdma
							c.Violation(fmt.Sprintf("C18|e2e-history|%s|remote-access-not-forwarded", mode),
								fmt.Sprintf("history program %s on %s/%s: kernels on GPU %d access pages owned by other GPUs, its RDMA engine forwarded no request at all, and a read-back differs from the shadow (forwarded requests per GPU: %v)", pg.ID, mode, j.pl.Name, from, j.rdma), wit)
						}
					}
				}
				c.Violation(fmt.Sprintf("C18|e2e-history|%s|%s|read-back-differs-from-shadow|%s", mode, j.pl.Class, class),
					fmt.Sprintf("history program %s on %s/%s: read-back step %d (buffer %d, elements %d..%d) differs from the program-order shadow in %d elements, first at element %d: got 0x%08x, expected 0x%08x; %s",
						pg.ID, mode, j.pl.Name, s, st.Buf, st.Off, st.Off+st.N-1, bad, st.Off+first, got[first], want[first], detail), wit)
				break
			}
			if !ok {
				continue
			}
			// equal to the shadow => equal to every other placement that equals the shadow;
			// say so explicitly for the single-GPU run (the property's wording)
			if single != nil && single != j && single.done {
				eq := true
				for _, s := range dsteps {
					a, b := j.reads[s], single.reads[s]
					if len(a) != len(b) {
						eq = false
						break
					}
					for i := range a {
						if a[i] != b[i] {
							eq = false
							break
						}
					}
				}
				if eq {
					c.Count("history_multi_gpu_runs_equal_to_single", 1)
				}
			}
			c.Count("history_runs_equal_to_shadow", 1)
			if len(j.owners) == len(pg.Bufs) {
				needs, chains, remoteProduced := crossGPU(j)
				if j.pl.Name != "1gpu" {
					for k, n := range chains {
						var w, r int
						fmt.Sscanf(k, "%d>%d", &w, &r)
						dir := "lower-to-higher-gpu"
						if w > r {
							dir = "higher-to-lower-gpu"
						}
						c.Count("history_kernels_consuming_another_gpus_kernel_output|"+mode+"|"+dir, int64(n))
					}
					c.Count("history_kernels_consuming_output_written_into_remote_memory|"+mode, int64(remoteProduced))
					if pg.GPU == "mi300a" {
						c.Count("history_mi300a_multi_gpu_runs", 1)
					}
				}
				if j.rdma != nil && !pg.Magic {
					for gpu, n := range j.rdma {
						if j.pl.NumGPUs > 1 {
							c.Count(fmt.Sprintf("rdma_forwarded_requests|%s|from-gpu%d", mode, gpu), n)
						}
					}
					for from, tos := range needs {
						if len(tos) > 0 {
							c.Count("history_runs_with_a_gpu_accessing_remote_pages|"+mode, 1)
							if j.rdma[from] == 0 {
								// alone this is only a counter (see the key remote-access-not-forwarded)
								c.Count("history_gpus_with_remote_accesses_but_nothing_forwarded|"+mode, 1)
							}
						}
					}
				}
				remote, rereads := exercised(j)
				c.Count("history_kernels_reading_remote_pages|"+mode, int64(remote))
				c.Count("history_rereads_after_reupload_not_touching_reader|"+mode, int64(rereads))
				if j.pl.Name != "1gpu" && kernels >= 2 && reuploads >= 1 && remote > 0 {
					c.Nontrivial("e2e-history/" + pg.ID + "/" + mode + "/" + j.pl.Name)
					c.Count("history_multi_gpu_histories_with_remote_reads", 1)
				}
				for _, st := range pg.Steps {
					if st.Kind != "geom" || j.pl.Name == "1gpu" {
						continue
					}
					c.Count(fmt.Sprintf("geom_launches_%dd", st.Geo.dims()), 1)
					if st.Geo.partial() {
						c.Count("geom_launches_with_partial_work_groups", 1)
					}
					if m := len(j.pl.Unified); m > 0 {
						rowsLt, wraps, idle := st.Geo.unifiedFacts(m, cusOf(pg.GPU))
						c.Count("geom_unified_launches|"+mode, 1)
						c.Distinct("geom_unified_members", fmt.Sprint(m))
						if rowsLt {
							c.Count("geom_unified_launches_with_fewer_wg_rows_than_members|"+mode, 1)
						}
						if wraps {
							c.Count("geom_unified_launches_with_a_share_wrapping_a_row_end|"+mode, 1)
						}
						if idle {
							c.Count("geom_unified_launches_with_an_idle_member", 1)
						}
					} else if j.pl.HostSplit {
						c.Count("geom_host_split_launches|"+mode, int64(len(st.Geo.hostSplit(len(j.pl.splitGPUs())))))
					}
				}
				if pg.Magic && j.pl.Name != "1gpu" {
					c.Count("history_magic_copy_only_runs", 1)
				}
			}
		}
		if len(pg.Steps) < 40 {
			c.Sample(map[string]any{"history_program": pg})
		}
	}
}
