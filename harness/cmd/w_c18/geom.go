package main

import (
	"encoding/binary"
	"fmt"

	"github.com/sarchlab/mgpusim/v4/amd/driver"
	"github.com/sarchlab/mgpusim/v4/amd/insts"

	"verifharness/vlib"
	"verifharness/vlib/kern"
)

// Launch geometry as a dimension of the end-to-end layers of C18.
//
// geomKernel is a read-modify-write kernel over a flat buffer launched with a
// 1-D, 2-D or 3-D grid: work-item (gx, gy, gz) processes element
// gx + gy*pitchX + gz*pitchXY, buf[i] = op(buf[i], c). With pitchX = grid size
// X and pitchXY = grid size X * grid size Y every element of the buffer is
// processed by exactly one work-item, so "a work-group never ran" leaves the
// element unprocessed and "a work-group ran twice" processes it twice; both
// show in the final data. The pitches are arguments (not the launched grid
// size), so a host program can split the grid over plain GPUs itself by
// launching sub-grids with an offset base pointer.

type geometry struct {
	Grid [3]int `json:"grid"` // work-items per dimension (need not be multiples of the work-group size)
	WG   [3]int `json:"wg"`   // work-group size per dimension (product <= 256)
}

func (g geometry) n() int { return g.Grid[0] * g.Grid[1] * g.Grid[2] }

// wgs is the number of work-groups per dimension.
func (g geometry) wgs() [3]int {
	var w [3]int
	for d := 0; d < 3; d++ {
		w[d] = (g.Grid[d]-1)/g.WG[d] + 1
	}
	return w
}

func (g geometry) rows() int     { w := g.wgs(); return w[1] * w[2] }
func (g geometry) totalWGs() int { w := g.wgs(); return w[0] * w[1] * w[2] }
func (g geometry) dims() int {
	switch {
	case g.Grid[2] > 1:
		return 3
	case g.Grid[1] > 1:
		return 2
	}
	return 1
}
func (g geometry) partial() bool {
	for d := 0; d < 3; d++ {
		if g.Grid[d]%g.WG[d] != 0 {
			return true
		}
	}
	return false
}

func (g geometry) String() string {
	w := g.wgs()
	return fmt.Sprintf("grid %dx%dx%d in work-groups of %dx%dx%d (%dx%dx%d work-groups)", g.Grid[0], g.Grid[1], g.Grid[2], g.WG[0], g.WG[1], g.WG[2], w[0], w[1], w[2])
}

// wgOfElement is the flattened id (x fastest) of the work-group that processes element e.
func (g geometry) wgOfElement(e int) int {
	w := g.wgs()
	gx := e % g.Grid[0]
	gy := e / g.Grid[0] % g.Grid[1]
	gz := e / (g.Grid[0] * g.Grid[1])
	return (gz/g.WG[2])*w[0]*w[1] + (gy/g.WG[1])*w[0] + gx/g.WG[0]
}

// cusOf is the number of compute units per GPU of a platform ("" = r9nano
// timing / emulation: 64, "mi300a": 120).
func cusOf(gpuType string) int {
	if gpuType == "mi300a" {
		return 120
	}
	return 64
}

// unifiedShare replicates Driver.distributeWGToGPUs for GPUs of `cus` CUs:
// member i of a unified device runs the work-groups with flattened id in
// [i*per, (i+1)*per).
func unifiedShare(totalWGs, members, cus int) (per int) {
	return cus * ((totalWGs-1)/(cus*members) + 1)
}

// unifiedFacts describes what a unified launch of this geometry over
// `members` GPUs exercises: fewer work-group rows than members; a member whose
// share is shorter than one row of work-groups and wraps around a row end; a
// member with an empty share.
func (g geometry) unifiedFacts(members, cus int) (rowsLtMembers, shareWrapsRow, idleMember bool) {
	x, total := g.wgs()[0], g.totalWGs()
	per := unifiedShare(total, members, cus)
	rowsLtMembers = g.rows() < members
	for i := 0; i < members; i++ {
		lo, hi := i*per, (i+1)*per
		if hi > total {
			hi = total
		}
		if lo >= hi {
			idleMember = true
			continue
		}
		if hi-lo < x && lo/x != (hi-1)/x {
			shareWrapsRow = true
		}
	}
	return
}

// splitPart is one sub-launch of a host-split launch.
type splitPart struct {
	Grid       [3]int
	ElemOffset int // offset of the part's base pointer in elements
	Part       int // index of the GPU (in the placement's list) that runs it
}

// hostSplit cuts the grid into `parts` slabs of whole work-groups along its
// outermost dimension that has more than one work-group (as a host program
// written for plain multi-GPU platforms does). Parts may be empty (not returned).
func (g geometry) hostSplit(parts int) []splitPart {
	w := g.wgs()
	d := 0
	if w[2] > 1 {
		d = 2
	} else if w[1] > 1 {
		d = 1
	}
	pitch := [3]int{1, g.Grid[0], g.Grid[0] * g.Grid[1]}
	var out []splitPart
	q, r := w[d]/parts, w[d]%parts
	start := 0
	for k := 0; k < parts; k++ {
		cnt := q
		if k < r {
			cnt++
		}
		if cnt == 0 {
			continue
		}
		lo := start * g.WG[d]
		hi := (start + cnt) * g.WG[d]
		if hi > g.Grid[d] {
			hi = g.Grid[d]
		}
		p := splitPart{Grid: g.Grid, ElemOffset: lo * pitch[d], Part: k}
		p.Grid[d] = hi - lo
		out = append(out, p)
		start += cnt
	}
	return out
}

// hostSplitPartOfElement is the part that processes element e.
func (g geometry) hostSplitPartOfElement(parts []splitPart, e int) int {
	w := g.wgs()
	d := 0
	if w[2] > 1 {
		d = 2
	} else if w[1] > 1 {
		d = 1
	}
	coord := [3]int{e % g.Grid[0], e / g.Grid[0] % g.Grid[1], e / (g.Grid[0] * g.Grid[1])}[d]
	pitch := [3]int{1, g.Grid[0], g.Grid[0] * g.Grid[1]}
	for _, p := range parts {
		lo := p.ElemOffset / pitch[d]
		if coord >= lo && coord < lo+p.Grid[d] {
			return p.Part
		}
	}
	return -1
}

// GeomArgs is the argument block of geomKernel.
type GeomArgs struct {
	Buf     driver.Ptr
	C       uint32
	PitchX  uint32
	PitchXY uint32
	WgX     uint32
	WgY     uint32
	WgZ     uint32
}

func (g geometry) args(buf driver.Ptr, c uint32) GeomArgs {
	return GeomArgs{Buf: buf, C: c, PitchX: uint32(g.Grid[0]), PitchXY: uint32(g.Grid[0] * g.Grid[1]),
		WgX: uint32(g.WG[0]), WgY: uint32(g.WG[1]), WgZ: uint32(g.WG[2])}
}

func u16x3(v [3]int) [3]uint16 { return [3]uint16{uint16(v[0]), uint16(v[1]), uint16(v[2])} }
func u32x3(v [3]int) [3]uint32 { return [3]uint32{uint32(v[0]), uint32(v[1]), uint32(v[2])} }

// geomKernel: s[0:1] kernarg pointer, s2/s3/s4 work-group id x/y/z,
// v0/v1/v2 work-item id x/y/z (code-object V3 conventions).
func geomKernel(op kern.Op) *insts.KernelCodeObject {
	var opWords []uint32
	switch op {
	case kern.OpAdd:
		opWords = []uint32{0x32040408} // v_add_u32 v2, vcc, s8, v2
	case kern.OpMul:
		opWords = []uint32{0xD2850002, 0x00020408} // v_mul_lo_u32 v2, s8, v2
	default:
		opWords = []uint32{0x2A040408} // v_xor_b32 v2, s8, v2
	}
	ws := []uint32{
		0xC0060180, 0x00000000, // s_load_dwordx2 s[6:7], s[0:1], 0x0     buf
		0xC0060200, 0x00000008, // s_load_dwordx2 s[8:9], s[0:1], 0x8     c, pitchX
		0xC00A0300, 0x00000010, // s_load_dwordx4 s[12:15], s[0:1], 0x10  pitchXY, wg size x, y, z
		0xBF8C007F,             // s_waitcnt lgkmcnt(0)
		0x92020D02,             // s_mul_i32 s2, s2, s13
		0x92030E03,             // s_mul_i32 s3, s3, s14
		0x92040F04,             // s_mul_i32 s4, s4, s15
		0x32000002,             // v_add_u32 v0, vcc, s2, v0            gx
		0x32020203,             // v_add_u32 v1, vcc, s3, v1            gy
		0x32040404,             // v_add_u32 v2, vcc, s4, v2            gz
		0xD2850001, 0x00020209, // v_mul_lo_u32 v1, s9, v1            gy*pitchX
		0xD2850002, 0x0002040C, // v_mul_lo_u32 v2, s12, v2           gz*pitchXY
		0x32000300,             // v_add_u32 v0, vcc, v0, v1
		0x32000500,             // v_add_u32 v0, vcc, v0, v2
		0x24000082,             // v_lshlrev_b32 v0, 2, v0
		0x7E020207,             // v_mov_b32 v1, s7
		0x32000006,             // v_add_u32 v0, vcc, s6, v0
		0x38020280,             // v_addc_u32 v1, vcc, 0, v1, vcc
		0xDC500000, 0x02000000, // flat_load_dword v2, v[0:1]
		0xBF8C0070, // s_waitcnt vmcnt(0) lgkmcnt(0)
	}
	ws = append(ws, opWords...)
	ws = append(ws,
		0xDC700000, 0x00000200, // flat_store_dword v[0:1], v2
		0xBF810000, // s_endpgm
	)
	var data []byte
	for _, w := range ws {
		data = binary.LittleEndian.AppendUint32(data, w)
	}
	meta := &insts.KernelCodeObjectMeta{
		ComputePgmRsrc1:             1 | (1 << 6),               // 8 VGPRs, 16 SGPRs (granulated)
		ComputePgmRsrc2:             1<<7 | 1<<8 | 1<<9 | 2<<11, // work-group id x, y, z; work-item id x, y, z
		KernargSegmentByteSize:      32,
		EnableSgprKernargSegmentPtr: true,
		WFSgprCount:                 16,
		WIVgprCount:                 8,
	}
	return &insts.KernelCodeObject{KernelCodeObjectMeta: meta, Data: data, Version: insts.CodeObjectV3}
}

func checkGeomKernel() error {
	want := []string{
		"s_load_dwordx2 s[6:7], s[0:1], 0x0", "s_load_dwordx2 s[8:9], s[0:1], 0x8", "s_load_dwordx4 s[12:15], s[0:1], 0x10",
		"s_waitcnt lgkmcnt(0)", "s_mul_i32 s2, s2, s13", "s_mul_i32 s3, s3, s14", "s_mul_i32 s4, s4, s15",
		"v_add_u32_e32 v0, vcc, s2, v0", "v_add_u32_e32 v1, vcc, s3, v1", "v_add_u32_e32 v2, vcc, s4, v2",
		"v_mul_lo_u32 v1, s9, v1", "v_mul_lo_u32 v2, s12, v2", "v_add_u32_e32 v0, vcc, v0, v1", "v_add_u32_e32 v0, vcc, v0, v2",
		"v_lshlrev_b32_e32 v0, 2, v0", "v_mov_b32_e32 v1, s7", "v_add_u32_e32 v0, vcc, s6, v0", "v_addc_u32_e32 v1, vcc, 0, v1, vcc",
		"flat_load_dword v2, v[0:1]", "s_waitcnt vmcnt(0) lgkmcnt(0)", "v_add_u32_e32 v2, vcc, s8, v2",
		"flat_store_dword v[0:1], v2", "s_endpgm",
	}
	co := geomKernel(kern.OpAdd)
	got, err := kern.Disassemble(co)
	if err != nil {
		return err
	}
	if len(got) != len(want) {
		return fmt.Errorf("geometry kernel decodes to %d instructions, expected %d: %v", len(got), len(want), got)
	}
	for i := range want {
		if got[i] != want[i] {
			return fmt.Errorf("geometry kernel instruction %d decodes to %q, expected %q", i, got[i], want[i])
		}
	}
	if !co.EnableSgprWorkGroupIDX() || !co.EnableSgprWorkGroupIDY() || !co.EnableSgprWorkGroupIDZ() || co.EnableVgprWorkItemID() != 2 {
		return fmt.Errorf("geometry kernel descriptor does not enable the work-group / work-item ids")
	}
	return nil
}

var geomShapes = [][3]int{{64, 1, 1}, {8, 8, 1}, {16, 4, 1}, {32, 2, 1}, {4, 4, 1}, {2, 2, 1}, {4, 4, 4}, {8, 4, 2}, {16, 16, 1}, {2, 2, 2}, {1, 2, 1}}

// genGeometry draws a launch geometry of at most maxElems work-items and
// maxWGs work-groups. The classes aim at the arithmetic of unified launches
// (shares of 64*k flattened work-group ids): 1, 2, 3, 5 or many work-group
// rows; row lengths that are small, multiples of 64, just above multiples of
// 64, or arbitrary; partial last work-groups in every dimension.
func genGeometry(r *vlib.PRNG, maxElems, maxWGs int) geometry {
	for try := 0; try < 40; try++ {
		var g geometry
		g.WG = geomShapes[r.Intn(len(geomShapes))]
		rows := []int{1, 2, 3, 5, 6 + r.Intn(19)}[r.Intn(5)]
		var x int
		switch r.Intn(6) {
		case 0:
			x = 1 + r.Intn(10)
		case 1:
			x = 64 * (1 + r.Intn(3))
		case 2:
			x = 64*(1+r.Intn(3)) + 1 + r.Intn(20)
		case 3:
			x = []int{65, 100, 129, 150, 200}[r.Intn(5)]
		default:
			x = 1 + r.Intn(220)
		}
		if x <= 10 && r.Bool() {
			rows = 20 + r.Intn(60) // tall grid: more work-group rows than work-groups in a row
		}
		wz := 1
		dims := r.Intn(10)
		if dims < 3 && rows > 1 { // 3-D
			wz = []int{2, 3, 5}[r.Intn(3)]
			if wz > rows {
				wz = rows
			}
		}
		wy := (rows + wz - 1) / wz
		if dims == 9 { // 1-D launch of this kernel
			wy, wz = 1, 1
		}
		w := [3]int{x, wy, wz}
		if w[0]*w[1]*w[2] > maxWGs {
			continue
		}
		for d := 0; d < 3; d++ {
			g.Grid[d] = w[d] * g.WG[d]
			if g.WG[d] > 1 && r.Bool() {
				g.Grid[d] -= r.Intn(g.WG[d])
			}
		}
		if g.n() > maxElems {
			continue
		}
		return g
	}
	// fallback that fits any budget >= 4
	g := geometry{Grid: [3]int{2, 2, 1}, WG: [3]int{2, 2, 1}}
	if maxElems < 4 {
		g = geometry{Grid: [3]int{1, 1, 1}, WG: [3]int{1, 1, 1}}
	}
	return g
}
