package main

import (
	"crypto/sha256"
	"encoding/hex"
	"encoding/json"
	"fmt"
	"os"
	"sort"
	"strconv"
	"strings"
	"time"

	"github.com/sarchlab/akita/v4/sim"
	"github.com/sarchlab/mgpusim/v4/amd/driver"

	"verifharness/vlib"
	"verifharness/vlib/kern"
	"verifharness/vlib/plat"
)

// End-to-end part of C18: the same integer program on one GPU, on a unified
// multi-GPU device and on several plain GPUs with the buffers distributed over
// their memories, in emulation and on the r9nano timing platform. Every output
// element is produced by the same instruction sequence in all placements, so
// the final buffers must be bit-identical to the single-GPU run.

type e2eStep struct {
	Op kern.Op `json:"op"`
	C  uint32  `json:"c"`
}

type e2eProgram struct {
	ID     string    `json:"id"`
	N      int       `json:"n"`      // elements (uint32); any size: partial last work-group allowed
	Steps  []e2eStep `json:"steps"`  // element-wise kernels on buffer A over the whole grid
	CopyN  int       `json:"copy_n"` // bytes copied A -> B with the driver's device-to-device copy kernel
	Seed   uint64    `json:"seed"`
	Timing bool      `json:"timing"`
	GPU    string    `json:"gpu,omitempty"` // timing: "" = r9nano, "mi300a"
	Geo    *geometry `json:"geo,omitempty"` // launch geometry: the steps run geomKernel over a 1/2/3-D grid of N = product work-items instead of kern.ElemKernel over a 1-D grid
}

type e2ePlacement struct {
	Name    string `json:"name"`
	NumGPUs int    `json:"num_gpus"`
	Unified []int  `json:"unified,omitempty"`    // create a unified device over these GPUs and run there
	Spread  []int  `json:"distribute,omitempty"` // Distribute the buffers over these GPUs, launch on GPU 1
	Split   bool   `json:"host_split,omitempty"` // geometry programs: the host splits every launch into slabs of work-groups, one per GPU of Spread
}

// geoPlacements: placements of the programs with a launch geometry. Unified
// devices of 2, 3 and 4 members (and one made of GPUs 2-3 of 4, one with the
// members in another order) and plain platforms where the host splits the grid.
func geoPlacements(timing bool, thorough bool) []e2ePlacement {
	ps := []e2ePlacement{
		{Name: "1gpu", NumGPUs: 1},
		{Name: "unified-1-2-3", NumGPUs: 3, Unified: []int{1, 2, 3}},
		{Name: "unified-1-2-3-4", NumGPUs: 4, Unified: []int{1, 2, 3, 4}},
		{Name: "plain-3-host-split", NumGPUs: 3, Spread: []int{1, 2, 3}, Split: true},
	}
	if !timing || thorough {
		ps = append(ps,
			e2ePlacement{Name: "unified-2-3-of-4", NumGPUs: 4, Unified: []int{2, 3}},
			e2ePlacement{Name: "unified-1-2", NumGPUs: 2, Unified: []int{1, 2}},
			e2ePlacement{Name: "unified-4-2-1-of-4", NumGPUs: 4, Unified: []int{4, 2, 1}},
			e2ePlacement{Name: "plain-2-host-split", NumGPUs: 2, Spread: []int{1, 2}, Split: true},
			e2ePlacement{Name: "plain-4-host-split", NumGPUs: 4, Spread: []int{1, 2, 3, 4}, Split: true},
		)
	}
	return ps
}

func placements(timing bool, thorough bool) []e2ePlacement {
	ps := []e2ePlacement{
		{Name: "1gpu", NumGPUs: 1},
		{Name: "unified-1-2", NumGPUs: 2, Unified: []int{1, 2}},
		{Name: "plain-2-distributed", NumGPUs: 2, Spread: []int{1, 2}},
	}
	if !timing || thorough {
		ps = append(ps,
			e2ePlacement{Name: "unified-1-2-3-4", NumGPUs: 4, Unified: []int{1, 2, 3, 4}},
			e2ePlacement{Name: "plain-4-distributed", NumGPUs: 4, Spread: []int{1, 2, 3, 4}},
			e2ePlacement{Name: "unified-2-3-of-4", NumGPUs: 4, Unified: []int{2, 3}},
		)
	}
	return ps
}

func genProgram(r *vlib.PRNG, id string, timing bool) e2eProgram {
	p := e2eProgram{ID: id, Seed: r.Uint64(), Timing: timing}
	// work-group size is 64; every GPU has 64 CUs in both shipped platforms.
	// Mix: arbitrary sizes, sizes whose work-group count is k*(#CUs of 2 or 4
	// GPUs) + {0,1} with a partial last group, tiny sizes, page-boundary sizes.
	switch r.Intn(6) {
	case 0:
		p.N = 1 + r.Intn(300)
	case 1:
		k := 1 + r.Intn(2)
		cus := []int{64, 128, 256}[r.Intn(3)]
		p.N = 64*k*cus + r.Intn(64) // truncated count is a multiple of the CU count, maybe a partial group on top
	case 2:
		p.N = 1024*(1+r.Intn(6)) + []int{-1, 0, 1, 3}[r.Intn(4)]
	default:
		p.N = 1 + r.Intn(20000)
	}
	if timing && p.N > 9000 {
		p.N = 64*128 + r.Intn(64) + 1 // 8193..8256: 129 work-groups on 128 CUs of two GPUs
	}
	ns := 1 + r.Intn(3)
	for i := 0; i < ns; i++ {
		p.Steps = append(p.Steps, e2eStep{Op: kern.Op(r.Intn(3)), C: 1 + 2*uint32(r.Intn(5000))})
	}
	switch r.Intn(3) {
	case 0:
		p.CopyN = 4 * p.N
	case 1:
		p.CopyN = 1 + r.Intn(4*p.N)
	default:
		p.CopyN = 4 * p.N / 256 * 256
		if p.CopyN == 0 {
			p.CopyN = 4 * p.N
		}
	}
	return p
}

// genGeoProgram: a program whose kernels are launched with a 1/2/3-D grid.
func genGeoProgram(r *vlib.PRNG, id string, timing bool) e2eProgram {
	p := e2eProgram{ID: id, Seed: r.Uint64(), Timing: timing}
	maxElems, maxWGs := 60000, 1500
	if timing {
		maxElems, maxWGs = 30000, 450
	}
	g := genGeometry(r, maxElems, maxWGs)
	p.Geo = &g
	p.N = g.n()
	ns := 1 + r.Intn(2)
	for i := 0; i < ns; i++ {
		// add and mul show a work-item that ran twice; xor shows one that never ran
		p.Steps = append(p.Steps, e2eStep{Op: kern.Op(r.Intn(3)), C: 1 + 2*uint32(r.Intn(5000))})
	}
	p.CopyN = 4 * p.N
	if r.Bool() {
		p.CopyN = 1 + r.Intn(4*p.N)
	}
	return p
}

type e2eResult struct {
	HashA   string   `json:"hash_a"`
	HashB   string   `json:"hash_b"`
	FirstA  []uint32 `json:"first_a"`
	DiffIdx int      `json:"-"`
	A       []uint32 `json:"-"`
	B       []uint32 `json:"-"`
}

func e2eChild() {
	// args: e2e <program json> <placement json>
	var prog e2eProgram
	var pl e2ePlacement
	if err := json.Unmarshal([]byte(os.Args[2]), &prog); err != nil {
		panic(err)
	}
	if err := json.Unmarshal([]byte(os.Args[3]), &pl); err != nil {
		panic(err)
	}
	rec := vlib.ChildRec()
	sim.GetIDGenerator()
	p := plat.Build(plat.Config{Timing: prog.Timing, GPUType: prog.GPU, NumGPUs: pl.NumGPUs})
	var rdmaCnt *rdmaCounter
	if prog.Timing {
		rdmaCnt = watchRDMA(p)
	}
	d := p.Driver
	d.Run()
	ctx := d.Init()
	dev := 1
	if len(pl.Unified) > 0 {
		dev = d.CreateUnifiedGPU(ctx, pl.Unified)
	}
	d.SelectGPU(ctx, dev)
	n := prog.N
	bufA := d.AllocateMemory(ctx, uint64(4*n))
	bufB := d.AllocateMemory(ctx, uint64(4*n))
	if len(pl.Spread) > 0 {
		d.Distribute(ctx, bufA, uint64(4*n), pl.Spread)
		d.Distribute(ctx, bufB, uint64(4*n), pl.Spread)
	}
	host := make([]uint32, n)
	r := vlib.NewPRNG(prog.Seed)
	for i := range host {
		host[i] = r.Uint32()
	}
	fill := make([]uint32, n)
	for i := range fill {
		fill[i] = 0xdeadbeef
	}
	d.MemCopyH2D(ctx, bufA, host)
	d.MemCopyH2D(ctx, bufB, fill)
	q := d.CreateCommandQueue(ctx)
	switch {
	case prog.Geo == nil:
		for _, st := range prog.Steps {
			args := kern.ElemArgs{Buf: bufA, C: st.C}
			d.EnqueueLaunchKernel(q, kern.ElemKernel(st.Op), [3]uint32{uint32(n), 1, 1}, [3]uint16{64, 1, 1}, &args)
		}
		d.DrainCommandQueue(q)
	case !pl.Split:
		g := *prog.Geo
		for _, st := range prog.Steps {
			args := g.args(bufA, st.C)
			d.EnqueueLaunchKernel(q, geomKernel(st.Op), u32x3(g.Grid), u16x3(g.WG), &args)
		}
		d.DrainCommandQueue(q)
	default:
		// the host splits every launch into slabs of work-groups, one per GPU
		g := *prog.Geo
		qs := make([]*driver.CommandQueue, len(pl.Spread))
		for i, gpu := range pl.Spread {
			d.SelectGPU(ctx, gpu)
			qs[i] = d.CreateCommandQueue(ctx)
		}
		parts := g.hostSplit(len(pl.Spread))
		// every step is drained before the next; slab k of step s runs on GPU
		// (k+s) mod #GPUs, so each step consumes what another GPU produced in
		// the step before (no host copy in between)
		for si, st := range prog.Steps {
			for _, part := range parts {
				args := g.args(bufA+driver.Ptr(4*part.ElemOffset), st.C)
				d.EnqueueLaunchKernel(qs[(part.Part+si)%len(qs)], geomKernel(st.Op), u32x3(part.Grid), u16x3(g.WG), &args)
			}
			for i := range qs {
				d.DrainCommandQueue(qs[i])
			}
		}
		d.SelectGPU(ctx, 1)
	}
	if prog.CopyN > 0 {
		d.MemCopyD2D(ctx, bufB, bufA, prog.CopyN)
	}
	outA := make([]uint32, n)
	outB := make([]uint32, n)
	d.MemCopyD2H(ctx, outA, bufA)
	d.MemCopyD2H(ctx, outB, bufB)
	rec.Note("result", map[string]any{"a": outA, "b": outB})
	if rdmaCnt != nil {
		rec.Note("rdma", rdmaCnt.snapshot())
	}
	rec.Note("done", true)
	os.Exit(0)
}

func hashU32(v []uint32) string {
	h := sha256.New()
	b := make([]byte, 4)
	for _, x := range v {
		b[0], b[1], b[2], b[3] = byte(x), byte(x>>8), byte(x>>16), byte(x>>24)
		h.Write(b)
	}
	return hex.EncodeToString(h.Sum(nil))[:16]
}

func toU32(v any) []uint32 {
	arr, _ := v.([]any)
	out := make([]uint32, len(arr))
	for i, x := range arr {
		f, _ := x.(float64)
		out[i] = uint32(f)
	}
	return out
}

// hostReference computes the expected buffers on the host.
func hostReference(prog e2eProgram) (a, b []uint32) {
	r := vlib.NewPRNG(prog.Seed)
	a = make([]uint32, prog.N)
	for i := range a {
		a[i] = r.Uint32()
	}
	for _, st := range prog.Steps {
		for i := range a {
			a[i] = st.Op.Apply(a[i], st.C)
		}
	}
	b = make([]uint32, prog.N)
	for i := range b {
		b[i] = 0xdeadbeef
	}
	// the driver's copy kernel copies ceil(bytes/4) dwords
	words := (prog.CopyN + 3) / 4
	for i := 0; i < words && i < prog.N; i++ {
		b[i] = a[i]
	}
	return a, b
}

func runE2E(c *vlib.Check) {
	if err := checkGeomKernel(); err != nil {
		c.Inconclusive("harness self-check: " + err.Error())
		return
	}
	if err := checkGatherKernel(); err != nil {
		c.Inconclusive("harness self-check: " + err.Error())
		return
	}
	if err := checkCDNA3Decoding(); err != nil {
		c.Inconclusive("harness self-check: " + err.Error())
		return
	}
	scratch, cleanup := vlib.Scratch("c18e2e")
	defer cleanup()
	type job struct {
		prog e2eProgram
		pl   e2ePlacement
		res  *e2eResult
		rdma map[int]int64
		fail string
	}
	var jobs []*job
	base := c.Rand("e2e")
	nEmu, nTim := c.N(14, 120), c.N(3, 40)
	var progs []e2eProgram
	// canonical programs (seed independent)
	progs = append(progs,
		e2eProgram{ID: "canon-129-groups-on-128-cus", N: 64*128 + 8, Steps: []e2eStep{{kern.OpAdd, 3}}, CopyN: 4 * (64*128 + 8), Seed: 7},
		e2eProgram{ID: "canon-257-groups-on-256-cus", N: 64*256 + 1, Steps: []e2eStep{{kern.OpXor, 0x55}, {kern.OpMul, 3}}, CopyN: 4*(64*256+1) - 3, Seed: 8},
		e2eProgram{ID: "canon-tiny-5-elements", N: 5, Steps: []e2eStep{{kern.OpMul, 7}}, CopyN: 20, Seed: 9},
		e2eProgram{ID: "canon-129-groups-timing", N: 64*128 + 8, Steps: []e2eStep{{kern.OpAdd, 3}}, CopyN: 4 * (64*128 + 8), Seed: 7, Timing: true},
	)
	for i := 0; i < nEmu; i++ {
		progs = append(progs, genProgram(base.ForkN("emu", i), fmt.Sprintf("emu-%d", i), false))
	}
	for i := 0; i < nTim; i++ {
		progs = append(progs, genProgram(base.ForkN("timing", i), fmt.Sprintf("timing-%d", i), true))
	}
	// programs with a launch geometry (seed independent ones first)
	geo := func(id string, timing bool, seed uint64, g geometry, steps ...e2eStep) e2eProgram {
		return e2eProgram{ID: id, N: g.n(), Steps: steps, CopyN: 4 * g.n(), Seed: seed, Timing: timing, Geo: &g}
	}
	progs = append(progs,
		// 200 x 2 work-groups: on a unified device of four GPUs the shares are [0,128) [128,256) [256,384) [384,400), the second wraps around the end of row 0
		geo("canon-geo-200x2-groups-of-8x8", false, 21, geometry{Grid: [3]int{1600, 16, 1}, WG: [3]int{8, 8, 1}}, e2eStep{kern.OpAdd, 5}),
		geo("canon-geo-200x2-groups-of-4x4-timing", true, 22, geometry{Grid: [3]int{800, 8, 1}, WG: [3]int{4, 4, 1}}, e2eStep{kern.OpAdd, 5}),
		// 150 x 3 work-groups, partial last groups in x and y: shares of 128 (4 members) / 192 (3 members) against rows of 150
		geo("canon-geo-150x3-groups-partial", false, 23, geometry{Grid: [3]int{150*16 - 5, 3*4 - 1, 1}, WG: [3]int{16, 4, 1}}, e2eStep{kern.OpMul, 3}, e2eStep{kern.OpAdd, 9}),
		// 3-D: 100 x 1 x 2 work-groups (2 rows through z), and 70 x 2 x 2
		geo("canon-geo-3d-100x1x2-groups", false, 24, geometry{Grid: [3]int{400, 4, 7}, WG: [3]int{4, 4, 4}}, e2eStep{kern.OpAdd, 77}),
		geo("canon-geo-3d-70x2x2-groups", false, 25, geometry{Grid: [3]int{70*8 - 3, 8, 4}, WG: [3]int{8, 4, 2}}, e2eStep{kern.OpXor, 0x5a5a}, e2eStep{kern.OpAdd, 1}),
		// tall grids: 3 x 40 work-groups, and 2 x 9 x 7 in 3-D (more rows than work-groups per row)
		geo("canon-geo-3x40-groups", false, 27, geometry{Grid: [3]int{12, 159, 1}, WG: [3]int{4, 4, 1}}, e2eStep{kern.OpAdd, 13}),
		geo("canon-geo-3d-2x9x7-groups", false, 28, geometry{Grid: [3]int{16, 35, 14}, WG: [3]int{8, 4, 2}}, e2eStep{kern.OpAdd, 15}),
		// one row of 200 work-groups launched as a 2-D grid
		geo("canon-geo-200x1-groups", false, 26, geometry{Grid: [3]int{3200, 4, 1}, WG: [3]int{16, 4, 1}}, e2eStep{kern.OpAdd, 11}),
	)
	// the mi300a timing platform (CDNA3 decoding and ALUs, 120 CUs per GPU): few small programs
	mi := func(p e2eProgram) e2eProgram { p.Timing, p.GPU = true, "mi300a"; return p }
	progs = append(progs,
		mi(e2eProgram{ID: "canon-241-groups-mi300a", N: 64*240 + 8, Steps: []e2eStep{{kern.OpAdd, 3}, {kern.OpMul, 5}}, CopyN: 4 * (64*240 + 8), Seed: 31}),
		// 130 x 2 work-groups of 4x4: 260 work-groups on 2 x 120 CUs; the host-split placement hands every slab to the other GPU in the second step
		mi(geo("canon-geo-130x2-groups-of-4x4-mi300a", true, 32, geometry{Grid: [3]int{520, 8, 1}, WG: [3]int{4, 4, 1}}, e2eStep{kern.OpAdd, 5}, e2eStep{kern.OpMul, 7})),
		mi(geo("canon-geo-3d-50x2x2-groups-mi300a", true, 33, geometry{Grid: [3]int{200, 8, 4}, WG: [3]int{4, 4, 2}}, e2eStep{kern.OpXor, 0x33}, e2eStep{kern.OpAdd, 7}, e2eStep{kern.OpMul, 3})),
	)
	for i := 0; i < c.N(0, 6); i++ {
		p := genGeoProgram(base.ForkN("geo-mi300a", i), fmt.Sprintf("geo-mi300a-%d", i), true)
		progs = append(progs, mi(p))
	}
	nGeoEmu, nGeoTim := c.N(12, 150), c.N(2, 16)
	for i := 0; i < nGeoEmu; i++ {
		progs = append(progs, genGeoProgram(base.ForkN("geo-emu", i), fmt.Sprintf("geo-emu-%d", i), false))
	}
	for i := 0; i < nGeoTim; i++ {
		progs = append(progs, genGeoProgram(base.ForkN("geo-timing", i), fmt.Sprintf("geo-timing-%d", i), true))
	}
	geoSerial := 0
	for _, pg := range progs {
		pls := placements(pg.Timing, c.Thorough())
		if pg.GPU == "mi300a" {
			pls = []e2ePlacement{{Name: "1gpu", NumGPUs: 1}, {Name: "unified-1-2", NumGPUs: 2, Unified: []int{1, 2}}}
			if pg.Geo != nil {
				pls = append(pls, e2ePlacement{Name: "plain-2-host-split", NumGPUs: 2, Spread: []int{1, 2}, Split: true})
			} else {
				pls = append(pls, e2ePlacement{Name: "plain-2-distributed", NumGPUs: 2, Spread: []int{1, 2}})
			}
		} else if pg.Geo != nil {
			pls = geoPlacements(pg.Timing, c.Thorough())
			if !c.Thorough() && !pg.Timing && !strings.HasPrefix(pg.ID, "canon") && len(pls) > 6 {
				// quick tier: generated programs run the first five placements and one of the others in turn
				k := 5 + geoSerial%(len(pls)-5)
				pls = append(append([]e2ePlacement{}, pls[:5]...), pls[k])
				geoSerial++
			}
		}
		for _, pl := range pls {
			jobs = append(jobs, &job{prog: pg, pl: pl})
		}
	}
	// slow jobs (timing, many GPUs) first
	sort.SliceStable(jobs, func(a, b int) bool {
		w := func(j *job) int {
			if j.prog.GPU == "mi300a" {
				return 10 + j.pl.NumGPUs
			}
			if j.prog.Timing {
				return j.pl.NumGPUs
			}
			return 0
		}
		return w(jobs[a]) > w(jobs[b])
	})
	vlib.Parallel(len(jobs), 12, func(i int) {
		j := jobs[i]
		pj, _ := json.Marshal(j.prog)
		lj, _ := json.Marshal(j.pl)
		res := vlib.RunChild(scratch, 20*time.Minute, []string{"GOMAXPROCS=2"}, "e2e", string(pj), string(lj))
		notes := c.AbsorbFile(res.RecPath)
		if r, ok := notes["result"]; ok && len(r) > 0 {
			m, _ := r[0].(map[string]any)
			er := &e2eResult{A: toU32(m["a"]), B: toU32(m["b"])}
			er.HashA, er.HashB = hashU32(er.A), hashU32(er.B)
			j.res = er
			if r := notes["rdma"]; len(r) > 0 {
				j.rdma = rdmaFromNote(r[0])
			}
		} else if res.TimedOut {
			j.fail = "watchdog"
		} else {
			j.fail = "crash: " + firstPanicLine(vlib.Tail(res.OutPath, 4000))
		}
		_ = os.RemoveAll(res.Dir)
	})
	// judge: every placement against the host reference and the 1-GPU run
	byProg := map[string][]*job{}
	for _, j := range jobs {
		byProg[j.prog.ID] = append(byProg[j.prog.ID], j)
	}
	for _, pg := range progs {
		js := byProg[pg.ID]
		refA, refB := hostReference(pg)
		var single *job
		for _, j := range js {
			if j.pl.Name == "1gpu" {
				single = j
			}
		}
		mode := modeOf(pg.Timing, pg.GPU, false)
		for _, j := range js {
			c.Eval()
			c.Count("e2e_runs", 1)
			c.Distinct("e2e_placement", mode+"/"+j.pl.Name)
			wit := map[string]any{"program": j.prog, "placement": j.pl}
			if j.fail == "watchdog" {
				c.Inconclusive(fmt.Sprintf("e2e %s on %s/%s: watchdog fired", pg.ID, mode, j.pl.Name))
				continue
			}
			if j.res == nil {
				wit["failure"] = j.fail
				c.Violation(fmt.Sprintf("C18|e2e|%s|%s|crash", mode, j.pl.Name),
					fmt.Sprintf("program %s (n=%d) crashes on placement %s/%s: %s", pg.ID, pg.N, mode, j.pl.Name, j.fail), wit)
				continue
			}
			c.Count("e2e_elements_compared", int64(2*pg.N))
			cmp := func(buf string, got, want []uint32, wantName string) bool {
				for i := range want {
					if got[i] != want[i] {
						wit["buffer"], wit["index"], wit["got"], wit["want"] = buf, i, got[i], want[i]
						suffix, extra := "", ""
						if pg.Geo != nil {
							// which elements differ, and were they processed 0 or 2 times?
							bad := 0
							for k := range want {
								if got[k] != want[k] {
									bad++
								}
							}
							cls := "other-value"
							if buf == "A" {
								cls = classifyTimesProcessed(pg, i, got[i])
							}
							wg := pg.Geo.wgOfElement(i % pg.N)
							suffix = fmt.Sprintf("|grid-%dd|%s", pg.Geo.dims(), cls)
							extra = fmt.Sprintf("; %s; %d elements differ, the first belongs to work-group %d (flattened id) of %d; %s", pg.Geo, bad, wg, pg.Geo.totalWGs(), cls)
							wit["differing_elements"], wit["work_group_of_first"], wit["class"] = bad, wg, cls
							if len(j.pl.Unified) > 0 {
								per := unifiedShare(pg.Geo.totalWGs(), len(j.pl.Unified), cusOf(pg.GPU))
								wit["unified_share_size"], wit["member_index_of_first"] = per, wg/per
								extra += fmt.Sprintf(" (share of member %d of the unified device, shares of %d work-groups)", wg/per, per)
							}
						}
						if pg.Timing && j.pl.NumGPUs > 1 && j.rdma != nil && pg.N >= 2048 {
							launching := []int{1}
							if len(j.pl.Unified) > 0 {
								launching = j.pl.Unified
							} else if j.pl.Split {
								launching = j.pl.Spread
							}
							for _, g := range launching {
								if j.rdma[g] == 0 {
									wit["rdma_forwarded_requests_per_gpu"] = j.rdma
									c.Violation(fmt.Sprintf("C18|e2e|%s|remote-access-not-forwarded", mode),
										fmt.Sprintf("program %s on %s/%s: GPU %d runs kernels over buffers spread page-wise over the GPUs, its RDMA engine forwarded no request at all, and the final data differ (forwarded requests per GPU: %v)", pg.ID, mode, j.pl.Name, g, j.rdma), wit)
								}
							}
						}
						c.Violation(fmt.Sprintf("C18|e2e|%s|%s|differs-from-%s|buffer-%s%s", mode, j.pl.Name, wantName, buf, suffix),
							fmt.Sprintf("program %s (n=%d, copy %d bytes): buffer %s element %d = 0x%08x on %s/%s, %s gives 0x%08x%s",
								pg.ID, pg.N, pg.CopyN, buf, i, got[i], mode, j.pl.Name, wantName, want[i], extra), wit)
						return false
					}
				}
				return true
			}
			ok := true
			if single != nil && single.res != nil && j != single {
				ok = cmp("A", j.res.A, single.res.A, "single-gpu-run") && cmp("B", j.res.B, single.res.B, "single-gpu-run")
			}
			if ok {
				ok = cmp("A", j.res.A, refA, "host-reference") && cmp("B", j.res.B, refB, "host-reference")
			}
			if ok && j.pl.Name != "1gpu" && j.rdma != nil {
				for g, n := range j.rdma {
					c.Count(fmt.Sprintf("rdma_forwarded_requests|%s|from-gpu%d", mode, g), n)
				}
				if pg.GPU == "mi300a" {
					c.Count("e2e_mi300a_multi_gpu_runs", 1)
				}
				if j.pl.Split && len(pg.Steps) > 1 {
					c.Count("e2e_host_split_steps_consuming_another_gpus_output|"+mode, int64(len(pg.Steps)-1))
				}
			}
			if ok && j.pl.Name != "1gpu" && pg.Geo != nil {
				g := *pg.Geo
				c.Nontrivial("e2e/" + pg.ID + "/" + mode + "/" + j.pl.Name)
				c.Count("e2e_multi_gpu_runs_equal_to_single", 1)
				launches := int64(len(pg.Steps))
				c.Count(fmt.Sprintf("geom_launches_%dd", g.dims()), launches)
				if g.partial() {
					c.Count("geom_launches_with_partial_work_groups", launches)
				}
				if m := len(j.pl.Unified); m > 0 {
					rowsLt, wraps, idle := g.unifiedFacts(m, cusOf(pg.GPU))
					c.Count("geom_unified_launches|"+mode, launches)
					c.Distinct("geom_unified_members", fmt.Sprint(m))
					if rowsLt {
						c.Count("geom_unified_launches_with_fewer_wg_rows_than_members|"+mode, launches)
					}
					if wraps {
						c.Count("geom_unified_launches_with_a_share_wrapping_a_row_end|"+mode, launches)
					}
					if idle {
						c.Count("geom_unified_launches_with_an_idle_member", launches)
					}
				} else if j.pl.Split {
					c.Count("geom_host_split_launches|"+mode, launches*int64(len(g.hostSplit(len(j.pl.Spread)))))
				}
			} else if ok && j.pl.Name != "1gpu" {
				groups := (pg.N + 63) / 64
				if pg.N%64 != 0 || groups%64 == 1 {
					c.Nontrivial("e2e/" + pg.ID + "/" + mode + "/" + j.pl.Name)
				}
				c.Count("e2e_multi_gpu_runs_equal_to_single", 1)
			}
		}
		c.Sample(map[string]any{"e2e_program": pg})
	}
}

// classifyTimesProcessed explains a differing element of buffer A of a
// geometry program: which value results when some step processed it 0 or 2
// times instead of once.
func classifyTimesProcessed(pg e2eProgram, i int, got uint32) string {
	r := vlib.NewPRNG(pg.Seed)
	var x uint32
	for k := 0; k <= i; k++ {
		x = r.Uint32()
	}
	n := len(pg.Steps)
	total := 1
	for k := 0; k < n; k++ {
		total *= 3
	}
	for code := 0; code < total; code++ {
		v, cc := x, code
		zero, two := false, false
		for _, st := range pg.Steps {
			t := cc % 3 // 0: once, 1: never, 2: twice
			cc /= 3
			switch t {
			case 0:
				v = st.Op.Apply(v, st.C)
			case 1:
				zero = true
			case 2:
				v = st.Op.Apply(st.Op.Apply(v, st.C), st.C)
				two = true
			}
		}
		if v == got && (zero || two) {
			switch {
			case zero && two:
				return "element-not-processed-by-one-launch-and-twice-by-another"
			case zero:
				return "element-not-processed"
			default:
				return "element-processed-twice"
			}
		}
	}
	return "other-value"
}

func firstPanicLine(s string) string {
	lines := splitLines(s)
	for _, l := range lines {
		if containsAny(l, "panic:", "Panic:", "fatal error:") {
			if len(l) > 300 {
				l = l[:300]
			}
			return l
		}
	}
	if len(s) > 300 {
		s = s[len(s)-300:]
	}
	return s
}

func splitLines(s string) []string {
	var out []string
	cur := ""
	for _, ch := range s {
		if ch == '\n' {
			out = append(out, cur)
			cur = ""
		} else {
			cur += string(ch)
		}
	}
	return append(out, cur)
}

func containsAny(s string, subs ...string) bool {
	for _, x := range subs {
		for i := 0; i+len(x) <= len(s); i++ {
			if s[i:i+len(x)] == x {
				return true
			}
		}
	}
	return false
}

var _ = strconv.Itoa
var _ driver.Ptr
