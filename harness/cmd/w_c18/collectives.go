package main

import (
	"encoding/json"
	"fmt"
	"math"
	"os"
	"time"

	"github.com/sarchlab/akita/v4/sim"
	"github.com/sarchlab/mgpusim/v4/amd/benchmarks/mccl"
	"github.com/sarchlab/mgpusim/v4/amd/driver"

	"verifharness/vlib"
	"verifharness/vlib/plat"
)

// Layer "collectives": the public collective operations of amd/benchmarks/mccl
// (AllReduceRing = element-wise average over the GPUs' buffers, BroadcastRing)
// on 2, 3 and 4 GPUs. The inputs are small integer multiples of 12, so sums
// and the division by 2, 3 or 4 are exact: every GPU's result must equal the
// host result bit for bit, whatever the element count, the staging buffer
// size and the number of GPUs. Every buffer carries guard elements behind the
// element count; an operation over n elements must not change them.

const collGuard = 8

type collCase struct {
	ID      string `json:"id"`
	Op      string `json:"op"` // allreduce | broadcast
	NumGPU  int    `json:"num_gpu"`
	N       int    `json:"n"`
	BufSize int    `json:"buf_size,omitempty"` // allreduce: elements per staging buffer
	Root    int    `json:"root,omitempty"`     // broadcast
	Seed    uint64 `json:"seed"`
}

func collInput(seed uint64, gpu, j int) float32 {
	x := seed + uint64(gpu)*0x9e3779b97f4a7c15 + uint64(j)*0xbf58476d1ce4e5b9
	x ^= x >> 31
	x *= 0x94d049bb133111eb
	x ^= x >> 29
	return float32(12 * (int(x%41) - 20))
}

func collDataGuard(gpu, k int) float32 { return float32(100000 + 1000*gpu + k) }
func collBufFill(gpu, k int) float32   { return float32(-(200000 + 1000*gpu + k%997)) }

func collChild() {
	var cases []collCase
	if err := json.Unmarshal([]byte(os.Args[2]), &cases); err != nil {
		panic(err)
	}
	timing := os.Args[3] == "timing"
	rec := vlib.ChildRec()
	sim.GetIDGenerator()
	numGPU := cases[0].NumGPU
	p := plat.Build(plat.Config{Timing: timing, NumGPUs: numGPU})
	d := p.Driver
	d.Run()
	for ci, tc := range cases {
		rec.Note("started", ci)
		ctx := d.Init()
		gpuIDs := make([]int, tc.NumGPU)
		datas := make([]driver.Ptr, tc.NumGPU)
		bufs := make([]driver.Ptr, tc.NumGPU)
		for g := 0; g < tc.NumGPU; g++ {
			gpuIDs[g] = g + 1
			host := make([]float32, tc.N+collGuard)
			for j := 0; j < tc.N; j++ {
				host[j] = collInput(tc.Seed, g, j)
				if tc.Op == "broadcast" && g != tc.Root {
					host[j] = -7 - float32(g)
				}
			}
			for k := 0; k < collGuard; k++ {
				host[tc.N+k] = collDataGuard(g, k)
			}
			d.SelectGPU(ctx, g+1)
			datas[g] = d.AllocateMemory(ctx, uint64(4*len(host)))
			d.MemCopyH2D(ctx, datas[g], host)
			if tc.Op == "allreduce" {
				hb := make([]float32, tc.BufSize+collGuard)
				for k := range hb {
					hb[k] = collBufFill(g, k)
				}
				bufs[g] = d.AllocateMemory(ctx, uint64(4*len(hb)))
				d.MemCopyH2D(ctx, bufs[g], hb)
			}
		}
		comms := mccl.CommInitAll(tc.NumGPU, d, ctx, gpuIDs)
		if tc.Op == "allreduce" {
			mccl.AllReduceRing(d, comms, datas, tc.N, bufs, tc.BufSize)
		} else {
			mccl.BroadcastRing(d, comms, gpuIDs[tc.Root], datas, tc.N) // the root is named by its GPU id
		}
		res := map[string]any{"case": ci}
		var outs, guards []string
		for g := 0; g < tc.NumGPU; g++ {
			out := make([]float32, tc.N+collGuard)
			d.SelectGPU(ctx, g+1)
			d.MemCopyD2H(ctx, out, datas[g])
			bits := make([]uint32, len(out))
			for i, f := range out {
				bits[i] = math.Float32bits(f)
			}
			outs = append(outs, encodeU32(bits))
			if tc.Op == "allreduce" {
				gb := make([]float32, collGuard)
				d.MemCopyD2H(ctx, gb, bufs[g]+driver.Ptr(4*tc.BufSize))
				gbits := make([]uint32, collGuard)
				for i, f := range gb {
					gbits[i] = math.Float32bits(f)
				}
				guards = append(guards, encodeU32(gbits))
			}
		}
		res["data"], res["buf_guards"] = outs, guards
		rec.Note("result", res)
	}
	rec.Note("done", true)
	os.Exit(0)
}

func collCases(c *vlib.Check) (batches [][]collCase, timingBatch []collCase) {
	r := c.Rand("collectives")
	for _, g := range []int{2, 3, 4} {
		var b []collCase
		add := func(n, buf int) {
			if n < 1 {
				return
			}
			b = append(b, collCase{ID: fmt.Sprintf("allreduce-%dgpus-n%d-buf%d", g, n, buf), Op: "allreduce", NumGPU: g, N: n, BufSize: buf, Seed: uint64(1000*g + n + buf)})
		}
		// canonical: small counts around the GPU count, counts around 1000 and 1024, counts around the staging buffer size
		for _, n := range []int{1, 2, 3, g - 1, g, g + 1, 1000, 1001, 1002, 1023, 1024, 1025, 1026} {
			add(n, 4096)
		}
		for _, buf := range []int{512, 1000} {
			for _, n := range []int{buf - 1, buf, buf + 1, 2*buf + 3, 1030} {
				add(n, buf)
			}
		}
		add(7, 4) // several staged blocks of 4 elements and a tail of 3
		add(5, 8)
		for i := 0; i < c.N(4, 40); i++ {
			buf := []int{16, 100, 512, 777, 2048}[r.Intn(5)]
			add(1+r.Intn(3*buf), buf)
		}
		for _, n := range []int{1, 3, 4095, 4096, 4097, 8195} {
			for _, root := range []int{0, g - 1} {
				b = append(b, collCase{ID: fmt.Sprintf("broadcast-%dgpus-n%d-root%d", g, n, root), Op: "broadcast", NumGPU: g, N: n, Root: root, Seed: uint64(n + root)})
			}
		}
		batches = append(batches, b)
	}
	timingBatch = []collCase{
		{ID: "allreduce-2gpus-n1001-buf512-timing", Op: "allreduce", NumGPU: 2, N: 1001, BufSize: 512, Seed: 5},
		{ID: "broadcast-2gpus-n4097-root1-timing", Op: "broadcast", NumGPU: 2, N: 4097, Root: 1, Seed: 6},
	}
	return
}

func runCollectives(c *vlib.Check) {
	scratch, cleanup := vlib.Scratch("c18coll")
	defer cleanup()
	batches, timingBatch := collCases(c)
	type job struct {
		cases   []collCase
		timing  bool
		results map[int]map[string]any
		started int
		done    bool
		fail    string
	}
	var jobs []*job
	// split the emulation batches so that a crash costs few cases and the children run in parallel
	for _, b := range batches {
		for i := 0; i < len(b); i += 12 {
			e := i + 12
			if e > len(b) {
				e = len(b)
			}
			jobs = append(jobs, &job{cases: b[i:e]})
		}
	}
	jobs = append(jobs, &job{cases: timingBatch, timing: true})
	vlib.Parallel(len(jobs), 12, func(i int) {
		j := jobs[i]
		cj, _ := json.Marshal(j.cases)
		mode := "emu"
		if j.timing {
			mode = "timing"
		}
		res := vlib.RunChild(scratch, 10*time.Minute, []string{"GOMAXPROCS=2"}, "coll", string(cj), mode)
		notes := c.AbsorbFile(res.RecPath)
		j.results = map[int]map[string]any{}
		for _, r := range notes["result"] {
			m, _ := r.(map[string]any)
			f, _ := m["case"].(float64)
			j.results[int(f)] = m
		}
		j.started = len(notes["started"])
		if _, ok := notes["done"]; ok {
			j.done = true
		} else if res.TimedOut {
			j.fail = "watchdog"
		} else {
			j.fail = "crash: " + firstPanicLine(vlib.Tail(res.OutPath, 4000))
		}
		_ = os.RemoveAll(res.Dir)
	})
	strs := func(v any) []string {
		arr, _ := v.([]any)
		var out []string
		for _, x := range arr {
			s, _ := x.(string)
			out = append(out, s)
		}
		return out
	}
	for _, j := range jobs {
		mode := "emu"
		if j.timing {
			mode = "timing"
		}
		for ci, tc := range j.cases {
			wit := map[string]any{"case": tc, "mode": mode}
			res := j.results[ci]
			if res == nil {
				if j.fail == "watchdog" {
					c.Inconclusive("collectives: watchdog fired in the child running " + tc.ID)
					break
				}
				if ci == j.started-1 { // the case that was running when the child died
					wit["failure"] = j.fail
					c.Eval()
					c.Violation(fmt.Sprintf("C18|collective|%s|%dgpus|crash", tc.Op, tc.NumGPU),
						fmt.Sprintf("%s of %d elements on %d GPUs (%s, staging buffer %d) crashes: %s", tc.Op, tc.N, tc.NumGPU, mode, tc.BufSize, j.fail), wit)
				}
				continue // cases behind a crash were not run
			}
			c.Eval()
			c.Count("collective_runs|"+tc.Op, 1)
			if j.timing {
				c.Count("collective_timing_runs", 1)
			}
			c.Distinct("collective_gpus", fmt.Sprint(tc.NumGPU))
			ok, guardHit, bufGuardHit := true, false, false
			datas := strs(res["data"])
			for g := 0; g < tc.NumGPU && ok && g < len(datas); g++ {
				bits := decodeU32(datas[g])
				if len(bits) != tc.N+collGuard {
					ok = false
					c.Violation(fmt.Sprintf("C18|collective|%s|%dgpus|result-missing", tc.Op, tc.NumGPU), tc.ID+": buffer not returned", wit)
					break
				}
				for jx := 0; jx < tc.N; jx++ {
					var want float32
					if tc.Op == "allreduce" {
						for gg := 0; gg < tc.NumGPU; gg++ {
							want += collInput(tc.Seed, gg, jx)
						}
						want /= float32(tc.NumGPU)
					} else {
						want = collInput(tc.Seed, tc.Root, jx)
					}
					if bits[jx] == math.Float32bits(want) {
						continue
					}
					ok = false
					bad := 0
					for k := 0; k < tc.N; k++ {
						var w float32
						if tc.Op == "allreduce" {
							for gg := 0; gg < tc.NumGPU; gg++ {
								w += collInput(tc.Seed, gg, k)
							}
							w /= float32(tc.NumGPU)
						} else {
							w = collInput(tc.Seed, tc.Root, k)
						}
						if bits[k] != math.Float32bits(w) {
							bad++
						}
					}
					where := "body"
					blockLen, inBlock := tc.N, jx
					if tc.Op == "allreduce" {
						blockStart := jx / tc.BufSize * tc.BufSize
						blockLen = tc.BufSize
						if tc.N-blockStart < blockLen {
							blockLen = tc.N - blockStart
						}
						inBlock = jx - blockStart
					}
					if inBlock >= blockLen-tc.NumGPU {
						where = "tail"
					}
					got := math.Float32frombits(bits[jx])
					wit["gpu"], wit["element"], wit["got"], wit["want"], wit["differing_elements_on_this_gpu"] = g+1, jx, got, want, bad
					if tc.Op == "allreduce" {
						c.Violation(fmt.Sprintf("C18|collective|allreduce|%dgpus|element-differs-from-host-result|%s", tc.NumGPU, where),
							fmt.Sprintf("AllReduceRing of %d elements on %d GPUs (%s, staging buffers of %d elements): GPU %d element %d = %v, the average of the inputs is %v (%d elements of this GPU differ; element %d of %d of its staged block)",
								tc.N, tc.NumGPU, mode, tc.BufSize, g+1, jx, got, want, bad, inBlock, blockLen), wit)
					} else {
						c.Violation(fmt.Sprintf("C18|collective|broadcast|%dgpus|element-differs-from-root|%s", tc.NumGPU, where),
							fmt.Sprintf("BroadcastRing of %d elements from rank %d on %d GPUs (%s): GPU %d element %d = %v, the root holds %v (%d elements differ)", tc.N, tc.Root, tc.NumGPU, mode, g+1, jx, got, want, bad), wit)
					}
					break
				}
				for k := 0; k < collGuard && !guardHit; k++ {
					if bits[tc.N+k] != math.Float32bits(collDataGuard(g, k)) {
						guardHit = true
						wit["gpu"], wit["guard_index"], wit["got"] = g+1, k, math.Float32frombits(bits[tc.N+k])
						c.Violation(fmt.Sprintf("C18|collective|%s|%dgpus|writes-beyond-element-count|data-buffer", tc.Op, tc.NumGPU),
							fmt.Sprintf("%s of %d elements on %d GPUs (%s, staging buffers of %d elements): element %d of GPU %d's data buffer (behind the %d elements of the operation) changed from %v to %v",
								tc.Op, tc.N, tc.NumGPU, mode, tc.BufSize, tc.N+k, g+1, tc.N, collDataGuard(g, k), math.Float32frombits(bits[tc.N+k])), wit)
					}
				}
			}
			for g, s := range strs(res["buf_guards"]) {
				gb := decodeU32(s)
				for k := 0; k < len(gb) && !bufGuardHit; k++ {
					if gb[k] != math.Float32bits(collBufFill(g, tc.BufSize+k)) {
						bufGuardHit = true
						wit["gpu"], wit["guard_index"] = g+1, k
						c.Violation(fmt.Sprintf("C18|collective|%s|%dgpus|writes-beyond-element-count|staging-buffer", tc.Op, tc.NumGPU),
							fmt.Sprintf("%s of %d elements on %d GPUs (%s): element %d of GPU %d's staging buffer of %d elements was written", tc.Op, tc.N, tc.NumGPU, mode, tc.BufSize+k, g+1, tc.BufSize), wit)
					}
				}
			}
			if guardHit || bufGuardHit {
				c.Count("collective_runs_writing_beyond_the_element_count", 1)
			}
			if !ok || guardHit || bufGuardHit {
				continue
			}
			c.Count("collective_runs_equal_to_host_result", 1)
			c.Count("collective_elements_compared", int64(tc.N*tc.NumGPU))
			if tc.Op == "allreduce" {
				last := tc.N % tc.BufSize
				if last == 0 {
					last = tc.BufSize
				}
				if last%tc.NumGPU != 0 || (tc.N > tc.BufSize && tc.BufSize%tc.NumGPU != 0) {
					c.Count("collective_allreduce_runs_with_a_staged_block_not_a_multiple_of_the_gpu_count", 1)
					c.Nontrivial("collective/" + tc.ID + "/" + mode)
				}
				if tc.N > tc.BufSize {
					c.Count("collective_allreduce_runs_with_several_staged_blocks", 1)
				}
			}
		}
	}
}
