package main

import (
	"encoding/json"
	"fmt"
	"os"
	"sort"
	"time"

	"github.com/sarchlab/akita/v4/sim"
	"github.com/sarchlab/mgpusim/v4/amd/driver"
	"github.com/sarchlab/mgpusim/v4/amd/insts"

	"verifharness/vlib"
	"verifharness/vlib/kern"
	"verifharness/vlib/plat"
)

// Pipelined host programs ("e2e-pipelined"): the style of the shipped
// multi-GPU benchmarks. ONE context, one (or two) command queues per GPU; the
// data are cut into slabs, one per queue; the slabs of consecutive kernels are
// enqueued back to back on their queues and the queues are drained once, at
// the end of the program (or exactly where a kernel reads across slabs). The
// kernels of a program are several DIFFERENT code objects, each shared by all
// queues (the driver keeps one device copy of a code object per process).
// Slab sizes and the number of launches a queue needs per kernel are unequal,
// so queues run ahead of each other: a queue reaches kernel k+1 while the
// queue that first enqueued kernel k+1 (and carries its code upload) is still
// busy with kernel k.
//
// Legal because every slab of kernel k+1 reads only what the same queue's slab
// of kernel k wrote (element-wise chains over the slab; commands of a queue
// execute in order); a step that reads across slabs ("win") is fenced by a
// drain of all queues before and after it. The oracle is the host shadow and
// the single-GPU run (bit-identical; a crash is a violation).

type pipeStep struct {
	Kind    string  `json:"k"` // x: X=op(X) | y: Y=op(Y) | xy: Y=op(X) | yx: X=op(Y) | gx: X=op(X) launched as a 2-D grid | win: Y[i]=op(X[off+(i&mask)]) (fenced)
	Op      kern.Op `json:"op"`
	C       uint32  `json:"c"`
	Mask    uint32  `json:"mask,omitempty"`
	WinOff  int     `json:"win_off,omitempty"`
	Barrier bool    `json:"barrier,omitempty"` // drain all queues before and after the step
}

type pipeProgram struct {
	ID        string     `json:"id"`
	N         int        `json:"n"` // elements per buffer, a multiple of 256
	Steps     []pipeStep `json:"steps"`
	Seed      uint64     `json:"seed"`
	ChunkSeed uint64     `json:"chunk_seed"`           // how many launches a slab needs for a step: 1 + f(seed, slab, step) % MaxChunks of its GPU
	StepMajor bool       `json:"step_major,omitempty"` // enqueue step by step over all queues instead of queue by queue
	Timing    bool       `json:"timing"`
	GPU       string     `json:"gpu,omitempty"`
}

type pipePlacement struct {
	Name      string `json:"name"`
	NumGPUs   int    `json:"num_gpus"`
	GPUs      []int  `json:"gpus"`       // owner of slab group i
	QPerGPU   int    `json:"q_per_gpu"`  // command queues (= slabs) per GPU
	Weights   []int  `json:"weights"`    // relative slab size per GPU
	MaxChunks []int  `json:"max_chunks"` // per GPU: a slab's step is issued in 1..MaxChunks launches
}

func pipePlacements(timing bool, gpu string, thorough bool) []pipePlacement {
	ps := []pipePlacement{
		{Name: "1gpu-1-queue", NumGPUs: 1, GPUs: []int{1}, QPerGPU: 1, Weights: []int{1}, MaxChunks: []int{1}},
		{Name: "plain-2-shares-7-1", NumGPUs: 2, GPUs: []int{1, 2}, QPerGPU: 1, Weights: []int{7, 1}, MaxChunks: []int{2, 1}},
	}
	if gpu == "mi300a" {
		return ps
	}
	ps = append(ps, pipePlacement{Name: "plain-2-two-queues-per-gpu", NumGPUs: 2, GPUs: []int{2, 1}, QPerGPU: 2, Weights: []int{1, 3}, MaxChunks: []int{1, 3}})
	if !timing || thorough {
		ps = append(ps,
			pipePlacement{Name: "1gpu-2-queues", NumGPUs: 1, GPUs: []int{1}, QPerGPU: 2, Weights: []int{1}, MaxChunks: []int{3}},
			pipePlacement{Name: "plain-2-shares-1-3-reversed", NumGPUs: 2, GPUs: []int{2, 1}, QPerGPU: 1, Weights: []int{1, 3}, MaxChunks: []int{1, 3}},
			pipePlacement{Name: "plain-3-shares-1-4-2", NumGPUs: 3, GPUs: []int{3, 1, 2}, QPerGPU: 1, Weights: []int{1, 4, 2}, MaxChunks: []int{1, 3, 2}},
			pipePlacement{Name: "plain-4-shares-5-1-2-1", NumGPUs: 4, GPUs: []int{1, 2, 3, 4}, QPerGPU: 1, Weights: []int{5, 1, 2, 1}, MaxChunks: []int{3, 1, 2, 1}},
		)
	}
	return ps
}

type pipeSlab struct {
	lo, hi int // elements
	gpuIdx int // index into GPUs
}

// slabs cuts [0, n) into len(GPUs)*QPerGPU slabs on 256-element boundaries.
func (pl pipePlacement) slabs(n int) []pipeSlab {
	blocks := n / 256
	total := 0
	for _, w := range pl.Weights {
		total += w * pl.QPerGPU
	}
	var out []pipeSlab
	acc, start := 0, 0
	for gi := range pl.GPUs {
		for q := 0; q < pl.QPerGPU; q++ {
			acc += pl.Weights[gi]
			end := blocks * acc / total
			out = append(out, pipeSlab{lo: 256 * start, hi: 256 * end, gpuIdx: gi})
			start = end
		}
	}
	out[len(out)-1].hi = n
	return out
}

// chunks of slab s at step t.
func (pg pipeProgram) chunks(pl pipePlacement, s int, sl pipeSlab, t int) [][2]int {
	blocks := (sl.hi - sl.lo) / 256
	if blocks == 0 {
		return nil
	}
	r := vlib.NewPRNG(pg.ChunkSeed + uint64(s)*1315423911 + uint64(t)*2654435761)
	k := 1 + r.Intn(pl.MaxChunks[sl.gpuIdx])
	if k > blocks {
		k = blocks
	}
	var out [][2]int
	for c := 0; c < k; c++ {
		lo := sl.lo + 256*(blocks*c/k)
		hi := sl.lo + 256*(blocks*(c+1)/k)
		if c == k-1 {
			hi = sl.hi
		}
		out = append(out, [2]int{lo, hi})
	}
	return out
}

func (st pipeStep) coKey() string {
	switch st.Kind {
	case "x", "y":
		return fmt.Sprintf("elem-%v", st.Op)
	case "gx":
		return fmt.Sprintf("geom-%v", st.Op)
	}
	return fmt.Sprintf("gather-%v", st.Op)
}

func pipeShadow(pg pipeProgram) (x, y []uint32) {
	r := vlib.NewPRNG(pg.Seed)
	x, y = make([]uint32, pg.N), make([]uint32, pg.N)
	for i := range x {
		x[i] = r.Uint32()
	}
	for i := range y {
		y[i] = r.Uint32()
	}
	for _, st := range pg.Steps {
		switch st.Kind {
		case "x", "gx":
			for i := range x {
				x[i] = st.Op.Apply(x[i], st.C)
			}
		case "y":
			for i := range y {
				y[i] = st.Op.Apply(y[i], st.C)
			}
		case "xy":
			for i := range y {
				y[i] = st.Op.Apply(x[i], st.C)
			}
		case "yx":
			for i := range x {
				x[i] = st.Op.Apply(y[i], st.C)
			}
		case "win":
			for i := range y {
				y[i] = st.Op.Apply(x[st.WinOff+int(uint32(i)&st.Mask)], st.C)
			}
		}
	}
	return x, y
}

func genPipeProgram(r *vlib.PRNG, id string, timing bool) pipeProgram {
	pg := pipeProgram{ID: id, Timing: timing, Seed: r.Uint64(), ChunkSeed: r.Uint64(), StepMajor: r.Chance(1, 3)}
	if timing {
		pg.N = 256 * (8 + r.Intn(41))
	} else {
		pg.N = 256 * (8 + r.Intn(121))
	}
	ns := 3 + r.Intn(4)
	kinds := []string{"x", "y", "xy", "yx", "gx", "xy", "yx"}
	for i := 0; i < ns; i++ {
		st := pipeStep{Kind: kinds[r.Intn(len(kinds))], Op: kern.Op(r.Intn(3)), C: 1 + 2*uint32(r.Intn(5000))}
		if r.Chance(1, 7) {
			st.Kind, st.Barrier = "win", true
			st.Mask = []uint32{63, 255}[r.Intn(2)] // mask+1 divides 256, the granularity of slabs and chunks
			st.WinOff = r.Intn(pg.N - int(st.Mask))
		}
		pg.Steps = append(pg.Steps, st)
	}
	// at least two different code objects
	if pg.Steps[0].coKey() == pg.Steps[1].coKey() {
		pg.Steps[1].Op = (pg.Steps[1].Op + 1) % 3
	}
	return pg
}

func canonicalPipePrograms() []pipeProgram {
	mk := func(id string, timing bool, gpu string, n int, stepMajor bool, steps ...pipeStep) pipeProgram {
		return pipeProgram{ID: id, N: n, Steps: steps, Seed: 71, ChunkSeed: 1, StepMajor: stepMajor, Timing: timing, GPU: gpu}
	}
	// kernel A (X -> Y) then kernel B (Y -> X), two code objects, shares 7/8 and 1/8, the big share in two launches
	ab := []pipeStep{{Kind: "xy", Op: kern.OpAdd, C: 3}, {Kind: "yx", Op: kern.OpMul, C: 5}}
	long := []pipeStep{{Kind: "x", Op: kern.OpAdd, C: 3}, {Kind: "xy", Op: kern.OpXor, C: 0x77}, {Kind: "gx", Op: kern.OpMul, C: 3},
		{Kind: "win", Op: kern.OpAdd, C: 9, Mask: 255, WinOff: 512, Barrier: true}, {Kind: "y", Op: kern.OpMul, C: 7}, {Kind: "yx", Op: kern.OpAdd, C: 1}}
	return []pipeProgram{
		mk("canon-pipe-a-then-b", false, "", 65536, false, ab...),
		mk("canon-pipe-a-then-b-step-major", false, "", 16384, true, ab...),
		mk("canon-pipe-six-kernels-with-fence", false, "", 256*40, false, long...),
		mk("canon-pipe-a-then-b-timing", true, "", 256*32, false, ab...),
		mk("canon-pipe-six-kernels-with-fence-timing", true, "", 256*16, false, long...),
		mk("canon-pipe-a-then-b-mi300a", true, "mi300a", 256*16, false, ab...),
	}
}

func pipeChild() {
	var pg pipeProgram
	var pl pipePlacement
	if err := json.Unmarshal([]byte(os.Args[2]), &pg); err != nil {
		panic(err)
	}
	if err := json.Unmarshal([]byte(os.Args[3]), &pl); err != nil {
		panic(err)
	}
	rec := vlib.ChildRec()
	sim.GetIDGenerator()
	p := plat.Build(plat.Config{Timing: pg.Timing, GPUType: pg.GPU, NumGPUs: pl.NumGPUs})
	d := p.Driver
	d.Run()
	ctx := d.Init()
	d.SelectGPU(ctx, pl.GPUs[0])
	n := pg.N
	bufX := d.AllocateMemory(ctx, uint64(4*n))
	bufY := d.AllocateMemory(ctx, uint64(4*n))
	if len(pl.GPUs) > 1 {
		d.Distribute(ctx, bufX, uint64(4*n), pl.GPUs)
		d.Distribute(ctx, bufY, uint64(4*n), pl.GPUs)
	}
	r := vlib.NewPRNG(pg.Seed)
	hx, hy := make([]uint32, n), make([]uint32, n)
	for i := range hx {
		hx[i] = r.Uint32()
	}
	for i := range hy {
		hy[i] = r.Uint32()
	}
	d.MemCopyH2D(ctx, bufX, hx)
	d.MemCopyH2D(ctx, bufY, hy)

	slabs := pl.slabs(n)
	queues := make([]*driver.CommandQueue, len(slabs))
	for s, sl := range slabs {
		d.SelectGPU(ctx, pl.GPUs[sl.gpuIdx])
		queues[s] = d.CreateCommandQueue(ctx)
	}
	cos := map[string]*insts.KernelCodeObject{}
	firstQ := map[string]int{} // queue that first enqueued the code object (it carries the upload)
	launchesOn := make([]int, len(slabs))
	var pendingSeen, behindWork int64
	coFor := func(st pipeStep) *insts.KernelCodeObject {
		k := st.coKey()
		if co := cos[k]; co != nil {
			return co
		}
		var co *insts.KernelCodeObject
		switch st.Kind {
		case "x", "y":
			co = kern.ElemKernel(st.Op)
		case "gx":
			co = geomKernel(st.Op)
		default:
			co = gatherKernel(st.Op)
		}
		cos[k] = co
		return co
	}
	at := func(base driver.Ptr, e int) driver.Ptr { return base + driver.Ptr(4*e) }
	launchedBeforeUpload := map[string]int{} // launches that were ahead of the upload in its queue
	launch := func(s int, st pipeStep, lo, hi int) {
		q := queues[s]
		k := st.coKey()
		co := coFor(st)
		if fq, ok := firstQ[k]; !ok {
			firstQ[k] = s
			launchedBeforeUpload[k] = launchesOn[s]
		} else if fq != s {
			// Conservative observation: every launch is at most 4 commands, so if
			// more commands are pending in the first queue than can have been
			// enqueued behind the upload, the upload itself is still pending.
			after := launchesOn[fq] - launchedBeforeUpload[k] - 1
			if queues[fq].NumCommand() > 4*after+3 {
				pendingSeen++
			}
			if launchedBeforeUpload[k] > 0 {
				behindWork++
			}
		}
		switch st.Kind {
		case "x":
			args := kern.ElemArgs{Buf: at(bufX, lo), C: st.C}
			d.EnqueueLaunchKernel(q, co, [3]uint32{uint32(hi - lo), 1, 1}, [3]uint16{64, 1, 1}, &args)
		case "y":
			args := kern.ElemArgs{Buf: at(bufY, lo), C: st.C}
			d.EnqueueLaunchKernel(q, co, [3]uint32{uint32(hi - lo), 1, 1}, [3]uint16{64, 1, 1}, &args)
		case "gx":
			g := geometry{Grid: [3]int{256, (hi - lo) / 256, 1}, WG: [3]int{16, 4, 1}}
			args := g.args(at(bufX, lo), st.C)
			d.EnqueueLaunchKernel(q, co, u32x3(g.Grid), u16x3(g.WG), &args)
		case "xy":
			args := GatherArgs{Src: at(bufX, lo), Dst: at(bufY, lo), C: st.C, Mask: 0xFFFFFFFF}
			d.EnqueueLaunchKernel(q, co, [3]uint32{uint32(hi - lo), 1, 1}, [3]uint16{64, 1, 1}, &args)
		case "yx":
			args := GatherArgs{Src: at(bufY, lo), Dst: at(bufX, lo), C: st.C, Mask: 0xFFFFFFFF}
			d.EnqueueLaunchKernel(q, co, [3]uint32{uint32(hi - lo), 1, 1}, [3]uint16{64, 1, 1}, &args)
		case "win":
			// work-item g of this launch is element lo+g of the step; lo is a multiple of 256 and mask+1 divides 256, so g&mask == (lo+g)&mask
			args := GatherArgs{Src: at(bufX, st.WinOff), Dst: at(bufY, lo), C: st.C, Mask: st.Mask}
			d.EnqueueLaunchKernel(q, co, [3]uint32{uint32(hi - lo), 1, 1}, [3]uint16{64, 1, 1}, &args)
		}
		launchesOn[s]++
	}
	drainAll := func() {
		for _, q := range queues {
			d.DrainCommandQueue(q)
		}
	}
	// segments of steps between fences
	var launches, fences int64
	issue := func(from, to int) {
		if pg.StepMajor {
			for t := from; t < to; t++ {
				for s, sl := range slabs {
					for _, ch := range pg.chunks(pl, s, sl, t) {
						launch(s, pg.Steps[t], ch[0], ch[1])
						launches++
					}
				}
			}
			return
		}
		for s, sl := range slabs {
			for t := from; t < to; t++ {
				for _, ch := range pg.chunks(pl, s, sl, t) {
					launch(s, pg.Steps[t], ch[0], ch[1])
					launches++
				}
			}
		}
	}
	start := 0
	for t, st := range pg.Steps {
		if st.Barrier {
			issue(start, t)
			drainAll()
			issue(t, t+1)
			drainAll()
			fences++
			start = t + 1
		}
	}
	issue(start, len(pg.Steps))
	drainAll()
	outX, outY := make([]uint32, n), make([]uint32, n)
	d.MemCopyD2H(ctx, outX, bufX)
	d.MemCopyD2H(ctx, outY, bufY)
	rec.Note("result", map[string]any{"x": encodeU32(outX), "y": encodeU32(outY), "launches": launches, "fences": fences,
		"code_objects": len(cos), "pending_seen": pendingSeen, "behind_work": behindWork})
	rec.Note("done", true)
	os.Exit(0)
}

func runPipelined(c *vlib.Check) {
	scratch, cleanup := vlib.Scratch("c18pipe")
	defer cleanup()
	base := c.Rand("e2e-pipelined")
	progs := canonicalPipePrograms()
	nEmu, nTim := c.N(6, 100), c.N(2, 16)
	for i := 0; i < nEmu; i++ {
		progs = append(progs, genPipeProgram(base.ForkN("emu", i), fmt.Sprintf("pipe-emu-%d", i), false))
	}
	for i := 0; i < nTim; i++ {
		progs = append(progs, genPipeProgram(base.ForkN("timing", i), fmt.Sprintf("pipe-timing-%d", i), true))
	}
	type job struct {
		pg   pipeProgram
		pl   pipePlacement
		x, y []uint32
		info map[string]any
		fail string
	}
	var jobs []*job
	for _, pg := range progs {
		for _, pl := range pipePlacements(pg.Timing, pg.GPU, c.Thorough()) {
			jobs = append(jobs, &job{pg: pg, pl: pl})
		}
	}
	sort.SliceStable(jobs, func(a, b int) bool {
		w := func(j *job) int {
			switch {
			case j.pg.GPU == "mi300a":
				return 10 + j.pl.NumGPUs
			case j.pg.Timing:
				return j.pl.NumGPUs
			}
			return 0
		}
		return w(jobs[a]) > w(jobs[b])
	})
	vlib.Parallel(len(jobs), 12, func(i int) {
		j := jobs[i]
		pj, _ := json.Marshal(j.pg)
		lj, _ := json.Marshal(j.pl)
		res := vlib.RunChild(scratch, 4*time.Minute, []string{"GOMAXPROCS=2"}, "pipe", string(pj), string(lj)) // watchdog only: children take seconds; a GPU executing an unwritten code buffer can spin forever
		notes := c.AbsorbFile(res.RecPath)
		if r, ok := notes["result"]; ok && len(r) > 0 {
			m, _ := r[0].(map[string]any)
			sx, _ := m["x"].(string)
			sy, _ := m["y"].(string)
			j.x, j.y, j.info = decodeU32(sx), decodeU32(sy), m
		} else if res.TimedOut {
			j.fail = "watchdog"
		} else {
			j.fail = "crash: " + firstPanicLine(vlib.Tail(res.OutPath, 4000))
		}
		_ = os.RemoveAll(res.Dir)
	})
	single := map[string]*job{}
	for _, j := range jobs {
		if j.pl.Name == "1gpu-1-queue" {
			single[j.pg.ID] = j
		}
	}
	sampled := 0
	for _, j := range jobs {
		pg := j.pg
		mode := modeOf(pg.Timing, pg.GPU, false)
		c.Eval()
		c.Count("pipe_runs", 1)
		c.Distinct("pipe_placement", mode+"/"+j.pl.Name)
		wit := map[string]any{"program": pg, "placement": j.pl,
			"how_to_run": "VERIF_CHILD_REC=<file> w_c18 pipe '<program json>' '<placement json>' in a scratch cwd"}
		if j.fail == "watchdog" {
			c.Inconclusive(fmt.Sprintf("e2e-pipelined %s on %s/%s: watchdog fired", pg.ID, mode, j.pl.Name))
			continue
		}
		if j.fail != "" {
			wit["failure"] = j.fail
			c.Violation(fmt.Sprintf("C18|e2e-pipelined|%s|%s|crash", mode, j.pl.Name),
				fmt.Sprintf("pipelined program %s (n=%d, %d kernels) crashes on %s/%s: %s", pg.ID, pg.N, len(pg.Steps), mode, j.pl.Name, j.fail), wit)
			continue
		}
		wx, wy := pipeShadow(pg)
		ok := true
		for _, b := range []struct {
			name      string
			got, want []uint32
		}{{"X", j.x, wx}, {"Y", j.y, wy}} {
			if len(b.got) != len(b.want) {
				ok = false
				c.Violation(fmt.Sprintf("C18|e2e-pipelined|%s|%s|result-missing", mode, j.pl.Name), "buffer "+b.name+" was not returned", wit)
				break
			}
			bad, first := 0, -1
			for i := range b.want {
				if b.got[i] != b.want[i] {
					if first < 0 {
						first = i
					}
					bad++
				}
			}
			if bad > 0 {
				ok = false
				slab := -1
				for s, sl := range j.pl.slabs(pg.N) {
					if first >= sl.lo && first < sl.hi {
						slab = s
					}
				}
				wit["buffer"], wit["element"], wit["got"], wit["want"], wit["differing_elements"], wit["slab"] = b.name, first, b.got[first], b.want[first], bad, slab
				if s := single[pg.ID]; s != nil && s != j && s.fail == "" {
					sv := s.x
					if b.name == "Y" {
						sv = s.y
					}
					if len(sv) > first {
						wit["single_gpu_run_value"] = sv[first]
					}
				}
				c.Violation(fmt.Sprintf("C18|e2e-pipelined|%s|%s|differs-from-shadow|buffer-%s", mode, j.pl.Name, b.name),
					fmt.Sprintf("pipelined program %s (n=%d, %d kernels) on %s/%s: buffer %s differs from the host shadow in %d elements, first at %d (slab %d): got 0x%08x, expected 0x%08x",
						pg.ID, pg.N, len(pg.Steps), mode, j.pl.Name, b.name, bad, first, slab, b.got[first], b.want[first]), wit)
				break
			}
		}
		if !ok {
			continue
		}
		c.Count("pipe_runs_equal_to_shadow", 1)
		c.Count("pipe_elements_compared", int64(2*pg.N))
		num := func(k string) int64 { f, _ := j.info[k].(float64); return int64(f) }
		if j.pl.NumGPUs > 1 {
			c.Count("pipe_multi_gpu_runs_equal_to_single|"+mode, 1)
			c.Count("pipe_launches|"+mode, num("launches"))
			c.Count("pipe_fences", num("fences"))
			c.Count("pipe_launches_of_code_first_enqueued_behind_other_launches_on_another_queue|"+mode, num("behind_work"))
			c.Count("pipe_launches_enqueued_while_code_upload_seen_pending_in_another_queue|"+mode, num("pending_seen"))
			if num("code_objects") >= 2 {
				c.Nontrivial("e2e-pipelined/" + pg.ID + "/" + mode + "/" + j.pl.Name)
			}
		}
		if sampled < 2 && j.pl.NumGPUs > 1 {
			sampled++
			c.Sample(map[string]any{"pipelined_program": pg, "placement": j.pl})
		}
	}
}
