// w_c18: results do not depend on how work and data are spread over GPUs
// (DESIGN.md, C18). This file only wires the parts together; the RDMA
// component monitor lives in vlib/c18rdma.
package main

import (
	"os"

	"verifharness/vlib"
	"verifharness/vlib/c18rdma"
)

func main() {
	if vlib.IsChild() && len(os.Args) > 1 && os.Args[1] == "e2e" {
		e2eChild()
		return
	}
	if vlib.IsChild() && len(os.Args) > 1 && os.Args[1] == "coll" {
		collChild()
		return
	}
	if vlib.IsChild() && len(os.Args) > 1 && os.Args[1] == "pipe" {
		pipeChild()
		return
	}
	if vlib.IsChild() && len(os.Args) > 1 && os.Args[1] == "hist" {
		histChild()
		return
	}
	var replayData []byte
	replaying := false
	for i, a := range os.Args {
		if a == "--replay" && i+1 < len(os.Args) {
			replaying = true
			replayData, _ = os.ReadFile(os.Args[i+1]) // before Start removes stale replays
		}
	}
	c := vlib.Start("C18")
	{
		if replaying {
			if !c18rdma.Replay(c, replayData) {
				c.Inconclusive("replay file holds no scenario this worker can re-execute")
			}
			c.Finish(vlib.FinishOpts{Rule: "replay of one recorded scenario"})
		}
	}
	c18rdma.Run(c, c.Rand("rdma"), c.N(1200, 40000))
	runE2E(c)
	runHistory(c)
	runPipelined(c)
	runCollectives(c)
	mc := c18rdma.MinCounters()
	mc["e2e_runs"] = 30
	mc["e2e_multi_gpu_runs_equal_to_single"] = 20
	mc["history_runs"] = 100
	mc["history_readbacks_compared"] = 500
	mc["history_multi_gpu_histories_with_remote_reads"] = 60
	mc["history_kernels_reading_remote_pages|timing"] = 40
	mc["history_rereads_after_reupload_not_touching_reader|timing"] = 8
	mc["history_rereads_after_reupload_not_touching_reader|emu"] = 40
	mc["history_magic_copy_only_runs"] = 6
	mc["history_mi300a_multi_gpu_runs"] = 12
	mc["e2e_mi300a_multi_gpu_runs"] = 4
	mc["history_kernels_consuming_another_gpus_kernel_output|timing-mi300a|lower-to-higher-gpu"] = 6
	mc["history_kernels_consuming_another_gpus_kernel_output|timing-mi300a|higher-to-lower-gpu"] = 6
	mc["history_kernels_consuming_another_gpus_kernel_output|timing|lower-to-higher-gpu"] = 8
	mc["history_kernels_consuming_another_gpus_kernel_output|timing|higher-to-lower-gpu"] = 8
	mc["history_kernels_consuming_output_written_into_remote_memory|timing-mi300a"] = 6
	mc["rdma_forwarded_requests|timing-mi300a|from-gpu1"] = 1000
	mc["rdma_forwarded_requests|timing-mi300a|from-gpu2"] = 1000
	mc["pipe_runs"] = 50
	mc["collective_runs|allreduce"] = 60
	mc["collective_runs|broadcast"] = 30
	mc["collective_allreduce_runs_with_a_staged_block_not_a_multiple_of_the_gpu_count"] = 30
	mc["collective_allreduce_runs_with_several_staged_blocks"] = 10
	mc["pipe_multi_gpu_runs_equal_to_single|emu"] = 30
	mc["pipe_multi_gpu_runs_equal_to_single|timing"] = 4
	mc["pipe_launches_of_code_first_enqueued_behind_other_launches_on_another_queue|emu"] = 100
	mc["pipe_launches_of_code_first_enqueued_behind_other_launches_on_another_queue|timing"] = 15
	mc["pipe_launches_enqueued_while_code_upload_seen_pending_in_another_queue|emu"] = 50
	mc["pipe_launches_enqueued_while_code_upload_seen_pending_in_another_queue|timing"] = 8
	mc["geom_launches_2d"] = 60
	mc["geom_launches_3d"] = 30
	mc["geom_launches_with_partial_work_groups"] = 40
	mc["geom_unified_launches|emu"] = 80
	mc["geom_unified_launches|timing"] = 8
	mc["geom_unified_launches_with_fewer_wg_rows_than_members|emu"] = 25
	mc["geom_unified_launches_with_fewer_wg_rows_than_members|timing"] = 4
	mc["geom_unified_launches_with_a_share_wrapping_a_row_end|emu"] = 10
	mc["geom_unified_launches_with_a_share_wrapping_a_row_end|timing"] = 3
	mc["geom_host_split_launches|emu"] = 60
	mc["geom_host_split_launches|timing"] = 6
	c.Finish(vlib.FinishOpts{
		Rule: "collective case = (mccl.AllReduceRing (average) or mccl.BroadcastRing; 2, 3 or 4 GPUs; element counts 1, 2, 3, #GPUs-1..#GPUs+1, 1000..1002, 1023..1026, staging size -1/0/+1, 2 x staging size + 3 and seeded ones; staging buffers of 4..4096 elements; emulation, two cases on r9nano timing); inputs are integer multiples of 12 so the result is exact: every GPU's buffer compared bit-exactly with the host result, guard elements behind the element count and behind the staging buffers must stay unchanged; non-trivial = all-reduce with a staged block that is not a multiple of the GPU count. " +
			"pipelined case (e2e-pipelined) = (program of 2-6 kernels over two buffers: in place on X / on Y, Y=op(X), X=op(Y), in place as a 2-D grid, fenced window read across slabs; at least two different code objects, each shared by all queues; ONE context, one or two command queues per GPU, data cut into unequal slabs (shares 7:1, 1:3, 1:4:2, 5:1:2:1), a slab's step issued in 1-3 launches, all launches enqueued back to back queue by queue or step by step, queues drained once at the end or exactly around a step that reads across slabs; emulation, r9nano timing, one case on mi300a); final buffers compared bit-exactly with the host shadow and the single-GPU run, a crash is a violation; non-trivial = multi-GPU run with >= 2 code objects; counters: launches of a code object that another queue enqueued first behind other launches (static), and launches enqueued while that upload was provably still pending in the other queue (pending commands there > 4 x launches behind the upload + 3). " +
			"platforms: emulation, r9nano timing, mi300a timing (CDNA3 decoding and ALUs; the hand-assembled kernels are checked with the real decoder in CDNA3 mode on every run; 2 GPUs in quick: 1 GPU | buffers on GPU 2 launch on GPU 1 | buffers on GPU 1 launch on GPU 2 | both with a second launch site on the owner | distributed 1-2 | unified 1-2). chain programs: kernels at alternating launch sites each consume what the previous one wrote, every launch drained, NO host copy in between (legal since the L1 caches are invalidated at every launch; the owner's L2 is the home of a line); counters history_kernels_consuming_another_gpus_kernel_output per platform and direction, rdma_forwarded_requests per platform and GPU (port hook on every rdma.Comp's RDMARequestOutside) have minimums; a GPU that accesses remote pages while its engine forwarded nothing is a counter, and a key (remote-access-not-forwarded) only together with a data difference; host-split geometry launches hand slab k of step s to GPU (k+s) mod #GPUs. " +
			"launch geometry (both end-to-end layers): read-modify-write kernel buf[i] = op(buf[i], c), i = gx + gy*pitchX + gz*pitchXY computed from the work-group and work-item ids, launched with 1-D / 2-D / 3-D grids (work-group shapes 64x1 .. 2x2x2; 1, 2, 3, 5 or many work-group rows; row lengths small / multiples of 64 / just above multiples of 64 / arbitrary; partial last work-groups in every dimension) on unified devices of 2, 3 and 4 members (also GPUs 2-3 of 4 and members in the order 4-2-1) and on plain 2/3/4-GPU platforms where the host splits the grid into slabs of work-groups; every element is owned by exactly one work-item, so a work-group that never ran or ran twice changes the final data (classes element-not-processed / element-processed-twice); counters geom_unified_launches_with_fewer_wg_rows_than_members and ..._with_a_share_wrapping_a_row_end (a member's share of flattened work-group ids is shorter than one row of work-groups and crosses a row end) have minimums. " +
			"history case (e2e-history) = (multi-phase host program over 2-3 buffers drawn from {upload of a whole buffer / page-aligned sub-range / arbitrary sub-range, kernel at an abstract launch site: element-wise in place | dst[i] = op(src[window(i)], c) between two buffers | the driver's device-to-device copy kernel, read-back of an intermediate result, re-upload of data kernels have read, further kernels}, every step drained before the next; placement: 1 GPU | everything on GPU 2 of 2 | buffers allocated on / remapped to another GPU than the launching one | buffers distributed page-wise with launches from several GPUs, queues created up front and one code object shared by all GPUs | single pages remapped over 4 GPUs | unified device over 2/4 GPUs; emulation, r9nano timing with DMA copies, r9nano timing with magic copy (copy-only programs)); every read-back compared bit-exactly with a flat program-order shadow (hence equal between placements); a differing element is classified by the step whose effect is missing (stale-after-reupload, stale-after-kernel-write, kernel-write-not-visible, upload-not-visible, wrong-value); programs never let a kernel read data another kernel wrote without a host copy in between (open finding stale-l1-across-kernels); non-trivial = multi-GPU run of a program with >= 2 kernels and a re-upload after a kernel in which some kernel read pages of another GPU; the counter history_rereads_after_reupload_not_touching_reader counts kernels that re-read, on a GPU owning none of the re-uploaded pages, lines that GPU had read before the re-upload with no other copy touching that GPU's pages in between. " +
			"end-to-end case = (integer program: H2D, 1-3 element-wise kernels over a grid of any size incl. a partial last work-group, device-to-device copy of an arbitrary byte count, D2H; placement: 1 GPU | unified device over 2/4 GPUs | plain 2/4 GPUs with both buffers distributed page-wise; emulation or r9nano timing); compared bit-exactly with the single-GPU run and a host reference; non-trivial = multi-GPU placement of a program whose grid has a partial last work-group or whose work-group count is 1 above a multiple of 64. " +
			"RDMA scenario = (2-4 real rdma.Comp engines on one outside connection, buffer sizes, per-cycle widths, 1-2 L1 requesters and " +
			"1-2 L2 memories per engine with random latency/reordering/stalls, streams of reads / writes / masked writes to other engines' memory, " +
			"0-3 drain-all / restart-all rounds at random points); non-trivial = distinct scenario with every transaction checked end to end, " +
			"at least one L2 reply overtaking an earlier one and at least one DrainReq delivered while the engine had an open transaction",
		Assumptions: []string{
			"control traffic follows driver + command processor: DrainReq to every engine, RestartReq only after every DrainRsp, next round only after every RestartRsp",
			"L1 side only sends addresses owned by other engines (l1AddressMapper.ModuleForOtherAddresses); addresses are unique per request so that a trace entry identifies its request",
			"fake L2s answer every request exactly once with the id of the request they received; read data = f(address, arrival serial)",
			"history programs: all buffers are allocated (and remapped / distributed) before the first upload and the first launch; page size 4 KiB, 64 CUs per GPU, work-group size 64 (used only for the accounting of what a run exercised, not by the oracle)",
			"timing platform built WithMagicMemoryCopy is only given copy-only programs: copies there bypass the caches by design (open C02 finding variant:magic-copy), so kernel results are not comparable",
			"open transaction of an engine = forwarded on its RDMARequestOutside and not yet answered on its RDMARequestInside, or taken from its RDMADataOutside and not yet answered there",
		},
		MinNontrivial: 40,
		MinCounters:   mc,
	})
}
