package main

// Scalar side of C06: a SOP*/SMEM handler run under two different EXEC values
// must yield identical state (instructions whose definition reads EXEC are
// exempt and listed; the probes never name EXEC as an operand).

import (
	"bytes"
	"fmt"
	"reflect"

	"verifharness/vlib"
)

func runScalarPair(rn *runner, p *probe, phase string, idx int, r *vlib.PRNG) ([]finding, int64) {
	base := genState(p, r.Fork("state"))
	var e1, e2 uint64
	switch idx % 5 {
	case 0:
		e1, e2 = 0, ^uint64(0)
	case 1:
		e1, e2 = ^uint64(0), randMask(r)
	case 2:
		e1, e2 = 0, 1<<uint(r.Intn(64))
	default:
		e1, e2 = randMask(r), randMask(r)
	}
	if e1 == e2 {
		e2 = ^e1
	}
	s1 := base.clone()
	s1.exec = e1
	s2 := base.clone()
	s2.exec = e2
	r1 := rn.run(p, s1)
	r2 := rn.run(p, s2)
	wit := func(extra map[string]any) map[string]any {
		m := map[string]any{"probe": p, "pair": map[string]any{"phase": phase, "index": idx}, "exec1": hx(e1), "exec2": hx(e2)}
		for k, v := range extra {
			m[k] = v
		}
		return m
	}
	if r1.pan != "" || r2.pan != "" {
		if notImplementedMsg(r1.pan) && notImplementedMsg(r2.pan) {
			return nil, 2
		}
		if r1.pan != r2.pan {
			return []finding{{"scalar-depends-on-exec|panic",
				fmt.Sprintf("with EXEC=%s the handler %s, with EXEC=%s it %s", hx(e1), outcome(r1.pan), hx(e2), outcome(r2.pan)),
				wit(map[string]any{"panic1": r1.pan, "panic2": r2.pan})}}, 2
		}
		return nil, 2 // the same panic under both masks: not an EXEC dependence
	}
	var out []finding
	o1, o2 := r1.out, r2.out
	dep := func(what, detail string) {
		out = append(out, finding{"scalar-depends-on-exec|" + what,
			fmt.Sprintf("%s differs between EXEC=%s and EXEC=%s: %s", what, hx(e1), hx(e2), detail), wit(nil)})
	}
	if !bytes.Equal(o1.sgpr, o2.sgpr) {
		for i := 0; i < nSGPR; i++ {
			if !bytes.Equal(o1.sgpr[4*i:4*i+4], o2.sgpr[4*i:4*i+4]) {
				dep("sgpr", fmt.Sprintf("s%d = %x vs %x", i, o1.sgpr[4*i:4*i+4], o2.sgpr[4*i:4*i+4]))
				break
			}
		}
	}
	if o1.vcc != o2.vcc {
		dep("vcc", hx(o1.vcc)+" vs "+hx(o2.vcc))
	}
	if o1.scc != o2.scc {
		dep("scc", fmt.Sprintf("%d vs %d", o1.scc, o2.scc))
	}
	if o1.pc != o2.pc {
		dep("pc", fmt.Sprintf("%#x vs %#x", o1.pc, o2.pc))
	}
	if o1.m0 != o2.m0 {
		dep("m0", fmt.Sprintf("%#x vs %#x", o1.m0, o2.m0))
	}
	if !bytes.Equal(o1.vgpr, o2.vgpr) {
		dep("vgpr", "vector registers differ after a scalar instruction")
	}
	if !bytes.Equal(o1.vgpr, base.vgpr) || r1.strayLane >= 0 || r2.strayLane >= 0 {
		out = append(out, finding{"scalar-writes-vgpr", "a scalar instruction changed vector registers", wit(nil)})
	}
	if !reflect.DeepEqual(r1.acc, r2.acc) {
		dep("memory-accesses", fmt.Sprintf("%v vs %v", r1.acc, r2.acc))
	}
	if k, bad := memDiff(o1, o2, 0, true); bad {
		dep("memory", fmt.Sprintf("byte %#x", k))
	}
	if o1.exec != e1 || o2.exec != e2 {
		out = append(out, finding{"scalar-modifies-exec",
			fmt.Sprintf("EXEC %s -> %s, %s -> %s although the instruction neither names EXEC nor is defined to write it", hx(e1), hx(o1.exec), hx(e2), hx(o2.exec)), wit(nil)})
	}
	return out, 2
}

func outcome(pan string) string {
	if pan == "" {
		return "returns normally"
	}
	return "panics (" + firstLine(pan) + ")"
}
