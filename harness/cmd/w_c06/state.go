package main

// Lane state, the instrumented storage accessor, the canary-padded LDS, and
// the runner that executes one decoded instruction on the real ALU over a
// state backed by the real emu.Wavefront.

import (
	"bytes"
	"encoding/binary"
	"fmt"
	"math/bits"
	"runtime/debug"
	"sort"
	"strings"

	"github.com/sarchlab/akita/v4/mem/vm"
	"github.com/sarchlab/mgpusim/v4/amd/emu"
	"github.com/sarchlab/mgpusim/v4/amd/emu/cdna3"
	"github.com/sarchlab/mgpusim/v4/amd/insts"
	"github.com/sarchlab/mgpusim/v4/amd/kernels"

	"verifharness/vlib"
)

const (
	nLanes     = 64
	wfLaneSize = 1024 // emu.Wavefront.VRegFile: 256 registers x 4 bytes per lane
	// the monitor's own copy of the VGPR file keeps v0..v39 of every lane; the
	// rest of the real file is zero before a run and must be zero afterwards
	nStateRegs = 40
	laneBytes  = 4 * nStateRegs
	nSGPR      = 102

	// global memory: lane L owns [memBase + L*memStride, memBase + (L+1)*memStride)
	memBase   = uint64(0x2_4000_0000) // above 4 GiB: both address halves matter
	memStride = uint64(0x4000)

	// LDS: pad | 64 regions of ldsStride | pad
	ldsPad    = 4096
	ldsStride = 1024
	ldsSize   = 2*ldsPad + nLanes*ldsStride
	canary    = 0xC6

	pcBase = uint64(0x10_0000)
)

type access struct {
	Addr  uint64 `json:"addr"`
	Size  int    `json:"size"`
	Write bool   `json:"write"`
}

// lstate is the architectural state one run starts from / ends with.
type lstate struct {
	vgpr []byte // 64 * laneBytes, lane-major: v0..v39 of every lane
	sgpr []byte // 4 * 102
	vcc  uint64
	exec uint64
	scc  byte
	m0   uint32
	pc   uint64
	lds  []byte // nil unless the probe uses LDS
	// memory: byte a initially holds initByte(a, salt[region(a)]); memW holds
	// what has been written
	salt [nLanes + 1]uint64
	memW map[uint64]byte
}

func (s *lstate) clone() *lstate {
	o := *s
	o.vgpr = append([]byte(nil), s.vgpr...)
	o.sgpr = append([]byte(nil), s.sgpr...)
	if s.lds != nil {
		o.lds = append([]byte(nil), s.lds...)
	}
	if s.memW != nil {
		o.memW = make(map[uint64]byte, len(s.memW))
		for k, v := range s.memW {
			o.memW[k] = v
		}
	}
	return &o
}

func (s *lstate) sreg64(i int) uint64 { return binary.LittleEndian.Uint64(s.sgpr[4*i:]) }
func (s *lstate) setSreg64(i int, v uint64) {
	binary.LittleEndian.PutUint64(s.sgpr[4*i:], v)
}
func (s *lstate) vreg(lane, r int) uint32 {
	return binary.LittleEndian.Uint32(s.vgpr[lane*laneBytes+4*r:])
}
func (s *lstate) setVreg(lane, r int, v uint32) {
	binary.LittleEndian.PutUint32(s.vgpr[lane*laneBytes+4*r:], v)
}

// mask returns the value of a lane-mask register (SGPR pair index or regVCC).
func (s *lstate) mask(idx int) uint64 {
	if idx == regVCC {
		return s.vcc
	}
	return s.sreg64(idx)
}

func regionOf(a uint64) int {
	if a < memBase || a >= memBase+nLanes*memStride {
		return nLanes
	}
	return int((a - memBase) / memStride)
}

func initByte(a, salt uint64) byte {
	x := a*0x9E3779B97F4A7C15 ^ salt
	x ^= x >> 29
	x *= 0xBF58476D1CE4E5B9
	x ^= x >> 32
	return byte(x)
}

// memAcc is the instrumented emu.StorageAccessor: a flat byte map that records
// every access with address and size.
type memAcc struct {
	salt *[nLanes + 1]uint64
	w    map[uint64]byte
	log  []access
	rb   *realBack // non-nil: delegate to the real emu storage accessor (realacc.go)
}

func (m *memAcc) Read(pid vm.PID, vAddr, byteSize uint64) []byte {
	m.log = append(m.log, access{vAddr, int(byteSize), false})
	if m.rb != nil {
		m.rb.touch(vAddr, byteSize)
		return m.rb.acc.Read(pid, vAddr, byteSize)
	}
	out := make([]byte, byteSize)
	for i := range out {
		a := vAddr + uint64(i)
		if v, ok := m.w[a]; ok {
			out[i] = v
		} else {
			out[i] = initByte(a, m.salt[regionOf(a)])
		}
	}
	return out
}

func (m *memAcc) Write(pid vm.PID, vAddr uint64, data []byte) {
	m.log = append(m.log, access{vAddr, len(data), true})
	if m.rb != nil {
		m.rb.touch(vAddr, uint64(len(data)))
		m.rb.acc.Write(pid, vAddr, data)
		return
	}
	if m.w == nil {
		m.w = map[uint64]byte{}
	}
	for i, b := range data {
		m.w[vAddr+uint64(i)] = b
	}
}

// memByte is the content of byte a in a (final) state.
func (s *lstate) memByte(a uint64) byte {
	if v, ok := s.memW[a]; ok {
		return v
	}
	return initByte(a, s.salt[regionOf(a)])
}

// wfState is the InstEmuState handed to the ALU: the real emu.Wavefront (all
// register accessors are its own) plus the two things the compute unit sets
// through unexported fields (current instruction, PID).
type wfState struct {
	*emu.Wavefront
	inst *insts.Inst
}

func (w *wfState) Inst() *insts.Inst { return w.inst }
func (w *wfState) PID() vm.PID       { return 1 }

type runner struct {
	st   *wfState
	mem  *memAcc
	aluG *emu.ALUImpl
	aluC *cdna3.ALU
	lds  []byte
	back *realBack
}

func newRunner() *runner {
	rn := &runner{mem: &memAcc{}}
	wf := emu.NewWavefront(&kernels.Wavefront{})
	rn.st = &wfState{Wavefront: wf}
	rn.aluG = emu.NewALU(rn.mem)
	rn.aluC = cdna3.NewALU(rn.mem)
	rn.lds = make([]byte, ldsSize)
	return rn
}

type runResult struct {
	out   *lstate
	acc   []access
	pan   string // panic message ("" = returned normally)
	stack string
	// a VGPR above v39 was written: lane, register (strayLane < 0: none)
	strayLane, strayReg int
	realBad             string // real-accessor runs: a write outside the frames of the accessed pages
}

var zeroTail = make([]byte, wfLaneSize-laneBytes)

func notImplementedMsg(m string) bool {
	l := strings.ToLower(m)
	return strings.Contains(l, "not implemented") || strings.Contains(l, "not supported") ||
		strings.Contains(l, "unsupported") || strings.Contains(l, "is not support")
}

// run executes the probe's instruction once, the way emu.ComputeUnit does
// (runWfUntilBarrier: wf.inst = decoded instruction, PC advanced past it,
// alu.Run(wf)).
func (rn *runner) run(p *probe, s *lstate) (res runResult) {
	wf := rn.st.Wavefront
	for l := 0; l < nLanes; l++ {
		copy(wf.VRegFile[l*wfLaneSize:l*wfLaneSize+laneBytes], s.vgpr[l*laneBytes:(l+1)*laneBytes])
	}
	copy(wf.SRegFile, s.sgpr)
	res.strayLane = -1
	wf.SetVCC(s.vcc)
	wf.SetEXEC(s.exec)
	wf.SetSCC(s.scc)
	wf.M0 = s.m0
	wf.SetPC(s.pc + uint64(p.inst.ByteSize))
	rn.st.inst = p.inst
	var lds []byte
	if s.lds != nil {
		lds = rn.lds
		copy(lds, s.lds)
	}
	salt := s.salt
	rn.mem.salt = &salt
	rn.mem.w = nil
	if len(s.memW) > 0 {
		rn.mem.w = make(map[uint64]byte, len(s.memW))
		for k, v := range s.memW {
			rn.mem.w[k] = v
		}
	}
	rn.mem.log = nil
	rn.mem.rb = nil
	if p.real {
		if rn.back == nil {
			rn.back = newRealBack()
		}
		rn.mem.rb = rn.back
		rn.back.begin(&salt, s.memW)
	}
	var alu emu.ALU = rn.aluG
	if p.arch != 0 {
		alu = rn.aluC
	}
	alu.SetLDS(lds)
	wf.LDS = lds
	func() {
		defer func() {
			if r := recover(); r != nil {
				res.pan = fmt.Sprint(r)
				if !notImplementedMsg(res.pan) {
					st := string(debug.Stack())
					if i := strings.Index(st, "panic("); i >= 0 {
						st = st[i:]
					}
					if len(st) > 1500 {
						st = st[:1500]
					}
					res.stack = st
				}
			}
		}()
		alu.Run(rn.st)
	}()
	ov := make([]byte, nLanes*laneBytes)
	for l := 0; l < nLanes; l++ {
		lane := wf.VRegFile[l*wfLaneSize : (l+1)*wfLaneSize]
		copy(ov[l*laneBytes:], lane[:laneBytes])
		if tail := lane[laneBytes:]; !bytes.Equal(tail, zeroTail) {
			for i, b := range tail {
				if b != 0 {
					if res.strayLane < 0 {
						res.strayLane, res.strayReg = l, nStateRegs+i/4
					}
					tail[i] = 0
				}
			}
		}
	}
	o := &lstate{
		vgpr: ov,
		sgpr: append([]byte(nil), wf.SRegFile...),
		vcc:  wf.VCC(), exec: wf.EXEC(), scc: wf.SCC(), m0: wf.M0, pc: wf.PC(),
		salt: s.salt, memW: rn.mem.w,
	}
	if lds != nil {
		o.lds = append([]byte(nil), lds...)
	}
	if p.real {
		o.memW, res.realBad = rn.back.finish()
		rn.mem.rb = nil
	}
	res.out = o
	res.acc = rn.mem.log
	rn.mem.w, rn.mem.log = nil, nil
	return res
}

// ---------------------------------------------------------------------------
// value generation

var cornerVals = []uint32{
	0, 1, 2, 3, 0xffffffff, 0xfffffffe, 0x80000000, 0x7fffffff, 0x80000001,
	0x00ffffff, 0x00800000, 0x007fffff, 0xff800000, 0x0000ffff, 0xffff0000, 0x00008000, 0x000000ff, 0x00000080,
	31, 32, 33, 63, 64, 24, 16, 8,
	// f32 specials: +-0, +-inf, qNaN, sNaN, denormals, +-1, 0.5, max, min normal
	0x7f800000, 0xff800000, 0x7fc00000, 0x7fa00000, 0xffc00001, 0x00000001, 0x807fffff, 0x3f800000, 0xbf800000,
	0x3f000000, 0x7f7fffff, 0x00800000, 0x40490fdb, 0xc2c80000, 0x4b000000, 0x4f000000, 0xcf000000, 0x5f000000,
	// high words of f64 specials: inf, -inf, NaN, 1.0, -2.0, denormal, huge, tiny
	0x7ff00000, 0xfff00000, 0x7ff80000, 0x3ff00000, 0xc0000000, 0x00080000, 0x7fe00000, 0x00100000, 0x43300000,
	// f16 pairs
	0x3c003c00, 0x7c00fc00, 0x7e000001,
}

func pickVal(r *vlib.PRNG) uint32 {
	x := r.Uint64()
	switch x & 7 {
	case 0, 1, 2:
		return cornerVals[(x>>3)%uint64(len(cornerVals))]
	case 3:
		return uint32(x>>3) & 63
	case 4:
		// a float of moderate magnitude
		return uint32(x>>3&1)<<31 | uint32(100+(x>>4)%60)<<23 | uint32(x>>40)&0x7fffff
	}
	return uint32(x >> 32)
}

// fillLane writes fresh random data into v0..v31 of one lane and then the
// address registers the probe needs, pointing into the lane's own region.
// owner is the *logical* lane whose region the addresses point into.
func fillLane(p *probe, s *lstate, lane, owner int, r *vlib.PRNG) {
	for reg := 0; reg < nRandRegs; reg++ {
		s.setVreg(lane, reg, pickVal(r))
	}
	setAddr(p, s, lane, owner, r)
}

func setAddr(p *probe, s *lstate, lane, owner int, r *vlib.PRNG) {
	areg := rAddr
	switch {
	case p.lds:
		if p.inst.Addr != nil && p.inst.Addr.Register != nil {
			areg = p.inst.Addr.Register.RegIndex()
		}
		a := uint32(ldsPad + owner*ldsStride + 256 + 8*r.Intn(32))
		s.setVreg(lane, areg, a)
	case p.mem == memFlat64:
		if p.inst.Addr != nil && p.inst.Addr.Register != nil {
			areg = p.inst.Addr.Register.RegIndex()
		}
		a := memBase + uint64(owner)*memStride + 0x1800 + 16*uint64(r.Intn(128))
		if p.real {
			a = uint64(int64(realAddr(memBase+uint64(owner)*memStride, r)) - p.desc.Offset) // the effective address is laid out
		}
		s.setVreg(lane, areg, uint32(a))
		s.setVreg(lane, areg+1, uint32(a>>32))
	case p.mem == memSAddr32:
		if p.inst.Addr != nil && p.inst.Addr.Register != nil {
			areg = p.inst.Addr.Register.RegIndex()
		}
		off := uint32(uint64(owner)*memStride + 0x1400 + 16*uint64(r.Intn(64)))
		if base := s.sreg64(p.saddr); p.real && base >= memBase && base < memBase+0x1000 {
			if a := int64(realAddr(memBase+uint64(owner)*memStride, r)) - p.desc.Offset; a >= int64(base) {
				off = uint32(uint64(a) - base)
			}
		}
		s.setVreg(lane, areg, off)
	}
}

// genState builds the base state of one (probe, pair): all lanes random,
// uniform operands random, lane masks random, addresses in disjoint regions.
func genState(p *probe, r *vlib.PRNG) *lstate {
	s := &lstate{vgpr: make([]byte, nLanes*laneBytes), sgpr: make([]byte, 4*nSGPR), pc: pcBase}
	for i := 0; i < nSGPR; i++ {
		binary.LittleEndian.PutUint32(s.sgpr[4*i:], pickVal(r))
	}
	for _, m := range p.maskPairs() {
		s.setSreg64(m, r.Uint64())
	}
	switch r.Intn(4) {
	case 0:
		s.vcc = r.Uint64() & r.Uint64()
	case 1:
		s.vcc = r.Uint64() | r.Uint64()
	default:
		s.vcc = r.Uint64()
	}
	s.scc = byte(r.Intn(2))
	s.m0 = uint32(r.Intn(9))
	for i := range s.salt {
		s.salt[i] = r.Uint64()
	}
	if p.mem == memSAddr32 {
		s.setSreg64(p.saddr, memBase+16*uint64(r.Intn(64)))
	}
	if p.scalar {
		// SMEM base / offset
		s.setSreg64(sBase, memBase+uint64(r.Intn(nLanes))*memStride+0x1000+4*uint64(r.Intn(256)))
		binary.LittleEndian.PutUint32(s.sgpr[4*sOff:], uint32(4*r.Intn(64)))
	}
	if p.lds {
		s.lds = make([]byte, ldsSize)
		r.Bytes(s.lds[ldsPad : ldsPad+nLanes*ldsStride])
		for i := 0; i < ldsPad; i++ {
			s.lds[i] = canary
			s.lds[ldsSize-1-i] = canary
		}
	}
	for lane := 0; lane < nLanes; lane++ {
		fillLane(p, s, lane, lane, r)
	}
	return s
}

// ---------------------------------------------------------------------------
// permutations and masks

type perm [nLanes]int // perm[L] = lane that receives logical lane L's contents

func (pm *perm) identity() bool {
	for i, v := range pm {
		if i != v {
			return false
		}
	}
	return true
}

func permBits(x uint64, pm *perm) uint64 {
	var o uint64
	for x != 0 {
		l := bits.TrailingZeros64(x)
		x &= x - 1
		o |= 1 << uint(pm[l])
	}
	return o
}

func (pm *perm) hash() uint64 {
	h := uint64(1469598103934665603)
	for _, v := range pm {
		h = (h ^ uint64(v)) * 1099511628211
	}
	return h
}

func mkPerm(kind int, r *vlib.PRNG) (pm perm, name string) {
	for i := range pm {
		pm[i] = i
	}
	switch kind {
	case 0:
		return pm, "identity"
	case 1:
		for i := range pm {
			pm[i] = nLanes - 1 - i
		}
		return pm, "reversal"
	case 2:
		for i := range pm {
			pm[i] = (i + 1) % nLanes
		}
		return pm, "rotate1"
	case 3:
		pm[0], pm[63] = 63, 0
		return pm, "swap0-63"
	}
	q := r.Perm(nLanes)
	copy(pm[:], q)
	return pm, "random"
}

// permute builds pi(s): lane contents, EXEC / VCC bits and the bits of the
// lane-mask SGPR pairs move with their lanes; uniform operands, memory and LDS
// stay where they are (addresses are lane contents and move with the lanes).
func permute(p *probe, s *lstate, pm *perm) *lstate {
	o := *s
	o.vgpr = make([]byte, len(s.vgpr))
	for l := 0; l < nLanes; l++ {
		copy(o.vgpr[pm[l]*laneBytes:(pm[l]+1)*laneBytes], s.vgpr[l*laneBytes:(l+1)*laneBytes])
	}
	o.sgpr = append([]byte(nil), s.sgpr...)
	o.exec = permBits(s.exec, pm)
	o.vcc = permBits(s.vcc, pm)
	for _, m := range p.maskPairs() {
		o.setSreg64(m, permBits(s.sreg64(m), pm))
	}
	return &o
}

// scramble replaces every input that belongs to a lane outside keep: VGPR
// contents (addresses stay inside the lane's own region), VCC / lane-mask
// bits, the lane's memory and LDS regions. EXEC is left alone.
func scramble(p *probe, s *lstate, keep uint64, r *vlib.PRNG) *lstate {
	o := s.clone()
	var flip uint64
	for l := 0; l < nLanes; l++ {
		if keep&(1<<uint(l)) != 0 {
			continue
		}
		flip |= 1 << uint(l)
		fillLane(p, o, l, l, r)
		o.salt[l] = r.Uint64()
		if o.lds != nil {
			r.Bytes(o.lds[ldsPad+l*ldsStride : ldsPad+(l+1)*ldsStride])
		}
	}
	o.vcc = s.vcc&^flip | r.Uint64()&flip
	for _, m := range p.maskPairs() {
		o.setSreg64(m, s.sreg64(m)&^flip|r.Uint64()&flip)
	}
	return o
}

var fixedMasks = []uint64{
	0xffffffffffffffff, 0, 0x00000000ffffffff, 0xffffffff00000000, 0x5555555555555555, 0xaaaaaaaaaaaaaaaa,
	0xfffffffffffffffe, 0x7fffffffffffffff, 0x0000ffffffff0000,
}
var fixedMaskNames = []string{"all-one", "all-zero", "low-half", "high-half", "alternating-even", "alternating-odd", "all-but-0", "all-but-63", "middle"}

func randMask(r *vlib.PRNG) uint64 {
	switch r.Intn(5) {
	case 0:
		return r.Uint64() & r.Uint64() & r.Uint64()
	case 1:
		return r.Uint64() | r.Uint64() | r.Uint64()
	case 2:
		// a contiguous run
		lo, n := r.Intn(64), 1+r.Intn(64)
		var m uint64
		for i := 0; i < n && lo+i < 64; i++ {
			m |= 1 << uint(lo+i)
		}
		return m
	}
	return r.Uint64()
}

// ---------------------------------------------------------------------------
// hashing of outputs (behaviour fingerprints)

type fnv64 uint64

func newFnv() fnv64 { return 14695981039346656037 }
func (h *fnv64) bytes(b []byte) {
	x := uint64(*h)
	for _, c := range b {
		x = (x ^ uint64(c)) * 1099511628211
	}
	*h = fnv64(x)
}
func (h *fnv64) u64(v uint64) {
	var b [8]byte
	binary.LittleEndian.PutUint64(b[:], v)
	h.bytes(b[:])
}

func (h *fnv64) state(p *probe, r runResult) {
	if r.pan != "" {
		h.bytes([]byte("panic"))
		return
	}
	o := r.out
	for l := 0; l < nLanes; l++ {
		h.bytes(o.vgpr[l*laneBytes : l*laneBytes+4*nRandRegs])
	}
	h.bytes(o.sgpr)
	h.u64(o.vcc)
	h.u64(o.exec)
	h.u64(uint64(o.scc))
	h.u64(o.pc)
	keys := make([]uint64, 0, len(o.memW))
	for k := range o.memW {
		keys = append(keys, k)
	}
	sort.Slice(keys, func(i, j int) bool { return keys[i] < keys[j] })
	for _, k := range keys {
		h.u64(k)
		h.u64(uint64(o.memW[k]))
	}
	if o.lds != nil {
		h.bytes(o.lds)
	}
}
