package main

// Initial-EXEC layer of C06: "no lane is enabled that holds no work-item; lanes
// with EXEC = 0 perform no access", at launch level.
//
// The ALU-level monitor (main.go / check.go) takes EXEC as an input. This layer
// judges the EXEC a wavefront *starts* with (anchor mechanism "initial EXEC for
// partial wavefronts", kernels.gridBuilderImpl.formWavefronts InitExecMask):
// real kernels.GridBuilder -> real compute unit -> a small assembled kernel
// without any bounds check in which every enabled lane
//
//	(a) stores a 16-byte record {EXEC as read by the FIRST instruction
//	    (s_mov_b64 s[10:11], exec), its hardware-initialised work-item ids,
//	    the work-group ids} into rec[(wgLinear*W + localFlat/64)*64 +
//	    localFlat%64] (W = wavefront slots of an unclipped work-group), and
//	(b) increments its own cell of a counter box whose pitches are the
//	    *unclipped* extents nWG*WGsize, so that a lane enabled outside the
//	    grid hits a cell no in-grid work-item owns (with the grid's own pitch
//	    it would alias a cell of the next row).
//
// Oracle, from the launch geometry alone: wavefront slot k of work-group g must
// start with EXEC = { l : work-item 64k+l, decomposed by the work-group's
// SizeX/SizeY the way both compute units do, lies inside the clipped
// work-group }; the lanes that performed the record store must be exactly the
// bits of the recorded EXEC; sum of popcounts = number of work-items; every
// grid cell incremented once; every other cell of the box and both guard
// regions untouched.

import (
	"encoding/binary"
	"fmt"
	"math/bits"
	"os"

	"github.com/sarchlab/akita/v4/mem/mem"
	"github.com/sarchlab/akita/v4/mem/vm"
	"github.com/sarchlab/akita/v4/sim"
	"github.com/sarchlab/mgpusim/v4/amd/emu"
	"github.com/sarchlab/mgpusim/v4/amd/insts"
	"github.com/sarchlab/mgpusim/v4/amd/kernels"
	"github.com/sarchlab/mgpusim/v4/amd/protocol"
	"github.com/sarchlab/mgpusim/v4/amd/timing/cu"
	"github.com/sarchlab/mgpusim/v4/amd/timing/wavefront"

	"verifharness/vlib"
	"verifharness/vlib/gcnasm"
	"verifharness/vlib/simkit"
)

type ixCase struct {
	IX   bool      `json:"initexec"` // marks the case kind in replay files
	Name string    `json:"name"`
	Grid [3]uint32 `json:"grid"`
	WG   [3]uint16 `json:"wg"`
}

// ---------------------------------------------------------------------------
// geometry model (the monitor's own; nothing is taken from the grid builder)

type ixGeom struct {
	c     *ixCase
	wg    [3]int // work-group extents
	grid  [3]int
	nwg   [3]int // work-groups per dimension
	pitch [3]int // unclipped extents nwg*wg
	W     int    // wavefront slots of an unclipped work-group
	cells int    // cells of the counter box
	gLo   int    // guard cells in front of the box
	gHi   int    // guard cells behind the box
	slots int    // nWG * W
	items int    // work-items of the grid
}

func newIxGeom(c *ixCase) *ixGeom {
	g := &ixGeom{c: c}
	for d := 0; d < 3; d++ {
		g.wg[d], g.grid[d] = int(c.WG[d]), int(c.Grid[d])
		g.nwg[d] = (g.grid[d] + g.wg[d] - 1) / g.wg[d]
		g.pitch[d] = g.nwg[d] * g.wg[d]
	}
	g.W = (g.wg[0]*g.wg[1]*g.wg[2] + 63) / 64
	g.cells = g.pitch[0] * g.pitch[1] * g.pitch[2]
	g.gLo = 256
	// a lane of the last wavefront slot may decode to z = SizeZ (one slice
	// above the work-group): keep two slices of the box plus slack behind it
	g.gHi = 2*g.pitch[0]*g.pitch[1] + 256
	g.slots = g.nwg[0] * g.nwg[1] * g.nwg[2] * g.W
	g.items = g.grid[0] * g.grid[1] * g.grid[2]
	return g
}

func (g *ixGeom) wgOf(lin int) [3]int {
	return [3]int{lin % g.nwg[0], lin / g.nwg[0] % g.nwg[1], lin / (g.nwg[0] * g.nwg[1])}
}

// curr: extents of work-group id after clipping at the grid edge.
func (g *ixGeom) curr(id [3]int) [3]int {
	var c [3]int
	for d := 0; d < 3; d++ {
		c[d] = g.grid[d] - id[d]*g.wg[d]
		if c[d] > g.wg[d] {
			c[d] = g.wg[d]
		}
	}
	return c
}

// decode: work-item id -> local coordinates, as emu.ComputeUnit.initWfRegs and
// cu.WfDispatcherImpl.initRegisters do.
func (g *ixGeom) decode(flat int) [3]int {
	xy := g.wg[0] * g.wg[1]
	return [3]int{flat % xy % g.wg[0], flat % xy / g.wg[0], flat / xy}
}

// expected: the lanes of wavefront slot k of work-group id that hold a
// work-item.
func (g *ixGeom) expected(id [3]int, k int) uint64 {
	cur := g.curr(id)
	var m uint64
	for l := 0; l < 64; l++ {
		p := g.decode(64*k + l)
		if p[0] < cur[0] && p[1] < cur[1] && p[2] < cur[2] {
			m |= 1 << uint(l)
		}
	}
	return m
}

type ixShape struct {
	wavefronts, partial, lane0Clipped, emptySlots int
}

// shape counts what the geometry offers: wavefronts that must exist, partial
// ones, those whose lane-0 work-item is clipped away while later lanes hold
// work-items, and slots of the unclipped work-group that hold no work-item.
func (g *ixGeom) shape() ixShape {
	var s ixShape
	n := g.nwg[0] * g.nwg[1] * g.nwg[2]
	for lin := 0; lin < n; lin++ {
		id := g.wgOf(lin)
		for k := 0; k < g.W; k++ {
			e := g.expected(id, k)
			switch {
			case e == 0:
				s.emptySlots++
			default:
				s.wavefronts++
				if e != ^uint64(0) {
					s.partial++
				}
				if e&1 == 0 {
					s.lane0Clipped++
				}
			}
		}
	}
	return s
}

func ixInit(i int) uint32 { return uint32(i)*2654435761 + 12345 }

// ---------------------------------------------------------------------------
// the kernel

const (
	ixSgprs = 32
	ixVgprs = 16
)

// ixKernel assembles the kernel for one geometry (all geometry constants are
// literals). s[0:1] kernarg pointer {out, rec}, s2/s3/s4 work-group id x/y/z,
// v0/v1/v2 work-item id x/y/z.
func ixKernel(g *ixGeom) *insts.KernelCodeObject {
	A := gcnasm.GCN3
	S, V, L := gcnasm.S, gcnasm.V, func(v int) gcnasm.Operand { return gcnasm.Lit(uint32(v)) }
	sop2 := func(name string, d, a, b gcnasm.Operand) gcnasm.Desc { return gcnasm.MkSOP2(0, d, a, b).N(A, name) }
	vop2 := func(name string, d, a, b gcnasm.Operand) gcnasm.Desc { return gcnasm.MkVOP2(0, d, a, b).N(A, name) }
	vmov := func(d, a gcnasm.Operand) gcnasm.Desc { return gcnasm.MkVOP1(0, d, a).N(A, "v_mov_b32") }
	p := gcnasm.NewProgram(A)
	p.Add(
		// the FIRST instruction: the EXEC the wavefront was started with
		gcnasm.MkSOP1(0, gcnasm.SRange(10, 2), gcnasm.EXEC).N(A, "s_mov_b64"),
		gcnasm.SMEMLoadImm(gcnasm.OpSLoadDwordx4, gcnasm.SRange(12, 4), gcnasm.SRange(0, 2), 0),
		// v3 = local flat id = (z*SizeY + y)*SizeX + x
		vop2("v_mul_u32_u24", V(3), L(g.wg[1]), V(2)),
		vop2("v_add_u32", V(3), V(3), V(1)),
		vop2("v_mul_u32_u24", V(3), L(g.wg[0]), V(3)),
		vop2("v_add_u32", V(3), V(3), V(0)),
		// s5 = linear work-group id * (W*64)
		sop2("s_mul_i32", S(5), S(4), L(g.nwg[1])),
		sop2("s_add_u32", S(5), S(5), S(3)),
		sop2("s_mul_i32", S(5), S(5), L(g.nwg[0])),
		sop2("s_add_u32", S(5), S(5), S(2)),
		sop2("s_mul_i32", S(5), S(5), L(g.W*64)),
		// s6 = packed work-group ids
		sop2("s_lshl_b32", S(6), S(3), L(10)),
		sop2("s_add_u32", S(6), S(6), S(2)),
		sop2("s_lshl_b32", S(7), S(4), L(20)),
		sop2("s_add_u32", S(6), S(6), S(7)),
		gcnasm.Waitcnt(15, 7, 0),
		// v[4:5] = rec + 16 * (s5 + v3)
		vop2("v_add_u32", V(4), S(5), V(3)),
		vop2("v_lshlrev_b32", V(4), L(4), V(4)),
		vmov(V(5), S(15)),
		vop2("v_add_u32", V(4), S(14), V(4)),
		vop2("v_addc_u32", V(5), gcnasm.Imm(0), V(5)),
		// v[6:9] = {exec lo, exec hi, marker | z<<20 | y<<10 | x, work-group ids}
		vmov(V(6), S(10)),
		vmov(V(7), S(11)),
		vop2("v_lshlrev_b32", V(8), L(10), V(1)),
		vop2("v_or_b32", V(8), V(0), V(8)),
		vop2("v_lshlrev_b32", V(9), L(20), V(2)),
		vop2("v_or_b32", V(8), V(9), V(8)),
		vop2("v_or_b32", V(8), gcnasm.Lit(0x80000000), V(8)),
		vmov(V(9), S(6)),
		gcnasm.FlatStore(gcnasm.OpFlatStoreDwordx4, gcnasm.VRange(4, 2), gcnasm.VRange(6, 4)),
		// v12 = cell = ((gz*pitchY + gy)*pitchX + gx), g* = wgid*Size + local id
		sop2("s_mul_i32", S(7), S(2), L(g.wg[0])),
		vop2("v_add_u32", V(10), S(7), V(0)),
		sop2("s_mul_i32", S(7), S(3), L(g.wg[1])),
		vop2("v_add_u32", V(11), S(7), V(1)),
		sop2("s_mul_i32", S(7), S(4), L(g.wg[2])),
		vop2("v_add_u32", V(12), S(7), V(2)),
		vop2("v_mul_u32_u24", V(12), L(g.pitch[1]), V(12)),
		vop2("v_add_u32", V(12), V(12), V(11)),
		vop2("v_mul_u32_u24", V(12), L(g.pitch[0]), V(12)),
		vop2("v_add_u32", V(12), V(12), V(10)),
		vop2("v_lshlrev_b32", V(12), L(2), V(12)),
		vmov(V(13), S(13)),
		vop2("v_add_u32", V(12), S(12), V(12)),
		vop2("v_addc_u32", V(13), gcnasm.Imm(0), V(13)),
		gcnasm.FlatLoad(gcnasm.OpFlatLoadDword, V(14), gcnasm.VRange(12, 2)),
		gcnasm.Waitcnt(0, 7, 0),
		vop2("v_add_u32", V(14), L(1), V(14)),
		gcnasm.FlatStore(gcnasm.OpFlatStoreDword, gcnasm.VRange(12, 2), V(14)),
		gcnasm.WaitcntAll(),
		gcnasm.Endpgm(),
	)
	meta := &insts.KernelCodeObjectMeta{
		ComputePgmRsrc1:             uint32((ixVgprs+3)/4-1) | uint32(ixSgprs/8-1)<<6,
		ComputePgmRsrc2:             1<<7 | 1<<8 | 1<<9 | 2<<11, // work-group id x,y,z; work-item id x,y,z
		KernargSegmentByteSize:      16,
		EnableSgprKernargSegmentPtr: true,
		WFSgprCount:                 ixSgprs,
		WIVgprCount:                 ixVgprs,
	}
	return &insts.KernelCodeObject{KernelCodeObjectMeta: meta, Data: p.MustBytes(), Version: insts.CodeObjectV3}
}

// ---------------------------------------------------------------------------
// case generation

var ixOddX = []int{3, 5, 6, 7, 9, 10, 11, 12, 13, 14, 15, 17, 18, 20, 21, 22, 24, 25, 28, 30, 33, 36, 40, 43, 48, 50, 56, 60, 63, 65, 66, 72, 80, 96, 100}

func ixPickExtent(r *vlib.PRNG, max int, oddBias bool) int {
	if max < 1 {
		return 1
	}
	for try := 0; try < 8; try++ {
		var v int
		switch {
		case oddBias && r.Chance(3, 4):
			v = ixOddX[r.Intn(len(ixOddX))]
		case r.Chance(1, 4):
			v = 1 << uint(r.Intn(8))
		default:
			v = 1 + r.Intn(max)
		}
		if v <= max {
			return v
		}
	}
	return 1 + r.Intn(max)
}

// genIxCase draws a launch geometry: 1-3 D, work-group extents mostly not
// powers of two, grid extents mostly not multiples of the work-group's.
// needSeedShape: redraw until at least one wavefront has its lane-0 work-item
// clipped away while later lanes hold work-items.
func genIxCase(r *vlib.PRNG, idx, maxCells, maxWfs int, needSeedShape bool) *ixCase {
	for try := 0; ; try++ {
		rr := r.ForkN("try", try)
		c := &ixCase{IX: true, Name: fmt.Sprintf("ix%d", idx)}
		dims := []int{1, 2, 2, 2, 3, 3}[rr.Intn(6)]
		if needSeedShape && dims == 1 {
			dims = 2 + rr.Intn(2)
		}
		wg := [3]int{1, 1, 1}
		switch dims {
		case 1:
			wg[0] = ixPickExtent(rr, 300, false)
		case 2:
			wg[0] = ixPickExtent(rr, 100, true)
			wg[1] = ixPickExtent(rr, imin(12, 512/wg[0]), false)
		default:
			wg[0] = ixPickExtent(rr, 40, true)
			wg[1] = ixPickExtent(rr, imin(10, 256/wg[0]), rr.Bool())
			wg[2] = ixPickExtent(rr, imin(6, 512/(wg[0]*wg[1])), false)
		}
		var grid [3]int
		for d := 0; d < 3; d++ {
			if d >= dims {
				grid[d] = 1
				continue
			}
			full := rr.Intn(3) // 0..2 complete work-groups in front of the last one
			switch rr.Intn(6) {
			case 0:
				grid[d] = (full + 1) * wg[d] // a multiple
			default:
				if wg[d] == 1 {
					grid[d] = full + 1
				} else {
					grid[d] = full*wg[d] + 1 + rr.Intn(wg[d]-1) // clipped last work-group
				}
			}
		}
		for d := 0; d < 3; d++ {
			c.Grid[d], c.WG[d] = uint32(grid[d]), uint16(wg[d])
		}
		g := newIxGeom(c)
		if g.cells > maxCells || g.slots > maxWfs {
			if try < 200 {
				continue
			}
		}
		if needSeedShape && g.shape().lane0Clipped == 0 && try < 400 {
			continue
		}
		return c
	}
}

func imin(a, b int) int {
	if a < b {
		return a
	}
	return b
}

func canonicalIxCases() []*ixCase {
	mk := func(n string, g [3]uint32, w [3]uint16) *ixCase { return &ixCase{IX: true, Name: n, Grid: g, WG: w} }
	return []*ixCase{
		// a multiple-of-64 work-item id falls into a row / slice clipped at the grid edge
		mk("canon-48x4-grid58x4", [3]uint32{58, 4, 1}, [3]uint16{48, 4, 1}),
		mk("canon-96x2-grid100x7", [3]uint32{100, 7, 1}, [3]uint16{96, 2, 1}),
		mk("canon-24x6x2-grid30x9x3", [3]uint32{30, 9, 3}, [3]uint16{24, 6, 2}),
		mk("canon-8x6x4-grid8x8x4", [3]uint32{8, 8, 4}, [3]uint16{8, 6, 4}),
		mk("canon-10x10-grid13x27", [3]uint32{13, 27, 1}, [3]uint16{10, 10, 1}),
		mk("canon-33x5-grid40x12", [3]uint32{40, 12, 1}, [3]uint16{33, 5, 1}),
		mk("canon-12x5x4-grid17x7x9", [3]uint32{17, 7, 9}, [3]uint16{12, 5, 4}),
		mk("canon-3x5x7-grid7x8x10", [3]uint32{7, 8, 10}, [3]uint16{3, 5, 7}),
		// the same work-group shapes with grids that are multiples (no clipping)
		mk("canon-48x4-grid96x8", [3]uint32{96, 8, 1}, [3]uint16{48, 4, 1}),
		mk("canon-24x6x2-grid48x12x4", [3]uint32{48, 12, 4}, [3]uint16{24, 6, 2}),
		// powers of two, clipped; one dimension; a single clipped work-group
		mk("canon-16x16-grid33x17", [3]uint32{33, 17, 1}, [3]uint16{16, 16, 1}),
		mk("canon-8x8x4-grid20x12x5", [3]uint32{20, 12, 5}, [3]uint16{8, 8, 4}),
		mk("canon-1d-100-grid250", [3]uint32{250, 1, 1}, [3]uint16{100, 1, 1}),
		mk("canon-1d-256-grid1025", [3]uint32{1025, 1, 1}, [3]uint16{256, 1, 1}),
		mk("canon-single-wg-40x5-grid7x3", [3]uint32{7, 3, 1}, [3]uint16{40, 5, 1}),
		mk("canon-1x1x64-grid1x1x130", [3]uint32{1, 1, 130}, [3]uint16{1, 1, 64}),
	}
}

// ---------------------------------------------------------------------------
// oracle over the two buffers

type ixJudge struct {
	rec  vlib.Recorder
	g    *ixGeom
	mode string // "emu" | "timing"
	path string // how the compute unit was reached
	// absent: what a wavefront slot without an observation means on this path
	absent string
	fired  map[string]bool
}

func (j *ixJudge) viol(key, what string, extra map[string]any) {
	if j.fired[key] {
		return
	}
	j.fired[key] = true
	w := map[string]any{"case": j.g.c, "mode": j.mode, "path": j.path}
	for k, v := range extra {
		w[k] = v
	}
	j.rec.Violation("C06|initial-exec|"+key+"|"+j.mode,
		fmt.Sprintf("[%s, %s, grid %v, work-group %v] %s", j.mode, j.path, j.g.c.Grid, j.g.c.WG, what), w)
}

const ixAbsentRun = "never ran (no lane of it left a record)"

func hx64(v uint64) string { return fmt.Sprintf("%#016x", v) }

// judgeExec checks the initial EXEC of every wavefront slot. got(slot) returns
// the EXEC value the wavefront recorded (0, false if the slot has no record).
// It returns the sum of popcounts.
func (j *ixJudge) judgeExec(got func(lin, k int) (exec uint64, ok bool)) (sum int) {
	g := j.g
	n := g.nwg[0] * g.nwg[1] * g.nwg[2]
	for lin := 0; lin < n; lin++ {
		id := g.wgOf(lin)
		cur := g.curr(id)
		for k := 0; k < g.W; k++ {
			want := g.expected(id, k)
			exec, ok := got(lin, k)
			if !ok {
				exec = 0
			}
			sum += bits.OnesCount64(exec)
			ids := map[string]any{"wg": id, "wavefront_slot": k, "first_work_item": 64 * k, "initial_exec": hx64(exec),
				"lanes_holding_a_work_item": hx64(want), "clipped_work_group": cur}
			if extra := exec &^ want; extra != 0 {
				l := bits.TrailingZeros64(extra)
				p := g.decode(64*k + l)
				ids["lane"] = l
				j.viol("lane-enabled-without-work-item", fmt.Sprintf("wavefront %d of work-group %v starts with EXEC = %s; the lanes holding a work-item of the clipped work-group %dx%dx%d are %s: "+
					"lane %d (work-item id %d = local (%d,%d,%d)) is enabled but holds no work-item (%d such lanes in this wavefront)",
					k, id, hx64(exec), cur[0], cur[1], cur[2], hx64(want), l, 64*k+l, p[0], p[1], p[2], bits.OnesCount64(extra)), ids)
			}
			if miss := want &^ exec; miss != 0 {
				l := bits.TrailingZeros64(miss)
				p := g.decode(64*k + l)
				ids["lane"] = l
				what := fmt.Sprintf("wavefront %d of work-group %v starts with EXEC = %s", k, id, hx64(exec))
				if !ok {
					what = fmt.Sprintf("wavefront %d of work-group %v %s", k, id, j.absent)
				}
				j.viol("work-item-lane-disabled", fmt.Sprintf("%s; lane %d holds work-item %d = local (%d,%d,%d) of the clipped work-group %dx%dx%d but is disabled (%d such lanes; expected EXEC %s)",
					what, l, 64*k+l, p[0], p[1], p[2], cur[0], cur[1], cur[2], bits.OnesCount64(miss), hx64(want)), ids)
			}
		}
	}
	return sum
}

// judgeBuffers: rec = 4 words per (slot, lane), out = guard | box | guard.
func (j *ixJudge) judgeBuffers(recBuf, out []uint32) {
	g := j.g
	var ranLanes, agree int64
	got := func(lin, k int) (uint64, bool) {
		slot := lin*g.W + k
		id := g.wgOf(lin)
		var exec, ran uint64
		have := false
		for l := 0; l < 64; l++ {
			w := recBuf[(slot*64+l)*4 : (slot*64+l)*4+4]
			if w[2]&0x80000000 == 0 {
				if w[0]|w[1]|w[2]|w[3] != 0 {
					j.viol("record-partially-written", fmt.Sprintf("record of lane %d of wavefront %d of work-group %v holds %x without the marker", l, k, id, w), nil)
				}
				continue
			}
			ran |= 1 << uint(l)
			e := uint64(w[0]) | uint64(w[1])<<32
			if !have {
				exec, have = e, true
			} else if e != exec {
				j.viol("lanes-of-one-wavefront-recorded-different-exec", fmt.Sprintf("wavefront %d of work-group %v: lane %d recorded EXEC %s, an earlier lane %s", k, id, l, hx64(e), hx64(exec)), nil)
			}
			// the record sits where the lane's own ids put it; they must be
			// the decomposition of work-item 64k+l and the group's ids
			p := g.decode(64*k + l)
			lid := [3]int{int(w[2] & 0x3ff), int(w[2] >> 10 & 0x3ff), int(w[2] >> 20 & 0x3ff)}
			gid := [3]int{int(w[3] & 0x3ff), int(w[3] >> 10 & 0x3ff), int(w[3] >> 20 & 0x3ff)}
			if lid != p || gid != id {
				j.viol("enabled-lane-ids-are-not-its-work-item", fmt.Sprintf("lane %d of wavefront %d of work-group %v recorded work-item id %v in work-group %v; work-item %d of a %dx%dx%d work-group is %v",
					l, k, id, lid, gid, 64*k+l, g.wg[0], g.wg[1], g.wg[2], p), map[string]any{"wg": id, "wavefront_slot": k, "lane": l})
			}
		}
		if !have {
			return 0, false
		}
		ranLanes += int64(bits.OnesCount64(ran))
		if d := ran &^ exec; d != 0 {
			l := bits.TrailingZeros64(d)
			j.viol("lane-with-exec-bit-clear-performed-a-store", fmt.Sprintf("wavefront %d of work-group %v recorded EXEC %s at its first instruction, but lane %d (EXEC bit clear) stored its record (lanes that stored: %s)",
				k, id, hx64(exec), l, hx64(ran)), map[string]any{"wg": id, "wavefront_slot": k, "lane": l})
		}
		if d := exec &^ ran; d != 0 {
			l := bits.TrailingZeros64(d)
			j.viol("enabled-lane-performed-no-store", fmt.Sprintf("wavefront %d of work-group %v recorded EXEC %s at its first instruction, but lane %d (EXEC bit set) stored no record (lanes that stored: %s)",
				k, id, hx64(exec), l, hx64(ran)), map[string]any{"wg": id, "wavefront_slot": k, "lane": l})
		}
		if ran == exec {
			agree++
		}
		return exec, true
	}
	sum := j.judgeExec(got)
	if sum != g.items {
		key := "work-item-lane-disabled"
		if sum > g.items {
			key = "lane-enabled-without-work-item"
		}
		j.viol(key, fmt.Sprintf("the initial EXEC masks of all wavefronts enable %d lanes, the grid has %d work-items", sum, g.items), map[string]any{"popcount_sum": sum})
	}
	j.rec.Count("ix_"+j.mode+"_exec_popcount_sum", int64(sum))
	j.rec.Count("ix_"+j.mode+"_lanes_that_stored_a_record", ranLanes)
	j.rec.Count("ix_"+j.mode+"_wavefronts_store_lanes_equal_exec", agree)

	// the counter box
	var outside, never, twice int
	firstOut, firstNever, firstTwice := -1, -1, -1
	for i := range out {
		d := out[i] - ixInit(i)
		b := i - g.gLo
		inGrid := false
		var p [3]int
		if b >= 0 && b < g.cells {
			p = [3]int{b % g.pitch[0], b / g.pitch[0] % g.pitch[1], b / (g.pitch[0] * g.pitch[1])}
			inGrid = p[0] < g.grid[0] && p[1] < g.grid[1] && p[2] < g.grid[2]
		}
		switch {
		case !inGrid && d != 0:
			outside++
			if firstOut < 0 {
				firstOut = i
			}
		case inGrid && d == 0:
			never++
			if firstNever < 0 {
				firstNever = i
			}
		case inGrid && d != 1:
			twice++
			if firstTwice < 0 {
				firstTwice = i
			}
		}
	}
	cell := func(i int) string {
		b := i - g.gLo
		if b < 0 {
			return fmt.Sprintf("guard word %d in front of the buffer", i)
		}
		if b >= g.cells {
			return fmt.Sprintf("guard word %d behind the buffer", b-g.cells)
		}
		p := [3]int{b % g.pitch[0], b / g.pitch[0] % g.pitch[1], b / (g.pitch[0] * g.pitch[1])}
		return fmt.Sprintf("global id (%d,%d,%d) = local (%d,%d,%d) of work-group (%d,%d,%d)", p[0], p[1], p[2],
			p[0]%g.wg[0], p[1]%g.wg[1], p[2]%g.wg[2], p[0]/g.wg[0], p[1]/g.wg[1], p[2]/g.wg[2])
	}
	if outside > 0 {
		j.viol("write-outside-grid", fmt.Sprintf("%d words outside the %dx%dx%d grid were modified by lanes that hold no work-item; first: %s (init+%d)",
			outside, g.grid[0], g.grid[1], g.grid[2], cell(firstOut), out[firstOut]-ixInit(firstOut)), map[string]any{"word": firstOut, "count": outside})
	}
	if never > 0 {
		j.viol("grid-cell-never-written", fmt.Sprintf("%d cells of the grid were never incremented (their work-item performed no access); first: %s", never, cell(firstNever)),
			map[string]any{"word": firstNever, "count": never})
	}
	if twice > 0 {
		j.viol("grid-cell-written-more-than-once", fmt.Sprintf("%d cells of the grid were not incremented exactly once; first: %s (init+%d)", twice, cell(firstTwice), out[firstTwice]-ixInit(firstTwice)),
			map[string]any{"word": firstTwice, "count": twice})
	}
	j.rec.Count("ix_"+j.mode+"_grid_cells_checked", int64(g.items))
	j.rec.Count("ix_"+j.mode+"_guard_words_checked", int64(len(out)-g.items))
}

// countShape records what the case offered to this mode.
func (j *ixJudge) countShape() {
	s := j.g.shape()
	m := "ix_" + j.mode
	j.rec.Count(m+"_cases", 1)
	j.rec.Count(m+"_wavefronts", int64(s.wavefronts))
	j.rec.Count(m+"_partial_wavefronts", int64(s.partial))
	j.rec.Count(m+"_wavefronts_lane0_clipped_later_lanes_present", int64(s.lane0Clipped))
	j.rec.Count(m+"_slots_entirely_clipped", int64(s.emptySlots))
	j.rec.Count(m+"_work_items", int64(j.g.items))
	if s.lane0Clipped > 0 {
		j.rec.Count(m+"_cases_with_lane0_clipped_wavefront", 1)
	}
	if s.partial > 0 {
		j.rec.Nontrivial("initial-exec/" + j.mode + "/" + ixClass(j.g))
	}
	j.rec.Distinct(m+"_class", ixClass(j.g))
}

func ixClass(g *ixGeom) string {
	dims := 1
	if g.wg[1] > 1 || g.grid[1] > 1 {
		dims = 2
	}
	if g.wg[2] > 1 || g.grid[2] > 1 {
		dims = 3
	}
	part := ""
	for d, n := range []string{"x", "y", "z"} {
		if g.grid[d]%g.wg[d] != 0 {
			part += n
		}
	}
	if part == "" {
		part = "none"
	}
	p2 := "pow2"
	for d := 0; d < 3; d++ {
		if g.wg[d]&(g.wg[d]-1) != 0 {
			p2 = "nonpow2"
		}
	}
	xy := "xy%64=0"
	if (g.wg[0]*g.wg[1])%64 != 0 {
		xy = "xy%64!=0"
	}
	return fmt.Sprintf("%dD/clipped-%s/%s/%s", dims, part, p2, xy)
}

// ---------------------------------------------------------------------------
// emulation: real grid builder -> MapWGReq -> real emu.ComputeUnit

const (
	ixCodeAddr    = 0x1000
	ixKernargAddr = 0x3000
	ixPacketAddr  = 0x3800
	ixOutAddr     = 0x10000
)

func ixPacket(c *ixCase) *kernels.HsaKernelDispatchPacket {
	return &kernels.HsaKernelDispatchPacket{
		WorkgroupSizeX: c.WG[0], WorkgroupSizeY: c.WG[1], WorkgroupSizeZ: c.WG[2],
		GridSizeX: c.Grid[0], GridSizeY: c.Grid[1], GridSizeZ: c.Grid[2],
		KernelObject: ixCodeAddr, KernargAddress: ixKernargAddr,
	}
}

func ixBuildWGs(c *ixCase, co *insts.KernelCodeObject) []*kernels.WorkGroup {
	gb := kernels.NewGridBuilder()
	gb.SetKernel(kernels.KernelLaunchInfo{CodeObject: co, Packet: ixPacket(c), PacketAddr: ixPacketAddr})
	var wgs []*kernels.WorkGroup
	for w := gb.NextWG(); w != nil; w = gb.NextWG() {
		wgs = append(wgs, w)
	}
	return wgs
}

func u32s(b []byte) []uint32 {
	out := make([]uint32, len(b)/4)
	for i := range out {
		out[i] = binary.LittleEndian.Uint32(b[4*i:])
	}
	return out
}

func ixOutInit(g *ixGeom) []byte {
	n := g.gLo + g.cells + g.gHi
	b := make([]byte, 4*n)
	for i := 0; i < n; i++ {
		binary.LittleEndian.PutUint32(b[4*i:], ixInit(i))
	}
	return b
}

func runIxEmuDirect(rec vlib.Recorder, c *ixCase) {
	rec.Eval()
	g := newIxGeom(c)
	j := &ixJudge{rec: rec, g: g, mode: "emu", path: "grid builder -> MapWGReq -> emu.ComputeUnit", absent: ixAbsentRun, fired: map[string]bool{}}
	co := ixKernel(g)
	var wgs []*kernels.WorkGroup
	var pan any
	func() {
		defer func() { pan = recover() }()
		wgs = ixBuildWGs(c, co)
	}()
	if pan != nil {
		j.viol("run-crashed", fmt.Sprintf("the grid builder panicked: %v", pan), nil)
		return
	}
	outBytes := ixOutInit(g)
	recBytes := 16 * 64 * g.slots
	recAddr := uint64(ixOutAddr+len(outBytes)+4095) &^ 4095
	size := (recAddr + uint64(recBytes) + 2*4096 + 4095) &^ 4095
	store := mem.NewStorage(size)
	must := func(err error) {
		if err != nil {
			panic(err)
		}
	}
	must(store.Write(ixCodeAddr, co.Data))
	ka := make([]byte, 16)
	binary.LittleEndian.PutUint64(ka[0:], uint64(ixOutAddr+4*g.gLo)) // the kernel sees the box, not the guard
	binary.LittleEndian.PutUint64(ka[8:], recAddr)
	must(store.Write(ixKernargAddr, ka))
	must(store.Write(ixOutAddr, outBytes))
	pt := vm.NewPageTable(12)
	for a := uint64(0); a < size; a += 4096 {
		pt.Insert(vm.Page{PID: 1, VAddr: a, PAddr: a, PageSize: 4096, Valid: true})
	}
	engine := sim.NewSerialEngine()
	freq := 1 * sim.GHz
	cuE := emu.BuildComputeUnit("EmuCU", engine, insts.NewDisassembler(), pt, 12, store, nil)
	disp := simkit.NewAgent("Disp", engine, freq)
	port := disp.NewPort("ToCU", 4, 4)
	next, done := 0, 0
	disp.TickFn = func(a *simkit.Agent) bool {
		progress := false
		for {
			m := port.RetrieveIncoming()
			if m == nil {
				break
			}
			if cm, ok := m.(*protocol.WGCompletionMsg); ok {
				done += len(cm.RspTo)
			}
			progress = true
		}
		for next < len(wgs) {
			req := protocol.MapWGReqBuilder{}.WithSrc(port.AsRemote()).WithDst(cuE.ToDispatcher.AsRemote()).WithPID(1).WithWG(wgs[next]).Build()
			if err := port.Send(req); err != nil {
				break
			}
			next++
			progress = true
		}
		return progress
	}
	simkit.Connect(engine, freq, "ConnEmu", cuE.ToDispatcher, port)
	disp.TickLater()
	_, livelock, pv := simkit.RunBounded(engine, int64(len(wgs))*4000+200000)
	switch {
	case pv != nil:
		j.viol("run-crashed", fmt.Sprintf("the emulation compute unit panicked while running the marking kernel: %s", firstLine(fmt.Sprint(pv))), nil)
		return
	case livelock || done != len(wgs):
		rec.Inconclusive(fmt.Sprintf("initial-exec %s: emulation run did not complete (%d of %d work-groups, livelock=%v)", c.Name, done, len(wgs), livelock))
		return
	}
	ob, err := store.Read(ixOutAddr, uint64(len(outBytes)))
	must(err)
	rb, err := store.Read(recAddr, uint64(recBytes))
	must(err)
	j.countShape()
	j.judgeBuffers(u32s(rb), u32s(ob))
	if s := g.shape(); s.partial > 0 {
		rec.Count("ix_cases_with_partial_wavefront", 1)
	}

	// the same work-groups through the real timing dispatcher: EXEC right
	// after WfDispatcher.DispatchWf (what cu.ComputeUnit.handleMapWGReq calls)
	runIxTimingDispatcher(rec, c, g, wgs)
}

// runIxTimingDispatcher: initial EXEC of every wavefront as the real timing
// compute unit's WfDispatcher sets it (no kernel runs here; the kernel-level
// timing observation is the driver path in initexec_drv.go).
func runIxTimingDispatcher(rec vlib.Recorder, c *ixCase, g *ixGeom, wgs []*kernels.WorkGroup) {
	j := &ixJudge{rec: rec, g: g, mode: "timing", path: "grid builder -> wavefront.NewWavefront -> cu.WfDispatcher.DispatchWf", absent: "does not exist (the grid builder made no wavefront starting at that work-item)", fired: map[string]bool{}}
	execs := map[[2]int]uint64{}
	var pan any
	func() {
		defer func() { pan = recover() }()
		engine := sim.NewSerialEngine()
		cuT := cu.MakeBuilder().WithEngine(engine).WithFreq(1 * sim.GHz).Build("CU")
		for _, raw := range wgs {
			req := protocol.MapWGReqBuilder{}.WithPID(1).WithWG(raw).Build()
			wg := wavefront.NewWorkGroup(raw, req)
			lin := (raw.IDZ*g.nwg[1]+raw.IDY)*g.nwg[0] + raw.IDX
			var wfs []*wavefront.Wavefront
			for _, rawWf := range raw.Wavefronts {
				wf := wavefront.NewWavefront(rawWf)
				wf.RegAccessor = &cu.CURegFileAccessor{CU: cuT, WF: wf}
				wg.Wfs = append(wg.Wfs, wf)
				wf.WG = wg
				wf.SetPID(1)
				wfs = append(wfs, wf)
			}
			for k, wf := range wfs {
				loc := protocol.WfDispatchLocation{Wavefront: wf.Wavefront, SIMDID: k % 4, VGPROffset: (k / 4) * ixVgprs * 4, SGPROffset: k * ixSgprs * 4}
				cuT.WfDispatcher.DispatchWf(wf, loc)
				key := [2]int{lin, wf.FirstWiFlatID / 64}
				if _, dup := execs[key]; dup {
					j.viol("two-wavefronts-for-one-slot", fmt.Sprintf("work-group (%d,%d,%d) has two wavefronts starting at work-item %d", raw.IDX, raw.IDY, raw.IDZ, wf.FirstWiFlatID), nil)
				}
				execs[key] = wf.EXEC()
			}
		}
	}()
	if pan != nil {
		j.viol("run-crashed", fmt.Sprintf("the timing wavefront dispatcher panicked: %s", firstLine(fmt.Sprint(pan))), nil)
		return
	}
	sum := j.judgeExec(func(lin, k int) (uint64, bool) { e, ok := execs[[2]int{lin, k}]; return e, ok })
	if sum != g.items && len(j.fired) == 0 {
		j.viol("lane-enabled-without-work-item", fmt.Sprintf("the initial EXEC masks enable %d lanes, the grid has %d work-items", sum, g.items), nil)
	}
	rec.Count("ix_timing_dispatcher_cases", 1)
	rec.Count("ix_timing_dispatcher_wavefronts", int64(len(execs)))
	rec.Count("ix_timing_dispatcher_exec_popcount_sum", int64(sum))
}

func ixCasesEmu(c *vlib.Check) []*ixCase {
	out := canonicalIxCases()
	n := c.N(1500, 20000)
	if os.Getenv("C06_ONLY_CANONICAL") != "" {
		n = 0
	}
	base := c.Rand("initexec-emu")
	for i := 0; i < n; i++ {
		out = append(out, genIxCase(base.ForkN("c", i), i, c.N(6000, 20000), c.N(160, 400), i%4 == 0))
	}
	return out
}

// ---------------------------------------------------------------------------
// evidence texts and minimums

const ixRule = "Initial-EXEC layer: case = one launch geometry (1-3 D; work-group extents mostly not powers of two; grid mostly not a multiple of the work-group; " +
	"seeded plus a canonical battery) run as real kernels.GridBuilder -> real compute unit with a marking kernel that has no bounds check; a case counts for the minimums only through its " +
	"wavefronts: partial ones (initial EXEC neither 0 nor all ones by the geometry) and those whose lane-0 work-item is clipped away while later lanes hold work-items"

const ixAssumption1 = "initial-EXEC layer: lane l of wavefront slot k of a work-group is work-item 64k+l, decomposed by the work-group's (unclipped) SizeX/SizeY " +
	"(emu.ComputeUnit.initWfRegs and cu.WfDispatcherImpl.initRegisters, read); it holds a work-item iff that decomposition lies inside the work-group clipped at the grid edge; " +
	"the expected masks come from the launch geometry alone, nothing is taken from the grid builder's objects"

const ixAssumption2 = "initial-EXEC layer: EXEC is observed architecturally (s_mov_b64 of exec as the kernel's first instruction, stored by every enabled lane next to its hardware-initialised ids); " +
	"the lane index inside the wavefront is taken from the lane's own work-item id (v_mbcnt is not implemented by the emulator), so a wrong id register shows as 'enabled-lane-ids-are-not-its-work-item'; " +
	"the counter box uses the unclipped pitches nWG*WGsize so that a lane enabled outside the grid hits a cell owned by no work-item; timing is observed twice: EXEC right after the real " +
	"WfDispatcher.DispatchWf for every geometry, and the whole kernel through the real driver on the r9nano platform for a subset (one child process per batch)"

func ixMinCounters() map[string]int64 {
	if os.Getenv("C06_ONLY_CANONICAL") != "" {
		return map[string]int64{
			"ix_emu_partial_wavefronts": 100, "ix_emu_wavefronts_lane0_clipped_later_lanes_present": 20,
			"ix_timing_partial_wavefronts": 20, "ix_timing_wavefronts_lane0_clipped_later_lanes_present": 5,
			"ix_timing_dispatcher_cases": 16,
		}
	}
	return map[string]int64{
		"ix_emu_cases": 1000, "ix_emu_wavefronts": 12000, "ix_emu_partial_wavefronts": 8000,
		"ix_emu_wavefronts_lane0_clipped_later_lanes_present": 1500, "ix_emu_cases_with_lane0_clipped_wavefront": 400,
		"ix_emu_slots_entirely_clipped": 2500, "ix_emu_wavefronts_store_lanes_equal_exec": 12000,
		"ix_emu_driver_cases": 50, "ix_emu_grid_cells_checked": 400000, "ix_emu_guard_words_checked": 1500000,
		"ix_timing_dispatcher_cases": 1000, "ix_timing_dispatcher_wavefronts": 12000,
		"ix_timing_driver_cases": 60, "ix_timing_partial_wavefronts": 300,
		"ix_timing_wavefronts_lane0_clipped_later_lanes_present": 100, "ix_timing_cases_with_lane0_clipped_wavefront": 45,
		"ix_timing_wavefronts_store_lanes_equal_exec": 400, "ix_timing_grid_cells_checked": 12000,
	}
}
