package main

// Timing in-flight layer of C06: lane independence / EXEC clauses for memory
// instructions whose effect is applied later than their issue in timing mode.
//
// Generated GCN3 kernels run through the real driver on the r9nano timing
// platform (and, as the reference, on the emulation platform, which applies
// loads at issue): set EXEC to M1; issue flat loads (dword/x2/x4, ubyte, sbyte,
// ushort), flat stores (dword/x2/x4), ds_write/ds_read under M1; WITHOUT waiting
// change EXEC to M2 (s_mov exec / s_and_saveexec / s_xor / s_or with the saved
// mask); optionally more accesses / VALU writes under M2 (same destination
// registers only for disjoint lanes); s_waitcnt; finally all data VGPRs and the
// store / LDS state are dumped under full EXEC.
//
// Oracle = host model: lane i's destination after the wait holds the loaded
// value iff bit i of the EXEC at issue, regardless of any later EXEC; lanes
// outside it keep their value and perform no access; stores reach memory for
// exactly the lanes enabled at issue. A tap on every compute unit's ToVectorMem
// port counts the load responses that were taken off the port while the
// wavefront's EXEC differed from the EXEC at issue (minimum, else inconclusive).

import (
	"encoding/json"
	"fmt"
	"math/bits"
	"os"
	"sync/atomic"
	"time"

	"github.com/sarchlab/akita/v4/mem/mem"
	"github.com/sarchlab/akita/v4/sim"
	"github.com/sarchlab/mgpusim/v4/amd/driver"
	"github.com/sarchlab/mgpusim/v4/amd/insts"
	"github.com/sarchlab/mgpusim/v4/amd/timing/cu"

	"verifharness/vlib"
	"verifharness/vlib/gcnasm"
	"verifharness/vlib/plat"
)

// ifMask travels as a hex string: witnesses pass through JSON as float64
// (child record -> parent -> replay file), which does not hold 64 bits.
type ifMask uint64

func (m ifMask) MarshalJSON() ([]byte, error) { return json.Marshal(fmt.Sprintf("%#016x", uint64(m))) }
func (m *ifMask) UnmarshalJSON(b []byte) error {
	var s string
	if err := json.Unmarshal(b, &s); err != nil {
		return err
	}
	var v uint64
	if _, err := fmt.Sscanf(s, "0x%x", &v); err != nil {
		return err
	}
	*m = ifMask(v)
	return nil
}

type ifStep struct {
	// Kind: exec-mov | exec-and-saveexec | exec-xor-saved | exec-or-saved |
	// load | store | alu | ds-write | ds-read | wait
	Kind string `json:"kind"`
	Mask ifMask `json:"mask,omitempty"`
	Op   string `json:"op,omitempty"`  // load / store mnemonic
	Reg  int    `json:"reg,omitempty"` // first destination / data VGPR
	Src  int    `json:"src,omitempty"` // alu source VGPR
	Acc  int    `json:"acc,omitempty"` // access slot (address register pair 32+2*Acc)
}

type ifCase struct {
	IF     bool     `json:"inflight"`
	Name   string   `json:"name"`
	NWG    int      `json:"nwg"`
	WGSize int      `json:"wg_size"`
	Steps  []ifStep `json:"steps"`
}

const (
	ifFirstData = 16 // v16..v27 data registers, v28 ds_read destination
	ifNumData   = 13
	ifMaxAcc    = 12
	ifAddr0     = 32
	ifVgprs     = 64
	ifSgprs     = 32
)

var ifLoadWidth = map[string]int{"flat_load_dword": 1, "flat_load_dwordx2": 2, "flat_load_dwordx4": 4, "flat_load_ubyte": 1, "flat_load_sbyte": 1, "flat_load_ushort": 1}
var ifStoreWidth = map[string]int{"flat_store_dword": 1, "flat_store_dwordx2": 2, "flat_store_dwordx4": 4}

func ifOld(r, gid int) uint32 { return (0xA5000000 + uint32(r)*0x00010101) ^ uint32(gid) }
func ifIn(a, gid, w int) uint32 {
	return uint32(a+1)*0x01000193 ^ uint32(gid)*2654435761 + uint32(w)*0x9E3779B9
}
func ifStInit(a, gid, w int) uint32 { return 0x5A000000 ^ uint32(a)<<16 ^ uint32(gid)<<2 ^ uint32(w) }
func ifLdsInit(gid int) uint32      { return 0x1D500000 ^ uint32(gid) }
func ifAluLit(step int) uint32      { return 0x0F0F0F0F + uint32(step)*0x01010101 }
func (c *ifCase) n() int            { return c.NWG * c.WGSize }
func ifLoaded(op string, v uint32) uint32 {
	switch op {
	case "flat_load_ubyte":
		return v & 0xff
	case "flat_load_sbyte":
		return uint32(int32(int8(v)))
	case "flat_load_ushort":
		return v & 0xffff
	}
	return v
}

// ---------------------------------------------------------------------------
// host model

type ifCell struct {
	val, prev uint32
	writer    int // step that wrote it last (-1: initial value)
}

type ifModel struct {
	c         *ifCase
	regs      [][]ifCell          // [data reg][gid]
	st        map[int][][4]uint32 // store slot -> [gid] words
	stIssue   map[int]uint64      // store slot -> EXEC at issue
	stWidth   map[int]int
	lds       []ifCell
	issueExec map[int]uint64 // access slot -> EXEC at issue (loads and stores)
	touched   [][]uint64     // [data reg] -> union of issue EXECs of accesses writing it
	// static precondition: loads of which an issuing lane is disabled before the next wait
	loadsFlippedInFlight int
	loadsPartial         int
}

// ifRun executes the model. The masks evolve identically in every wavefront.
func ifRun(c *ifCase) *ifModel {
	n := c.n()
	m := &ifModel{c: c, st: map[int][][4]uint32{}, stIssue: map[int]uint64{}, stWidth: map[int]int{}, issueExec: map[int]uint64{}}
	m.regs = make([][]ifCell, ifNumData)
	m.touched = make([][]uint64, ifNumData)
	for r := range m.regs {
		m.regs[r] = make([]ifCell, n)
		m.touched[r] = make([]uint64, 1)
		for g := 0; g < n; g++ {
			m.regs[r][g] = ifCell{val: ifOld(ifFirstData+r, g), writer: -1}
		}
	}
	m.lds = make([]ifCell, n)
	for g := range m.lds {
		m.lds[g] = ifCell{val: ifLdsInit(g), writer: -1}
	}
	exec, saved := ^uint64(0), uint64(0)
	type pend struct {
		issue    uint64
		disabled bool
	}
	var pending []*pend
	flip := func() {
		for _, p := range pending {
			if p.issue&^exec != 0 {
				p.disabled = true
			}
		}
	}
	set := func(cell *ifCell, v uint32, step int) { cell.prev, cell.val, cell.writer = cell.val, v, step }
	for si, s := range c.Steps {
		switch s.Kind {
		case "exec-mov":
			exec = uint64(s.Mask)
			flip()
		case "exec-and-saveexec":
			saved = exec
			exec &= uint64(s.Mask)
			flip()
		case "exec-xor-saved":
			exec ^= saved
			flip()
		case "exec-or-saved":
			exec |= saved
			flip()
		case "wait":
			for _, p := range pending {
				if p.disabled {
					m.loadsFlippedInFlight++
				}
			}
			pending = nil
		case "load":
			w := ifLoadWidth[s.Op]
			m.issueExec[s.Acc] = exec
			if exec != 0 && exec != ^uint64(0) {
				m.loadsPartial++
			}
			pending = append(pending, &pend{issue: exec})
			for k := 0; k < w; k++ {
				r := s.Reg - ifFirstData + k
				m.touched[r][0] |= exec
				for g := 0; g < n; g++ {
					if exec>>(uint(g)%64)&1 == 1 {
						v := ifIn(s.Acc, g, k)
						if k == 0 {
							v = ifLoaded(s.Op, v)
						}
						set(&m.regs[r][g], v, si)
					}
				}
			}
		case "store":
			w := ifStoreWidth[s.Op]
			m.issueExec[s.Acc] = exec
			m.stIssue[s.Acc], m.stWidth[s.Acc] = exec, w
			mem := make([][4]uint32, n)
			for g := 0; g < n; g++ {
				for k := 0; k < 4; k++ {
					mem[g][k] = ifStInit(s.Acc, g, k)
				}
				if exec>>(uint(g)%64)&1 == 1 {
					for k := 0; k < w; k++ {
						mem[g][k] = m.regs[s.Reg-ifFirstData+k][g].val
					}
				}
			}
			m.st[s.Acc] = mem
		case "alu":
			r := s.Reg - ifFirstData
			m.touched[r][0] |= exec
			for g := 0; g < n; g++ {
				if exec>>(uint(g)%64)&1 == 1 {
					set(&m.regs[r][g], ifAluLit(si)^m.regs[s.Src-ifFirstData][g].val, si)
				}
			}
		case "ds-write":
			for g := 0; g < n; g++ {
				if exec>>(uint(g)%64)&1 == 1 {
					set(&m.lds[g], m.regs[s.Reg-ifFirstData][g].val, si)
				}
			}
		case "ds-read":
			r := s.Reg - ifFirstData
			m.touched[r][0] |= exec
			for g := 0; g < n; g++ {
				if exec>>(uint(g)%64)&1 == 1 {
					set(&m.regs[r][g], m.lds[g].val, si)
				}
			}
		}
	}
	return m
}

// ---------------------------------------------------------------------------
// kernel

type ifArgs struct {
	In   driver.Ptr
	St   driver.Ptr
	Dump driver.Ptr
}

func ifKernel(c *ifCase) *insts.KernelCodeObject {
	A := gcnasm.GCN3
	S, V := gcnasm.S, gcnasm.V
	L := func(v uint32) gcnasm.Operand { return gcnasm.Lit(v) }
	sop2 := func(name string, d, a, b gcnasm.Operand) gcnasm.Desc { return gcnasm.MkSOP2(0, d, a, b).N(A, name) }
	sop1 := func(name string, d, a gcnasm.Operand) gcnasm.Desc { return gcnasm.MkSOP1(0, d, a).N(A, name) }
	vop2 := func(name string, d, a, b gcnasm.Operand) gcnasm.Desc { return gcnasm.MkVOP2(0, d, a, b).N(A, name) }
	vmov := func(d, a gcnasm.Operand) gcnasm.Desc { return gcnasm.MkVOP1(0, d, a).N(A, "v_mov_b32") }
	n := c.n()
	p := gcnasm.NewProgram(A)
	add64 := func(dst int, off uint32, lo, hi int) {
		p.Add(vop2("v_add_u32", V(dst), L(off), V(lo)), vop2("v_addc_u32", V(dst+1), gcnasm.Imm(0), V(hi)))
	}
	p.Add(
		gcnasm.SMEMLoadImm(gcnasm.OpSLoadDwordx4, gcnasm.SRange(4, 4), gcnasm.SRange(0, 2), 0),
		gcnasm.SMEMLoadImm(gcnasm.OpSLoadDwordx2, gcnasm.SRange(8, 2), gcnasm.SRange(0, 2), 16),
		gcnasm.Waitcnt(15, 7, 0),
		sop2("s_mul_i32", S(3), S(2), L(uint32(c.WGSize))),
		vop2("v_add_u32", V(1), S(3), V(0)),     // v1 = global id
		vop2("v_lshlrev_b32", V(9), L(2), V(0)), // v9 = LDS address
		vop2("v_lshlrev_b32", V(10), L(4), V(1)),
		vop2("v_add_u32", V(2), S(4), V(10)), vmov(V(3), S(5)), vop2("v_addc_u32", V(3), gcnasm.Imm(0), V(3)),
		vop2("v_add_u32", V(4), S(6), V(10)), vmov(V(5), S(7)), vop2("v_addc_u32", V(5), gcnasm.Imm(0), V(5)),
		vop2("v_lshlrev_b32", V(10), L(2), V(1)),
		vop2("v_add_u32", V(6), S(8), V(10)), vmov(V(7), S(9)), vop2("v_addc_u32", V(7), gcnasm.Imm(0), V(7)),
	)
	for _, s := range c.Steps {
		switch s.Kind {
		case "load":
			add64(ifAddr0+2*s.Acc, uint32(s.Acc*n*16), 2, 3)
		case "store":
			add64(ifAddr0+2*s.Acc, uint32(s.Acc*n*16), 4, 5)
		}
	}
	for r := 0; r < ifNumData; r++ {
		p.Add(vop2("v_xor_b32", V(ifFirstData+r), L(ifOld(ifFirstData+r, 0)), V(1)))
	}
	p.Add(vop2("v_xor_b32", V(29), L(ifLdsInit(0)), V(1)),
		gcnasm.DSWrite(gcnasm.OpDSWriteB32, V(9), V(29), 0),
		gcnasm.WaitcntAll())
	for si, s := range c.Steps {
		switch s.Kind {
		case "exec-mov":
			p.Add(sop1("s_mov_b32", gcnasm.EXECLo, L(uint32(s.Mask))), sop1("s_mov_b32", gcnasm.EXECHi, L(uint32(s.Mask>>32))))
		case "exec-and-saveexec":
			p.Add(sop1("s_mov_b32", S(20), L(uint32(s.Mask))), sop1("s_mov_b32", S(21), L(uint32(s.Mask>>32))),
				sop1("s_and_saveexec_b64", gcnasm.SRange(22, 2), gcnasm.SRange(20, 2)))
		case "exec-xor-saved":
			p.Add(sop2("s_xor_b64", gcnasm.EXEC, gcnasm.EXEC, gcnasm.SRange(22, 2)))
		case "exec-or-saved":
			p.Add(sop2("s_or_b64", gcnasm.EXEC, gcnasm.EXEC, gcnasm.SRange(22, 2)))
		case "wait":
			p.Add(gcnasm.WaitcntAll())
		case "load":
			w := ifLoadWidth[s.Op]
			p.Add(gcnasm.FlatLoad(gcnasm.MustOpcode(A, gcnasm.FLAT, s.Op), gcnasm.VRange(s.Reg, w), gcnasm.VRange(ifAddr0+2*s.Acc, 2)))
		case "store":
			w := ifStoreWidth[s.Op]
			p.Add(gcnasm.FlatStore(gcnasm.MustOpcode(A, gcnasm.FLAT, s.Op), gcnasm.VRange(ifAddr0+2*s.Acc, 2), gcnasm.VRange(s.Reg, w)))
		case "alu":
			p.Add(vop2("v_xor_b32", V(s.Reg), L(ifAluLit(si)), V(s.Src)))
		case "ds-write":
			p.Add(gcnasm.DSWrite(gcnasm.OpDSWriteB32, V(9), V(s.Reg), 0))
		case "ds-read":
			p.Add(gcnasm.DSRead(gcnasm.OpDSReadB32, V(s.Reg), V(9), 0))
		}
	}
	// dump: everything under full EXEC
	p.Add(gcnasm.WaitcntAll(), sop1("s_mov_b64", gcnasm.EXEC, gcnasm.Imm(-1)),
		gcnasm.DSRead(gcnasm.OpDSReadB32, V(30), V(9), 0), gcnasm.WaitcntAll())
	for i := 0; i <= ifNumData; i++ {
		pair := 12 + 2*(i%2)
		add64(pair, uint32(i*n*4), 6, 7)
		src := ifFirstData + i
		if i == ifNumData {
			src = 30 // the LDS word
		}
		p.Add(gcnasm.FlatStore(gcnasm.OpFlatStoreDword, gcnasm.VRange(pair, 2), V(src)))
	}
	p.Add(gcnasm.WaitcntAll(), gcnasm.Endpgm())
	meta := &insts.KernelCodeObjectMeta{
		ComputePgmRsrc1:             uint32((ifVgprs+3)/4-1) | uint32(ifSgprs/8-1)<<6,
		ComputePgmRsrc2:             1 << 7,
		KernargSegmentByteSize:      24,
		EnableSgprKernargSegmentPtr: true,
		WFSgprCount:                 ifSgprs,
		WIVgprCount:                 ifVgprs,
		GroupSegmentByteSize:        uint32(4 * c.WGSize),
	}
	return &insts.KernelCodeObject{KernelCodeObjectMeta: meta, Data: p.MustBytes(), Version: insts.CodeObjectV3}
}

// ---------------------------------------------------------------------------
// generation

type ifGen struct {
	r       *vlib.PRNG
	steps   []ifStep
	exec    uint64
	saved   uint64
	pending [ifNumData]uint64 // lanes with a load outstanding into the register
	acc     int
}

func (g *ifGen) add(s ifStep) { g.steps = append(g.steps, s) }

func (g *ifGen) mask() uint64 {
	if g.r.Chance(1, 3) {
		return fixedMasks[2+g.r.Intn(len(fixedMasks)-2)]
	}
	return randMask(g.r)
}

// clean: registers reg..reg+w-1 have no load outstanding in the given lanes.
func (g *ifGen) clean(reg, w int, lanes uint64) bool {
	for k := 0; k < w; k++ {
		if g.pending[reg-ifFirstData+k]&lanes != 0 {
			return false
		}
	}
	return true
}

func (g *ifGen) access() {
	if g.acc >= ifMaxAcc {
		return
	}
	switch x := g.r.Intn(10); {
	case x < 6: // load
		ops := []string{"flat_load_dword", "flat_load_dword", "flat_load_dwordx2", "flat_load_dwordx4", "flat_load_ubyte", "flat_load_sbyte", "flat_load_ushort"}
		op := ops[g.r.Intn(len(ops))]
		w := ifLoadWidth[op]
		reg := ifFirstData + 4*g.r.Intn(3)
		if w < 4 {
			reg += g.r.Intn(5 - w)
		}
		if !g.clean(reg, w, g.exec) {
			return
		}
		g.add(ifStep{Kind: "load", Op: op, Reg: reg, Acc: g.acc})
		for k := 0; k < w; k++ {
			g.pending[reg-ifFirstData+k] |= g.exec
		}
		g.acc++
	case x < 8: // store from registers without an outstanding load
		ops := []string{"flat_store_dword", "flat_store_dwordx2", "flat_store_dwordx4"}
		op := ops[g.r.Intn(3)]
		w := ifStoreWidth[op]
		reg := ifFirstData + 4*g.r.Intn(3)
		if !g.clean(reg, w, ^uint64(0)) {
			return
		}
		g.add(ifStep{Kind: "store", Op: op, Reg: reg, Acc: g.acc})
		g.acc++
	case x < 9: // VALU write
		reg, src := ifFirstData+g.r.Intn(12), ifFirstData+g.r.Intn(12)
		if !g.clean(reg, 1, g.exec) || !g.clean(src, 1, g.exec) {
			return
		}
		g.add(ifStep{Kind: "alu", Reg: reg, Src: src})
	default:
		reg := ifFirstData + g.r.Intn(12)
		if !g.clean(reg, 1, ^uint64(0)) {
			return
		}
		if g.r.Bool() {
			g.add(ifStep{Kind: "ds-write", Reg: reg})
		} else {
			g.add(ifStep{Kind: "wait"}) // LDS read-after-write needs the wait
			g.pending = [ifNumData]uint64{}
			g.add(ifStep{Kind: "ds-read", Reg: ifFirstData + 12})
		}
	}
}

func (g *ifGen) setExec(m uint64) {
	if g.r.Chance(1, 3) && g.exec&m == m { // narrowing: the compiler's if-region form
		g.saved = g.exec
		g.exec &= m
		g.add(ifStep{Kind: "exec-and-saveexec", Mask: ifMask(m)})
		return
	}
	g.exec = m
	g.add(ifStep{Kind: "exec-mov", Mask: ifMask(m)})
}

func genIfCase(r *vlib.PRNG, idx int) *ifCase {
	c := &ifCase{IF: true, Name: fmt.Sprintf("if%d", idx), NWG: 1 + r.Intn(2), WGSize: []int{64, 128, 256}[r.Intn(3)]}
	g := &ifGen{r: r, exec: ^uint64(0)}
	rounds := 2 + r.Intn(2)
	for k := 0; k < rounds; k++ {
		m1 := g.mask()
		if m1 == 0 {
			m1 = 0x00ff00ff00ff00ff
		}
		if g.exec != ^uint64(0) {
			g.exec = ^uint64(0)
			g.add(ifStep{Kind: "exec-mov", Mask: ifMask(g.exec)})
		}
		g.setExec(m1)
		m1 = g.exec
		for i, na := 0, 1+r.Intn(3); i < na; i++ {
			g.access()
		}
		if r.Chance(1, 6) { // control: the arm waits before EXEC changes
			g.add(ifStep{Kind: "wait"})
			g.pending = [ifNumData]uint64{}
		}
		rnd := g.mask()
		switch r.Intn(7) {
		case 0:
			g.setExec(^m1 & rnd) // disjoint
		case 1:
			g.setExec(m1 & rnd) // subset
		case 2:
			g.setExec(m1 | rnd) // superset
		case 3:
			g.setExec(0)
		case 4:
			g.setExec(^uint64(0))
		case 5:
			g.setExec(^m1) // complement
		default: // else-arm of an if/else region
			if len(g.steps) > 0 && g.saved|g.exec == g.saved && g.saved != 0 {
				g.exec ^= g.saved
				g.add(ifStep{Kind: "exec-xor-saved"})
			} else {
				g.setExec(^m1)
			}
		}
		for i, na := 0, r.Intn(3); i < na; i++ {
			g.access()
		}
		g.add(ifStep{Kind: "wait"})
		g.pending = [ifNumData]uint64{}
		if r.Chance(1, 3) && g.saved != 0 {
			g.exec |= g.saved
			g.add(ifStep{Kind: "exec-or-saved"})
		}
	}
	c.Steps = g.steps
	return c
}

func canonicalIfCases() []*ifCase {
	even, odd := uint64(0x5555555555555555), uint64(0xaaaaaaaaaaaaaaaa)
	ld := func(op string, reg, acc int) ifStep { return ifStep{Kind: "load", Op: op, Reg: reg, Acc: acc} }
	st := func(op string, reg, acc int) ifStep { return ifStep{Kind: "store", Op: op, Reg: reg, Acc: acc} }
	w := ifStep{Kind: "wait"}
	mov := func(m uint64) ifStep { return ifStep{Kind: "exec-mov", Mask: ifMask(m)} }
	mk := func(n string, steps ...ifStep) *ifCase {
		return &ifCase{IF: true, Name: n, NWG: 1, WGSize: 256, Steps: steps}
	}
	return []*ifCase{
		// the if/else region: then-arm only loads, else-arm loads, waits and computes
		mk("canon-if-else-then-arm-load-in-flight", ifStep{Kind: "exec-and-saveexec", Mask: ifMask(even)}, ld("flat_load_dword", 16, 0),
			ifStep{Kind: "exec-xor-saved"}, ld("flat_load_dword", 20, 1), w, ifStep{Kind: "alu", Reg: 16, Src: 20}, ifStep{Kind: "exec-or-saved"}, w, st("flat_store_dword", 16, 2), w),
		// the control variant: the then-arm waits before the flip
		mk("canon-if-else-wait-before-flip", ifStep{Kind: "exec-and-saveexec", Mask: ifMask(even)}, ld("flat_load_dword", 16, 0), w,
			ifStep{Kind: "exec-xor-saved"}, ld("flat_load_dword", 20, 1), w, ifStep{Kind: "alu", Reg: 16, Src: 20}, ifStep{Kind: "exec-or-saved"}, w),
		// divergent early-out: EXEC goes to zero with loads of every width outstanding
		mk("canon-exec-zero-with-loads-outstanding", mov(0x00000000ffffffff), ld("flat_load_dwordx4", 16, 0), ld("flat_load_dwordx2", 20, 1), ld("flat_load_ubyte", 24, 2),
			ld("flat_load_sbyte", 25, 3), ld("flat_load_ushort", 26, 4), mov(0), w, mov(^uint64(0))),
		// same destination register from both arms (disjoint lanes)
		mk("canon-both-arms-load-the-same-register", mov(odd), ld("flat_load_dword", 18, 0), mov(even), ld("flat_load_dword", 18, 1), w),
		// subset / superset / stores and LDS under the narrow mask
		mk("canon-subset-then-superset", mov(0x0000ffffffff0000), ld("flat_load_dwordx2", 16, 0), st("flat_store_dwordx4", 24, 1), ifStep{Kind: "ds-write", Reg: 22},
			mov(0x00000000ff000000), ld("flat_load_dword", 20, 2), mov(^uint64(0)), w, ifStep{Kind: "ds-read", Reg: 28}, w),
		mk("canon-store-under-m1-then-exec-zero", mov(0xf0f0f0f0f0f0f0f0), st("flat_store_dwordx2", 16, 0), st("flat_store_dword", 20, 1), mov(0), w, mov(^uint64(0))),
	}
}

// ---------------------------------------------------------------------------
// child

type ifBatch struct {
	Timing bool      `json:"timing"`
	Cases  []*ifCase `json:"cases"`
}

func (b ifBatch) mode() string {
	if b.Timing {
		return "timing"
	}
	return "emu"
}

type ifTap struct {
	cu    *cu.ComputeUnit
	model *atomic.Value // *ifModel
	// responses taken off the port, by relation of the wavefront's EXEC to the EXEC at issue
	total, differs, issuingLaneDisabled int64
}

func (t *ifTap) Func(ctx sim.HookCtx) {
	if ctx.Pos != sim.HookPosPortMsgRetrieveIncoming {
		return
	}
	rsp, ok := ctx.Item.(*mem.DataReadyRsp)
	if !ok {
		return
	}
	m, _ := t.model.Load().(*ifModel)
	if m == nil {
		return
	}
	for _, info := range t.cu.InFlightVectorMemAccess {
		if info.Read == nil || info.Read.ID != rsp.RespondTo || info.Inst == nil || info.Inst.Addr == nil || info.Inst.Addr.Register == nil {
			continue
		}
		a := info.Inst.Addr.Register.RegIndex() - ifAddr0
		if a < 0 || a%2 != 0 {
			return // a dump-phase or foreign access
		}
		issue, ok := m.issueExec[a/2]
		if !ok {
			return
		}
		now := info.Wavefront.EXEC()
		atomic.AddInt64(&t.total, 1)
		if now != issue {
			atomic.AddInt64(&t.differs, 1)
		}
		if issue&^now != 0 {
			atomic.AddInt64(&t.issuingLaneDisabled, 1)
		}
		return
	}
}

func ifChild() {
	var b ifBatch
	if err := json.Unmarshal([]byte(os.Args[2]), &b); err != nil {
		panic(err)
	}
	rec := vlib.ChildRec()
	sim.GetIDGenerator()
	p := plat.Build(plat.Config{Timing: b.Timing, NumGPUs: 1})
	var cur atomic.Value
	var taps []*ifTap
	for _, comp := range p.Sim.Components() {
		if u, ok := comp.(*cu.ComputeUnit); ok {
			t := &ifTap{cu: u, model: &cur}
			u.ToVectorMem.AcceptHook(t)
			taps = append(taps, t)
		}
	}
	cnt := &ixEvCounter{}
	if h, ok := p.Engine.(sim.Hookable); ok {
		h.AcceptHook(cnt)
	}
	drv := p.Driver
	drv.Run()
	ctx := drv.Init()
	drv.SelectGPU(ctx, 1)
	var busy int32
	var name atomic.Value
	name.Store("")
	go func() { // logical deadlock predicate, as in initexec_drv.go
		stable, last := 0, int64(-1)
		for {
			time.Sleep(100 * time.Millisecond)
			running, kicked := drv.VerifEngineState()
			n := atomic.LoadInt64(&cnt.n)
			if !running && !kicked && n == last && atomic.LoadInt32(&busy) == 1 {
				stable++
			} else {
				stable = 0
			}
			last = n
			if stable >= 50 {
				rec.Note("ixdeadlock", name.Load())
				os.Exit(0)
			}
		}
	}()
	mode := b.mode()
	for _, c := range b.Cases {
		name.Store(c.Name)
		rec.Eval()
		m := ifRun(c)
		n := c.n()
		co := ifKernel(c)
		in := make([]uint32, ifMaxAcc*n*4)
		st := make([]uint32, ifMaxAcc*n*4)
		for a := 0; a < ifMaxAcc; a++ {
			for g := 0; g < n; g++ {
				for k := 0; k < 4; k++ {
					in[(a*n+g)*4+k] = ifIn(a, g, k)
					st[(a*n+g)*4+k] = ifStInit(a, g, k)
				}
			}
		}
		dump := make([]uint32, (ifNumData+1)*n)
		atomic.StoreInt32(&busy, 1)
		dIn := drv.AllocateMemory(ctx, uint64(4*len(in)))
		dSt := drv.AllocateMemory(ctx, uint64(4*len(st)))
		dDump := drv.AllocateMemory(ctx, uint64(4*len(dump)))
		drv.MemCopyH2D(ctx, dIn, in)
		drv.MemCopyH2D(ctx, dSt, st)
		drv.MemCopyH2D(ctx, dDump, dump)
		cur.Store(m)
		args := ifArgs{In: dIn, St: dSt, Dump: dDump}
		drv.LaunchKernel(ctx, co, [3]uint32{uint32(n), 1, 1}, [3]uint16{uint16(c.WGSize), 1, 1}, &args)
		cur.Store((*ifModel)(nil))
		gotSt := make([]uint32, len(st))
		drv.MemCopyD2H(ctx, dump, dDump)
		drv.MemCopyD2H(ctx, gotSt, dSt)
		atomic.StoreInt32(&busy, 0)
		ifJudge(rec, mode, c, m, dump, gotSt)
		rec.Count("if_"+mode+"_cases", 1)
		rec.Count("if_"+mode+"_loads_issued_under_partial_exec", int64(m.loadsPartial*c.n()/64))
		rec.Count("if_"+mode+"_loads_with_an_issuing_lane_disabled_before_the_wait", int64(m.loadsFlippedInFlight*c.n()/64))
		rec.Note("ixdone", c.Name)
	}
	var total, differs, dis int64
	for _, t := range taps {
		total += t.total
		differs += t.differs
		dis += t.issuingLaneDisabled
	}
	if b.Timing {
		rec.Count("if_timing_load_responses_observed", total)
		rec.Count("if_timing_load_responses_arrived_while_exec_differs_from_issue", differs)
		rec.Count("if_timing_load_responses_arrived_with_an_issuing_lane_disabled", dis)
	}
	rec.Note("verdict", "done")
	os.Exit(0)
}

// ---------------------------------------------------------------------------
// oracle

func ifJudge(rec vlib.Recorder, mode string, c *ifCase, m *ifModel, dump, st []uint32) {
	n := c.n()
	fired := map[string]bool{}
	viol := func(key, what string, extra map[string]any) {
		if fired[key] {
			return
		}
		fired[key] = true
		w := map[string]any{"case": c, "mode": mode, "path": "driver"}
		for k, v := range extra {
			w[k] = v
		}
		rec.Violation("C06|"+mode+"|in-flight|"+key, fmt.Sprintf("[%s, %s, %d work-groups of %d] %s", mode, c.Name, c.NWG, c.WGSize, what), w)
	}
	stepText := func(si int) string {
		if si < 0 {
			return "its initial value"
		}
		s := c.Steps[si]
		return fmt.Sprintf("step %d (%s %s)", si, s.Kind, s.Op)
	}
	var lanesChecked, lanesLoaded int64
	check := func(what string, cell ifCell, got uint32, g int, touched uint64) {
		lanesChecked++
		lane := g % 64
		if cell.writer >= 0 && c.Steps[cell.writer].Kind == "load" {
			lanesLoaded++
		}
		if got == cell.val {
			return
		}
		extra := map[string]any{"work_item": g, "wavefront": g / 64, "lane": lane, "got": fmt.Sprintf("%#x", got), "want": fmt.Sprintf("%#x", cell.val)}
		switch {
		case cell.writer >= 0 && c.Steps[cell.writer].Kind == "load" && got == cell.prev:
			a := c.Steps[cell.writer].Acc
			viol("load-result-depends-on-later-exec", fmt.Sprintf("%s of lane %d of wavefront %d still holds its value from before %s (%#x); the lane was enabled when the load executed (EXEC at issue %s), so it must hold the loaded value %#x whatever EXEC is when the data returns",
				what, lane, g/64, stepText(cell.writer), got, hx64(m.issueExec[a]), cell.val), extra)
		case touched>>uint(lane)&1 == 0:
			viol("lane-outside-issue-exec-modified", fmt.Sprintf("%s of lane %d of wavefront %d holds %#x; no instruction was issued with this lane enabled, it must keep %#x", what, lane, g/64, got, cell.val), extra)
		default:
			viol("load-result-wrong", fmt.Sprintf("%s of lane %d of wavefront %d holds %#x, expected %#x (last written by %s; before that %#x)", what, lane, g/64, got, cell.val, stepText(cell.writer), cell.prev), extra)
		}
	}
	for r := 0; r < ifNumData; r++ {
		for g := 0; g < n; g++ {
			check(fmt.Sprintf("v%d", ifFirstData+r), m.regs[r][g], dump[r*n+g], g, m.touched[r][0])
		}
	}
	for g := 0; g < n; g++ {
		cell := m.lds[g]
		if got := dump[ifNumData*n+g]; got != cell.val {
			key := "lds-write-result-wrong"
			if cell.writer < 0 {
				key = "lane-outside-issue-exec-modified"
			}
			viol(key, fmt.Sprintf("LDS word of work-item %d holds %#x, expected %#x (last written by %s)", g, got, cell.val, stepText(cell.writer)), map[string]any{"work_item": g})
		}
	}
	var stLanes int64
	for a := 0; a < ifMaxAcc; a++ {
		want := m.st[a]
		for g := 0; g < n; g++ {
			for k := 0; k < 4; k++ {
				got := st[(a*n+g)*4+k]
				exp := ifStInit(a, g, k)
				if want != nil {
					exp = want[g][k]
				}
				if got == exp {
					continue
				}
				lane := g % 64
				issued := want != nil && m.stIssue[a]>>uint(lane)&1 == 1
				extra := map[string]any{"work_item": g, "lane": lane, "slot": a, "word": k}
				switch {
				case issued && got == ifStInit(a, g, k):
					viol("store-result-depends-on-later-exec", fmt.Sprintf("store slot %d: lane %d of wavefront %d was enabled when the store executed (EXEC at issue %s) but memory still holds the initial word %#x, expected %#x",
						a, lane, g/64, hx64(m.stIssue[a]), got, exp), extra)
				case !issued:
					viol("lane-outside-issue-exec-modified", fmt.Sprintf("store slot %d word %d of lane %d of wavefront %d was modified (%#x, initial %#x) although the lane was not enabled when a store to it executed", a, k, lane, g/64, got, exp), extra)
				default:
					viol("store-data-wrong", fmt.Sprintf("store slot %d word %d of lane %d of wavefront %d holds %#x, expected %#x", a, k, lane, g/64, got, exp), extra)
				}
			}
			if want != nil {
				stLanes++
			}
		}
	}
	rec.Count("if_"+mode+"_register_lanes_checked", lanesChecked)
	rec.Count("if_"+mode+"_register_lanes_holding_a_loaded_value", lanesLoaded)
	rec.Count("if_"+mode+"_store_lanes_checked", stLanes)
	if m.loadsFlippedInFlight > 0 {
		rec.Nontrivial("in-flight/" + mode + "/" + c.Name)
	}
	_ = bits.OnesCount64
}

// ---------------------------------------------------------------------------
// parent

func runIfBatch(c *vlib.Check, b ifBatch) {
	ixScratch.once.Do(func() { ixScratch.dir, _ = vlib.Scratch("c06ix") })
	rest := b.Cases
	for len(rest) > 0 {
		js, _ := json.Marshal(ifBatch{Timing: b.Timing, Cases: rest})
		res := vlib.RunChild(ixScratch.dir, 15*time.Minute, []string{"GOMAXPROCS=2"}, "ifchild", string(js))
		notes := c.AbsorbFile(res.RecPath)
		done := len(notes["ixdone"])
		verdict := ""
		if v := notes["verdict"]; len(v) > 0 {
			verdict, _ = v[0].(string)
		}
		if verdict == "done" || done >= len(rest) {
			_ = os.RemoveAll(res.Dir)
			return
		}
		bad := rest[done]
		wit := map[string]any{"case": bad, "mode": b.mode(), "path": "driver"}
		switch {
		case res.TimedOut:
			c.Inconclusive(fmt.Sprintf("in-flight %s (%s): watchdog fired", bad.Name, b.mode()))
		case len(notes["ixdeadlock"]) > 0:
			c.Violation("C06|"+b.mode()+"|in-flight|kernel-never-completes", fmt.Sprintf("[%s, %s] the engine went idle while the launch was outstanding", b.mode(), bad.Name), wit)
		default:
			line := ixPanicLine(vlib.Tail(res.OutPath, 8000))
			wit["failure"] = line
			c.Violation("C06|"+b.mode()+"|in-flight|run-crashed", fmt.Sprintf("[%s, %s] the run crashed: %s", b.mode(), bad.Name, line), wit)
		}
		_ = os.RemoveAll(res.Dir)
		rest = rest[done+1:]
	}
}

func ifBatches(c *vlib.Check) []ifBatch {
	var out []ifBatch
	canon := canonicalIfCases()
	out = append(out, ifBatch{Timing: true, Cases: canon}, ifBatch{Timing: false, Cases: canon})
	if os.Getenv("C06_ONLY_CANONICAL") != "" {
		return out
	}
	n := c.N(36, 400)
	base := c.Rand("in-flight")
	var cs []*ifCase
	for i := 0; i < n; i++ {
		cs = append(cs, genIfCase(base.ForkN("c", i), i))
	}
	for i := 0; i < len(cs); i += 6 {
		out = append(out, ifBatch{Timing: true, Cases: cs[i:imin(i+6, len(cs))]})
	}
	for i := 0; i < len(cs); i += 12 {
		out = append(out, ifBatch{Timing: false, Cases: cs[i:imin(i+12, len(cs))]})
	}
	return out
}

const ifRule = "Timing in-flight layer: case = one generated GCN3 kernel {EXEC := M1; flat loads / stores / DS under M1; EXEC := M2 without a wait; optional accesses under M2; s_waitcnt; dump} launched through the real driver " +
	"on the r9nano timing platform and on the emulation platform; non-trivial = a load has an issuing lane disabled before the next s_waitcnt; the timing run only counts through load responses taken off a compute unit's " +
	"ToVectorMem port while the wavefront's EXEC differs from the EXEC at issue"

const ifAssumption = "in-flight layer: a load delivers to exactly the lanes enabled when it executed, whatever EXEC is when the data returns (GCN3 ISA: EXEC is sampled when the instruction is issued); two accesses write the same VGPR " +
	"without an intervening s_waitcnt only for disjoint lanes; a store's data registers and a VALU source never have a load outstanding; expected values come from a host model, the emulation platform runs the same kernels as a check of that model"

func ifMinCounters() map[string]int64 {
	if os.Getenv("C06_ONLY_CANONICAL") != "" {
		return map[string]int64{"if_timing_load_responses_arrived_with_an_issuing_lane_disabled": 8, "if_timing_cases": 6, "if_emu_cases": 6}
	}
	return map[string]int64{
		"if_timing_cases": 36, "if_emu_cases": 36,
		"if_timing_loads_with_an_issuing_lane_disabled_before_the_wait":  60,
		"if_timing_load_responses_arrived_while_exec_differs_from_issue": 1500,
		"if_timing_load_responses_arrived_with_an_issuing_lane_disabled": 1000,
		"if_timing_register_lanes_holding_a_loaded_value":                10000, "if_timing_store_lanes_checked": 2000,
	}
}
