package main

// The metamorphic relations over one (probe, base state, EXEC mask, lane
// permutation) and the bookkeeping around them.

import (
	"bytes"
	"fmt"
	"math/bits"
	"sync"

	"verifharness/vlib"
)

type pairSpec struct {
	Phase      string `json:"phase"` // "canonical" or "seeded"
	Index      int    `json:"index"`
	Exec       uint64 `json:"exec"`
	MaskKind   string `json:"mask_kind"`
	PermKind   string `json:"perm_kind"`
	perm       perm
	permKindID int
}

// finding is one violated relation on one pair.
type finding struct {
	rel  string // relation[|output]
	what string
	wit  map[string]any
}

func lanesOf(m uint64) []int {
	var out []int
	for m != 0 {
		out = append(out, bits.TrailingZeros64(m))
		m &= m - 1
	}
	return out
}

func hx(v uint64) string { return fmt.Sprintf("0x%016x", v) }

// diffLane returns the first register of a lane that differs between two
// VGPR files (lane la of a, lane lb of b), or -1.
func diffLane(a []byte, la int, b []byte, lb int) int {
	x := a[la*laneBytes : (la+1)*laneBytes]
	y := b[lb*laneBytes : (lb+1)*laneBytes]
	if bytes.Equal(x, y) {
		return -1
	}
	for i := 0; i < laneBytes; i++ {
		if x[i] != y[i] {
			return i / 4
		}
	}
	return -1
}

// own tells which physical lane owns each logical region in a run.
type runCtx struct {
	name string
	in   *lstate
	res  runResult
	own  *perm // own[L] = physical lane holding logical lane L (nil = identity)
}

func (rc *runCtx) phys(l int) int {
	if rc.own == nil {
		return l
	}
	return rc.own[l]
}

// checkLocal applies the relations that look at a single run: inactive lanes
// keep their VGPRs and lane-mask bits (2), no access in an inactive lane's
// region (3).
func checkLocal(p *probe, rc *runCtx, st *stats) []finding {
	var out []finding
	in, o := rc.in, rc.res.out
	exec := in.exec
	// (2) VGPRs of inactive lanes
	for l := 0; l < nLanes; l++ {
		if exec&(1<<uint(l)) != 0 {
			continue
		}
		if r := diffLane(in.vgpr, l, o.vgpr, l); r >= 0 {
			out = append(out, finding{"inactive-lane-modified",
				fmt.Sprintf("%s run: lane %d has EXEC=0 but v%d changed from %#x to %#x", rc.name, l, r, in.vreg(l, r), o.vreg(l, r)),
				map[string]any{"run": rc.name, "lane": l, "vgpr": r, "before": in.vreg(l, r), "after": o.vreg(l, r), "exec": hx(exec)}})
			break
		}
	}
	st.inactiveLanesChecked += int64(nLanes - bits.OnesCount64(exec))
	if rc.res.strayLane >= 0 {
		l, r := rc.res.strayLane, rc.res.strayReg
		rel := "vgpr-outside-operands-written"
		if exec&(1<<uint(l)) == 0 {
			rel = "inactive-lane-modified"
		}
		out = append(out, finding{rel, fmt.Sprintf("%s run: v%d of lane %d (EXEC bit %d) was written although no operand names it", rc.name, r, l, exec>>uint(l)&1),
			map[string]any{"run": rc.name, "lane": l, "vgpr": r, "exec": hx(exec)}})
	}
	// (2) mask bits of inactive lanes
	type mk struct {
		name    string
		before  uint64
		after   uint64
		written bool
	}
	ms := []mk{{"vcc", in.vcc, o.vcc, p.vccWrite}}
	if p.maskOut >= 0 {
		ms = append(ms, mk{"sdst", in.sreg64(p.maskOut), o.sreg64(p.maskOut), true})
	}
	if p.maskIn >= 0 && p.maskIn != p.maskOut {
		ms = append(ms, mk{"mask-src", in.sreg64(p.maskIn), o.sreg64(p.maskIn), false})
	}
	for _, m := range ms {
		inact := ^exec
		var bad uint64
		var rule string
		switch {
		case m.written:
			// GCN3 ISA 3.9: 'VCC is always fully written; there are no partial mask
			// updates' and VCC[n] = EXEC[n] & (test passed): inactive lanes read 0
			bad = m.after & inact
			rule = "a compare / carry-out writes 0 for lanes with EXEC=0 (GCN3 ISA 3.9: VCC is always fully written, result = EXEC & test)"
		case p.knownISA || m.name != "vcc":
			bad = (m.after ^ m.before) & inact
			rule = "the instruction does not define a write of this mask; the bit of a lane with EXEC=0 must not change"
		default:
			// opcode number not assigned in this architecture's manual: accept
			// either 'not written' or 'fully written'
			bad = (m.after ^ m.before) & m.after & inact
			rule = "the bit of a lane with EXEC=0 must not become 1"
		}
		if bad != 0 {
			l := bits.TrailingZeros64(bad)
			rel := "inactive-lane-mask-bit-set|"
			if m.written && bad&^m.before == 0 {
				// every offending bit was already 1: a partial mask update
				rel = "inactive-lane-mask-bit-kept|"
			}
			out = append(out, finding{rel + m.name,
				fmt.Sprintf("%s run: lane %d has EXEC=0 but its %s bit went %d -> %d (%s)", rc.name, l, m.name, m.before>>uint(l)&1, m.after>>uint(l)&1, rule),
				map[string]any{"run": rc.name, "lane": l, "mask": m.name, "before": hx(m.before), "after": hx(m.after), "exec": hx(exec)}})
		}
	}
	if o.exec != in.exec && !p.execWrite {
		// only V_CMPX writes EXEC; EXEC must survive every other vector instruction
		out = append(out, finding{"exec-modified",
			fmt.Sprintf("%s run: EXEC changed from %s to %s", rc.name, hx(in.exec), hx(o.exec)),
			map[string]any{"run": rc.name, "before": hx(in.exec), "after": hx(o.exec)}})
	}
	// (3) memory accesses
	for _, a := range rc.res.acc {
		r0, r1 := regionOf(a.Addr), regionOf(a.Addr+uint64(a.Size)-1)
		kind := "read"
		if a.Write {
			kind = "write"
		}
		if r0 == nLanes || r0 != r1 {
			out = append(out, finding{"access-outside-lane-regions",
				fmt.Sprintf("%s run: %s of %d bytes at %#x is not inside the region of any one lane (every lane's address operand points into its own region)", rc.name, kind, a.Size, a.Addr),
				map[string]any{"run": rc.name, "access": a, "exec": hx(exec)}})
			break
		}
		ph := rc.phys(r0)
		st.accessesAttributed++
		if exec&(1<<uint(ph)) == 0 {
			rel := "access-from-inactive-lane"
			out = append(out, finding{rel,
				fmt.Sprintf("%s run: %s of %d bytes at %#x lies in the memory region only lane %d addresses, and lane %d has EXEC=0", rc.name, kind, a.Size, a.Addr, ph, ph),
				map[string]any{"run": rc.name, "access": a, "lane": ph, "exec": hx(exec)}})
			break
		}
	}
	// (3) LDS: writes are visible as changed bytes
	if in.lds != nil {
		if !bytes.Equal(in.lds[:ldsPad], o.lds[:ldsPad]) || !bytes.Equal(in.lds[ldsSize-ldsPad:], o.lds[ldsSize-ldsPad:]) {
			out = append(out, finding{"lds-write-outside-lane-regions",
				fmt.Sprintf("%s run: the canary padding around the per-lane LDS regions was overwritten", rc.name),
				map[string]any{"run": rc.name, "exec": hx(exec)}})
		}
		for l := 0; l < nLanes; l++ {
			ph := rc.phys(l)
			lo, hi := ldsPad+l*ldsStride, ldsPad+(l+1)*ldsStride
			same := bytes.Equal(in.lds[lo:hi], o.lds[lo:hi])
			if exec&(1<<uint(ph)) != 0 {
				if !same {
					st.ldsRegionsWritten++
				}
				continue
			}
			st.ldsInactiveRegionsChecked++
			if !same {
				off := 0
				for i := lo; i < hi; i++ {
					if in.lds[i] != o.lds[i] {
						off = i
						break
					}
				}
				out = append(out, finding{"access-from-inactive-lane",
					fmt.Sprintf("%s run: LDS byte %#x changed; it lies in the LDS region only lane %d addresses, and lane %d has EXEC=0", rc.name, off, ph, ph),
					map[string]any{"run": rc.name, "lds_offset": off, "lane": ph, "exec": hx(exec)}})
				break
			}
		}
	}
	return out
}

// memDiff compares final memory of two runs (optionally restricted to the
// regions of the lanes in only); returns the first differing address.
func memDiff(a, b *lstate, only uint64, all bool) (uint64, bool) {
	chk := func(x, y *lstate) (uint64, bool) {
		for k := range x.memW {
			if !all {
				r := regionOf(k)
				if r == nLanes || only&(1<<uint(r)) == 0 {
					continue
				}
			}
			if x.memByte(k) != y.memByte(k) {
				return k, true
			}
		}
		return 0, false
	}
	if k, bad := chk(a, b); bad {
		return k, true
	}
	return chk(b, a)
}

// checkEquivariance: run(v, pi(s)) == pi(run(v, s)).
func checkEquivariance(p *probe, a, b *runCtx, pm *perm) []finding {
	var out []finding
	oa, ob := a.res.out, b.res.out
	add := func(output, what string, w map[string]any) {
		w["perm"] = pm[:]
		out = append(out, finding{"not-equivariant|" + output, what, w})
	}
	for l := 0; l < nLanes; l++ {
		if r := diffLane(oa.vgpr, l, ob.vgpr, pm[l]); r >= 0 {
			add("vdst", fmt.Sprintf("lane %d of the base run ends with v%d=%#x; after permuting the inputs the same contents sit in lane %d, which ends with v%d=%#x (EXEC bit %d)",
				l, r, oa.vreg(l, r), pm[l], r, ob.vreg(pm[l], r), a.in.exec>>uint(l)&1),
				map[string]any{"lane": l, "image_lane": pm[l], "vgpr": r, "base": oa.vreg(l, r), "permuted": ob.vreg(pm[l], r), "exec": hx(a.in.exec)})
			break
		}
	}
	if want := permBits(oa.vcc, pm); ob.vcc != want {
		add("vcc", fmt.Sprintf("VCC of the permuted run is %s, pi(VCC of the base run) is %s", hx(ob.vcc), hx(want)),
			map[string]any{"base_vcc": hx(oa.vcc), "permuted_vcc": hx(ob.vcc), "expected": hx(want), "exec": hx(a.in.exec)})
	}
	if want := permBits(oa.exec, pm); ob.exec != want {
		add("exec", fmt.Sprintf("EXEC of the permuted run is %s, expected %s", hx(ob.exec), hx(want)), map[string]any{"exec": hx(a.in.exec)})
	}
	isMask := map[int]bool{}
	for _, m := range p.maskPairs() {
		isMask[m], isMask[m+1] = true, true
		if want := permBits(oa.sreg64(m), pm); ob.sreg64(m) != want {
			n := "sdst"
			if m != p.maskOut {
				n = "mask-src"
			}
			add(n, fmt.Sprintf("lane-mask s[%d:%d] of the permuted run is %s, pi(base run's) is %s (base run's: %s)", m, m+1, hx(ob.sreg64(m)), hx(want), hx(oa.sreg64(m))),
				map[string]any{"sgpr": m, "base": hx(oa.sreg64(m)), "permuted": hx(ob.sreg64(m)), "expected": hx(want), "exec": hx(a.in.exec)})
		}
	}
	for i := 0; i < nSGPR; i++ {
		if isMask[i] {
			continue
		}
		if !bytes.Equal(oa.sgpr[4*i:4*i+4], ob.sgpr[4*i:4*i+4]) {
			add("sgpr", fmt.Sprintf("uniform register s%d differs between the base and the permuted run", i), map[string]any{"sgpr": i, "exec": hx(a.in.exec)})
			break
		}
	}
	if oa.scc != ob.scc || oa.pc != ob.pc || oa.m0 != ob.m0 {
		add("scalar-state", "SCC / PC / M0 differ between the base and the permuted run", map[string]any{"exec": hx(a.in.exec)})
	}
	if k, bad := memDiff(oa, ob, 0, true); bad {
		add("mem", fmt.Sprintf("final memory differs at %#x: base run %#02x, permuted run %#02x (addresses move with their lanes and are pairwise distinct, so memory must be identical)", k, oa.memByte(k), ob.memByte(k)),
			map[string]any{"addr": k, "region_lane": regionOf(k), "exec": hx(a.in.exec)})
	}
	if oa.lds != nil && !bytes.Equal(oa.lds, ob.lds) {
		off := 0
		for i := range oa.lds {
			if oa.lds[i] != ob.lds[i] {
				off = i
				break
			}
		}
		add("lds", fmt.Sprintf("final LDS differs at offset %#x: base run %#02x, permuted run %#02x", off, oa.lds[off], ob.lds[off]),
			map[string]any{"lds_offset": off, "region_lane": (off - ldsPad) / ldsStride, "exec": hx(a.in.exec)})
	}
	return out
}

// checkSameForLanes: the lanes in set must end identically in runs a and x
// (same physical lanes in both). Used for (4) clearing further EXEC bits and
// for the locality relation (scrambling other lanes' inputs).
func checkSameForLanes(p *probe, a, x *runCtx, set uint64, rel, why string, uniform bool) []finding {
	var out []finding
	oa, ox := a.res.out, x.res.out
	add := func(output, what string, w map[string]any) {
		w["lanes_compared"] = hx(set)
		w["exec_base"] = hx(a.in.exec)
		w["exec_other"] = hx(x.in.exec)
		out = append(out, finding{rel + "|" + output, what + " (" + why + ")", w})
	}
	for _, l := range lanesOf(set) {
		if r := diffLane(oa.vgpr, l, ox.vgpr, l); r >= 0 {
			add("vdst", fmt.Sprintf("lane %d ends with v%d=%#x in the base run and %#x in the %s run", l, r, oa.vreg(l, r), ox.vreg(l, r), x.name),
				map[string]any{"lane": l, "vgpr": r, "base": oa.vreg(l, r), "other": ox.vreg(l, r)})
			break
		}
	}
	if d := (oa.vcc ^ ox.vcc) & set; d != 0 {
		l := bits.TrailingZeros64(d)
		add("vcc", fmt.Sprintf("VCC bit of lane %d is %d in the base run and %d in the %s run", l, oa.vcc>>uint(l)&1, ox.vcc>>uint(l)&1, x.name),
			map[string]any{"lane": l, "base_vcc": hx(oa.vcc), "other_vcc": hx(ox.vcc)})
	}
	isMask := map[int]bool{}
	for _, m := range p.maskPairs() {
		isMask[m], isMask[m+1] = true, true
		if d := (oa.sreg64(m) ^ ox.sreg64(m)) & set; d != 0 {
			l := bits.TrailingZeros64(d)
			n := "sdst"
			if m != p.maskOut {
				n = "mask-src"
			}
			add(n, fmt.Sprintf("bit %d of lane-mask s[%d:%d] differs: base %s, %s run %s", l, m, m+1, hx(oa.sreg64(m)), x.name, hx(ox.sreg64(m))),
				map[string]any{"lane": l, "sgpr": m})
		}
	}
	if uniform {
		for i := 0; i < nSGPR; i++ {
			if !isMask[i] && !bytes.Equal(oa.sgpr[4*i:4*i+4], ox.sgpr[4*i:4*i+4]) {
				add("sgpr", fmt.Sprintf("uniform register s%d differs between the base and the %s run", i, x.name), map[string]any{"sgpr": i})
				break
			}
		}
		if oa.scc != ox.scc || oa.pc != ox.pc || oa.m0 != ox.m0 {
			add("scalar-state", "SCC / PC / M0 differ", map[string]any{})
		}
	}
	if k, bad := memDiff(oa, ox, set, false); bad {
		add("mem", fmt.Sprintf("memory byte %#x (region of lane %d) ends as %#02x in the base run and %#02x in the %s run", k, regionOf(k), oa.memByte(k), ox.memByte(k), x.name),
			map[string]any{"addr": k, "lane": regionOf(k)})
	}
	if oa.lds != nil {
		for _, l := range lanesOf(set) {
			lo, hi := ldsPad+l*ldsStride, ldsPad+(l+1)*ldsStride
			if !bytes.Equal(oa.lds[lo:hi], ox.lds[lo:hi]) {
				add("lds", fmt.Sprintf("the LDS region of lane %d ends differently in the base and the %s run", l, x.name), map[string]any{"lane": l})
				break
			}
		}
	}
	return out
}

// ---------------------------------------------------------------------------

type stats struct {
	executions                int64
	pairs                     int64
	pairsSkippedNotImpl       int64
	accessesAttributed        int64
	inactiveLanesChecked      int64
	ldsInactiveRegionsChecked int64
	ldsRegionsWritten         int64
	partial, nonIdentity      bool
	masks                     map[uint64]struct{}
	perms                     map[uint64]struct{}
}

func newStats() *stats { return &stats{masks: map[uint64]struct{}{}, perms: map[uint64]struct{}{}} }

type globalSets struct {
	mu    sync.Mutex
	masks map[uint64]struct{}
	perms map[uint64]struct{}
}

const setCap = 2_000_000

func (g *globalSets) merge(st *stats) {
	g.mu.Lock()
	for k := range st.masks {
		if len(g.masks) < setCap {
			g.masks[k] = struct{}{}
		}
	}
	for k := range st.perms {
		if len(g.perms) < setCap {
			g.perms[k] = struct{}{}
		}
	}
	g.mu.Unlock()
}

// runPair executes the four runs of one (mask, pi) pair and returns the
// violated relations. h (optional) absorbs the outputs of the base run.
func runPair(rn *runner, p *probe, ps *pairSpec, r *vlib.PRNG, st *stats, h *fnv64) []finding {
	base := genState(p, r.Fork("state"))
	base.exec = ps.Exec
	st.pairs++
	st.masks[ps.Exec] = struct{}{}
	st.perms[ps.perm.hash()] = struct{}{}

	a := &runCtx{name: "base", in: base}
	a.res = rn.run(p, base)
	st.executions++
	if h != nil {
		h.state(p, a.res)
	}
	sB := permute(p, base, &ps.perm)
	b := &runCtx{name: "permuted", in: sB, own: &ps.perm}
	b.res = rn.run(p, sB)
	st.executions++

	// (4) clear further EXEC bits
	rr := r.Fork("sub")
	sub := randMask(rr)
	if rr.Intn(4) == 0 && ps.Exec != 0 {
		// keep exactly one of the active lanes
		ls := lanesOf(ps.Exec)
		sub = 1 << uint(ls[rr.Intn(len(ls))])
	}
	sC := base.clone()
	sC.exec = ps.Exec & sub
	c := &runCtx{name: "exec-subset", in: sC}
	c.res = rn.run(p, sC)
	st.executions++

	// locality: scramble the inputs of the lanes outside keep
	var keep uint64
	switch rr.Intn(4) {
	case 0:
		keep = 1 << uint(rr.Intn(64))
	case 1:
		keep = ps.Exec & rr.Uint64()
	case 2:
		keep = ^ps.Exec | rr.Uint64()&rr.Uint64()
	default:
		keep = rr.Uint64()
	}
	sD := scramble(p, base, keep, r.Fork("scramble"))
	d := &runCtx{name: "others-scrambled", in: sD}
	d.res = rn.run(p, sD)
	st.executions++

	// panics
	var out []finding
	runs := []*runCtx{a, b, c, d}
	for _, rc := range runs {
		if rc.res.pan == "" {
			continue
		}
		if notImplementedMsg(rc.res.pan) {
			st.pairsSkippedNotImpl++
			return nil // a value-dependent 'not implemented' path: nothing to judge
		}
		out = append(out, finding{"panic",
			fmt.Sprintf("%s run: the handler panicked (%s) although the same encoding runs to completion under other EXEC masks / lane data", rc.name, rc.res.pan),
			map[string]any{"run": rc.name, "panic": rc.res.pan, "stack": rc.res.stack, "exec": hx(rc.in.exec)}})
		return out
	}
	for _, rc := range runs {
		if rc.res.realBad != "" {
			out = append(out, finding{"write-outside-the-frames-of-the-accessed-pages", fmt.Sprintf("%s run: %s", rc.name, rc.res.realBad),
				map[string]any{"run": rc.name, "exec": hx(rc.in.exec)}})
			break
		}
	}
	if ps.Exec != 0 && ps.Exec != ^uint64(0) {
		st.partial = true
	}
	if !ps.perm.identity() {
		st.nonIdentity = true
	}
	for _, rc := range runs {
		out = append(out, checkLocal(p, rc, st)...)
	}
	out = append(out, checkEquivariance(p, a, b, &ps.perm)...)
	out = append(out, checkSameForLanes(p, a, c, sC.exec, "exec-subset-changes-active-lane",
		"clearing further EXEC bits must change nothing for the lanes that stay active", true)...)
	out = append(out, checkSameForLanes(p, a, d, keep, "depends-on-other-lane",
		"only the inputs of other lanes were replaced; uniform operands and this lane's inputs are the same", true)...)
	for i := range out {
		out[i].wit["pair"] = ps
		out[i].wit["probe"] = p
	}
	return out
}
