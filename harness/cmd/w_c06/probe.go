package main

// Probes: one probe = one encoding of one opcode (arch, format, opcode,
// operand-kind variant). Encodings come from vlib/gcnasm, are decoded by the
// real insts.Disassembler (CDNA3 mode where the emulation GPU builder sets it)
// and the operand roles the monitor needs (which SGPR pair is a lane mask,
// which addressing mode a FLAT instruction uses, ...) are read off the
// *decoded* instruction, so that the state the monitor prepares is the state
// the real pipeline would present to the ALU.

import (
	"encoding/hex"
	"fmt"
	"strings"

	"github.com/sarchlab/mgpusim/v4/amd/insts"

	"verifharness/vlib/gcnasm"
)

// register allocation of every vector probe (VGPR numbers; 4 registers each so
// that dwordx4 / b128 operands never overlap)
const (
	rDst      = 4
	rSrc0     = 8
	rSrc1     = 12
	rSrc2     = 16
	rAddr     = 20
	rData     = 24
	rData1    = 28
	nRandRegs = 32 // v0..v31 carry random per-lane data

	sMaskIn  = 10 // s[10:11]: SGPR pair read as a lane mask (cndmask e64, carry-in)
	sMaskOut = 12 // s[12:13]: SGPR pair written as a lane mask (VOPC e64, VOP3b sdst)
	sUni     = 20 // s[20:21]: uniform scalar source
	sUni1    = 22 // s[22:23]
	sBase    = 24 // s[24:25]: scalar memory base (global saddr, SMEM)
	sOff     = 26 // s26: SMEM offset register
	sSDst    = 30 // s[30:..]: scalar destinations of the scalar probes
	sSData   = 32 // s[32:47]: SMEM destination

	regVCC  = -2 // "the mask operand is VCC itself"
	regNone = -1
)

type memMode int

const (
	memNone    memMode = iota
	memFlat64          // v[addr:addr+1] holds the 64-bit address
	memSAddr32         // s[saddr:saddr+1] + zero-extended v[addr]
)

type probe struct {
	ID      string `json:"id"` // arch/format/opcode/variant
	Arch    string `json:"arch"`
	Format  string `json:"format"` // as decoded: VOP1 VOP2 VOPC VOP3a VOP3b DS FLAT (scalar: SOP2 ...)
	Opcode  int    `json:"opcode"`
	Name    string `json:"name"`
	Variant string `json:"variant"`
	Hex     string `json:"encoding"`
	Text    string `json:"operands"`

	arch  gcnasm.Arch
	bytes []byte
	inst  *insts.Inst
	desc  gcnasm.Desc

	scalar bool

	// roles
	maskIn    int // SGPR pair index, regVCC or regNone
	maskOut   int
	vccWrite  bool // the ISA defines a full VCC write (compare / carry-out)
	execWrite bool // V_CMPX: also writes EXEC
	knownISA  bool // the opcode number is assigned in this architecture's manual
	mem       memMode
	saddr     int
	lds       bool
	execDep   bool // scalar: definition reads EXEC
	real      bool // memory goes through the real emu storage accessor (realacc.go)
}

func (p *probe) opKey() string { return fmt.Sprintf("%s|%s|%d", p.Arch, p.Format, p.Opcode) }

func (p *probe) key(rel string) string {
	if p.real {
		rel = "real-accessor|" + rel
	}
	return fmt.Sprintf("C06|%s|%s|%d|%s|%s", p.Arch, p.Format, p.Opcode, p.Name, rel)
}

// maskPairs lists the SGPR pairs that hold one bit per lane for this probe.
func (p *probe) maskPairs() []int {
	var out []int
	if p.maskIn >= 0 {
		out = append(out, p.maskIn)
	}
	if p.maskOut >= 0 && p.maskOut != p.maskIn {
		out = append(out, p.maskOut)
	}
	return out
}

// ---------------------------------------------------------------------------
// documented cross-lane / lane-position dependent instructions (excluded by
// mnemonic). Citations: GCN3 ISA manual (docs/gcn3-instruction-set-architecture.pdf),
// chapter 12 "Instruction Set" / 13 "Microcode formats".
var crossLane = map[string]string{
	"v_readfirstlane_b32": "GCN3 ISA VOP1 op 2: 'Copy one VGPR value to one SGPR ... Lane# = FindFirst1fromLSB(exec) ... Executes regardless of exec mask value'",
	"v_readlane_b32":      "GCN3 ISA VOP3 op 649: 'Copy one VGPR value to one SGPR ... Src1 = Lane Select (SGPR or M0). Ignores exec mask'",
	"v_writelane_b32":     "GCN3 ISA VOP3 op 650: 'Write value into one VGPR in one lane ... Src1 = Lane Select (SGPR or M0). Ignores exec mask'",
	"ds_swizzle_b32":      "GCN3 ISA DS op 61: 'Swizzles input thread data based on offset mask and returns; note does not read or write the DS memory banks' (data moves between lanes)",
	"ds_permute_b32":      "GCN3 ISA DS op 62: 'Forward permute ... does not write any LDS memory' (lane i's data goes to the lane selected by its address operand)",
	"ds_bpermute_b32":     "GCN3 ISA DS op 63: 'Backward permute ... does not actually write any LDS memory' (lane i reads the lane selected by its address operand)",
	"v_mbcnt_lo_u32_b32":  "GCN3 ISA VOP3 op 652: 'ThreadMask = (1 << ThreadPosition) - 1' (result is a function of the lane's position in the wavefront)",
	"v_mbcnt_hi_u32_b32":  "GCN3 ISA VOP3 op 653: 'ThreadMask = (1 << ThreadPosition) - 1' (result is a function of the lane's position in the wavefront)",
	"ds_write_addtid_b32": "GCN3 ISA DS op 29: address = M0 base + offset + TID*4 (lane position is an implicit operand)",
	"ds_read_addtid_b32":  "GCN3 ISA DS op 182: address = M0 base + offset + TID*4 (lane position is an implicit operand)",
	"ds_append":           "GCN3 ISA DS op 190: wavefront-wide append counter (one LDS word shared by all lanes)",
	"ds_consume":          "GCN3 ISA DS op 189: wavefront-wide consume counter (one LDS word shared by all lanes)",
	"ds_ordered_count":    "GCN3 ISA DS op 191: wavefront-ordered GDS counter",
	"v_interp_p1_f32":     "GCN3 ISA VINTRP: parameter interpolation reads LDS by primitive (quad) position",
	"v_interp_p2_f32":     "GCN3 ISA VINTRP: parameter interpolation reads LDS by primitive (quad) position",
	"v_interp_mov_f32":    "GCN3 ISA VINTRP: parameter load by primitive (quad) position",
}

func isCrossLane(name string) (string, bool) {
	n := strings.TrimSuffix(strings.TrimSuffix(name, "_e32"), "_e64")
	if c, ok := crossLane[n]; ok {
		return c, true
	}
	if strings.HasPrefix(n, "ds_gws_") {
		return "GCN3 ISA DS ops 152..157: global wave sync (GWS) resources shared by wavefronts", true
	}
	return "", false
}

// scalar instructions whose definition reads EXEC although EXEC is not named
// as an operand.
func scalarReadsExec(name string) bool {
	for _, s := range []string{"saveexec", "wrexec", "cbranch_exec", "_fork", "cbranch_join", "s_setvskip"} {
		if strings.Contains(name, s) {
			return true
		}
	}
	return false
}

// ---------------------------------------------------------------------------

type decoders struct {
	g *insts.Disassembler
	c *insts.Disassembler
}

func newDecoders() *decoders {
	d := &decoders{g: insts.NewDisassembler(), c: insts.NewDisassembler()}
	d.c.IsCDNA3 = true // amd/samples/runner/emusystem/emugpu/builder.go: disassembler.IsCDNA3 = isCDNA3
	return d
}

func (d *decoders) decode(arch gcnasm.Arch, b []byte) (inst *insts.Inst, err error) {
	defer func() {
		if r := recover(); r != nil {
			inst, err = nil, fmt.Errorf("decoder panic: %v", r)
		}
	}()
	// the compute unit hands the decoder 8 bytes at PC (emu/computeunit.go
	// runWfUntilBarrier); a 4-byte instruction is followed by s_nop here
	buf := append([]byte(nil), b...)
	for len(buf) < 8 {
		buf = append(buf, 0x00, 0x00, 0x80, 0xBF)
	}
	if arch == gcnasm.CDNA3 {
		return d.c.Decode(buf)
	}
	return d.g.Decode(buf)
}

var fmtName = map[insts.FormatType]string{
	insts.SOP1: "SOP1", insts.SOP2: "SOP2", insts.SOPC: "SOPC", insts.SOPK: "SOPK", insts.SOPP: "SOPP",
	insts.SMEM: "SMEM", insts.VOP1: "VOP1", insts.VOP2: "VOP2", insts.VOPC: "VOPC", insts.VOP3a: "VOP3a",
	insts.VOP3b: "VOP3b", insts.DS: "DS", insts.FLAT: "FLAT",
}

func archName(a gcnasm.Arch) string { return a.String() }

// manualName returns the mnemonic of the architecture's own manual and whether
// the number is assigned there; otherwise the other manual's / the
// simulator's name is used for reporting.
func manualName(arch gcnasm.Arch, f gcnasm.Format, op int, inst *insts.Inst) (string, bool) {
	ff, oo := f, op
	if f == gcnasm.VOP3P {
		oo = op
	}
	if n := gcnasm.NameOf(arch, ff, oo); n != "" {
		return n, true
	}
	other := gcnasm.GCN3
	if arch == gcnasm.GCN3 {
		other = gcnasm.CDNA3
	}
	if n := gcnasm.NameOf(other, ff, oo); n != "" {
		return n, false
	}
	if inst != nil && inst.InstType != nil && inst.InstName != "" {
		return strings.TrimSuffix(strings.TrimSuffix(inst.InstName, "_e32"), "_e64"), false
	}
	return fmt.Sprintf("op%d", op), false
}

func isCarryWriterVOP2(arch gcnasm.Arch, name string) bool {
	switch name {
	case "v_add_co_u32", "v_sub_co_u32", "v_subrev_co_u32", "v_addc_co_u32", "v_subb_co_u32", "v_subbrev_co_u32":
		return true
	case "v_add_u32", "v_sub_u32", "v_subrev_u32", "v_addc_u32", "v_subb_u32", "v_subbrev_u32":
		return arch == gcnasm.GCN3 // GCN3 ISA 6.2.2: 'Instructions producing a carry-out ... write their result to VCC when used in the VOP2 form'
	}
	return false
}

type variant struct {
	name string
	d    gcnasm.Desc
}

func v(n int) gcnasm.Operand  { return gcnasm.V(n) }
func s(n int) gcnasm.Operand  { return gcnasm.S(n) }
func s2(n int) gcnasm.Operand { return gcnasm.SRange(n, 2) }

const litVal = 0x40490fdb // pi as f32; also a plausible integer

// variantsFor lists the encodings tried for one opcode of a vector format.
// Encodings the encoder or the decoder rejects are dropped (and counted).
func variantsFor(arch gcnasm.Arch, f gcnasm.Format, op int) []variant {
	var out []variant
	add := func(n string, d gcnasm.Desc) {
		d.Arch = arch
		d.Format = f
		d.Opcode = op
		out = append(out, variant{n, d})
	}
	sdwa := func(i int) *gcnasm.SDWA {
		sels := []uint8{gcnasm.SelDWord, gcnasm.SelByte0, gcnasm.SelByte2, gcnasm.SelWord1, gcnasm.SelWord0, gcnasm.SelByte3}
		return &gcnasm.SDWA{DstSel: sels[(i+1)%6], DstUnused: uint8(i % 3), Src0Sel: sels[(i+2)%6], Src1Sel: sels[(i+3)%6]}
	}
	switch f {
	case gcnasm.VOP1:
		add("v", gcnasm.Desc{Dst: v(rDst), Src0: v(rSrc0)})
		add("s", gcnasm.Desc{Dst: v(rDst), Src0: s(sUni)})
		add("lit", gcnasm.Desc{Dst: v(rDst), Src0: gcnasm.Lit(litVal)})
		add("imm", gcnasm.Desc{Dst: v(rDst), Src0: gcnasm.Imm(17)})
		add("fimm", gcnasm.Desc{Dst: v(rDst), Src0: gcnasm.F(-2.0)})
		add("alias", gcnasm.Desc{Dst: v(rSrc0), Src0: v(rSrc0)})
		add("sdwa", gcnasm.Desc{Dst: v(rDst), Src0: v(rSrc0), SDWA: sdwa(op)})
	case gcnasm.VOP2, gcnasm.VOPC:
		k := gcnasm.Operand{}
		lit := uint32(litVal)
		if f == gcnasm.VOP2 && (op == 23 || op == 24 || op == 36 || op == 37) {
			// the decoder consumes a trailing constant K for these numbers
			k = gcnasm.Lit(lit)
		}
		dst := v(rDst)
		if f == gcnasm.VOPC {
			dst = gcnasm.Operand{}
		}
		add("vv", gcnasm.Desc{Dst: dst, Src0: v(rSrc0), Src1: v(rSrc1), Src2: k})
		add("sv", gcnasm.Desc{Dst: dst, Src0: s(sUni), Src1: v(rSrc1), Src2: k})
		add("litv", gcnasm.Desc{Dst: dst, Src0: gcnasm.Lit(lit), Src1: v(rSrc1), Src2: k})
		add("immv", gcnasm.Desc{Dst: dst, Src0: gcnasm.Imm(-5), Src1: v(rSrc1), Src2: k})
		add("fimmv", gcnasm.Desc{Dst: dst, Src0: gcnasm.F(0.5), Src1: v(rSrc1), Src2: k})
		if f == gcnasm.VOP2 {
			add("alias", gcnasm.Desc{Dst: v(rSrc1), Src0: v(rSrc0), Src1: v(rSrc1), Src2: k})
		}
		if k.Kind == gcnasm.KNone {
			add("sdwa", gcnasm.Desc{Dst: dst, Src0: v(rSrc0), Src1: v(rSrc1), SDWA: sdwa(op)})
			add("sdwa2", gcnasm.Desc{Dst: dst, Src0: v(rSrc0), Src1: v(rSrc1), SDWA: sdwa(op + 1)})
		}
	case gcnasm.VOP3a, gcnasm.VOP3b:
		isB := gcnasm.IsVOP3bOpcode(arch, op) || op == 480 || op == 481
		switch {
		case op < 256: // VOPC promoted: the destination is an SGPR pair
			for _, dd := range []struct {
				n string
				o gcnasm.Operand
			}{{"sdst", s2(sMaskOut)}, {"vccdst", gcnasm.VCC}} {
				add(dd.n+"-vv", gcnasm.Desc{Dst: dd.o, Src0: v(rSrc0), Src1: v(rSrc1)})
				add(dd.n+"-sv", gcnasm.Desc{Dst: dd.o, Src0: s(sUni), Src1: v(rSrc1)})
				add(dd.n+"-vs", gcnasm.Desc{Dst: dd.o, Src0: v(rSrc0), Src1: s(sUni1)})
				add(dd.n+"-vimm", gcnasm.Desc{Dst: dd.o, Src0: v(rSrc0), Src1: gcnasm.Imm(3)})
				add(dd.n+"-mod", gcnasm.Desc{Dst: dd.o, Src0: v(rSrc0), Src1: v(rSrc1), Abs: 1, Neg: 2})
			}
		case isB:
			for _, dd := range []struct {
				n string
				o gcnasm.Operand
			}{{"sdst", s2(sMaskOut)}, {"vccdst", gcnasm.VCC}} {
				if op >= 284 && op <= 286 { // carry-in is a lane mask
					add(dd.n+"-vvm", gcnasm.Desc{Format: gcnasm.VOP3b, Dst: v(rDst), SDst: dd.o, Src0: v(rSrc0), Src1: v(rSrc1), Src2: s2(sMaskIn)})
					add(dd.n+"-vvvcc", gcnasm.Desc{Dst: v(rDst), SDst: dd.o, Src0: v(rSrc0), Src1: v(rSrc1), Src2: gcnasm.VCC})
					add(dd.n+"-svm", gcnasm.Desc{Dst: v(rDst), SDst: dd.o, Src0: s(sUni), Src1: v(rSrc1), Src2: s2(sMaskIn)})
				} else {
					add(dd.n+"-vvv", gcnasm.Desc{Dst: v(rDst), SDst: dd.o, Src0: v(rSrc0), Src1: v(rSrc1), Src2: v(rSrc2)})
					add(dd.n+"-svv", gcnasm.Desc{Dst: v(rDst), SDst: dd.o, Src0: s(sUni), Src1: v(rSrc1), Src2: v(rSrc2)})
					add(dd.n+"-vvs", gcnasm.Desc{Dst: v(rDst), SDst: dd.o, Src0: v(rSrc0), Src1: v(rSrc1), Src2: s(sUni1)})
					add(dd.n+"-same", gcnasm.Desc{Dst: v(rDst), SDst: dd.o, Src0: v(rSrc0), Src1: v(rSrc0), Src2: v(rSrc2)})
				}
			}
			for i := range out {
				out[i].d.Format = gcnasm.VOP3b
			}
		case op == 256: // v_cndmask_b32_e64: src2 is a lane mask
			add("vvm", gcnasm.Desc{Dst: v(rDst), Src0: v(rSrc0), Src1: v(rSrc1), Src2: s2(sMaskIn)})
			add("vvvcc", gcnasm.Desc{Dst: v(rDst), Src0: v(rSrc0), Src1: v(rSrc1), Src2: gcnasm.VCC})
			add("svm", gcnasm.Desc{Dst: v(rDst), Src0: s(sUni), Src1: v(rSrc1), Src2: s2(sMaskIn)})
			add("vimmm", gcnasm.Desc{Dst: v(rDst), Src0: v(rSrc0), Src1: gcnasm.Imm(1), Src2: s2(sMaskIn)})
			add("alias", gcnasm.Desc{Dst: v(rSrc0), Src0: v(rSrc0), Src1: v(rSrc1), Src2: s2(sMaskIn)})
		case op >= 896: // VOP3P
			pk := func(n string, d gcnasm.Desc) {
				d.Arch, d.Format, d.Opcode = arch, gcnasm.VOP3P, op-896
				out = append(out, variant{n, d})
			}
			pk("vvv", gcnasm.Desc{Dst: v(rDst), Src0: v(rSrc0), Src1: v(rSrc1), Src2: v(rSrc2), OpSelHi: 7})
			pk("vvv-sel", gcnasm.Desc{Dst: v(rDst), Src0: v(rSrc0), Src1: v(rSrc1), Src2: v(rSrc2), OpSel: 5, OpSelHi: 2, Neg: 3})
			pk("svv", gcnasm.Desc{Dst: v(rDst), Src0: s(sUni), Src1: v(rSrc1), Src2: v(rSrc2), OpSel: 2, OpSelHi: 5, NegHi: 1})
			pk("alias", gcnasm.Desc{Dst: v(rSrc2), Src0: v(rSrc0), Src1: v(rSrc1), Src2: v(rSrc2), OpSelHi: 7})
		default:
			add("vvv", gcnasm.Desc{Dst: v(rDst), Src0: v(rSrc0), Src1: v(rSrc1), Src2: v(rSrc2)})
			add("svv", gcnasm.Desc{Dst: v(rDst), Src0: s(sUni), Src1: v(rSrc1), Src2: v(rSrc2)})
			add("vsv", gcnasm.Desc{Dst: v(rDst), Src0: v(rSrc0), Src1: s(sUni1), Src2: v(rSrc2)})
			add("vvs", gcnasm.Desc{Dst: v(rDst), Src0: v(rSrc0), Src1: v(rSrc1), Src2: s(sUni)})
			add("vimmf", gcnasm.Desc{Dst: v(rDst), Src0: v(rSrc0), Src1: gcnasm.Imm(7), Src2: gcnasm.F(1.0)})
			add("mod", gcnasm.Desc{Dst: v(rDst), Src0: v(rSrc0), Src1: v(rSrc1), Src2: v(rSrc2), Abs: 5, Neg: 3})
			add("same", gcnasm.Desc{Dst: v(rDst), Src0: v(rSrc0), Src1: v(rSrc0), Src2: v(rSrc0), Neg: 4})
			add("alias", gcnasm.Desc{Dst: v(rSrc2), Src0: v(rSrc0), Src1: v(rSrc1), Src2: v(rSrc2)})
		}
	case gcnasm.DS:
		add("o0", gcnasm.Desc{Dst: v(rDst), Addr: v(rAddr), Data: v(rData), Data1: v(rData1)})
		add("o-4-9", gcnasm.Desc{Dst: v(rDst), Addr: v(rAddr), Data: v(rData), Data1: v(rData1), Offset0: 4, Offset1: 9})
		add("o-24-1", gcnasm.Desc{Dst: v(rDst), Addr: v(rAddr), Data: v(rData), Data1: v(rData1), Offset0: 24, Offset1: 1})
		add("o-8-0", gcnasm.Desc{Dst: v(rDst), Addr: v(rAddr), Data: v(rData), Data1: v(rData1), Offset0: 8, Offset1: 0})
		add("alias", gcnasm.Desc{Dst: v(rAddr), Addr: v(rAddr), Data: v(rData), Data1: v(rData1), Offset0: 2, Offset1: 0})
	case gcnasm.FLAT:
		if arch == gcnasm.GCN3 {
			add("v64", gcnasm.Desc{Dst: v(rDst), Addr: gcnasm.VRange(rAddr, 2), Data: v(rData)})
			add("v64-glc", gcnasm.Desc{Dst: v(rDst), Addr: gcnasm.VRange(rAddr, 2), Data: v(rData), GLC: true, SLC: true})
			add("alias", gcnasm.Desc{Dst: v(rAddr), Addr: gcnasm.VRange(rAddr, 2), Data: v(rData)})
		} else {
			add("global-off", gcnasm.Desc{Seg: gcnasm.SegGlobal, Dst: v(rDst), Addr: gcnasm.VRange(rAddr, 2), Data: v(rData), SAddr: gcnasm.Off})
			add("global-off+", gcnasm.Desc{Seg: gcnasm.SegGlobal, Dst: v(rDst), Addr: gcnasm.VRange(rAddr, 2), Data: v(rData), SAddr: gcnasm.Off, Offset: 2044})
			add("global-off-", gcnasm.Desc{Seg: gcnasm.SegGlobal, Dst: v(rDst), Addr: gcnasm.VRange(rAddr, 2), Data: v(rData), SAddr: gcnasm.Off, Offset: -4096})
			add("global-saddr", gcnasm.Desc{Seg: gcnasm.SegGlobal, Dst: v(rDst), Addr: v(rAddr), Data: v(rData), SAddr: s2(sBase), Offset: 16})
			add("global-saddr-", gcnasm.Desc{Seg: gcnasm.SegGlobal, Dst: v(rDst), Addr: v(rAddr), Data: v(rData), SAddr: s2(sBase), Offset: -260})
			add("global-s0", gcnasm.Desc{Seg: gcnasm.SegGlobal, Dst: v(rDst), Addr: v(rAddr), Data: v(rData), SAddr: s2(0), Offset: 8})
			add("flat", gcnasm.Desc{Seg: gcnasm.SegFlat, Dst: v(rDst), Addr: gcnasm.VRange(rAddr, 2), Data: v(rData), SAddr: gcnasm.Off, Offset: 12})
			add("flat-s0", gcnasm.Desc{Seg: gcnasm.SegFlat, Dst: v(rDst), Addr: gcnasm.VRange(rAddr, 2), Data: v(rData)})
			add("alias", gcnasm.Desc{Seg: gcnasm.SegGlobal, Dst: v(rAddr), Addr: gcnasm.VRange(rAddr, 2), Data: v(rData), SAddr: gcnasm.Off})
		}
	}
	return out
}

// scalarVariantsFor lists encodings for a scalar opcode.
func scalarVariantsFor(arch gcnasm.Arch, f gcnasm.Format, op int) []variant {
	var out []variant
	add := func(n string, d gcnasm.Desc) {
		d.Arch, d.Format, d.Opcode = arch, f, op
		out = append(out, variant{n, d})
	}
	switch f {
	case gcnasm.SOP2:
		add("ss", gcnasm.Desc{Dst: s2(sSDst), Src0: s2(sUni), Src1: s2(sUni1)})
		add("slit", gcnasm.Desc{Dst: s2(sSDst), Src0: s2(sUni), Src1: gcnasm.Lit(litVal)})
		add("imms", gcnasm.Desc{Dst: s2(sSDst), Src0: gcnasm.Imm(33), Src1: s2(sUni1)})
		add("vccs", gcnasm.Desc{Dst: s2(sSDst), Src0: gcnasm.VCC, Src1: s2(sUni1)})
		add("vccdst", gcnasm.Desc{Dst: gcnasm.VCC, Src0: s2(sUni), Src1: s2(sUni1)})
		add("m0", gcnasm.Desc{Dst: s2(sSDst), Src0: gcnasm.M0, Src1: s2(sUni1)})
	case gcnasm.SOP1:
		add("s", gcnasm.Desc{Dst: s2(sSDst), Src0: s2(sUni)})
		add("lit", gcnasm.Desc{Dst: s2(sSDst), Src0: gcnasm.Lit(litVal)})
		add("imm", gcnasm.Desc{Dst: s2(sSDst), Src0: gcnasm.Imm(-7)})
		add("vcc", gcnasm.Desc{Dst: s2(sSDst), Src0: gcnasm.VCC})
		add("vccdst", gcnasm.Desc{Dst: gcnasm.VCC, Src0: s2(sUni)})
		add("m0dst", gcnasm.Desc{Dst: gcnasm.M0, Src0: s(sUni)})
	case gcnasm.SOPC:
		add("ss", gcnasm.Desc{Src0: s2(sUni), Src1: s2(sUni1)})
		add("slit", gcnasm.Desc{Src0: s2(sUni), Src1: gcnasm.Lit(litVal)})
		add("simm", gcnasm.Desc{Src0: s2(sUni), Src1: gcnasm.Imm(0)})
		add("vccs", gcnasm.Desc{Src0: gcnasm.VCCLo, Src1: s2(sUni1)})
	case gcnasm.SOPK:
		add("k", gcnasm.Desc{Dst: s(sSDst), SImm16: 0x1234})
		add("kneg", gcnasm.Desc{Dst: s(sSDst), SImm16: 0xfff0})
		add("vccdst", gcnasm.Desc{Dst: gcnasm.VCCLo, SImm16: 7})
	case gcnasm.SOPP:
		add("k", gcnasm.Desc{SImm16: 0x0007})
		add("kneg", gcnasm.Desc{SImm16: 0xfffc})
		add("k0", gcnasm.Desc{SImm16: 0})
	case gcnasm.SMEM:
		add("imm", gcnasm.Desc{Data: gcnasm.SRange(sSData, 16), Base: s2(sBase), Imm: true, Offset: 0x40})
		add("imm0", gcnasm.Desc{Data: gcnasm.SRange(sSData, 16), Base: s2(sBase), Imm: true, Offset: 0})
		add("sgpr", gcnasm.Desc{Data: gcnasm.SRange(sSData, 16), Base: s2(sBase), SOffset: s(sOff)})
	}
	return out
}

func describe(d gcnasm.Desc) string {
	var parts []string
	f := func(n string, o gcnasm.Operand) {
		if o.Kind != gcnasm.KNone {
			parts = append(parts, n+"="+o.String())
		}
	}
	f("dst", d.Dst)
	f("sdst", d.SDst)
	f("src0", d.Src0)
	f("src1", d.Src1)
	f("src2", d.Src2)
	f("addr", d.Addr)
	f("data", d.Data)
	f("data1", d.Data1)
	f("saddr", d.SAddr)
	f("base", d.Base)
	f("soffset", d.SOffset)
	if d.Abs != 0 || d.Neg != 0 {
		parts = append(parts, fmt.Sprintf("abs=%d neg=%d", d.Abs, d.Neg))
	}
	if d.OpSel != 0 || d.OpSelHi != 0 || d.NegHi != 0 {
		parts = append(parts, fmt.Sprintf("opsel=%d opselhi=%d neghi=%d", d.OpSel, d.OpSelHi, d.NegHi))
	}
	if d.SDWA != nil {
		parts = append(parts, fmt.Sprintf("sdwa{dst_sel=%d dst_u=%d s0sel=%d s1sel=%d}", d.SDWA.DstSel, d.SDWA.DstUnused, d.SDWA.Src0Sel, d.SDWA.Src1Sel))
	}
	if d.Offset != 0 || d.Offset0 != 0 || d.Offset1 != 0 || d.SImm16 != 0 {
		parts = append(parts, fmt.Sprintf("offset=%d offset0=%d offset1=%d simm16=%#x", d.Offset, d.Offset0, d.Offset1, d.SImm16))
	}
	if d.Format == gcnasm.FLAT {
		parts = append(parts, fmt.Sprintf("seg=%d", d.Seg))
	}
	return strings.Join(parts, " ")
}

// regIndexOf returns the SGPR pair index of a decoded register operand, regVCC
// for VCC, regNone otherwise.
func regIndexOf(o *insts.Operand) int {
	if o == nil || o.OperandType != insts.RegOperand || o.Register == nil {
		return regNone
	}
	if o.Register.IsSReg() {
		return o.Register.RegIndex()
	}
	switch o.Register.RegType {
	case insts.VCC, insts.VCCLO:
		return regVCC
	}
	return regNone
}

// makeProbe encodes, decodes and classifies one variant. err != nil: the
// encoder or the decoder does not accept the encoding.
func makeProbe(dec *decoders, arch gcnasm.Arch, f gcnasm.Format, op int, va variant, scalar bool) (*probe, error) {
	b, err := gcnasm.Encode(va.d)
	if err != nil {
		return nil, fmt.Errorf("encoder: %w", err)
	}
	inst, err := dec.decode(arch, b)
	if err != nil {
		return nil, err
	}
	fn, ok := fmtName[inst.FormatType]
	if !ok {
		return nil, fmt.Errorf("decoded format %v not handled", inst.FormatType)
	}
	// the opcode number reported is the one the ALU dispatches on
	dop := int(inst.Opcode)
	nameFmt, nameOp := f, op
	if f == gcnasm.VOP3P {
		nameFmt, nameOp = gcnasm.VOP3P, op
		dop = int(inst.Opcode)
	}
	name, known := manualName(arch, nameFmt, nameOp, inst)
	p := &probe{
		Arch: archName(arch), Format: fn, Opcode: dop, Name: name, Variant: va.name, Hex: hex.EncodeToString(b),
		Text: describe(va.d), arch: arch, bytes: b, inst: inst, desc: va.d, scalar: scalar,
		maskIn: regNone, maskOut: regNone, knownISA: known,
	}
	p.ID = fmt.Sprintf("%s/%s/%d/%s", p.Arch, p.Format, p.Opcode, p.Variant)
	if scalar {
		p.execDep = scalarReadsExec(name)
		return p, nil
	}
	p.execWrite = strings.Contains(name, "cmpx")
	switch inst.FormatType {
	case insts.VOPC:
		p.vccWrite = true
	case insts.VOP2:
		p.vccWrite = known && isCarryWriterVOP2(arch, name)
	case insts.VOP3a:
		if dop < 256 {
			p.maskOut = regIndexOf(inst.Dst)
			if p.maskOut == regVCC {
				p.vccWrite = true
			}
		}
		if dop == 256 {
			p.maskIn = regIndexOf(inst.Src2)
		}
	case insts.VOP3b:
		p.maskOut = regIndexOf(inst.SDst)
		if p.maskOut == regVCC {
			p.vccWrite = true
		}
		if dop >= 284 && dop <= 286 {
			p.maskIn = regIndexOf(inst.Src2)
		}
	case insts.FLAT:
		p.mem = memFlat64
		if inst.Addr != nil && inst.Addr.RegCount < 2 {
			p.mem = memSAddr32
			p.saddr = 0
			if inst.SAddr != nil {
				p.saddr = int(inst.SAddr.IntValue)
			}
			if p.saddr < 0 || p.saddr > 100 {
				return nil, fmt.Errorf("decoded 32-bit FLAT address with scalar base s%d", p.saddr)
			}
		}
	case insts.DS:
		p.lds = true
		// keep every address inside the lane's own 1 KiB LDS region: lane base
		// offset < 512, so the instruction offset may be up to ~400 bytes
		// (two-address forms scale their 8-bit offsets by 4 or 8)
		if inst.Offset0 > 400 || inst.Offset1*8 > 400 {
			return nil, fmt.Errorf("harness: DS offset %d/%d would leave the lane's LDS region", inst.Offset0, inst.Offset1)
		}
	}
	return p, nil
}
