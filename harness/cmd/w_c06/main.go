// w_c06: vector lanes are independent and obey the EXEC mask (DESIGN.md, C06).
//
// A metamorphic monitor over every implemented vector instruction of the two
// real ALUs (emu.NewALU = GCN3, cdna3.NewALU): encodings from vlib/gcnasm ->
// real insts.Disassembler -> real ALU.Run over a state backed by the real
// emu.Wavefront, an instrumented StorageAccessor (flat byte map, every access
// recorded) and a canary-padded LDS slice. No per-opcode reference is used;
// the oracle is a set of relations between runs (see check.go).
package main

import (
	"encoding/json"
	"fmt"
	"io"
	"log"
	"os"
	"runtime/pprof"
	"sort"
	"strings"
	"sync"
	"time"

	"verifharness/vlib"
	"verifharness/vlib/gcnasm"
)

type opStatus struct {
	Arch, Format string
	Opcode       int
	Name         string
	probes       []*probe
	unimpl       []string // variant: message
	crash        []string
	rejected     []string
	excluded     string // citation if excluded by mnemonic
	scalar       bool
	execDep      bool
}

func (o *opStatus) label() string { return fmt.Sprintf("%s(%d)", o.Name, o.Opcode) }

type vecFormat struct {
	f      gcnasm.Format
	lo, hi int
}

var vectorFormats = []vecFormat{
	{gcnasm.VOP1, 0, 255}, {gcnasm.VOP2, 0, 61}, {gcnasm.VOPC, 0, 255}, {gcnasm.VOP3a, 0, 1023},
	{gcnasm.DS, 0, 255}, {gcnasm.FLAT, 0, 127},
}

// opcode numbers that would be another format's encoding are left out
var scalarFormats = []vecFormat{
	{gcnasm.SOP2, 0, 95}, {gcnasm.SOPK, 0, 28}, {gcnasm.SOP1, 0, 255}, {gcnasm.SOPC, 0, 127},
	{gcnasm.SOPP, 0, 127}, {gcnasm.SMEM, 0, 255},
}

var discoveryExecs = []uint64{0xffffffffffffffff, 0x00000000ffffffff, 1, 1 << 63, 0x5555555555555555}

// discover encodes / decodes / test-runs every variant of one opcode number.
// nil = the decode table has no such instruction.
func discover(dec *decoders, rn *runner, arch gcnasm.Arch, f gcnasm.Format, op int, scalar bool) *opStatus {
	var vs []variant
	if scalar {
		vs = scalarVariantsFor(arch, f, op)
	} else {
		vs = variantsFor(arch, f, op)
	}
	var st *opStatus
	for _, va := range vs {
		p, err := makeProbe(dec, arch, va.d.Format, op, va, scalar)
		if err != nil {
			if strings.Contains(err.Error(), "not found") || strings.Contains(err.Error(), "cannot find the instruction format") {
				continue // not in the decode table
			}
			if st != nil {
				st.rejected = append(st.rejected, va.name+": "+err.Error())
			}
			continue
		}
		if st == nil {
			st = &opStatus{Arch: p.Arch, Format: p.Format, Opcode: p.Opcode, Name: p.Name, scalar: scalar, execDep: p.execDep}
		}
		if p.Format != st.Format || p.Opcode != st.Opcode {
			// a variant that decodes as something else (should not happen)
			st.rejected = append(st.rejected, fmt.Sprintf("%s: decodes as %s %d", va.name, p.Format, p.Opcode))
			continue
		}
		// test runs on a fixed state
		nPanic, msg := 0, ""
		allNI := true
		for i, e := range discoveryExecs {
			s := genState(p, vlib.NewPRNG(0xC06D15C).ForkN(p.ID, i))
			s.exec = e
			res := rn.run(p, s)
			if res.pan != "" {
				nPanic++
				msg = res.pan
				if !notImplementedMsg(res.pan) {
					allNI = false
				}
			}
		}
		switch {
		case nPanic == len(discoveryExecs) && allNI:
			st.unimpl = append(st.unimpl, va.name+": "+firstLine(msg))
		case nPanic == len(discoveryExecs):
			st.crash = append(st.crash, va.name+": "+firstLine(msg))
		default:
			st.probes = append(st.probes, p)
		}
	}
	if st != nil && !scalar {
		if c, ok := isCrossLane(st.Name); ok {
			st.excluded = c
		}
	}
	return st
}

func firstLine(s string) string {
	if i := strings.IndexByte(s, '\n'); i >= 0 {
		s = s[:i]
	}
	if len(s) > 160 {
		s = s[:160]
	}
	return strings.TrimSpace(s)
}

// ---------------------------------------------------------------------------
// pair lists

func hashStr(s string) uint64 {
	h := uint64(1469598103934665603)
	for i := 0; i < len(s); i++ {
		h = (h ^ uint64(s[i])) * 1099511628211
	}
	return h
}

func canonicalPairs(p *probe) []pairSpec {
	r := vlib.NewPRNG(0xC06CA11).Fork(p.ID)
	var masks []uint64
	var kinds []string
	for i, m := range fixedMasks {
		masks = append(masks, m)
		kinds = append(kinds, fixedMaskNames[i])
	}
	for _, b := range []uint{0, 1, 31, 32, 63} {
		masks = append(masks, 1<<b)
		kinds = append(kinds, "single-bit")
	}
	for i := 0; i < 10; i++ {
		masks = append(masks, randMask(r))
		kinds = append(kinds, "random")
	}
	permSeq := []int{4, 1, 2, 3, 0}
	out := make([]pairSpec, len(masks))
	for i, m := range masks {
		k := permSeq[i%len(permSeq)]
		pm, name := mkPerm(k, r)
		out[i] = pairSpec{Phase: "canonical", Index: i, Exec: m, MaskKind: kinds[i], PermKind: name, perm: pm, permKindID: k}
	}
	return out
}

func seededPairs(p *probe, n int, base *vlib.PRNG) []pairSpec {
	r := base.Fork("pairs")
	hs := int(hashStr(p.opKey()) % 64)
	out := make([]pairSpec, 0, n)
	nSingles := 9
	if n >= 500 {
		nSingles = 64
	}
	for i := 0; i < n; i++ {
		var m uint64
		var kind string
		switch {
		case i < len(fixedMasks):
			m, kind = fixedMasks[i], fixedMaskNames[i]
		case i < len(fixedMasks)+nSingles:
			j := i - len(fixedMasks)
			m, kind = 1<<uint((hs+7*j+int(base.Fork("rot").Uint64()%64))%64), "single-bit"
		default:
			m, kind = randMask(r), "random"
		}
		k := r.Intn(6)
		pm, name := mkPerm(k, r)
		out = append(out, pairSpec{Phase: "seeded", Index: i, Exec: m, MaskKind: kind, PermKind: name, perm: pm, permKindID: k})
	}
	return out
}

// ---------------------------------------------------------------------------

type replayFilter struct {
	on    bool
	probe string
	phase string
	index int
}

type result struct {
	findings []finding
	p        *probe
}

func main() {
	if vlib.IsChild() && len(os.Args) > 2 && os.Args[1] == "ifchild" {
		ifChild() // timing in-flight layer (inflight.go)
		return
	}
	if vlib.IsChild() && len(os.Args) > 2 && os.Args[1] == "ixchild" {
		ixChild() // initial-EXEC layer, driver path (initexec_drv.go)
		return
	}
	// --replay <file>: re-execute exactly the (probe, pair) of a replay file
	var rf replayFilter
	var ixReplay *ixCase
	var ifReplay *ifCase
	ixReplayMode, ixReplayPath := "", ""
	for i, a := range os.Args {
		if a == "--replay" && i+1 < len(os.Args) {
			b, err := os.ReadFile(os.Args[i+1])
			if err != nil {
				fmt.Println("cannot read replay file:", err)
				os.Exit(2)
			}
			var rp struct {
				Tier    string `json:"tier"`
				Seed    int64  `json:"seed"`
				Witness struct {
					Probe struct {
						ID string `json:"id"`
					} `json:"probe"`
					Pair struct {
						Phase string `json:"phase"`
						Index int    `json:"index"`
					} `json:"pair"`
					Case json.RawMessage `json:"case"`
					Mode string          `json:"mode"`
					Path string          `json:"path"`
				} `json:"witness"`
			}
			if err := json.Unmarshal(b, &rp); err != nil {
				fmt.Println("cannot parse replay file:", err)
				os.Exit(2)
			}
			if rp.Witness.Case != nil {
				var xc ixCase
				var fc ifCase
				if json.Unmarshal(rp.Witness.Case, &xc) == nil && xc.IX {
					ixReplay, ixReplayMode, ixReplayPath = &xc, rp.Witness.Mode, rp.Witness.Path
				} else if json.Unmarshal(rp.Witness.Case, &fc) == nil && fc.IF {
					ifReplay, ixReplayMode = &fc, rp.Witness.Mode
				}
			}
			rf = replayFilter{true, rp.Witness.Probe.ID, rp.Witness.Pair.Phase, rp.Witness.Pair.Index}
			os.Setenv("VERIF_SEED", fmt.Sprint(rp.Seed))
			os.Setenv("VERIF_TIER", rp.Tier)
			os.Setenv("VERIF_OUT_ROOT", os.TempDir()+"/c06-replay-out")
		}
	}

	log.SetOutput(io.Discard) // log.Panicf of the code under test prints before it panics
	c := vlib.Start("C06")
	if ifReplay != nil { // a case of the timing in-flight layer
		runIfBatch(c, ifBatch{Timing: ixReplayMode == "timing", Cases: []*ifCase{ifReplay}})
		ixCleanup()
		fmt.Printf("[C06] replay of in-flight case %s (%s)\n", ifReplay.Name, ixReplayMode)
		if c.NumNewViolations() > 0 {
			os.Exit(1)
		}
		fmt.Println("[C06] replay: not reproduced (or a listed known finding)")
		os.Exit(0)
	}
	if ixReplay != nil { // a case of the initial-EXEC layer
		if strings.HasPrefix(ixReplayPath, "driver") {
			runIxBatch(c, ixBatch{Timing: ixReplayMode == "timing", Cases: []*ixCase{ixReplay}})
			ixCleanup()
		} else {
			runIxEmuDirect(c, ixReplay)
		}
		fmt.Printf("[C06] replay of initial-EXEC case %s (grid %v, work-group %v)\n", ixReplay.Name, ixReplay.Grid, ixReplay.WG)
		if c.NumNewViolations() > 0 {
			os.Exit(1)
		}
		fmt.Println("[C06] replay: not reproduced (or a listed known finding)")
		os.Exit(0)
	}
	// ---- initial-EXEC layer (initexec.go): runs beside the ALU-level phases;
	// its driver cases spend their time in child processes
	var ixWG sync.WaitGroup
	if !rf.on && os.Getenv("C06_NO_INITEXEC") == "" {
		ixEmu := ixCasesEmu(c)
		nCanon := len(canonicalIxCases())
		// the canonical battery first, so that its witnesses are the recorded ones
		vlib.Parallel(nCanon, 0, func(i int) { runIxEmuDirect(c, ixEmu[i]) })
		batches := ixDriverBatches(c)
		ifb := ifBatches(c)
		ixWG.Add(2)
		go func() {
			defer ixWG.Done()
			vlib.Parallel(len(ixEmu)-nCanon, 4, func(i int) { runIxEmuDirect(c, ixEmu[nCanon+i]) })
		}()
		go func() {
			defer ixWG.Done()
			// the in-flight layer's canonical battery (timing, emulation) first
			vlib.Parallel(2, 2, func(i int) { runIfBatch(c, ifb[i]) })
			vlib.Parallel(len(batches)+len(ifb)-2, 6, func(i int) {
				if i < len(ifb)-2 {
					runIfBatch(c, ifb[2+i])
				} else {
					runIxBatch(c, batches[i-(len(ifb)-2)])
				}
			})
			ixCleanup()
		}()
	}
	if os.Getenv("C06_ONLY_INITEXEC") != "" { // development aid
		ixWG.Wait()
		mc := ixMinCounters()
		for k, v := range ifMinCounters() {
			mc[k] = v
		}
		c.Finish(vlib.FinishOpts{Rule: "initial-EXEC and in-flight layers alone (development aid)", MinCounters: mc})
	}
	if pf := os.Getenv("C06_CPUPROFILE"); pf != "" {
		f, _ := os.Create(pf)
		pprof.StartCPUProfile(f)
		defer pprof.StopCPUProfile()
	}
	t0 := time.Now()
	lap := func(what string) {
		fmt.Printf("[C06] phase %s done at %.1fs\n", what, time.Since(t0).Seconds())
	}
	nPairs := c.N(40, 2000)
	nScalarPairs := c.N(40, 500)
	if os.Getenv("C06_ONLY_CANONICAL") != "" { // the seed-independent batteries alone
		nPairs, nScalarPairs = 0, 0
	}

	dec := newDecoders()

	// ---- discovery ----------------------------------------------------
	type job struct {
		arch   gcnasm.Arch
		f      gcnasm.Format
		op     int
		scalar bool
	}
	var jobs []job
	for _, arch := range []gcnasm.Arch{gcnasm.GCN3, gcnasm.CDNA3} {
		for _, vf := range vectorFormats {
			for op := vf.lo; op <= vf.hi; op++ {
				jobs = append(jobs, job{arch, vf.f, op, false})
			}
		}
		for _, sf := range scalarFormats {
			for op := sf.lo; op <= sf.hi; op++ {
				jobs = append(jobs, job{arch, sf.f, op, true})
			}
		}
	}
	stats0 := make([]*opStatus, len(jobs))
	// the decoders are only read; every goroutine has its own runner
	runners := sync.Pool{New: func() any { return newRunner() }}
	vlib.Parallel(len(jobs), 0, func(i int) {
		rn := runners.Get().(*runner)
		defer runners.Put(rn)
		j := jobs[i]
		stats0[i] = discover(dec, rn, j.arch, j.f, j.op, j.scalar)
	})
	var ops []*opStatus
	for _, s := range stats0 {
		if s != nil {
			ops = append(ops, s)
		}
	}

	lap("discovery")
	// ---- coverage table -------------------------------------------------
	type cell struct {
		Exercised     []string `json:"exercised"`
		Unimplemented []string `json:"unimplemented"`
		Excluded      []string `json:"excluded_cross_lane,omitempty"`
		Crashing      []string `json:"crashes_on_every_input,omitempty"`
		ExecDependent []string `json:"exempt_reads_exec_by_definition,omitempty"`
	}
	table := map[string]map[string]*cell{}
	getCell := func(o *opStatus) *cell {
		if table[o.Arch] == nil {
			table[o.Arch] = map[string]*cell{}
		}
		if table[o.Arch][o.Format] == nil {
			table[o.Arch][o.Format] = &cell{}
		}
		return table[o.Arch][o.Format]
	}
	var vecProbes, scaProbes []*probe
	variantNotes := map[string][]string{}
	exclusions := map[string]string{}
	for _, o := range ops {
		ce := getCell(o)
		switch {
		case len(o.probes) == 0 && len(o.crash) > 0:
			ce.Crashing = append(ce.Crashing, o.label()+": "+o.crash[0])
			c.Count("opcodes_crashing_always", 1)
		case len(o.probes) == 0:
			ce.Unimplemented = append(ce.Unimplemented, o.label())
			c.Count("opcodes_unimplemented", 1)
		case o.excluded != "":
			ce.Excluded = append(ce.Excluded, o.label())
			exclusions[o.Name] = o.excluded
			c.Count("opcodes_excluded_cross_lane", 1)
		case o.scalar && o.execDep:
			ce.ExecDependent = append(ce.ExecDependent, o.label())
			c.Count("scalar_opcodes_exempt", 1)
		default:
			ce.Exercised = append(ce.Exercised, o.label())
			if o.scalar {
				scaProbes = append(scaProbes, o.probes...)
				c.Count("scalar_opcodes_exercised", 1)
			} else {
				vecProbes = append(vecProbes, o.probes...)
				c.Count("vector_opcodes_exercised", 1)
				c.Count("vector_opcodes_exercised_"+o.Arch+"_"+o.Format, 1)
			}
		}
		if len(o.probes) > 0 {
			for _, u := range o.unimpl {
				variantNotes[o.Arch+"/"+o.Format+"/"+o.label()] = append(variantNotes[o.Arch+"/"+o.Format+"/"+o.label()], "unimplemented variant "+u)
			}
			for _, u := range o.crash {
				variantNotes[o.Arch+"/"+o.Format+"/"+o.label()] = append(variantNotes[o.Arch+"/"+o.Format+"/"+o.label()], "variant crashes on every input "+u)
			}
		}
		c.Count("variants_rejected_by_encoder_or_decoder", int64(len(o.rejected)))
		c.Count("variants_unimplemented", int64(len(o.unimpl)))
	}
	c.Set("opcode_table", table)
	c.Set("variant_notes", variantNotes)
	c.Set("excluded_mnemonics", exclusions)
	c.Set("excluded_forms", "DPP forms (SRC0 = 250) are never generated: cross-lane by definition (GCN3 ISA 13: DPP 'data parallel primitives' move data between lanes); the decoder also has no register for operand code 250 (C04 finding)")

	// ---- vector side: canonical battery, fingerprints --------------------
	fps := map[string]string{} // opKey -> fingerprint
	canonHash := make([]uint64, len(vecProbes))
	canonFind := make([][]finding, len(vecProbes))
	sets := &globalSets{masks: map[uint64]struct{}{}, perms: map[uint64]struct{}{}}
	var statMu sync.Mutex
	total := newStats()
	nontrivial := map[string][2]bool{}
	absorb := func(p *probe, st *stats) {
		sets.merge(st)
		statMu.Lock()
		total.executions += st.executions
		total.pairs += st.pairs
		total.pairsSkippedNotImpl += st.pairsSkippedNotImpl
		total.accessesAttributed += st.accessesAttributed
		total.inactiveLanesChecked += st.inactiveLanesChecked
		total.ldsInactiveRegionsChecked += st.ldsInactiveRegionsChecked
		total.ldsRegionsWritten += st.ldsRegionsWritten
		nt := nontrivial[p.opKey()]
		nt[0] = nt[0] || st.partial
		nt[1] = nt[1] || st.nonIdentity
		nontrivial[p.opKey()] = nt
		statMu.Unlock()
	}
	want := func(p *probe, phase string, idx int) bool {
		if !rf.on {
			return true
		}
		return p.ID == rf.probe && phase == rf.phase && idx == rf.index
	}
	vlib.Parallel(len(vecProbes), 0, func(i int) {
		rn := runners.Get().(*runner)
		defer runners.Put(rn)
		p := vecProbes[i]
		st := newStats()
		h := newFnv()
		base := vlib.NewPRNG(0xC06BA7).Fork(p.ID)
		for _, ps := range canonicalPairs(p) {
			ps := ps
			if rf.on && !want(p, ps.Phase, ps.Index) {
				continue
			}
			fs := runPair(rn, p, &ps, base.ForkN("pair", ps.Index), st, &h)
			canonFind[i] = append(canonFind[i], fs...)
		}
		canonHash[i] = uint64(h)
		absorb(p, st)
	})
	{
		byOp := map[string][]string{}
		for i, p := range vecProbes {
			byOp[p.opKey()] = append(byOp[p.opKey()], fmt.Sprintf("%s=%016x", p.Variant, canonHash[i]))
		}
		for k, v := range byOp {
			sort.Strings(v)
			fps[k] = fmt.Sprintf("%016x", hashStr(strings.Join(v, ";")))
		}
	}
	report := func(p *probe, fs []finding) {
		for _, f := range fs {
			c.ViolationFP(p.key(f.rel), fps[p.opKey()], fmt.Sprintf("%s %s [%s %s]: %s", p.Arch, p.Name, p.Format, p.Variant, f.what), f.wit)
		}
	}
	for i, p := range vecProbes {
		report(p, canonFind[i])
	}

	lap("canonical battery")
	// ---- vector side: seeded pairs ----------------------------------------
	seedBase := c.Rand("vector")
	vlib.Parallel(len(vecProbes), 0, func(i int) {
		rn := runners.Get().(*runner)
		defer runners.Put(rn)
		p := vecProbes[i]
		st := newStats()
		pb := seedBase.Fork(p.ID)
		var fs []finding
		for _, ps := range seededPairs(p, nPairs, pb) {
			ps := ps
			if rf.on && !want(p, ps.Phase, ps.Index) {
				continue
			}
			fs = append(fs, runPair(rn, p, &ps, pb.ForkN("pair", ps.Index), st, nil)...)
		}
		report(p, fs)
		absorb(p, st)
		if i%97 == 0 {
			c.Sample(map[string]any{"probe": p, "pairs": st.pairs, "executions": st.executions})
		}
	})

	lap("seeded vector pairs")
	// ---- FLAT / GLOBAL probes through the real emu storage accessor (realacc.go)
	{
		var memProbes []*probe
		for _, p := range vecProbes {
			if p.mem != memNone && !p.lds {
				pr := *p
				pr.real = true
				memProbes = append(memProbes, &pr)
			}
		}
		nReal := c.N(60, 600)
		if os.Getenv("C06_ONLY_CANONICAL") != "" {
			nReal = 0
		}
		realBase := c.Rand("real-accessor")
		vlib.Parallel(len(memProbes), 0, func(i int) {
			rn := runners.Get().(*runner)
			defer runners.Put(rn)
			p := memProbes[i]
			st := newStats()
			var fs []finding
			cb := vlib.NewPRNG(0xC06BA7EA1).Fork(p.ID)
			for _, ps := range canonicalPairs(p) {
				ps := ps
				ps.Phase = "real-canonical"
				if rf.on && !want(p, ps.Phase, ps.Index) {
					continue
				}
				fs = append(fs, runPair(rn, p, &ps, cb.ForkN("pair", ps.Index), st, nil)...)
			}
			pb := realBase.Fork(p.ID)
			for _, ps := range seededPairs(p, nReal, pb) {
				ps := ps
				ps.Phase = "real-seeded"
				if rf.on && !want(p, ps.Phase, ps.Index) {
					continue
				}
				fs = append(fs, runPair(rn, p, &ps, pb.ForkN("pair", ps.Index), st, nil)...)
			}
			report(p, fs)
			absorb(p, st)
		})
		c.Count("real_accessor_probes", int64(len(memProbes)))
		c.Count("real_accessor_executions", realStats.runs)
		c.Count("real_accessor_accesses", realStats.accesses)
		c.Count("real_accessor_accesses_crossing_a_page", realStats.crossing)
		c.Count("real_accessor_accesses_to_offset_0_right_after_an_access_to_the_preceding_virtual_page", realStats.headAfterPrev)
		c.Count("real_accessor_physical_pages_read_back", realStats.pagesChecked)
	}
	lap("real storage accessor")
	// ---- scalar side --------------------------------------------------------
	scalarBase := c.Rand("scalar")
	var scalarExec, scalarPairsN int64
	vlib.Parallel(len(scaProbes), 0, func(i int) {
		rn := runners.Get().(*runner)
		defer runners.Put(rn)
		p := scaProbes[i]
		pb := scalarBase.Fork(p.ID)
		var ne, np int64
		for k := 0; k < nScalarPairs+8; k++ {
			phase, idx, r := "seeded", k, pb.ForkN("pair", k)
			if k >= nScalarPairs { // seed-independent part
				phase, idx = "canonical", k-nScalarPairs
				r = vlib.NewPRNG(0xC065CA).Fork(p.ID).ForkN("pair", idx)
			}
			if rf.on && !want(p, phase, idx) {
				continue
			}
			fs, n := runScalarPair(rn, p, phase, idx, r)
			ne += n
			np++
			for _, f := range fs {
				c.ViolationFP(p.key(f.rel), "", fmt.Sprintf("%s %s [%s %s]: %s", p.Arch, p.Name, p.Format, p.Variant, f.what), f.wit)
			}
		}
		statMu.Lock()
		scalarExec += ne
		scalarPairsN += np
		statMu.Unlock()
	})

	lap("scalar side")
	// ---- evidence ---------------------------------------------------------
	c.Evals(total.executions + scalarExec)
	c.Count("vector_executions", total.executions)
	c.Count("vector_pairs", total.pairs)
	c.Count("vector_probes", int64(len(vecProbes)))
	c.Count("pairs_skipped_value_dependent_not_implemented", total.pairsSkippedNotImpl)
	c.Count("memory_accesses_attributed_to_a_lane", total.accessesAttributed)
	c.Count("inactive_lanes_checked", total.inactiveLanesChecked)
	c.Count("lds_regions_of_inactive_lanes_checked", total.ldsInactiveRegionsChecked)
	c.Count("lds_regions_written_by_active_lanes", total.ldsRegionsWritten)
	c.Count("scalar_executions", scalarExec)
	c.Count("scalar_exec_pairs", scalarPairsN)
	c.Count("scalar_probes", int64(len(scaProbes)))
	c.Set("distinct_exec_masks", len(sets.masks))
	c.Set("distinct_permutations", len(sets.perms))
	c.Count("distinct_exec_masks", int64(len(sets.masks)))
	c.Count("distinct_permutations", int64(len(sets.perms)))
	for k, nt := range nontrivial {
		if nt[0] && nt[1] {
			c.Nontrivial(k)
		}
	}
	if rf.on {
		fmt.Printf("[C06] replay of probe %s %s pair %d\n", rf.probe, rf.phase, rf.index)
		if c.NumNewViolations() > 0 {
			os.Exit(1)
		}
		fmt.Println("[C06] replay: not reproduced (or a listed known finding)")
		os.Exit(0)
	}
	pprof.StopCPUProfile()
	ixWG.Wait()
	lap("initial-EXEC layer")
	minCounters := map[string]int64{
		"vector_executions": 100000, "memory_accesses_attributed_to_a_lane": 20000, "inactive_lanes_checked": 1000000,
		"lds_regions_of_inactive_lanes_checked": 10000, "scalar_exec_pairs": 5000, "distinct_exec_masks": 500, "distinct_permutations": 500,
		"vector_opcodes_exercised_gcn3_VOP1": 20, "vector_opcodes_exercised_gcn3_VOP2": 28, "vector_opcodes_exercised_gcn3_VOPC": 28,
		"vector_opcodes_exercised_gcn3_VOP3a": 38, "vector_opcodes_exercised_gcn3_VOP3b": 6, "vector_opcodes_exercised_gcn3_DS": 7, "vector_opcodes_exercised_gcn3_FLAT": 9,
		"vector_opcodes_exercised_cdna3_VOP1": 22, "vector_opcodes_exercised_cdna3_VOP2": 30, "vector_opcodes_exercised_cdna3_VOPC": 24,
		"vector_opcodes_exercised_cdna3_VOP3a": 48, "vector_opcodes_exercised_cdna3_VOP3b": 6, "vector_opcodes_exercised_cdna3_DS": 7, "vector_opcodes_exercised_cdna3_FLAT": 9,
		"scalar_opcodes_exercised": 100,
		"real_accessor_probes":     30, "real_accessor_executions": 5000, "real_accessor_accesses": 100000, "real_accessor_accesses_crossing_a_page": 2000,
		"real_accessor_accesses_to_offset_0_right_after_an_access_to_the_preceding_virtual_page": 2000,
	}
	if os.Getenv("C06_NO_INITEXEC") == "" {
		for k, v := range ixMinCounters() {
			minCounters[k] = v
		}
		for k, v := range ifMinCounters() {
			minCounters[k] = v
		}
	}
	c.Finish(vlib.FinishOpts{
		Rule: "case = one execution of one decoded encoding of an implemented vector opcode on the real ALU under one (EXEC mask, lane permutation) pair " +
			"(4 executions per pair: base, permuted, EXEC subset, other lanes scrambled); distinct_nontrivial = distinct (arch, format, opcode) " +
			"exercised with at least one partial mask (neither 0 nor all ones) and at least one non-identity permutation. " + ixRule + ". " + ifRule,
		Assumptions: []string{
			"state handed to the ALU = real emu.Wavefront wrapped only to supply Inst()/PID() (the compute unit sets these through unexported fields)",
			"encodings come from vlib/gcnasm and pass through the real insts.Disassembler (IsCDNA3 set for the cdna3 ALU as the emulation GPU builder does)",
			"inactive lanes of a compare / carry-out read 0 in the written mask (GCN3 ISA 3.9 'VCC is always fully written'); other lane masks must not change for inactive lanes",
			"LDS reads cannot be observed directly (the ALU indexes a byte slice): reads from another lane's LDS region are caught through equivariance and the scramble relation, writes through the region / canary comparison",
			"implemented = at least one encoding of the opcode number runs to completion under one of five fixed EXEC masks; a handler that panics on all of them is listed, not judged",
			ixAssumption1, ixAssumption2, ifAssumption,
			"real-accessor variant: FLAT / GLOBAL probes run through the real emu.NewStorageAccessor over mem.Storage + vm.PageTable (consecutive virtual pages -> shuffled frames 2k+1, the frame behind every mapped frame is unmapped); " +
				"the monitor writes the initial content and reads the final content of the frames through its own translation table; a lane's address is the last 16 bytes of its region, offset 0 of its region (virtual successor of the previous lane's last page), " +
				"just below / at an inner page boundary, or inside a page; accesses never leave the lane's own region",
		},
		MinNontrivial: 250,
		MinCounters:   minCounters,
	})
}
