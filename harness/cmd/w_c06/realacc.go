package main

// Real-accessor variant of the memory-instruction cases: the FLAT / GLOBAL
// probes run through the real emu.NewStorageAccessor over a real mem.Storage
// and vm.PageTable in which consecutive virtual pages map to shuffled physical
// frames with an unmapped gap frame behind every mapped one. Lane addresses
// straddle page boundaries (tail of a lane's region = last bytes of a page whose
// virtual successor is offset 0 of the next lane's region; accesses crossing a
// page inside the lane's own region). The monitor initialises and reads the
// physical frames through its own translation table, never through the
// accessor; the relations are the ALU-level ones (check.go).

import (
	"fmt"
	"sync/atomic"

	"github.com/sarchlab/akita/v4/mem/mem"
	"github.com/sarchlab/akita/v4/mem/vm"
	"github.com/sarchlab/mgpusim/v4/amd/emu"

	"verifharness/vlib"
)

const (
	realPage   = uint64(4096)
	realNPages = int(nLanes) * int(memStride/4096)
)

var realStats struct {
	runs, accesses, headAfterPrev, crossing, pagesChecked int64
}

type realBack struct {
	store  *mem.Storage
	acc    emu.StorageAccessor
	frame  []uint64 // virtual page index -> physical frame address
	init   map[int][]byte
	salt   *[nLanes + 1]uint64
	in     map[uint64]byte
	lastPg int
}

func newRealBack() *realBack {
	b := &realBack{frame: make([]uint64, realNPages), lastPg: -10}
	perm := vlib.NewPRNG(0xC06FA6E).Perm(realNPages) // non-monotonic; frames 2k+1: never adjacent
	b.store = mem.NewStorage(uint64(2*realNPages+4) * realPage)
	pt := vm.NewPageTable(12)
	for i := 0; i < realNPages; i++ {
		b.frame[i] = uint64(2*perm[i]+1) * realPage
		pt.Insert(vm.Page{PID: 1, VAddr: memBase + uint64(i)*realPage, PAddr: b.frame[i], PageSize: realPage, Valid: true})
	}
	b.acc = emu.NewStorageAccessor(b.store, pt, 12, nil)
	return b
}

func (b *realBack) begin(salt *[nLanes + 1]uint64, in map[uint64]byte) {
	b.salt, b.in, b.init, b.lastPg = salt, in, map[int][]byte{}, -10
	atomic.AddInt64(&realStats.runs, 1)
}

// touch initialises the frames of the pages an access covers (monitor's own
// translation) and counts the page-boundary situations.
func (b *realBack) touch(vAddr, size uint64) {
	atomic.AddInt64(&realStats.accesses, 1)
	if vAddr < memBase || vAddr+size > memBase+uint64(realNPages)*realPage {
		return // outside the mapped regions: the accessor will report it
	}
	first, last := int((vAddr-memBase)/realPage), int((vAddr+size-1-memBase)/realPage)
	if last > first {
		atomic.AddInt64(&realStats.crossing, 1)
	}
	for pg := first; pg <= last; pg++ {
		start := vAddr
		if pg > first {
			start = memBase + uint64(pg)*realPage
		}
		if start%realPage == 0 && b.lastPg == pg-1 {
			atomic.AddInt64(&realStats.headAfterPrev, 1)
		}
		b.lastPg = pg
		if _, ok := b.init[pg]; ok {
			continue
		}
		buf := make([]byte, realPage)
		va := memBase + uint64(pg)*realPage
		s := b.salt[regionOf(va)]
		for i := range buf {
			a := va + uint64(i)
			if v, ok := b.in[a]; ok {
				buf[i] = v
			} else {
				buf[i] = initByte(a, s)
			}
		}
		if err := b.store.Write(b.frame[pg], buf); err != nil {
			panic(err)
		}
		b.init[pg] = buf
	}
}

// finish reads the touched frames back (own translation): the bytes that differ
// from their initial content are the run's memory effect; the gap frame behind
// every touched frame must still be zero.
func (b *realBack) finish() (w map[uint64]byte, bad string) {
	zero := make([]byte, realPage)
	for pg, buf := range b.init {
		atomic.AddInt64(&realStats.pagesChecked, 1)
		got, err := b.store.Read(b.frame[pg], realPage)
		if err != nil {
			panic(err)
		}
		va := memBase + uint64(pg)*realPage
		for i := range buf {
			if got[i] != buf[i] {
				if w == nil {
					w = map[uint64]byte{}
				}
				w[va+uint64(i)] = got[i]
			}
		}
		gap, _ := b.store.Read(b.frame[pg]+realPage, realPage)
		for i, x := range gap {
			if x != 0 {
				if bad == "" {
					bad = fmt.Sprintf("physical byte %#x (offset %d of the unmapped frame behind the frame of virtual page %#x) was written", b.frame[pg]+realPage+uint64(i), i, va)
				}
				_ = b.store.Write(b.frame[pg]+realPage, zero)
				break
			}
		}
	}
	// input overlay bytes that the run left alone stay part of the state
	for a, v := range b.in {
		if _, ok := w[a]; !ok {
			if w == nil {
				w = map[uint64]byte{}
			}
			w[a] = v
		}
	}
	return w, bad
}

// realAddr lays a lane's address out against the page boundaries of its region.
func realAddr(region uint64, r *vlib.PRNG) uint64 {
	switch r.Intn(5) {
	case 0:
		return region + memStride - 16 // last bytes of the region's last page
	case 1:
		return region // offset 0 of a page whose virtual predecessor belongs to the previous lane
	case 2:
		return region + []uint64{0x1000, 0x2000, 0x3000}[r.Intn(3)] - []uint64{4, 8, 12}[r.Intn(3)] // multi-dword accesses cross the boundary
	case 3:
		return region + []uint64{0x1000, 0x2000, 0x3000}[r.Intn(3)]
	}
	return region + 0x1800 + 16*uint64(r.Intn(128))
}
