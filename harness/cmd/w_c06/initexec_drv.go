package main

// Initial-EXEC layer, driver path: the marking kernel of initexec.go launched
// through the real driver on a platform built exactly as runner.Runner builds
// it (vlib/plat): command processor -> dispatcher -> kernels.GridBuilder ->
// compute unit. Timing = r9nano (real cu.ComputeUnit, caches, DRAM),
// emulation = emusystem. One child process per batch of cases.

import (
	"encoding/json"
	"fmt"
	"os"
	"strings"
	"sync"
	"sync/atomic"
	"time"

	"github.com/sarchlab/akita/v4/sim"
	"github.com/sarchlab/mgpusim/v4/amd/driver"

	"verifharness/vlib"
	"verifharness/vlib/plat"
)

type ixBatch struct {
	Timing bool      `json:"timing"`
	Cases  []*ixCase `json:"cases"`
}

func (b ixBatch) mode() string {
	if b.Timing {
		return "timing"
	}
	return "emu"
}

type ixArgs struct {
	Out driver.Ptr
	Rec driver.Ptr
}

type ixEvCounter struct{ n int64 }

func (c *ixEvCounter) Func(ctx sim.HookCtx) {
	if ctx.Pos == sim.HookPosBeforeEvent {
		atomic.AddInt64(&c.n, 1)
	}
}

func ixChild() {
	var b ixBatch
	if err := json.Unmarshal([]byte(os.Args[2]), &b); err != nil {
		panic(err)
	}
	rec := vlib.ChildRec()
	sim.GetIDGenerator()
	p := plat.Build(plat.Config{Timing: b.Timing, NumGPUs: 1})
	cnt := &ixEvCounter{}
	if h, ok := p.Engine.(sim.Hookable); ok {
		h.AcceptHook(cnt)
	}
	drv := p.Driver
	drv.Run()
	ctx := drv.Init()
	drv.SelectGPU(ctx, 1)
	path := "driver -> emusystem platform (command processor, dispatcher, emu.ComputeUnit)"
	if b.Timing {
		path = "driver -> r9nano timing platform (command processor, dispatcher, cu.ComputeUnit)"
	}
	var busy int32 // 1 while a blocking driver call is outstanding
	var current atomic.Value
	current.Store("")
	// logical deadlock predicate: the engine goroutine has exited (no event
	// left, nobody kicked it) while a driver call is outstanding; the polling
	// only establishes that this state is stable
	go func() {
		stable := 0
		last := int64(-1)
		for {
			time.Sleep(100 * time.Millisecond)
			running, kicked := drv.VerifEngineState()
			n := atomic.LoadInt64(&cnt.n)
			if !running && !kicked && n == last && atomic.LoadInt32(&busy) == 1 {
				stable++
			} else {
				stable = 0
			}
			last = n
			if stable >= 50 {
				rec.Note("ixdeadlock", current.Load())
				os.Exit(0)
			}
		}
	}()
	for _, c := range b.Cases {
		current.Store(c.Name)
		rec.Note("ixstart", c.Name)
		rec.Eval()
		g := newIxGeom(c)
		j := &ixJudge{rec: rec, g: g, mode: b.mode(), path: path, absent: ixAbsentRun, fired: map[string]bool{}}
		co := ixKernel(g)
		outInit := u32s(ixOutInit(g))
		recInit := make([]uint32, 4*64*g.slots)
		atomic.StoreInt32(&busy, 1)
		dOut := drv.AllocateMemory(ctx, uint64(4*len(outInit)))
		dRec := drv.AllocateMemory(ctx, uint64(4*len(recInit)))
		drv.MemCopyH2D(ctx, dOut, outInit)
		drv.MemCopyH2D(ctx, dRec, recInit)
		args := ixArgs{Out: dOut + driver.Ptr(4*g.gLo), Rec: dRec}
		drv.LaunchKernel(ctx, co, c.Grid, c.WG, &args)
		out := make([]uint32, len(outInit))
		rb := make([]uint32, len(recInit))
		drv.MemCopyD2H(ctx, out, dOut)
		drv.MemCopyD2H(ctx, rb, dRec)
		atomic.StoreInt32(&busy, 0) // buffers are not freed: a batch allocates a few MB
		j.countShape()
		rec.Count("ix_"+b.mode()+"_driver_cases", 1)
		j.judgeBuffers(rb, out)
		rec.Note("ixdone", c.Name)
	}
	rec.Note("verdict", "done")
	os.Exit(0)
}

// ---------------------------------------------------------------------------
// parent side

var ixScratch struct {
	once sync.Once
	dir  string
}

func ixCleanup() {
	if ixScratch.dir != "" {
		_ = os.RemoveAll(ixScratch.dir)
	}
}

func ixPanicLine(s string) string {
	for _, l := range strings.Split(s, "\n") {
		if strings.Contains(l, "panic:") || strings.Contains(l, "Panic:") || strings.Contains(l, "fatal error:") {
			if len(l) > 300 {
				l = l[:300]
			}
			return strings.TrimSpace(l)
		}
	}
	if len(s) > 300 {
		s = s[len(s)-300:]
	}
	return strings.TrimSpace(s)
}

// runIxBatch runs the batch in child processes; a child that dies is resumed
// behind the case it died in.
func runIxBatch(c *vlib.Check, b ixBatch) {
	ixScratch.once.Do(func() { ixScratch.dir, _ = vlib.Scratch("c06ix") })
	rest := b.Cases
	for len(rest) > 0 {
		js, _ := json.Marshal(ixBatch{Timing: b.Timing, Cases: rest})
		res := vlib.RunChild(ixScratch.dir, 15*time.Minute, []string{"GOMAXPROCS=2"}, "ixchild", string(js))
		notes := c.AbsorbFile(res.RecPath)
		done := len(notes["ixdone"])
		c.Count("ix_"+b.mode()+"_driver_cases_completed", int64(done))
		verdict := ""
		if v := notes["verdict"]; len(v) > 0 {
			verdict, _ = v[0].(string)
		}
		if verdict == "done" || done >= len(rest) {
			_ = os.RemoveAll(res.Dir)
			return
		}
		bad := rest[done]
		wit := map[string]any{"case": bad, "mode": b.mode(), "path": "driver"}
		switch {
		case res.TimedOut:
			c.Inconclusive(fmt.Sprintf("initial-exec %s (%s, driver): watchdog fired", bad.Name, b.mode()))
		case len(notes["ixdeadlock"]) > 0:
			c.Violation("C06|initial-exec|kernel-never-completes|"+b.mode(),
				fmt.Sprintf("[%s, grid %v, work-group %v] the engine went idle while the launch was outstanding", b.mode(), bad.Grid, bad.WG), wit)
		default:
			line := ixPanicLine(vlib.Tail(res.OutPath, 8000))
			wit["failure"] = line
			c.Violation("C06|initial-exec|run-crashed|"+b.mode(),
				fmt.Sprintf("[%s, driver, grid %v, work-group %v] the run crashed: %s", b.mode(), bad.Grid, bad.WG, line), wit)
		}
		_ = os.RemoveAll(res.Dir)
		rest = rest[done+1:]
	}
}

// ixDriverBatches: the canonical battery first (timing and emulation), then
// seeded geometries, every one with at least one wavefront whose lane-0
// work-item is clipped away.
func ixDriverBatches(c *vlib.Check) []ixBatch {
	var out []ixBatch
	canon := canonicalIxCases()
	var small []*ixCase
	for _, cs := range canon {
		if newIxGeom(cs).slots <= 40 {
			small = append(small, cs)
		}
	}
	split := func(timing bool, cs []*ixCase, per int) {
		for i := 0; i < len(cs); i += per {
			out = append(out, ixBatch{Timing: timing, Cases: cs[i:imin(i+per, len(cs))]})
		}
	}
	split(true, small, 4)
	split(false, canon, 8)
	if os.Getenv("C06_ONLY_CANONICAL") != "" {
		return out
	}
	nT, nE := c.N(60, 600), c.N(48, 400)
	base := c.Rand("initexec-driver")
	var ts, es []*ixCase
	for i := 0; i < nT; i++ {
		cs := genIxCase(base.ForkN("t", i), i, 2500, 24, true)
		cs.Name = fmt.Sprintf("ixt%d", i)
		ts = append(ts, cs)
	}
	for i := 0; i < nE; i++ {
		cs := genIxCase(base.ForkN("e", i), i, 6000, 120, i%2 == 0)
		cs.Name = fmt.Sprintf("ixe%d", i)
		es = append(es, cs)
	}
	split(true, ts, 5)
	split(false, es, 8)
	return out
}
