package main

import (
	"bytes"
	"fmt"

	"github.com/sarchlab/akita/v4/mem/mem"
	"github.com/sarchlab/akita/v4/mem/vm"
	"github.com/sarchlab/akita/v4/sim"

	"verifharness/vlib/simkit"
)

func buildReq(o op, src, dst sim.RemotePort) sim.Msg {
	if o.Write {
		wb := mem.WriteReqBuilder{}.WithSrc(src).WithDst(dst).WithPID(vm.PID(o.PID)).
			WithAddress(o.Addr).WithData(append([]byte(nil), o.Data...))
		if o.Mask != nil {
			wb = wb.WithDirtyMask(append([]bool(nil), o.Mask...))
		}
		return wb.Build()
	}
	return mem.ReadReqBuilder{}.WithSrc(src).WithDst(dst).WithPID(vm.PID(o.PID)).
		WithAddress(o.Addr).WithByteSize(uint64(o.Size)).Build()
}

type violation struct {
	key, what string
	extra     map[string]any
}

type stats struct {
	viol    *violation
	harness string // harness-side inconsistency (inconclusive, never a verdict on the code)

	accepted, responded, reads, writes, masked, forwards int64
	ooo, flushes, flushesInflight, flushesTopBusy        int64
	discarded, dropped, servedAfterRestart, stale        int64
	capReached                                           int64

	// requests delivered into the Top port's incoming buffer and still unretrieved when a control message is processed
	flushesTopQueued, queuedAtDiscard int64 // DiscardTransactions retrieved with >= 1 request waiting / such requests
	flushesTopQueuedCapFull           int64 // ... of which with the buffer at capacity (the rest: bottom port / width limited)
	arrivedInInterval                 int64 // delivered between DiscardTransactions and Restart (drained by Restart as well)
	leftAtRestart                     int64 // still waiting when Restart was retrieved (the unchanged buffer leaves none)
	lazyDropped                       int64 // ... of which taken from the port later without being forwarded or answered
	sentBeforeDeliveredAfter          int64 // pushed by the requester before Restart was processed, delivered after it: served normally
}

// treq is the checker's view of one request injected at the Top port.
type treq struct {
	op        int
	id        string
	msg       mem.AccessReq
	recvSeq   int // Top recv event
	accSeq    int // Top retrieve event outside a flush interval (-1 = not accepted)
	dropSeq   int // Top retrieve event inside a flush interval (-1 = not dropped)
	discarded bool
	atDiscard bool // waiting in the Top port's incoming buffer when a DiscardTransactions was retrieved
	inIntvl   bool // delivered into the Top port's incoming buffer between DiscardTransactions and Restart
	leftOver  bool // still waiting there when the Restart was retrieved: discarded by the flush protocol
	restartCy int64
	epoch     int // number of restarts seen before acceptance
	fwd       *fwd
	rspSeq    int // Top send event of the response (-1 = none)
	delivered int
}

// fwd is one request the buffer sent out of its Bottom port.
type fwd struct {
	seq    int
	msg    mem.AccessReq
	t      *treq
	rspSeq int // Bottom recv event of the lower level's response (-1 = none)
	rsp    sim.Msg
}

type pidAddr struct {
	pid  vm.PID
	addr uint64
}

func maskEq(a, b []bool) bool {
	if len(a) == 0 && len(b) == 0 {
		return true
	}
	if len(a) != len(b) {
		return false
	}
	for i := range a {
		if a[i] != b[i] {
			return false
		}
	}
	return true
}

// diffReq names the first field in which the forwarded copy differs from the
// original ("" = identical in kind, address, size, data, mask and PID).
func diffReq(orig, copy mem.AccessReq) string {
	switch o := orig.(type) {
	case *mem.ReadReq:
		c, ok := copy.(*mem.ReadReq)
		if !ok {
			return "kind"
		}
		switch {
		case c.Address != o.Address:
			return "address"
		case c.AccessByteSize != o.AccessByteSize:
			return "size"
		case c.PID != o.PID:
			return "pid"
		}
	case *mem.WriteReq:
		c, ok := copy.(*mem.WriteReq)
		if !ok {
			return "kind"
		}
		switch {
		case c.Address != o.Address:
			return "address"
		case len(c.Data) != len(o.Data):
			return "size"
		case !bytes.Equal(c.Data, o.Data):
			return "data"
		case !maskEq(c.DirtyMask, o.DirtyMask):
			return "mask"
		case c.PID != o.PID:
			return "pid"
		}
	}
	return ""
}

func check(s scenario, out *runOut) (st stats) {
	fail := func(key, what string, extra map[string]any) stats {
		st.viol = &violation{key: key, what: what, extra: extra}
		return st
	}
	c := s.Cfg
	byID := map[string]*treq{}
	byKey := map[pidAddr]*treq{}
	all := make([]*treq, len(s.Ops))
	for i, id := range out.idOfOp {
		t := &treq{op: i, id: id, recvSeq: -1, accSeq: -1, dropSeq: -1, rspSeq: -1}
		byID[id] = t
		all[i] = t
		byKey[pidAddr{vm.PID(s.Ops[i].PID), s.Ops[i].Addr}] = t
	}
	fwdByID := map[string]*fwd{}
	var queue []*treq   // accepted, unanswered, in acceptance order
	var waiting []*treq // received at the Top port, not yet retrieved (the port's FIFO)
	flushing := false
	epoch := 0
	acks := 0
	lastRestartCycle := int64(0)

	for _, e := range out.events {
		switch e.Port {
		case "Top":
			switch e.Kind {
			case simkit.KRecv:
				t := byID[e.Msg.Meta().ID]
				if t == nil {
					st.harness = "unknown message arrived at the Top port"
					return st
				}
				t.recvSeq = e.Seq
				t.msg = e.Msg.(mem.AccessReq)
				waiting = append(waiting, t)
				if flushing {
					t.inIntvl = true
					st.arrivedInInterval++
				} else if sent, ok := out.reqs[s.Ops[t.op].Who].SentAt[t.id]; ok && epoch > 0 && sent < lastRestartCycle {
					st.sentBeforeDeliveredAfter++
				}
			case simkit.KRetrieve:
				t := byID[e.Msg.Meta().ID]
				if t == nil || len(waiting) == 0 || waiting[0] != t {
					st.harness = "Top port retrieve does not match the port FIFO"
					return st
				}
				waiting = waiting[1:]
				if flushing {
					t.dropSeq = e.Seq
					st.dropped++
					continue
				}
				if t.leftOver {
					// taken from the port after the restart without having been forwarded: dropped late, which the
					// property allows (nothing may be forwarded or answered for it, checked at the Bottom / Top sends)
					t.dropSeq = e.Seq
					st.lazyDropped++
					continue
				}
				t.accSeq = e.Seq
				t.epoch = epoch
				queue = append(queue, t)
				st.accepted++
				if epoch > 0 {
					st.servedAfterRestart++
				}
				if len(queue) == c.BufferSize {
					st.capReached++
				}
				if len(queue) > c.BufferSize {
					return fail("C15|capacity-exceeded",
						fmt.Sprintf("op %d accepted while %d transactions were already in flight (bufferSize %d)", t.op, len(queue)-1, c.BufferSize),
						map[string]any{"op": t.op, "cycle": e.Cycle, "in_flight_after_accept": len(queue)})
				}
			case simkit.KSend:
				rsp, ok := e.Msg.(mem.AccessRsp)
				if !ok {
					return fail("C15|top-port-sends-non-response", fmt.Sprintf("Top port sent a %T", e.Msg), map[string]any{"cycle": e.Cycle})
				}
				to := rsp.GetRspTo()
				t := byID[to]
				if t == nil {
					if f := fwdByID[to]; f != nil {
						return fail("C15|respondto-is-forwarded-request-id",
							fmt.Sprintf("response at the Top port answers id %s, which is the id of the copy forwarded for op %d, not the requester's id %s", to, f.t.op, f.t.id),
							map[string]any{"op": f.t.op, "cycle": e.Cycle})
					}
					return fail("C15|respondto-unknown", fmt.Sprintf("response at the Top port answers unknown id %s", to), map[string]any{"cycle": e.Cycle})
				}
				x := map[string]any{"op": t.op, "cycle": e.Cycle}
				switch {
				case t.rspSeq >= 0:
					return fail("C15|duplicate-response", fmt.Sprintf("op %d answered a second time", t.op), x)
				case t.leftOver:
					x["delivered_to_top_port_cycle"], x["restart_cycle"] = out.events[t.recvSeq].Cycle, t.restartCy
					x["waiting_at_discard"], x["delivered_between_discard_and_restart"] = t.atDiscard, t.inIntvl
					return fail("C15|response-for-request-queued-at-top-port-before-restart",
						fmt.Sprintf("op %d had been delivered into the Top port's buffer (cycle %d) before the Restart was processed (cycle %d), so the flush discards it; yet it is answered after the restart",
							t.op, out.events[t.recvSeq].Cycle, t.restartCy), x)
				case t.discarded:
					return fail("C15|response-for-discarded-request",
						fmt.Sprintf("op %d was in flight when DiscardTransactions was processed, yet a response for it is sent afterwards", t.op), x)
				case t.dropSeq >= 0:
					return fail("C15|response-for-request-dropped-at-restart",
						fmt.Sprintf("op %d was taken from the Top port between DiscardTransactions and Restart (dropped), yet it is answered", t.op), x)
				case t.accSeq < 0:
					return fail("C15|response-before-acceptance", fmt.Sprintf("op %d answered before it was taken from the Top port", t.op), x)
				}
				if len(queue) == 0 || queue[0] != t {
					pos := -1
					for i, q := range queue {
						if q == t {
							pos = i
						}
					}
					x["position_in_acceptance_order"] = pos
					if len(queue) > 0 {
						x["oldest_unanswered_op"] = queue[0].op
					}
					return fail("C15|out-of-order-response",
						fmt.Sprintf("op %d answered while older accepted op %d is still unanswered", t.op, queue[0].op), x)
				}
				queue = queue[1:]
				t.rspSeq = e.Seq
				st.responded++
				if t.fwd == nil {
					return fail("C15|response-without-forwarded-copy", fmt.Sprintf("op %d answered although no copy of it was ever sent to the lower level", t.op), x)
				}
				if t.fwd.rspSeq < 0 {
					return fail("C15|response-before-lower-level-answer", fmt.Sprintf("op %d answered before the lower level answered its forwarded copy", t.op), x)
				}
				if rsp.Meta().Dst != t.msg.Meta().Src {
					return fail("C15|wrong-destination", fmt.Sprintf("response for op %d addressed to %s, requester is %s", t.op, rsp.Meta().Dst, t.msg.Meta().Src), x)
				}
				switch q := t.msg.(type) {
				case *mem.ReadReq:
					st.reads++
					dr, ok := rsp.(*mem.DataReadyRsp)
					if !ok {
						return fail("C15|wrong-response-type", fmt.Sprintf("read op %d answered by %T", t.op, rsp), x)
					}
					want := t.fwd.rsp.(*mem.DataReadyRsp).Data
					if !bytes.Equal(dr.Data, want) {
						x["got"], x["want"] = dr.Data, want
						return fail("C15|wrong-payload",
							fmt.Sprintf("read op %d (%d bytes at 0x%x) answered with data that is not what the lower level returned for its forwarded copy", t.op, q.AccessByteSize, q.Address), x)
					}
				case *mem.WriteReq:
					st.writes++
					if q.DirtyMask != nil {
						st.masked++
					}
					if _, ok := rsp.(*mem.WriteDoneRsp); !ok {
						return fail("C15|wrong-response-type", fmt.Sprintf("write op %d answered by %T", t.op, rsp), x)
					}
				}
			}
		case "Bottom":
			switch e.Kind {
			case simkit.KSend:
				req, ok := e.Msg.(mem.AccessReq)
				if !ok {
					return fail("C15|bottom-port-sends-non-request", fmt.Sprintf("Bottom port sent a %T", e.Msg), map[string]any{"cycle": e.Cycle})
				}
				f := &fwd{seq: e.Seq, msg: req, rspSeq: -1}
				fwdByID[req.Meta().ID] = f
				t := byKey[pidAddr{req.GetPID(), req.GetAddress()}]
				faithful := t != nil && t.recvSeq >= 0 && t.fwd == nil && diffReq(t.msg, req) == ""
				if !faithful {
					// Not a faithful first copy of any request that arrived. For the witness, describe it
					// relative to the request at the head of the Top port when that one is still unforwarded
					// (the only request a component can be looking at through a FIFO port).
					x := map[string]any{"cycle": e.Cycle, "forwarded_addr": req.GetAddress(), "forwarded_pid": req.GetPID()}
					if len(waiting) > 0 && waiting[0].fwd == nil {
						h := waiting[0]
						x["op"] = h.op
						if d := diffReq(h.msg, req); d != "" {
							return fail("C15|forwarded-request-differs|"+d,
								fmt.Sprintf("the request sent to the lower level while op %d is at the head of the Top port differs from that op in %s and is a faithful copy of no other pending request", h.op, d), x)
						}
					}
					switch {
					case t == nil || t.recvSeq < 0:
						return fail("C15|forwarded-request-differs|address-or-pid", "a request sent to the lower level has the (PID,address) of no request that arrived at the Top port", x)
					case t.fwd != nil:
						x["op"] = t.op
						return fail("C15|forwarded-twice", fmt.Sprintf("op %d sent to the lower level twice", t.op), x)
					default:
						x["op"] = t.op
						d := diffReq(t.msg, req)
						return fail("C15|forwarded-request-differs|"+d, fmt.Sprintf("forwarded copy of op %d differs from the original in %s", t.op, d), x)
					}
				}
				t.fwd = f
				f.t = t
				if t.leftOver {
					return fail("C15|forwarded-request-queued-before-restart",
						fmt.Sprintf("op %d had been delivered into the Top port's buffer (cycle %d) before the Restart was processed (cycle %d), so the flush discards it; yet it is sent to the lower level after the restart",
							t.op, out.events[t.recvSeq].Cycle, t.restartCy),
						map[string]any{"op": t.op, "cycle": e.Cycle, "delivered_to_top_port_cycle": out.events[t.recvSeq].Cycle, "restart_cycle": t.restartCy,
							"waiting_at_discard": t.atDiscard, "delivered_between_discard_and_restart": t.inIntvl})
				}
				st.forwards++
			case simkit.KRecv:
				rsp, ok := e.Msg.(mem.AccessRsp)
				if !ok {
					st.harness = "non-response delivered to the Bottom port"
					return st
				}
				f := fwdByID[rsp.GetRspTo()]
				if f == nil || f.rspSeq >= 0 {
					st.harness = "fake memory answered a request the buffer never sent, or answered twice"
					return st
				}
				f.rspSeq = e.Seq
				f.rsp = rsp
				if f.t == nil || f.t.discarded || f.t.dropSeq >= 0 {
					st.stale++
					continue
				}
				// answered out of order? an older accepted transaction still lacks its answer
				for _, q := range queue {
					if q == f.t {
						break
					}
					if q.fwd != nil && q.fwd.rspSeq < 0 {
						st.ooo++
						break
					}
				}
			}
		case "Control":
			switch e.Kind {
			case simkit.KRetrieve:
				cm, ok := e.Msg.(*mem.ControlMsg)
				if !ok {
					st.harness = "non-control message on the Control port"
					return st
				}
				switch {
				case cm.DiscardTransations:
					st.flushes++
					if len(queue) > 0 {
						st.flushesInflight++
					}
					if out.occAt[e.Seq][0] > 0 {
						st.flushesTopBusy++
					}
					if len(waiting) > 0 {
						st.flushesTopQueued++
						st.queuedAtDiscard += int64(len(waiting))
						if len(queue) >= c.BufferSize {
							st.flushesTopQueuedCapFull++
						}
						for _, w := range waiting {
							w.atDiscard = true
						}
					}
					for _, q := range queue {
						q.discarded = true
						st.discarded++
					}
					queue = nil
					flushing = true
				case cm.Restart:
					if !flushing {
						st.harness = "Restart without preceding DiscardTransactions"
						return st
					}
					flushing = false
					epoch++
					lastRestartCycle = e.Cycle
					// The unchanged buffer empties the Top port while it processes Restart (the retrieves precede this
					// event). Whatever still waits there was handed over before the restart and is discarded all the same.
					for _, w := range waiting {
						w.leftOver = true
						w.restartCy = e.Cycle
						st.leftAtRestart++
					}
				}
			case simkit.KSend:
				cm, ok := e.Msg.(*mem.ControlMsg)
				if !ok || !cm.NotifyDone || cm.Meta().Dst != out.ctl.Port.AsRemote() {
					return fail("C15|bad-control-acknowledgement", fmt.Sprintf("Control port sent %T %+v", e.Msg, e.Msg), map[string]any{"cycle": e.Cycle})
				}
				acks++
			}
		}
	}

	// ---- quiescence: the engine has no more events
	if !out.ctl.Done() || acks != 2*len(s.Flushes) || out.ctl.Unexpected > 0 {
		return fail("C15|deadlock|control-handshake-incomplete",
			fmt.Sprintf("engine idle but only %d of %d control acknowledgements were sent", acks, 2*len(s.Flushes)), map[string]any{"records": out.ctl.Records})
	}
	for i, rq := range out.reqs {
		if !rq.Done() {
			return fail("C15|deadlock|top-port-never-drained",
				fmt.Sprintf("engine idle, requester %d could send only %d of %d requests", i, rq.Sent(), len(rq.Plan)), nil)
		}
	}
	for _, t := range all {
		if t.recvSeq < 0 || (t.accSeq < 0 && t.dropSeq < 0) {
			return fail("C15|deadlock|request-stuck-at-top-port",
				fmt.Sprintf("engine idle, op %d was never taken from the Top port", t.op), map[string]any{"op": t.op})
		}
	}
	if len(queue) > 0 {
		h := queue[0]
		x := map[string]any{"op": h.op, "unanswered": len(queue), "accepted_after_restarts": h.epoch}
		switch {
		case h.fwd == nil:
			return fail("C15|deadlock|accepted-request-never-forwarded", fmt.Sprintf("engine idle, op %d accepted but never sent to the lower level", h.op), x)
		case h.fwd.rspSeq >= 0:
			return fail("C15|deadlock|answered-by-lower-level-but-never-returned",
				fmt.Sprintf("engine idle with %d accepted, non-discarded requests unanswered; oldest is op %d whose lower-level answer had arrived", len(queue), h.op), x)
		default:
			served := out.memory.ByReqID[h.fwd.msg.Meta().ID]
			x["lower_level_took_request"] = served != nil
			x["lower_level_pending"] = out.memory.Pending()
			return fail("C15|deadlock|lower-level-answer-never-taken",
				fmt.Sprintf("engine idle with %d accepted, non-discarded requests unanswered; oldest is op %d", len(queue), h.op), x)
		}
	}
	if out.memory.Pending() > 0 || out.memory.Port.PeekIncoming() != nil {
		return fail("C15|deadlock|bottom-port-not-drained", "engine idle while the lower level still holds answers it cannot deliver", nil)
	}
	// every accepted, non-discarded request has exactly one forwarded copy
	for _, t := range all {
		if t.accSeq >= 0 && t.fwd == nil {
			return fail("C15|accepted-request-never-forwarded", fmt.Sprintf("op %d accepted but never sent to the lower level", t.op), map[string]any{"op": t.op})
		}
	}
	// delivery to the requesters: exactly the responses sent, to the right requester
	for i, rq := range out.reqs {
		for _, g := range rq.Got {
			r, ok := g.Msg.(sim.Rsp)
			if !ok {
				return fail("C15|requester-received-non-response", fmt.Sprintf("requester %d received a %T", i, g.Msg), nil)
			}
			t := byID[r.GetRspTo()]
			if t == nil || s.Ops[t.op].Who != i {
				return fail("C15|wrong-destination", fmt.Sprintf("requester %d received a response (to %s) that is not for one of its requests", i, r.GetRspTo()), nil)
			}
			t.delivered++
		}
	}
	for _, t := range all {
		want := 0
		if t.rspSeq >= 0 {
			want = 1
		}
		if t.delivered != want {
			return fail(fmt.Sprintf("C15|responses-delivered=%d-sent=%d", t.delivered, want),
				fmt.Sprintf("op %d: %d responses delivered to its requester, %d sent at the Top port", t.op, t.delivered, want), map[string]any{"op": t.op})
		}
	}
	return st
}
