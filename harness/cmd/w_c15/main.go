// w_c15: the real reorder buffer (amd/timing/rob, public Builder) between fake
// requesters and a fake memory that answers with random latency, in permuted
// order and with back-pressure, while DiscardTransactions / Restart control
// messages are injected at random points. An offline checker over the events
// recorded at the buffer's Top, Bottom and Control ports decides C15
// (DESIGN.md, C15).
package main

import (
	"encoding/json"
	"fmt"
	"os"
	"sort"

	"github.com/sarchlab/akita/v4/sim"
	"github.com/sarchlab/mgpusim/v4/amd/timing/rob"

	"verifharness/vlib"
	"verifharness/vlib/memkit"
	"verifharness/vlib/simkit"
)

type config struct {
	BufferSize     int           `json:"buffer_size"`
	NumReqPerCycle int           `json:"num_req_per_cycle"`
	NReq           int           `json:"requesters"`
	ReqInBuf       int           `json:"requester_in_buf"`
	ReqOutBuf      int           `json:"requester_out_buf"`
	ReqStallPct    int           `json:"requester_stall_pct"`
	ReqMaxTake     int           `json:"requester_max_take"`
	Mem            memkit.Policy `json:"memory"`
}

type op struct {
	Gap   int    `json:"gap"`
	Who   int    `json:"who"`
	Write bool   `json:"write"`
	PID   uint32 `json:"pid"`
	Addr  uint64 `json:"addr"`
	Size  int    `json:"size"`
	Data  []byte `json:"data,omitempty"`
	Mask  []bool `json:"mask,omitempty"`
}

type scenario struct {
	Name    string            `json:"name"`
	Cfg     config            `json:"cfg"`
	Ops     []op              `json:"ops"`
	Flushes []memkit.CtrlStep `json:"flushes"`
}

func pick(r *vlib.PRNG, xs ...int) int { return xs[r.Intn(len(xs))] }

func genPolicy(r *vlib.PRNG) memkit.Policy {
	p := memkit.Policy{
		Seed:         r.Uint64(),
		InBuf:        pick(r, 1, 2, 4, 16),
		OutBuf:       pick(r, 1, 2, 4, 16),
		LatLo:        r.Intn(4),
		StragglerPct: pick(r, 0, 0, 10, 30),
		BigLo:        50,
		TakeStallPct: pick(r, 0, 0, 30),
		SendStallPct: pick(r, 0, 0, 30, 60),
		TakePerCycle: pick(r, 0, 0, 1, 2),
		SendPerCycle: pick(r, 0, 0, 1, 3),
		MaxPending:   pick(r, 0, 0, 0, 2, 8),
		Newest:       r.Chance(1, 4),
	}
	p.LatHi = p.LatLo + pick(r, 0, 5, 20, 60)
	p.BigHi = p.BigLo + pick(r, 50, 150)
	return p
}

func genScenario(r *vlib.PRNG, idx int) scenario {
	c := config{
		BufferSize:     pick(r, 1, 1, 2, 2, 3, 4, 4, 6, 8, 16, 32, 64, 128, 1+r.Intn(128)),
		NumReqPerCycle: 1 + r.Intn(8),
		NReq:           1 + r.Intn(2),
		ReqInBuf:       pick(r, 1, 2, 4, 16),
		ReqOutBuf:      pick(r, 1, 2, 4, 16),
		ReqStallPct:    pick(r, 0, 0, 30, 70),
		ReqMaxTake:     pick(r, 0, 0, 1, 2),
		Mem:            genPolicy(r),
	}
	s := scenario{Name: fmt.Sprintf("s%d", idx), Cfg: c}
	n := 20 + r.Intn(130)
	nPID := 1 + r.Intn(4)
	hot := []uint64{uint64(r.Intn(1 << 20)), uint64(r.Intn(1 << 20)), uint64(r.Intn(1 << 20))}
	type key struct {
		pid  uint32
		addr uint64
	}
	used := map[key]bool{}
	span := 0
	for i := 0; i < n; i++ {
		var o op
		switch r.Intn(20) {
		case 0:
			o.Gap = r.Intn(40)
		case 1, 2:
			o.Gap = r.Intn(5)
		case 3, 4, 5:
			o.Gap = 1
		}
		span += o.Gap
		o.Who = r.Intn(c.NReq)
		o.Write = r.Chance(9, 20)
		o.Size = pick(r, 1, 2, 4, 8, 16, 32, 64, 64, 1+r.Intn(64))
		for {
			line := hot[r.Intn(len(hot))] + uint64(r.Intn(8))
			if r.Chance(1, 3) {
				line = r.Uint64() >> 24
			}
			off := 0
			if o.Size < 64 {
				off = r.Intn(64 - o.Size + 1)
			}
			o.Addr = line*64 + uint64(off)
			o.PID = uint32(r.Intn(nPID))
			if !used[key{o.PID, o.Addr}] {
				used[key{o.PID, o.Addr}] = true
				break
			}
		}
		if o.Write {
			o.Data = make([]byte, o.Size)
			r.Bytes(o.Data)
			if r.Chance(2, 5) {
				o.Mask = make([]bool, o.Size)
				for j := range o.Mask {
					o.Mask[j] = r.Bool()
				}
			}
		}
		s.Ops = append(s.Ops, o)
	}
	span += n + c.Mem.LatHi
	nf := pick(r, 0, 0, 1, 1, 2, 3)
	for i := 0; i < nf; i++ {
		s.Flushes = append(s.Flushes, memkit.CtrlStep{At: int64(1 + r.Intn(span)), Gap: pick(r, 0, 1, 5, 30, r.Intn(100))})
	}
	sort.Slice(s.Flushes, func(i, j int) bool { return s.Flushes[i].At < s.Flushes[j].At })
	return s
}

// genPressure generates scenarios built to have requests sitting in the Top port's incoming buffer (delivered, not
// yet admitted) at the moment a DiscardTransactions / Restart is processed: bursts larger than what the buffer, its
// Top port (2 x width = 2..16 messages) and the requester's outgoing buffer hold together, sent back to back until the
// port refuses, against a lower level that is slow (buffer reaches its capacity) or back-pressures (the Bottom port's
// outgoing buffer fills, admission stops below capacity); flushes placed a few cycles into a burst.
func genPressure(r *vlib.PRNG, idx int) scenario {
	c := config{
		NumReqPerCycle: 1 + r.Intn(8),
		NReq:           1 + r.Intn(2),
		ReqInBuf:       pick(r, 1, 2, 4, 16),
		ReqOutBuf:      pick(r, 1, 2, 4, 16),
		ReqStallPct:    pick(r, 0, 0, 30),
		ReqMaxTake:     pick(r, 0, 0, 1),
	}
	m := memkit.Policy{Seed: r.Uint64(), OutBuf: pick(r, 1, 2, 4, 16), BigLo: 50, BigHi: 100, Newest: r.Chance(1, 3)}
	mode := r.Intn(3)
	switch mode {
	case 0: // slow lower level: the buffer fills to its (small) capacity
		c.BufferSize = pick(r, 1, 1, 2, 2, 3, 4, 4, 6, 8)
		m.InBuf = pick(r, 1, 2, 4, 16)
		m.LatLo = 40 + r.Intn(200)
		m.LatHi = m.LatLo + pick(r, 0, 0, 10, 40)
	case 1: // lower level takes almost nothing: the Bottom port's outgoing buffer fills below capacity
		c.BufferSize = pick(r, 16, 32, 64, 128)
		m.InBuf = pick(r, 1, 1, 2)
		m.MaxPending = pick(r, 1, 1, 2)
		m.LatLo = 30 + r.Intn(100)
		m.LatHi = m.LatLo + pick(r, 0, 5, 20)
	default: // both: moderate capacity, stalling take side, permuted answers
		c.BufferSize = pick(r, 2, 4, 8, 12, 16)
		m.InBuf = pick(r, 1, 2, 4)
		m.TakeStallPct = pick(r, 60, 80, 90)
		m.TakePerCycle = 1
		m.LatLo = r.Intn(30)
		m.LatHi = m.LatLo + pick(r, 10, 40, 80)
		m.StragglerPct = pick(r, 0, 20)
		m.SendStallPct = pick(r, 0, 30)
	}
	c.Mem = m
	s := scenario{Name: fmt.Sprintf("p%d", idx), Cfg: c}
	type key struct {
		pid  uint32
		addr uint64
	}
	used := map[key]bool{}
	nPID := 1 + r.Intn(3)
	hold := min(c.BufferSize, 24) + 2*c.NumReqPerCycle + c.ReqOutBuf*c.NReq
	nBursts := 1 + r.Intn(3)
	cycle := int64(1)
	for b := 0; b < nBursts; b++ {
		gap := 0
		if b > 0 {
			gap = pick(r, 0, 20, 150, 400+r.Intn(400))
		}
		cycle += int64(gap)
		n := hold/2 + 1 + r.Intn(hold+8)
		spread := pick(r, 0, 0, 0, 1, 2) // 0 = back to back; else every few requests a small gap
		at := cycle + 1 + int64(r.Intn(6+hold/max(1, c.NumReqPerCycle)))
		s.Flushes = append(s.Flushes, memkit.CtrlStep{At: at, Gap: pick(r, 0, 1, 2, 5, 30, r.Intn(80))})
		for i := 0; i < n; i++ {
			o := op{Who: r.Intn(c.NReq), Write: r.Chance(2, 5), Size: pick(r, 4, 8, 64, 64, 1+r.Intn(64))}
			if i == 0 {
				o.Gap = gap
			} else if spread > 0 && r.Intn(4) == 0 {
				o.Gap = spread
				cycle += int64(spread)
			}
			for {
				line := r.Uint64() >> 28
				off := 0
				if o.Size < 64 {
					off = r.Intn(64 - o.Size + 1)
				}
				o.Addr, o.PID = line*64+uint64(off), uint32(r.Intn(nPID))
				if !used[key{o.PID, o.Addr}] {
					used[key{o.PID, o.Addr}] = true
					break
				}
			}
			if o.Write {
				o.Data = make([]byte, o.Size)
				r.Bytes(o.Data)
				if r.Chance(1, 3) {
					o.Mask = make([]bool, o.Size)
					for j := range o.Mask {
						o.Mask[j] = r.Bool()
					}
				}
			}
			s.Ops = append(s.Ops, o)
		}
	}
	// later traffic, well after the last flush: must be served normally
	tail := 2 + r.Intn(10)
	for i := 0; i < tail; i++ {
		o := op{Who: r.Intn(c.NReq), Size: 8, PID: uint32(r.Intn(nPID))}
		if i == 0 {
			o.Gap = pick(r, 0, 30, 200, 600)
		}
		for {
			o.Addr = (r.Uint64() >> 28) * 64
			if !used[key{o.PID, o.Addr}] {
				used[key{o.PID, o.Addr}] = true
				break
			}
		}
		s.Ops = append(s.Ops, o)
	}
	return s
}

// canonical scenarios do not depend on the seed.
func canonical() []scenario {
	rd := func(gap int, addr uint64, size int) op { return op{Gap: gap, Addr: addr, Size: size} }
	wr := func(gap int, addr uint64, size int, masked bool) op {
		o := op{Gap: gap, Write: true, Addr: addr, Size: size, Data: make([]byte, size)}
		for i := range o.Data {
			o.Data[i] = byte(addr>>6) + byte(i)
		}
		if masked {
			o.Mask = make([]bool, size)
			for i := range o.Mask {
				o.Mask[i] = i%3 != 0
			}
		}
		return o
	}
	base := config{BufferSize: 4, NumReqPerCycle: 1, NReq: 1, ReqInBuf: 4, ReqOutBuf: 4,
		Mem: memkit.Policy{Seed: 1, InBuf: 4, OutBuf: 4, LatLo: 6, LatHi: 6, Newest: true}}
	var burst []op
	for i := 0; i < 12; i++ {
		burst = append(burst, rd(0, 0x1000+uint64(i)*64, 64))
	}
	mixed := []op{}
	for i := 0; i < 24; i++ {
		switch i % 3 {
		case 0:
			mixed = append(mixed, rd(0, 0x4000+uint64(i)*64+4, 8))
		case 1:
			mixed = append(mixed, wr(0, 0x4000+uint64(i)*64, 64, false))
		default:
			mixed = append(mixed, wr(1, 0x4000+uint64(i)*64+16, 13, true))
		}
		mixed[i].PID = uint32(i % 2)
		mixed[i].Who = i % 2
	}
	cap1 := base
	cap1.BufferSize = 1
	cap1.NumReqPerCycle = 4
	two := base
	two.NReq = 2
	two.BufferSize = 8
	two.NumReqPerCycle = 2
	two.Mem = memkit.Policy{Seed: 2, InBuf: 1, OutBuf: 1, LatLo: 0, LatHi: 20, StragglerPct: 20, BigLo: 50, BigHi: 80, SendStallPct: 30}
	two.ReqStallPct = 50
	fl := base
	fl.BufferSize = 16
	fl.NumReqPerCycle = 2
	fl.Mem = memkit.Policy{Seed: 3, InBuf: 2, OutBuf: 2, LatLo: 3, LatHi: 30, StragglerPct: 25, BigLo: 60, BigHi: 120}
	var long []op
	for i := 0; i < 60; i++ {
		g := 0
		if i%7 == 6 {
			g = 3
		}
		if i%2 == 0 {
			long = append(long, rd(g, 0x9000+uint64(i)*64, 32))
		} else {
			long = append(long, wr(g, 0x9000+uint64(i)*64, 64, i%4 == 1))
		}
	}
	// ---- flushes that find requests waiting in the Top port's incoming buffer
	reads := func(n int, firstGap int, addr uint64, who func(int) int) []op {
		var out []op
		for i := 0; i < n; i++ {
			o := rd(0, addr+uint64(i)*64, 8)
			if i == 0 {
				o.Gap = firstGap
			}
			if who != nil {
				o.Who = who(i)
			}
			out = append(out, o)
		}
		return out
	}
	// the shape of the situation "buffer at capacity, lower level stalled, more requests already handed over":
	// capacity 4, width 2 (Top port holds 4); 6 reads served; 8 reads back to back (4 admitted, 4 wait in the Top
	// port); discard, restart; the lower level answers the stale copies much later; 3 later reads
	stall := config{BufferSize: 4, NumReqPerCycle: 2, NReq: 1, ReqInBuf: 16, ReqOutBuf: 16,
		Mem: memkit.Policy{Seed: 4, InBuf: 16, OutBuf: 16, LatLo: 150, LatHi: 150}}
	stallOps := append(append(reads(6, 0, 0x10000, nil), reads(8, 400, 0x20000, nil)...), reads(3, 60, 0x30000, nil)...)
	// same with more requests than buffer + Top port hold: the rest waits in the requester's outgoing buffer, is
	// delivered after the restart and has to be served
	over := stall
	over.ReqOutBuf = 4
	overOps := append(reads(14, 0, 0x40000, nil), reads(3, 300, 0x50000, nil)...)
	// admission stopped below capacity: the lower level holds one request at a time, the Bottom port's outgoing buffer is full
	bp := config{BufferSize: 64, NumReqPerCycle: 1, NReq: 1, ReqInBuf: 4, ReqOutBuf: 2,
		Mem: memkit.Policy{Seed: 5, InBuf: 1, OutBuf: 1, LatLo: 100, LatHi: 100, MaxPending: 1}}
	bpOps := append(reads(16, 0, 0x60000, nil), reads(4, 500, 0x70000, nil)...)
	// capacity 1, width 8: the Top port holds 16; reads and writes; two flushes (restart immediately / after 30 cycles)
	wide := config{BufferSize: 1, NumReqPerCycle: 8, NReq: 1, ReqInBuf: 4, ReqOutBuf: 16,
		Mem: memkit.Policy{Seed: 6, InBuf: 4, OutBuf: 4, LatLo: 60, LatHi: 60}}
	var wideOps []op
	for i := 0; i < 40; i++ {
		g := 0
		if i == 20 {
			g = 150
		}
		if i%2 == 0 {
			wideOps = append(wideOps, rd(g, 0x80000+uint64(i)*64, 16))
		} else {
			wideOps = append(wideOps, wr(g, 0x80000+uint64(i)*64, 64, i%4 == 3))
		}
	}
	wideOps = append(wideOps, reads(4, 3000, 0x90000, nil)...)
	// two requesters that keep sending through the Discard..Restart interval: capacity never reached, nothing waits
	// at the discard, the Top port (8) fills during the interval and is emptied by the restart
	thru := config{BufferSize: 16, NumReqPerCycle: 4, NReq: 2, ReqInBuf: 4, ReqOutBuf: 2,
		Mem: memkit.Policy{Seed: 7, InBuf: 4, OutBuf: 4, LatLo: 30, LatHi: 34}}
	var thruOps []op
	for i := 0; i < 40; i++ {
		o := rd(2, 0xa0000+uint64(i)*64, 32)
		if i%3 == 0 {
			o = wr(2, 0xa0000+uint64(i)*64, 32, false)
		}
		o.Who = i % 2
		thruOps = append(thruOps, o)
	}
	return []scenario{
		{Name: "canon-flush-with-4-queued-in-top-port-cap4-width2-stalled-lower-level", Cfg: stall, Ops: stallOps, Flushes: []memkit.CtrlStep{{At: 420, Gap: 5}}},
		{Name: "canon-flush-with-queued-in-top-port-and-in-requester", Cfg: over, Ops: overOps, Flushes: []memkit.CtrlStep{{At: 20, Gap: 5}}},
		{Name: "canon-flush-with-queued-in-top-port-bottom-backpressure", Cfg: bp, Ops: bpOps, Flushes: []memkit.CtrlStep{{At: 30, Gap: 2}}},
		{Name: "canon-flush-cap1-width8-top16", Cfg: wide, Ops: wideOps, Flushes: []memkit.CtrlStep{{At: 10, Gap: 0}, {At: 170, Gap: 30}}},
		{Name: "canon-requesters-send-through-flush-interval", Cfg: thru, Ops: thruOps, Flushes: []memkit.CtrlStep{{At: 12, Gap: 30}}},
		{Name: "canon-burst-reversed-cap4", Cfg: base, Ops: burst},
		{Name: "canon-capacity-1", Cfg: cap1, Ops: burst},
		{Name: "canon-two-requesters-mixed-backpressure", Cfg: two, Ops: mixed},
		{Name: "canon-flush-midstream", Cfg: fl, Ops: long, Flushes: []memkit.CtrlStep{{At: 12, Gap: 5}, {At: 40, Gap: 0}}},
	}
}

// ---------------------------------------------------------------------------

type runOut struct {
	events   []simkit.Event
	reqs     []*simkit.Requester
	memory   *memkit.Responder
	ctl      *memkit.Controller
	idOfOp   []string
	nEvents  int64
	livelock bool
	pv       any
	topFull  int64 // ticks of the buffer that started with a full Top outgoing buffer
	botFull  int64
	occAt    map[int][2]int // log seq of Control events -> (top out occupancy, bottom out occupancy)
	topName  sim.RemotePort
}

func runReal(s scenario) *runOut {
	c := s.Cfg
	engine := sim.NewSerialEngine()
	freq := 1 * sim.GHz
	memory := memkit.NewResponder("Mem", engine, freq, c.Mem)
	memory.MakeRsp = memkit.MemoryRsp
	rb := rob.MakeBuilder().WithEngine(engine).WithFreq(freq).
		WithBufferSize(c.BufferSize).WithNumReqPerCycle(c.NumReqPerCycle).
		WithBottomUnit(memory.Port.AsRemote()).Build("ROB")
	top, bottom, control := rb.GetPortByName("Top"), rb.GetPortByName("Bottom"), rb.GetPortByName("Control")
	ctl := memkit.NewController("Ctl", engine, freq, control.AsRemote(), s.Flushes)

	out := &runOut{memory: memory, ctl: ctl, occAt: map[int][2]int{}, topName: top.AsRemote()}
	topPorts := []sim.Port{top}
	for i := 0; i < c.NReq; i++ {
		rq := simkit.NewRequester(fmt.Sprintf("Req%d", i), engine, freq, c.ReqInBuf, c.ReqOutBuf)
		rq.MaxTake = c.ReqMaxTake
		if c.ReqStallPct > 0 {
			st := vlib.NewPRNG(c.Mem.Seed*31 + uint64(i) + 17)
			pct := c.ReqStallPct
			rq.StallFn = func(int64) bool { return st.Intn(100) < pct }
		}
		out.reqs = append(out.reqs, rq)
		topPorts = append(topPorts, rq.Out)
	}
	simkit.Connect(engine, freq, "TopConn", topPorts...)
	simkit.Connect(engine, freq, "BottomConn", bottom, memory.Port)
	simkit.Connect(engine, freq, "CtrlConn", control, ctl.Port)

	topOcc := memkit.TrackOut(top, 2*c.NumReqPerCycle)
	botOcc := memkit.TrackOut(bottom, 2*c.NumReqPerCycle)
	log := simkit.NewLog(engine, freq)
	log.Attach(top, "Top")
	log.Attach(bottom, "Bottom")
	log.Attach(control, "Control")
	log.OnEvent = func(e simkit.Event) {
		if e.Port == "Control" {
			out.occAt[e.Seq] = [2]int{topOcc.N, botOcc.N}
		}
	}
	memkit.ProbeTicks(engine, rb.TickingComponent, func() {
		if topOcc.Full() {
			out.topFull++
		}
		if botOcc.Full() {
			out.botFull++
		}
	})

	cycle := int64(1)
	maxAt := int64(0)
	for _, o := range s.Ops {
		cycle += int64(o.Gap)
		rq := out.reqs[o.Who]
		m := buildReq(o, rq.Out.AsRemote(), top.AsRemote())
		out.idOfOp = append(out.idOfOp, m.Meta().ID)
		rq.Plan = append(rq.Plan, simkit.Planned{NotBefore: cycle, Msg: m})
	}
	for _, f := range s.Flushes {
		maxAt = max(maxAt, f.At+int64(f.Gap))
	}
	for _, rq := range out.reqs {
		rq.TickLater()
	}
	ctl.TickLater()

	perReq := int64(c.Mem.LatHi + c.Mem.BigHi + 40)
	limit := 40*(cycle+maxAt+int64(len(s.Ops))*perReq*3) + 200000
	out.nEvents, out.livelock, out.pv = simkit.RunBounded(engine, limit)
	out.events = log.Snapshot()
	return out
}

func classOf(c config) string {
	return fmt.Sprintf("cap=%d,width=%d", c.BufferSize, c.NumReqPerCycle)
}

func runScenario(rec vlib.Recorder, s scenario) {
	rec.Eval()
	out := runReal(s)
	rec.Count("engine_events", out.nEvents)
	wit := func(extra map[string]any) map[string]any {
		m := map[string]any{"scenario": s}
		for k, v := range extra {
			m[k] = v
		}
		return m
	}
	if out.pv != nil {
		rec.Violation("C15|crash", fmt.Sprintf("reorder buffer (or a peer) panicked on a protocol-conforming run: %v", out.pv), wit(nil))
		return
	}
	if out.livelock {
		rec.Violation("C15|no-termination", "engine exceeded the event bound (traffic never completed)", wit(nil))
		return
	}
	st := check(s, out)
	if st.harness != "" {
		rec.Inconclusive("scenario " + s.Name + ": " + st.harness)
		return
	}
	if st.viol != nil {
		rec.Violation(st.viol.key, st.viol.what, wit(st.viol.extra))
		return
	}
	rec.Count("requests_accepted", st.accepted)
	rec.Count("responses_checked", st.responded)
	rec.Count("reads", st.reads)
	rec.Count("writes", st.writes)
	rec.Count("masked_writes", st.masked)
	rec.Count("forwarded_requests_compared", st.forwards)
	rec.Count("bottom_responses_out_of_order", st.ooo)
	rec.Count("flushes", st.flushes)
	rec.Count("flushes_with_transactions_in_flight", st.flushesInflight)
	rec.Count("flushes_with_responses_in_top_port", st.flushesTopBusy)
	rec.Count("discarded_transactions", st.discarded)
	rec.Count("dropped_at_restart", st.dropped)
	rec.Count("served_after_restart", st.servedAfterRestart)
	rec.Count("stale_bottom_responses_after_flush", st.stale)
	rec.Count("flushes_with_requests_queued_in_top_port", st.flushesTopQueued)
	rec.Count("flushes_with_requests_queued_in_top_port_at_capacity", st.flushesTopQueuedCapFull)
	rec.Count("flushes_with_requests_queued_in_top_port_below_capacity", st.flushesTopQueued-st.flushesTopQueuedCapFull)
	rec.Count("requests_queued_in_top_port_at_flush", st.queuedAtDiscard)
	rec.Count("requests_delivered_between_discard_and_restart", st.arrivedInInterval)
	rec.Count("requests_left_in_top_port_by_restart", st.leftAtRestart)
	rec.Count("requests_left_by_restart_dropped_later", st.lazyDropped)
	rec.Count("requests_sent_before_restart_delivered_after_served", st.sentBeforeDeliveredAfter)
	if st.flushesTopQueued > 0 {
		rec.Distinct("queued_at_flush_capacity_x_top_port", fmt.Sprintf("cap=%d,top=%d", s.Cfg.BufferSize, 2*s.Cfg.NumReqPerCycle))
	}
	rec.Count("capacity_reached", st.capReached)
	rec.Count("ticks_with_full_top_port", out.topFull)
	rec.Count("ticks_with_full_bottom_port", out.botFull)
	rec.Distinct("capacity_x_width", classOf(s.Cfg))
	m := s.Cfg.Mem
	rec.Distinct("lower_level_policy", fmt.Sprintf("newest=%v,sendstall=%d,takestall=%d,maxpend=%d,straggler=%d,take=%d,send=%d", m.Newest, m.SendStallPct, m.TakeStallPct, m.MaxPending, m.StragglerPct, m.TakePerCycle, m.SendPerCycle))
	rec.Distinct("port_buffers", fmt.Sprintf("req=%d/%d,mem=%d/%d,stall=%d,n=%d", s.Cfg.ReqInBuf, s.Cfg.ReqOutBuf, m.InBuf, m.OutBuf, s.Cfg.ReqStallPct, s.Cfg.NReq))
	if st.ooo > 0 {
		rec.Nontrivial(s.Name)
	}
	rec.Sample(map[string]any{"name": s.Name, "cfg": s.Cfg, "ops": len(s.Ops), "flushes": s.Flushes,
		"out_of_order_bottom_responses": st.ooo, "discarded": st.discarded})
}

func main() {
	for i, a := range os.Args {
		if a == "--replay" && i+1 < len(os.Args) {
			// a replay must not overwrite the evidence of the real run
			if os.Getenv("VERIF_OUT_ROOT") == "" {
				os.Setenv("VERIF_OUT_ROOT", os.TempDir()+"/verif-replay-C15")
			}
			replay(vlib.Start("C15"), os.Args[i+1])
			return
		}
	}
	c := vlib.Start("C15")
	n := c.N(20000, 600000)
	scs := canonical()
	base := c.Rand("scenarios")
	for i := 0; i < n; i++ {
		scs = append(scs, genScenario(base.ForkN("s", i), i))
	}
	pb := c.Rand("pressure")
	for i := 0; i < n/4; i++ {
		scs = append(scs, genPressure(pb.ForkN("p", i), i))
	}
	sim.GetIDGenerator() // akita initialises it lazily without synchronisation; do it before going parallel
	vlib.Parallel(len(scs), 0, func(i int) { runScenario(c, scs[i]) })
	c.Finish(finishOpts(false))
}

func finishOpts(replay bool) vlib.FinishOpts {
	o := vlib.FinishOpts{
		Rule: "scenario = (capacity, per-cycle width, port-buffer sizes, 1-2 requesters, timed stream of reads / full writes / masked writes " +
			"of 1-64 bytes with unique (PID,address), lower-level delay/reorder/back-pressure policy, flush+restart points); generated from " +
			"VERIF_SEED (general scenarios + a quarter as many flush-under-pressure scenarios: bursts larger than buffer + Top port + requester " +
			"buffer, sent until the port refuses, against a slow or back-pressuring lower level, flushes a few cycles into a burst) plus a fixed " +
			"canonical battery; non-trivial = distinct scenario in which the lower level answered a younger " +
			"transaction while an older one (>= 2 in flight) was still unanswered. Flush rule judged: the flush protocol of the component " +
			"(Restart empties both ports) discards every request that was delivered into the Top port's incoming buffer before the Restart " +
			"was processed, admitted or not - in flight at the DiscardTransactions, waiting in the Top port at the DiscardTransactions, or " +
			"delivered between DiscardTransactions and Restart; none of them may be sent to the lower level or answered after the restart. " +
			"Requests the requester had pushed before the restart but that were delivered after it (they waited in the requester's port / " +
			"the connection) are ordinary later traffic and must be served; they are counted, not judged as discarded",
		Assumptions: []string{
			"peers follow akita's port protocol; every injected request has a unique id and a unique (PID,address)",
			"control handshake as the command processor drives it: DiscardTransactions, wait for NotifyDone, Restart, wait for NotifyDone; one control message outstanding",
			"accepted = retrieved from the Top port while not between a DiscardTransactions and the following Restart; requests retrieved in that interval (dropped by Restart) need no response and must get none",
			"discarded by a flush = accepted and not yet answered at the Top port when the DiscardTransactions message is retrieved, or delivered into the Top port's incoming buffer (recv event) before the Restart message is retrieved and not accepted before the DiscardTransactions",
			"the requesters are not paused around a flush (the command processor pauses the compute units first; here they keep sending, which only adds cases: what is delivered before the Restart is discarded like everything else)",
			"single lower-level port (BottomUnit), direct connections",
		},
		MinNontrivial: 5000,
		MinCounters: map[string]int64{"requests_accepted": 500000, "responses_checked": 500000, "reads": 200000, "writes": 200000,
			"masked_writes": 50000, "bottom_responses_out_of_order": 100000, "flushes": 5000, "flushes_with_transactions_in_flight": 3000,
			"discarded_transactions": 30000, "served_after_restart": 100000, "capacity_reached": 100000, "ticks_with_full_top_port": 5000,
			"ticks_with_full_bottom_port":              10000,
			"flushes_with_requests_queued_in_top_port": 8000, "flushes_with_requests_queued_in_top_port_at_capacity": 5000,
			"flushes_with_requests_queued_in_top_port_below_capacity": 2000, "requests_queued_in_top_port_at_flush": 60000,
			"requests_delivered_between_discard_and_restart": 10000, "requests_sent_before_restart_delivered_after_served": 40000,
			"dropped_at_restart": 60000},
	}
	if replay {
		o.MinNontrivial = 0
		o.MinCounters = nil
	}
	return o
}

func replay(c *vlib.Check, path string) {
	b, err := os.ReadFile(path)
	if err != nil {
		c.Inconclusive("cannot read replay file: " + err.Error())
		c.Finish(finishOpts(true))
	}
	var f struct {
		Witness struct {
			Scenario scenario `json:"scenario"`
		} `json:"witness"`
	}
	if err := json.Unmarshal(b, &f); err != nil || len(f.Witness.Scenario.Ops) == 0 {
		c.Inconclusive(fmt.Sprintf("replay file has no scenario (%v)", err))
		c.Finish(finishOpts(true))
	}
	runScenario(c, f.Witness.Scenario)
	if c.NumNewViolations() == 0 {
		c.Inconclusive("replayed scenario did not violate the property (or only reproduced a listed finding)")
	}
	c.Finish(finishOpts(true))
}
