package main

import (
	"bytes"
	"encoding/binary"
	"fmt"
	"os"
	"reflect"
	"runtime"
	"sort"
	"strconv"
	"strings"
	"sync"
	"sync/atomic"
	"time"

	"github.com/sarchlab/akita/v4/sim"
	"github.com/sarchlab/mgpusim/v4/amd/driver"
	"github.com/sarchlab/mgpusim/v4/amd/insts"

	"verifharness/vlib"
	"verifharness/vlib/kern"
	"verifharness/vlib/plat"
)

// ---------------------------------------------------------------------------
// yield-point counters and the exact deadlock predicate (logic of w_c12)

const (
	pDrainSubscribed = iota
	pDrainSignalled
	pDrainReturn
	pDrainBeforeWait
	pDrainAfterWait
	pAsyncIdle
	pAsyncSignal
	pAsyncTicked
	pEngineRunReturned
	pEngineExit
	pNotify
	numPoints
)

var pointIdx = map[string]int{
	"drain.subscribed": pDrainSubscribed, "drain.signalled": pDrainSignalled, "drain.return": pDrainReturn,
	"drain.beforeWait": pDrainBeforeWait, "drain.afterWait": pDrainAfterWait,
	"async.idle": pAsyncIdle, "async.signal": pAsyncSignal, "async.ticked": pAsyncTicked,
	"engine.runReturned": pEngineRunReturned, "engine.exit": pEngineExit, "listener.notify": pNotify,
}

type yieldMon struct{ cnt [numPoints]atomic.Int64 }

func (m *yieldMon) hook(point string) {
	if i, ok := pointIdx[point]; ok {
		m.cnt[i].Add(1)
	}
}

type snapshot struct {
	c       [numPoints]int64
	running bool
	kicked  bool
	active  int64
}

func deadlocked(s snapshot) bool {
	inWait := s.c[pDrainBeforeWait] - s.c[pDrainAfterWait]
	asyncIdle := s.c[pAsyncSignal] == s.c[pDrainSignalled] && s.c[pAsyncIdle] == s.c[pAsyncSignal]+1
	return s.active > 0 && inWait == s.active && asyncIdle && !s.running
}

func allParked(dump string) bool {
	for _, blk := range strings.Split(dump, "\n\n") {
		nl := strings.IndexByte(blk, '\n')
		if nl < 0 {
			continue
		}
		head, body := blk[:nl], blk[nl:]
		if strings.Contains(body, "main.(*child).watch") {
			continue
		}
		relevant := strings.Contains(body, "mgpusim/v4/") || strings.Contains(body, "akita/v4/sim") ||
			strings.Contains(body, "main.(*child)") || strings.Contains(body, "main.(*thread)") || strings.Contains(body, "main.childMain")
		if !relevant {
			continue
		}
		lb := strings.IndexByte(head, '[')
		rb := strings.IndexByte(head, ']')
		if lb < 0 || rb < lb {
			return false
		}
		state := head[lb+1 : rb]
		if c := strings.IndexByte(state, ','); c >= 0 {
			state = state[:c]
		}
		switch state {
		case "chan receive", "chan send", "select", "sync.WaitGroup.Wait", "semacquire", "sync.Mutex.Lock", "sync.Cond.Wait", "chan receive (nil chan)":
		default:
			return false
		}
	}
	return true
}

// ---------------------------------------------------------------------------

type childCfg struct {
	Seed int64  `json:"seed"`
	Idx  int    `json:"idx"`
	Kind string `json:"kind"` // emu, dma, tmagic, canon-*
	NGPU int    `json:"ngpu"`
	Ops  int    `json:"ops"`
}

type child struct {
	cfg  childCfg
	rec  *vlib.ChildRecorder
	p    *plat.Platform
	d    *driver.Driver
	path string // emu | dma | tmagic
	ym   *yieldMon
	cm   *copyMon

	active     atomic.Int64
	waitMu     sync.Mutex
	waitingQ   map[int]*driver.CommandQueue
	blockingOp map[int]string

	mu       sync.Mutex
	cnt      map[string]int64
	dist     map[string]map[string]bool
	nontriv  map[string]bool
	issued   []*issuedCopy
	scen     string
	layouts  map[int]any
	nviol    int
	copyOps  int64
	evals    int
	sampled  bool
	nextCtx  int
	allCtx   []*ctxModel
	fatalErr atomic.Bool
	frames   map[uint64]*frameInfo // physical frames of freed buffers (freealloc.go)
	buddy    bool                  // the driver uses the buddy allocator
}

func (c *child) count(k string, n int64) { c.mu.Lock(); c.cnt[k] += n; c.mu.Unlock() }
func (c *child) distinct(set, k string) {
	c.mu.Lock()
	if c.dist[set] == nil {
		c.dist[set] = map[string]bool{}
	}
	c.dist[set][k] = true
	c.mu.Unlock()
}

func (c *child) flush() {
	c.mu.Lock()
	defer c.mu.Unlock()
	keys := make([]string, 0, len(c.cnt))
	for k := range c.cnt {
		keys = append(keys, k)
	}
	sort.Strings(keys)
	for _, k := range keys {
		c.rec.Count(k, c.cnt[k])
	}
	c.cnt = map[string]int64{}
	for ; c.evals > 0; c.evals-- {
		c.rec.Eval() // one evaluation = one generated copy judged against the shadow
	}
	for s, m := range c.dist {
		for k := range m {
			c.rec.Distinct(s, k)
		}
	}
	c.dist = map[string]map[string]bool{}
	for k := range c.nontriv {
		c.rec.Nontrivial(k)
	}
	c.nontriv = map[string]bool{}
	if c.cm != nil {
		c.cm.mu.Lock()
		for k, v := range c.cm.cnt {
			c.rec.Count(k, v)
		}
		c.cm.cnt = map[string]int64{}
		c.cm.mu.Unlock()
	}
}

func (c *child) violation(key, what string, wit map[string]any) {
	c.mu.Lock()
	c.nviol++
	n := c.nviol
	if wit == nil {
		wit = map[string]any{}
	}
	wit["child"] = c.cfg
	wit["platform"] = c.p.Cfg
	if _, ok := wit["scenario"]; !ok {
		wit["scenario"] = c.scen
	}
	c.mu.Unlock()
	if n <= 30 {
		c.rec.Violation(key, what, wit)
	}
}

func (c *child) snap() snapshot {
	var s snapshot
	for i := range s.c {
		s.c[i] = c.ym.cnt[i].Load()
	}
	s.running, s.kicked = c.d.VerifEngineState()
	s.active = c.active.Load()
	return s
}

func (c *child) watch(stop chan struct{}) {
	for {
		select {
		case <-stop:
			return
		case <-time.After(20 * time.Millisecond):
		}
		a := c.snap()
		if !deadlocked(a) {
			continue
		}
		stk := make([]byte, 4<<20)
		stk = stk[:runtime.Stack(stk, true)]
		if !allParked(string(stk)) {
			continue
		}
		b := c.snap()
		if a != b {
			continue
		}
		// Every application goroutine is inside Listener.Wait, runAsync is back
		// in its select with no signal pending, no engine goroutine exists:
		// nothing can ever run again. Classify by the head of the waited queues.
		c.waitMu.Lock()
		key, what := "", ""
		var heads []string
		for _, q := range c.waitingQ {
			cmd := q.Peek()
			if cmd == nil {
				heads = append(heads, "empty")
				if key == "" {
					key = "C12|lost-wakeup|drain-check-then-wait"
					what = "deadlock: application blocked in Listener.Wait on an empty queue"
				}
				continue
			}
			tn := reflect.TypeOf(cmd).String()
			var out []string
			for _, r := range cmd.GetReqs() {
				out = append(out, strings.TrimPrefix(reflect.TypeOf(r).String(), "*protocol."))
			}
			sort.Strings(out)
			heads = append(heads, fmt.Sprintf("%s running=%v outstanding=%v", tn, q.IsRunning, out))
			if strings.Contains(tn, "MemCopy") && q.IsRunning {
				dir := "h2d"
				if strings.Contains(tn, "D2H") {
					dir = "d2h"
				}
				if len(out) == 0 {
					key = "C11|copy-never-completes|flush-reply-last"
					what = "engine idle, every goroutine parked, and a " + dir + " copy command is still at the head of its queue although all of its requests were answered (its last answer was a flush reply, which does not complete the command)"
				} else {
					key = "C11|copy-never-completes|" + dir + "|outstanding=" + strings.Join(uniq(out), "+")
					what = "engine idle, every goroutine parked, and a " + dir + " copy command is still at the head of its queue with unanswered requests " + strings.Join(out, ",")
				}
			} else if key == "" || strings.HasPrefix(key, "C12|lost") {
				if q.IsRunning {
					key = "C12|hang|command-never-completes|" + tn
					what = "engine idle, every goroutine parked, command " + tn + " started but never completed"
				} else {
					key = "C12|stranded-kick|engine-exit-vs-runAsync"
					what = "engine idle with an unstarted command " + tn + " at the head of a queue that is being drained"
				}
			}
		}
		for _, dir := range c.blockingOp {
			if key == "" || strings.HasPrefix(key, "C12|") {
				key = "C11|copy-never-completes|" + dir + "|blocking-api"
				what = "engine idle, every goroutine parked, and a blocking MemCopy call (" + dir + ") has not returned"
			}
		}
		c.waitMu.Unlock()
		if key == "" {
			key, what = "C12|hang|unclassified", "all goroutines parked, engine idle"
		}
		c.violation(key, what, map[string]any{"queue_heads": heads, "yield_counters": a.c, "recent_ops": c.recentOps(), "goroutines": trim(string(stk), 12000)})
		c.flush()
		c.rec.Note("verdict", "deadlock")
		os.Exit(3)
	}
}

func uniq(in []string) []string {
	var out []string
	for i, s := range in {
		if i == 0 || s != in[i-1] {
			out = append(out, s)
		}
	}
	return out
}

func trim(s string, n int) string {
	if len(s) > n {
		return s[:n] + "…"
	}
	return s
}

func (c *child) recentOps() map[string][]string {
	out := map[string][]string{}
	c.mu.Lock()
	ms := append([]*ctxModel(nil), c.allCtx...)
	c.mu.Unlock()
	for _, m := range ms {
		out[fmt.Sprintf("ctx%d", m.id)] = m.tailOps(12)
	}
	return out
}

func (c *child) drain(slot int, q *driver.CommandQueue) {
	c.waitMu.Lock()
	c.waitingQ[slot] = q
	c.waitMu.Unlock()
	c.d.DrainCommandQueue(q)
	c.waitMu.Lock()
	delete(c.waitingQ, slot)
	c.waitMu.Unlock()
	if n := q.NumCommand(); n != 0 {
		c.violation("C11|drain-returned-early", fmt.Sprintf("DrainCommandQueue returned with %d commands in the queue", n), nil)
	}
}

// ---------------------------------------------------------------------------
// contexts and layouts

type layoutSpec struct {
	Sizes []int    `json:"sizes"`
	Kinds []string `json:"kinds"`
	GPUs  []int    `json:"alloc_gpu"`
	NQ    int      `json:"queues"`
}

var sizeChoices = []int{1, 3, 63, 64, 65, 100, 1000, 4000, 4095, 4096, 4097, 5000, 8000, 8192, 8193, 10000, 12288, 12289, 16384, 20480}

func (c *child) genLayout(r *vlib.PRNG) layoutSpec {
	var ls layoutSpec
	ng := c.cfg.NGPU
	nb := 3 + r.Intn(5)
	maxPages := 5
	if c.path != "emu" {
		nb = 3 + r.Intn(3)
		maxPages = 3
	}
	for i := 0; i < nb; i++ {
		sz := sizeChoices[r.Intn(len(sizeChoices))]
		if c.path == "dma" && r.Chance(1, 2) {
			sz = pageSize * (1 + r.Intn(maxPages)) // adjacent full extents: in-bounds ranges can span buffers
		}
		if r.Chance(1, 5) {
			sz = 1 + r.Intn(5*pageSize)
		}
		if sz > maxPages*pageSize {
			sz = maxPages*pageSize - r.Intn(3)*pageSize - r.Intn(2)*r.Intn(100)
		}
		if r.Chance(1, 6) {
			sz = 64 // guard-like small buffer
		}
		kind := "plain"
		pages := (sz-1)/pageSize + 1
		switch k := r.Intn(10); {
		case k < 3 && ng > 1 && pages >= 2:
			kind = "dist"
		case k < 6 && pages >= 2:
			kind = "remap"
		case k == 6 && c.path == "emu":
			kind = "unified"
		case k == 7 && ng > 1:
			kind = "remap" // single page moved to another GPU
		}
		ls.Sizes = append(ls.Sizes, sz)
		ls.Kinds = append(ls.Kinds, kind)
		ls.GPUs = append(ls.GPUs, 1+r.Intn(ng))
	}
	if c.path == "dma" && r.Chance(1, 3) {
		// one larger buffer: room for multi-page copies next to a running kernel
		ls.Sizes = append(ls.Sizes, (4+r.Intn(5))*pageSize)
		ls.Kinds = append(ls.Kinds, []string{"plain", "remap"}[r.Intn(2)])
		ls.GPUs = append(ls.GPUs, 1+r.Intn(ng))
	}
	if c.path == "emu" && r.Chance(1, 3) {
		// room for grids of >= 64 work-groups (re-homing motif)
		ls.Sizes = append(ls.Sizes, (4+r.Intn(5))*pageSize-r.Intn(2)*r.Intn(200))
		ls.Kinds = append(ls.Kinds, []string{"plain", "remap", "dist"}[r.Intn(3)])
		if ng == 1 && ls.Kinds[len(ls.Kinds)-1] == "dist" {
			ls.Kinds[len(ls.Kinds)-1] = "plain"
		}
		ls.GPUs = append(ls.GPUs, 1+r.Intn(ng))
	}
	ls.NQ = 2 + r.Intn(3)
	return ls
}

func (c *child) buildCtx(ls layoutSpec, r *vlib.PRNG, parent *ctxModel) *ctxModel {
	d := c.d
	m := &ctxModel{cos: map[[2]int]*insts.KernelCodeObject{}, busyQ: map[int]bool{}, lastWrite: -1}
	if parent != nil {
		m.ctx = d.InitWithExistingPID(parent.ctx)
	} else {
		m.ctx = d.Init()
	}
	m.pid = m.ctx.VerifPID()
	c.mu.Lock()
	m.id = c.nextCtx
	c.nextCtx++
	c.allCtx = append(c.allCtx, m)
	c.mu.Unlock()
	ng := c.cfg.NGPU
	off := 0
	var ptrs []driver.Ptr
	for i, sz := range ls.Sizes {
		d.SelectGPU(m.ctx, ls.GPUs[i])
		var p driver.Ptr
		if ls.Kinds[i] == "unified" {
			p = d.AllocateUnifiedMemory(m.ctx, uint64(sz))
		} else {
			p = d.AllocateMemory(m.ctx, uint64(sz))
		}
		if i == 0 {
			m.base = uint64(p)
		}
		if uint64(p) != m.base+uint64(off) {
			panic(fmt.Sprintf("harness assumption broken: allocation %d at 0x%x, expected 0x%x", i, uint64(p), m.base+uint64(off)))
		}
		pages := (sz-1)/pageSize + 1
		m.bufs = append(m.bufs, bufInfo{Off: off, Size: sz, Pages: pages, Kind: ls.Kinds[i]})
		ptrs = append(ptrs, p)
		off += pages * pageSize
	}
	// page placement before any byte is copied or any kernel runs
	for i, b := range m.bufs {
		switch b.Kind {
		case "dist":
			k := 2 + r.Intn(ng-1)
			ids := r.Perm(ng)[:k]
			for j := range ids {
				ids[j]++
			}
			d.Distribute(m.ctx, ptrs[i], uint64(b.Size), ids)
		case "remap":
			order := r.Perm(b.Pages)
			for _, pg := range order {
				if b.Pages > 1 && r.Chance(1, 4) {
					continue
				}
				d.Remap(m.ctx, uint64(ptrs[i])+uint64(pg*pageSize), pageSize, 1+r.Intn(ng))
			}
		}
	}
	m.shadow = make([]byte, off)
	m.good = make([]int32, off)
	for i := range m.good {
		m.good[i] = -1
	}
	m.undef = make([]bool, off)
	m.kTouch = make([]uint8, off/pageSize)
	m.rehStale = make([]uint8, off/pageSize)
	m.rehOp = make([]int32, off/pageSize)
	for i := range m.rehOp {
		m.rehOp[i] = -1
	}
	m.pagePA = make([]uint64, off/pageSize)
	m.pageDv = make([]int, off/pageSize)
	m.frameFrom = make([]*frameInfo, off/pageSize)
	for pg := 0; pg < off/pageSize; pg++ {
		m.pageVA = append(m.pageVA, m.base+uint64(pg*pageSize))
	}
	m.refreshPages(d, 0, off/pageSize)
	for q := 0; q < ls.NQ; q++ {
		g := 1 + (q+m.id)%ng
		d.SelectGPU(m.ctx, g)
		m.queues = append(m.queues, d.CreateCommandQueue(m.ctx))
		m.qGPU = append(m.qGPU, g)
	}
	return m
}

// ---------------------------------------------------------------------------
// operations

type thread struct {
	c    *child
	slot int
	r    *vlib.PRNG
	ms   []*ctxModel
	nOps int       // generated copy ops so far
	seg  *ctxModel // the context whose buffers are freed and re-allocated in mid-history (freealloc.go)
	fq   int       // forced queue (canonical cases): noForce, -1 = blocking API, >= 0 queue index
}

const noForce = -1000

func (th *thread) pathOf() string { return th.c.path }

func (th *thread) noteCopy(m *ctxModel, dir string, o opRec, t elemType, cl rangeClass, purpose string) {
	c := th.c
	c.count("copies|"+c.path+"|"+dir, 1)
	c.count("bytes_"+dir, int64(o.N))
	if purpose != "verify" && purpose != "init" {
		c.count("generated_copy_ops|"+c.path, 1)
		c.mu.Lock()
		c.evals++
		c.mu.Unlock()
		c.count("copies_by_type|"+t.Name, 1)
		cs := cl.String()
		c.count("copies_by_class|"+cs[:strings.IndexByte(cs, '/')], 1)
		c.distinct("path_dir_type_class", c.path+"|"+dir+"|"+t.Name+"|"+cs)
		if o.Q < 0 {
			c.count("copies_blocking_api", 1)
		} else {
			c.count("copies_enqueued", 1)
		}
		if cl.Slack {
			c.count("copies_touching_slack_bytes", 1)
		}
		if cl.Buf {
			c.count("copies_spanning_buffers", 1)
		}
	}
	if cl.Page && cl.NonAdj {
		c.count("copies_crossing_nonadjacent_pages|"+dir, 1)
		if cl.StartAl == "1" || cl.StartAl == "4" {
			c.count("copies_crossing_nonadjacent_pages_unaligned|"+dir, 1)
		}
	}
	if cl.GPU {
		c.count("copies_crossing_gpu_boundary", 1)
	}
	if cl.nontrivial() {
		c.mu.Lock()
		c.nontriv[fmt.Sprintf("%s|%s|%s|%d|%d|%s", c.path, dir, t.Name, o.Off%pageSize, o.N, cl.String())] = true
		c.mu.Unlock()
	}
	if c.path == "dma" {
		c.mu.Lock()
		c.issued = append(c.issued, &issuedCopy{Desc: fmt.Sprintf("ctx%d %s", m.id, o.String()), H2D: dir == "h2d", Chunks: m.chunks(o.Off, o.N)})
		c.mu.Unlock()
	}
}

// queueFor decides the queue for an op touching [off,off+n): q >= 0 a
// persistent queue, q < 0 the blocking API. Drains first on a conflict.
func (th *thread) queueFor(m *ctxModel, off, n int, wantBlocking bool) int {
	if th.fq != noForce {
		q := th.fq
		if q < 0 {
			m.nextBlocking--
			q = m.nextBlocking
		}
		if m.conflict(q, off, n) {
			th.drainAll()
		}
		return q
	}
	q := -1
	if !wantBlocking {
		q = th.r.Intn(len(m.queues))
	} else {
		m.nextBlocking--
		q = m.nextBlocking
	}
	if m.conflict(q, off, n) {
		// prefer the queue that holds the conflicting claim (FIFO orders them)
		owners := map[int]bool{}
		for _, cl := range m.claims {
			if off < cl.off+cl.n && cl.off < off+n {
				owners[cl.q] = true
			}
		}
		if len(owners) == 1 && !wantBlocking {
			for o := range owners {
				if o >= 0 {
					return o
				}
			}
		}
		th.drainAll()
	}
	return q
}

func (th *thread) h2d(m *ctxModel, off, n int, t elemType, blocking bool, purpose string) {
	c := th.c
	raw := make([]byte, n)
	th.r.Bytes(raw)
	m.mustBeLive(off, n)
	q := th.queueFor(m, off, n, blocking)
	cl := m.classify(off, n)
	o := opRec{Idx: len(m.ops), Kind: "h2d", Off: off, N: n, Type: t.Name, Q: q, Class: cl.String(), Extra: purpose}
	val := hostValue(t, raw)
	raw = h2dExpected(val, raw)
	th.noteCopy(m, "h2d", o, t, cl, purpose)
	m.applyWrite(&o, raw)
	if q < 0 {
		th.blockingCall("h2d", func() { c.d.MemCopyH2D(m.ctx, m.ptr(off), val) })
	} else {
		c.d.EnqueueMemCopyH2D(m.queues[q], m.ptr(off), val)
		m.claims = append(m.claims, claim{q, off, n})
		m.busyQ[q] = true
	}
}

func (th *thread) d2h(m *ctxModel, off, n int, t elemType, blocking bool, purpose string, after int) {
	c := th.c
	m.mustBeLive(off, n)
	q := th.queueFor(m, off, n, blocking)
	cl := m.classify(off, n)
	o := opRec{Idx: len(m.ops), Kind: "d2h", Off: off, N: n, Type: t.Name, Q: q, Class: cl.String(), Extra: purpose}
	dst, bytesOf := hostDest(t, n)
	m.mustBeDefined(off, n, "D2H")
	th.noteCopy(m, "d2h", o, t, cl, purpose)
	m.ops = append(m.ops, o)
	pd := &pendingRead{op: o, dst: dst, bytesOf: bytesOf, want: d2hExpected(t, m.shadow[off:off+n]), purpose: purpose, after: after}
	if q < 0 {
		th.blockingCall("d2h", func() { c.d.MemCopyD2H(m.ctx, dst, m.ptr(off)) })
		th.check(m, pd)
	} else {
		c.d.EnqueueMemCopyD2H(m.queues[q], dst, m.ptr(off))
		m.claims = append(m.claims, claim{q, off, n})
		m.busyQ[q] = true
		m.pend = append(m.pend, pd)
	}
}

// blockingCall runs a blocking driver API call. The API drains a queue the
// harness cannot see; the deadlock watcher only needs the goroutine to be
// counted as active, which it is.
func (th *thread) blockingCall(what string, f func()) {
	c := th.c
	c.waitMu.Lock()
	c.blockingOp[th.slot] = what
	c.waitMu.Unlock()
	f()
	c.waitMu.Lock()
	delete(c.blockingOp, th.slot)
	c.waitMu.Unlock()
}

func (th *thread) kernel(m *ctxModel, off, nElem int, op kern.Op, cst uint32, blocking bool) {
	c := th.c
	n := 4 * nElem
	m.mustBeLive(off, n)
	q := th.queueFor(m, off, n, false)
	_ = blocking
	key := [2]int{q, int(op)}
	co := m.cos[key]
	if co == nil {
		co = kern.ElemKernel(op) // own code object per (queue, op): see the open finding C12|second-queue-launches-cached-code-before-upload
		m.cos[key] = co
	}
	o := opRec{Idx: len(m.ops), Kind: "kernel", Off: off, N: n, Q: q, Extra: fmt.Sprintf("%v(%d) gpu%d", op, cst, m.qGPU[q]), gpu: m.qGPU[q]}
	m.touch(c, m.qGPU[q], off, n)
	m.applyKernel(&o, op, cst)
	args := kern.ElemArgs{Buf: m.ptr(off), C: cst}
	c.d.EnqueueLaunchKernel(m.queues[q], co, [3]uint32{uint32(nElem), 1, 1}, [3]uint16{64, 1, 1}, &args)
	m.claims = append(m.claims, claim{q, off, n})
	m.busyQ[q] = true
	m.kernelLaunched = true
	c.count("kernels_launched|"+c.path, 1)
	for _, mm := range th.ms {
		if mm != m && len(mm.claims) > 0 {
			c.count("kernels_enqueued_while_other_context_has_copies_pending", 1)
			break
		}
	}
}

// stridedKernel is kern.ElemKernel with a different address computation:
// element gid lives at byte (gid>>8)*2048 + (gid&255)*4 of the buffer, i.e. the
// kernel touches only the first KiB of every 2 KiB stripe. On the r9nano
// platform (16 L2/DRAM banks interleaved by 128 bytes) that is banks 0-7 only,
// which makes the banks answer at different speeds.
func stridedKernel(op kern.Op) *insts.KernelCodeObject {
	co := kern.ElemKernel(op)
	var out []byte
	done := false
	for i := 0; i+4 <= len(co.Data); i += 4 {
		w := binary.LittleEndian.Uint32(co.Data[i:])
		if w == 0x24000082 && !done { // v_lshlrev_b32 v0, 2, v0
			done = true
			for _, x := range []uint32{
				0x20060088,             // v_lshrrev_b32 v3, 8, v0
				0x260800FF, 0x000000FF, // v_and_b32 v4, 0xff, v0
				0x2406068B, // v_lshlrev_b32 v3, 11, v3
				0x24080882, // v_lshlrev_b32 v4, 2, v4
				0x28000903, // v_or_b32 v0, v3, v4
			} {
				out = binary.LittleEndian.AppendUint32(out, x)
			}
			continue
		}
		out = binary.LittleEndian.AppendUint32(out, w)
	}
	if !done {
		panic("harness: ElemKernel layout changed")
	}
	co.Data = out
	return co
}

func stridedOffset(gid int) int { return (gid>>8)*2048 + (gid&255)*4 }

// kernelStrided launches stridedKernel over nElem elements (multiple of 256)
// starting at arena offset off (2 KiB aligned).
func (th *thread) kernelStrided(m *ctxModel, off, nElem int, op kern.Op, cst uint32) {
	c := th.c
	span := nElem / 256 * 2048
	q := th.queueFor(m, off, span, false)
	o := opRec{Idx: len(m.ops), Kind: "kernel", Off: off, N: span, Q: q, Extra: fmt.Sprintf("strided %v(%d) gpu%d", op, cst, m.qGPU[q]), gpu: m.qGPU[q]}
	m.touch(c, m.qGPU[q], off, span)
	o.old = append([]byte(nil), m.shadow[off:off+span]...)
	for g := 0; g < nElem; g++ {
		i := off + stridedOffset(g)
		x := binary.LittleEndian.Uint32(m.shadow[i:])
		binary.LittleEndian.PutUint32(m.shadow[i:], op.Apply(x, cst))
	}
	m.ops = append(m.ops, o)
	m.lastWrite = len(m.ops) - 1
	args := kern.ElemArgs{Buf: m.ptr(off), C: cst}
	c.d.EnqueueLaunchKernel(m.queues[q], stridedKernel(op), [3]uint32{uint32(nElem), 1, 1}, [3]uint16{64, 1, 1}, &args)
	m.claims = append(m.claims, claim{q, off, span})
	m.busyQ[q] = true
	m.kernelLaunched = true
	c.count("kernels_launched|"+c.path, 1)
	c.count("strided_kernels_launched", 1)
}

// sweepKernel is kern.ElemKernel with a loop: work-item gid applies op to the
// elements gid, gid+n, gid+2n, ... (R passes over consecutive blocks of n
// elements; the byte stride n*4 comes from the Pad field of the argument
// block). Its effect equals one ElemKernel over R*n elements, but all
// work-groups are resident at once and each keeps issuing cache-missing loads,
// which loads the DRAM banks far more than the dispatch-bound single-pass
// kernel.
func sweepKernel(op kern.Op, passes int) *insts.KernelCodeObject {
	if passes < 1 || passes > 64 {
		panic("passes")
	}
	co := kern.ElemKernel(op)
	var ws []uint32
	for i := 0; i+4 <= len(co.Data); i += 4 {
		ws = append(ws, binary.LittleEndian.Uint32(co.Data[i:]))
	}
	// locate flat_load_dword v2, v[0:1] and s_endpgm
	ld, end := -1, -1
	for i, w := range ws {
		if w == 0xDC500000 && ld < 0 {
			ld = i
		}
		if w == 0xBF810000 {
			end = i
		}
	}
	if ld < 0 || end < 0 || ws[1] != 0x00000000 || ws[2] != 0xC0020180 {
		panic("harness: ElemKernel layout changed")
	}
	var out []uint32
	out = append(out, ws[:4]...)                 // the two scalar loads
	out = append(out, 0xC0020200, 0x0000000C)    // s_load_dword s8, s[0:1], 0xc   (stride in bytes)
	out = append(out, ws[4:ld]...)               // waitcnt, address computation
	out = append(out, 0xBE870080|uint32(passes)) // s_mov_b32 s7, passes
	body := append([]uint32{}, ws[ld:end]...)    // load, waitcnt, op, store
	body = append(body,
		0x32000008, // v_add_u32 v0, vcc, s8, v0
		0x38020280, // v_addc_u32 v1, vcc, 0, v1, vcc
		0x80878107, // s_sub_u32 s7, s7, 1
		0xBF078007, // s_cmp_lg_u32 s7, 0
	)
	out = append(out, body...)
	out = append(out, 0xBF850000|uint32(uint16(-(len(body)+1)))) // s_cbranch_scc1 loop
	out = append(out, 0xBF810000)                                // s_endpgm
	co.Data = nil
	for _, w := range out {
		co.Data = binary.LittleEndian.AppendUint32(co.Data, w)
	}
	return co
}

// kernelSweep launches sweepKernel: op over passes*nElem consecutive dwords
// starting at arena offset off (nElem a multiple of 64).
func (th *thread) kernelSweep(m *ctxModel, off, nElem, passes int, op kern.Op, cst uint32) {
	c := th.c
	n := 4 * nElem * passes
	q := th.queueFor(m, off, n, false)
	o := opRec{Idx: len(m.ops), Kind: "kernel", Off: off, N: n, Q: q, Extra: fmt.Sprintf("sweep x%d %v(%d) gpu%d", passes, op, cst, m.qGPU[q]), gpu: m.qGPU[q]}
	m.touch(c, m.qGPU[q], off, n)
	m.applyKernel(&o, op, cst)
	args := kern.ElemArgs{Buf: m.ptr(off), C: cst, Pad: uint32(4 * nElem)}
	c.d.EnqueueLaunchKernel(m.queues[q], sweepKernel(op, passes), [3]uint32{uint32(nElem), 1, 1}, [3]uint16{64, 1, 1}, &args)
	m.claims = append(m.claims, claim{q, off, n})
	m.busyQ[q] = true
	m.kernelLaunched = true
	c.count("kernels_launched|"+c.path, 1)
	c.count("sweep_kernels_launched", 1)
}

// d2dKernel launches the driver's own device-to-device copy kernel
// (Driver.EnqueueMemCopyD2D): dst[0:n] = src[0:n], n a multiple of 256 bytes.
// It is memory bound (reads n bytes, writes n bytes) and is used to keep the
// DRAM banks busy while copies of other queues run.
func (th *thread) d2dKernel(m *ctxModel, dstOff, srcOff, n int) {
	c := th.c
	m.mustBeLive(dstOff, n)
	m.mustBeLive(srcOff, n)
	q := th.queueFor(m, dstOff, n, false)
	if m.conflict(q, srcOff, n) {
		th.drainAll()
	}
	o := opRec{Idx: len(m.ops), Kind: "kernel", Off: dstOff, N: n, Q: q, Extra: fmt.Sprintf("d2d(from %d) gpu%d", srcOff, m.qGPU[q]), gpu: m.qGPU[q], src: srcOff + 1}
	m.touch(c, m.qGPU[q], srcOff, n)
	m.touch(c, m.qGPU[q], dstOff, n)
	m.applyWrite(&o, append([]byte(nil), m.shadow[srcOff:srcOff+n]...))
	c.d.EnqueueMemCopyD2D(m.queues[q], m.ptr(dstOff), m.ptr(srcOff), n)
	m.claims = append(m.claims, claim{q, dstOff, n}, claim{q, srcOff, n})
	m.busyQ[q] = true
	m.kernelLaunched = true
	c.count("kernels_launched|"+c.path, 1)
	c.count("d2d_kernels_launched", 1)
}

func (th *thread) drainAll() {
	c := th.c
	type qq struct {
		m *ctxModel
		q int
	}
	var qs []qq
	for _, m := range th.all() {
		for q := range m.busyQ {
			qs = append(qs, qq{m, q})
		}
	}
	sort.Slice(qs, func(i, j int) bool {
		if qs[i].m.id != qs[j].m.id {
			return qs[i].m.id < qs[j].m.id
		}
		return qs[i].q < qs[j].q
	})
	for _, i := range th.r.Perm(len(qs)) {
		c.drain(th.slot, qs[i].m.queues[qs[i].q])
	}
	for _, m := range th.all() {
		for _, pd := range m.pend {
			th.check(m, pd)
		}
		m.pend = nil
		m.claims = nil
		m.busyQ = map[int]bool{}
	}
}

// check compares a finished D2H with the shadow captured at issue time.
func (th *thread) check(m *ctxModel, pd *pendingRead) {
	c := th.c
	if m.broken {
		c.count("d2h_results_skipped_after_violation", 1)
		return
	}
	got := pd.bytesOf()
	c.count("d2h_results_compared", 1)
	c.count("d2h_bytes_compared", int64(len(got)))
	if pd.purpose == "d2h" || pd.purpose == "verify" {
		for _, w := range []*opRec{m.lastWriteBefore(pd.op.Idx)} {
			if w != nil && w.Kind == "kernel" && w.Off < pd.op.Off+pd.op.N && pd.op.Off < w.Off+w.N {
				c.count("d2h_overlapping_last_kernel_write", 1)
			}
		}
	}
	m.noteReadOfRehomed(c, pd)
	if bytes.Equal(got, pd.want) {
		g := m.good[pd.op.Off : pd.op.Off+pd.op.N]
		for j := range g {
			g[j] = int32(pd.op.Idx)
		}
		return
	}
	if m.segmented {
		c.auditFrames("a mismatching D2H")
	}
	i := 0
	for i < len(got) && got[i] == pd.want[i] {
		i++
	}
	nDiff := 0
	for j := range got {
		if got[j] != pd.want[j] {
			nDiff++
		}
	}
	o := pd.op.Off + i
	w := m.lastWriterOf(o, pd.op.Idx)
	lw := m.lastWriteBefore(pd.op.Idx)
	symptom, culprit := "bytes-differ", ""
	stale := false
	if w != nil {
		stale = got[i] == w.old[o-w.Off]
		culprit = w.Class
	}
	switch {
	case got[i] == 0xEE && nDiff > 0 && allEE(got, pd.want):
		symptom = "d2h-destination-not-filled"
		culprit = pd.op.Class
	case w != nil && int(m.good[o]) > w.Idx:
		// the byte was read back correctly after its last legitimate write
		// and differs now: something wrote outside its range
		symptom = "byte-outside-written-ranges-changed"
		culprit = "unknown"
		for k := min(pd.op.Idx, len(m.ops)) - 1; k > int(m.good[o]); k-- {
			if x := m.ops[k]; x.Kind == "h2d" || x.Kind == "kernel" {
				culprit = x.Kind + ":" + x.Class
				lw = &m.ops[k]
				break
			}
		}
	case w != nil && w.Kind == "kernel":
		symptom = "kernel-write-not-observed"
		if !stale {
			symptom = "wrong-bytes-in-kernel-written-range"
		}
		if m.kernelWritesSinceRehomingMissing(o, pd.op.Idx, got[i]) {
			symptom = "kernel-writes-since-rehoming-not-observed"
		}
		culprit = "kernel"
	case w != nil && w.Kind == "h2d":
		symptom = "h2d-bytes-not-read-back"
		if stale {
			symptom = "h2d-bytes-lost"
		}
	}
	if c.path == "dma" {
		missed := m.flushWouldBeMissed(pd.op.Off, pd.op.N)
		for k := 0; k < min(pd.op.Idx, len(m.ops)) && !missed; k++ {
			if h := m.ops[k]; h.Kind == "h2d" && o >= h.Off && o < h.Off+h.N && m.flushWouldBeMissed(h.Off, h.N) {
				missed = true
			}
		}
		if missed {
			symptom = "stale-cache-vs-copy"
			culprit = "memRangeOverlap-misses-strict-containment"
		}
	}
	// Reader or device? Re-read the first differing byte with a one-byte
	// blocking copy (no chunking, nothing to split): if that agrees with the
	// shadow, the device holds the right byte and the D2H under judgement
	// returned wrong data.
	probe := "not-probed"
	if !m.conflict(noForce, o, 1) && symptom != "stale-cache-vs-copy" {
		one := make([]byte, 1)
		th.blockingCall("d2h", func() { c.d.MemCopyD2H(m.ctx, one, m.ptr(o)) })
		if c.path == "dma" {
			c.mu.Lock()
			c.issued = append(c.issued, &issuedCopy{Desc: "probe", Chunks: m.chunks(o, 1)})
			c.mu.Unlock()
		}
		if one[0] == pd.want[i] {
			probe = "device-byte-correct"
			if w != nil && w.Kind == "kernel" && stale {
				// the copy read memory before the kernel's data was written back
				symptom = "kernel-write-not-observed"
				culprit = "read-overtook-write-back"
			} else {
				symptom = "d2h-returned-wrong-bytes"
				culprit = pd.op.Class
			}
		} else {
			probe = fmt.Sprintf("device-byte-0x%02x", one[0])
		}
	}
	m.broken = true
	if w != nil && w.Kind == "h2d" && m.holdsBytesOfFreedBuffer(o, got[i]) && probe != "device-byte-correct" {
		// the H2D's bytes were replaced by what the freed previous owner of the frame held
		symptom, culprit = "h2d-overwritten-by-bytes-of-freed-buffer", "reused-frame"
		if c.path == "dma" {
			symptom = "h2d-overwritten-by-stale-l2-lines-of-freed-buffer"
		}
	}
	key := fmt.Sprintf("C11|%s|%s|%s", c.path, symptom, strings.Split(culprit, "/")[0]) + m.rehomeTag(o, w, pd.op.Idx) + m.reuseTag(o)
	if c.buddy {
		key += "|buddy-allocator"
	}
	var wstr, lwstr string
	if w != nil {
		wstr = w.String()
	}
	if lw != nil {
		lwstr = lw.String()
	}
	c.violation(key,
		fmt.Sprintf("%s of ctx%d arena [%d,+%d) as %s: byte %d (arena offset %d, page %d of the arena, device %d) is 0x%02x, shadow says 0x%02x; %d of %d bytes differ; last writer of that byte: %s; most recent write: %s",
			pd.purpose, m.id, pd.op.Off, pd.op.N, pd.op.Type, i, o, o/pageSize, m.pageDv[o/pageSize], got[i], pd.want[i], nDiff, len(got), wstr, lwstr),
		map[string]any{"reader": pd.op.String(), "first_diff_arena_offset": o, "one_byte_probe": probe, "got_equals_value_before_last_write": stale,
			"previous_owner_of_that_frame": m.frameFrom[o/pageSize].String(), "layout": m.bufs, "page_paddr": hexes(m.pagePA), "recent_ops": m.tailOps(25), "queue_gpus": m.qGPU, "rehoming_history_of_that_page": m.rehomeHistory(o / pageSize)})
}

func allEE(got, want []byte) bool {
	for j := range got {
		if got[j] != want[j] && got[j] != 0xEE {
			return false
		}
	}
	return true
}

func hexes(v []uint64) []string {
	out := make([]string, len(v))
	for i, x := range v {
		out[i] = fmt.Sprintf("0x%x", x)
	}
	return out
}

// verify reads back [lo,hi) of the arena in one of three chunkings.
func (th *thread) verify(m *ctxModel, lo, hi int, style int, after int) {
	types := []elemType{typeByName("[]byte"), typeByName("[]uint32"), typeByName("[]uint64"), typeByName("[]uint16")}
	t := types[th.r.Intn(len(types))]
	if (hi-lo)%t.Unit != 0 {
		t = types[0]
	}
	blocking := th.r.Chance(1, 3)
	switch style {
	case 0: // one copy
		th.d2h(m, lo, hi-lo, t, blocking, "verify", after)
	case 1: // page by page (each copy inside one page: the simplest path)
		for o := lo; o < hi; {
			e := min(hi, (o/pageSize+1)*pageSize)
			tt := t
			if (e-o)%tt.Unit != 0 {
				tt = types[0]
			}
			th.d2h(m, o, e-o, tt, blocking, "verify", after)
			o = e
		}
	default: // buffer by buffer (page extents)
		for _, b := range m.bufs {
			s, e := max(lo, b.Off), min(hi, b.end())
			if s < e {
				tt := t
				if (e-s)%tt.Unit != 0 {
					tt = types[0]
				}
				th.d2h(m, s, e-s, tt, blocking, "verify", after)
			}
		}
	}
}

func (th *thread) neighbourhood(m *ctxModel, off, n int) (int, int) {
	bi, bj := m.bufAt(off), m.bufAt(off+n-1)
	lo, hi := m.bufs[max(0, bi-1)].Off, m.bufs[min(len(m.bufs)-1, bj+1)].end()
	return lo, hi
}

func (th *thread) initArena(m *ctxModel) {
	// fill every page of the arena through H2D copies with random cut points
	S := len(m.shadow)
	bt := typeByName("[]byte")
	for o := 0; o < S; {
		n := []int{pageSize, 2 * pageSize, 3*pageSize + 17, 5 * pageSize, 1000, 64, S}[th.r.Intn(7)]
		n = min(n, S-o)
		th.h2d(m, o, n, bt, th.r.Chance(1, 4), "init")
		o += n
	}
	th.drainAll()
	th.verify(m, 0, S, th.r.Intn(3), -1)
	th.drainAll()
}

// kernelRange picks a 4-byte aligned range of a multiple of 64 dwords.
func (th *thread) kernelRange(m *ctxModel) (int, int) {
	S := len(m.shadow)
	maxE := 1024
	if th.c.path == "dma" {
		maxE = 512
	}
	if th.c.path == "dma" {
		// inside the requested extent of one buffer (or of adjacent full ones)
		for try := 0; try < 40; try++ {
			nE := 64 * (1 + th.r.Intn(maxE/64))
			b := m.bufs[th.r.Intn(len(m.bufs))]
			if b.Size < 256 {
				continue
			}
			off := b.Off + 4*th.r.Intn(b.Size/4)
			if th.r.Bool() {
				off = b.Off
			}
			if off+4*nE > S {
				continue
			}
			if !m.classify(off, 4*nE).Slack {
				return off, nE
			}
			if n2 := (b.Off + b.Size - off) / 256 * 64; n2 >= 64 {
				return off, n2
			}
		}
		return -1, 0
	}
	for try := 0; try < 20; try++ {
		nE := 64 * (1 + th.r.Intn(maxE/64))
		if 4*nE > S {
			continue
		}
		var off int
		switch th.r.Intn(4) {
		case 0: // a buffer start
			off = m.bufs[th.r.Intn(len(m.bufs))].Off
		case 1: // dword aligned, not line aligned
			off = 4 * th.r.Intn((S-4*nE)/4+1)
		case 2: // ends at a page boundary
			pg := 1 + th.r.Intn(S/pageSize)
			off = pg*pageSize - 4*nE
		default:
			off = 64 * th.r.Intn((S-4*nE)/64+1)
		}
		if off >= 0 && off+4*nE <= S {
			return off, nE
		}
	}
	return 0, 64
}

// step executes one generated operation.
// concurrentMotif (DMA path): a kernel on one queue and, without draining it,
// two to four copies of more than one page on other queues (preferably of
// another context), none of them touching the kernel's range: the copies'
// per-page pieces are in the DMA engine while the kernel's L2 traffic keeps
// the DRAM banks busy.
func (th *thread) concurrentMotif() {
	c := th.c
	r := th.r
	th.drainAll()
	mk := th.ms[r.Intn(len(th.ms))]
	mc := th.ms[r.Intn(len(th.ms))]
	koff, kn := -1, 0
	for try := 0; try < 6; try++ {
		if o, n := th.kernelRange(mk); o >= 0 && n > kn {
			koff, kn = o, n
		}
	}
	if koff < 0 {
		return
	}
	th.kernel(mk, koff, kn, kern.Op(r.Intn(3)), 1+2*uint32(r.Intn(1000)), false)
	types := []elemType{typeByName("[]byte"), typeByName("[]uint32"), typeByName("[]uint64"), typeByName("[]float32"), typeByName("[]S22")}
	issued := 0
	for i, want := 0, 2+r.Intn(3); i < want; i++ {
		t := types[r.Intn(len(types))]
		for try := 0; try < 40; try++ {
			o, n := mc.pickRange(r, t, 8*pageSize, true)
			if o < 0 || n <= pageSize {
				continue
			}
			if mc == mk && o < koff+4*kn && koff < o+n {
				continue
			}
			if r.Chance(2, 5) {
				th.h2d(mc, o, n, t, false, "h2d")
			} else {
				th.d2h(mc, o, n, t, false, "d2h", -1)
			}
			th.nOps++
			issued++
			break
		}
	}
	c.count("multi_page_copies_issued_next_to_an_undrained_kernel", int64(issued))
	if mc != mk {
		c.count("multi_page_copies_issued_next_to_a_kernel_of_another_context", int64(issued))
	}
	th.drainAll()
}

func (th *thread) step() {
	c := th.c
	r := th.r
	if c.path == "dma" && r.Chance(1, 7) {
		th.concurrentMotif()
		return
	}
	if rehomeEnabled(c.path) && r.Chance(1, rehomeEvery[c.path]) {
		th.rehomeStep()
		return
	}
	if r.Chance(1, freeAllocEvery[c.path]) {
		th.freeAllocStep()
		return
	}
	m := th.ms[r.Intn(len(th.ms))]
	maxLen := 5 * pageSize
	if c.path != "emu" {
		maxLen = 3 * pageSize
	}
	kernelW := 12
	if c.path == "tmagic" {
		kernelW = 0
	}
	verifyEvery := 1
	if c.path != "emu" {
		verifyEvery = 3
	}
	dice := r.Intn(100)
	hW, dW := 45, 35
	if c.path == "dma" {
		hW, dW, kernelW = 35, 30, 25
	}
	switch {
	case dice < hW: // H2D
		t := elemTypes[r.Intn(len(elemTypes))]
		off, n := m.pickRange(r, t, maxLen, c.path == "dma")
		if off < 0 {
			return
		}
		th.h2d(m, off, n, t, r.Chance(1, 4), "h2d")
		th.nOps++
		idx := len(m.ops) - 1
		if th.nOps%verifyEvery == 0 {
			lo, hi := th.neighbourhood(m, off, n)
			th.verify(m, lo, hi, r.Intn(3), idx)
			if r.Chance(1, 2) {
				th.drainAll()
			}
		}
	case dice < hW+dW: // D2H
		t := elemTypes[r.Intn(len(elemTypes))]
		off, n := m.pickRange(r, t, maxLen, c.path == "dma")
		if off < 0 {
			return
		}
		th.d2h(m, off, n, t, r.Chance(1, 4), "d2h", -1)
		th.nOps++
	case dice < hW+dW+kernelW:
		off, nE := th.kernelRange(m)
		if off < 0 {
			return
		}
		th.kernel(m, off, nE, kern.Op(r.Intn(3)), 1+2*uint32(r.Intn(1000)), false)
		// an H2D into the kernel's (dirty) range right behind it, then a D2H
		// of the surrounding bytes: the copy must neither be undone by a
		// later write-back nor hide the kernel's other results
		if r.Chance(1, 3) {
			bt := typeByName("[]byte")
			s := off + r.Intn(4*nE)
			n := 1 + r.Intn(min(300, off+4*nE-s))
			if r.Chance(1, 2) {
				th.drainAll()
			}
			th.h2d(m, s, n, bt, r.Chance(1, 4), "h2d")
			th.nOps++
			if r.Chance(1, 2) {
				cst := 1 + 2*uint32(r.Intn(1000))
				th.kernel(m, off, nE, kern.Op(r.Intn(3)), cst, false)
			}
			th.d2h(m, off, 4*nE, bt, r.Chance(1, 4), "d2h", -1)
			th.nOps++
		} else if r.Chance(2, 3) {
			t := []elemType{typeByName("[]uint32"), typeByName("[]byte"), typeByName("[]float32"), typeByName("[]uint64")}[r.Intn(4)]
			s := off + 4*r.Intn(nE)
			e := s + 4 + r.Intn(4*nE-(s-off)-3)
			n := (e - s) / t.Unit * t.Unit
			if n >= t.Unit {
				if r.Chance(1, 3) {
					th.drainAll()
				}
				th.d2h(m, s, n, t, r.Chance(1, 3), "d2h", -1)
				th.nOps++
			}
		}
	default:
		th.drainAll()
	}
	nclaims := 0
	for _, mm := range th.all() {
		nclaims += len(mm.claims)
	}
	if nclaims > 6 {
		th.drainAll()
	}
}

// ---------------------------------------------------------------------------
// scenarios

// quiesce waits until the engine goroutine has handled every event and left
// Engine.Run (a logical condition: the driver logs a command's completion
// after it has dequeued it, i.e. after a drainer may already have returned).
func (c *child) quiesce() bool {
	for i := 0; i < 200000; i++ {
		running, kicked := c.d.VerifEngineState()
		if !running && !kicked {
			return true
		}
		if i < 100 {
			runtime.Gosched()
		} else {
			time.Sleep(100 * time.Microsecond)
		}
	}
	return false
}

func (c *child) analyse() {
	if c.cm == nil {
		return
	}
	if !c.quiesce() {
		c.rec.Inconclusive("engine did not go idle after all queues were drained; completion trace not analysed")
		return
	}
	c.mu.Lock()
	iss := c.issued
	c.issued = nil
	scen := c.scen
	c.mu.Unlock()
	c.cm.analyse(iss, scen)
}

func (c *child) runScenario(si int, r *vlib.PRNG, budget int) int {
	c.mu.Lock()
	c.scen = fmt.Sprintf("%s-b%d-s%d", c.cfg.Kind, c.cfg.Idx, si)
	c.mu.Unlock()
	nth := 1
	if r.Chance(1, 3) {
		nth = 2
	}
	var ths []*thread
	for t := 0; t < nth; t++ {
		th := &thread{c: c, slot: t, r: r.ForkN("thread", t), fq: noForce}
		nctx := 1 + th.r.Intn(2)
		for k := 0; k < nctx; k++ {
			th.ms = append(th.ms, c.buildCtx(c.genLayout(th.r), th.r, nil))
		}
		ths = append(ths, th)
	}
	if !c.sampled {
		c.sampled = true
		c.rec.Sample(map[string]any{"scenario": c.scen, "platform": c.p.Cfg, "threads": nth, "ctx0_layout": ths[0].ms[0].bufs})
	}
	per := budget / nth
	if c.path == "emu" {
		per = min(per, 30+r.Intn(40))
	} else {
		per = min(per, 6+r.Intn(8))
	}
	per = max(per, 1)
	var wg sync.WaitGroup
	c.active.Store(int64(nth))
	for _, th := range ths {
		wg.Add(1)
		go func(th *thread) {
			defer wg.Done()
			defer c.active.Add(-1)
			for _, m := range th.ms {
				th.initArena(m)
			}
			for th.nOps < per {
				th.step()
			}
			th.drainAll()
			// final sweep: every byte of every arena of this thread
			for _, m := range th.ms {
				th.verify(m, 0, len(m.shadow), th.r.Intn(3), -1)
			}
			th.drainAll()
		}(th)
	}
	wg.Wait()
	c.analyse()
	total := 0
	for _, th := range ths {
		total += th.nOps
		for _, m := range th.ms {
			for i := range m.ops {
				m.ops[i].old = nil
			}
			c.distinct("layout_kinds", fmt.Sprint(kindsOf(m)))
		}
	}
	c.count("scenarios|"+c.path, 1)
	c.flush()
	return total
}

func kindsOf(m *ctxModel) []string {
	var k []string
	for _, b := range m.bufs {
		k = append(k, b.Kind)
	}
	sort.Strings(k)
	return uniq(k)
}

func childMain() {
	a := os.Args[1:] // child seed idx kind ngpu ops
	var cfg childCfg
	cfg.Seed, _ = strconv.ParseInt(a[1], 10, 64)
	cfg.Idx, _ = strconv.Atoi(a[2])
	cfg.Kind = a[3]
	cfg.NGPU, _ = strconv.Atoi(a[4])
	cfg.Ops, _ = strconv.Atoi(a[5])

	rec := vlib.ChildRec()
	if cfg.Kind == "small" {
		smallMain(cfg, rec) // bare driver with small devices (smalldram.go); does not return
	}
	c := &child{cfg: cfg, rec: rec, ym: &yieldMon{}, waitingQ: map[int]*driver.CommandQueue{}, blockingOp: map[int]string{},
		cnt: map[string]int64{}, dist: map[string]map[string]bool{}, nontriv: map[string]bool{}}
	driver.VerifSetYieldHook(c.ym.hook)
	sim.GetIDGenerator()

	pc := plat.Config{NumGPUs: cfg.NGPU}
	c.frames = map[uint64]*frameInfo{}
	if strings.HasSuffix(cfg.Kind, "-buddy") {
		c.buddy = true
		driver.VerifUseBuddyAllocator(true) // before the platform registers its devices
	}
	switch kindPath(cfg.Kind) {
	case "emu":
		c.path = "emu"
	case "tmagic":
		c.path = "tmagic"
		pc.Timing, pc.MagicCopy = true, true
	default:
		c.path = "dma"
		pc.Timing = true
	}
	c.p = plat.Build(pc)
	c.d = c.p.Driver
	if c.path == "dma" {
		c.cm = attachCopyMon(c.p, c.violation)
		if len(c.cm.dmas) != cfg.NGPU {
			rec.Inconclusive(fmt.Sprintf("found %d DMA engines for %d GPUs", len(c.cm.dmas), cfg.NGPU))
		}
	}
	c.d.Run()
	stop := make(chan struct{})
	go c.watch(stop)

	rng := vlib.NewPRNG(uint64(cfg.Seed)).ForkN("c11-batch", cfg.Idx)
	if strings.HasPrefix(cfg.Kind, "canon-") {
		c.scen = cfg.Kind
		c.canonical(cfg.Kind)
	} else if strings.Contains(cfg.Kind, "-fa") {
		c.faScenario(rng.Fork("fa"), cfg.Ops)
	} else {
		done := 0
		for si := 0; done < cfg.Ops; si++ {
			done += c.runScenario(si, rng.ForkN("scenario", si), cfg.Ops-done)
		}
	}
	if debugTrace {
		fmt.Println("DMA sub-request latency histogram (10 ns bins):", latHist)
	}
	close(stop)
	c.flush()
	rec.Note("done", true)
	os.Exit(0) // no teardown (DESIGN §7)
}
