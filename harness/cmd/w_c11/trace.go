package main

import (
	"bytes"
	"fmt"
	"os"
	"reflect"
	"sort"
	"strings"
	"sync"

	"github.com/sarchlab/akita/v4/mem/mem"
	"github.com/sarchlab/akita/v4/sim"
	"github.com/sarchlab/akita/v4/tracing"
	"github.com/sarchlab/mgpusim/v4/amd/protocol"
	"github.com/sarchlab/mgpusim/v4/amd/timing/cp"

	"verifharness/vlib/plat"
	"verifharness/vlib/simkit"
)

// ---------------------------------------------------------------------------
// Completion monitor of the DMA copy path (timing platform, magic copy off).
//
// Observation points (public boundaries only):
//   - port hooks (simkit.Log) on the driver's GPU port and on both ports of
//     every GPU's DMA engine (ToCP, ToMem);
//   - a tracing.Tracer on the driver (command start/end, request initiation).
//
// The DMA engine part is checked online (inside the hook), so that a verdict
// exists even if the engine crashes right afterwards; the driver part is
// checked offline at the quiescent end of every scenario.

type violFn func(key, what string, wit map[string]any)

type dmaSub struct {
	id   string
	addr uint64
	n    uint64
	data []byte
	done bool
	cp   *dmaCopy

	sendSeq int
	sendNs  int
}

type dmaCopy struct {
	gpu      int
	id       string
	h2d      bool
	addr     uint64
	n        uint64
	req      sim.Msg
	recvSeq  int
	rspSeq   int
	firstSub int // port-event index of the first memory sub-request (-1: none)
	subs     []*dmaSub
	answered int
	linked   bool
}

type dmaMon struct {
	gpu    int
	open   map[string]*dmaCopy
	closed map[string]*dmaCopy
	subs   map[string]*dmaSub
	late   map[string]bool // sub-requests of copies that were already answered
	order  []*dmaSub       // sub-requests in issue order; head = oldest possibly unanswered
	head   int
	done   []*dmaCopy // answered copies, in answer order (consumed by the driver-level check)
}

type taskEv struct {
	afterPortSeq int // number of port events recorded before this task event
	start        bool
	task         tracing.Task
}

type copyMon struct {
	mu    sync.Mutex
	log   *simkit.Log
	dmas  map[int]*dmaMon
	tasks []taskEv
	nPort int
	viol  violFn

	// counters (drained by the child at scenario end)
	cnt map[string]int64

	flushDone map[sim.Msg]int // FlushReq -> port-event index at which the CP sent its answer

	portFrom, taskFrom int // analysed prefix
}

func gpuOfName(name string) int {
	i := strings.Index(name, "GPU[")
	if i < 0 {
		return 0
	}
	var g int
	fmt.Sscanf(name[i:], "GPU[%d]", &g)
	return g
}

func attachCopyMon(p *plat.Platform, viol violFn) *copyMon {
	m := &copyMon{dmas: map[int]*dmaMon{}, viol: viol, cnt: map[string]int64{}, flushDone: map[sim.Msg]int{}}
	m.log = simkit.NewLog(p.Engine, 1*sim.GHz)
	m.log.OnEvent = m.onPort
	m.log.Attach(p.Driver.GetPortByName("GPU"), "drv")
	for _, c := range p.Sim.Components() {
		d, ok := c.(*cp.DMAEngine)
		if !ok {
			continue
		}
		g := gpuOfName(d.Name())
		m.dmas[g] = &dmaMon{gpu: g, open: map[string]*dmaCopy{}, closed: map[string]*dmaCopy{}, subs: map[string]*dmaSub{}, late: map[string]bool{}}
		m.log.Attach(d.ToCP, fmt.Sprintf("dmaCP/%d", g))
		m.log.Attach(d.ToMem, fmt.Sprintf("dmaMem/%d", g))
	}
	for _, c := range p.Sim.Components() {
		if cpc, ok := c.(*cp.CommandProcessor); ok {
			m.log.Attach(cpc.ToDriver, fmt.Sprintf("cpDrv/%d", gpuOfName(cpc.Name())))
		}
	}
	tracing.CollectTrace(p.Driver, &drvTracer{m: m})
	return m
}

type drvTracer struct{ m *copyMon }

func (t *drvTracer) StartTask(task tracing.Task) {
	t.m.mu.Lock()
	t.m.tasks = append(t.m.tasks, taskEv{afterPortSeq: t.m.nPort, start: true, task: task})
	t.m.mu.Unlock()
}
func (t *drvTracer) StepTask(tracing.Task)          {}
func (t *drvTracer) AddMilestone(tracing.Milestone) {}
func (t *drvTracer) EndTask(task tracing.Task) {
	t.m.mu.Lock()
	t.m.tasks = append(t.m.tasks, taskEv{afterPortSeq: t.m.nPort, task: task})
	t.m.mu.Unlock()
}

func (m *copyMon) count(k string, n int64) { m.cnt[k] += n }

// onPort is the online part: DMA engine protocol.
func (m *copyMon) onPort(e simkit.Event) {
	m.mu.Lock()
	defer m.mu.Unlock()
	m.nPort = e.Seq + 1
	if !strings.HasPrefix(e.Port, "dma") {
		if strings.HasPrefix(e.Port, "cpDrv/") && e.Kind == simkit.KSend {
			if g, ok := e.Msg.(*sim.GeneralRsp); ok {
				if f, ok := g.OriginalReq.(*protocol.FlushReq); ok {
					if debugTrace {
						fmt.Printf("FLUSH done t=%.0f %s\n", float64(e.Time)*1e9, e.Port)
					}
					if _, dup := m.flushDone[f]; dup {
						m.viol("C11|cp|flush-answered-twice", "a command processor answered one flush request twice", map[string]any{"port": e.Port})
					}
					m.flushDone[f] = e.Seq
				}
			}
		}
		if e.Port == "drv" && e.Kind == simkit.KSend {
			if _, ok := e.Msg.(*protocol.FlushReq); ok {
				m.count("flush_requests_sent", 1)
				if debugTrace {
					fmt.Printf("FLUSH sent t=%.0f\n", float64(e.Time)*1e9)
				}
			}
		}
		return
	}
	var g int
	var side string
	if strings.HasPrefix(e.Port, "dmaCP/") {
		side = "cp"
		fmt.Sscanf(e.Port, "dmaCP/%d", &g)
	} else {
		side = "mem"
		fmt.Sscanf(e.Port, "dmaMem/%d", &g)
	}
	d := m.dmas[g]
	wit := func(extra map[string]any) map[string]any {
		w := map[string]any{"gpu": g, "port_event_seq": e.Seq, "time_s": float64(e.Time)}
		for k, v := range extra {
			w[k] = v
		}
		return w
	}
	switch {
	case side == "cp" && e.Kind == simkit.KRecv:
		c := &dmaCopy{gpu: g, id: e.Msg.Meta().ID, req: e.Msg, recvSeq: e.Seq}
		switch r := e.Msg.(type) {
		case *protocol.MemCopyH2DReq:
			c.h2d, c.addr, c.n = true, r.DstAddress, uint64(len(r.SrcBuffer))
		case *protocol.MemCopyD2HReq:
			c.addr, c.n = r.SrcAddress, uint64(len(r.DstBuffer))
		default:
			return
		}
		if d.open[c.id] != nil || d.closed[c.id] != nil {
			m.viol("C11|dma|copy-request-delivered-twice", "the DMA engine received the same copy request twice", wit(nil))
			return
		}
		d.open[c.id] = c
		m.count("dma_copy_requests", 1)
	case side == "mem" && e.Kind == simkit.KSend:
		var a, n uint64
		var h2d bool
		var data []byte
		switch r := e.Msg.(type) {
		case *mem.WriteReq:
			a, n, h2d, data = r.Address, uint64(len(r.Data)), true, r.Data
			if r.DirtyMask != nil {
				for _, b := range r.DirtyMask {
					if !b {
						m.viol("C11|dma|write-with-partial-mask", "DMA write sub-request masks out bytes of the copy", wit(map[string]any{"addr": a}))
						break
					}
				}
			}
		case *mem.ReadReq:
			a, n = r.Address, r.AccessByteSize
		default:
			return
		}
		var owner *dmaCopy
		nOwners := 0
		for _, c := range d.open {
			if c.h2d == h2d && a >= c.addr && a+n <= c.addr+c.n {
				owner = c
				nOwners++
			}
		}
		if nOwners == 0 {
			m.viol("C11|dma|sub-request-outside-every-copy", fmt.Sprintf("DMA engine of GPU %d issued a memory %s of [0x%x,+%d) that lies in no outstanding copy's range", g, map[bool]string{true: "write", false: "read"}[h2d], a, n),
				wit(map[string]any{"addr": a, "len": n, "open": describeOpen(d)}))
			return
		}
		if nOwners > 1 {
			m.count("harness_overlapping_outstanding_copies", 1)
			return
		}
		if n == 0 || a/64 != (a+n-1)/64 {
			m.viol("C11|dma|sub-request-crosses-line", fmt.Sprintf("DMA sub-request [0x%x,+%d) is empty or crosses a 64-byte line", a, n), wit(map[string]any{"addr": a, "len": n}))
		}
		if h2d {
			src := owner.req.(*protocol.MemCopyH2DReq).SrcBuffer
			off := a - owner.addr
			if !bytes.Equal(data, src[off:off+n]) {
				m.viol("C11|dma|write-data-not-source-slice", fmt.Sprintf("DMA write of [0x%x,+%d) does not carry bytes [%d,%d) of the copy's source", a, n, off, off+n), wit(map[string]any{"addr": a, "len": n}))
			}
		}
		s := &dmaSub{id: e.Msg.Meta().ID, addr: a, n: n, cp: owner, sendSeq: e.Seq, sendNs: int(float64(e.Time)*1e9 + 0.5)}
		if len(owner.subs) == 0 {
			owner.firstSub = e.Seq
		}
		owner.subs = append(owner.subs, s)
		d.order = append(d.order, s)
		d.subs[s.id] = s
		m.count("dma_sub_requests", 1)
	case side == "mem" && e.Kind == simkit.KRetrieve: // the engine took the memory response from its port
		var to string
		var data []byte
		switch r := e.Msg.(type) {
		case *mem.WriteDoneRsp:
			to = r.RespondTo
		case *mem.DataReadyRsp:
			to, data = r.RespondTo, r.Data
		default:
			return
		}
		s := d.subs[to]
		if s == nil && d.late[to] {
			m.count("dma_late_responses_of_answered_copies", 1)
			return
		}
		if s == nil {
			m.viol("C11|dma|memory-response-to-unknown-sub-request", "a memory response arrived at the DMA engine for a request it never issued", wit(nil))
			return
		}
		if s.done {
			m.viol("C11|dma|sub-request-answered-twice", "a DMA sub-request got two memory responses", wit(map[string]any{"addr": s.addr}))
			return
		}
		// out of issue order: an earlier-issued sub-request is still unanswered
		for d.head < len(d.order) && d.order[d.head].done {
			d.order[d.head] = nil
			d.head++
		}
		if d.head < len(d.order) && d.order[d.head] != s {
			m.count("dma_responses_out_of_issue_order", 1)
			if debugTrace {
				fmt.Printf("OOO t=%.0f gpu%d sub@0x%x (copy 0x%x) before 0x%x (copy 0x%x)\n", float64(e.Time)*1e9, g, s.addr, s.cp.addr, d.order[d.head].addr, d.order[d.head].cp.addr)
			}
			if d.order[d.head].cp != s.cp {
				m.count("dma_responses_out_of_issue_order_across_copy_requests", 1)
			}
		}
		if d.head > 4096 && d.head*2 > len(d.order) {
			d.order = append([]*dmaSub(nil), d.order[d.head:]...)
			d.head = 0
		}
		if debugTrace {
			lat := int(float64(e.Time)*1e9+0.5) - s.sendNs
			latHist[min(lat/10, 49)]++
		}
		s.done = true
		s.data = append([]byte(nil), data...)
		m.count("dma_sub_responses", 1)
	case side == "cp" && e.Kind == simkit.KSend:
		rsp, ok := e.Msg.(*sim.GeneralRsp)
		if !ok {
			return
		}
		id := rsp.OriginalReq.Meta().ID
		c := d.open[id]
		if c == nil {
			if d.closed[id] != nil {
				m.viol("C11|dma|copy-answered-twice", "the DMA engine sent a second completion for one copy request", wit(map[string]any{"addr": d.closed[id].addr, "len": d.closed[id].n}))
			} else {
				m.viol("C11|dma|completion-for-unknown-copy", "the DMA engine sent a completion for a request it never received", wit(nil))
			}
			return
		}
		dir := map[bool]string{true: "h2d", false: "d2h"}[c.h2d]
		pendingN := 0
		for _, s := range c.subs {
			if !s.done {
				pendingN++
			}
		}
		if pendingN > 0 {
			m.viol("C11|dma|responds-before-last-sub-transaction|"+dir,
				fmt.Sprintf("DMA engine of GPU %d answered a %s copy of [0x%x,+%d) while %d of its %d memory transactions had not been answered", g, dir, c.addr, c.n, pendingN, len(c.subs)),
				wit(map[string]any{"addr": c.addr, "len": c.n}))
		}
		// union of the sub-request ranges == the copy's range, exactly
		ss := append([]*dmaSub(nil), c.subs...)
		sort.Slice(ss, func(i, j int) bool { return ss[i].addr < ss[j].addr })
		pos := c.addr
		bad := ""
		for _, s := range ss {
			if s.addr > pos {
				bad = fmt.Sprintf("gap [0x%x,0x%x)", pos, s.addr)
				break
			}
			if s.addr < pos {
				bad = fmt.Sprintf("overlap at 0x%x", s.addr)
				break
			}
			pos += s.n
		}
		if bad == "" && pos != c.addr+c.n {
			bad = fmt.Sprintf("covered up to 0x%x, copy ends at 0x%x", pos, c.addr+c.n)
		}
		if bad != "" {
			m.viol("C11|dma|sub-requests-do-not-tile-the-copy-range|"+dir,
				fmt.Sprintf("DMA %s copy of [0x%x,+%d): %s", dir, c.addr, c.n, bad), wit(map[string]any{"addr": c.addr, "len": c.n, "subs": len(ss)}))
		} else if !c.h2d && pendingN == 0 {
			dst := c.req.(*protocol.MemCopyD2HReq).DstBuffer
			for _, s := range ss {
				off := s.addr - c.addr
				if !bytes.Equal(dst[off:off+s.n], s.data) {
					m.viol("C11|dma|d2h-buffer-differs-from-memory-responses", fmt.Sprintf("D2H copy of [0x%x,+%d): destination bytes at offset %d differ from the data returned by memory", c.addr, c.n, off), wit(map[string]any{"addr": c.addr}))
					break
				}
			}
		}
		c.answered++
		c.rspSeq = e.Seq
		delete(d.open, id)
		d.closed[id] = c
		d.done = append(d.done, c)
		for _, s := range c.subs {
			delete(d.subs, s.id)
			if !s.done {
				d.late[s.id] = true
			}
			s.data = nil
		}
		m.count("dma_copies_completed", 1)
		m.count("dma_sub_requests_checked", int64(len(c.subs)))
	}
}

func describeOpen(d *dmaMon) []string {
	var out []string
	for _, c := range d.open {
		out = append(out, fmt.Sprintf("%s[0x%x,+%d)", map[bool]string{true: "h2d", false: "d2h"}[c.h2d], c.addr, c.n))
	}
	sort.Strings(out)
	return out
}

// ---------------------------------------------------------------------------
// offline driver-level check at a quiescent point

type drvReq struct {
	msg     sim.Msg
	kind    string // h2d, d2h, flush
	addr    uint64
	n       uint64
	gpu     int
	sent    []int
	rsps    []int
	initSeq int
}

type drvCmd struct {
	id     string
	what   string
	starts int
	ends   int
	endSeq int // afterPortSeq of the end event
	reqs   []*drvReq
}

// expected chunk of a copy (computed by the harness from the page table)
type chunk struct {
	PAddr uint64 `json:"paddr"`
	N     uint64 `json:"n"`
	GPU   int    `json:"gpu"`
}

type issuedCopy struct {
	Desc   string
	H2D    bool
	Chunks []chunk
	taken  bool
}

// analyse checks everything recorded since the previous call. issued lists
// the copies the harness itself issued in that window (others, e.g. the
// driver's own uploads of code objects and kernel arguments, are checked for
// the generic rules only).
func (m *copyMon) analyse(issued []*issuedCopy, scen string) {
	m.mu.Lock()
	defer m.mu.Unlock()
	events := m.log.Snapshot()
	cmds := map[string]*drvCmd{}
	kernelStart := map[string]int{}
	var kernels [][2]int // [start,end] of kernel commands in port-event indices
	var order []*drvCmd
	reqOf := map[sim.Msg]*drvReq{}
	for _, te := range m.tasks[m.taskFrom:] {
		t := te.task
		if te.start {
			switch t.Kind {
			case "Driver Command":
				if strings.Contains(t.What, "LaunchKernel") {
					kernelStart[t.ID] = te.afterPortSeq
				}
				if !strings.Contains(t.What, "MemCopy") {
					continue
				}
				c := cmds[t.ID]
				if c == nil {
					c = &drvCmd{id: t.ID}
					cmds[t.ID] = c
					order = append(order, c)
				}
				c.what = t.What
				c.starts++
			case "req_out":
				msg, _ := t.Detail.(sim.Msg)
				r := &drvReq{msg: msg, initSeq: te.afterPortSeq}
				switch q := msg.(type) {
				case *protocol.MemCopyH2DReq:
					r.kind, r.addr, r.n = "h2d", q.DstAddress, uint64(len(q.SrcBuffer))
				case *protocol.MemCopyD2HReq:
					r.kind, r.addr, r.n = "d2h", q.SrcAddress, uint64(len(q.DstBuffer))
				case *protocol.FlushReq:
					r.kind = "flush"
				default:
					continue
				}
				r.gpu = gpuOfName(string(msg.Meta().Dst))
				reqOf[msg] = r
				// the command's start task is logged after its requests were
				// initiated; create the record on first sight
				c := cmds[t.ParentID]
				if c == nil {
					c = &drvCmd{id: t.ParentID}
					cmds[t.ParentID] = c
					order = append(order, c)
				}
				c.reqs = append(c.reqs, r)
			}
		} else if c := cmds[t.ID]; c != nil {
			c.ends++
			c.endSeq = te.afterPortSeq
		} else if ks, ok := kernelStart[t.ID]; ok {
			kernels = append(kernels, [2]int{ks, te.afterPortSeq})
		}
	}
	m.taskFrom = len(m.tasks)
	for _, e := range events[m.portFrom:] {
		if e.Port != "drv" {
			continue
		}
		switch e.Kind {
		case simkit.KSend:
			if r := reqOf[e.Msg]; r != nil {
				r.sent = append(r.sent, e.Seq)
			}
		case simkit.KRecv:
			if g, ok := e.Msg.(*sim.GeneralRsp); ok {
				if r := reqOf[g.OriginalReq]; r != nil {
					r.rsps = append(r.rsps, e.Seq)
				} else if isCopyMsg(g.OriginalReq) {
					m.viol("C11|driver|response-for-unknown-request", "the driver received a completion for a copy/flush request that no command of this window initiated (second completion?)",
						map[string]any{"scenario": scen, "type": reflect.TypeOf(g.OriginalReq).String()})
				}
			}
		}
	}
	m.portFrom = len(events)

	// DMA engines must be idle at a quiescent point
	for g, d := range m.dmas {
		if len(d.open) > 0 {
			m.viol("C11|dma|copy-never-answered", fmt.Sprintf("all commands completed but the DMA engine of GPU %d still holds unanswered copies %v", g, describeOpen(d)), map[string]any{"scenario": scen})
		}
	}

	for _, c := range order {
		if c.what == "" && c.starts == 0 {
			// requests whose parent is not a copy command (kernel launch):
			// only flush/copy requests are recorded, so this is unexpected
			continue
		}
		dir := "h2d"
		if strings.Contains(c.what, "D2H") {
			dir = "d2h"
		}
		w := func() map[string]any {
			return map[string]any{"scenario": scen, "command": c.what, "requests": describeReqs(c.reqs)}
		}
		if c.starts != 1 || c.ends != 1 {
			m.viol(fmt.Sprintf("C11|driver|command-completions=%d|%s", c.ends, dir),
				fmt.Sprintf("copy command %s: started %d times, completed %d times at a point where all queues are drained", c.what, c.starts, c.ends), w())
			continue
		}
		m.count("driver_copy_commands_checked", 1)
		first := c.endSeq
		for _, r := range c.reqs {
			if r.initSeq < first {
				first = r.initSeq
			}
		}
		for _, k := range kernels {
			if k[0] < c.endSeq && first < k[1] {
				m.count("copy_commands_overlapping_a_running_kernel", 1)
				break
			}
		}
		if debugTrace {
			fmt.Printf("CMD %s end@%d %v\n", c.what, c.endSeq, describeReqs(c.reqs))
		}
		lastIsFlush := false
		lastRsp := -1
		var data []*drvReq
		for _, r := range c.reqs {
			if len(r.sent) != 1 || len(r.rsps) != 1 {
				m.viol(fmt.Sprintf("C11|driver|request-sent=%d-answered=%d|%s", len(r.sent), len(r.rsps), r.kind),
					fmt.Sprintf("%s request of a %s command was sent %d times and answered %d times", r.kind, dir, len(r.sent), len(r.rsps)), w())
				continue
			}
			if !(r.sent[0] < r.rsps[0]) {
				m.viol("C11|driver|answer-before-send", "a request's completion was delivered before the request was sent", w())
			}
			if r.rsps[0] >= c.endSeq {
				m.viol("C11|driver|command-completes-before-its-last-request|"+dir+"|"+r.kind,
					fmt.Sprintf("%s command completed (port-event index %d) before the completion of its %s request arrived (index %d)", dir, c.endSeq, r.kind, r.rsps[0]), w())
			}
			if r.rsps[0] > lastRsp {
				lastRsp = r.rsps[0]
				lastIsFlush = r.kind == "flush"
			}
			if r.kind != "flush" {
				data = append(data, r)
			}
		}
		if lastIsFlush {
			m.count("copies_whose_last_reply_was_a_flush", 1)
		}
		hasFlush := false
		for _, r := range c.reqs {
			if r.kind == "flush" {
				hasFlush = true
			}
		}
		if hasFlush {
			m.count("copies_with_flush", 1)
			// observation only (the verdict is taken on values): did the first
			// memory access of a data request happen before the flush of the
			// same GPU was finished (answer leaving the command processor)?
			for _, r := range data {
				if len(r.sent) != 1 || len(r.rsps) != 1 {
					continue
				}
				for _, f := range c.reqs {
					if f.kind != "flush" || f.gpu != r.gpu {
						continue
					}
					fd, ok := m.flushDone[f.msg]
					dc := m.findDMACopy(r, false)
					if !ok || dc == nil || len(dc.subs) == 0 {
						continue
					}
					if dc.firstSub < fd {
						m.count("data_access_before_same_gpu_flush_finished", 1)
					} else {
						m.count("data_access_after_same_gpu_flush_finished", 1)
					}
				}
			}
		}
		// link every data request to exactly one DMA-engine copy
		for _, r := range data {
			if len(r.sent) != 1 || len(r.rsps) != 1 {
				continue
			}
			dc := m.findDMACopy(r, true)
			if dc == nil {
				m.viol("C11|driver|request-never-reached-its-dma-engine|"+r.kind,
					fmt.Sprintf("%s request for [0x%x,+%d) to GPU %d was answered, but that GPU's DMA engine completed no such copy between send and answer", r.kind, r.addr, r.n, r.gpu), w())
				continue
			}
			m.count("driver_requests_linked_to_dma", 1)
		}
		// chunking against the page table (copies issued by the harness)
		var key []chunk
		for _, r := range data {
			key = append(key, chunk{r.addr, r.n, r.gpu})
		}
		matched := false
		for _, ic := range issued {
			if ic.taken || ic.H2D != (dir == "h2d") || len(ic.Chunks) == 0 || len(key) == 0 {
				continue
			}
			if ic.Chunks[0].PAddr == key[0].PAddr {
				ic.taken = true
				matched = true
				if !reflect.DeepEqual(ic.Chunks, key) {
					m.viol("C11|driver|page-chunks-differ-from-page-table|"+dir,
						fmt.Sprintf("%s (%s): requests %v, page-table walk gives %v", ic.Desc, dir, key, ic.Chunks), w())
				} else {
					m.count("driver_commands_chunking_checked", 1)
				}
				break
			}
		}
		_ = matched
	}
	for _, ic := range issued {
		if !ic.taken {
			m.viol("C11|driver|issued-copy-has-no-command-trace", "a copy issued by the harness returned, but no command with its first physical address was traced: "+ic.Desc, map[string]any{"scenario": scen})
		}
	}
	// forget closed DMA copies that were linked
	for _, d := range m.dmas {
		d.done = nil
		d.closed = map[string]*dmaCopy{}
	}
}

func (m *copyMon) findDMACopy(r *drvReq, take bool) *dmaCopy {
	d := m.dmas[r.gpu]
	if d == nil {
		return nil
	}
	for _, c := range d.done {
		if c.linked && take {
			continue
		}
		if c.h2d == (r.kind == "h2d") && c.addr == r.addr && c.n == r.n && c.recvSeq > r.sent[0] && c.rspSeq < r.rsps[0] {
			if take {
				c.linked = true
			}
			return c
		}
	}
	return nil
}

var latHist [50]int

var debugTrace = os.Getenv("C11_DEBUG") != ""

func isCopyMsg(m sim.Msg) bool {
	switch m.(type) {
	case *protocol.MemCopyH2DReq, *protocol.MemCopyD2HReq, *protocol.FlushReq:
		return true
	}
	return false
}

func describeReqs(rs []*drvReq) []string {
	var out []string
	for _, r := range rs {
		out = append(out, fmt.Sprintf("%s gpu%d [0x%x,+%d) sent@%v answered@%v", r.kind, r.gpu, r.addr, r.n, r.sent, r.rsps))
	}
	return out
}
