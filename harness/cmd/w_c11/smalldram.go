package main

import (
	"fmt"
	"os"

	"github.com/sarchlab/akita/v4/mem/mem"
	"github.com/sarchlab/akita/v4/mem/vm"
	"github.com/sarchlab/akita/v4/sim"
	"github.com/sarchlab/mgpusim/v4/amd/driver"

	"verifharness/vlib"
)

// Small-DRAM layer (added after seed c11-9: Remap handed the frames that still
// back the re-mapped range to the free list; with the platforms' 4 GB devices
// the first-in-first-out free list never reaches them).
//
// A bare real driver (magic copy path, own page table and global storage) with
// 1..4 GPUs of 12..28 pages each. Buffers come and go, are re-homed page-wise
// (Remap) or as a whole (Distribute), so that every device's free list wraps
// several times in one history. Every H2D is followed by a read-back of every
// live buffer: a copy may change the bytes of its own range only. Shadow per
// buffer with defined-flags (a new buffer and a re-homed page are undefined
// until written).
//
// Capacity is accounted from the page table: a frame counts as consumed from
// the moment a buffer page maps it until FreeMemory of the buffer that maps it
// (Remap/Distribute leave the old frames consumed for good: they are never
// returned on the unchanged tree). An operation is issued only when every
// device it may take frames from has that many unconsumed frames, so "out of
// memory" cannot happen on a tree that holds the property.

type sdBuf struct {
	ptr   driver.Ptr
	pages int
	data  []byte
	def   []bool
}

const sdPage = 4096

func smallMain(cfg childCfg, rec *vlib.ChildRecorder) {
	rng := vlib.NewPRNG(uint64(cfg.Seed)).ForkN("c11-small", cfg.Idx)
	done := 0
	for si := 0; done < cfg.Ops; si++ {
		done += smallScenario(cfg, rec, si, rng.ForkN("scenario", si), cfg.Ops-done)
	}
	rec.Note("done", true)
	os.Exit(0)
}

func smallScenario(cfg childCfg, rec *vlib.ChildRecorder, si int, r *vlib.PRNG, budget int) int {
	ngpu := cfg.NGPU
	capPages := r.Range(12, 28)
	engine := sim.NewSerialEngine()
	pt := vm.NewPageTable(12)
	d := driver.MakeBuilder().WithEngine(engine).WithFreq(1 * sim.GHz).WithPageTable(pt).WithLog2PageSize(12).
		WithGlobalStorage(mem.NewStorage(8 * mem.GB)).WithMagicMemoryCopyMiddleware().Build(fmt.Sprintf("DriverS%d", si))
	for g := 0; g < ngpu; g++ {
		d.RegisterGPU(nil, driver.DeviceProperties{CUCount: 4, DRAMSize: uint64(capPages) * sdPage})
	}
	d.Run()
	ctx := d.Init()
	pid := ctx.VerifPID()

	consumed := make([]map[uint64]bool, ngpu+1) // per device: frames mapped now or leaked by a re-homing
	everFreed := map[uint64]bool{}
	for i := range consumed {
		consumed[i] = map[uint64]bool{}
	}
	room := func(g int) int { return capPages - len(consumed[g]) }
	frames := func(b *sdBuf) []uint64 {
		var fs []uint64
		for p := 0; p < b.pages; p++ {
			pg, ok := pt.Find(pid, uint64(b.ptr)+uint64(p)*sdPage)
			if !ok {
				rec.Violation("C11|small-dram|live-buffer-page-unmapped", fmt.Sprintf("scenario %d: page %d of live buffer 0x%x has no translation", si, p, uint64(b.ptr)),
					map[string]any{"child": cfg, "scenario": si})
				continue
			}
			fs = append(fs, pg.PAddr)
		}
		return fs
	}
	note := func(b *sdBuf) {
		for _, f := range frames(b) {
			g := d.VerifDeviceIDByPAddr(f)
			if g >= 1 && g <= ngpu {
				if everFreed[f] && !consumed[g][f] {
					rec.Count("allocations_receiving_a_previously_freed_frame|small-dram", 1)
				}
				consumed[g][f] = true
			}
		}
	}

	var bufs []*sdBuf
	rehomed := false
	tag := func() string {
		if rehomed {
			return "after-rehoming"
		}
		return "plain"
	}
	nviol := 0
	verify := func(b *sdBuf, why string, step int) {
		got := make([]byte, len(b.data))
		d.MemCopyD2H(ctx, got, b.ptr)
		rec.Eval()
		rec.Count("d2h_results_compared|small-dram", 1)
		for i := range got {
			if b.def[i] && got[i] != b.data[i] {
				nviol++
				if nviol <= 5 {
					rec.Violation("C11|small-dram|d2h-differs-from-shadow|"+tag(),
						fmt.Sprintf("scenario %d (%d GPUs of %d pages) step %d (%s): buffer 0x%x (%d pages) byte %d reads 0x%02x, the last H2D covering it wrote 0x%02x",
							si, ngpu, capPages, step, why, uint64(b.ptr), b.pages, i, got[i], b.data[i]),
						map[string]any{"child": cfg, "scenario": si, "step": step})
				}
				return
			}
		}
	}

	steps := 0
	nops := r.Range(50, 90)
	if nops > budget {
		nops = budget
	}
	for step := 0; step < nops; step++ {
		steps++
		op := r.Intn(100)
		switch {
		case op < 30 || len(bufs) == 0: // allocate
			g := 1 + r.Intn(ngpu)
			n := r.Range(1, 6)
			if room(g) < n {
				// make room: free the oldest buffer instead
				if len(bufs) > 0 {
					b := bufs[0]
					for _, f := range frames(b) {
						gg := d.VerifDeviceIDByPAddr(f)
						if gg >= 1 && gg <= ngpu {
							delete(consumed[gg], f)
							everFreed[f] = true
						}
					}
					if err := d.FreeMemory(ctx, b.ptr); err != nil {
						rec.Violation("C11|small-dram|free-of-live-buffer-refused", err.Error(), map[string]any{"child": cfg, "scenario": si, "step": step})
					}
					bufs = bufs[1:]
					rec.Count("frees|small-dram", 1)
				}
				continue
			}
			d.SelectGPU(ctx, g)
			b := &sdBuf{pages: n, data: make([]byte, n*sdPage), def: make([]bool, n*sdPage)}
			b.ptr = d.AllocateMemory(ctx, uint64(n*sdPage))
			note(b)
			bufs = append(bufs, b)
			rec.Count("allocations|small-dram", 1)
		case op < 45: // free
			k := r.Intn(len(bufs))
			b := bufs[k]
			for _, f := range frames(b) {
				gg := d.VerifDeviceIDByPAddr(f)
				if gg >= 1 && gg <= ngpu {
					delete(consumed[gg], f)
					everFreed[f] = true
				}
			}
			if err := d.FreeMemory(ctx, b.ptr); err != nil {
				rec.Violation("C11|small-dram|free-of-live-buffer-refused", err.Error(), map[string]any{"child": cfg, "scenario": si, "step": step})
			}
			bufs = append(bufs[:k], bufs[k+1:]...)
			rec.Count("frees|small-dram", 1)
		case op < 53: // re-home
			b := bufs[r.Intn(len(bufs))]
			if ngpu >= 2 && b.pages >= 2 && r.Bool() {
				ns := r.Range(2, min(ngpu, b.pages))
				set := r.Perm(ngpu)[:ns]
				ok := true
				for i := range set {
					set[i]++
					if room(set[i]) < b.pages {
						ok = false
					}
				}
				if !ok {
					continue
				}
				d.Distribute(ctx, b.ptr, uint64(b.pages*sdPage), set)
				for i := range b.def {
					b.def[i] = false
				}
				rec.Count("distributes|small-dram", 1)
			} else {
				p0 := r.Intn(b.pages)
				p1 := r.Range(p0+1, b.pages)
				g := 1 + r.Intn(ngpu)
				if room(g) < p1-p0 {
					continue
				}
				d.Remap(ctx, uint64(b.ptr)+uint64(p0)*sdPage, uint64(p1-p0)*sdPage, g)
				for i := p0 * sdPage; i < p1*sdPage; i++ {
					b.def[i] = false
				}
				rec.Count("remaps|small-dram", 1)
			}
			note(b)
			rehomed = true
		default: // H2D into a sub-range, then read every live buffer back
			b := bufs[r.Intn(len(bufs))]
			var off, n int
			if r.Chance(1, 3) {
				off, n = 0, len(b.data)
			} else {
				off = r.Intn(len(b.data))
				n = r.Range(1, len(b.data)-off)
			}
			src := make([]byte, n)
			r.Bytes(src)
			d.MemCopyH2D(ctx, b.ptr+driver.Ptr(off), src)
			copy(b.data[off:], src)
			for i := off; i < off+n; i++ {
				b.def[i] = true
			}
			rec.Count("generated_copy_ops|small-dram", 1)
			if rehomed {
				rec.Count("h2d_after_a_rehoming_with_other_live_buffers|small-dram", int64(len(bufs)-1))
			}
			rec.Nontrivial(fmt.Sprintf("small|h2d|off%%page=%d|len=%d|pages=%d", off%sdPage, n, b.pages))
			for _, o := range bufs {
				verify(o, "after an H2D of another or the same buffer", step)
			}
		}
	}
	return steps
}
