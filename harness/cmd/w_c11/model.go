package main

import (
	"fmt"
	"sort"

	"github.com/sarchlab/akita/v4/mem/vm"
	"github.com/sarchlab/mgpusim/v4/amd/driver"
	"github.com/sarchlab/mgpusim/v4/amd/insts"

	"verifharness/vlib"
	"verifharness/vlib/kern"
)

const pageSize = 4096

// bufInfo is one allocation of the harness inside a context's arena. All
// allocations of one process are virtually contiguous (the allocator hands
// out consecutive pages), so the arena [base, base+len(shadow)) is one mapped
// range: buffer i occupies pages [Off, Off+Pages*4096); bytes between Size and
// the end of its last page are mapped slack.
type bufInfo struct {
	Off   int    `json:"off"`
	Size  int    `json:"size"`
	Pages int    `json:"pages"`
	Kind  string `json:"kind"` // plain, dist, remap, unified, guard
	Devs  []int  `json:"page_devices"`
	Freed bool   `json:"freed,omitempty"` // FreeMemory was called (freealloc.go): pages unmapped
	Adj   []bool `json:"page_phys_adjacent_to_next,omitempty"`
}

func (b bufInfo) end() int { return b.Off + b.Pages*pageSize }

type opRec struct {
	Idx   int    `json:"i"`
	Kind  string `json:"k"` // h2d, d2h, kernel, verify, rehome
	Off   int    `json:"off"`
	N     int    `json:"n"`
	Type  string `json:"t,omitempty"`
	Q     int    `json:"q"` // queue index, <0 = blocking API (own queue)
	Class string `json:"class,omitempty"`
	Extra string `json:"x,omitempty"`
	old   []byte // bytes overwritten by a write op
	src   int    // device copy kernel: arena offset of its source + 1 (0 = none)
	gpu   int    // kernel: GPU it was launched on (0 = not a kernel)
}

func (o opRec) String() string {
	return fmt.Sprintf("#%d %s[%d,+%d) %s q%d %s %s", o.Idx, o.Kind, o.Off, o.N, o.Type, o.Q, o.Class, o.Extra)
}

type claim struct{ q, off, n int }

type pendingRead struct {
	op      opRec
	dst     any
	bytesOf func() []byte
	want    []byte
	purpose string // "d2h" or "verify"
	after   int    // index of the write op this read verifies (-1 none)
}

type ctxModel struct {
	id   int
	ctx  *driver.Context
	pid  vm.PID
	base uint64

	shadow []byte
	good   []int32 // per arena byte: index of the last read op that found it equal to the shadow (-1 none)
	bufs   []bufInfo
	pagePA []uint64
	pageDv []int

	// re-homing in mid-history (rehome.go), per arena page
	kTouch   []uint8 // bit g: a kernel launched on GPU g has read / written the page (GPU g may hold its translation)
	rehOp    []int32 // index of the op that last gave the page a new frame, -1 never
	rehStale []uint8 // kTouch at that moment: GPUs that had used the OLD frame
	undef    []bool  // per arena byte: contents undefined (page re-homed, not rewritten yet)
	nUndef   int

	// free / re-allocate in mid-history (freealloc.go)
	pageVA    []uint64     // virtual address of every arena page
	segmented bool         // buffers come and go: every op must stay inside one live buffer
	frameFrom []*frameInfo // per arena page: the freed buffer page that owned this frame before, nil = fresh frame

	queues []*driver.CommandQueue
	qGPU   []int
	cos    map[[2]int]*insts.KernelCodeObject

	kernelLaunched bool
	ops            []opRec
	claims         []claim
	pend           []*pendingRead
	busyQ          map[int]bool
	nextBlocking   int
	lastWrite      int  // index into ops of the most recent write op, -1
	broken         bool // a violation was reported for this context: shadow and device are out of sync, later comparisons would only cascade
}

func (m *ctxModel) ptr(off int) driver.Ptr {
	return driver.Ptr(m.pageVA[off/pageSize] + uint64(off%pageSize))
}

func (m *ctxModel) bufAt(off int) int {
	for i, b := range m.bufs {
		if off >= b.Off && off < b.end() {
			return i
		}
	}
	return -1
}

func (m *ctxModel) conflict(q, off, n int) bool {
	for _, c := range m.claims {
		if c.q != q && off < c.off+c.n && c.off < off+n {
			return true
		}
	}
	return false
}

// chunks walks the harness' own copy of the page map.
func (m *ctxModel) chunks(off, n int) []chunk {
	var out []chunk
	for n > 0 {
		pg := off / pageSize
		in := off % pageSize
		l := pageSize - in
		if l > n {
			l = n
		}
		out = append(out, chunk{PAddr: m.pagePA[pg] + uint64(in), N: uint64(l), GPU: m.pageDv[pg]})
		off += l
		n -= l
	}
	return out
}

// boundary class of a byte range
type rangeClass struct {
	Page, NonAdj, GPU, Line, Buf, Slack bool
	StartAl, EndAl                      string
}

func align(x int) string {
	switch {
	case x%pageSize == 0:
		return "P"
	case x%64 == 0:
		return "L"
	case x%4 == 0:
		return "4"
	}
	return "1"
}

func (m *ctxModel) classify(off, n int) rangeClass {
	var c rangeClass
	first, last := off/pageSize, (off+n-1)/pageSize
	c.Page = last > first
	for p := first; p < last; p++ {
		if m.pagePA[p+1] != m.pagePA[p]+pageSize {
			c.NonAdj = true
		}
		if m.pageDv[p+1] != m.pageDv[p] {
			c.GPU = true
		}
	}
	c.Line = (off+n-1)/64 > off/64
	bi, bj := m.bufAt(off), m.bufAt(off+n-1)
	c.Buf = bi != bj
	for i := bi; i <= bj && i >= 0; i++ {
		b := m.bufs[i]
		lo, hi := max(off, b.Off+b.Size), min(off+n, b.end())
		if lo < hi {
			c.Slack = true
		}
	}
	c.StartAl, c.EndAl = align(off), align(off+n)
	return c
}

func (c rangeClass) String() string {
	s := ""
	switch {
	case c.Page && c.NonAdj:
		s = "pagecross-nonadjacent"
	case c.Page:
		s = "pagecross-adjacent"
	case c.Line:
		s = "linecross"
	default:
		s = "inline"
	}
	if c.GPU {
		s += "+gpucross"
	}
	if c.Buf {
		s += "+bufcross"
	}
	return s + "/" + c.StartAl + c.EndAl
}

func (c rangeClass) nontrivial() bool { return c.Page || c.Line || c.GPU }

// driverOverlap replicates the driver's memRangeOverlap to classify stale
// reads caused by a missed flush (not used as an oracle).
func driverOverlap(s1, e1, s2, e2 int) bool {
	return (s1 <= s2 && e1 > s2) || (s1 < e2 && e1 >= e2)
}

// flushWouldBeMissed: a dirty buffer overlaps [off,off+n) but the driver's
// predicate reports no overlap for any buffer of the context.
func (m *ctxModel) flushWouldBeMissed(off, n int) bool {
	if !m.kernelLaunched {
		return false
	}
	truly, drv := false, false
	for _, b := range m.bufs {
		if b.Freed {
			continue
		}
		s, e := b.Off, b.Off+b.Size
		if s < off+n && off < e {
			truly = true
		}
		if driverOverlap(s, e, off, off+n) {
			drv = true
		}
	}
	return truly && !drv
}

// applyWrite records a write op and updates the shadow.
func (m *ctxModel) applyWrite(o *opRec, data []byte) {
	o.old = append([]byte(nil), m.shadow[o.Off:o.Off+o.N]...)
	copy(m.shadow[o.Off:], data)
	if o.src > 0 {
		m.mustBeDefined(o.src-1, o.N, "device copy kernel source")
	}
	m.define(o.Off, o.N)
	m.ops = append(m.ops, *o)
	m.lastWrite = len(m.ops) - 1
}

func (m *ctxModel) applyKernel(o *opRec, op kern.Op, c uint32) {
	m.mustBeDefined(o.Off, o.N, "read-modify-write kernel")
	o.old = append([]byte(nil), m.shadow[o.Off:o.Off+o.N]...)
	for i := o.Off; i < o.Off+o.N; i += 4 {
		x := uint32(m.shadow[i]) | uint32(m.shadow[i+1])<<8 | uint32(m.shadow[i+2])<<16 | uint32(m.shadow[i+3])<<24
		x = op.Apply(x, c)
		m.shadow[i], m.shadow[i+1], m.shadow[i+2], m.shadow[i+3] = byte(x), byte(x>>8), byte(x>>16), byte(x>>24)
	}
	m.ops = append(m.ops, *o)
	m.lastWrite = len(m.ops) - 1
}

// lastWriterOf finds the most recent write op before op index `before`
// covering arena offset o.
func (m *ctxModel) lastWriterOf(o, before int) *opRec {
	for i := min(before, len(m.ops)) - 1; i >= 0; i-- {
		w := &m.ops[i]
		if (w.Kind == "h2d" || w.Kind == "kernel") && o >= w.Off && o < w.Off+w.N {
			return w
		}
	}
	return nil
}

func (m *ctxModel) lastWriteBefore(before int) *opRec {
	for i := min(before, len(m.ops)) - 1; i >= 0; i-- {
		w := &m.ops[i]
		if w.Kind == "h2d" || w.Kind == "kernel" {
			return w
		}
	}
	return nil
}

func (m *ctxModel) tailOps(k int) []string {
	var out []string
	for i := max(0, len(m.ops)-k); i < len(m.ops); i++ {
		out = append(out, m.ops[i].String())
	}
	return out
}

// interesting arena offsets for the range generator
func (m *ctxModel) points() []int {
	set := map[int]bool{0: true, len(m.shadow): true}
	for _, b := range m.bufs {
		set[b.Off] = true
		set[b.Off+b.Size] = true
		for p := 1; p < b.Pages; p++ {
			set[b.Off+p*pageSize] = true
		}
	}
	out := make([]int, 0, len(set))
	for k := range set {
		out = append(out, k)
	}
	sort.Ints(out)
	return out
}

var deltas = []int{-130, -65, -64, -63, -33, -9, -8, -7, -5, -4, -3, -2, -1, 0, 0, 0, 1, 2, 3, 4, 5, 7, 8, 9, 31, 32, 33, 63, 64, 65, 127, 129}
var lens = []int{1, 1, 2, 3, 4, 5, 7, 8, 9, 15, 16, 17, 31, 33, 63, 64, 65, 66, 100, 127, 128, 129, 191, 192, 193, 256, 1000,
	4031, 4032, 4033, 4095, 4096, 4097, 4100, 4160, 5000, 8191, 8192, 8193, 8200, 12288, 12289, 16383, 20480}

// pickRange chooses (off, n) for element type t; n is a positive multiple of
// t.Unit (equal to it for fixed types) and the range lies inside the arena.
func (m *ctxModel) pickRange(r *vlib.PRNG, t elemType, maxLen int, inBounds bool) (int, int) {
	S := len(m.shadow)
	pts := m.points()
	pagePts := []int{}
	for _, p := range pts {
		if p%pageSize == 0 && p > 0 && p < S {
			pagePts = append(pagePts, p)
		}
	}
	fit := func(off, n int) (int, int) {
		if n > maxLen {
			n = maxLen
		}
		if t.Slice {
			n = n / t.Unit * t.Unit
			if n < t.Unit {
				n = t.Unit
			}
		} else {
			n = t.Unit
		}
		if n > S {
			return -1, -1
		}
		if off < 0 {
			off = 0
		}
		if off+n > S {
			off = S - n
		}
		return off, n
	}
	for try := 0; try < 50; try++ {
		var off, n int
		switch mode := r.Intn(100); {
		case mode < 28: // start near an interesting point
			off = pts[r.Intn(len(pts))] + deltas[r.Intn(len(deltas))]
			n = lens[r.Intn(len(lens))]
		case mode < 50: // end near an interesting point
			n = lens[r.Intn(len(lens))]
			off = pts[r.Intn(len(pts))] + deltas[r.Intn(len(deltas))] - n
		case mode < 72 && len(pagePts) > 0: // straddle a page boundary
			pt := pagePts[r.Intn(len(pagePts))]
			a := []int{1, 2, 3, 4, 5, 7, 8, 13, 31, 32, 33, 63, 64, 65, 100, 1000, 4095, 4096, 4100}[r.Intn(19)]
			b := []int{1, 2, 3, 4, 5, 7, 8, 13, 31, 32, 33, 63, 64, 65, 100, 1000, 4095, 4096, 4100}[r.Intn(19)]
			off, n = pt-a, a+b
			if !t.Slice { // fixed size: put the boundary somewhere inside
				k := 1
				if t.Unit > 1 {
					k = 1 + r.Intn(t.Unit-1)
					if r.Bool() {
						k = min(k, 1+r.Intn(8))
					}
				}
				off = pt - k
			}
		case mode < 82: // a whole buffer (logical size or page extent)
			b := m.bufs[r.Intn(len(m.bufs))]
			off, n = b.Off, b.Size
			if r.Chance(1, 3) {
				n = b.Pages * pageSize
			}
		case mode < 92: // large
			off = r.Intn(S)
			n = 1 + r.Intn(5*pageSize)
		default: // tiny
			off = r.Intn(S)
			n = 1 + r.Intn(16)
		}
		off, n = fit(off, n)
		if off >= 0 && inBounds && m.classify(off, n).Slack {
			// DMA path: stay inside the requested extents of the buffers (the
			// driver tracks dirtiness per requested extent); shrink towards the
			// buffer that holds the start if that is enough
			b := m.bufs[m.bufAt(off)]
			if off < b.Off+b.Size {
				n2 := (b.Off + b.Size - off) / t.Unit * t.Unit
				if t.Slice && n2 >= t.Unit && try%2 == 1 {
					return off, min(n, n2)
				}
			}
			continue
		}
		if off >= 0 {
			return off, n
		}
	}
	return -1, -1
}
