package main

import (
	"fmt"
	"os"
	"sort"

	"github.com/sarchlab/mgpusim/v4/amd/driver"
	"github.com/sarchlab/mgpusim/v4/amd/insts"

	"verifharness/vlib"
	"verifharness/vlib/kern"
)

// FreeMemory / re-allocate in mid-history.
//
// A "segmented" context: buffers are allocated and freed between kernel
// launches. Its arena is the concatenation of the page extents of all buffers
// it ever allocated, in allocation order (virtual addresses are not
// contiguous: launches allocate code / kernarg pages in between; pageVA maps
// arena pages to virtual pages). A freed buffer keeps its arena slot, flagged
// Freed: its bytes have vanished and nothing may touch it (mustBeLive: harness
// bug). A new buffer's bytes are undefined until written (undef flags). Every
// operation stays inside the requested extent of ONE live buffer.
//
// The property demands of a new buffer what it demands of any other:
// D2H(H2D(x)) == x whatever happened to the physical frames before, also when
// the copy is issued before the next kernel launch (the driver then considers
// the buffer clean and sends no flush) and a flush follows later. The motif:
// a kernel writes buffer A (dirty lines in the L2 of its GPU), A is freed, new
// buffers of the same and of other sizes are allocated, host data is copied
// into them before (or after) a further launch, something makes the GPUs
// flush (a copy of a buffer that existed at a launch; a kernel), everything is
// read back, kernels run over the new buffers, read back again.

type frameInfo struct {
	last   []byte // shadow bytes of the freed buffer's page that lived in this frame
	kernel bool   // a kernel had written (read-modify-written) that page: its lines can still be dirty in an L2
	owner  string
}

func (th *thread) all() []*ctxModel {
	if th.seg == nil {
		return th.ms
	}
	return append(append([]*ctxModel(nil), th.ms...), th.seg)
}

func (m *ctxModel) mustBeLive(off, n int) {
	if !m.segmented {
		return
	}
	bi := m.bufAt(off)
	if bi < 0 || bi != m.bufAt(off+n-1) || m.bufs[bi].Freed || off+n > m.bufs[bi].Off+m.bufs[bi].Size {
		panic(fmt.Sprintf("harness: op [%d,+%d) of segmented ctx%d is not inside the requested extent of one live buffer", off, n, m.id))
	}
}

// newSegCtx: an empty segmented context with two queues.
func (c *child) newSegCtx() *ctxModel {
	d := c.d
	m := &ctxModel{cos: map[[2]int]*insts.KernelCodeObject{}, busyQ: map[int]bool{}, lastWrite: -1, segmented: true}
	m.ctx = d.Init()
	m.pid = m.ctx.VerifPID()
	c.mu.Lock()
	m.id = c.nextCtx
	c.nextCtx++
	c.allCtx = append(c.allCtx, m)
	c.mu.Unlock()
	for q := 0; q < 2; q++ {
		g := 1 + (q+m.id)%c.cfg.NGPU
		d.SelectGPU(m.ctx, g)
		m.queues = append(m.queues, d.CreateCommandQueue(m.ctx))
		m.qGPU = append(m.qGPU, g)
	}
	return m
}

// allocBuf allocates a buffer on GPU gpu with nothing outstanding and appends
// it to the arena. Returns its index.
func (th *thread) allocBuf(m *ctxModel, gpu, size int) int {
	c := th.c
	th.drainAll()
	c.d.SelectGPU(m.ctx, gpu)
	p := c.d.AllocateMemory(m.ctx, uint64(size))
	pages := (size-1)/pageSize + 1
	off := len(m.shadow)
	m.bufs = append(m.bufs, bufInfo{Off: off, Size: size, Pages: pages, Kind: "realloc"})
	m.shadow = append(m.shadow, make([]byte, pages*pageSize)...)
	for i := 0; i < pages*pageSize; i++ {
		m.good = append(m.good, -1)
		m.undef = append(m.undef, true)
	}
	m.nUndef += pages * pageSize
	p0 := len(m.pagePA)
	for pg := 0; pg < pages; pg++ {
		m.pageVA = append(m.pageVA, uint64(p)+uint64(pg*pageSize))
		m.pagePA = append(m.pagePA, 0)
		m.pageDv = append(m.pageDv, 0)
		m.kTouch = append(m.kTouch, 0)
		m.rehStale = append(m.rehStale, 0)
		m.rehOp = append(m.rehOp, -1)
		m.frameFrom = append(m.frameFrom, nil)
	}
	m.refreshPages(c.d, p0, pages)
	reused, reusedK := 0, 0
	c.mu.Lock()
	for pg := p0; pg < p0+pages; pg++ {
		if fi := c.frames[m.pagePA[pg]]; fi != nil {
			m.frameFrom[pg] = fi
			delete(c.frames, m.pagePA[pg])
			reused++
			if fi.kernel {
				reusedK++
			}
		}
	}
	c.mu.Unlock()
	m.ops = append(m.ops, opRec{Idx: len(m.ops), Kind: "alloc", Off: off, N: size, Extra: fmt.Sprintf("gpu%d frames %v reused %d", gpu, hexes(m.pagePA[p0:p0+pages]), reused)})
	c.auditFrames(fmt.Sprintf("AllocateMemory(%d) of ctx%d", size, m.id))
	c.count("reallocations|"+c.path, 1)
	if reused > 0 {
		c.count("reallocations_receiving_a_previously_used_frame|"+c.path, 1)
	}
	if reusedK > 0 {
		c.count("reallocations_receiving_a_frame_of_a_freed_kernel_written_buffer|"+c.path, 1)
	}
	return len(m.bufs) - 1
}

// freeBuf frees buffer bi with nothing outstanding.
func (th *thread) freeBuf(m *ctxModel, bi int) {
	c := th.c
	th.drainAll()
	b := &m.bufs[bi]
	if b.Freed {
		panic("harness: double free")
	}
	if err := c.d.FreeMemory(m.ctx, m.ptr(b.Off)); err != nil {
		c.violation("C11|free-returned-error", err.Error(), nil)
	}
	kw := false
	c.mu.Lock()
	for pg := b.Off / pageSize; pg < b.Off/pageSize+b.Pages; pg++ {
		fi := &frameInfo{last: append([]byte(nil), m.shadow[pg*pageSize:(pg+1)*pageSize]...), kernel: m.kTouch[pg] != 0,
			owner: fmt.Sprintf("ctx%d buffer %d page %d", m.id, bi, pg-b.Off/pageSize)}
		c.frames[m.pagePA[pg]] = fi
		kw = kw || fi.kernel
	}
	c.mu.Unlock()
	b.Freed = true
	for i := b.Off; i < b.end(); i++ {
		if !m.undef[i] {
			m.undef[i] = true
			m.nUndef++
		}
	}
	m.ops = append(m.ops, opRec{Idx: len(m.ops), Kind: "free", Off: b.Off, N: b.Size})
	c.count("frees|"+c.path, 1)
	if kw {
		c.count("frees_of_kernel_written_buffers|"+c.path, 1)
	}
}

// reuseTag / reuseSymptom: classification of a mismatch in a buffer whose
// frame belonged to a freed buffer before.
func (m *ctxModel) reuseTag(o int) string {
	if fi := m.frameFrom[o/pageSize]; fi != nil {
		if fi.kernel {
			return "+reused-frame-of-freed-kernel-written-buffer"
		}
		return "+reused-frame"
	}
	return ""
}

func (m *ctxModel) holdsBytesOfFreedBuffer(o int, got byte) bool {
	fi := m.frameFrom[o/pageSize]
	return fi != nil && got == fi.last[o%pageSize]
}

type faSpec struct {
	GPU      int    // GPU of the victim
	Q        int    // queue of the kernels
	Size     int    // victim size (bytes)
	NewSizes []int  // buffers allocated after the free
	NewGPUs  []int  // their GPUs
	Dirty    string // d2d (copy kernel from the stable buffer) | rmw (element kernel) | none
	ReadBack bool   // D2H(victim), then the kernel again, before the free
	H2DFirst bool   // H2D into the new buffers BEFORE any further launch
	Trigger  string // d2h-other | kernel-new | kernel-other | h2d-other
	KeepLast bool   // do not free the last new buffer at the end
}

func (sp faSpec) String() string {
	return fmt.Sprintf("victim %dB gpu%d q%d dirty=%s readback=%v new=%v on %v h2dfirst=%v trigger=%s", sp.Size, sp.GPU, sp.Q, sp.Dirty, sp.ReadBack, sp.NewSizes, sp.NewGPUs, sp.H2DFirst, sp.Trigger)
}

const stableSize = 4 * pageSize

// stable returns the buffer that lives for the whole history of a segmented
// context (source of the copy kernel; its copies trigger flushes).
func (th *thread) stable(m *ctxModel) bufInfo {
	if len(m.bufs) == 0 {
		th.allocBuf(m, m.qGPU[0], stableSize)
		th.fill(m, 0)
	}
	return m.bufs[0]
}

// fill defines the requested extent of buffer bi by 1-3 H2D pieces.
func (th *thread) fill(m *ctxModel, bi int) {
	r := th.r
	b := m.bufs[bi]
	bt, u32 := typeByName("[]byte"), typeByName("[]uint32")
	cuts := []int{b.Off, b.Off + b.Size}
	for k := r.Intn(3); k > 0 && b.Size > 1; k-- {
		cuts = append(cuts, b.Off+1+r.Intn(b.Size-1))
	}
	sort.Ints(cuts)
	for i := 0; i+1 < len(cuts); i++ {
		if n := cuts[i+1] - cuts[i]; n > 0 {
			t := bt
			if n%4 == 0 && r.Bool() {
				t = u32
			}
			th.h2d(m, cuts[i], n, t, r.Chance(1, 3), "h2d")
			th.nOps++
		}
	}
}

func (th *thread) freeAllocMotif(m *ctxModel, sp faSpec) {
	c := th.c
	r := th.r
	save := th.fq
	defer func() { th.fq = save }()
	bt := typeByName("[]byte")
	kernels := c.path != "tmagic" && sp.Dirty != "none"
	rop := func() (kern.Op, uint32) { return kern.Op(r.Intn(3)), 1 + 2*uint32(r.Intn(1000)) }
	kel := func(b bufInfo) int { return b.Size / 256 * 64 }
	read := func(b bufInfo) {
		th.fq = save
		th.d2h(m, b.Off, b.Size, bt, r.Chance(1, 3), "d2h", -1)
		th.nOps++
	}
	if debugTrace {
		fmt.Printf("ctx%d free/alloc motif %v\n", m.id, sp)
	}
	S := th.stable(m)

	// (1) the victim: filled by the host, then written by a kernel
	ai := th.allocBuf(m, sp.GPU, sp.Size)
	A := m.bufs[ai]
	th.fill(m, ai)
	dirty := func() {
		th.fq = sp.Q
		if sp.Dirty == "d2d" {
			n := min(A.Size, S.Size) / 256 * 256
			if n > 0 {
				th.d2dKernel(m, A.Off, S.Off, n)
				return
			}
		}
		if kel(A) > 0 {
			op, cst := rop()
			th.kernel(m, A.Off, kel(A), op, cst, false)
		}
	}
	if kernels {
		dirty()
		if sp.ReadBack {
			read(A)
			dirty()
		}
	}

	// (2) free it, (3) allocate again
	th.freeBuf(m, ai)
	var nb []int
	reused := false
	for k, sz := range sp.NewSizes {
		bi := th.allocBuf(m, sp.NewGPUs[k], sz)
		nb = append(nb, bi)
		for pg := 0; pg < m.bufs[bi].Pages; pg++ {
			if fi := m.frameFrom[m.bufs[bi].Off/pageSize+pg]; fi != nil && fi.kernel {
				reused = true
			}
		}
	}

	// (4) host data into the new buffers before / after a further launch
	if kernels && !sp.H2DFirst {
		th.fq = sp.Q
		op, cst := rop()
		th.kernel(m, S.Off, kel(S), op, cst, false)
	}
	th.fq = save
	for _, bi := range nb {
		th.fill(m, bi)
	}
	if sp.H2DFirst || !kernels {
		c.count("h2d_into_new_buffers_before_the_next_launch|"+c.path, int64(len(nb)))
		if reused {
			c.count("h2d_into_reused_frames_of_kernel_written_buffers_before_the_next_launch|"+c.path, 1)
		}
	}

	// (5) something that makes the GPUs flush / hit what is left in their caches
	B0 := m.bufs[nb[0]]
	switch {
	case sp.Trigger == "kernel-new" && kernels && kel(B0) > 0:
		th.fq = sp.Q
		op, cst := rop()
		th.kernel(m, B0.Off, kel(B0), op, cst, false)
	case sp.Trigger == "kernel-other" && kernels:
		th.fq = sp.Q
		op, cst := rop()
		th.kernel(m, S.Off, kel(S), op, cst, false)
		read(S)
	case sp.Trigger == "h2d-other":
		th.fq = save
		th.h2d(m, S.Off+100, 300, bt, r.Chance(1, 3), "h2d")
		th.nOps++
	default:
		read(S)
	}

	// (6) read everything back; kernels over the new buffers; read back again
	for _, bi := range nb {
		read(m.bufs[bi])
	}
	if kernels {
		for _, bi := range nb {
			if b := m.bufs[bi]; kel(b) > 0 {
				th.fq = m.qOnGPU(m.pageDv[b.Off/pageSize], sp.Q)
				op, cst := rop()
				th.kernel(m, b.Off, kel(b), op, cst, false)
				read(b)
			}
		}
	}
	read(S)
	th.drainAll()
	// (7) the new buffers go as well (the next motif may get their frames)
	for k, bi := range nb {
		if sp.KeepLast && k == len(nb)-1 {
			continue
		}
		th.freeBuf(m, bi)
	}
	c.auditFrames("a free / re-allocate motif")
	c.count("free_alloc_motifs|"+c.path, 1)
	c.distinct("free_alloc_kinds", fmt.Sprintf("%s|%s|rb%v|first%v|%s|new%d", c.path, sp.Dirty, sp.ReadBack, sp.H2DFirst, sp.Trigger, len(sp.NewSizes)))
}

func (m *ctxModel) qOnGPU(g, dflt int) int {
	for q, x := range m.qGPU {
		if x == g {
			return q
		}
	}
	return dflt
}

var faSizes = []int{256, 1024, pageSize, pageSize + 256, 2 * pageSize, 3*pageSize + 512, 4 * pageSize, 5*pageSize + 1024, 8 * pageSize}

// freeAllocStep generates one motif on the thread's segmented context.
func (th *thread) freeAllocStep() {
	c := th.c
	r := th.r
	if th.seg == nil {
		th.drainAll()
		th.seg = c.newSegCtx()
	}
	m := th.seg
	ng := c.cfg.NGPU
	sp := faSpec{Q: r.Intn(len(m.queues)), Size: faSizes[r.Intn(len(faSizes))]}
	sp.GPU = m.qGPU[sp.Q]
	if r.Chance(1, 5) {
		sp.GPU = 1 + r.Intn(ng)
	}
	sp.Dirty = []string{"d2d", "rmw", "rmw"}[r.Intn(3)]
	if c.path == "tmagic" {
		sp.Dirty = "none"
	}
	sp.ReadBack = r.Chance(1, 3)
	sp.H2DFirst = r.Chance(3, 4)
	sp.Trigger = []string{"d2h-other", "d2h-other", "kernel-new", "kernel-other", "h2d-other"}[r.Intn(5)]
	sp.KeepLast = false
	switch r.Intn(4) {
	case 0, 1: // the same size
		sp.NewSizes = []int{sp.Size}
	case 2: // two smaller ones
		a := max(256, sp.Size/2/256*256)
		sp.NewSizes = []int{a, max(256, sp.Size-a)}
	default: // other sizes
		sp.NewSizes = []int{faSizes[r.Intn(len(faSizes))], faSizes[r.Intn(len(faSizes))]}
	}
	for range sp.NewSizes {
		g := sp.GPU
		if r.Chance(1, 6) {
			g = 1 + r.Intn(ng)
		}
		sp.NewGPUs = append(sp.NewGPUs, g)
	}
	th.freeAllocMotif(m, sp)
}

// faScenario: a child that runs only free / re-allocate motifs (the buddy
// allocator batches: that allocator hands a freed block out again at once).
func (c *child) faScenario(r *vlib.PRNG, n int) {
	c.mu.Lock()
	c.scen = fmt.Sprintf("%s-b%d", c.cfg.Kind, c.cfg.Idx)
	c.mu.Unlock()
	c.active.Store(1)
	th := &thread{c: c, slot: 0, r: r, fq: noForce}
	for i := 0; i < n; i++ {
		if th.seg != nil && (th.seg.broken || len(th.seg.bufs) > 60) {
			th.drainAll()
			th.seg = nil
		}
		th.freeAllocStep()
	}
	th.drainAll()
	c.active.Store(0)
	c.analyse()
	c.count("scenarios|"+c.path, 1)
	c.flush()
}

var _ = driver.Ptr(0)

func (fi *frameInfo) String() string {
	if fi == nil {
		return "none (fresh frame)"
	}
	return fmt.Sprintf("%s (written by a kernel: %v)", fi.owner, fi.kernel)
}

// one in N generated steps is a free / re-allocate motif
var freeAllocEvery = map[string]int{"emu": 16, "dma": 10, "tmagic": 6}

// canonFreeAlloc: fixed free / re-allocate histories, one fresh context (=
// process) per case so that every case is judged on its own. Case 1 is the
// history of the seed demo: S <- H2D; A <- copy kernel(S); D2H(A); kernel
// again; Free(A); B = Allocate (same size); H2D(B, x) before any further
// launch; D2H(S) (flushes); D2H(B) must return x.
func (c *child) canonFreeAlloc() {
	th := c.canonThread()
	ng := c.cfg.NGPU
	far := ng
	const ps = pageSize
	cases := []faSpec{
		{Size: 3*ps + 512, NewSizes: []int{3*ps + 512}, NewGPUs: []int{1}, Dirty: "d2d", ReadBack: true, H2DFirst: true, Trigger: "d2h-other"},
		{Size: 2 * ps, NewSizes: []int{ps, 3 * ps}, NewGPUs: []int{1, 1}, Dirty: "rmw", H2DFirst: true, Trigger: "kernel-new"},
		{Size: ps + 256, NewSizes: []int{ps + 256}, NewGPUs: []int{1}, Dirty: "rmw", ReadBack: true, H2DFirst: false, Trigger: "d2h-other"},
		{Size: 8 * ps, NewSizes: []int{2 * ps, 2 * ps, 4*ps + 256}, NewGPUs: []int{1, 1, far}, Dirty: "d2d", H2DFirst: true, Trigger: "h2d-other"},
		{Size: 1024, NewSizes: []int{256, 768}, NewGPUs: []int{1, 1}, Dirty: "rmw", H2DFirst: true, Trigger: "kernel-other"},
		{Size: 4 * ps, NewSizes: []int{4 * ps}, NewGPUs: []int{1}, Dirty: "rmw", H2DFirst: true, Trigger: "d2h-other"},
	}
	name := "freealloc-" + c.path
	if c.buddy {
		name += "-buddy"
	}
	if c.buddy && c.path == "dma" {
		// The buddy allocator hands a freed block out again at once. On the DMA
		// path only the seed-demo history, once: it shows the listed stale-L2
		// finding; longer histories would report the same defect under further
		// tag combinations. (The emulation anomaly seen with longer buddy
		// histories was the uninitialised kernarg tail, repaired in /repo.)
		cases = cases[:1]
	}
	for i, sp := range cases {
		if c.path == "tmagic" {
			sp.Dirty = "none"
		}
		th.drainAll()
		th.seg = c.newSegCtx()
		sp.Q = th.seg.qOnGPU(1, 0)
		sp.GPU = 1
		th.fq = noForce
		th.freeAllocMotif(th.seg, sp)
		// once more in the same process: the motif's own new buffers were freed at its end
		if !(c.buddy && c.path == "dma") {
			sp.Trigger = []string{"kernel-new", "d2h-other"}[i%2]
			th.freeAllocMotif(th.seg, sp)
		}
		c.count("canonical_cases|"+name, 1)
	}
	th.drainAll()
	c.flush()
}

// auditFrames: no physical frame may back two live pages (of any buffer of any
// context, the driver's own code / kernarg / packet buffers included). A
// violation is the allocator's defect (property C10's class); the child stops,
// because every later verdict would only be a consequence.
func (c *child) auditFrames(after string) {
	pt := c.d.VerifPageTable()
	type own struct {
		pid  uint64
		va   uint64
		size uint64
	}
	seen := map[uint64]own{}
	for _, ctx := range c.d.VerifContexts() {
		for _, b := range ctx.VerifBuffers() {
			if b.Freed {
				continue
			}
			for va := uint64(b.Ptr); va < uint64(b.Ptr)+b.Size; va += pageSize {
				page, ok := pt.Find(b.PID, va)
				if !ok {
					continue
				}
				me := own{uint64(b.PID), va, b.Size}
				if o, dup := seen[page.PAddr]; dup && (o.pid != me.pid || o.va>>12 != me.va>>12) {
					alloc := "default-allocator"
					if c.buddy {
						alloc = "buddy-allocator"
					}
					c.violation("C11|physical-frame-backs-two-live-pages|"+alloc,
						fmt.Sprintf("after %s: physical frame 0x%x backs page 0x%x of a live %d-byte buffer of pid %d and page 0x%x of a live %d-byte buffer of pid %d (allocator handed out a frame that is still owned: every copy into one buffer changes the other)",
							after, page.PAddr, o.va, o.size, o.pid, me.va, me.size, me.pid), map[string]any{"recent_ops": c.recentOps()})
					c.flush()
					c.rec.Note("verdict", "frame-owned-twice")
					os.Exit(3)
				}
				seen[page.PAddr] = me
			}
		}
	}
	if debugTrace && false {
		for _, ctx := range c.d.VerifContexts() {
			for _, b := range ctx.VerifBuffers() {
				page, _ := pt.Find(b.PID, uint64(b.Ptr))
				fmt.Printf("  pid %d buffer 0x%x size %d freed %v -> frame 0x%x\n", b.PID, uint64(b.Ptr), b.Size, b.Freed, page.PAddr)
			}
		}
	}
	c.count("frame_ownership_audits", 1)
}
